import GoCrypt.Model.TypeCache
import GoCrypt.Model.Dispatch

/-!
# Interleaving model of the library's shared mutable state

The library has exactly two pieces of shared mutable state:

* `typeCache sync.Map` in `hash/typeinfo.go` (used by `getTypeInfo`, which every `Marshal` /
  `Unmarshal`, hence every `Check` / `NewHash` / `Params` of every scheme, goes through);
* `hashCache sync.Map` in `crypt.go` (`RegisterHash` = `Store`, `Check` = `Load` + call).

Everything else a call touches is reachable only from its own arguments / locals (this is what the
purity and flow suites measure), so a concurrent execution of the library is an interleaving of
`getTypeInfo` calls and registry operations.

## `getTypeInfo` as a sequence of atomic steps

    typ := indirectType(t)
    f, ok := typeCache.Load(typ)                 -- step `load`          (sync.Map op, atomic)
    if !ok {
      info := getRawTypeInfo(typ); info.Struct = t
      if err := info.normalize(); err != nil { return nil, err }
                                                 -- step `allocAndFill`  (plain writes, FRESH object)
      f, _ = typeCache.LoadOrStore(typ, info)    -- step `loadOrStore`   (sync.Map op, atomic)
    }
    ti := *f.(*typeInfo)                         -- step `readPublished` (plain READ of *f)
                                                 -- step `allocCopy`     (plain write, FRESH object ti)
    ti.Struct = t                                -- step `writeStruct`   (plain write, object ti)
    return &ti, nil                              -- pc `doneOk`

With `returnsAlias = true` (the earlier, defective code `ti := &(*f.(*typeInfo)); ti.Struct = t;
return ti`) the last three steps collapse into ONE plain WRITE of `Struct` on the shared object `*f`,
and the call returns `f` itself.

`sync.Map` operations are linearizable, hence atomic steps; by the Go memory model a `LoadOrStore`
that stores is *synchronized before* every `Load` / `LoadOrStore` that observes the stored value.
Every other step performs plain accesses to exactly one heap object and is recorded as an event.
The scheduler may interleave the steps of any number of threads in any order.
-/

namespace GoCrypt.Conc
open GoCrypt.Codec GoCrypt.TypeCache

abbrev Tid := Nat
abbrev ObjId := Nat

/-- A heap object of Go type `typeInfo`. `info` stands for all fields except `Struct`.
`owner`/`published` are ghost fields: the allocating thread, and whether the object has been made
reachable from the shared map. -/
structure Obj where
  info : TypeInfo
  structField : ArgType
  owner : Tid
  published : Bool
  deriving Repr, DecidableEq

inductive AccessKind where
  | read | write
  deriving Repr, DecidableEq

/-- Which fields a plain access touches: the whole object (`*f`, initialisation) or only `Struct`. -/
inductive Fld where
  | all | structField
  deriving Repr, DecidableEq

/-- Trace events: plain accesses, and the two kinds of synchronising map operations that matter for
happens-before: a storing `LoadOrStore` (`publish`) and a `Load`/`LoadOrStore` that observes a
stored pointer (`acquire`). -/
inductive Event where
  | access (tid : Tid) (obj : ObjId) (fld : Fld) (kind : AccessKind)
  | publish (tid : Tid) (obj : ObjId)
  | acquire (tid : Tid) (obj : ObjId)
  deriving Repr, DecidableEq

def Event.tid : Event → Tid
  | .access t _ _ _ => t
  | .publish t _ => t
  | .acquire t _ => t

def Event.obj : Event → ObjId
  | .access _ o _ _ => o
  | .publish _ o => o
  | .acquire _ o => o

def Event.isAccess : Event → Bool
  | .access .. => true
  | _ => false

def Event.isWrite : Event → Bool
  | .access _ _ _ .write => true
  | _ => false

def Event.isPublish : Event → Bool
  | .publish .. => true
  | _ => false

/-- Program counter of one `getTypeInfo` call (with the thread's registers). -/
inductive Pc where
  | start                                      -- before `typeCache.Load`
  | miss                                       -- `Load` missed
  | filled (o : ObjId)                         -- `info` allocated, filled, normalized; before `LoadOrStore`
  | got (o : ObjId)                            -- `f` = pointer to the published object
  | copying (info : TypeInfo) (s : ArgType)    -- `*f` has been read into registers
  | copied (o : ObjId)                         -- local `ti` allocated and initialised with the copy
  | doneOk (o : ObjId)                         -- returned `(&ti, nil)`
  | doneErr (e : TagErr)                       -- returned `(nil, err)`
  deriving Repr, DecidableEq

def Pc.isDone : Pc → Bool
  | .doneOk _ | .doneErr _ => true
  | _ => false

structure Thread where
  arg : ArgType
  pc : Pc
  deriving Repr, DecidableEq

structure State where
  cache : TypeKey → Option ObjId     -- `typeCache`, an atomic map
  heap : List Obj                    -- `ObjId` = index
  threads : List Thread              -- `Tid` = index
  trace : List Event                 -- oldest event first

def init (args : List ArgType) : State :=
  { cache := fun _ => none, heap := [], threads := args.map (⟨·, .start⟩), trace := [] }

/-- One atomic step of thread `tid`. A finished (or non-existent) thread stutters. -/
def step (returnsAlias : Bool) (compute : TypeKey → Except TagErr TypeInfo) (st : State) (tid : Tid) : State :=
  match st.threads[tid]? with
  | none => st
  | some th =>
    match th.pc with
    | .start =>                                                     -- `load`
      match st.cache th.arg.key with
      | some o => { st with threads := st.threads.set tid { th with pc := .got o },
                            trace := st.trace ++ [.acquire tid o] }
      | none => { st with threads := st.threads.set tid { th with pc := .miss } }
    | .miss =>                                                      -- `allocAndFill`
      match compute th.arg.key with
      | .error e => { st with threads := st.threads.set tid { th with pc := .doneErr e } }
      | .ok info =>
        { st with heap := st.heap ++ [{ info := info, structField := th.arg, owner := tid, published := false }],
                  threads := st.threads.set tid { th with pc := .filled st.heap.length },
                  trace := st.trace ++ [.access tid st.heap.length .all .write] }
    | .filled o =>                                                  -- `loadOrStore`
      match st.cache th.arg.key with
      | some w => { st with threads := st.threads.set tid { th with pc := .got w },
                            trace := st.trace ++ [.acquire tid w] }
      | none =>
        { st with cache := fun k => if k = th.arg.key then some o else st.cache k,
                  heap := st.heap.modify o fun obj => { obj with published := true },
                  threads := st.threads.set tid { th with pc := .got o },
                  trace := st.trace ++ [.publish tid o] }
    | .got o =>
      if returnsAlias then                                          -- defective `writeStruct` on `*f`
        { st with heap := st.heap.modify o fun obj => { obj with structField := th.arg },
                  threads := st.threads.set tid { th with pc := .doneOk o },
                  trace := st.trace ++ [.access tid o .structField .write] }
      else                                                          -- `readPublished`
        match st.heap[o]? with
        | none => st
        | some obj =>
          { st with threads := st.threads.set tid { th with pc := .copying obj.info obj.structField },
                    trace := st.trace ++ [.access tid o .all .read] }
    | .copying info s =>                                            -- `allocCopy`
      { st with heap := st.heap ++ [{ info := info, structField := s, owner := tid, published := false }],
                threads := st.threads.set tid { th with pc := .copied st.heap.length },
                trace := st.trace ++ [.access tid st.heap.length .all .write] }
    | .copied o =>                                                  -- `writeStruct` on the local copy
      { st with heap := st.heap.modify o fun obj => { obj with structField := th.arg },
                threads := st.threads.set tid { th with pc := .doneOk o },
                trace := st.trace ++ [.access tid o .structField .write] }
    | .doneOk _ => st
    | .doneErr _ => st

/-- Run a schedule (a list of thread ids, arbitrary interleaving). -/
def exec (returnsAlias : Bool) (compute : TypeKey → Except TagErr TypeInfo) : State → List Tid → State
  | st, [] => st
  | st, t :: ts => exec returnsAlias compute (step returnsAlias compute st t) ts

/-- The states reachable by `n` threads with argument types `args` under some schedule. -/
def run (returnsAlias : Bool) (compute : TypeKey → Except TagErr TypeInfo) (args : List ArgType) (sched : List Tid) : State :=
  exec returnsAlias compute (init args) sched

/-- What the caller of thread `tid` observes through the returned pointer (in state `st`):
`none` while the call is still running. -/
def result (st : State) (tid : Tid) : Option (Except TagErr Result) :=
  match st.threads[tid]? with
  | none => none
  | some th =>
    match th.pc with
    | .doneErr e => some (.error e)
    | .doneOk o => st.heap[o]?.map fun obj => .ok ⟨obj.info, obj.structField⟩
    | _ => none

/-! ## Happens-before and data races on a trace -/

/-- Happens-before on trace positions: program order ∪ synchronisation through the atomic map
(a storing `LoadOrStore` is synchronized before every map operation that observes the stored
pointer), transitively closed. -/
inductive HB (tr : List Event) : Nat → Nat → Prop where
  | po {i j : Nat} {e₁ e₂ : Event} : i < j → tr[i]? = some e₁ → tr[j]? = some e₂ → e₁.tid = e₂.tid → HB tr i j
  | sw {i j : Nat} {t u : Tid} {o : ObjId} : i < j → tr[i]? = some (.publish t o) → tr[j]? = some (.acquire u o) → HB tr i j
  | trans {i k j : Nat} : HB tr i k → HB tr k j → HB tr i j

/-- A data race: two plain accesses to the same object by different threads, at least one of them a
write, not ordered by happens-before. (Object granularity: coarser than field granularity, so
race-freedom here implies race-freedom per field.) -/
def Race (tr : List Event) (i j : Nat) : Prop :=
  ∃ t u o f₁ f₂ k₁ k₂, i < j ∧ tr[i]? = some (.access t o f₁ k₁) ∧ tr[j]? = some (.access u o f₂ k₂) ∧
    t ≠ u ∧ (k₁ = .write ∨ k₂ = .write) ∧ ¬ HB tr i j

def RaceFree (tr : List Event) : Prop := ∀ i j, ¬ Race tr i j

/-- The simple ownership discipline on a trace (sufficient for `RaceFree`, see
`Proofs/Conc.lean: disciplined_raceFree`):
* `writeLocal`: when an object is written, no other thread has ever touched it and it has not been
  published or acquired (it is thread-local and owned by the writer);
* `publishOwn`: an object is published only by the sole thread that has touched it;
* `acquireAfterPublish`: a pointer obtained from the map was stored there before;
* `touchVisible`: a thread touches an object only if it is the only one that has touched it so far,
  or it published the object itself, or it obtained the pointer from the atomic map. -/
structure Disciplined (tr : List Event) : Prop where
  writeLocal : ∀ (j : Nat) (e : Event), tr[j]? = some e → e.isWrite = true →
    ∀ (i : Nat) (e' : Event), i < j → tr[i]? = some e' → e'.obj = e.obj → e'.tid = e.tid ∧ e'.isAccess = true
  publishOwn : ∀ (p : Nat) (t : Tid) (o : ObjId), tr[p]? = some (Event.publish t o) →
    ∀ (i : Nat) (e' : Event), i < p → tr[i]? = some e' → e'.obj = o → e'.tid = t
  acquireAfterPublish : ∀ (a : Nat) (u : Tid) (o : ObjId), tr[a]? = some (Event.acquire u o) →
    ∃ (p : Nat) (t : Tid), p < a ∧ tr[p]? = some (Event.publish t o)
  touchVisible : ∀ (j : Nat) (e : Event), tr[j]? = some e →
    (∀ (i : Nat) (e' : Event), i < j → tr[i]? = some e' → e'.obj = e.obj → e'.tid = e.tid) ∨
    (∃ p, p < j ∧ tr[p]? = some (Event.publish e.tid e.obj)) ∨
    (∃ a, a ≤ j ∧ tr[a]? = some (Event.acquire e.tid e.obj))

/-! ## The handler registry (`hashCache`)

`RegisterHash(prefix, check)` is one atomic `Store`; `Check` computes the prefix from its argument
(pure), performs one atomic `Load` and then calls the loaded handler (a pure function of its
arguments) — `Dispatch.check`. A concurrent execution is an interleaving of these atomic
operations. -/

inductive RegOp (α : Type) where
  | store (tid : Tid) (p : Bytes) (f : α)      -- `RegisterHash`
  | load (tid : Tid) (p : Bytes)               -- the `Load` inside `Check`
  deriving Repr, DecidableEq

/-- Registry state after a schedule of operations. -/
def regExec {α} : Dispatch.Registry α → List (RegOp α) → Dispatch.Registry α
  | r, [] => r
  | r, .store _ p f :: ops => regExec (Dispatch.register r p f) ops
  | r, .load _ _ :: ops => regExec r ops

/-- What the `i`-th operation of the schedule returns if it is a load. -/
def regLoadResult {α} (r₀ : Dispatch.Registry α) (ops : List (RegOp α)) (i : Nat) : Option (Option α) :=
  match ops[i]? with
  | some (.load _ p) => some (Dispatch.lookup (regExec r₀ (ops.take i)) p)
  | _ => none

/-- What a `Check(h, pw)` whose `Load` is the `i`-th operation of the schedule does. -/
def regCheckOutcome {α} (r₀ : Dispatch.Registry α) (ops : List (RegOp α)) (i : Nat) (h pw : Bytes) : Dispatch.Outcome α :=
  Dispatch.check (regExec r₀ (ops.take i)) h pw

end GoCrypt.Conc
