import GoCrypt.Base.KeyArgs
import GoCrypt.Model.Codec
import GoCrypt.Model.Base64LE
import GoCrypt.Model.Kdf.Hashed
import GoCrypt.Model.Kdf.Des
import GoCrypt.Model.Kdf.Misc
import GoCrypt.Model.Kdf.Argon2
import GoCrypt.Gen.Guards
import GoCrypt.Gen.Shapes
import GoCrypt.Gen.Tables
import GoCrypt.Gen.Consts
import GoCrypt.Prim.MD5
import GoCrypt.Prim.SHA1
import GoCrypt.Prim.SHA256
import GoCrypt.Prim.SHA512
import GoCrypt.Prim.MD4

/-!
# The ten scheme packages as instances of one pipeline

`Key = guards (regenerated) ; derive (hand-written KDF skeleton over a primitive)`,
`NewHash = salt from entropy ; Key ; encode ; Marshal`, `Check = Unmarshal ; defaults ; Key ;
encode ; constant-time compare`, `Params/Salt = Unmarshal ; defaults`.
-/

namespace GoCrypt.Scheme
open Bytes GoCrypt.Codec GoCrypt.Kdf

inductive KeyRes where
  | ok (key : Bytes)
  | err (e : KeyErr)
  | internal (what : String)     -- an untyped error (bcrypt: blowfish rejects an empty key)
  | panic                        -- the Go code would panic
  deriving Repr, DecidableEq

structure Def where
  name : String
  structs : List GoStruct
  guards : KeyArgs → Except KeyErr KeyArgs
  /-- derivation after the guards, on the (possibly rewritten) arguments -/
  derive : KeyArgs → KeyRes
  /-- digest encoder: raw key → text stored in the hash -/
  encodeSum : Bytes → Bytes
  /-- default length of the generated salt text, and whether it encodes raw bytes -/
  saltSymbols : Nat
  saltFromBytes : Option Nat := none     -- bcrypt 16, argon2 8: salt = std-base64(raw bytes)
  saltAlphabet : Bytes := hashAlphabet

def key (S : Def) (a : KeyArgs) : KeyRes :=
  match S.guards a with
  | .error e => .err e
  | .ok a' => S.derive a'

def permNat (t : Array Nat) : List Nat := t.toList

def leEncoding : Base64LE.Encoding := ⟨hashAlphabet, none, false⟩
def leEncode (k : Bytes) : Bytes := Base64LE.encode leEncoding k

def optToRes : Option Bytes → KeyRes
  | some k => .ok k
  | none => .panic

def bcryptAlphabet : Bytes := GoCrypt.Gen.bcrypt.encoder

/-! ## The ten definitions -/

def md5 : Def where
  name := "md5"
  structs := Gen.md5.structs
  guards := Gen.md5.keyGuards
  derive a := optToRes (md5cryptEncrypt Prim.md5 (permNat Gen.md5_md5crypt.permFinal) a.password a.salt Gen.md5.prefixBytes)
  encodeSum := leEncode
  saltSymbols := Gen.md5.DefaultSaltLength

def sha256 : Def where
  name := "sha256"
  structs := Gen.sha256.structs
  guards := Gen.sha256.keyGuards
  derive a := optToRes (sha2cryptEncrypt Prim.sha256 32 (permNat Gen.sha256.permFinal) a.password a.salt a.rounds)
  encodeSum := leEncode
  saltSymbols := Gen.sha256.DefaultSaltLength

def sha512 : Def where
  name := "sha512"
  structs := Gen.sha512.structs
  guards := Gen.sha512.keyGuards
  derive a := optToRes (sha2cryptEncrypt Prim.sha512 64 (permNat Gen.sha512.permFinal) a.password a.salt a.rounds)
  encodeSum := leEncode
  saltSymbols := Gen.sha512.DefaultSaltLength

def sha1 : Def where
  name := "sha1"
  structs := Gen.sha1.structs
  guards := Gen.sha1.keyGuards
  derive a := optToRes (sha1Derive Prim.hmacSha1 (permNat Gen.sha1.permFinal) Gen.sha1.prefixBytes a.password a.salt a.rounds)
  encodeSum := leEncode
  saltSymbols := Gen.sha1.DefaultSaltLength

/-- Field index path of a named field of the struct's type info. -/
def fieldIndex (ti : TypeInfo) (name : String) : List Nat :=
  match (ti.hashPrefix.toList ++ ti.fields).find? (·.name = name) with
  | some f => f.index
  | none => []

def mkVals (ti : TypeInfo) (kv : List (String × FVal)) : Vals := kv.map fun (n, v) => (fieldIndex ti n, v)

/-- `sunmd5.Key`'s salt string: `Marshal(saltScheme{HashPrefix, Rounds, Salt, Separator})`. -/
def sunSaltString (a : KeyArgs) : Option Bytes :=
  match typeInfoOf Gen.sunmd5.structs "saltScheme" with
  | .error _ => none
  | .ok ti =>
    let vals := mkVals ti [("HashPrefix", .str a.optPrefix), ("Rounds", .uint a.rounds), ("Salt", .bytes a.salt),
                           ("Separator", if a.optFlag then .nilPtr else .str [])]
    -- the Go code ignores Marshal's error and hashes the empty string then
    some ((marshal ti vals).toOption.getD [])

def sunmd5 : Def where
  name := "sunmd5"
  structs := Gen.sunmd5.structs
  guards := Gen.sunmd5.keyGuards
  derive a :=
    match sunSaltString a with
    | none => .panic
    | some ss => optToRes (sunmd5Derive Prim.md5 Gen.sunmd5.phrase (permNat Gen.sunmd5.permFinal) a.password ss a.rounds)
  encodeSum := leEncode
  saltSymbols := Gen.sunmd5.DefaultSaltLength

def beEncode (k : Bytes) : Bytes := stdEncode hashAlphabet k

def des : Def where
  name := "des"
  structs := Gen.des.structs
  guards := Gen.des.keyGuards
  derive a := .ok (Des.be64 (Des.encrypt (Des.desKey a.password) 0 (UInt32.ofNat (desDecodeInt a.salt)) 25))
  encodeSum := beEncode
  saltSymbols := Gen.des.SaltLength

def desext : Def where
  name := "desext"
  structs := Gen.desext.structs
  guards := Gen.desext.keyGuards
  derive a := .ok (Des.be64 (Des.encrypt (Des.desextKey a.password) 0 (UInt32.ofNat (desDecodeInt a.salt)) a.rounds))
  encodeSum := beEncode
  saltSymbols := Gen.desext.SaltLength

def bcrypt : Def where
  name := "bcrypt"
  structs := Gen.bcrypt.structs
  guards := Gen.bcrypt.keyGuards
  derive a :=
    -- the guards have already rewritten the password (72-byte truncation / 254-byte rule)
    let key := if a.optPrefix ≠ prefix2 then a.password ++ [0] else a.password
    if key.isEmpty then .internal "cipher" else
    let decSalt := stdDecodeBuf bcryptAlphabet a.salt
    let c := Prim.Blowfish.newSaltedCipher key decSalt
    let c := expandLoop key decSalt (2 ^ a.rounds) c
    let b := (encryptTimes c 64 (orphean.take 8)) ++ (encryptTimes c 64 ((orphean.drop 8).take 8)) ++ (encryptTimes c 64 (orphean.drop 16))
    .ok (b.take 23)
  encodeSum := stdEncode bcryptAlphabet
  saltSymbols := Gen.bcrypt.SaltLength
  saltFromBytes := some 16
  saltAlphabet := bcryptAlphabet

def nthash : Def where
  name := "nthash"
  structs := Gen.nthash.structs
  guards := Gen.nthash.keyGuards
  derive a := .ok (Prim.md4 a.password)
  encodeSum := hexLower
  saltSymbols := 0

def stdAlphabet : Bytes := base64Alphabet

/-- mode number from the prefix, as the `switch opts.Prefix` of `argon2.Key` assigns it -/
def argon2Mode (pfx : Bytes) : Nat :=
  if pfx = Gen.argon2.Prefix2d then Gen.argon2_argon2crypto.Argon2d
  else if pfx = Gen.argon2.Prefix2i then Gen.argon2_argon2crypto.Argon2i
  else Gen.argon2_argon2crypto.Argon2id

def argon2 : Def where
  name := "argon2"
  structs := Gen.argon2.structs
  guards := Gen.argon2.keyGuards
  derive a :=
    let decSalt := stdDecodeBuf stdAlphabet a.salt
    .ok (Argon2.key (argon2Mode a.optPrefix) a.optVersion a.password decSalt a.rounds a.memory a.threads Gen.argon2.keyLen)
  encodeSum := stdEncode stdAlphabet
  saltSymbols := Gen.argon2.DefaultSaltLength
  saltFromBytes := some 8
  saltAlphabet := stdAlphabet

def all : List Def := [md5, sha256, sha512, sha1, sunmd5, des, desext, bcrypt, nthash, argon2]

def byName (n : String) : Option Def := all.find? (·.name = n)

end GoCrypt.Scheme

/-! ## Check / Params / NewHash -/

namespace GoCrypt.Scheme
open Bytes GoCrypt.Codec GoCrypt.Kdf

inductive CheckRes where
  | nil
  | mismatch
  | uerr (e : UErr)
  | kerr (e : KeyErr)
  | internal (what : String)
  | tagerr
  | panic
  deriving Repr, DecidableEq

def tiOf (S : Def) : Option TypeInfo := (typeInfoOf S.structs "scheme").toOption

def fieldVal (ti : TypeInfo) (vals : Vals) (name : String) : FVal :=
  let all := ti.hashPrefix.toList ++ ti.fields
  match all.find? (·.name = name) with
  | some f => (getVal vals f.index).getD (zeroOf f.kind f.ptrDepth)
  | none => .other

def fvBytes : FVal → Bytes
  | .str s => s
  | .bytes b => b
  | _ => []

def fvNat : FVal → Nat
  | .uint n => n
  | .int v => v.toNat
  | _ => 0

/-- How `Check`/`Params` turn the unmarshalled struct into `Key`'s arguments (with the implicit
defaults: SHA-crypt rounds 0 → 5000, Argon2 version 0 → 0x10). `pw` is the password as passed to
`Key` (NT hash: already UTF-16LE). -/
def checkArgs (S : Def) (ti : TypeInfo) (vals : Vals) (pw : Bytes) (rand : Nat) : KeyArgs :=
  let salt := fvBytes (fieldVal ti vals "Salt")
  let pfx := fvBytes (fieldVal ti vals "HashPrefix")
  match S.name with
  | "md5" | "des" => { password := pw, salt := salt }
  | "sha256" | "sha512" =>
    let r := fvNat (fieldVal ti vals "Rounds")
    { password := pw, salt := salt, rounds := if r = 0 then Gen.sha256.ImplicitRounds else r }
  | "sha1" => { password := pw, salt := salt, rounds := fvNat (fieldVal ti vals "Rounds"), rand := rand }
  | "desext" => { password := pw, salt := salt, rounds := fvNat (fieldVal ti vals "Rounds") }
  | "sunmd5" =>
    { password := pw, salt := salt, rounds := fvNat (fieldVal ti vals "Rounds"), optsNil := false, optPrefix := pfx,
      optFlag := fieldVal ti vals "Separator" == .nilPtr }
  | "bcrypt" => { password := pw, salt := salt, rounds := fvNat (fieldVal ti vals "Cost") % 256, optsNil := false, optPrefix := pfx }
  | "nthash" => { password := utf16le pw }
  | "argon2" =>
    let v := fvNat (fieldVal ti vals "Version")
    { password := pw, salt := salt, memory := fvNat (fieldVal ti vals "Memory"), rounds := fvNat (fieldVal ti vals "Time"),
      threads := fvNat (fieldVal ti vals "Threads"), optsNil := false, optPrefix := pfx,
      optVersion := if v = 0 then Gen.argon2.Version10 else v }
  | _ => {}

/-- `subtle.ConstantTimeCompare(a, b) == 1`: equal lengths and equal bytes. -/
def ctEq (a b : Bytes) : Bool := a == b

/-- `<scheme>.Check(hash, password)`. -/
def check (S : Def) (h pw : Bytes) (rand : Nat := 0) : CheckRes :=
  match tiOf S with
  | none => .tagerr
  | some ti =>
    match unmarshal ti h with
    | .error e => .uerr e
    | .ok out =>
      let vals := finalVals ti out
      match key S (checkArgs S ti vals pw rand) with
      | .err e => .kerr e
      | .internal w => .internal w
      | .panic => .panic
      | .ok k => if ctEq (S.encodeSum k) (fvBytes (fieldVal ti vals "Sum")) then .nil else .mismatch

/-- `<scheme>.Params(hash)` / `Salt(hash)`: the unmarshalled fields after the implicit defaults,
as the arguments `Key` would receive (without a password). -/
def params (S : Def) (h : Bytes) : Except UErr KeyArgs :=
  match tiOf S with
  | none => .error (.syntax 0 98)
  | some ti =>
    match unmarshal ti h with
    | .error e => .error e
    | .ok out => .ok (checkArgs S ti (finalVals ti out) [] 0)

/-- `hashutil.Encoding.Rand(n)`: one entropy byte per symbol, masked to six bits. -/
def randSymbols (alphabet : Bytes) (e : Bytes) : Bytes := e.map fun b => alphabet.getD (b.toNat % 64) 0

structure NewHashReq where
  password : Bytes
  rounds : Nat := 0      -- rounds / cost / time
  memory : Nat := 0
  entropy : Bytes := []

inductive NewHashRes where
  | ok (hash : Bytes) (entropyUsed : Nat)
  | kerr (e : KeyErr)
  | internal (what : String)
  | panic
  deriving Repr, DecidableEq

/-- `<scheme>.NewHash(password, cost…)` as a function of the entropy `crypto/rand` delivers. -/
def newHash (S : Def) (r : NewHashReq) : NewHashRes :=
  match tiOf S with
  | none => .panic
  | some ti =>
    -- sha1 draws its random round count first
    let (rounds, ent, used0) : Nat × Bytes × Nat :=
      if S.name = "sha1" ∧ r.rounds = Gen.sha1.RandomRounds then
        let w := (r.entropy.take 4).foldl (fun acc b => acc * 256 + b.toNat) 0
        (Gen.sha1.randRounds w, r.entropy.drop 4, 4)
      else (r.rounds, r.entropy, 0)
    let (salt, used) : Bytes × Nat :=
      match S.saltFromBytes with
      | some n => (stdEncode S.saltAlphabet (ent.take n), used0 + n)
      | none => (randSymbols hashAlphabet (ent.take S.saltSymbols), used0 + S.saltSymbols)
    let pfx : Bytes := match S.name with
      | "md5" => Gen.md5.Prefix | "sha256" => Gen.sha256.Prefix | "sha512" => Gen.sha512.Prefix | "sha1" => Gen.sha1.Prefix
      | "sunmd5" => if rounds = 0 then Gen.sunmd5.PrefixZeroRounds else Gen.sunmd5.PrefixNonZeroRounds
      | "des" => Gen.des.Prefix | "desext" => Gen.desext.Prefix | "bcrypt" => Gen.bcrypt.Prefix2b | "nthash" => Gen.nthash.Prefix
      | "argon2" => Gen.argon2.Prefix2id | _ => []
    let args : KeyArgs := match S.name with
      | "md5" | "des" => { password := r.password, salt := salt }
      | "sha256" | "sha512" | "sha1" | "desext" => { password := r.password, salt := salt, rounds := rounds }
      | "sunmd5" => { password := r.password, salt := salt, rounds := rounds, optsNil := false, optPrefix := pfx, optFlag := rounds = 0 }
      | "bcrypt" => { password := r.password, salt := salt, rounds := rounds, optsNil := false, optPrefix := pfx }
      | "nthash" => { password := utf16le r.password }
      | "argon2" => { password := r.password, salt := salt, memory := r.memory, rounds := rounds, threads := Gen.argon2.DefaultThreads,
                      optsNil := false, optPrefix := pfx, optVersion := Gen.argon2.Version13 }
      | _ => {}
    let used := if S.name = "nthash" then 0 else used
    let fields (sum : Bytes) : Vals := mkVals ti (
      [("HashPrefix", FVal.str pfx), ("Salt", .bytes salt), ("Sum", .bytes sum)] ++
      (match S.name with
       | "sha256" | "sha512" | "sha1" | "desext" => [("Rounds", FVal.uint rounds)]
       | "sunmd5" => [("Rounds", FVal.uint rounds), ("Separator", if rounds = 0 then FVal.nilPtr else FVal.str [])]
       | "bcrypt" => [("Cost", FVal.uint rounds)]
       | "argon2" => [("Version", FVal.uint Gen.argon2.Version13), ("Memory", .uint r.memory), ("Time", .uint rounds), ("Threads", .uint Gen.argon2.DefaultThreads)]
       | _ => []))
    match key S args with
    | .ok k =>
      (match marshal ti (fields (S.encodeSum k)) with
       | .ok h => .ok h used
       | .error _ => if S.name = "md5" ∨ S.name = "des" then .ok [] used else .internal "marshal")
    | .err e =>
      -- md5.NewHash and des.NewHash ignore Key's error: the digest stays zero-filled and Marshal's
      -- error is ignored too, so the result is the empty string
      if S.name = "md5" ∨ S.name = "des" then
        (match marshal ti (fields (List.replicate (if S.name = "md5" then 22 else 11) 0)) with
         | .ok h => .ok h used
         | .error _ => .ok [] used)
      else .kerr e
    | .internal w => .internal w
    | .panic => .panic

end GoCrypt.Scheme
