import GoCrypt.Base.KeyArgs
import GoCrypt.Model.Codec
import GoCrypt.Model.Base64LE
import GoCrypt.Model.Kdf.Hashed
import GoCrypt.Model.Kdf.Des
import GoCrypt.Model.Kdf.Misc
import GoCrypt.Model.Kdf.Argon2
import GoCrypt.Gen.Guards
import GoCrypt.Gen.Shapes
import GoCrypt.Gen.Tables
import GoCrypt.Gen.Consts
import GoCrypt.Prim.MD5
import GoCrypt.Prim.SHA1
import GoCrypt.Prim.SHA256
import GoCrypt.Prim.SHA512
import GoCrypt.Prim.MD4

/-!
# The ten scheme packages as instances of one pipeline

`Key = guards (regenerated) ; derive (hand-written KDF skeleton over a primitive)`,
`NewHash = salt from entropy ; Key ; encode ; Marshal`, `Check = Unmarshal ; defaults ; Key ;
encode ; constant-time compare`, `Params/Salt = Unmarshal ; defaults`.
-/

namespace GoCrypt.Scheme
open Bytes GoCrypt.Codec GoCrypt.Kdf

inductive KeyRes where
  | ok (key : Bytes)
  | err (e : KeyErr)
  | internal (what : String)     -- an untyped error (bcrypt: blowfish rejects an empty key)
  | panic                        -- the Go code would panic
  deriving Repr, DecidableEq

structure Def where
  name : String
  structs : List GoStruct
  guards : KeyArgs → Except KeyErr KeyArgs
  /-- derivation after the guards, on the (possibly rewritten) arguments -/
  derive : KeyArgs → KeyRes
  /-- digest encoder: raw key → text stored in the hash -/
  encodeSum : Bytes → Bytes
  /-- default length of the generated salt text, and whether it encodes raw bytes -/
  saltSymbols : Nat
  saltFromBytes : Option Nat := none     -- bcrypt 16, argon2 8: salt = std-base64(raw bytes)
  saltAlphabet : Bytes := hashAlphabet

def key (S : Def) (a : KeyArgs) : KeyRes :=
  match S.guards a with
  | .error e => .err e
  | .ok a' => S.derive a'

def permNat (t : Array Nat) : List Nat := t.toList

def leEncoding : Base64LE.Encoding := ⟨hashAlphabet, none, false⟩
def leEncode (k : Bytes) : Bytes := Base64LE.encode leEncoding k

def optToRes : Option Bytes → KeyRes
  | some k => .ok k
  | none => .panic

def bcryptAlphabet : Bytes := GoCrypt.Gen.bcrypt.encoder

/-! ## The ten definitions -/

def md5 : Def where
  name := "md5"
  structs := Gen.md5.structs
  guards := Gen.md5.keyGuards
  derive a := optToRes (md5cryptEncrypt Prim.md5 (permNat Gen.md5_md5crypt.permFinal) a.password a.salt Gen.md5.prefixBytes)
  encodeSum := leEncode
  saltSymbols := Gen.md5.DefaultSaltLength

def sha256 : Def where
  name := "sha256"
  structs := Gen.sha256.structs
  guards := Gen.sha256.keyGuards
  derive a := optToRes (sha2cryptEncrypt Prim.sha256 32 (permNat Gen.sha256.permFinal) a.password a.salt a.rounds)
  encodeSum := leEncode
  saltSymbols := Gen.sha256.DefaultSaltLength

def sha512 : Def where
  name := "sha512"
  structs := Gen.sha512.structs
  guards := Gen.sha512.keyGuards
  derive a := optToRes (sha2cryptEncrypt Prim.sha512 64 (permNat Gen.sha512.permFinal) a.password a.salt a.rounds)
  encodeSum := leEncode
  saltSymbols := Gen.sha512.DefaultSaltLength

def sha1 : Def where
  name := "sha1"
  structs := Gen.sha1.structs
  guards := Gen.sha1.keyGuards
  derive a := optToRes (sha1Derive Prim.hmacSha1 (permNat Gen.sha1.permFinal) Gen.sha1.prefixBytes a.password a.salt a.rounds)
  encodeSum := leEncode
  saltSymbols := Gen.sha1.DefaultSaltLength

/-- Field index path of a named field of the struct's type info. -/
def fieldIndex (ti : TypeInfo) (name : String) : List Nat :=
  match (ti.hashPrefix.toList ++ ti.fields).find? (·.name = name) with
  | some f => f.index
  | none => []

def mkVals (ti : TypeInfo) (kv : List (String × FVal)) : Vals := kv.map fun (n, v) => (fieldIndex ti n, v)

/-- `sunmd5.Key`'s salt string: `Marshal(saltScheme{HashPrefix, Rounds, Salt, Separator})`. -/
def sunSaltString (a : KeyArgs) : Option Bytes :=
  match typeInfoOf Gen.sunmd5.structs "saltScheme" with
  | .error _ => none
  | .ok ti =>
    let vals := mkVals ti [("HashPrefix", .str a.optPrefix), ("Rounds", .uint a.rounds), ("Salt", .bytes a.salt),
                           ("Separator", if a.optFlag then .nilPtr else .str [])]
    -- the Go code ignores Marshal's error and hashes the empty string then
    some ((marshal ti vals).toOption.getD [])

def sunmd5 : Def where
  name := "sunmd5"
  structs := Gen.sunmd5.structs
  guards := Gen.sunmd5.keyGuards
  derive a :=
    match sunSaltString a with
    | none => .panic
    | some ss => optToRes (sunmd5Derive Prim.md5 Gen.sunmd5.phrase (permNat Gen.sunmd5.permFinal) a.password ss a.rounds)
  encodeSum := leEncode
  saltSymbols := Gen.sunmd5.DefaultSaltLength

def beEncode (k : Bytes) : Bytes := stdEncode hashAlphabet k

def des : Def where
  name := "des"
  structs := Gen.des.structs
  guards := Gen.des.keyGuards
  derive a := .ok (Des.be64 (Des.encrypt (Des.desKey a.password) 0 (UInt32.ofNat (desDecodeInt a.salt)) 25))
  encodeSum := beEncode
  saltSymbols := Gen.des.SaltLength

def desext : Def where
  name := "desext"
  structs := Gen.desext.structs
  guards := Gen.desext.keyGuards
  derive a := .ok (Des.be64 (Des.encrypt (Des.desextKey a.password) 0 (UInt32.ofNat (desDecodeInt a.salt)) a.rounds))
  encodeSum := beEncode
  saltSymbols := Gen.desext.SaltLength

def bcrypt : Def where
  name := "bcrypt"
  structs := Gen.bcrypt.structs
  guards := Gen.bcrypt.keyGuards
  derive a :=
    -- the guards have already rewritten the password (72-byte truncation / 254-byte rule)
    let key := if a.optPrefix ≠ prefix2 then a.password ++ [0] else a.password
    if key.isEmpty then .internal "cipher" else
    let decSalt := stdDecodeBuf bcryptAlphabet a.salt
    let c := Prim.Blowfish.newSaltedCipher key decSalt
    let c := expandLoop key decSalt (2 ^ a.rounds) c
    let b := (encryptTimes c 64 (orphean.take 8)) ++ (encryptTimes c 64 ((orphean.drop 8).take 8)) ++ (encryptTimes c 64 (orphean.drop 16))
    .ok (b.take 23)
  encodeSum := stdEncode bcryptAlphabet
  saltSymbols := Gen.bcrypt.SaltLength
  saltFromBytes := some 16
  saltAlphabet := bcryptAlphabet

def nthash : Def where
  name := "nthash"
  structs := Gen.nthash.structs
  guards := Gen.nthash.keyGuards
  derive a := .ok (Prim.md4 a.password)
  encodeSum := hexLower
  saltSymbols := 0

def stdAlphabet : Bytes := base64Alphabet

/-- mode number from the prefix, as the `switch opts.Prefix` of `argon2.Key` assigns it -/
def argon2Mode (pfx : Bytes) : Nat :=
  if pfx = Gen.argon2.Prefix2d then Gen.argon2_argon2crypto.Argon2d
  else if pfx = Gen.argon2.Prefix2i then Gen.argon2_argon2crypto.Argon2i
  else Gen.argon2_argon2crypto.Argon2id

def argon2 : Def where
  name := "argon2"
  structs := Gen.argon2.structs
  guards := Gen.argon2.keyGuards
  derive a :=
    let decSalt := stdDecodeBuf stdAlphabet a.salt
    .ok (Argon2.key (argon2Mode a.optPrefix) a.optVersion a.password decSalt a.rounds a.memory a.threads Gen.argon2.keyLen)
  encodeSum := stdEncode stdAlphabet
  saltSymbols := Gen.argon2.DefaultSaltLength
  saltFromBytes := some 8
  saltAlphabet := stdAlphabet

def all : List Def := [md5, sha256, sha512, sha1, sunmd5, des, desext, bcrypt, nthash, argon2]

def byName (n : String) : Option Def := all.find? (·.name = n)

end GoCrypt.Scheme
