import GoCrypt.Base.GoType
import GoCrypt.Base.Strconv

/-!
# Model of `hash/typeinfo.go`: `getRawTypeInfo`, `normalize`, `field`

Input: the struct description the translator (or the harness, for run-time generated types) supplies
(`GoStruct` list + root name). Output: the field list that drives both `Marshal` and `Unmarshal`.
-/

namespace GoCrypt.Codec
open Bytes

inductive EncKind where
  | hash | base64 | none
  deriving Repr, DecidableEq, Inhabited

structure FieldOpts where
  isPrefix : Bool := false
  omitEmpty : Bool := false
  group : Bool := false
  param : Bytes := []
  enc : EncKind := .hash
  length : Nat := 0
  hasLength : Bool := false
  inline : Bool := false
  base : Nat := 10
  deriving Repr, DecidableEq, Inhabited

structure FieldInfo where
  index : List Nat
  name : String
  kind : GoKind             -- kind of the dereferenced field type
  ptrDepth : Nat
  typeName : String
  tag : Bytes
  marshalText : TextCodec
  unmarshalText : TextCodec
  opts : FieldOpts
  deriving Repr, DecidableEq, Inhabited

structure TypeInfo where
  hashPrefix : Option FieldInfo := none
  fields : List FieldInfo := []
  numReqValues : Nat := 0
  deriving Repr, DecidableEq, Inhabited

inductive TagErr where
  | invalidTag (field : String) (tag : Bytes)
  | paramConflict (f1 f2 : String)
  deriving Repr, DecidableEq

/-- split a tag on ',' -/
def splitComma : Bytes → List Bytes
  | [] => [[]]
  | c :: cs =>
    if c = comma then [] :: splitComma cs
    else match splitComma cs with
      | p :: ps => (c :: p) :: ps
      | [] => [[c]]

def hasPrefix (p s : Bytes) : Bool := p.isPrefixOf s

/-- `strconv.ParseUint(s, 10, bits)` as used for `length:` / `base:` (error ⇒ option ignored). -/
def parseTagNum (s : Bytes) (bits : Nat) : Option Nat :=
  match Strconv.parseUint s 10 bits with
  | .ok v => some v
  | .error _ => none

def pParam : Bytes := [112, 97, 114, 97, 109, 58]            -- "param:"
def pOmitEmpty : Bytes := [111, 109, 105, 116, 101, 109, 112, 116, 121]
def pGroup : Bytes := [103, 114, 111, 117, 112]
def pLength : Bytes := [108, 101, 110, 103, 116, 104, 58]    -- "length:"
def pInline : Bytes := [105, 110, 108, 105, 110, 101]
def pBase : Bytes := [98, 97, 115, 101, 58]                  -- "base:"
def pEnc : Bytes := [101, 110, 99, 58]                       -- "enc:"
def pBase64 : Bytes := [98, 97, 115, 101, 54, 52]
def pNone : Bytes := [110, 111, 110, 101]
def tagDash : Bytes := [45]

/-- One tag option applied to the options record (the `switch` in `getRawTypeInfo`). -/
def applyPart (o : FieldOpts) (part : Bytes) : FieldOpts :=
  if hasPrefix pParam part then { o with param := part.drop 6 }
  else if part = pOmitEmpty then { o with omitEmpty := true }
  else if part = pGroup then { o with group := true }
  else if hasPrefix pLength part then
    match parseTagNum (part.drop 7) 32 with
    | some v => if !o.hasLength || v < o.length then { o with length := v, hasLength := true } else { o with hasLength := true }
    | none => o
  else if part = pInline then { o with inline := true }
  else if hasPrefix pBase part then
    match parseTagNum (part.drop 5) 8 with
    | some v => if 2 ≤ v ∧ v ≤ 36 then { o with base := v } else o
    | none => o
  else if hasPrefix pEnc part then
    (if part.drop 4 = pBase64 then { o with enc := .base64 }
     else if part.drop 4 = pNone then { o with enc := .none }
     else o)
  else o

/-- Options of one (non-embedded-struct) field. The tag loop runs `for tag != ""`, so an empty tag
contributes no part, and a trailing comma contributes no empty part. -/
def fieldOpts (f : GoField) : FieldOpts :=
  let o : FieldOpts := {}
  let o := if f.name = "HashPrefix" then { o with isPrefix := true, enc := .none } else o
  let o := match f.kind with
    | .byteArray n => { o with length := n, hasLength := true }
    | _ => o
  -- Go: `for tag != "" { part, tag = cut(tag, ",") … }` — same parts as splitting on ',' except
  -- that nothing is processed for an empty tag and after a trailing ','.
  let parts := if f.tag = [] then [] else
    let ps := splitComma f.tag
    if ps.getLast? = some [] then ps.dropLast else ps
  parts.foldl applyPart o

def lookupStruct (structs : List GoStruct) (name : String) : Option GoStruct :=
  structs.find? (·.name = name)

/-- `getRawTypeInfo`: flatten embedded structs, skip unexported and `hash:"-"` fields. `fuel` bounds
the embedding depth (Go rejects recursive embedding by value; through pointers the Go code would
not terminate either). -/
def rawFields (structs : List GoStruct) (fuel : Nat) (s : GoStruct) : List FieldInfo :=
  match fuel with
  | 0 => []
  | fuel + 1 =>
    (s.fields.zipIdx).flatMap fun (f, i) =>
      if (!f.exported && !f.anonymous) || f.tag = tagDash then []
      else
        let embedded : Option GoStruct :=
          if f.anonymous then
            match f.kind with
            | .structRef n => lookupStruct structs n
            | _ => none
          else none
        match embedded with
        | some st => (rawFields structs fuel st).map fun fi => { fi with index := i :: fi.index }
        | none =>
          [{ index := [i], name := f.name, kind := f.kind, ptrDepth := f.ptrDepth, typeName := f.typeName, tag := f.tag,
             marshalText := f.marshalText, unmarshalText := f.unmarshalText, opts := fieldOpts f }]

/-- lexicographic `<` on index paths of equal length (as `sort.Slice` in `field`). -/
def indexLt : List Nat → List Nat → Bool
  | [], _ => false
  | _, [] => false
  | a :: as, b :: bs => if a ≠ b then a < b else indexLt as bs

def fieldLess (a b : FieldInfo) : Bool :=
  if a.index.length ≠ b.index.length then a.index.length < b.index.length else indexLt a.index b.index

/-- `typeInfo.field(param)`: the dominant field among those sharing a param name, or a conflict. -/
def resolveParam (fields : List FieldInfo) (param : Bytes) : Except TagErr (Option FieldInfo) :=
  let cands := fields.filter (·.opts.param = param)
  -- conflict: two candidates at the same depth (checked in encounter order, as the Go loop does)
  let rec conflict : List FieldInfo → List FieldInfo → Option (FieldInfo × FieldInfo)
    | [], _ => none
    | f1 :: rest, seen =>
      match seen.find? (fun f2 => f1.index.length = f2.index.length) with
      | some f2 => some (f1, f2)
      | none => conflict rest (seen ++ [f1])
  match conflict cands [] with
  | some (f1, f2) => .error (.paramConflict f1.name f2.name)
  | none =>
    .ok (cands.foldl (fun best f => match best with
      | none => some f
      | some b => if fieldLess f b then some f else some b) none)

def validOpts (o : FieldOpts) : Bool :=
  (!o.omitEmpty || !o.inline) &&
  (!o.group || o.param ≠ []) &&
  (o.param = [] || !o.isPrefix) &&
  (!o.inline || (!o.isPrefix && o.length > 0))

/-- A field that owns a required fragment of its own. -/
def countsAsRequired (f : FieldInfo) : Bool := !f.opts.group && !f.opts.omitEmpty && !f.opts.inline

/-- `typeInfo.normalize`. -/
def normalizeLoop (all : List FieldInfo) : List FieldInfo → TypeInfo → List Bytes → Except TagErr TypeInfo
  | [], ti, _ =>
    -- NumReqValues counts the fields that survive name resolution (after the repair of the shadowed-param
    -- over-count: a param shadowed by an embedded struct's field of the same name is one field, not two)
    .ok { ti with numReqValues := (ti.fields.filter countsAsRequired).length }
  | f :: rest, ti, seen =>
    if !validOpts f.opts then .error (.invalidTag f.name f.tag)
    else if f.opts.isPrefix then normalizeLoop all rest { ti with hashPrefix := some f } seen
    else
      if f.opts.param = [] then normalizeLoop all rest { ti with fields := ti.fields ++ [f] } seen
      else if seen.contains f.opts.param then normalizeLoop all rest ti seen
      else
        match resolveParam all f.opts.param with
        | .error e => .error e
        | .ok none => normalizeLoop all rest ti seen
        | .ok (some fi) => normalizeLoop all rest { ti with fields := ti.fields ++ [fi] } (f.opts.param :: seen)

/-- `getTypeInfo` on a cold cache: raw info, then `normalize`. -/
def typeInfoOf (structs : List GoStruct) (root : String) : Except TagErr TypeInfo :=
  match lookupStruct structs root with
  | none => .ok {}
  | some s =>
    let raw := rawFields structs 8 s
    normalizeLoop raw raw {} []

end GoCrypt.Codec
