import GoCrypt.Base.Bytes
import GoCrypt.Model.Parse

/-!
# Model of `crypt.go`: `RegisterHash` and `Check`

The registry (`sync.Map`) is modelled as an association list, newest binding first; `Store`
prepends and `Load` returns the first match, i.e. an atomic last-writer-wins map.
Handlers are abstract (`α`); the dispatcher's result is either "call handler `f` with the
unchanged arguments and return its result unchanged" or the unknown-hash sentinel.
-/

namespace GoCrypt.Dispatch
open Bytes GoCrypt.Parse

/-- The prefix computed by `crypt.Check`; `none` = `return ErrHash` before any lookup. -/
def prefixOf (h : Bytes) : Option Bytes :=
  match h with
  | [] => some []
  | c :: rest =>
    if c = dollar then
      match indexDelim rest with
      | none => none
      | some 0 => none
      | some (i + 1) => some (h.take (i + 3))
    else if c = underscore then some [underscore]
    else some []

abbrev Registry (α : Type) := List (Bytes × α)

def register {α} (r : Registry α) (p : Bytes) (f : α) : Registry α := (p, f) :: r

def lookup {α} (r : Registry α) (p : Bytes) : Option α :=
  match r with
  | [] => none
  | (q, f) :: rest => if q = p then some f else lookup rest p

inductive Outcome (α : Type) where
  | errHash                              -- `return ErrHash`, no handler called
  | call (f : α) (hash password : Bytes) -- `return f(hash, password)`
  deriving Repr, DecidableEq

/-- `crypt.Check`. -/
def check {α} (r : Registry α) (h pw : Bytes) : Outcome α :=
  match prefixOf h with
  | none => .errHash
  | some p =>
    match lookup r p with
    | some f => .call f h pw
    | none => .errHash

end GoCrypt.Dispatch
