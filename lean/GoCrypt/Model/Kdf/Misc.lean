import GoCrypt.Base.Bytes
import GoCrypt.Prim.Blowfish
import GoCrypt.Prim.MD4

/-!
# Remaining scheme-specific derivations: standard (big-endian) base64, bcrypt, NT hash

* `stdEncode` / `stdDecodeLenient` model `encoding/base64` without padding as the scheme packages use
  it (`hash.BigEndianEncoding`, `bcrypt.Encoding`, `base64.RawStdEncoding`; decode errors are ignored
  by the callers, so the lenient decoder returns what has been decoded before the error).
* `bcryptDerive` mirrors `bcrypt.Key` after the guards (password rewriting, `encode`, `setup`).
* `utf16le` mirrors `nthash.encodePassword` (`utf16.Encode([]rune(s))`, little-endian bytes).
-/

namespace GoCrypt.Kdf

/-! ## encoding/base64, unpadded -/

def stdEncode (alphabet : Bytes) : Bytes → Bytes
  | b0 :: b1 :: b2 :: rest =>
    let v := b0.toNat <<< 16 ||| b1.toNat <<< 8 ||| b2.toNat
    alphabet.getD (v >>> 18 &&& 63) 0 :: alphabet.getD (v >>> 12 &&& 63) 0 ::
      alphabet.getD (v >>> 6 &&& 63) 0 :: alphabet.getD (v &&& 63) 0 :: stdEncode alphabet rest
  | [b0, b1] =>
    let v := b0.toNat <<< 16 ||| b1.toNat <<< 8
    [alphabet.getD (v >>> 18 &&& 63) 0, alphabet.getD (v >>> 12 &&& 63) 0, alphabet.getD (v >>> 6 &&& 63) 0]
  | [b0] =>
    let v := b0.toNat <<< 16
    [alphabet.getD (v >>> 18 &&& 63) 0, alphabet.getD (v >>> 12 &&& 63) 0]
  | [] => []

def symIndex (alphabet : Bytes) (c : UInt8) : Nat := (alphabet.idxOf? c).getD 0

/-- Decode text already known to consist of alphabet symbols; a dangling single symbol (length ≡ 1
mod 4) is an error in Go, which the callers ignore: the bytes of the complete quanta are returned. -/
def stdDecodeLenient (alphabet : Bytes) : Bytes → Bytes
  | c0 :: c1 :: c2 :: c3 :: rest =>
    let v := symIndex alphabet c0 <<< 18 ||| symIndex alphabet c1 <<< 12 ||| symIndex alphabet c2 <<< 6 ||| symIndex alphabet c3
    UInt8.ofNat (v >>> 16) :: UInt8.ofNat (v >>> 8) :: UInt8.ofNat v :: stdDecodeLenient alphabet rest
  | [c0, c1, c2] =>
    let v := symIndex alphabet c0 <<< 18 ||| symIndex alphabet c1 <<< 12 ||| symIndex alphabet c2 <<< 6
    [UInt8.ofNat (v >>> 16), UInt8.ofNat (v >>> 8)]
  | [c0, c1] =>
    let v := symIndex alphabet c0 <<< 18 ||| symIndex alphabet c1 <<< 12
    [UInt8.ofNat (v >>> 16)]
  | _ => []

/-- `make([]byte, DecodedLen(len(text)))` then `Decode` ignoring the error: the decoded bytes,
zero-padded to the buffer length. -/
def stdDecodeBuf (alphabet : Bytes) (text : Bytes) : Bytes :=
  let n := text.length * 6 / 8
  let d := stdDecodeLenient alphabet text
  d.take n ++ List.replicate (n - d.length) 0

/-! ## bcrypt -/

def orphean : Bytes := [79, 114, 112, 104, 101, 97, 110, 66, 101, 104, 111, 108, 100, 101, 114, 83, 99, 114, 121, 68, 111, 117, 98, 116]

def prefix2 : Bytes := [36, 50, 36]        -- "$2$"
def prefix2b : Bytes := [36, 50, 98, 36]   -- "$2b$"

/-- The password bytes handed to the key schedule (before the optional NUL): 2b truncates to 72,
older variants replace a password of 254 or more bytes by 72 '0' characters. -/
def bcryptPassword (pfx pw : Bytes) : Bytes :=
  if pfx = prefix2b ∧ pw.length > 72 then pw.take 72
  else if pw.length ≥ 254 then List.replicate 72 48
  else pw

def expandLoop (key salt : Bytes) : Nat → Prim.Blowfish → Prim.Blowfish
  | 0, c => c
  | n + 1, c => expandLoop key salt n (Prim.Blowfish.expandKey salt (Prim.Blowfish.expandKey key c))

def encryptTimes (c : Prim.Blowfish) : Nat → Bytes → Bytes
  | 0, b => b
  | n + 1, b => encryptTimes c n (Prim.Blowfish.encrypt8 c b)

/-- `encode(password, decSalt, cost, prefix)`; `none` = `blowfish.NewSaltedCipher` rejects an empty key. -/
def bcryptDerive (pfx pw decSalt : Bytes) (cost : Nat) : Option Bytes :=
  let key0 := bcryptPassword pfx pw
  let key := if pfx ≠ prefix2 then key0 ++ [0] else key0
  if key.isEmpty then none else
  let c := Prim.Blowfish.newSaltedCipher key decSalt
  let c := expandLoop key decSalt (2 ^ cost) c
  let b := (encryptTimes c 64 (orphean.take 8)) ++ (encryptTimes c 64 ((orphean.drop 8).take 8)) ++ (encryptTimes c 64 (orphean.drop 16))
  some (b.take 23)

/-! ## NT hash -/

/-- `[]rune(s)`: Go's UTF-8 decoding, each invalid byte yields U+FFFD. -/
def decodeRunes (fuel : Nat) (s : Bytes) : List Nat :=
  match fuel with
  | 0 => []
  | fuel + 1 =>
    match s with
    | [] => []
    | b0 :: rest =>
      let bad (_ : Unit) : List Nat := 0xFFFD :: decodeRunes fuel rest   -- a thunk: evaluated only on the error paths
      let cont (c : UInt8) (lo hi : UInt8) : Bool := lo ≤ c && c ≤ hi
      if b0 < 0x80 then b0.toNat :: decodeRunes fuel rest
      else if 0xC2 ≤ b0 && b0 ≤ 0xDF then
        match rest with
        | b1 :: r => if cont b1 0x80 0xBF then ((b0.toNat &&& 0x1F) <<< 6 ||| (b1.toNat &&& 0x3F)) :: decodeRunes fuel r else bad ()
        | _ => bad ()
      else if 0xE0 ≤ b0 && b0 ≤ 0xEF then
        let lo : UInt8 := if b0 == 0xE0 then 0xA0 else 0x80
        let hi : UInt8 := if b0 == 0xED then 0x9F else 0xBF
        match rest with
        | b1 :: b2 :: r =>
          if cont b1 lo hi && cont b2 0x80 0xBF then
            ((b0.toNat &&& 0x0F) <<< 12 ||| (b1.toNat &&& 0x3F) <<< 6 ||| (b2.toNat &&& 0x3F)) :: decodeRunes fuel r
          else bad ()
        | _ => bad ()
      else if 0xF0 ≤ b0 && b0 ≤ 0xF4 then
        let lo : UInt8 := if b0 == 0xF0 then 0x90 else 0x80
        let hi : UInt8 := if b0 == 0xF4 then 0x8F else 0xBF
        match rest with
        | b1 :: b2 :: b3 :: r =>
          if cont b1 lo hi && cont b2 0x80 0xBF && cont b3 0x80 0xBF then
            ((b0.toNat &&& 0x07) <<< 18 ||| (b1.toNat &&& 0x3F) <<< 12 ||| (b2.toNat &&& 0x3F) <<< 6 ||| (b3.toNat &&& 0x3F)) :: decodeRunes fuel r
          else bad ()
        | _ => bad ()
      else bad ()

/-- `utf16.Encode`: surrogate pairs above the BMP; surrogate-range and out-of-range runes become U+FFFD. -/
def utf16Units (r : Nat) : List Nat :=
  if r < 0xD800 ∨ (0xE000 ≤ r ∧ r < 0x10000) then [r]
  else if 0x10000 ≤ r ∧ r ≤ 0x10FFFF then
    let r' := r - 0x10000
    [0xD800 + (r' >>> 10 &&& 0x3FF), 0xDC00 + (r' &&& 0x3FF)]
  else [0xFFFD]

/-- `nthash.encodePassword`. -/
def utf16le (s : Bytes) : Bytes :=
  ((decodeRunes (s.length + 1) s).flatMap utf16Units).flatMap fun u => [UInt8.ofNat u, UInt8.ofNat (u >>> 8)]

def hexLower (b : Bytes) : Bytes := b.flatMap fun c =>
  let h (n : Nat) : UInt8 := if n < 10 then UInt8.ofNat (48 + n) else UInt8.ofNat (87 + n)
  [h (c.toNat / 16), h (c.toNat % 16)]

end GoCrypt.Kdf
