import GoCrypt.Base.Bytes
import GoCrypt.Prim.Blake2b
import GoCrypt.Gen.Kernels

/-!
# Argon2 — code-shaped model of `argon2/argon2crypto` (generic / `purego` path)

One Lean function per Go function, same order of operations:

| Go (`argon2/argon2crypto`)              | model                      |
|-----------------------------------------|----------------------------|
| `blake2bHash` (blake2b.go)              | `blake2bHash`              |
| `initHash`                              | `initHash`                 |
| `blamkaGeneric` (blamka_generic.go)     | `blamka` (+ `gb`, `mulAdd`)|
| `processBlockGeneric`                   | `processBlock`             |
| `initBlocks`                            | `initBlocks`               |
| `processSegment` closure                | `processSegment`           |
| `processBlocks`                         | `processBlocks`            |
| `extractKey`                            | `extractKey`               |
| `indexAlpha`, `phi`                     | `GoCrypt.Gen.argon2crypto.indexAlpha` (GENERATED, called as is) |
| `Key`                                   | `key`                      |

Conventions
* `uint32` quantities are `Nat`s; every Go operation that can wrap is followed by `u32` (`% 2^32`).
  `uint64` block words are `UInt64` (wrap-around is built in).
* **Indexing discipline: `[i]!` / `set!` everywhere** (no `getD`, no `Option`).  An index that
  would be out of range in Go (a run-time panic there) makes the compiled model print Lean's
  `index out of bounds` panic message, so such a difference is visible rather than defaulted away.
  `set!` out of range is a silent no-op in Lean, therefore writes into the block SLICE `B` (the only
  indexing that can fail in Go — `block` is a fixed-size array indexed by constants `< 128`) go
  through `setB`, which panics like `[i]!` does; `set!` is only used on 128-word blocks with
  indices `< 128`.
* Domain of the correspondence (outside it Go panics: division by zero, `blake2b.New(0)` = nil):
  `1 ≤ threads ≤ 255`, `1 ≤ keyLen < 2^32`, `time, memory < 2^32`, `mode, version ≥ 0`.
* The Go code runs the `threads` segments of one slice as goroutines.  The model runs them
  sequentially (`lane = 0, 1, …`).  This is one of the admissible schedules; a segment only reads
  blocks of *other* lanes that lie in other slices, so all schedules agree.
* `out` may alias `in1`/`in2` in Go (`processBlock(&addresses, &addresses, &zero)`); Go's final loop
  reads `in1[i]`, `in2[i]` and writes `out[i]` at the same `i`, so the functional reading
  "take the old value of `out`" is exact.
-/

namespace GoCrypt.Kdf.Argon2

open GoCrypt

/-! ## constants (argon2.go) -/

def argon2d : Nat := 0
def argon2i : Nat := 1
def argon2id : Nat := 2
def version10 : Nat := 0x10
def version13 : Nat := 0x13
def blockLength : Nat := 128
def syncPoints : Nat := 4
/-- `blake2b.Size` -/
def blake2bSize : Nat := 64

/-- `uint32(·)` -/
@[inline] def u32 (n : Nat) : Nat := n % 4294967296

/-- `binary.LittleEndian.PutUint32` into a 4-byte slice (`v` is truncated to `uint32`). -/
def le32 (v : Nat) : Bytes :=
  [UInt8.ofNat v, UInt8.ofNat (v >>> 8), UInt8.ofNat (v >>> 16), UInt8.ofNat (v >>> 24)]

/-- `binary.LittleEndian.PutUint32(b[off:], v)` on a buffer with `off + 4 ≤ len b`. -/
def putUint32At (b : Bytes) (off v : Nat) : Bytes :=
  b.take off ++ le32 v ++ b.drop (off + 4)

/-! ## blake2b.go -/

/-- `blake2bHash(out, in)` with `len(out) = outLen`; returns the bytes written to `out`. -/
def blake2bHash (outLen : Nat) (input : Bytes) : Bytes :=
  -- b2 = New(n) if n < 64 else New512;  Write(LE32(len(out)));  Write(in)
  let pre := le32 outLen ++ input
  if outLen ≤ blake2bSize then
    -- b2.Sum(out[:0]); return        (n < 64: digest size n;  n = 64: New512)
    Prim.blake2b outLen pre
  else Id.run do
    -- b2.Sum(buffer[:0]); b2.Reset(); copy(out, buffer[:32]); out = out[32:]
    let mut buffer := Prim.blake2b blake2bSize pre
    let mut out : Bytes := buffer.take 32
    let mut rest := outLen - 32                       -- len(out) of the re-sliced `out`
    -- for len(out) > blake2b.Size { … }   (at most outLen/32 iterations: fuel)
    for _ in [0:outLen / 32] do
      if rest > blake2bSize then
        buffer := Prim.blake2b blake2bSize buffer     -- Write(buffer[:]); Sum(buffer[:0])
        out := out ++ buffer.take 32                  -- copy(out, buffer[:32])
        rest := rest - 32                             -- out = out[32:]
    -- if outLen % 64 > 0 { r := (outLen+31)/32 - 2; b2 = New(outLen - 32*r) }  else still New512
    let mut last := blake2bSize
    if outLen % blake2bSize > 0 then
      let r := (outLen + 31) / 32 - 2
      last := outLen - 32 * r
    -- b2.Write(buffer[:]); b2.Sum(out[:0])
    return out ++ Prim.blake2b last buffer

/-! ## initHash -/

/-- `initHash(password, salt, nil, nil, time, memory, threads, keyLen, mode, version)`:
72 bytes = BLAKE2b-512 digest followed by 8 zero bytes.  `key` and `data` are always `nil` in
this code base; their (zero) length words are still hashed. -/
def initHash (password salt : Bytes) (time memory threads keyLen mode version : Nat) : Bytes :=
  let key : Bytes := []
  let data : Bytes := []
  let params := le32 threads ++ le32 keyLen ++ le32 memory ++ le32 time ++ le32 version ++ le32 mode
  let msg := params
    ++ le32 password.length ++ password
    ++ le32 salt.length ++ salt
    ++ le32 key.length ++ key
    ++ le32 data.length ++ data
  Prim.blake2b blake2bSize msg ++ List.replicate 8 0

/-! ## blocks -/

/-- `type block [128]uint64` -/
abbrev Block := Array UInt64

def zeroBlock : Block := Array.replicate blockLength 0

/-- `for i := range b { b[i] = binary.LittleEndian.Uint64(block0[i*8:]) }` -/
def blockOfBytes (block0 : Bytes) : Block := Id.run do
  let a := block0.toArray
  let mut b : Block := zeroBlock
  for i in [0:blockLength] do
    let mut w : UInt64 := 0
    for k in [0:8] do
      w := w ||| ((a[i * 8 + k]!).toUInt64 <<< (UInt64.ofNat (8 * k)))
    b := b.set! i w
  return b

/-- `for i, v := range b { binary.LittleEndian.PutUint64(block[i*8:], v) }` -/
def bytesOfBlock (b : Block) : Bytes := Id.run do
  let mut out : Array UInt8 := Array.emptyWithCapacity 1024
  for i in [0:blockLength] do
    let v := b[i]!
    for k in [0:8] do
      out := out.push (v >>> (UInt64.ofNat (8 * k))).toUInt8
  return out.toList

/-- `B[i] = v` on the slice `B`: bounds-checked like Go (panic message instead of a silent no-op). -/
@[inline] def setB (B : Array Block) (i : Nat) (v : Block) : Array Block :=
  if i < B.size then B.set! i v else panic! "argon2 model: B index out of range (write)"

/-! ## blamka_generic.go -/

/-- `a + b + 2*uint64(uint32(a))*uint64(uint32(b))` -/
@[inline] def mulAdd (a b : UInt64) : UInt64 :=
  a + (b + 2 * a.toUInt32.toUInt64 * b.toUInt32.toUInt64)

/-- One 12-line group of `blamkaGeneric` on the four variables `(a, b, c, d)`:
```
a += b + 2*lo(a)*lo(b); d ^= a; d = d>>32 | d<<32
c += d + 2*lo(c)*lo(d); b ^= c; b = b>>24 | b<<40
a += b + 2*lo(a)*lo(b); d ^= a; d = d>>16 | d<<48
c += d + 2*lo(c)*lo(d); b ^= c; b = b>>63 | b<<1
``` -/
@[inline] def gb (a b c d : UInt64) : UInt64 × UInt64 × UInt64 × UInt64 :=
  let a := mulAdd a b
  let d := d ^^^ a
  let d := (d >>> 32) ||| (d <<< 32)
  let c := mulAdd c d
  let b := b ^^^ c
  let b := (b >>> 24) ||| (b <<< 40)
  let a := mulAdd a b
  let d := d ^^^ a
  let d := (d >>> 16) ||| (d <<< 48)
  let c := mulAdd c d
  let b := b ^^^ c
  let b := (b >>> 63) ||| (b <<< 1)
  (a, b, c, d)

/-- `blamkaGeneric(&t[i00], …, &t[i15])`: the sixteen pointers are given as indices into `t`. -/
def blamka (t : Block) (i00 i01 i02 i03 i04 i05 i06 i07 i08 i09 i10 i11 i12 i13 i14 i15 : Nat) : Block :=
  let v00 := t[i00]!; let v01 := t[i01]!; let v02 := t[i02]!; let v03 := t[i03]!
  let v04 := t[i04]!; let v05 := t[i05]!; let v06 := t[i06]!; let v07 := t[i07]!
  let v08 := t[i08]!; let v09 := t[i09]!; let v10 := t[i10]!; let v11 := t[i11]!
  let v12 := t[i12]!; let v13 := t[i13]!; let v14 := t[i14]!; let v15 := t[i15]!
  -- columns
  let (v00, v04, v08, v12) := gb v00 v04 v08 v12
  let (v01, v05, v09, v13) := gb v01 v05 v09 v13
  let (v02, v06, v10, v14) := gb v02 v06 v10 v14
  let (v03, v07, v11, v15) := gb v03 v07 v11 v15
  -- diagonals
  let (v00, v05, v10, v15) := gb v00 v05 v10 v15
  let (v01, v06, v11, v12) := gb v01 v06 v11 v12
  let (v02, v07, v08, v13) := gb v02 v07 v08 v13
  let (v03, v04, v09, v14) := gb v03 v04 v09 v14
  let t := t.set! i00 v00; let t := t.set! i01 v01; let t := t.set! i02 v02; let t := t.set! i03 v03
  let t := t.set! i04 v04; let t := t.set! i05 v05; let t := t.set! i06 v06; let t := t.set! i07 v07
  let t := t.set! i08 v08; let t := t.set! i09 v09; let t := t.set! i10 v10; let t := t.set! i11 v11
  let t := t.set! i12 v12; let t := t.set! i13 v13; let t := t.set! i14 v14; let t := t.set! i15 v15
  t

/-- `processBlockGeneric(out, in1, in2, xor)`; returns the new contents of `*out`
(`out` is the OLD contents of `*out`, only used when `xor`). -/
def processBlock (out in1 in2 : Block) (xor : Bool) : Block := Id.run do
  let mut t : Block := zeroBlock
  for i in [0:blockLength] do
    t := t.set! i (in1[i]! ^^^ in2[i]!)
  -- for i := 0; i < blockLength; i += 16
  for k in [0:blockLength / 16] do
    let i := 16 * k
    t := blamka t (i+0) (i+1) (i+2) (i+3) (i+4) (i+5) (i+6) (i+7)
                  (i+8) (i+9) (i+10) (i+11) (i+12) (i+13) (i+14) (i+15)
  -- for i := 0; i < blockLength/8; i += 2
  for k in [0:blockLength / 16] do
    let i := 2 * k
    t := blamka t i (i+1) (16+i) (16+i+1) (32+i) (32+i+1) (48+i) (48+i+1)
                  (64+i) (64+i+1) (80+i) (80+i+1) (96+i) (96+i+1) (112+i) (112+i+1)
  let mut out := out
  if xor then
    for i in [0:blockLength] do
      out := out.set! i (out[i]! ^^^ (in1[i]! ^^^ in2[i]! ^^^ t[i]!))
  else
    for i in [0:blockLength] do
      out := out.set! i (in1[i]! ^^^ in2[i]! ^^^ t[i]!)
  return out

/-! ## initBlocks -/

/-- `initBlocks(&h0, memory, threads)` (`memory` is the ROUNDED memory). -/
def initBlocks (h0 : Bytes) (memory threads : Nat) : Array Block := Id.run do
  let mut h0 := h0
  let mut B : Array Block := Array.replicate memory zeroBlock   -- make([]block, memory)
  for lane in [0:threads] do
    let j := u32 (lane * (memory / threads))
    h0 := putUint32At h0 (blake2bSize + 4) lane

    h0 := putUint32At h0 blake2bSize 0
    let block0 := blake2bHash 1024 h0
    B := setB B (u32 (j + 0)) (blockOfBytes block0)

    h0 := putUint32At h0 blake2bSize 1
    let block0 := blake2bHash 1024 h0
    B := setB B (u32 (j + 1)) (blockOfBytes block0)
  return B

/-! ## processBlocks -/

/-- The body of the `processSegment` closure (without the `WaitGroup`).  `lanes` and `segments`
are the closure's captured variables (`lanes = memory / threads` is the lane LENGTH). -/
def processSegment (B : Array Block) (time memory threads mode version lanes segments : Nat)
    (n slice lane : Nat) : Array Block := Id.run do
  let mut B := B
  let mut addresses : Block := zeroBlock
  let mut in_ : Block := zeroBlock
  let zero : Block := zeroBlock
  if mode == argon2i || (mode == argon2id && n == 0 && slice < syncPoints / 2) then
    in_ := in_.set! 0 (UInt64.ofNat n)
    in_ := in_.set! 1 (UInt64.ofNat lane)
    in_ := in_.set! 2 (UInt64.ofNat slice)
    in_ := in_.set! 3 (UInt64.ofNat memory)
    in_ := in_.set! 4 (UInt64.ofNat time)
    in_ := in_.set! 5 (UInt64.ofNat mode)

  let mut index := 0
  if n == 0 && slice == 0 then
    index := 2 -- we have already generated the first two blocks
    if mode == argon2i || mode == argon2id then
      in_ := in_.set! 6 (in_[6]! + 1)
      addresses := processBlock addresses in_ zero false
      addresses := processBlock addresses addresses zero false

  let mut offset := u32 (u32 (u32 (lane * lanes) + u32 (slice * segments)) + index)
  let mut random : UInt64 := 0
  -- for index < segments { … index, offset = index+1, offset+1 }   (at most `segments` iterations)
  for _ in [0:segments] do
    if index < segments then
      let mut prev := u32 (offset + 4294967296 - 1)
      if index == 0 && slice == 0 then
        prev := u32 (prev + lanes) -- last block in lane
      if mode == argon2i || (mode == argon2id && n == 0 && slice < syncPoints / 2) then
        if index % blockLength == 0 then
          in_ := in_.set! 6 (in_[6]! + 1)
          addresses := processBlock addresses in_ zero false
          addresses := processBlock addresses addresses zero false
        random := addresses[index % blockLength]!
      else
        random := (B[prev]!)[0]!
      let newOffset :=
        GoCrypt.Gen.argon2crypto.indexAlpha random.toNat lanes segments threads n slice lane index
      if version == version10 then
        B := setB B offset (processBlock B[offset]! B[prev]! B[newOffset]! false)
      else
        B := setB B offset (processBlock B[offset]! B[prev]! B[newOffset]! true)
      index := u32 (index + 1)
      offset := u32 (offset + 1)
  return B

/-- `processBlocks(B, time, memory, threads, mode, version)`; goroutines of one slice are run in
the order `lane = 0, 1, …` (see the header). -/
def processBlocks (B : Array Block) (time memory threads mode version : Nat) : Array Block := Id.run do
  let lanes := memory / threads
  let segments := lanes / syncPoints
  let mut B := B
  for n in [0:time] do
    for slice in [0:syncPoints] do
      for lane in [0:threads] do
        B := processSegment B time memory threads mode version lanes segments n slice lane
  return B

/-! ## extractKey -/

/-- `extractKey(B, memory, threads, keyLen)` -/
def extractKey (B : Array Block) (memory threads keyLen : Nat) : Bytes := Id.run do
  let lanes := memory / threads
  let lastIdx := u32 (memory + 4294967296 - 1)
  let mut last : Block := B[lastIdx]!
  -- for lane := 0; lane < threads-1; lane++    (threads ≥ 1, so no uint32 wrap)
  for lane in [0:threads - 1] do
    let src := B[u32 (u32 (u32 (lane * lanes) + lanes) + 4294967296 - 1)]!
    for i in [0:blockLength] do
      last := last.set! i (last[i]! ^^^ src[i]!)
  let block := bytesOfBlock last
  return blake2bHash keyLen block

/-! ## Key -/

/-- `argon2crypto.Key(mode, version, password, salt, time, memory, threads, keyLen)`.
`initHash` receives the REQUESTED memory; everything after it the rounded one. -/
def key (mode version : Nat) (password salt : Bytes) (time memory threads keyLen : Nat) : Bytes :=
  let h0 := initHash password salt time memory threads keyLen mode version
  let memory := u32 (memory / u32 (syncPoints * threads) * u32 (syncPoints * threads))
  let memory := if memory < u32 (2 * syncPoints * threads) then u32 (2 * syncPoints * threads) else memory
  let B := initBlocks h0 memory threads
  let B := processBlocks B time memory threads mode version
  extractKey B memory threads keyLen

end GoCrypt.Kdf.Argon2
