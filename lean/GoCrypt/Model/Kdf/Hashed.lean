import GoCrypt.Base.Bytes
import GoCrypt.Base.Strconv
import GoCrypt.Gen.Tables

/-!
# KDF skeletons built on a hash function: md5-crypt, SHA-crypt, Sun MD5, SHA1-crypt

Code-shaped models of `md5crypt.Encrypt`, `sha2crypt.Encrypt` (+ `duplicate`), the loop of
`sunmd5.Key` and of `sha1.Key`. The hash primitive is a *parameter* (`H : Bytes → Bytes`, and
`HM : key → msg → Bytes` for HMAC), so statements about these skeletons hold for every hash; the
executable instances plug in `Prim.*`. Go's partial operations (`d[:i]`, `p[:n]`, `digest[k]`) are
explicit: `none` = the Go code would panic.
-/

namespace GoCrypt.Kdf

/-- Go `b[:n]`: panics (here `none`) when `n > len(b)` (capacity is not modelled: these slices are
fresh digests whose capacity equals their length). -/
def sliceTo (b : Bytes) (n : Nat) : Option Bytes := if n ≤ b.length then some (b.take n) else none

/-- `cryptoutil.Permute(b, t)`: `buf[i] = b[t[i]]`; `none` if an index is out of range. -/
def permute (b : Bytes) (t : List Nat) : Option Bytes := t.mapM fun j => b[j]?

/-! ## md5-crypt -/

/-- `for i := len(password); i > 0; i -= 16 { if i > 16 { write d } else { write d[:i] } }` -/
def md5Fill (d : Bytes) (fuel : Nat) (i : Nat) : Option Bytes :=
  match fuel with
  | 0 => some []
  | fuel + 1 =>
    if i = 0 then some []
    else if i > 16 then (md5Fill d fuel (i - 16)).map (d ++ ·)
    else sliceTo d i

/-- `for i := len(password); i > 0; i >>= 1 { if i&1 != 0 { write 0 } else { write password[:1] } }` -/
def md5Bits (pw : Bytes) (fuel : Nat) (i : Nat) : Option Bytes :=
  match fuel with
  | 0 => some []
  | fuel + 1 =>
    if i = 0 then some []
    else do
      let piece ← if i % 2 = 1 then some [0] else sliceTo pw 1
      let rest ← md5Bits pw fuel (i / 2)
      pure (piece ++ rest)

/-- One of the 1000 rounds. -/
def md5Round (H : Bytes → Bytes) (pw salt : Bytes) (i : Nat) (d : Bytes) : Bytes :=
  H ((if i % 2 = 1 then pw else d) ++ (if i % 3 ≠ 0 then salt else []) ++
     (if i % 7 ≠ 0 then pw else []) ++ (if i % 2 = 1 then d else pw))

def md5Rounds (H : Bytes → Bytes) (pw salt : Bytes) : Nat → Bytes → Bytes
  | 0, d => d
  | n + 1, d => md5Round H pw salt n (md5Rounds H pw salt n d)

/-- `md5crypt.Encrypt(password, salt, prefix)`. -/
def md5cryptEncrypt (H : Bytes → Bytes) (permFinal : List Nat) (pw salt pfx : Bytes) : Option Bytes := do
  let d := H (pw ++ salt ++ pw)
  let fill ← md5Fill d (pw.length + 1) pw.length
  let bits ← md5Bits pw (pw.length + 1) pw.length
  let d0 := H (pw ++ pfx ++ salt ++ fill ++ bits)
  permute (md5Rounds H pw salt 1000 d0) permFinal

/-! ## SHA-crypt -/

/-- `duplicate(h, b, n)` (repaired loop `i -= h.Size()`): whole copies of `b[:size]` while
`i >= size`, then `b[:i]`. -/
def duplicate (size : Nat) (b : Bytes) (fuel : Nat) (i : Nat) : Option Bytes :=
  match fuel with
  | 0 => sliceTo b i
  | fuel + 1 =>
    if i ≥ size ∧ size > 0 then do
      let whole ← sliceTo b size
      let rest ← duplicate size b fuel (i - size)
      pure (whole ++ rest)
    else sliceTo b i

/-- `for i = len(password); i > h.Size(); i -= h.Size() { ha.Write(db) }; ha.Write(db[:i])` -/
def shaFill (size : Nat) (db : Bytes) (fuel : Nat) (i : Nat) : Option Bytes :=
  match fuel with
  | 0 => sliceTo db i
  | fuel + 1 =>
    if i > size ∧ size > 0 then (shaFill size db fuel (i - size)).map (db ++ ·)
    else sliceTo db i

/-- `for i := len(password); i > 0; i >>= 1 { if i&1 != 0 { write db } else { write password } }` -/
def shaBits (db pw : Bytes) (fuel : Nat) (i : Nat) : Bytes :=
  match fuel with
  | 0 => []
  | fuel + 1 => if i = 0 then [] else (if i % 2 = 1 then db else pw) ++ shaBits db pw fuel (i / 2)

def repeatBytes (b : Bytes) : Nat → Bytes
  | 0 => []
  | n + 1 => b ++ repeatBytes b n

/-- One round of the main loop; `dp` is the running digest (`da` for `i = 0`), `p`/`s` the expanded
password/salt sequences. `p[:len(password)]` is a checked slice. -/
def shaRound (H : Bytes → Bytes) (pwLen : Nat) (p s : Bytes) (i : Nat) (dp : Bytes) : Option Bytes := do
  let pHead ← sliceTo p pwLen
  pure (H ((if i % 2 = 1 then pHead else dp) ++ (if i % 3 ≠ 0 then s else []) ++
           (if i % 7 ≠ 0 then p else []) ++ (if i % 2 = 1 then dp else p)))

def shaRounds (H : Bytes → Bytes) (pwLen : Nat) (p s : Bytes) : Nat → Bytes → Option Bytes
  | 0, d => some d
  | n + 1, d => do
    let prev ← shaRounds H pwLen p s n d
    shaRound H pwLen p s n prev

/-- `sha2crypt.Encrypt(h, password, salt, rounds, permutation)` for a hash of `size` bytes. -/
def sha2cryptEncrypt (H : Bytes → Bytes) (size : Nat) (permFinal : List Nat) (pw salt : Bytes) (rounds : Nat) : Option Bytes := do
  let db := H (pw ++ salt ++ pw)
  let fill ← shaFill size db (pw.length + 1) pw.length
  let da := H (pw ++ salt ++ fill ++ shaBits db pw (pw.length + 1) pw.length)
  let dp := H (repeatBytes pw pw.length)
  let p ← duplicate size dp (pw.length + 1) pw.length
  let ds := H (repeatBytes salt (16 + (da.headD 0).toNat))
  let s ← duplicate size ds (salt.length + 1) salt.length
  let last ← shaRounds H pw.length p s rounds da
  permute last permFinal

/-! ## Sun MD5 -/

/-- `bit(off)`: bit `off % 128` of the 16-byte digest (`digest[off/8] & (1 << off%8)`). -/
def sunBit (digest : Bytes) (off : Nat) : Option Nat := do
  let o := off % 128
  let b ← digest[o / 8]?
  pure ((b.toNat >>> (o % 8)) % 2)

/-- The per-round "coin flip" of Sun MD5: whether the Hamlet phrase is hashed this round. -/
def sunCoin (digest : Bytes) (round : Nat) : Option Bool := do
  let ind7 ← (List.range 16).mapM fun j => do
    let dj ← digest[j]?
    let doff ← digest[(j + 3) % 16]?
    let ind4 := (dj.toNat >>> (doff.toNat % 5)) &&& 0x0F
    let sh7 := (doff.toNat >>> (dj.toNat % 8)) &&& 0x01
    let di ← digest[ind4]?
    pure ((di.toNat >>> sh7) &&& 0x7F)
  let mut indA := 0
  let mut indB := 0
  for j in List.range 8 do
    let a ← sunBit digest (ind7.getD j 0)
    let b ← sunBit digest (ind7.getD (j + 8) 0)
    indA := indA ||| (a <<< j)
    indB := indB ||| (b <<< j)
  let ba ← sunBit digest round
  let bb ← sunBit digest ((round + 64) % 4294967296)
  let fA := (indA >>> ba) &&& 0x7F
  let fB := (indB >>> bb) &&& 0x7F
  let x ← sunBit digest fA
  let y ← sunBit digest fB
  pure ((x ^^^ y) == 1)

def sunRounds (H : Bytes → Bytes) (phrase : Bytes) : Nat → Bytes → Option Bytes
  | 0, d => some d
  | n + 1, d => do
    let prev ← sunRounds H phrase n d
    let coin ← sunCoin prev n
    pure (H (prev ++ (if coin then phrase else []) ++ Strconv.formatUint n 10))

/-- The loop of `sunmd5.Key` after the guards: `saltString` is the marshalled salt scheme,
`rounds` the requested count (4096 basic rounds are added, in uint32). -/
def sunmd5Derive (H : Bytes → Bytes) (phrase : Bytes) (permFinal : List Nat) (pw saltString : Bytes) (rounds : Nat) : Option Bytes := do
  let total := (rounds + 4096) % 4294967296
  let last ← sunRounds H phrase total (H (pw ++ saltString))
  permute last permFinal

/-! ## SHA1-crypt -/

def sha1Iter (HM : Bytes → Bytes → Bytes) (pw : Bytes) : Nat → Bytes → Bytes
  | 0, b => b
  | n + 1, b => HM pw (sha1Iter HM pw n b)

/-- The loop of `sha1.Key` after the guards, for `rounds ≥ 1`. -/
def sha1Derive (HM : Bytes → Bytes → Bytes) (permFinal : List Nat) (pfx pw salt : Bytes) (rounds : Nat) : Option Bytes :=
  let b0 := HM pw (salt ++ pfx ++ Strconv.formatUint rounds 10)
  permute (sha1Iter HM pw (rounds - 1) b0) permFinal

end GoCrypt.Kdf
