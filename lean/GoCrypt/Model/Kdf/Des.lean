import GoCrypt.Base.Bytes
import GoCrypt.Gen.Tables
import GoCrypt.Gen.Consts

/-!
# Model of `des/descrypt` (table-driven DES as used by crypt(3)) and of `desext.key`

The tables (`pc1Rot`, `pc2RotA`, `pc2RotB`, `ie3264`, `spe`, `cf6464`) are regenerated from
`const.go`; the round structure is hand-written. `pcxRot` (the rotation schedule, built in Go from
the three `pc*Rot` tables by name) and `ksMask` are restated here and compared with the source by
the correspondence runs.
-/

namespace GoCrypt.Kdf.Des
open GoCrypt.Gen.des_descrypt

def tbl (t : Array Nat) (i : Nat) : UInt64 := UInt64.ofNat (t.getD i 0)

/-- `permute816(c, p)` / `permute1616(c, p)`: OR of `p[row][c & 0xF]` over `rows` nibbles. -/
def permuteNib (t : Array Nat) (rows : Nat) (c : UInt64) : UInt64 := Id.run do
  let mut v : UInt64 := 0
  let mut c := c
  for r in [0:rows] do
    v := v ||| tbl t (r * 16 + (c &&& 0x0F).toNat)
    c := c >>> 4
  return v

def ksMask : UInt64 := 0xFCFCFCFCFFFFFFFF

/-- `pcxRot`: (even, odd) permutation table per schedule step. -/
def pcxRot : List (Array Nat × Array Nat) :=
  [(pc1Rot, pc2RotA), (pc2RotB, pc2RotB), (pc2RotB, pc2RotB), (pc2RotB, pc2RotB),
   (pc2RotA, pc2RotB), (pc2RotB, pc2RotB), (pc2RotB, pc2RotB), (pc2RotB, pc2RotA)]

/-- `keySchedules(key)`: 8 (even, odd) pairs. -/
def keySchedules (key : UInt64) : List (UInt64 × UInt64) := Id.run do
  let mut ksOdd := key
  let mut out : List (UInt64 × UInt64) := []
  for (pEven, pOdd) in pcxRot do
    let ksEven := permuteNib pEven 16 ksOdd
    ksOdd := permuteNib pOdd 16 ksEven
    out := out ++ [(ksEven &&& ksMask, ksOdd &&& ksMask)]
  return out

def speXor (b : UInt64) : UInt64 :=
  tbl spe (0 * 64 + ((b >>> 58) &&& 0x3F).toNat) ^^^ tbl spe (1 * 64 + ((b >>> 50) &&& 0x3F).toNat) ^^^
  tbl spe (2 * 64 + ((b >>> 42) &&& 0x3F).toNat) ^^^ tbl spe (3 * 64 + ((b >>> 34) &&& 0x3F).toNat) ^^^
  tbl spe (4 * 64 + ((b >>> 26) &&& 0x3F).toNat) ^^^ tbl spe (5 * 64 + ((b >>> 18) &&& 0x3F).toNat) ^^^
  tbl spe (6 * 64 + ((b >>> 10) &&& 0x3F).toNat) ^^^ tbl spe (7 * 64 + ((b >>> 2) &&& 0x3F).toNat)

/-- 24-bit salt → 32-bit E-box swap mask. -/
def expandSalt (salt : UInt32) : UInt32 :=
  ((salt &&& 0x00003F) <<< 26) ||| ((salt &&& 0x000FC0) <<< 12) |||
  ((salt &&& 0x03F000) >>> 2) ||| ((salt &&& 0xFC0000) >>> 16)

/-- One pass over the 8 schedule pairs (16 DES rounds). -/
def desPass (kss : List (UInt64 × UInt64)) (salt : UInt64) (l r : UInt64) : UInt64 × UInt64 := Id.run do
  let mut l := l
  let mut r := r
  for (ksEven, ksOdd) in kss do
    let k := ((r >>> 32) ^^^ r) &&& salt
    let b := (k <<< 32) ^^^ k ^^^ r ^^^ ksEven
    l := l ^^^ speXor b
    let k := ((l >>> 32) ^^^ l) &&& salt
    let b := (k <<< 32) ^^^ k ^^^ l ^^^ ksOdd
    r := r ^^^ speXor b
  return (l, r)

def desLoop (kss : List (UInt64 × UInt64)) (salt : UInt64) : Nat → UInt64 × UInt64 → UInt64 × UInt64
  | 0, lr => lr
  | n + 1, (l, r) =>
    let (l', r') := desPass kss salt l r
    desLoop kss salt n (r', l')      -- swap l and r

/-- `descrypt.Encrypt(key, input, salt, rounds)`. -/
def encrypt (key input : UInt64) (salt : UInt32) (rounds : Nat) : UInt64 :=
  let kss := keySchedules key
  let salt64 := (expandSalt salt).toUInt64
  let mA : UInt64 := 0xAAAAAAAA
  let m5 : UInt64 := 0x55555555
  let (l0, r0) : UInt64 × UInt64 :=
    if input != 0 then
      (permuteNib ie3264 8 (((input >>> 31) &&& mA) ||| (input &&& m5)),
       permuteNib ie3264 8 (((input >>> 32) &&& mA) ||| ((input >>> 1) &&& m5)))
    else (0, 0)
  let (l, r) := desLoop kss salt64 rounds (l0, r0)
  let c1 : UInt64 := 0x0F0F0F0F00000000
  let c2 : UInt64 := 0xF0F0F0F000000000
  let c3 : UInt64 := 0x000000000F0F0F0F
  let c4 : UInt64 := 0x00000000F0F0F0F0
  let c := ((l >>> 3) &&& c1) ||| ((l <<< 33) &&& c2) ||| ((r >>> 35) &&& c3) ||| ((r <<< 1) &&& c4)
  permuteNib cf6464 16 c

/-- `descrypt.Key(password)`: 7 low bits of each of the first 8 bytes. -/
def desKey (pw : Bytes) : UInt64 :=
  ((pw.take 8).zipIdx).foldl (fun v (c, i) => v + ((c &&& 0x7F).toUInt64 <<< (UInt64.ofNat (57 - i * 8)))) 0

/-- `desext.key(password)`: fold over 8-byte blocks. -/
def desextKey (pw : Bytes) : UInt64 :=
  let rec go (fuel : Nat) (rest : Bytes) (kv : UInt64) : UInt64 :=
    match fuel with
    | 0 => kv
    | fuel + 1 =>
      if rest.isEmpty then kv
      else go fuel (rest.drop 8) (encrypt kv kv 0 1 ^^^ desKey (rest.take 8))
  go (pw.length / 8 + 1) (pw.drop 8) (desKey (pw.take 8))

def be64 (v : UInt64) : Bytes :=
  (List.range 8).map fun i => (v >>> (UInt64.ofNat (56 - 8 * i))).toUInt8

end GoCrypt.Kdf.Des
