import GoCrypt.Base.Bytes

/-!
# Model of `hash/parse` (lex.go, parse.go, node.go)

Hand-written, executable; tied to the Go code by the `parse`/`tokens` correspondence suites.

* `tokens` mirrors `lexPrefix` + `lexFragment`: the list of tokens the lexer goroutine sends, in order.
* `parseToks` mirrors the `for { t := l.NextToken(); switch t.Type … }` loop of `Parse`.
* The unbuffered channel is modelled as a rendezvous: `Parse` receives tokens one by one and stops at
  the first `error`/`EOF` token; a receive from the closed channel yields the zero token
  (`tokenError`, position 0, empty message).
-/

namespace GoCrypt.Parse
open Bytes

inductive Tok where
  | error (pos : Nat) (msg : Nat)      -- msg 1 = "missing prefix identifier", 2 = "missing prefix end"
  | pfx (pos : Nat) (v : Bytes)
  | dollar (pos : Nat)
  | comma (pos : Nat)
  | value (pos : Nat) (v : Bytes)
  | eof (pos : Nat)
  deriving Repr, DecidableEq

/-- The text carried by a token (error tokens carry a message, not input text). -/
def Tok.text : Tok → Bytes
  | .error _ _ => []
  | .pfx _ v => v
  | .dollar _ => [Bytes.dollar]
  | .comma _ => [Bytes.comma]
  | .value _ v => v
  | .eof _ => []

def Tok.pos : Tok → Nat
  | .error p _ => p | .pfx p _ => p | .dollar p => p | .comma p => p | .value p _ => p | .eof p => p

def Tok.isTerminal : Tok → Bool
  | .error _ _ => true
  | .eof _ => true
  | _ => false

/-- `lexFragment`, iterated: `acc` holds the bytes of the current value reversed, `start` its offset.
A value token is emitted before every delimiter (even when empty) but at end of input only when
non-empty. -/
def lexFrag : Bytes → Nat → Bytes → List Tok
  | [], start, acc =>
    (if acc = [] then [] else [Tok.value start acc.reverse]) ++ [Tok.eof (start + acc.length)]
  | c :: cs, start, acc =>
    if c = dollar then
      Tok.value start acc.reverse :: Tok.dollar (start + acc.length) :: lexFrag cs (start + acc.length + 1) []
    else if c = comma then
      Tok.value start acc.reverse :: Tok.comma (start + acc.length) :: lexFrag cs (start + acc.length + 1) []
    else lexFrag cs start (c :: acc)

/-- `strings.IndexAny(s, "$,")`. -/
def indexDelim : Bytes → Option Nat
  | [] => none
  | c :: cs => if c = dollar ∨ c = comma then some 0 else (indexDelim cs).map (· + 1)

/-- `lexPrefix` followed by the `lexFragment` loop: every token sent on the channel, in order. -/
def tokens (s : Bytes) : List Tok :=
  match s with
  | [] => lexFrag [] 0 []
  | c :: rest =>
    if c = dollar then
      match indexDelim rest with
      | none => [Tok.error s.length 2]
      | some 0 => [Tok.error 1 1]
      | some (i + 1) => Tok.pfx 0 (s.take (i + 3)) :: lexFrag (s.drop (i + 3)) (i + 3) []
    else if c = underscore then
      Tok.pfx 0 [underscore] :: lexFrag rest 1 []
    else lexFrag s 0 []

structure VNode where
  val : Bytes
  pos : Nat
  fin : Nat
  deriving Repr, DecidableEq

inductive Frag where
  | value (v : VNode)
  | group (vs : List VNode)
  deriving Repr, DecidableEq

structure Tree where
  pfx : Option Bytes
  frags : List Frag
  deriving Repr, DecidableEq

inductive Result where
  | ok (t : Tree)
  | err (offset : Nat) (msg : Nat)
  | nilInGroup                       -- Go would store a nil *ValueNode in a group (proved unreachable)
  deriving Repr, DecidableEq

structure PState where
  pfx : Option Bytes := none
  frags : List Frag := []
  group : Option (List VNode) := none
  value : Option VNode := none
  deriving Repr

/-- The `tokenDollar, tokenEOF` case of `Parse` (with the pending group flushed when no value is
pending, as in the repaired code). -/
def PState.flush (st : PState) : PState :=
  match st.value with
  | some v =>
    match st.group with
    | some g => { st with frags := st.frags ++ [Frag.group (g ++ [v])], group := none, value := none }
    | none => { st with frags := st.frags ++ [Frag.value v], value := none }
  | none =>
    match st.group with
    | some g => { st with frags := st.frags ++ [Frag.group g], group := none }
    | none => st

def parseToks (st : PState) : List Tok → Result
  | [] => .err 0 0   -- receive from the closed channel: zero token = tokenError
  | .error p m :: _ => .err p m
  | .pfx _ v :: ts => parseToks { st with pfx := some v } ts
  | .dollar _ :: ts => parseToks st.flush ts
  | .eof _ :: _ => let st := st.flush; .ok ⟨st.pfx, st.frags⟩
  | .comma _ :: ts =>
    match st.value with
    | none => .nilInGroup
    | some v => parseToks { st with group := some (st.group.getD [] ++ [v]), value := none } ts
  | .value p v :: ts => parseToks { st with value := some ⟨v, p, p + v.length⟩ } ts

/-- `parse.Parse`. -/
def parse (s : Bytes) : Result := parseToks {} (tokens s)

/-- Number of tokens `Parse` receives before it returns (it stops at the first terminal token). -/
def consumed : List Tok → Nat
  | [] => 0
  | t :: ts => if t.isTerminal then 1 else 1 + consumed ts

/-! ### Node accessors (node.go) -/

def Frag.pos : Frag → Option Nat
  | .value v => some v.pos
  | .group vs => vs.head?.map (·.pos)      -- Go: `g.Values[0].Pos()`; panics on an empty group

def Frag.fin : Frag → Option Nat
  | .value v => some v.fin
  | .group vs => vs.getLast?.map (·.fin)

/-- `Tree` rendered back to text: prefix, fragments joined by `$`, group members joined by `,`. -/
def joinWith (d : UInt8) : List Bytes → Bytes
  | [] => []
  | [x] => x
  | x :: y :: rest => x ++ d :: joinWith d (y :: rest)

def Frag.render : Frag → Bytes
  | .value v => v.val
  | .group vs => joinWith comma (vs.map (·.val))

def Tree.render (t : Tree) : Bytes :=
  t.pfx.getD [] ++ joinWith dollar (t.frags.map Frag.render)

end GoCrypt.Parse
