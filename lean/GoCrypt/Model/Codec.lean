import GoCrypt.Model.TagInfo
import GoCrypt.Model.Parse
import GoCrypt.Gen.Consts

/-!
# Model of `hash.Marshal` / `hash.Unmarshal` (marshal.go, unmarshal.go)

Executable, hand-written, tied to the Go code by the `codec` correspondence suites. Struct values
are lists of (index path, field value); `reflect` plumbing (`indirect`, `unmarshalIndirect`) is
abstracted into the `FVal` cases.
-/

namespace GoCrypt.Codec
open Bytes GoCrypt.Parse

inductive FVal where
  | str (s : Bytes)
  | bytes (b : Bytes)        -- []byte and [n]byte
  | int (v : Int)
  | uint (v : Nat)
  | nilPtr                   -- a nil pointer field
  | other                    -- a value of an unsupported kind
  deriving Repr, DecidableEq, Inhabited

abbrev Vals := List (List Nat × FVal)

def getVal (vs : Vals) (idx : List Nat) : Option FVal := (vs.find? (·.1 = idx)).map (·.2)

def zeroOf (k : GoKind) (ptrDepth : Nat) : FVal :=
  if ptrDepth > 0 then .nilPtr else
  match k with
  | .string => .str []
  | .bytes => .bytes []
  | .byteArray n => .bytes (List.replicate n 0)
  | .int _ => .int 0
  | .uint _ => .uint 0
  | _ => .other

/-! ## Alphabets (`internal/hashutil`) -/

def hashAlphabet : Bytes := GoCrypt.Gen.internal_hashutil.encoderHash
def base64Alphabet : Bytes := GoCrypt.Gen.internal_hashutil.encoderBase64

def alphabetOf : EncKind → Option Bytes
  | .hash => some hashAlphabet
  | .base64 => some base64Alphabet
  | .none => none

/-- `Encoding.IndexAnyInvalid`: the first byte not in the alphabet. -/
def firstInvalid (e : EncKind) (s : Bytes) : Option UInt8 :=
  match alphabetOf e with
  | none => none
  | some a => s.find? (fun c => !a.contains c)

/-- `descrypt.EncodeInt`: 4 symbols, 6 bits each, least significant first. -/
def desEncodeInt (v : Nat) : Bytes :=
  (List.range 4).map fun i => hashAlphabet.getD ((v >>> (i * 6)) &&& 63) 255

/-- `hashutil.Encoding.Decode` on the hash alphabet: index, or 0xFF. -/
def hashDecode (c : UInt8) : Nat :=
  match hashAlphabet.idxOf? c with
  | some i => i
  | none => 255

/-- `descrypt.DecodeInt`: up to 4 symbols, `v += Decode(b[i]) << (6*i)` in uint32. -/
def desDecodeInt (b : Bytes) : Nat :=
  ((b.take 4).zipIdx.foldl (fun v (c, i) => (v + ((hashDecode c <<< (i * 6)) % 4294967296)) % 4294967296) 0)

/-! ## Marshal -/

inductive MsgClass where
  | lengthMismatch
  | invalidChar (c : UInt8)
  | text (what : String)            -- error text of a TextMarshaler / TextUnmarshaler
  | numSyntax
  | numRange
  | prefixNotFound
  | unexpectedEOF
  | excessiveFragment
  | excessivePrefix
  | notFound (kind : String)         -- "value" / "param" / "grouped param"
  | unsupportedType
  deriving Repr, DecidableEq

inductive MErr where
  | unsupportedTop
  | tag (e : TagErr)
  | unsupportedType (field : String)
  | unsupportedValue (field : String) (msg : MsgClass)
  deriving Repr, DecidableEq

def twoDigit (v : Nat) : Bytes :=
  if v < 10 then 48 :: Strconv.formatUint v 10 else Strconv.formatUint v 10

/-- `marshal`: the text of one (already dereferenced) field value. -/
def marshalRaw (fi : FieldInfo) (v : FVal) : Except MErr Bytes :=
  match v with
  | .nilPtr => .ok []
  | _ =>
    match fi.marshalText with
    | .desInt => (match v with | .uint n => .ok (desEncodeInt (n % 4294967296)) | _ => .error (.unsupportedType fi.name))
    | .twoDigit => (match v with | .uint n => .ok (twoDigit n) | _ => .error (.unsupportedType fi.name))
    | .whitelist _ => (match v with | .str s => .ok s | _ => .error (.unsupportedType fi.name))
    | .opaque d => .error (.unsupportedValue fi.name (.text d))
    | .none =>
      if fi.opts.isPrefix && fi.kind ≠ .string then .error (.unsupportedType fi.name) else
      match fi.kind, v with
      | .byteArray _, .bytes b => .ok b
      | .bytes, .bytes b => .ok b
      | .int _, .int n => .ok (Strconv.formatInt n fi.opts.base)
      | .uint _, .uint n => .ok (Strconv.formatUint n fi.opts.base)
      | .string, .str s => .ok s
      | _, _ => .error (.unsupportedType fi.name)

/-- `marshalValue`: text, then the length and alphabet checks. -/
def marshalValue (fi : FieldInfo) (v : FVal) : Except MErr Bytes := do
  let s ← marshalRaw fi v
  if fi.opts.hasLength ∧ s.length ≠ fi.opts.length then throw (.unsupportedValue fi.name .lengthMismatch)
  match firstInvalid fi.opts.enc s with
  | some c => throw (.unsupportedValue fi.name (.invalidChar c))
  | none => pure s

/-- `isEmpty` on the field value as stored (before `indirect`). -/
def isEmptyVal (fi : FieldInfo) (v : FVal) : Bool :=
  match v with
  | .nilPtr => true
  | .str s => fi.ptrDepth = 0 && s.isEmpty
  | .bytes b => fi.ptrDepth = 0 && b.isEmpty
  | .int n => fi.ptrDepth = 0 && n == 0
  | .uint n => fi.ptrDepth = 0 && n == 0
  | .other => false

def marshalFields (vals : Vals) : List FieldInfo → Option FieldInfo → Bytes → Except MErr Bytes
  | [], _, buf => .ok buf
  | fi :: rest, prev, buf =>
    let fv := (getVal vals fi.index).getD (zeroOf fi.kind fi.ptrDepth)
    if fi.opts.omitEmpty && isEmptyVal fi fv then marshalFields vals rest prev buf
    else do
      let s ← marshalValue fi fv
      let sep : Bytes := match prev with
        | some p => if p.opts.inline then [] else if p.opts.group && fi.opts.group then [comma] else [dollar]
        | none => []
      let name : Bytes := if fi.opts.param ≠ [] then fi.opts.param ++ [equals] else []
      marshalFields vals rest (some fi) (buf ++ sep ++ name ++ s)

/-- `hash.Marshal` for a struct described by `ti`. -/
def marshal (ti : TypeInfo) (vals : Vals) : Except MErr Bytes := do
  let pfx ← match ti.hashPrefix with
    | some hp => marshalValue hp ((getVal vals hp.index).getD (zeroOf hp.kind hp.ptrDepth))
    | none => pure []
  marshalFields vals ti.fields none pfx

/-! ## Unmarshal -/

inductive UErr where
  | syntax (offset msg : Nat)
  | tag (e : TagErr)
  | ute (value : String) (offset : Nat) (field : String) (msg : MsgClass)   -- UnmarshalTypeError; field "" = struct level
  deriving Repr, DecidableEq

def fieldKindName (fi : FieldInfo) : String :=
  if fi.opts.group then "grouped param" else if fi.opts.param ≠ [] then "param" else "value"

/-- Trim `param=`, apply the length rule (inline takes from the *untrimmed* text), check the alphabet.
Returns the field text and, for inline fields, what stays in the node. -/
def fieldText (fi : FieldInfo) (nodeKind : String) (nodeEnd : Nat) (s0 : Bytes) : Except UErr (Bytes × Bytes) := do
  let key := fi.opts.param ++ [equals]
  let s := if fi.opts.param ≠ [] ∧ key.isPrefixOf s0 then s0.drop key.length else s0
  let (s, rest) ←
    if fi.opts.hasLength then
      if fi.opts.inline then
        if s.length < fi.opts.length then throw (.ute nodeKind nodeEnd fi.name .lengthMismatch)
        else pure (s0.take fi.opts.length, s0.drop fi.opts.length)
      else if s.length ≠ fi.opts.length then throw (.ute nodeKind nodeEnd fi.name .lengthMismatch)
      else pure (s, ([] : Bytes))
    else pure (s, ([] : Bytes))
  match firstInvalid fi.opts.enc s with
  | some c => throw (.ute nodeKind nodeEnd fi.name (.invalidChar c))
  | none => pure (s, rest)

/-- `unmarshal` after the text checks: the stored value. -/
def storeValue (fi : FieldInfo) (nodeKind : String) (nodeEnd : Nat) (s : Bytes) : Except UErr FVal :=
  let err (m : MsgClass) : Except UErr FVal := .error (.ute nodeKind nodeEnd fi.name m)
  match fi.unmarshalText with
  | .whitelist allowed => if allowed.contains s then .ok (.str s) else err (.text "unsupported prefix")
  | .desInt => .ok (.uint (desDecodeInt s))
  | .twoDigit => err (.text "opaque")
  | .opaque d => err (.text d)
  | .none =>
    if fi.opts.isPrefix && fi.kind ≠ .string then err .unsupportedType else
    match fi.kind with
    | .byteArray n => .ok (.bytes ((s.take n) ++ List.replicate (n - s.length) 0))
    | .bytes => .ok (.bytes s)
    | .int bits =>
      (match Strconv.parseInt s fi.opts.base bits with
       | .ok v => .ok (.int v)
       | .error .syntax => err .numSyntax
       | .error .range => err .numRange)
    | .uint bits =>
      (match Strconv.parseUint s fi.opts.base bits with
       | .ok v => .ok (.uint v)
       | .error .syntax => err .numSyntax
       | .error .range => err .numRange)
    | .string => .ok (.str s)
    | _ => err .unsupportedType

structure LoopSt where
  frags : List Frag                      -- `tree.Fragments[fragIdx:]`; an inline field shrinks the head's text
  group : Option (List VNode) := none
  numGroupValues : Nat := 0
  numValues : Int
  numReq : Int
  out : Vals := []
  deriving Repr

def groupEnd (g : List VNode) : Nat := (g.getLast?.map (·.fin)).getD 0

def fragKind : Frag → String
  | .value _ => "value"
  | .group _ => "group"

def fragEnd : Frag → Nat
  | .value v => v.fin
  | .group g => groupEnd g

/-- Replace the first member equal to `old` by `new` (inline shrinking inside a group). -/
def replaceFirst (g : List VNode) (old new : VNode) : List VNode :=
  match g with
  | [] => []
  | v :: vs => if v = old then new :: vs else v :: replaceFirst vs old new

/-- One iteration of the `for _, fi := range ti.Fields` loop of `Unmarshal`. -/
def stepField (hashLen : Nat) (fi : FieldInfo) (st : LoopSt) : Except UErr LoopSt := do
  -- end of group
  let st ←
    if !fi.opts.group && st.group.isSome then
      (if st.numGroupValues > 0 then
         throw (.ute "group" (groupEnd (st.group.getD [])) fi.name .excessiveFragment)
       else pure { st with frags := st.frags.tail, group := none })
    else pure st
  match st.frags with
  | [] => if fi.opts.omitEmpty then pure st else throw (.ute "EOF" hashLen fi.name .unexpectedEOF)
  | frag :: rest =>
    if fi.opts.omitEmpty && st.group.isNone && st.numValues - st.numReq ≤ 0 then
      pure { st with numValues := st.numValues - 1 }
    else
      let notFound : Except UErr LoopSt := throw (.ute (fragKind frag) (fragEnd frag) fi.name (.notFound (fieldKindName fi)))
      let isGroupFrag := match frag with | .group _ => true | .value _ => false
      if fi.opts.group && (isGroupFrag || !fi.opts.omitEmpty) then
        let (g, n, synthetic) := match frag, st.group with
          | .group vs, none => (vs, vs.length, false)
          | .group _, some g => (g, st.numGroupValues, false)
          | .value v, _ => ([v], 1, true)
        match g.find? (fun v => (fi.opts.param ++ [equals]).isPrefixOf v.val) with
        | some v => do
          let (s, remainder) ← fieldText fi "value" v.fin v.val
          let fv ← storeValue fi "value" v.fin s
          -- an inline grouped field shrinks the member's text (shared with the fragment when synthetic)
          let v' : VNode := if fi.opts.inline then { v with val := remainder } else v
          let g' := replaceFirst g v v'
          let frags' := if synthetic then Frag.value v' :: rest else (match frag with | .group _ => Frag.group g' :: rest | f => f :: rest)
          pure { st with frags := frags', group := some g', numGroupValues := n - 1, out := st.out ++ [(fi.index, fv)] }
        | none =>
          if fi.opts.omitEmpty then pure { st with group := some g, numGroupValues := n }
          else notFound
      else if !fi.opts.group && !isGroupFrag then
        match frag with
        | .value v =>
          if fi.opts.param = [] ∨ (fi.opts.param ++ [equals]).isPrefixOf v.val then do
            let (s, remainder) ← fieldText fi "value" v.fin v.val
            let fv ← storeValue fi "value" v.fin s
            let frags' := if fi.opts.inline then Frag.value { v with val := remainder } :: rest else rest
            pure { st with frags := frags', numValues := st.numValues - 1,
                           numReq := if fi.opts.omitEmpty then st.numReq else st.numReq - 1,
                           out := st.out ++ [(fi.index, fv)] }
          else if fi.opts.omitEmpty then pure st
          else notFound
        | .group _ => notFound
      else if fi.opts.omitEmpty then pure st
      else notFound

def loopFields (hashLen : Nat) : List FieldInfo → LoopSt → Except UErr LoopSt
  | [], st => pure st
  | f :: fs, st => do
    let st ← stepField hashLen f st
    loopFields hashLen fs st

/-- `hash.Unmarshal` into a zero value of the struct described by `ti`: the assignments made, in order. -/
def unmarshalTree (ti : TypeInfo) (hashLen : Nat) (tree : Tree) : Except UErr Vals := do
  let out0 : Vals ←
    match ti.hashPrefix, tree.pfx with
    | some hp, some p => do
      let (s, _) ← fieldText hp "prefix" p.length p
      let fv ← storeValue hp "prefix" p.length s
      pure [(hp.index, fv)]
    | some hp, none =>
      if hp.opts.omitEmpty then pure [] else throw (.ute "EOF" hashLen hp.name .prefixNotFound)
    | none, some p => throw (.ute "prefix" p.length "" .excessivePrefix)
    | none, none => pure []
  let st ← loopFields hashLen ti.fields
    { frags := tree.frags, numValues := tree.frags.length, numReq := ti.numReqValues, out := out0 }
  let st ←
    match st.group with
    | some g =>
      if st.numGroupValues > 0 then throw (.ute "group" (groupEnd g) "" .excessiveFragment)
      else pure { st with frags := st.frags.tail, group := none }
    | none => pure st
  match st.frags with
  | f :: _ => throw (.ute (fragKind f) (fragEnd f) "" .excessiveFragment)
  | [] => pure st.out

def unmarshal (ti : TypeInfo) (hash : Bytes) : Except UErr Vals :=
  match parse hash with
  | .err o m => .error (.syntax o m)
  | .nilInGroup => .error (.syntax 0 99)
  | .ok tree => unmarshalTree ti hash.length tree

/-- The struct value after `Unmarshal` into a zero value: zero values overlaid by the assignments. -/
def finalVals (ti : TypeInfo) (out : Vals) : Vals :=
  let all := (ti.hashPrefix.toList ++ ti.fields)
  all.map fun fi =>
    let assigned := (out.reverse.find? (·.1 = fi.index)).map (·.2)
    (fi.index, assigned.getD (zeroOf fi.kind fi.ptrDepth))

end GoCrypt.Codec
