import GoCrypt.Base.StreamIRBase

/-!
# Alphabet and entropy helpers as stream-IR programs: the library they call

`gogen` (miscir.go) re-translates `internal/hashutil` (`NewEncoding`, `Encoding.Rand`, `Encoding.Encode`,
`Encoding.Decode`, `Encoding.IndexAnyInvalid`, the package variables), `internal/cryptoutil.Rand` and
`sha1.randRounds` into programs of the stream IR (`Base/StreamIRBase.lean`, unchanged) on every run
(`Gen/MiscIR.lean`). Those bodies use a few operations of the Go library and the builtin `make`; the IR has
no statement for them, so the translator emits calls by name and the interpreter resolves them in the
library `miscLib` below. THIS FILE IS THE TRUSTED DESCRIPTION OF THOSE OPERATIONS (Go 1.23, the toolchain
of this project); everything else about the programs is proved.

* `builtin.make` — `make([]byte, n)`: a fresh zero buffer of `n` bytes and its full window; `n < 0` panics
  (allocation itself never fails here).
* `crypto/rand.Reader` — reading the package variable: external object number `rk` (a parameter of the
  library: which external object is the process's entropy source). It must be a scripted reader
  (`Ext.reader`, the same scripted `io.Reader` the stream decoder theorems use, `extCall`).
* `crypto/rand.Read(b)` — `io.ReadFull(rand.Reader, b)` (that is the whole body in Go 1.23).
* `crypto/rand.Int(r, max)` — described FOR `max = 64` ONLY (any other `max` is `stuck`): `max-1 = 63` has bit
  length 6, so the function reads ONE byte with `io.ReadFull(r, bytes[:1])`, masks it to six bits
  (`bytes[0] &= 0x3F`, i.e. `% 64`), and the candidate is always `< 64`, so there is never a second draw; a read
  error is returned as `(nil, err)`. (Validated by experiment: the scripted-entropy `salt` correspondence suite
  of this project runs the real function.) A `*big.Int` is an integer of the IR — the translated code never
  mutates one —, the `nil` result is `Val.undef` (any use of it is `stuck`).
* `math/big.NewInt(x)` — the integer `x`; `(*big.Int).Uint64()` — the integer itself when it is in `[0, 2^64)`
  (Go leaves other cases undefined: `stuck`).
* `encoding/binary.BigEndian.Uint32(b)` — panics when `len(b) < 4`, else the big-endian value of `b[0:4]`.

`io.ReadFull(r, buf)` on a scripted reader is `readFull`: the loop of `io.ReadAtLeast` over single `Read`
calls (`readOnce` — the reader clauses of `extCall` without the heap; `Proofs/MiscIRBase.lean` proves they
agree): it stops as soon as `len(buf)` bytes have arrived (an error delivered together with the last bytes is
DROPPED, as in Go), or at the first error before that (`io.EOF` after at least one byte becomes
`io.ErrUnexpectedEOF`). ON EXHAUSTION the scripted reader answers `(0, sticky)`: with `sticky = some e` the
read fails with `e` (and the callers panic); with `sticky = none` it answers `(0, nil)` forever, on which Go's
`io.ReadFull` would spin forever — here the bound `pending + 1` runs out and the outcome is `stuck`.
-/

namespace GoCrypt.SIR
open GoCrypt.B64IR (Buf Heap Slice Res sliceBytes)

/-- A package-level variable and its initialiser: `var name = fn(args…)` with constant arguments. -/
structure VarInit where
  name : String
  fn : String
  args : List Val
  deriving Repr, DecidableEq, Inhabited

/-- One `Read(p)` with `len(p) = m` on a scripted reader, without the heap: the bytes delivered, the error
returned, and the reader afterwards (clause by clause the reader part of `extCall`). -/
def readOnce (script : List ReadResp) (sticky : Option Nat) (reads m : Nat) : Bytes × Option Nat × Ext :=
  match script with
  | [] => ([], sticky, .reader [] sticky (reads + 1))
  | r :: rest =>
    if r.data.length ≤ m then
      (r.data, r.err, .reader rest (if r.err.isSome then r.err else sticky) (reads + 1))
    else
      (r.data.take m, none, .reader (⟨r.data.drop m, r.err⟩ :: rest) sticky (reads + 1))

/-- `io.ReadFull` = `io.ReadAtLeast(r, buf, len(buf))` on a scripted reader: `need` bytes are still missing,
`acc` has arrived. Result: the bytes read, the error, the reader afterwards. -/
def readFull : Nat → Ext → Nat → Bytes → Res (Bytes × Option Nat × Ext)
  | fuel, x, need, acc =>
    if need = 0 then .ok (acc, none, x) else
    match fuel with
    | 0 => .stuck "io.ReadFull: the reader makes no progress"
    | fuel + 1 =>
      match x with
      | .reader script sticky reads =>
        let r := readOnce script sticky reads need
        if need ≤ r.1.length then .ok (acc ++ r.1, none, r.2.2)
        else
          match r.2.1 with
          | some c => .ok (acc ++ r.1, some (if c = 1 ∧ acc ++ r.1 ≠ [] then 2 else c), r.2.2)
          | none => readFull fuel r.2.2 (need - r.1.length) (acc ++ r.1)
      | _ => .stuck "io.ReadFull on something that is not a scripted reader"

/-- `make([]byte, n)` -/
def libMake (W : World) : List Val → Res (World × List Val)
  | [.int n] =>
    if n < 0 then .panic
    else .ok (⟨W.heap ++ [Array.replicate n.toNat 0], W.objs, W.exts⟩, [.slice ⟨W.heap.length, 0, n.toNat, n.toNat⟩])
  | _ => .stuck "make: arguments"

/-- `rand.Read(b)`: `io.ReadFull` on external object `rk` into the window `b`. -/
def libRandRead (rk : Nat) (W : World) : List Val → Res (World × List Val)
  | [.slice s] =>
    match W.exts[rk]? with
    | some x =>
      match readFull (x.pending + 1) x s.len [] with
      | .ok (d, e, x') =>
        match writeSlice W.heap s d with
        | .ok h' => .ok (⟨h', W.objs, W.exts.set rk x'⟩, [.int d.length, .err e])
        | .panic => .panic
        | .stuck w => .stuck w
      | .panic => .panic
      | .stuck w => .stuck w
    | none => .stuck "crypto/rand.Read: no entropy source"
  | _ => .stuck "crypto/rand.Read: arguments"

/-- `rand.Int(r, max)` for `max = 64`. -/
def libRandInt (W : World) : List Val → Res (World × List Val)
  | [.ext k, .int max] =>
    if max ≠ 64 then .stuck "crypto/rand.Int is described for max = 64 only" else
    match W.exts[k]? with
    | some x =>
      match readFull (x.pending + 1) x 1 [] with
      | .ok ([b], none, x') => .ok (⟨W.heap, W.objs, W.exts.set k x'⟩, [.int (b.toNat % 64), .err none])
      | .ok (_, some c, x') => .ok (⟨W.heap, W.objs, W.exts.set k x'⟩, [.undef, .err (some c)])
      | .ok _ => .stuck "crypto/rand.Int: io.ReadFull returned neither one byte nor an error"
      | .panic => .panic
      | .stuck w => .stuck w
    | none => .stuck "crypto/rand.Int: no such reader"
  | _ => .stuck "crypto/rand.Int: arguments"

def libNewInt (W : World) : List Val → Res (World × List Val)
  | [.int x] => .ok (W, [.int x])
  | _ => .stuck "math/big.NewInt: arguments"

def libUint64 (W : World) : List Val → Res (World × List Val)
  | [.int x] => if 0 ≤ x ∧ x < 18446744073709551616 then .ok (W, [.int x]) else .stuck "(*big.Int).Uint64: value outside uint64"
  | _ => .stuck "(*big.Int).Uint64: arguments"

def libBEUint32 (W : World) : List Val → Res (World × List Val)
  | [.slice s] =>
    if s.len < 4 then .panic else
    match sliceBytes W.heap ⟨s.buf, s.off, 4, 4⟩ with
    | some [a, b, c, d] => .ok (W, [.int ((((a.toNat * 256 + b.toNat) * 256 + c.toNat) * 256 + d.toNat : Nat) : Int)])
    | _ => .stuck "slice outside its buffer"
  | _ => .stuck "binary.BigEndian.Uint32: arguments"

/-- The library: `rk` is the external object that `crypto/rand.Reader` holds. -/
def miscLib (rk : Nat) : Lib := fun f W args =>
  if f = "builtin.make" then libMake W args
  else if f = "crypto/rand.Reader" then (match args with | [] => .ok (W, [.ext rk]) | _ => .stuck "crypto/rand.Reader: arguments")
  else if f = "crypto/rand.Read" then libRandRead rk W args
  else if f = "crypto/rand.Int" then libRandInt W args
  else if f = "math/big.NewInt" then libNewInt W args
  else if f = "math/big.Int.Uint64" then libUint64 W args
  else if f = "encoding/binary.BigEndian.Uint32" then libBEUint32 W args
  else .stuck ("no such library operation: " ++ f)

/-- The operations `miscLib` describes. -/
def miscLibOperations : List String :=
  ["builtin.make", "crypto/rand.Reader", "crypto/rand.Read", "crypto/rand.Int", "math/big.NewInt", "math/big.Int.Uint64",
    "encoding/binary.BigEndian.Uint32"]

/-- Run the initialisers of package variables in order; the result maps each variable to its value. -/
def initVars (P : Program) (lib : Lib) : List VarInit → World → Res (World × List (String × Val))
  | [], W => .ok (W, [])
  | v :: rest, W =>
    match interp P lib v.fn W v.args with
    | .ok (W', [r]) =>
      match initVars P lib rest W' with
      | .ok (W'', g) => .ok (W'', (v.name, r) :: g)
      | .panic => .panic
      | .stuck w => .stuck w
    | .ok _ => .stuck "initialiser with other than one result"
    | .panic => .panic
    | .stuck w => .stuck w

/-! ## Counting `unknown` nodes -/

def Expr.unknowns : Expr → Nat
  | .len e | .wrapU _ e | .wrapS _ e | .not e | .isNil e => e.unknowns
  | .bin _ a b | .lor a b | .land a b | .index a b | .errEq a b => a.unknowns + b.unknowns
  | .slice b lo hi => b.unknowns + lo.unknowns + hi.unknowns
  | .field e _ => e.unknowns
  | .unknown _ => 1
  | _ => 0

def unknownsE : List Expr → Nat
  | [] => 0
  | e :: es => e.unknowns + unknownsE es

def LHS.unknowns : LHS → Nat
  | .index _ i => i.unknowns
  | .indexE b i => b.unknowns + i.unknowns
  | .field e _ => e.unknowns
  | _ => 0

def unknownsL : List LHS → Nat
  | [] => 0
  | l :: ls => l.unknowns + unknownsL ls

def unknownsF : List FInit → Nat
  | [] => 0
  | .val e :: fs => e.unknowns + unknownsF fs
  | .zeroArr _ :: fs => unknownsF fs

def Stmt.unknowns : Stmt → Nat
  | .seq a b => a.unknowns + b.unknowns
  | .assign l r => unknownsL l + unknownsE r
  | .ite c t e => c.unknowns + t.unknowns + e.unknowns
  | .for_ f c p b => f.unknowns + c.unknowns + p.unknowns + b.unknowns
  | .call l _ a => unknownsL l + unknownsE a
  | .ret es => unknownsE es
  | .new_ _ _ i => unknownsF i
  | .clone _ e _ => e.unknowns
  | .copy l d s => l.unknowns + d.unknowns + s.unknowns
  | .icall l _ r a => unknownsL l + r.unknowns + unknownsE a
  | .unknown _ => 1
  | _ => 0

/-- The names of all functions a statement calls (program or library). -/
def Stmt.callees : Stmt → List String
  | .seq a b => a.callees ++ b.callees
  | .ite _ t e => t.callees ++ e.callees
  | .for_ _ _ p b => p.callees ++ b.callees
  | .call _ f _ => [f]
  | _ => []

end GoCrypt.SIR
