import GoCrypt.Base.Bytes

/-!
# What the translator tells Lean about a Go struct type

`gogen` emits values of these types into `Gen/Shapes.lean`; `Model/TagInfo.lean` interprets them the
way `hash/typeinfo.go` interprets `reflect.Type`.
-/

namespace GoCrypt

inductive GoKind where
  | string
  | bytes                         -- []byte
  | byteArray (n : Nat)           -- [n]byte
  | int (bits : Nat)
  | uint (bits : Nat)
  | structRef (name : String)     -- a named struct type of the same package
  | other (desc : String)
  deriving Repr, DecidableEq, Inhabited

/-- How a field's text (un)marshaler behaves, recognised from its body by strict pattern matching. -/
inductive TextCodec where
  | none
  | whitelist (allowed : List Bytes)   -- UnmarshalText accepts exactly these strings, stores them
  | desInt                             -- descrypt.DecodeInt / EncodeInt (4 symbols, 24 bits)
  | twoDigit                           -- MarshalText: decimal, zero-padded to two digits
  | opaque (desc : String)             -- present but not recognised
  deriving Repr, DecidableEq, Inhabited

structure GoField where
  name : String
  exported : Bool
  anonymous : Bool
  ptrDepth : Nat
  kind : GoKind
  typeName : String              -- declared (named) type of the field, "" if unnamed
  tag : Bytes                    -- value of the `hash` struct-tag key ("" when absent)
  marshalText : TextCodec        -- method set of the dereferenced field type includes MarshalText
  unmarshalText : TextCodec      -- field type (or pointer to it) has UnmarshalText
  deriving Repr, DecidableEq, Inhabited

structure GoStruct where
  name : String
  fields : List GoField
  deriving Repr, DecidableEq, Inhabited

end GoCrypt
