/-!
# Slice-effect IR for the `Key` functions (C13)

`gogen` renders every `Key` function — with the bodies of the same-repository functions it calls
inlined — as a list of slice-level statements: which variable aliases which backing array, and which
statements may store into a backing array. Everything that is not about slices is dropped; control
flow is dropped too (the analysis is flow-insensitive: every statement may execute, any number of
times, in any order).

* `fromParam x i` : `x` aliases parameter `i`'s backing array (`x := p`, `x := p[a:b]`, …)
* `alloc x`       : `x` is a fresh array (`make`, composite literal, local array, `[]byte(string)`,
                    the result of a library call that returns fresh memory)
* `global x g`    : `x` aliases the package-level variable `g`
* `alias x y`     : `x` shares `y`'s backing array (`x := y`, `x := y[a:b]`)
* `appendTo x y`  : `x := append(y, …)` — may STORE into `y`'s array (spare capacity); `x` is `y`'s
                    array or a fresh one (also `h.Sum(y)`, `strconv.AppendUint(y, …)`)
* `write x`       : a store into `x`'s backing array (`x[i] = v`, `copy(x, …)`, `PutUint64(x, …)`,
                    `Encode(x, …)`, `cipher.Encrypt(x, …)`)
* `ret x`         : `x` is (part of) the result
* `unknown d`     : a statement involving slices that the translator does not understand
-/

namespace GoCrypt.SliceIR

inductive Root where
  | param (i : Nat)
  | fresh
  | global (g : Nat)
  deriving Repr, DecidableEq, Inhabited

/-- Variables and package-level variables are numeric ids (`gogen` emits the name tables beside each
program). -/
inductive SStmt where
  | fromParam (x : Nat) (i : Nat)
  | alloc (x : Nat)
  | global (x : Nat) (g : Nat)
  | alias (x y : Nat)
  | appendTo (x y : Nat)
  | write (x : Nat)
  | ret (x : Nat)
  | unknown (desc : String)
  deriving Repr, DecidableEq, Inhabited

abbrev Prog := List SStmt

/-- The points-to approximation: variable ↦ set of roots. -/
abbrev Roots := List (Nat × Root)

def Roots.has (r : Roots) (x : Nat) (k : Root) : Bool := r.contains (x, k)

def Roots.of (r : Roots) (x : Nat) : List Root := (r.filter (·.1 == x)).map (·.2)

def addAll (r : Roots) (x : Nat) (ks : List Root) : Roots :=
  ks.foldl (fun acc k => if acc.contains (x, k) then acc else acc ++ [(x, k)]) r

/-- One pass of the transfer rules over all statements. -/
def pass (p : Prog) (r : Roots) : Roots :=
  p.foldl (fun acc s =>
    match s with
    | .fromParam x i => addAll acc x [.param i]
    | .alloc x => addAll acc x [.fresh]
    | .global x g => addAll acc x [.global g]
    | .alias x y => addAll acc x (acc.of y)
    | .appendTo x y => addAll acc x (.fresh :: acc.of y)
    | _ => acc) r

/-- Fixpoint by iteration. Statements are emitted in source order, so definitions mostly precede
uses and a few passes reach the fixpoint; `passes` is fixed and `stable` is CHECKED on each program,
never assumed: a program needing more passes fails `argSafe`/`resultFresh` (a false alarm on the
proof obligation, handled by the runner's failing-input search), it is never wrongly accepted. -/
def iterate (p : Prog) : Nat → Roots → Roots
  | 0, r => r
  | n + 1, r => iterate p n (pass p r)

def passes : Nat := 10

def solve (p : Prog) : Roots := iterate p passes []

/-- The solution is a fixpoint (checked by evaluation on each program). -/
def stable (p : Prog) : Bool := pass p (solve p) == solve p

def onlyFresh (ks : List Root) : Bool := ks.all (· == .fresh)

/-- No statement may store into an array that can be an argument's (or a package variable's). -/
def argSafe (p : Prog) : Bool :=
  let r := solve p
  stable p &&
  p.all fun s => match s with
    | .write x => onlyFresh (r.of x)
    | .appendTo _ y => onlyFresh (r.of y)
    | .unknown _ => false
    | _ => true

/-- Every returned slice is rooted in memory allocated by this call. -/
def resultFresh (p : Prog) : Bool :=
  let r := solve p
  stable p &&
  p.all fun s => match s with
    | .ret x => onlyFresh (r.of x) && !(r.of x).isEmpty
    | .unknown _ => false
    | _ => true

end GoCrypt.SliceIR
