import GoCrypt.Base.Bytes

/-!
# Uniform argument / error records for the ten `Key` functions

`gogen` translates the guard clauses of every `Key` into functions over these records.
-/

namespace GoCrypt

structure KeyArgs where
  password : Bytes := []
  salt : Bytes := []
  rounds : Nat := 0        -- rounds / cost / time
  memory : Nat := 0
  threads : Nat := 0
  optsNil : Bool := true   -- the `opts` pointer argument is nil (or the function has no such argument)
  optPrefix : Bytes := []
  optVersion : Nat := 0
  optFlag : Bool := false  -- sunmd5: DisableSaltSeparator
  rand : Nat := 0          -- sha1: the 32-bit word `randRounds` draws (only read when rounds = RandomRounds)
  deriving Repr, DecidableEq, Inhabited

/-- A typed error of a scheme package: the Go type name and its payload (numeric types carry the
number, string types the string). -/
structure KeyErr where
  type : String
  num : Nat := 0
  str : Bytes := []
  deriving Repr, DecidableEq, Inhabited

end GoCrypt
