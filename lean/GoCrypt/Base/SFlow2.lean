import GoCrypt.Base.SFlow

/-!
# The structured statement IR, extended with loops, `switch`, `break`/`continue` and `go`

`Base/SFlow.lean` (`SStmt`) covers blocks, `if`/`else`, `return`, assignments.  The rest of the lexer
(`hash/parse/lex.go`: `lexFragment`, `(*lexer).run`, `errorf`, `Next`, `NextToken`, `lex`) and the parser
(`hash/parse/parse.go`: `Parse`) also need

* `for init; cond; post { … }` (any of the three parts may be missing), with `break` / `continue`,
  labelled or not, and `return` from inside;
* `switch init; tag { case a, b: … default: … }` on a value (Go has no implicit fall-through; an
  explicit `fallthrough` statement is outside the fragment and becomes `.other`);
* the `go` statement.

`gogen` (`parseir.go`) translates those function bodies into the IR below on every run
(`Gen/ParseFlow.lean`).  `PStmt` repeats the constructors of `SStmt` (with the same meaning) and adds
the new ones; nothing in `Base/SFlow.lean` is changed.

## Spelling of expressions

Expressions are the `FExpr` of `Base/Flow.lean`, spelled as described at the top of `Base/SFlow.lean`,
with these additions (all produced from the AST and the type checker's tables):

* **canonical names**: a parameter (the receiver first) is `.var "p1"`, `.var "p2"`, …; a local
  variable is `.var "v1"`, `.var "v2"`, … in the order of declaration in the function body; a label is
  `"L1"`, `"L2"`, ….  The source names are kept in `PFunc.names` (documentation only: no semantics
  reads them).  Renaming a local, a parameter or a label in the Go source therefore leaves the
  generated term unchanged.  Fields, methods, functions, types and constants keep their names;
* `&T{K: v, …}` is `.fn "new:T"` applied to `.op ":" (.const "K") v` pairs (`.un "()" (.fn "new:T")`
  for `&T{}`): a fresh variable of type `T` initialised with the literal, and its address;
* `make(T)` is `.un "()" (.fn "make:T")`; `make(T, n)` is `.app (.fn "make:T") n`;
* a receive `<-ch` is `.un "<-" ch`;
* a variadic call `f(a, xs...)` has `.un "..." xs` as its last argument;
* a parameter `xs ...T` has the type `"...T"` in `PFunc.params`.
-/

namespace GoCrypt.SFlow2
open GoCrypt.Flow GoCrypt.SFlow

mutual
inductive PStmt where
  /-- `var x T` (no initialiser) -/
  | declare (name : String) (ty : String)
  /-- `x, y := e` / `var x = e` -/
  | define (lhs : List String) (rhs : FExpr)
  /-- `x, y = e`; a target is a variable `x` or a field `x.f`; `x op= e`, `x++` are `x = x op e` -/
  | assign (lhs : List String) (rhs : FExpr)
  /-- expression statement (a channel send `ch <- v` is the expression `.op "<-" ch v`) -/
  | eval (e : FExpr)
  /-- `return e₁, …, eₙ` -/
  | ret (es : List FExpr)
  /-- `if init; cond { thn } else { els }` -/
  | ite (init : List PStmt) (cond : FExpr) (thn : List PStmt) (els : List PStmt)
  /-- `{ … }` -/
  | block (body : List PStmt)
  /-- `label: for init; cond; post { body }`; `label = ""` when the statement has no label; `init` and
  `post` hold zero or one statement; `cond = none` is `for { … }` / `for init; ; post { … }` -/
  | loop (label : String) (init : List PStmt) (cond : Option FExpr) (post : List PStmt) (body : List PStmt)
  /-- `label: switch init; tag { case …: … }`; the clauses are in source order except that the
  `default` clause (whose position does not matter in the absence of `fallthrough`) is taken out:
  `dflt` is its body, `[]` when there is none -/
  | switch (label : String) (init : List PStmt) (tag : FExpr) (cases : List PCase) (dflt : List PStmt)
  /-- `break` (`label = ""`) / `break label` -/
  | brk (label : String)
  /-- `continue` / `continue label` -/
  | cont (label : String)
  /-- `go f(args)`: `call` is the call expression -/
  | go (call : FExpr)
  | other (desc : String)
/-- `case v₁, …, vₙ: body` -/
inductive PCase where
  | mk (vals : List FExpr) (body : List PStmt)
end

instance : Inhabited PStmt := ⟨.other ""⟩

/-- A translated function declaration. -/
structure PFunc where
  /-- `Name` or `Recv.Name` -/
  name : String
  /-- receiver (if any) and parameters, in order: canonical name and type (`"...T"` for a variadic
  parameter) -/
  params : List (String × String)
  /-- result types -/
  results : List String
  /-- canonical name ↦ name in the source (documentation; no semantics reads it) -/
  names : List (String × String)
  body : List PStmt

instance : Inhabited PFunc := ⟨⟨"", [], [], [], []⟩⟩

/-- A struct type of the package: its name and its fields (name, type), in declaration order. -/
abbrev StructDecl := String × List (String × String)

mutual
/-- Number of `other` nodes — 0 means the function lies wholly inside the translated fragment. -/
def PStmt.others : PStmt → Nat
  | .declare _ _ => 0
  | .define _ e => exprOthers e
  | .assign _ e => exprOthers e
  | .eval e => exprOthers e
  | .ret es => (es.map exprOthers).sum
  | .ite i c t e => othersList i + exprOthers c + othersList t + othersList e
  | .block b => othersList b
  | .loop _ i c p b =>
    othersList i + (match c with | some c => exprOthers c | none => 0) + othersList p + othersList b
  | .switch _ i t cs d => othersList i + exprOthers t + othersCases cs + othersList d
  | .brk _ => 0
  | .cont _ => 0
  | .go e => exprOthers e
  | .other _ => 1
def othersList : List PStmt → Nat
  | [] => 0
  | s :: ss => s.others + othersList ss
def PCase.others : PCase → Nat
  | .mk vs b => (vs.map exprOthers).sum + othersList b
def othersCases : List PCase → Nat
  | [] => 0
  | c :: cs => c.others + othersCases cs
end

mutual
/-- Number of `go` statements. -/
def PStmt.gos : PStmt → Nat
  | .ite i _ t e => gosList i + gosList t + gosList e
  | .block b => gosList b
  | .loop _ i _ p b => gosList i + gosList p + gosList b
  | .switch _ i _ cs d => gosList i + gosCases cs + gosList d
  | .go _ => 1
  | _ => 0
def gosList : List PStmt → Nat
  | [] => 0
  | s :: ss => s.gos + gosList ss
def PCase.gos : PCase → Nat
  | .mk _ b => gosList b
def gosCases : List PCase → Nat
  | [] => 0
  | c :: cs => c.gos + gosCases cs
end

end GoCrypt.SFlow2
