import GoCrypt.Base.Bytes

/-!
# Models of the `strconv` functions the codec uses

`FormatUint/FormatInt` and `ParseUint/ParseInt` with an explicit base in 2..36 (the codec never
passes base 0, so prefixes and underscores are never accepted) and a bit size.
-/

namespace GoCrypt.Strconv

/-- digit character for value `d < 36`: `0-9a-z`. -/
def digitChar (d : Nat) : UInt8 := if d < 10 then UInt8.ofNat (48 + d) else UInt8.ofNat (87 + d)

/-- Digits of `n` in `base`, most significant first; `[]` for 0 (callers add the "0"). -/
def digitsRev (base : Nat) (fuel : Nat) (n : Nat) : List UInt8 :=
  match fuel with
  | 0 => []
  | fuel + 1 => if n = 0 then [] else digitChar (n % base) :: digitsRev base fuel (n / base)

/-- `strconv.FormatUint(n, base)` for 2 ≤ base ≤ 36. -/
def formatUint (n : Nat) (base : Nat) : Bytes :=
  if n = 0 then [48] else (digitsRev base (n + 1) n).reverse

/-- `strconv.FormatInt(v, base)`. -/
def formatInt (v : Int) (base : Nat) : Bytes :=
  if v < 0 then 45 :: formatUint v.natAbs base else formatUint v.toNat base

/-- value of a digit character, case-insensitive (`0-9`, `a-z`, `A-Z`), none otherwise. -/
def digitVal (c : UInt8) : Option Nat :=
  if 48 ≤ c ∧ c ≤ 57 then some (c.toNat - 48)
  else if 97 ≤ c ∧ c ≤ 122 then some (c.toNat - 87)
  else if 65 ≤ c ∧ c ≤ 90 then some (c.toNat - 55)
  else none

inductive NumErr where
  | syntax
  | range
  deriving Repr, DecidableEq

/-- The digit loop of `ParseUint`, left to right: the first offending event decides — a character
that is not a digit of this base is a syntax error, a value exceeding `2^bits - 1` a range error
(Go returns at that character, without looking at the rest). -/
def parseDigits (base bits : Nat) : Bytes → Nat → Except NumErr Nat
  | [], acc => .ok acc
  | c :: cs, acc =>
    match digitVal c with
    | some d =>
      if d < base then
        (if acc * base + d < 2 ^ bits then parseDigits base bits cs (acc * base + d) else .error .range)
      else .error .syntax
    | none => .error .syntax

/-- `strconv.ParseUint(s, base, bitSize)` for an explicit base 2..36: no sign, no prefix, no
underscore; the empty string is a syntax error. -/
def parseUint (s : Bytes) (base bits : Nat) : Except NumErr Nat :=
  if s = [] then .error .syntax else parseDigits base bits s 0

/-- `strconv.ParseInt(s, base, bitSize)`: optional leading `+`/`-`, `ParseUint` on the rest with the
same bit size, then the signed cut-offs. -/
def parseInt (s : Bytes) (base bits : Nat) : Except NumErr Int :=
  if s = [] then .error .syntax else
  let (neg, body) := match s with
    | 43 :: r => (false, r)
    | 45 :: r => (true, r)
    | _ => (false, s)
  match parseUint body base bits with
  | .error e => .error e
  | .ok v =>
    if neg then (if v ≤ 2 ^ (bits - 1) then .ok (-(v : Int)) else .error .range)
    else (if v < 2 ^ (bits - 1) then .ok (v : Int) else .error .range)

end GoCrypt.Strconv
