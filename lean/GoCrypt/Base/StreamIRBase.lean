import GoCrypt.Base.B64IRBase

/-!
# Stream IR: the constructors and the streaming encoder/decoder of `hash/base64le` as programs

`gogen` (b64ir.go, "stream" mode) re-translates `NewEncoding`, `Encoding.WithPadding`, `Encoding.Strict`,
`(*encoder).Write`, `(*encoder).Close`, `NewEncoder`, `(*decoder).Read`, `(*newlineFilteringReader).Read`
and `NewDecoder` from the current Go source into the statements below (`Gen/StreamIR.lean`);
`Proofs/SIR*.lean` prove that interpreting those programs gives the hand-written models
(`Model/Base64LE.lean`, `Model/Stream.lean`).

This IR is the buffer IR of `Base/B64IRBase.lean` (same expression and statement forms, same heap of
byte buffers, same slices-as-windows, same loop bounds and outcomes `ok`/`panic`/`stuck`) plus what the
one-shot functions did not need:

* STRUCTS live in an object store: `World.objs` is a list of objects (type name + field values in
  declaration order), `Val.ptr a` points at object number `a`. Every struct variable is held through
  such a pointer, so `e.f` reads and `e.f = v` writes field `f` of the object — seen through every alias,
  as in Go. A byte-ARRAY field (`buf [3]byte`) owns a heap buffer of its own and is stored in the object as
  the full window `⟨buffer, 0, N, N⟩`; so `e.buf[i]`, `e.buf[:]`, `d.outbuf[:nw]`, `len(e.buf)` are the
  ordinary slice operations and `d.out = d.outbuf[:nw]` really aliases the struct's own array.
  (The translator never emits an array as a VALUE: copying an array has no IR form here.)
* `new(T)` / `&T{…}` is `Stmt.new_`: fields are initialised in order (`FInit.val e`, or `FInit.zeroArr n`
  which allocates a fresh zero buffer), the object is appended to the store.
* a VALUE receiver/parameter of struct type is passed as a pointer to the caller's object and the callee
  starts with `Stmt.clone`: a field-by-field copy into a fresh object (array fields get fresh buffers),
  so the callee's assignments do not reach the caller. `&enc` of such a variable is then just its pointer.
* an `error` is `Val.err none` (`nil`) or `Val.err (some code)`; the codes are the error identities of
  `Model/Stream.lean`: 1 = `io.EOF`, 2 = `io.ErrUnexpectedEOF`, 1000+k = `CorruptInputError(k)`,
  anything else = an error of the underlying writer/reader. `a == b` on errors compares codes.
* `io.Writer` / `io.Reader` values are either `Val.ext k` — EXTERNAL object number `k` of `World.exts`, a
  scripted writer or reader whose behaviour is `extCall` below (it is, clause by clause, `EncSt.wWrite`
  / `DecSt.rawRead` of `Model/Stream.lean`; proved in `Proofs/SIREncDefs.lean` and `Proofs/SIRDecExt.lean`) — or a `Val.ptr` to an
  object of this package, in which case the interface call `x.Read(p)` (`Stmt.icall`) dispatches on the
  object's type name to the translated method `"<type>.Read"`.
* `copy(dst, src)` is `Stmt.copy`: `min(len dst, len src)` bytes, the source is read completely before
  anything is written (Go's `copy` is a `memmove`: overlapping windows are fine).
* `panic("…")` is `Stmt.panic_`.
* calls of functions that are NOT in the program go to a library (`lib`); `Gen/StreamIR.lean`'s functions
  call `Encoding.Encode`, `Encoding.EncodedLen` and `Encoding.Decode`, and the theorems instantiate the
  library with the regenerated buffer-IR program of those functions (`libB64`): the `*Encoding` argument
  is read out of the object store into the struct value the buffer IR expects, the heap is shared.
* loops that contain an interface call have `Expr.extPending` in their bound: the total number of bytes
  and script entries all scripted readers can still deliver. The Go loops around `Read` are unbounded;
  running out of the bound while the condition still holds is `stuck`, never a normal result.
-/

namespace GoCrypt.SIR
open GoCrypt.B64IR (Buf Heap Slice Res BinOp evalBin wrapU wrapS sliceBytes writeList)

inductive Val where
  | undef
  | int (i : Int)
  | bool (b : Bool)
  | slice (s : Slice)
  | str (s : Bytes)
  | err (e : Option Nat)
  | ptr (a : Nat)
  | ext (k : Nat)
  deriving Repr, DecidableEq, Inhabited

/-- A struct object: its Go type name and its fields in declaration order. -/
structure Obj where
  tag : String
  fields : List Val
  deriving Repr, DecidableEq, Inhabited

/-- One scripted answer of an external reader: `data`, and an error delivered with its last piece. -/
structure ReadResp where
  data : Bytes
  err : Option Nat
  deriving Repr, DecidableEq, Inhabited

/-- An external `io.Writer` / `io.Reader`. -/
inductive Ext where
  /-- everything handed to `Write` so far (oldest first) and the answers to the next calls:
  `none` = accept all, `some (e, k)` = take `k` bytes, then fail with error `e`; an exhausted script accepts. -/
  | writer (log : List Bytes) (script : List (Option (Nat × Nat)))
  /-- answers to the next calls, what is returned once they are used up, and the number of calls so far -/
  | reader (script : List ReadResp) (sticky : Option Nat) (reads : Nat)
  deriving Repr, DecidableEq, Inhabited

structure World where
  heap : Heap
  objs : List Obj
  exts : List Ext
  deriving Repr, DecidableEq, Inhabited

inductive Expr where
  | int (n : Int)
  | bool (b : Bool)
  | var (x : Nat)
  | len (e : Expr)
  | bin (op : BinOp) (a b : Expr)
  | wrapU (bits : Nat) (e : Expr)
  | wrapS (bits : Nat) (e : Expr)
  | not (e : Expr)
  | lor (a b : Expr)
  | land (a b : Expr)
  | index (b i : Expr)                -- `b[i]` on a slice, array field or string
  | slice (b lo hi : Expr)            -- `b[lo:hi]`
  | field (e : Expr) (k : Nat)        -- `e.f` through the pointer `e`, `f` the `k`-th field
  | nilErr                            -- `nil` of type `error`
  | isNil (e : Expr)                  -- `e == nil` for an `error`
  | errConst (code : Nat)             -- `io.EOF` (1), `io.ErrUnexpectedEOF` (2)
  | errEq (a b : Expr)                -- `a == b` for two errors
  | nilSlice                          -- `nil` of type `[]byte`
  | extPending                        -- loop bounds only: what the scripted readers can still deliver
  | unknown (desc : String)
  deriving Repr, DecidableEq, Inhabited

inductive LHS where
  | blank
  | var (x : Nat)
  | index (x : Nat) (i : Expr)        -- `x[i]` for a slice variable `x`
  | indexE (b : Expr) (i : Expr)      -- `b[i]` for any other slice/array-field expression `b`
  | field (e : Expr) (k : Nat)        -- `e.f`
  deriving Repr, DecidableEq, Inhabited

/-- Initialiser of one field in `new(T)` / `&T{…}`. -/
inductive FInit where
  | val (e : Expr)
  | zeroArr (n : Nat)                 -- a `[n]byte` field: a fresh zero buffer
  deriving Repr, DecidableEq, Inhabited

inductive Stmt where
  | skip
  | seq (a b : Stmt)
  | assign (lhs : List LHS) (rhs : List Expr)
  | ite (c : Expr) (t e : Stmt)
  | for_ (fuel cond : Expr) (post body : Stmt)
  | brk
  | cont
  | call (lhs : List LHS) (f : String) (args : List Expr)          -- a function of the program or the library
  | ret (es : List Expr)
  | panic_ (msg : String)                                            -- `panic("…")`
  | new_ (x : Nat) (tag : String) (inits : List FInit)               -- `x = new(T)` / `x = &T{…}`
  | clone (x : Nat) (e : Expr) (arrays : List Nat)                   -- `x = ` pointer to a copy of `*e`; `arrays` = its array fields
  | copy (lhs : LHS) (dst src : Expr)                                -- `lhs = copy(dst, src)`
  | icall (lhs : List LHS) (meth : String) (recv : Expr) (args : List Expr)  -- `lhs = recv.meth(args…)`, `recv` an interface
  | unknown (desc : String)
  deriving Repr, Inhabited

infixr:35 " ;; " => Stmt.seq

abbrev Env := List Val

inductive Out where
  | norm (w : World) (env : Env)
  | brk (w : World) (env : Env)
  | cont (w : World) (env : Env)
  | ret (w : World) (vs : List Val)
  | panic
  | stuck (why : String)
  deriving Repr, DecidableEq

/-- Meaning of calls to functions (program or library). -/
structure Ctx where
  call : String → World → List Val → Res (World × List Val)

def asInt : Val → Res Int
  | .int i => .ok i
  | _ => .stuck "int expected"

def asBool : Val → Res Bool
  | .bool b => .ok b
  | _ => .stuck "bool expected"

def asErr : Val → Res (Option Nat)
  | .err e => .ok e
  | _ => .stuck "error expected"

def lookup (env : Env) (x : Nat) : Res Val :=
  match env[x]? with
  | some .undef => .stuck "variable read before its declaration"
  | some v => .ok v
  | none => .stuck "no such slot"

def lenOf : Val → Res Val
  | .slice s => .ok (.int s.len)
  | .str a => .ok (.int a.length)
  | _ => .stuck "len of a non-slice"

def indexBytes (a : Bytes) (i : Int) : Res Val :=
  if 0 ≤ i then
    match a[i.toNat]? with
    | some x => .ok (.int x.toNat)
    | none => .panic
  else .panic

def indexVal (h : Heap) (c : Val) (i : Int) : Res Val :=
  match c with
  | .slice s =>
    if 0 ≤ i ∧ i < s.len then
      match h[s.buf]? with
      | some b =>
        match b[s.off + i.toNat]? with
        | some x => .ok (.int x.toNat)
        | none => .stuck "slice outside its buffer"
      | none => .stuck "dangling slice"
    else .panic
  | .str a => indexBytes a i
  | _ => .stuck "index of a non-slice"

def sliceVal (c : Val) (lo hi : Int) : Res Val :=
  match c with
  | .slice s =>
    if 0 ≤ lo ∧ lo ≤ hi ∧ hi ≤ s.cap then
      .ok (.slice ⟨s.buf, s.off + lo.toNat, (hi - lo).toNat, s.cap - lo.toNat⟩)
    else .panic
  | _ => .stuck "slice expression on a non-slice"

def fieldOf (objs : List Obj) (v : Val) (k : Nat) : Res Val :=
  match v with
  | .ptr a =>
    match objs[a]? with
    | some o =>
      match o.fields[k]? with
      | some f => .ok f
      | none => .stuck "no such field"
    | none => .stuck "dangling pointer"
  | _ => .stuck "field of a non-pointer"

/-- What a scripted reader can still deliver: one per byte and one per script entry. -/
def Ext.pending : Ext → Nat
  | .writer _ _ => 0
  | .reader script _ _ => (script.map fun r => r.data.length + 1).sum

def pendingAll (exts : List Ext) : Nat := (exts.map Ext.pending).sum

/-- The result of an integer operator (computed by the buffer IR's `evalBin`) as a value of this IR. -/
def binRes : Res B64IR.Val → Res Val
  | .ok (.int i) => .ok (.int i)
  | .ok (.bool b) => .ok (.bool b)
  | .ok _ => .stuck "operator result"
  | .panic => .panic
  | .stuck w => .stuck w

def eval (W : World) (env : Env) : Expr → Res Val
  | .int n => .ok (.int n)
  | .bool b => .ok (.bool b)
  | .var x => lookup env x
  | .len e => do lenOf (← eval W env e)
  | .bin op a b => do
    let x ← asInt (← eval W env a)
    let y ← asInt (← eval W env b)
    binRes (evalBin op x y)
  | .wrapU bits e => do let x ← asInt (← eval W env e); pure (.int (wrapU bits x))
  | .wrapS bits e => do let x ← asInt (← eval W env e); pure (.int (wrapS bits x))
  | .not e => do let x ← asBool (← eval W env e); pure (.bool (!x))
  | .lor a b => do
    let x ← asBool (← eval W env a)
    if x then pure (.bool true) else do let y ← asBool (← eval W env b); pure (.bool y)
  | .land a b => do
    let x ← asBool (← eval W env a)
    if x then do let y ← asBool (← eval W env b); pure (.bool y) else pure (.bool false)
  | .index b i => do
    let c ← eval W env b
    let k ← asInt (← eval W env i)
    indexVal W.heap c k
  | .slice b lo hi => do
    let c ← eval W env b
    let l ← asInt (← eval W env lo)
    let u ← asInt (← eval W env hi)
    sliceVal c l u
  | .field e k => do fieldOf W.objs (← eval W env e) k
  | .nilErr => .ok (.err none)
  | .isNil e => do let o ← asErr (← eval W env e); pure (.bool o.isNone)
  | .errConst c => .ok (.err (some c))
  | .errEq a b => do
    let x ← asErr (← eval W env a)
    let y ← asErr (← eval W env b)
    pure (.bool (decide (x = y)))
  | .nilSlice => .ok (.slice ⟨0, 0, 0, 0⟩)
  | .extPending => .ok (.int (pendingAll W.exts))
  | .unknown d => .stuck ("unknown expression: " ++ d)

def evalArgs (W : World) (env : Env) : List Expr → Res (List Val)
  | [] => .ok []
  | e :: es => do
    let v ← eval W env e
    let vs ← evalArgs W env es
    pure (v :: vs)

inductive LRef where
  | blank
  | var (x : Nat)
  | heapAt (buf idx : Nat)
  | objField (a k : Nat)
  deriving Repr, DecidableEq

def refIndex (c : Val) (k : Int) : Res LRef :=
  match c with
  | .slice s => if 0 ≤ k ∧ k < s.len then .ok (.heapAt s.buf (s.off + k.toNat)) else .panic
  | _ => .stuck "store into a non-slice"

def evalLHS (W : World) (env : Env) : LHS → Res LRef
  | .blank => .ok .blank
  | .var x => .ok (.var x)
  | .index x i => do
    let c ← lookup env x
    let k ← asInt (← eval W env i)
    refIndex c k
  | .indexE b i => do
    let c ← eval W env b
    let k ← asInt (← eval W env i)
    refIndex c k
  | .field e k => do
    match (← eval W env e) with
    | .ptr a => .ok (.objField a k)
    | _ => .stuck "field store through a non-pointer"

def evalLHSs (W : World) (env : Env) : List LHS → Res (List LRef)
  | [] => .ok []
  | l :: ls => do
    let r ← evalLHS W env l
    let rs ← evalLHSs W env ls
    pure (r :: rs)

def asByte : Val → Res UInt8
  | .int v => if 0 ≤ v ∧ v < 256 then .ok (UInt8.ofNat v.toNat) else .stuck "stored value is not a byte"
  | _ => .stuck "stored value is not a byte"

def store (W : World) (env : Env) (r : LRef) (v : Val) : Res (World × Env) :=
  match r with
  | .blank => .ok (W, env)
  | .var x => if x < env.length then .ok (W, env.set x v) else .stuck "no such slot"
  | .heapAt b k => do
    let x ← asByte v
    match W.heap[b]? with
    | some buf =>
      if k < buf.size then .ok (⟨W.heap.set b (buf.setIfInBounds k x), W.objs, W.exts⟩, env)
      else .stuck "slice outside its buffer"
    | none => .stuck "dangling slice"
  | .objField a k =>
    match W.objs[a]? with
    | some o =>
      if k < o.fields.length then .ok (⟨W.heap, W.objs.set a ⟨o.tag, o.fields.set k v⟩, W.exts⟩, env)
      else .stuck "no such field"
    | none => .stuck "dangling pointer"

def storeAll (W : World) (env : Env) : List LRef → List Val → Res (World × Env)
  | [], [] => .ok (W, env)
  | r :: rs, v :: vs => do
    let (W', env') ← store W env r v
    storeAll W' env' rs vs
  | _, _ => .stuck "assignment count mismatch"

/-- The bytes a `copy` reads. -/
def srcBytes (h : Heap) : Val → Res Bytes
  | .slice s =>
    match sliceBytes h s with
    | some b => .ok b
    | none => .stuck "slice outside its buffer"
  | .str a => .ok a
  | _ => .stuck "copy from a non-slice"

/-- Write `bs` (not longer than the window) at the start of window `s`. -/
def writeSlice (h : Heap) (s : Slice) (bs : Bytes) : Res Heap :=
  match h[s.buf]? with
  | some buf =>
    if s.off + bs.length ≤ buf.size then .ok (h.set s.buf (writeList buf s.off bs))
    else .stuck "slice outside its buffer"
  | none => .stuck "dangling slice"

/-- `copy(dst, src)`: the new heap and the number of bytes copied. -/
def copyVal (h : Heap) (d : Val) (src : Bytes) : Res (Heap × Nat) :=
  match d with
  | .slice s =>
    match writeSlice h s (src.take s.len) with
    | .ok h' => .ok (h', min s.len src.length)
    | .panic => .panic
    | .stuck w => .stuck w
  | _ => .stuck "copy into a non-slice"

/-- The scripted external objects: `Write(p)` on a writer, `Read(p)` on a reader. -/
def extCall (W : World) (k : Nat) (meth : String) (args : List Val) : Res (World × List Val) :=
  match W.exts[k]?, args with
  | some (.writer log script), [.slice s] =>
    if meth ≠ "Write" then .stuck "no such method on a writer" else
    match sliceBytes W.heap s with
    | none => .stuck "slice outside its buffer"
    | some data =>
      match script with
      | [] => .ok (⟨W.heap, W.objs, W.exts.set k (.writer (log ++ [data]) [])⟩, [.int data.length, .err none])
      | none :: rest => .ok (⟨W.heap, W.objs, W.exts.set k (.writer (log ++ [data]) rest)⟩, [.int data.length, .err none])
      | some (e, n) :: rest =>
        .ok (⟨W.heap, W.objs, W.exts.set k (.writer (log ++ [data.take n]) rest)⟩, [.int (data.take n).length, .err (some e)])
  | some (.reader script sticky reads), [.slice s] =>
    if meth ≠ "Read" then .stuck "no such method on a reader" else
    match script with
    | [] => .ok (⟨W.heap, W.objs, W.exts.set k (.reader [] sticky (reads + 1))⟩, [.int 0, .err sticky])
    | r :: rest =>
      if r.data.length ≤ s.len then
        match writeSlice W.heap s r.data with
        | .ok h' =>
          .ok (⟨h', W.objs, W.exts.set k (.reader rest (if r.err.isSome then r.err else sticky) (reads + 1))⟩,
            [.int r.data.length, .err r.err])
        | .panic => .panic
        | .stuck w => .stuck w
      else
        match writeSlice W.heap s (r.data.take s.len) with
        | .ok h' =>
          .ok (⟨h', W.objs, W.exts.set k (.reader (⟨r.data.drop s.len, r.err⟩ :: rest) sticky (reads + 1))⟩,
            [.int s.len, .err none])
        | .panic => .panic
        | .stuck w => .stuck w
  | _, _ => .stuck "external call"

/-- Field values of a new object; `zeroArr` fields allocate. -/
def evalInits (W : World) (env : Env) : Heap → List FInit → Res (Heap × List Val)
  | h, [] => .ok (h, [])
  | h, .val e :: rest => do
    let v ← eval W env e
    let (h', vs) ← evalInits W env h rest
    pure (h', v :: vs)
  | h, .zeroArr n :: rest => do
    let (h', vs) ← evalInits W env (h ++ [Array.replicate n 0]) rest
    pure (h', .slice ⟨h.length, 0, n, n⟩ :: vs)

/-- Field-by-field copy; the fields listed in `arrays` are arrays and get fresh buffers. -/
def cloneFields (arrays : List Nat) : Heap → Nat → List Val → Res (Heap × List Val)
  | h, _, [] => .ok (h, [])
  | h, k, f :: fs =>
    if arrays.contains k then
      match f with
      | .slice s =>
        match sliceBytes h s with
        | some bs => do
          let (h', fs') ← cloneFields arrays (h ++ [bs.toArray]) (k + 1) fs
          pure (h', .slice ⟨h.length, 0, bs.length, bs.length⟩ :: fs')
        | none => .stuck "array field outside its buffer"
      | _ => .stuck "array field expected"
    else do
      let (h', fs') ← cloneFields arrays h (k + 1) fs
      pure (h', f :: fs')

@[inline] def bindR {α : Type} (r : Res α) (k : α → Out) : Out :=
  match r with
  | .ok a => k a
  | .panic => .panic
  | .stuck w => .stuck w

@[inline] def Out.andThen (o : Out) (k : World → Env → Out) : Out :=
  match o with
  | .norm w env => k w env
  | o => o

def afterPost (k : World → Env → Out) : Out → Out
  | .norm w env => k w env
  | .brk _ _ => .stuck "break in a post statement"
  | .cont _ _ => .stuck "continue in a post statement"
  | o => o

def afterBody (post : World → Env → Out) (k : World → Env → Out) : Out → Out
  | .norm w env => afterPost k (post w env)
  | .cont w env => afterPost k (post w env)
  | .brk w env => .norm w env
  | o => o

/-- `for cond; ; post { body }` with a bound: out of fuel with `cond` still true is `stuck`. -/
def loop (cond : World → Env → Res Bool) (body post : World → Env → Out) : Nat → World → Env → Out
  | fuel, w, env =>
    bindR (cond w env) fun b =>
      if b then
        match fuel with
        | 0 => .stuck "loop bound exceeded"
        | n + 1 => afterBody post (loop cond body post n) (body w env)
      else .norm w env

def exec (c : Ctx) : Stmt → World → Env → Out
  | .skip, W, env => .norm W env
  | .seq a b, W, env => (exec c a W env).andThen (exec c b)
  | .assign lhs rhs, W, env =>
    bindR (evalLHSs W env lhs) fun refs =>
    bindR (evalArgs W env rhs) fun vals =>
    bindR (storeAll W env refs vals) fun (W', env') => .norm W' env'
  | .ite cnd t e, W, env =>
    bindR (eval W env cnd >>= asBool) fun b => if b then exec c t W env else exec c e W env
  | .for_ fuel cnd post body, W, env =>
    bindR (eval W env fuel >>= asInt) fun n =>
      loop (fun W env => eval W env cnd >>= asBool) (exec c body) (exec c post) n.toNat W env
  | .brk, W, env => .brk W env
  | .cont, W, env => .cont W env
  | .call lhs f args, W, env =>
    bindR (evalLHSs W env lhs) fun refs =>
    bindR (evalArgs W env args) fun vals =>
    bindR (c.call f W vals) fun (W', rs) =>
    bindR (storeAll W' env refs rs) fun (W'', env') => .norm W'' env'
  | .ret es, W, env => bindR (evalArgs W env es) fun vs => .ret W vs
  | .panic_ _, _, _ => .panic
  | .new_ x tag inits, W, env =>
    bindR (evalInits W env W.heap inits) fun (h', fs) =>
      if x < env.length then .norm ⟨h', W.objs ++ [⟨tag, fs⟩], W.exts⟩ (env.set x (.ptr W.objs.length))
      else .stuck "no such slot"
  | .clone x e arrays, W, env =>
    bindR (eval W env e) fun v =>
      match v with
      | .ptr a =>
        match W.objs[a]? with
        | some o =>
          bindR (cloneFields arrays W.heap 0 o.fields) fun (h', fs) =>
            if x < env.length then .norm ⟨h', W.objs ++ [⟨o.tag, fs⟩], W.exts⟩ (env.set x (.ptr W.objs.length))
            else .stuck "no such slot"
        | none => .stuck "dangling pointer"
      | _ => .stuck "pointer expected"
  | .copy lhs d s, W, env =>
    bindR (evalLHS W env lhs) fun ref =>
    bindR (eval W env d) fun dv =>
    bindR (eval W env s >>= srcBytes W.heap) fun bs =>
    bindR (copyVal W.heap dv bs) fun (h', n) =>
    bindR (store ⟨h', W.objs, W.exts⟩ env ref (.int n)) fun (W', env') => .norm W' env'
  | .icall lhs meth recv args, W, env =>
    bindR (evalLHSs W env lhs) fun refs =>
    bindR (eval W env recv) fun rv =>
    bindR (evalArgs W env args) fun vals =>
    bindR (match rv with
      | .ext k => extCall W k meth vals
      | .ptr a =>
        match W.objs[a]? with
        | some o => c.call (o.tag ++ "." ++ meth) W (rv :: vals)
        | none => .stuck "dangling pointer"
      | _ => .stuck "interface value expected") fun (W', rs) =>
    bindR (storeAll W' env refs rs) fun (W'', env') => .norm W'' env'
  | .unknown d, _, _ => .stuck ("unknown statement: " ++ d)

structure Proc where
  nparams : Nat
  nslots : Nat
  body : Stmt
  deriving Repr, Inhabited

def execProc (c : Ctx) (p : Proc) (W : World) (args : List Val) : Res (World × List Val) :=
  if p.nparams ≠ args.length then .stuck "wrong number of arguments" else
  match exec c p.body W (args ++ List.replicate (p.nslots - p.nparams) .undef) with
  | .ret W' vs => .ok (W', vs)
  | .norm W' _ => .ok (W', [])
  | .brk _ _ => .stuck "break outside a loop"
  | .cont _ _ => .stuck "continue outside a loop"
  | .panic => .panic
  | .stuck w => .stuck w

structure Program where
  procs : List (String × Proc)

/-- The library: what a call of a function outside the program does. -/
abbrev Lib := String → World → List Val → Res (World × List Val)

/-- Calls are resolved in the program, else in the library; `depth` bounds the call nesting. -/
def callIn (P : Program) (lib : Lib) : Nat → String → World → List Val → Res (World × List Val)
  | 0, _, _, _ => .stuck "call depth exceeded"
  | d + 1, f, W, args =>
    match List.lookup f P.procs with
    | some p => execProc { call := callIn P lib d } p W args
    | none => lib f W args

def interp (P : Program) (lib : Lib) (f : String) (W : World) (args : List Val) : Res (World × List Val) :=
  callIn P lib (P.procs.length + 1) f W args

/-! ## The library of one-shot functions: the buffer IR -/

/-- An object as the struct value of the buffer IR: array fields by their current contents. -/
def fieldToB (h : Heap) : Val → Res B64IR.Fld
  | .int i => .ok (.int i)
  | .bool b => .ok (.bool b)
  | .slice s =>
    match sliceBytes h s with
    | some bs => .ok (.arr bs)
    | none => .stuck "array field outside its buffer"
  | _ => .stuck "field has no buffer-IR form"

def fieldsToB (h : Heap) : List Val → Res (List B64IR.Fld)
  | [] => .ok []
  | f :: fs => do
    let x ← fieldToB h f
    let xs ← fieldsToB h fs
    pure (x :: xs)

def toB (W : World) : Val → Res B64IR.Val
  | .int i => .ok (.int i)
  | .bool b => .ok (.bool b)
  | .slice s => .ok (.slice s)
  | .str s => .ok (.str s)
  | .ptr a =>
    match W.objs[a]? with
    | some o => do let fs ← fieldsToB W.heap o.fields; pure (.struct fs)
    | none => .stuck "dangling pointer"
  | _ => .stuck "argument has no buffer-IR form"

def argsToB (W : World) : List Val → Res (List B64IR.Val)
  | [] => .ok []
  | v :: vs => do
    let x ← toB W v
    let xs ← argsToB W vs
    pure (x :: xs)

def ofB : B64IR.Val → Res Val
  | .int i => .ok (.int i)
  | .bool b => .ok (.bool b)
  | .slice s => .ok (.slice s)
  | .str s => .ok (.str s)
  | .err none => .ok (.err none)
  | .err (some k) => if 0 ≤ k then .ok (.err (some (1000 + k.toNat))) else .stuck "negative CorruptInputError"
  | _ => .stuck "result has no stream-IR form"

def resultsOfB : List B64IR.Val → Res (List Val)
  | [] => .ok []
  | v :: vs => do
    let x ← ofB v
    let xs ← resultsOfB vs
    pure (x :: xs)

/-- Calls into a buffer-IR program `BP`, on the shared heap. -/
def libB64 (BP : B64IR.Program) : Lib := fun f W args =>
  match argsToB W args with
  | .ok bargs =>
    match B64IR.interp BP f W.heap bargs with
    | .ok (h', rs) =>
      match resultsOfB rs with
      | .ok vs => .ok (⟨h', W.objs, W.exts⟩, vs)
      | .panic => .panic
      | .stuck w => .stuck w
    | .panic => .panic
    | .stuck w => .stuck w
  | .panic => .panic
  | .stuck w => .stuck w

end GoCrypt.SIR
