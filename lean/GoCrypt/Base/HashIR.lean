import GoCrypt.Base.Bytes
import GoCrypt.Base.Strconv

/-!
# Hash-transcript IR: the key-derivation bodies as small structured programs

`gogen` (kdfir.go) re-translates `md5crypt.Encrypt`, `sha2crypt.Encrypt`/`duplicate`, their helpers
`newHash`/`sum`, `cryptoutil.Permute` and the hashing part of `sha1.Key` from the current Go source
into the statements below
(`Gen/KdfIR.lean`); `Proofs/KdfIR*.lean` prove that interpreting those programs gives the hand-written
models of `Model/Kdf/Hashed.lean`, for every input and every hash function.

Reading guide (Go on the left, IR on the right):

* values: `int`/`uint32`/`byte` are `Val.int` (mathematical integers; unsigned results are reduced by
  `Expr.wrap`), `[]byte` is `Val.bytes`, a `hash.Hash` object is `Val.hash w` where `w` is everything
  written to it so far, a variadic `...[]byte` is `Val.list`.  Slices and hash objects are VALUES:
  the translator rejects the statements for which that would differ from Go's reference semantics
  (aliasing a hash object, `append` that is not `x = append(x, …)`, a store into a non-fresh slice).
* `md5.New()` / `h.New()` is `Expr.newHash`; `h.Write(e)` is `Stmt.write`; `h.Sum(nil)` is `Expr.sum`
  = `H` of the bytes written so far (the object is not reset); `h.Size()` is `Expr.hsize`;
  `hmac.New(sha1.New, key)` is `Expr.newHmac key`, whose `Sum` is `HM key` of the bytes written.
  The interpreter takes the hash function `H : Bytes → Bytes`, its `size` and the HMAC function
  `HM : key → message → Bytes` as PARAMETERS.
* an array `var b [N]byte` is a `Val.bytes` of length `N`; `h.Sum(b[:0])` is `Stmt.sumInto`: the digest
  overwrites the front of `b` when it fits `len b` (the capacity of `b[:0]`), else `b` is unchanged.
* `x[a:b]` panics unless `0 ≤ a ≤ b ≤ len x` (capacity is not modelled: stricter than Go), `x[i]`
  panics out of range, `%` panics on a zero divisor.
* `for init; cond; post { body }` is `init ;; for_ fuel cond post body`: `fuel` is an expression the
  translator derives from the loop header, evaluated once on entry.  It is NOT trusted: running out
  of fuel while `cond` still holds is the result `stuck`, never a value.
* results: `ok` = fell through, `ret v` = a `return` was executed, `panic` = Go would panic,
  `stuck` = the IR left the fragment the interpreter understands (`unknown` node, type confusion,
  fuel, operators on negative numbers that are not modelled).  Theorems only ever state `ok`/`ret`/
  `panic` results, so a `stuck` anywhere makes them fail.
-/

namespace GoCrypt.HashIR

inductive Val where
  | int (i : Int)
  | bool (b : Bool)
  | bytes (b : Bytes)
  | hash (written : Bytes)
  | hmac (key written : Bytes)
  | list (l : List Bytes)
  | err (msg : String)
  deriving Repr, DecidableEq, Inhabited

inductive Res (α : Type) where
  | ok (a : α)
  | ret (v : Val)
  | panic
  | stuck (why : String)
  deriving Repr, DecidableEq

namespace Res

@[inline] protected def bind {α β : Type} : Res α → (α → Res β) → Res β
  | .ok a, f => f a
  | .ret v, _ => .ret v
  | .panic, _ => .panic
  | .stuck w, _ => .stuck w

instance : Monad Res where
  pure := .ok
  bind := Res.bind

end Res

inductive BinOp where
  | add | sub | mul | rem | band | shr
  | lt | le | gt | ge | eq | ne
  deriving Repr, DecidableEq, Inhabited

inductive Expr where
  | int (n : Int)
  | bytes (b : Bytes)                 -- `[]byte{…}`, `nil`
  | var (x : String)
  | global (g : String)               -- package-level variable (value in `Program.globals`)
  | len (e : Expr)
  | hsize                             -- `h.Size()` of the hash this run is about
  | newHash                           -- `md5.New()` / `h.New()`
  | newHmac (key : Expr)              -- `hmac.New(sha1.New, key)`
  | sum (h : Expr)                    -- `h.Sum(nil)`
  | bin (op : BinOp) (a b : Expr)
  | wrap (bits : Nat) (e : Expr)      -- result of unsigned `bits`-bit arithmetic
  | not (e : Expr)
  | lor (a b : Expr)                  -- `||`, `&&` (short-circuit)
  | land (a b : Expr)
  | index (b i : Expr)                -- `b[i]`
  | slice (b lo hi : Expr)            -- `b[lo:hi]` (absent bounds are made explicit: `0`, `len b`)
  | append (a b : Expr)               -- `append(a, b...)`
  | make (n cap : Expr)               -- `make([]byte, n, cap)`, `var b [n]byte`
  | formatUint (e base : Expr)        -- `[]byte(strconv.FormatUint(uint64(e), base))`
  | lnil                              -- variadic argument pack
  | lcons (e rest : Expr)
  | unknown (desc : String)
  deriving Repr, DecidableEq, Inhabited

inductive Stmt where
  | skip
  | seq (a b : Stmt)
  | assign (x : String) (e : Expr)                    -- `x := e`, `x = e`, `var x T` (zero value)
  | write (h : String) (e : Expr)                     -- `h.Write(e)`
  | setIndex (x : String) (i e : Expr)                -- `x[i] = e`
  | reset (h : String)                                -- `h.Reset()`
  | sumInto (x h : String)                            -- `h.Sum(x[:0])` for an array `x`, result discarded
  | ite (c : Expr) (t e : Stmt)
  | for_ (fuel cond : Expr) (post body : Stmt)
  | forRange (k v : Option String) (coll : Expr) (body : Stmt)   -- `for k, v := range coll` (k, v erased after each iteration)
  | scoped (locals : List String) (s : Stmt)          -- a Go block: its declarations end with it
  | call (x : String) (f : String) (args : List Expr) -- `x := f(args…)` for a translated function
  | ret (e : Expr)                                    -- `return e` / `return e, nil`
  | retErr (msg : String)                             -- `return nil, errors.New(msg)`
  | unknown (desc : String)
  deriving Repr, Inhabited

infixr:35 " ;; " => Stmt.seq

/-- Variable environment. -/
abbrev Env := String → Option Val

namespace Env
def empty : Env := fun _ => none
def set (st : Env) (x : String) (v : Val) : Env := fun y => if y = x then some v else st y
def erase (st : Env) (x : String) : Env := fun y => if y = x then none else st y
def eraseAll (st : Env) (xs : List String) : Env := xs.foldl erase st
def setOpt (st : Env) (x : Option String) (v : Val) : Env :=
  match x with
  | some x => st.set x v
  | none => st
def eraseOpt (st : Env) (x : Option String) : Env :=
  match x with
  | some x => st.erase x
  | none => st
def ofList : List (String × Val) → Env
  | [] => empty
  | (x, v) :: rest => (ofList rest).set x v
end Env

/-- What the interpreter is parameterised by: the hash function, its output size, the package-level
variables, and the meaning of calls to other translated functions. -/
structure Ctx where
  H : Bytes → Bytes
  HM : Bytes → Bytes → Bytes
  size : Nat
  globals : String → Option Val
  call : String → List Val → Res Val

def asInt : Val → Res Int
  | .int i => .ok i
  | _ => .stuck "int expected"

def asBool : Val → Res Bool
  | .bool b => .ok b
  | _ => .stuck "bool expected"

def asBytes : Val → Res Bytes
  | .bytes b => .ok b
  | _ => .stuck "[]byte expected"

def asHash : Val → Res Bytes
  | .hash w => .ok w
  | _ => .stuck "hash.Hash expected"

/-- `h.Sum(nil)`: `H` of what was written, resp. `HM key` of it for an HMAC object. -/
def digestOf (c : Ctx) : Val → Res Bytes
  | .hash w => .ok (c.H w)
  | .hmac k w => .ok (c.HM k w)
  | _ => .stuck "hash.Hash expected"

/-- `h.Write(b)` -/
def appendTo : Val → Bytes → Res Val
  | .hash w, b => .ok (.hash (w ++ b))
  | .hmac k w, b => .ok (.hmac k (w ++ b))
  | _, _ => .stuck "hash.Hash expected"

/-- `h.Reset()` -/
def resetOf : Val → Res Val
  | .hash _ => .ok (.hash [])
  | .hmac k _ => .ok (.hmac k [])
  | _ => .stuck "hash.Hash expected"

/-- `h.Sum(x[:0])` on an array `x`: `append` writes the digest over the front of the array when it
fits its capacity `len x`; otherwise it allocates, and the array is unchanged. -/
def sumOver (x d : Bytes) : Bytes := if d.length ≤ x.length then d ++ x.drop d.length else x

def asList : Val → Res (List Bytes)
  | .list l => .ok l
  | _ => .stuck "...[]byte expected"

def lookup (st : Env) (x : String) : Res Val :=
  match st x with
  | some v => .ok v
  | none => .stuck ("undefined variable " ++ x)

/-- Integer operators. `&` and `>>` are only modelled on non-negative operands. -/
def evalBin (op : BinOp) (a b : Int) : Res Val :=
  match op with
  | .add => .ok (.int (a + b))
  | .sub => .ok (.int (a - b))
  | .mul => .ok (.int (a * b))
  | .rem => if b = 0 then .panic else .ok (.int (Int.tmod a b))
  | .band => if 0 ≤ a ∧ 0 ≤ b then .ok (.int ((a.toNat &&& b.toNat : Nat)))
             else .stuck "& on a negative operand"
  | .shr => if b < 0 then .panic
            else if 0 ≤ a then .ok (.int ((a.toNat >>> b.toNat : Nat)))
            else .stuck ">> of a negative operand"
  | .lt => .ok (.bool (decide (a < b)))
  | .le => .ok (.bool (decide (a ≤ b)))
  | .gt => .ok (.bool (decide (a > b)))
  | .ge => .ok (.bool (decide (a ≥ b)))
  | .eq => .ok (.bool (decide (a = b)))
  | .ne => .ok (.bool (decide (a ≠ b)))

def sliceOf (b : Bytes) (lo hi : Int) : Res Val :=
  if 0 ≤ lo ∧ lo ≤ hi ∧ hi ≤ b.length then .ok (.bytes ((b.take hi.toNat).drop lo.toNat)) else .panic

def indexOf (b : Bytes) (i : Int) : Res Val :=
  if 0 ≤ i then
    match b[i.toNat]? with
    | some x => .ok (.int x.toNat)
    | none => .panic
  else .panic

def lenOf : Val → Res Val
  | .bytes b => .ok (.int b.length)
  | .list l => .ok (.int l.length)
  | _ => .stuck "len of a non-slice"

def eval (c : Ctx) (st : Env) : Expr → Res Val
  | .int n => .ok (.int n)
  | .bytes b => .ok (.bytes b)
  | .var x => lookup st x
  | .global g =>
    match c.globals g with
    | some v => .ok v
    | none => .stuck ("undefined global " ++ g)
  | .len e => do lenOf (← eval c st e)
  | .hsize => .ok (.int c.size)
  | .newHash => .ok (.hash [])
  | .newHmac k => do let key ← asBytes (← eval c st k); pure (.hmac key [])
  | .sum h => do let d ← digestOf c (← eval c st h); pure (.bytes d)
  | .bin op a b => do
    let x ← asInt (← eval c st a)
    let y ← asInt (← eval c st b)
    evalBin op x y
  | .wrap bits e => do let x ← asInt (← eval c st e); pure (.int (x % (2 : Int) ^ bits))
  | .not e => do let x ← asBool (← eval c st e); pure (.bool (!x))
  | .lor a b => do
    let x ← asBool (← eval c st a)
    if x then pure (.bool true) else do let y ← asBool (← eval c st b); pure (.bool y)
  | .land a b => do
    let x ← asBool (← eval c st a)
    if x then do let y ← asBool (← eval c st b); pure (.bool y) else pure (.bool false)
  | .index b i => do
    let x ← asBytes (← eval c st b)
    let k ← asInt (← eval c st i)
    indexOf x k
  | .slice b lo hi => do
    let x ← asBytes (← eval c st b)
    let l ← asInt (← eval c st lo)
    let h ← asInt (← eval c st hi)
    sliceOf x l h
  | .append a b => do
    let x ← asBytes (← eval c st a)
    let y ← asBytes (← eval c st b)
    pure (.bytes (x ++ y))
  | .make n cap => do
    let k ← asInt (← eval c st n)
    let m ← asInt (← eval c st cap)
    if 0 ≤ k ∧ k ≤ m then pure (.bytes (List.replicate k.toNat 0)) else .panic
  | .formatUint e base => do
    let n ← asInt (← eval c st e)
    let b ← asInt (← eval c st base)
    if 0 ≤ n ∧ 2 ≤ b ∧ b ≤ 36 then pure (.bytes (Strconv.formatUint n.toNat b.toNat)) else .stuck "FormatUint"
  | .lnil => .ok (.list [])
  | .lcons e rest => do
    let x ← asBytes (← eval c st e)
    let l ← asList (← eval c st rest)
    pure (.list (x :: l))
  | .unknown d => .stuck ("unknown expression: " ++ d)

def evalArgs (c : Ctx) (st : Env) : List Expr → Res (List Val)
  | [] => .ok []
  | e :: es => do
    let v ← eval c st e
    let vs ← evalArgs c st es
    pure (v :: vs)

/-- `for cond { step }` with a fuel bound: out of fuel with `cond` still true is `stuck`. -/
def iter (cond : Env → Res Bool) (step : Env → Res Env) : Nat → Env → Res Env
  | 0, st => do if (← cond st) then .stuck "loop bound exceeded" else pure st
  | n + 1, st => do
    if (← cond st) then do
      let st' ← step st
      iter cond step n st'
    else pure st

/-- `for k, v := range items { step }`. -/
def rangeLoop (step : Nat → Val → Env → Res Env) : List Val → Nat → Env → Res Env
  | [], _, st => .ok st
  | v :: vs, k, st => do
    let st' ← step k v st
    rangeLoop step vs (k + 1) st'

/-- The elements `range` yields: the `[]byte`s of a variadic pack, or the bytes of a `[]byte`. -/
def rangeItems : Val → Res (List Val)
  | .list l => .ok (l.map .bytes)
  | .bytes b => .ok (b.map fun x => .int x.toNat)
  | _ => .stuck "range over a non-slice"

def storeByte (b : Bytes) (i v : Int) : Res Val :=
  if 0 ≤ v ∧ v < 256 then
    if 0 ≤ i ∧ i < b.length then .ok (.bytes (b.set i.toNat (UInt8.ofNat v.toNat))) else .panic
  else .stuck "stored value is not a byte"

def exec (c : Ctx) : Stmt → Env → Res Env
  | .skip, st => .ok st
  | .seq a b, st => do let st' ← exec c a st; exec c b st'
  | .assign x e, st => do let v ← eval c st e; pure (st.set x v)
  | .write h e, st => do
    let hv ← lookup st h
    let b ← asBytes (← eval c st e)
    let hv' ← appendTo hv b
    pure (st.set h hv')
  | .reset h, st => do
    let hv' ← resetOf (← lookup st h)
    pure (st.set h hv')
  | .sumInto x h, st => do
    let b ← asBytes (← lookup st x)
    let d ← digestOf c (← lookup st h)
    pure (st.set x (.bytes (sumOver b d)))
  | .setIndex x i e, st => do
    let b ← asBytes (← lookup st x)
    let k ← asInt (← eval c st i)
    let v ← asInt (← eval c st e)
    let b' ← storeByte b k v
    pure (st.set x b')
  | .ite cnd t e, st => do
    if (← asBool (← eval c st cnd)) then exec c t st else exec c e st
  | .for_ fuel cnd post body, st => do
    let n ← asInt (← eval c st fuel)
    iter (fun st => do asBool (← eval c st cnd))
         (fun st => do let st' ← exec c body st; exec c post st') n.toNat st
  | .forRange k v coll body, st => do
    let items ← rangeItems (← eval c st coll)
    rangeLoop (fun i x st => do
      let st' ← exec c body ((st.setOpt k (.int i)).setOpt v x)
      pure ((st'.eraseOpt k).eraseOpt v)) items 0 st
  | .scoped locals s, st => do let st' ← exec c s st; pure (st'.eraseAll locals)
  | .call x f args, st => do
    let vs ← evalArgs c st args
    let r ← c.call f vs
    pure (st.set x r)
  | .ret e, st => do let v ← eval c st e; .ret v
  | .retErr msg, _ => .ret (.err msg)
  | .unknown d, _ => .stuck ("unknown statement: " ++ d)

/-- A translated Go function. -/
structure Proc where
  params : List String
  body : Stmt
  deriving Repr, Inhabited

def execProc (c : Ctx) (p : Proc) (args : List Val) : Res Val :=
  if p.params.length ≠ args.length then .stuck "wrong number of arguments" else
  match exec c p.body (Env.ofList (p.params.zip args)) with
  | .ret v => .ok v
  | .ok _ => .stuck "function ended without return"
  | .panic => .panic
  | .stuck w => .stuck w

/-- The translated functions reachable from one entry point, plus the package variables they read. -/
structure Program where
  procs : List (String × Proc)
  globals : List (String × Val)

/-- Calls are resolved in the program; `depth` bounds the call nesting (no recursion in the fragment:
a program that recurses deeper is `stuck`). -/
def callIn (H : Bytes → Bytes) (HM : Bytes → Bytes → Bytes) (size : Nat) (P : Program) : Nat → String → List Val → Res Val
  | 0, _, _ => .stuck "call depth exceeded"
  | d + 1, f, args =>
    match List.lookup f P.procs with
    | some p => execProc { H := H, HM := HM, size := size, globals := fun g => List.lookup g P.globals,
                           call := callIn H HM size P d } p args
    | none => .stuck ("no such function " ++ f)

/-- Run function `f` of program `P` with hash `H` of output size `size` and HMAC function `HM`
(`HM key message`). -/
def interp (H : Bytes → Bytes) (HM : Bytes → Bytes → Bytes) (size : Nat) (P : Program) (f : String) (args : List Val) :
    Res Val :=
  callIn H HM size P P.procs.length f args

/-- The hand models return `Option Bytes` with `none` = "Go panics". -/
def ofModel : Option Bytes → Res Val
  | some b => .ok (.bytes b)
  | none => .panic

end GoCrypt.HashIR
