/-!
# A small statement-level IR for the `Check` / `Params` functions

`gogen` translates the bodies of every scheme package's `Check` and `Params`/`Salt` into
`List FStmt` (flat: the only conditionals in these functions are `if c { return e }` and
`if c { x = e }`). Whatever does not fit becomes an explicit `other` node, which every predicate
over the IR treats as "unknown — assume the worst".
-/

namespace GoCrypt.Flow

inductive FExpr where
  | var (name : String)                  -- local variable or parameter
  | field (base : String) (f : String)   -- `scheme.Sum`
  | const (desc : String)                -- literal, package-level constant, `nil`, type name
  | fn (name : String)                   -- function / method value, e.g. `subtle.ConstantTimeCompare`
  | app (f : FExpr) (arg : FExpr)        -- application, curried: f(a, b) = app (app f a) b
  | op (o : String) (a b : FExpr)        -- binary operator
  | un (o : String) (a : FExpr)          -- unary operator, slicing `x[:]` (o = "[:]"), address-of, conversion
  | other (desc : String)
  deriving Repr, DecidableEq, Inhabited

inductive FStmt where
  | declare (name : String)                          -- `var x T`
  | assign (lhs : List String) (rhs : FExpr)         -- `x, err := e` / `x = e`
  | ifRet (cond : FExpr) (ret : FExpr)               -- `if cond { return ret }` (init statement hoisted into a preceding assign)
  | ifAssign (cond : FExpr) (lhs : String) (rhs : FExpr)
  | eval (e : FExpr)                                 -- expression statement
  | ret (e : FExpr)
  | other (desc : String)
  deriving Repr, DecidableEq, Inhabited

/-- Build `f(a₁, …, aₙ)`. -/
def call (f : String) (args : List FExpr) : FExpr := args.foldl FExpr.app (FExpr.fn f)

/-- Head function name and arguments of an application spine. -/
def FExpr.spine : FExpr → Option String × List FExpr
  | .app f a => let (h, as) := f.spine; (h, as ++ [a])
  | .fn n => (some n, [])
  | _ => (none, [])

/-- Every variable / field mentioned in an expression (`base.f` for fields). -/
def FExpr.mentions : FExpr → List String
  | .var n => [n]
  | .field b f => [b ++ "." ++ f, b]
  | .const _ => []
  | .fn _ => []
  | .app f a => f.mentions ++ a.mentions
  | .op _ a b => a.mentions ++ b.mentions
  | .un _ a => a.mentions
  | .other _ => ["?"]

end GoCrypt.Flow
