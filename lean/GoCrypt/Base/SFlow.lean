import GoCrypt.Base.Flow

/-!
# A structured statement IR (blocks, `if … else …`, `return` inside branches)

The flat `FStmt` of `Base/Flow.lean` fits the scheme packages' `Check`/`Params`/`NewHash`, whose only
conditionals are `if c { return e }` and `if c { x = e }`.  The dispatcher (`crypt.go`: `Check`,
`RegisterHash`) and the lexer's prefix rule (`hash/parse/lex.go`: `lexPrefix`) nest `if`s, have
`else` branches and return from inside them.  `gogen` (`dispatchir.go`) translates those function
bodies into the IR below on every run (`Gen/DispatchFlow.lean`).

Expressions are the `FExpr` of `Base/Flow.lean`, with these spellings (all produced from the AST and
the type checker's information, never from the source text of an identifier's *meaning*):

* a constant expression (literal, named constant, constant arithmetic) is `.const` of its **value**:
  a string constant is spelled as a double-quoted literal whose bytes outside printable ASCII, `"` and
  `\` are `\xNN` escapes; an integer / rune constant in decimal; a boolean `true` / `false`;
* `nil` is `.const "nil"`; a package-level variable is `.const "pkg.Name"`;
* a local variable or parameter is `.var name` (the name in the source: these functions are small and
  the semantics implements Go's block scoping, so nothing is renamed);
* a field of a local, `x.f`, is `.field x f`;
* a package-level function is `.fn "pkg.Name"` (`.fn "Name"` inside its own package);
* a method call `recv.M(a, b)` is the application of `.fn "(*T).M"` / `.fn "(T).M"` (the method's
  receiver type as the type checker prints it, own-package types unqualified) to `recv, a, b`;
* any other call `f(a, b)` is `.app (.app f a) b` where `f` may be an arbitrary expression (an
  indirect call through a function value); a call without arguments `f()` is `.un "()" f`, so that it
  differs from the function value `f` (a method call always has its receiver as first argument);
* a keyed struct literal `T{K: v, …}` is `.fn "lit:T"` applied to `.op ":" (.const "K") v` pairs; a
  channel send `ch <- v` is the expression statement `.op "<-" ch v`;
* `x[lo:]` is `.op "[_:]" x lo`, `x[:hi]` is `.op "[:_]" x hi`, `x[lo:hi]` is
  `.op "[_:_]" x (.op ":" lo hi)`, `x[:]` is `.un "[:]" x`, `x[i]` is `.op "[_]" x i`;
* a type assertion `x.(T)` is `.un "assert:T" x`, a conversion `T(x)` is `.un "conv:T" x`, with `T`
  as the type checker prints it;
* everything else is `.other`.
-/

namespace GoCrypt.SFlow
open GoCrypt.Flow

inductive SStmt where
  /-- `var x T` (no initialiser); `ty` is the type as the type checker prints it -/
  | declare (name : String) (ty : String)
  /-- `x, y := e` / `var x = e`: declares in the innermost scope -/
  | define (lhs : List String) (rhs : FExpr)
  /-- `x, y = e`; a target is a variable `x` or a field `x.f`; `x op= e` and `x++` are spelled out
  as `x = x op e` -/
  | assign (lhs : List String) (rhs : FExpr)
  /-- expression statement -/
  | eval (e : FExpr)
  /-- `return e₁, …, eₙ` -/
  | ret (es : List FExpr)
  /-- `if init; cond { thn } else { els }`: `init` has zero or one statement; a missing `else` is
  the empty block; `else if …` is a block holding one `ite` -/
  | ite (init : List SStmt) (cond : FExpr) (thn : List SStmt) (els : List SStmt)
  /-- `{ … }` -/
  | block (body : List SStmt)
  | other (desc : String)
  deriving Repr, Inhabited

/-- A translated function declaration. -/
structure SFunc where
  /-- `Name` or `Recv.Name` -/
  name : String
  /-- receiver (if any) and parameters, in order: name and type -/
  params : List (String × String)
  /-- result types -/
  results : List String
  body : List SStmt
  deriving Repr, Inhabited

def exprOthers : FExpr → Nat
  | .other _ => 1
  | .app f a => exprOthers f + exprOthers a
  | .op _ a b => exprOthers a + exprOthers b
  | .un _ a => exprOthers a
  | _ => 0

mutual
/-- Number of `other` nodes (statements and expressions are counted alike) — 0 means the function
lies wholly inside the translated fragment. -/
def SStmt.others : SStmt → Nat
  | .declare _ _ => 0
  | .define _ e => exprOthers e
  | .assign _ e => exprOthers e
  | .eval e => exprOthers e
  | .ret es => (es.map exprOthers).sum
  | .ite i c t e => othersList i + exprOthers c + othersList t + othersList e
  | .block b => othersList b
  | .other _ => 1
def othersList : List SStmt → Nat
  | [] => 0
  | s :: ss => s.others + othersList ss
end

end GoCrypt.SFlow
