import GoCrypt.Base.HashIR

/-!
# Hash-transcript IR, second generation: the remaining key-derivation glue

`gogen` (kdfir2.go) translates the key-derivation glue that `Base/HashIR.lean` does not cover — the
DES helpers (`descrypt.Key`/`EncodeInt`/`DecodeInt`, `desext.key`), the tails of the `Key` functions
after their guard clauses, `nthash.encodePassword`, the round loop of `sunmd5.Key`, the bcrypt glue
(`encode`/`setup`) — into the statements below (`Gen/KdfIR2.lean`); `Proofs/KdfIR2*.lean` prove that
interpreting those programs gives the hand-written models, for every input.

This file only ADDS definitions (namespace `GoCrypt.HashIR2`); `Base/HashIR.lean` is unchanged and is
imported for one purpose: a program here can LINK a function that the first-generation IR already
covers (`md5crypt.Encrypt`, `sha2crypt.Encrypt`, `cryptoutil.Permute`): such a call runs
`HashIR.interp` on the regenerated first-generation program.

Differences to the first generation (reading guide: Go on the left, IR on the right):

* VARIABLES ARE SLOTS. The translator numbers the variable objects of a function in order of first
  appearance: the parameters are slots `0 … n-1`, locals and temporaries follow. The source names only
  appear in comments, so renaming a Go variable does not change the generated program at all.
  An environment is a `List (Option Val)` of length `Proc.slots`; `none` = not (or no longer) in scope.
* integers are mathematical (`Val.int`); the result of unsigned `+ - * <<` is reduced by `Expr.wrap`;
  `& | ^ >> <<` are modelled on non-negative operands only (`stuck` otherwise); `/` and `%` truncate
  (computed on the natural numbers when both operands are non-negative, which is the same) and panic on
  a zero divisor; a negative shift count panics.
* `[]uint16` / `[]rune` values are `Val.ints`.
* calls (`Stmt.call x f args`) are resolved, in this order, in the program's own procedures, in its
  linked first-generation programs, and in the OPAQUE PRIMITIVES the interpreter is parameterised by
  (`descrypt.Encrypt`, `hashutil.HashEncoding.Encode/Decode`, `[]rune(s)`, `utf16.Encode`, the Blowfish
  operations): a primitive is any function from argument values to a result. The translator hoists every
  call out of its expression into a temporary slot, in Go's evaluation order.
* a Go function literal that only READS the variables it captures (sunmd5's `bit`) is lambda-lifted:
  it becomes a procedure whose first parameters are the captured variables, passed at each call.
* a `(value, error)` result pair is ONE value: `Val.err msg` when the error is non-nil
  (`Expr.isErr` is `err != nil`, `Expr.errPrefix` is `errors.New(prefix + err.Error())`).
* `binary.BigEndian.PutUint64(b[off:], v)` / `binary.LittleEndian.PutUint16(b[off:], v)` is
  `Stmt.putUint`: panics unless `0 ≤ off ≤ len b` and `width ≤ len b - off`.
* results: `ok`/`ret`/`panic`/`stuck` as before; theorems never state `stuck`.
-/

namespace GoCrypt.HashIR2

inductive Val where
  | int (i : Int)
  | bool (b : Bool)
  | bytes (b : Bytes)
  | hash (written : Bytes)
  | ints (l : List Int)
  | err (msg : String)
  deriving Repr, DecidableEq, Inhabited

inductive Res (α : Type) where
  | ok (a : α)
  | ret (v : Val)
  | panic
  | stuck (why : String)
  deriving Repr, DecidableEq

namespace Res

@[inline] protected def bind {α β : Type} : Res α → (α → Res β) → Res β
  | .ok a, f => f a
  | .ret v, _ => .ret v
  | .panic, _ => .panic
  | .stuck w, _ => .stuck w

instance : Monad Res where
  pure := .ok
  bind := Res.bind

end Res

inductive BinOp where
  | add | sub | mul | quo | rem | band | bor | xor | shl | shr
  | lt | le | gt | ge | eq | ne
  deriving Repr, DecidableEq, Inhabited

inductive Expr where
  | int (n : Int)
  | bytes (b : Bytes)                 -- `[]byte{…}`, `[]byte("constant")`, `nil`
  | var (x : Nat)
  | global (g : String)               -- package-level constant table (value in `Program.globals`)
  | len (e : Expr)
  | newHash                           -- `md4.New()` / `md5.New()`
  | sum (h : Expr)                    -- `h.Sum(nil)`
  | bin (op : BinOp) (a b : Expr)
  | wrap (bits : Nat) (e : Expr)      -- result of unsigned `bits`-bit arithmetic
  | not (e : Expr)
  | lor (a b : Expr)                  -- `||`, `&&` (short-circuit)
  | land (a b : Expr)
  | beq (a b : Expr)                  -- `==` on strings / []byte contents
  | index (b i : Expr)                -- `b[i]`
  | slice (b lo hi : Expr)            -- `b[lo:hi]` (absent bounds are made explicit: `0`, `len b`)
  | append (a b : Expr)               -- `append(a, b...)`
  | make (n cap : Expr)               -- `make([]byte, n, cap)`, `var b [n]byte`
  | repeat_ (b n : Expr)              -- `bytes.Repeat(b, n)`
  | formatUint (e base : Expr)        -- `[]byte(strconv.FormatUint(uint64(e), base))`
  | isErr (e : Expr)                  -- `err != nil` on a (value, error) pair
  | errPrefix (pre : String) (e : Expr) -- `errors.New(pre + err.Error())`
  | unknown (desc : String)
  deriving Repr, DecidableEq, Inhabited

inductive Stmt where
  | skip
  | seq (a b : Stmt)
  | assign (x : Nat) (e : Expr)                       -- `x := e`, `x = e`, `var x T` (zero value)
  | write (h : Nat) (e : Expr)                        -- `h.Write(e)`
  | setIndex (x : Nat) (i e : Expr)                   -- `x[i] = e`
  | reset (h : Nat)                                   -- `h.Reset()`
  | putUint (x : Nat) (off : Expr) (width : Nat) (bigEndian : Bool) (e : Expr)
      -- `binary.{Big,Little}Endian.PutUint<8·width>(x[off:], e)`
  | setSlice (x : Nat) (lo hi e : Expr)                -- `copy(x[lo:hi], e)` for an `e` that must fit (`c.Encrypt(x[lo:hi], src)`)
  | ite (c : Expr) (t e : Stmt)
  | for_ (fuel cond : Expr) (post body : Stmt)
  | forRange (k v : Option Nat) (coll : Expr) (body : Stmt)   -- `for k, v := range coll` (k, v out of scope after each iteration)
  | scoped (locals : List Nat) (s : Stmt)             -- a Go block: its declarations end with it
  | call (x : Nat) (f : String) (args : List Expr)    -- `x := f(args…)`: procedure, linked function or primitive
  | ret (e : Expr)                                    -- `return e` / `return e, nil` / `return nil, err`
  | retErr (msg : String)                             -- `return nil, errors.New(msg)`
  | unknown (desc : String)
  deriving Repr, Inhabited

/-- Sequencing (`;;;` rather than the first generation's `;;`: notations are global, and an ambiguous token
makes Lean elaborate every tail of a statement chain twice). -/
infixr:35 " ;;; " => Stmt.seq

/-- Variable environment: slot `x` holds `some v` while the variable is in scope. -/
abbrev Env := List (Option Val)

namespace Env
def get (st : Env) (x : Nat) : Res Val :=
  match st[x]? with
  | some (some v) => .ok v
  | _ => .stuck "undefined variable"
def put (st : Env) (x : Nat) (v : Val) : Res Env :=
  if x < st.length then .ok (st.set x (some v)) else .stuck "no such slot"
def clear (st : Env) (xs : List Nat) : Env := xs.foldl (fun s x => s.set x none) st
def putOpt (st : Env) (x : Option Nat) (v : Val) : Res Env :=
  match x with
  | some x => st.put x v
  | none => .ok st
def clearOpt (st : Env) (x : Option Nat) : Env :=
  match x with
  | some x => st.set x none
  | none => st
/-- Initial environment of a procedure with `slots` slots: the arguments, then nothing. -/
def init (slots : Nat) (args : List Val) : Env := args.map some ++ List.replicate (slots - args.length) none
end Env

/-- What the interpreter is parameterised by: the hash function, the package-level tables, and the
meaning of calls. -/
structure Ctx where
  H : Bytes → Bytes
  globals : String → Option Val
  call : String → List Val → Res Val

def asInt : Val → Res Int
  | .int i => .ok i
  | _ => .stuck "int expected"

def asBool : Val → Res Bool
  | .bool b => .ok b
  | _ => .stuck "bool expected"

def asBytes : Val → Res Bytes
  | .bytes b => .ok b
  | _ => .stuck "[]byte expected"

def asHash : Val → Res Bytes
  | .hash w => .ok w
  | _ => .stuck "hash.Hash expected"

/-- A bit operator on non-negative operands. -/
def natOp (f : Nat → Nat → Nat) (a b : Int) : Res Val :=
  if 0 ≤ a ∧ 0 ≤ b then .ok (.int (f a.toNat b.toNat : Nat)) else .stuck "bit operator on a negative operand"

def evalBin (op : BinOp) (a b : Int) : Res Val :=
  match op with
  | .add => .ok (.int (a + b))
  | .sub => .ok (.int (a - b))
  | .mul => .ok (.int (a * b))
  | .quo => if b = 0 then .panic else if 0 ≤ a ∧ 0 ≤ b then .ok (.int (a.toNat / b.toNat : Nat)) else .ok (.int (Int.tdiv a b))
  | .rem => if b = 0 then .panic else if 0 ≤ a ∧ 0 ≤ b then .ok (.int (a.toNat % b.toNat : Nat)) else .ok (.int (Int.tmod a b))
  | .band => natOp (· &&& ·) a b
  | .bor => natOp (· ||| ·) a b
  | .xor => natOp (· ^^^ ·) a b
  | .shl => if b < 0 then .panic else natOp (· <<< ·) a b
  | .shr => if b < 0 then .panic else natOp (· >>> ·) a b
  | .lt => .ok (.bool (decide (a < b)))
  | .le => .ok (.bool (decide (a ≤ b)))
  | .gt => .ok (.bool (decide (a > b)))
  | .ge => .ok (.bool (decide (a ≥ b)))
  | .eq => .ok (.bool (decide (a = b)))
  | .ne => .ok (.bool (decide (a ≠ b)))

def sliceOf (b : Bytes) (lo hi : Int) : Res Val :=
  if 0 ≤ lo ∧ lo ≤ hi ∧ hi ≤ b.length then .ok (.bytes ((b.take hi.toNat).drop lo.toNat)) else .panic

def indexOf (b : Bytes) (i : Int) : Res Val :=
  if 0 ≤ i then
    match b[i.toNat]? with
    | some x => .ok (.int x.toNat)
    | none => .panic
  else .panic

def lenOf : Val → Res Val
  | .bytes b => .ok (.int b.length)
  | .ints l => .ok (.int l.length)
  | _ => .stuck "len of a non-slice"

def isErrOf : Val → Bool
  | .err _ => true
  | _ => false

def repeatBytes (b : Bytes) : Nat → Bytes
  | 0 => []
  | n + 1 => b ++ repeatBytes b n

def eval (c : Ctx) (st : Env) : Expr → Res Val
  | .int n => .ok (.int n)
  | .bytes b => .ok (.bytes b)
  | .var x => st.get x
  | .global g =>
    match c.globals g with
    | some v => .ok v
    | none => .stuck ("undefined global " ++ g)
  | .len e => do lenOf (← eval c st e)
  | .newHash => .ok (.hash [])
  | .sum h => do let w ← asHash (← eval c st h); pure (.bytes (c.H w))
  | .bin op a b => do
    let x ← asInt (← eval c st a)
    let y ← asInt (← eval c st b)
    evalBin op x y
  | .wrap bits e => do let x ← asInt (← eval c st e); pure (.int (x % (2 : Int) ^ bits))
  | .not e => do let x ← asBool (← eval c st e); pure (.bool (!x))
  | .lor a b => do
    let x ← asBool (← eval c st a)
    if x then pure (.bool true) else do let y ← asBool (← eval c st b); pure (.bool y)
  | .land a b => do
    let x ← asBool (← eval c st a)
    if x then do let y ← asBool (← eval c st b); pure (.bool y) else pure (.bool false)
  | .beq a b => do
    let x ← asBytes (← eval c st a)
    let y ← asBytes (← eval c st b)
    pure (.bool (decide (x = y)))
  | .index b i => do
    let x ← asBytes (← eval c st b)
    let k ← asInt (← eval c st i)
    indexOf x k
  | .slice b lo hi => do
    let x ← asBytes (← eval c st b)
    let l ← asInt (← eval c st lo)
    let h ← asInt (← eval c st hi)
    sliceOf x l h
  | .append a b => do
    let x ← asBytes (← eval c st a)
    let y ← asBytes (← eval c st b)
    pure (.bytes (x ++ y))
  | .make n cap => do
    let k ← asInt (← eval c st n)
    let m ← asInt (← eval c st cap)
    if 0 ≤ k ∧ k ≤ m then pure (.bytes (List.replicate k.toNat 0)) else .panic
  | .repeat_ b n => do
    let x ← asBytes (← eval c st b)
    let k ← asInt (← eval c st n)
    if 0 ≤ k then pure (.bytes (repeatBytes x k.toNat)) else .panic
  | .formatUint e base => do
    let n ← asInt (← eval c st e)
    let b ← asInt (← eval c st base)
    if 0 ≤ n ∧ 2 ≤ b ∧ b ≤ 36 then pure (.bytes (Strconv.formatUint n.toNat b.toNat)) else .stuck "FormatUint"
  | .isErr e => do let v ← eval c st e; pure (.bool (isErrOf v))
  | .errPrefix pre e => do
    match (← eval c st e) with
    | .err m => pure (.err (pre ++ m))
    | _ => .stuck "error expected"
  | .unknown d => .stuck ("unknown expression: " ++ d)

def evalArgs (c : Ctx) (st : Env) : List Expr → Res (List Val)
  | [] => .ok []
  | e :: es => do
    let v ← eval c st e
    let vs ← evalArgs c st es
    pure (v :: vs)

/-- `for cond { step }` with a fuel bound: out of fuel with `cond` still true is `stuck`. -/
def iter (cond : Env → Res Bool) (step : Env → Res Env) : Nat → Env → Res Env
  | 0, st => do if (← cond st) then .stuck "loop bound exceeded" else pure st
  | n + 1, st => do
    if (← cond st) then do
      let st' ← step st
      iter cond step n st'
    else pure st

/-- `for k, v := range items { step }`. -/
def rangeLoop (step : Nat → Val → Env → Res Env) : List Val → Nat → Env → Res Env
  | [], _, st => .ok st
  | v :: vs, k, st => do
    let st' ← step k v st
    rangeLoop step vs (k + 1) st'

/-- The elements `range` yields. -/
def rangeItems : Val → Res (List Val)
  | .bytes b => .ok (b.map fun x => .int x.toNat)
  | .ints l => .ok (l.map .int)
  | _ => .stuck "range over a non-slice"

def storeByte (b : Bytes) (i v : Int) : Res Val :=
  if 0 ≤ v ∧ v < 256 then
    if 0 ≤ i ∧ i < b.length then .ok (.bytes (b.set i.toNat (UInt8.ofNat v.toNat))) else .panic
  else .stuck "stored value is not a byte"

/-- The `width` bytes of `v`, least significant first. -/
def leBytes (width : Nat) (v : Nat) : Bytes := (List.range width).map fun i => UInt8.ofNat (v >>> (8 * i))

/-- `binary.<order>.PutUint<8·width>(b[off:], v)`. -/
def putUintAt (b : Bytes) (off : Int) (width : Nat) (bigEndian : Bool) (v : Int) : Res Val :=
  if 0 ≤ off ∧ off ≤ b.length then
    if off.toNat + width ≤ b.length then
      if 0 ≤ v ∧ v.toNat < 2 ^ (8 * width) then
        let le := leBytes width v.toNat
        .ok (.bytes (b.take off.toNat ++ (if bigEndian then le.reverse else le) ++ b.drop (off.toNat + width)))
      else .stuck "stored value does not fit"
    else .panic
  else .panic

/-- Writing `d` over the front of `b[lo:hi]`: the slice expression panics out of range, the write panics
when the window is shorter than `d`. -/
def setSliceAt (b : Bytes) (lo hi : Int) (d : Bytes) : Res Val :=
  if 0 ≤ lo ∧ lo ≤ hi ∧ hi ≤ b.length then
    if (d.length : Int) ≤ hi - lo then .ok (.bytes (b.take lo.toNat ++ d ++ b.drop (lo.toNat + d.length)))
    else .panic
  else .panic

def exec (c : Ctx) : Stmt → Env → Res Env
  | .skip, st => .ok st
  | .seq a b, st => do let st' ← exec c a st; exec c b st'
  | .assign x e, st => do let v ← eval c st e; st.put x v
  | .write h e, st => do
    let w ← asHash (← st.get h)
    let b ← asBytes (← eval c st e)
    st.put h (.hash (w ++ b))
  | .reset h, st => do
    let _ ← asHash (← st.get h)
    st.put h (.hash [])
  | .setIndex x i e, st => do
    let b ← asBytes (← st.get x)
    let k ← asInt (← eval c st i)
    let v ← asInt (← eval c st e)
    let b' ← storeByte b k v
    st.put x b'
  | .putUint x off width be e, st => do
    let b ← asBytes (← st.get x)
    let o ← asInt (← eval c st off)
    let v ← asInt (← eval c st e)
    let b' ← putUintAt b o width be v
    st.put x b'
  | .setSlice x lo hi e, st => do
    let b ← asBytes (← st.get x)
    let l ← asInt (← eval c st lo)
    let h ← asInt (← eval c st hi)
    let d ← asBytes (← eval c st e)
    let b' ← setSliceAt b l h d
    st.put x b'
  | .ite cnd t e, st => do
    if (← asBool (← eval c st cnd)) then exec c t st else exec c e st
  | .for_ fuel cnd post body, st => do
    let n ← asInt (← eval c st fuel)
    iter (fun st => do asBool (← eval c st cnd))
         (fun st => do let st' ← exec c body st; exec c post st') n.toNat st
  | .forRange k v coll body, st => do
    let items ← rangeItems (← eval c st coll)
    rangeLoop (fun i x st => do
      let st1 ← st.putOpt k (.int i)
      let st2 ← st1.putOpt v x
      let st' ← exec c body st2
      pure ((st'.clearOpt k).clearOpt v)) items 0 st
  | .scoped locals s, st => do let st' ← exec c s st; pure (st'.clear locals)
  | .call x f args, st => do
    let vs ← evalArgs c st args
    let r ← c.call f vs
    st.put x r
  | .ret e, st => do let v ← eval c st e; .ret v
  | .retErr msg, _ => .ret (.err msg)
  | .unknown d, _ => .stuck ("unknown statement: " ++ d)

/-- A translated Go function: `params` parameters in slots `0 … params-1`, `slots` slots in all. -/
structure Proc where
  params : Nat
  slots : Nat
  body : Stmt
  deriving Repr, Inhabited

def execProc (c : Ctx) (p : Proc) (args : List Val) : Res Val :=
  if p.params ≠ args.length ∨ p.slots < p.params then .stuck "wrong number of arguments" else
  match exec c p.body (Env.init p.slots args) with
  | .ret v => .ok v
  | .ok _ => .stuck "function ended without return"
  | .panic => .panic
  | .stuck w => .stuck w

/-! ## Linking first-generation programs -/

def Val.toOld : Val → Option HashIR.Val
  | .int i => some (.int i)
  | .bool b => some (.bool b)
  | .bytes b => some (.bytes b)
  | .hash w => some (.hash w)
  | .err m => some (.err m)
  | .ints _ => none

def Val.ofOld : HashIR.Val → Option Val
  | .int i => some (.int i)
  | .bool b => some (.bool b)
  | .bytes b => some (.bytes b)
  | .hash w => some (.hash w)
  | .err m => some (.err m)
  | .hmac _ _ => none
  | .list _ => none

def argsToOld : List Val → Option (List HashIR.Val)
  | [] => some []
  | v :: vs => do
    let v' ← v.toOld
    let vs' ← argsToOld vs
    pure (v' :: vs')

def ofOldRes : HashIR.Res HashIR.Val → Res Val
  | .ok v =>
    match Val.ofOld v with
    | some v' => .ok v'
    | none => .stuck "linked function returned a value outside the fragment"
  | .ret _ => .stuck "linked function: stray return"
  | .panic => .panic
  | .stuck w => .stuck w

/-- The translated functions reachable from one entry point, the constant tables they read, and the
first-generation programs they call into. -/
structure Program where
  procs : List (String × Proc)
  globals : List (String × Val)
  links : List (String × HashIR.Program) := []

/-- The parameters of a run: hash function `H` (with output size `size` and HMAC `HM`, only used by
linked first-generation programs) and the opaque primitives. -/
structure Params where
  H : Bytes → Bytes
  HM : Bytes → Bytes → Bytes := fun _ _ => []
  size : Nat := 0
  prim : String → List Val → Res Val := fun f _ => .stuck ("no such function " ++ f)

def callIn (π : Params) (P : Program) : Nat → String → List Val → Res Val
  | 0, _, _ => .stuck "call depth exceeded"
  | d + 1, f, args =>
    match List.lookup f P.procs with
    | some p => execProc { H := π.H, globals := fun g => List.lookup g P.globals, call := callIn π P d } p args
    | none =>
      match List.lookup f P.links with
      | some Q =>
        match argsToOld args with
        | some args' => ofOldRes (HashIR.interp π.H π.HM π.size Q f args')
        | none => .stuck "argument outside the first-generation fragment"
      | none => π.prim f args

/-- Run function `f` of program `P`. -/
def interp (π : Params) (P : Program) (f : String) (args : List Val) : Res Val :=
  callIn π P (P.procs.length + 1) f args

/-- The hand models return `Option Bytes` with `none` = "Go panics". -/
def ofModel : Option Bytes → Res Val
  | some b => .ok (.bytes b)
  | none => .panic

end GoCrypt.HashIR2
