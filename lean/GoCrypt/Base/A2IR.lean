import GoCrypt.Base.Bytes

/-!
# Block IR: the bodies of `argon2/argon2crypto` as small structured programs with a heap of blocks

`gogen` (argon2ir.go) re-translates `Key`, `initHash`, `initBlocks`, `processBlocks` with its
`processSegment` closure, `extractKey`, `indexAlpha`, `phi`, `blake2bHash`, `processBlockGeneric`,
`processBlock`, `processBlockXOR` and `blamkaGeneric` (the generic / `purego` path) from the current Go
source into the statements below (`Gen/Argon2IR.lean`); `Proofs/A2IR*.lean` prove that interpreting
those programs gives the hand-written model `Model/Kdf/Argon2.lean`.

Reading guide (Go on the left, IR on the right):

* VALUES carry their Go type. `uint32` (and `uint8`) values are natural numbers (`Val.u32 n`, invariant
  `n < 2^32`) and every `+ - *` on them is reduced `% 4294967296` by the interpreter (subtraction is
  `(a + 2^32 - b) % 2^32`), exactly the form the integer kernels of `Gen/Kernels.lean` use.  `uint64`
  values are machine words (`Val.u64 w`, `w : UInt64`), so wrap-around is built in.  `int` is
  `Val.int i` with every arithmetic result reduced to the signed 64-bit range (`wrapS64`).  An operator
  applied to operands of two different types is `stuck` (the Go type checker excludes it).  `/` and `%`
  panic on a zero divisor.  Shifts only occur with a constant count (`Expr.shl`/`Expr.shr`, count `≥ 64`
  gives `0` as in Go).
* THE HEAP has two regions of objects, `mem` (what `make` allocates: it survives the call) and `stk`
  (local variables of array type and `sync.WaitGroup`s: the region is cut back to its height at entry
  when the procedure returns; a procedure that would return a pointer into its own part of `stk` is
  `stuck`).  Objects hold words and bytes only, never references, so references live in variables only.
  An object is an array of blocks (`[]block`; a local `var t block` is a one-element array), a byte
  buffer, or a wait-group counter.
* `type block [128]uint64`.  A `*block` is `Val.pblk r i` = "element `i` of block array `r`"; `&B[i]`
  (`Expr.elem`) panics unless `0 ≤ i < len(B)`; `p[i]` on a `*block` or a `block` variable (`Expr.word`)
  panics unless `0 ≤ i < 128`.  Two pointers may be EQUAL (`processBlock(&addresses, &addresses, &zero)`):
  loads and stores go to the heap, so they are seen through every alias.  `&t[i]` is `Val.pword`
  (`Expr.addrWord`), `*p` is `Expr.deref`.  A `block` used as a VALUE (`for i, v := range B[k]`) is a copy
  (`Val.blk`, `Expr.loadBlk`), as in Go.
* `[]byte` is `Val.bytes r off len cap`, a window of byte buffer `r`; `nil` is `Val.nilBytes`.  A local
  `var x [N]byte` and a `*[N]byte` are both `Val.parr r`; the array as a value (`return h0`) is
  `Val.arr` (`Expr.loadArr`) and `h0 := f()` copies it into a fresh buffer (`LHS.newArr`).
  `x[lo:hi]` follows Go's rule (`0 ≤ lo ≤ hi ≤ cap`, for an array `≤ len`).
* `binary.LittleEndian.PutUint32/PutUint64(b, v)` (`Stmt.putU32`/`putU64`) panic when `len b` is too short;
  `binary.LittleEndian.Uint64(b)` is `Expr.leU64`.
* BLAKE2b is an OPAQUE PRIMITIVE: the interpreter is parameterised by `Ctx.H size msg` = the digest of
  `msg` at digest size `size`.  A `hash.Hash` variable holds `Val.hash size written`;
  `blake2b.New(size, nil)` (`Stmt.newHash`) yields the nil interface `Val.nilHash` unless `1 ≤ size ≤ 64`
  (the library returns an error that the source discards), and a method call on it panics;
  `Write` appends, `Reset` clears, `Sum(b)` is `append(b, digest...)` with the result discarded: the digest
  lands in `b`'s buffer at `len b` when `cap b - len b` suffices (the only use in the source, `Sum(x[:0])`),
  otherwise nothing visible happens.  `copy(dst, src)` copies `min(len dst, len src)` bytes.
* variables are numbered SLOTS of one flat frame per call: parameters first (for a lifted closure: the
  captured variables, then its own parameters), then every local in order of declaration.  A slot is
  `Val.undef` until its declaration runs.  Source names and file:line appear in comments only.
* `a, b = e1, e2` is `Stmt.assign [a, b] [e1, e2]`: operands on the left and all right-hand sides are
  evaluated first, then the stores happen left to right.  `x op= e` and `x++` are emitted as `x = x op e`
  (the operands of `x` contain no calls).
* `for init; cond; post { body }` is `init ;;; for_ fuel cond post body`; `fuel` is an expression the
  translator derives from the condition, evaluated once on entry, NOT trusted: running out of fuel while
  `cond` still holds is `stuck`.  `break`/`continue` have no IR form (`unknown`).
  `for i := range a` over an array of constant length is `forN` (Go does not evaluate `a`);
  `for i, v := range a` over a `block` is `forBlk`: `a` is evaluated ONCE to a copy, as in Go.
* a Go function literal that only reads the variables it captures is lambda-lifted (`processSegment`).
* GOROUTINES.  The only accepted pattern is
  `var wg sync.WaitGroup; for init; cond; post { wg.Add(1); go f(args…, &wg) }; wg.Wait()` with `f` ending
  in `wg.Done()`: it becomes `declWG ;;; tasks …` ("run these calls as tasks, then join") and the
  interpreter gives it the SEQUENTIAL meaning: the calls run one after the other in loop order, each
  `Add(1)`/`Done()` moves the counter object, and the join requires the counter to be back at `0`
  (otherwise `stuck`).  That every interleaving of the tasks produces the same memory is NOT part of
  this semantics; it is proved separately about the model (Props/C09.lean, Props/C09Link.lean).
  Any other use of `go`, channels or `sync` is `unknown`.
* results: `norm` = fell through, `ret` = `return`, `panic` = Go panics, `stuck` = the program left the
  fragment the interpreter understands (`unknown` node, type confusion, fuel, dangling reference …).
  The theorems only ever state `ok`/`panic` results, so a `stuck` anywhere makes them fail.
-/

namespace GoCrypt.A2IR

abbrev Block := Array UInt64

def zeroBlock : Block := Array.replicate 128 0

/-- A reference to a heap object. -/
inductive Ref where
  | mem (id : Nat)
  | stk (id : Nat)
  deriving Repr, DecidableEq, Inhabited

inductive Obj where
  | blocks (a : Array Block)
  | bytes (b : Bytes)
  | wg (n : Int)
  deriving Repr, DecidableEq, Inhabited

structure Heap where
  mem : List Obj
  stk : List Obj
  deriving Repr, DecidableEq, Inhabited

namespace Heap

def get (h : Heap) : Ref → Option Obj
  | .mem i => h.mem[i]?
  | .stk i => h.stk[i]?

def set (h : Heap) : Ref → Obj → Heap
  | .mem i, o => { h with mem := h.mem.set i o }
  | .stk i, o => { h with stk := h.stk.set i o }

/-- Allocate local objects. -/
def push (h : Heap) (os : List Obj) : Heap := { h with stk := h.stk ++ os }

/-- Allocate a `make`d object. -/
def alloc (h : Heap) (o : Obj) : Heap := { h with mem := h.mem ++ [o] }

/-- Cut the local region back to height `n` (procedure return). -/
def popTo (h : Heap) (n : Nat) : Heap := { h with stk := h.stk.take n }

end Heap

inductive Val where
  | undef
  | u8 (n : Nat)
  | u32 (n : Nat)
  | u64 (w : UInt64)
  | int (i : Int)
  | bool (b : Bool)
  | blk (b : Block)                       -- a `block` VALUE
  | arr (b : Bytes)                       -- a `[N]byte` VALUE
  | pblk (r : Ref) (i : Nat)              -- `*block`, or a local `block` variable
  | pword (r : Ref) (i k : Nat)           -- `*uint64` into word `k` of block `i` of `r`
  | blks (r : Ref)                        -- `[]block`
  | parr (r : Ref)                        -- `*[N]byte`, or a local `[N]byte` variable
  | bytes (r : Ref) (off len cap : Nat)   -- `[]byte`
  | nilBytes
  | hash (size : Nat) (written : Bytes)   -- `hash.Hash` (BLAKE2b with digest size `size`)
  | nilHash
  | pwg (r : Ref)                         -- `*sync.WaitGroup`, or a local `sync.WaitGroup` variable
  deriving Repr, DecidableEq, Inhabited

inductive Res (α : Type) where
  | ok (a : α)
  | panic
  | stuck (why : String)
  deriving Repr, DecidableEq

namespace Res

@[inline] protected def bind {α β : Type} : Res α → (α → Res β) → Res β
  | .ok a, f => f a
  | .panic, _ => .panic
  | .stuck w, _ => .stuck w

instance : Monad Res where
  pure := .ok
  bind := Res.bind

end Res

inductive Ty where
  | u8 | u32 | u64 | int
  deriving Repr, DecidableEq, Inhabited

inductive BinOp where
  | add | sub | mul | div | rem | band | bor | xor
  | lt | le | gt | ge | eq | ne
  deriving Repr, DecidableEq, Inhabited

inductive Expr where
  | u8 (n : Nat)
  | u32 (n : Nat)
  | u64 (n : Nat)
  | int (i : Int)
  | bool (b : Bool)
  | var (x : Nat)
  | bin (op : BinOp) (a b : Expr)
  | shl (e : Expr) (k : Nat)          -- `e << k`, `k` constant
  | shr (e : Expr) (k : Nat)          -- `e >> k`, `k` constant
  | conv (t : Ty) (e : Expr)          -- `T(e)` between integer types
  | not (e : Expr)
  | lor (a b : Expr)                  -- `||`, `&&` (short-circuit)
  | land (a b : Expr)
  | len (e : Expr)                    -- `len` of a `[]byte` / byte array
  | word (p i : Expr)                 -- `p[i]` for `p` a `*block` or a `block` variable
  | elem (b i : Expr)                 -- `&b[i]` / the place `b[i]` for `b` a `[]block`
  | addrWord (p i : Expr)             -- `&p[i]` for `p` a `*block` or a `block` variable
  | deref (p : Expr)                  -- `*p` for a `*uint64`
  | loadBlk (p : Expr)                -- the `block` at `p` as a value (a copy)
  | loadArr (p : Expr)                -- the `[N]byte` at `p` as a value (a copy)
  | slice (b lo hi : Expr)            -- `b[lo:hi]` (absent bounds are made explicit: `0`, `len b`)
  | leU64 (b : Expr)                  -- `binary.LittleEndian.Uint64(b)`
  | nilBytes
  | nilHash
  | unknown (desc : String)
  deriving Repr, Inhabited

/-- Left-hand side of an assignment. -/
inductive LHS where
  | blank                             -- `_`
  | var (x : Nat)
  | word (p i : Expr)                 -- `p[i]` for `p` a `*block` or a `block` variable
  | deref (p : Expr)                  -- `*p` for a `*uint64`
  | newArr (x : Nat)                  -- `x := <[N]byte value>`: a fresh local buffer
  deriving Repr, Inhabited

inductive Stmt where
  | skip
  | seq (a b : Stmt)
  | assign (lhs : List LHS) (rhs : List Expr)
  | declBlock (x : Nat)                                     -- `var x block`
  | declBytes (x : Nat) (n : Nat)                           -- `var x [n]byte`
  | declWG (x : Nat)                                        -- `var x sync.WaitGroup`
  | makeBlocks (x : Nat) (n : Expr)                         -- `x := make([]block, n)`
  | makeBytes (x : Nat) (n : Expr)                          -- `x := make([]byte, n)`
  | ite (c : Expr) (t e : Stmt)
  | for_ (fuel cond : Expr) (post body : Stmt)
  | forN (k : Nat) (n : Nat) (body : Stmt)                  -- `for k := range <array of length n>`
  | forBlk (k v : Nat) (e : Expr) (body : Stmt)             -- `for k, v := range <block value>`
  | call (lhs : List LHS) (f : String) (args : List Expr)   -- `a, b = f(args…)` for a translated function
  | ret (es : List Expr)
  | putU32 (dst v : Expr)                                   -- `binary.LittleEndian.PutUint32(dst, v)`
  | putU64 (dst v : Expr)                                   -- `binary.LittleEndian.PutUint64(dst, v)`
  | newHash (x : Nat) (size : Expr)                         -- `x, _ = blake2b.New(size, nil)`
  | hashWrite (x : Nat) (e : Expr)                          -- `x.Write(e)`
  | hashSum (x : Nat) (dst : Expr)                          -- `x.Sum(dst)` (result discarded)
  | hashReset (x : Nat)                                     -- `x.Reset()`
  | copy (dst src : Expr)                                   -- `copy(dst, src)` (result discarded)
  | tasks (fuel : Expr) (init : Stmt) (cond : Expr) (post : Stmt) (wg : Expr) (f : String) (args : List Expr)
      -- `for init; cond; post { wg.Add(1); go f(args…) }; wg.Wait()`: run the calls as tasks, then join
  | wgDone (e : Expr)                                       -- `e.Done()`
  | unknown (desc : String)
  deriving Repr, Inhabited

/-- Sequencing (a notation of its own: notations are global, and a token shared with another IR makes
Lean elaborate every tail of a statement chain twice). -/
infixr:35 " ;;; " => Stmt.seq

/-- The frame of one call: slot number ↦ value. -/
abbrev Env := List Val

/-- Result of a statement. -/
inductive Out where
  | norm (h : Heap) (env : Env)
  | ret (h : Heap) (vs : List Val)
  | panic
  | stuck (why : String)
  deriving Repr, DecidableEq

/-- What the interpreter is parameterised by: BLAKE2b (`H size msg`) and the meaning of calls. -/
structure Ctx where
  H : Nat → Bytes → Bytes
  call : String → Heap → List Val → Res (Heap × List Val)

def asBool : Val → Res Bool
  | .bool b => .ok b
  | _ => .stuck "bool expected"

def asU64 : Val → Res UInt64
  | .u64 w => .ok w
  | _ => .stuck "uint64 expected"

/-- An index or a count: a negative `int` panics (index out of range). -/
def asIdx : Val → Res Nat
  | .int i => if i < 0 then .panic else .ok i.toNat
  | .u8 n => .ok n
  | .u32 n => .ok n
  | .u64 w => .ok w.toNat
  | _ => .stuck "integer expected"

def lookup (env : Env) (x : Nat) : Res Val :=
  match env[x]? with
  | some .undef => .stuck "variable read before its declaration"
  | some v => .ok v
  | none => .stuck "no such slot"

def setSlot (env : Env) (x : Nat) (v : Val) : Res Env :=
  if x < env.length then .ok (env.set x v) else .stuck "no such slot"

/-- Reduce to the range of Go's `int` (64 bits, two's complement). -/
def wrapS64 (x : Int) : Int := (x + 9223372036854775808) % 18446744073709551616 - 9223372036854775808

/-! ## operators -/

def binU32 (op : BinOp) (a b : Nat) : Res Val :=
  match op with
  | .add => .ok (.u32 ((a + b) % 4294967296))
  | .sub => .ok (.u32 ((a + 4294967296 - b) % 4294967296))
  | .mul => .ok (.u32 ((a * b) % 4294967296))
  | .div => if b = 0 then .panic else .ok (.u32 (a / b))
  | .rem => if b = 0 then .panic else .ok (.u32 (a % b))
  | .band => .ok (.u32 (a &&& b))
  | .bor => .ok (.u32 (a ||| b))
  | .xor => .ok (.u32 (a ^^^ b))
  | .lt => .ok (.bool (decide (a < b)))
  | .le => .ok (.bool (decide (a ≤ b)))
  | .gt => .ok (.bool (decide (a > b)))
  | .ge => .ok (.bool (decide (a ≥ b)))
  | .eq => .ok (.bool (decide (a = b)))
  | .ne => .ok (.bool (decide (a ≠ b)))

def binU8 (op : BinOp) (a b : Nat) : Res Val :=
  match op with
  | .lt => .ok (.bool (decide (a < b)))
  | .le => .ok (.bool (decide (a ≤ b)))
  | .gt => .ok (.bool (decide (a > b)))
  | .ge => .ok (.bool (decide (a ≥ b)))
  | .eq => .ok (.bool (decide (a = b)))
  | .ne => .ok (.bool (decide (a ≠ b)))
  | _ => .stuck "uint8 arithmetic"

def binU64 (op : BinOp) (a b : UInt64) : Res Val :=
  match op with
  | .add => .ok (.u64 (a + b))
  | .sub => .ok (.u64 (a - b))
  | .mul => .ok (.u64 (a * b))
  | .div => if b = 0 then .panic else .ok (.u64 (a / b))
  | .rem => if b = 0 then .panic else .ok (.u64 (a % b))
  | .band => .ok (.u64 (a &&& b))
  | .bor => .ok (.u64 (a ||| b))
  | .xor => .ok (.u64 (a ^^^ b))
  | .lt => .ok (.bool (decide (a < b)))
  | .le => .ok (.bool (decide (a ≤ b)))
  | .gt => .ok (.bool (decide (a > b)))
  | .ge => .ok (.bool (decide (a ≥ b)))
  | .eq => .ok (.bool (decide (a = b)))
  | .ne => .ok (.bool (decide (a ≠ b)))

def binInt (op : BinOp) (a b : Int) : Res Val :=
  match op with
  | .add => .ok (.int (wrapS64 (a + b)))
  | .sub => .ok (.int (wrapS64 (a - b)))
  | .mul => .ok (.int (wrapS64 (a * b)))
  | .div => if b = 0 then .panic else .ok (.int (wrapS64 (Int.tdiv a b)))
  | .rem => if b = 0 then .panic else .ok (.int (Int.tmod a b))
  | .band | .bor | .xor => .stuck "bit operator on int"
  | .lt => .ok (.bool (decide (a < b)))
  | .le => .ok (.bool (decide (a ≤ b)))
  | .gt => .ok (.bool (decide (a > b)))
  | .ge => .ok (.bool (decide (a ≥ b)))
  | .eq => .ok (.bool (decide (a = b)))
  | .ne => .ok (.bool (decide (a ≠ b)))

def evalBin (op : BinOp) (a b : Val) : Res Val :=
  match a, b with
  | .u32 x, .u32 y => binU32 op x y
  | .u64 x, .u64 y => binU64 op x y
  | .int x, .int y => binInt op x y
  | .u8 x, .u8 y => binU8 op x y
  | _, _ => .stuck "operands of different or non-integer types"

def evalShl (v : Val) (k : Nat) : Res Val :=
  match v with
  | .u64 w => .ok (.u64 (if k < 64 then w <<< UInt64.ofNat k else 0))
  | .u32 n => .ok (.u32 ((n <<< k) % 4294967296))
  | _ => .stuck "shift of a value that is not uint32/uint64"

def evalShr (v : Val) (k : Nat) : Res Val :=
  match v with
  | .u64 w => .ok (.u64 (if k < 64 then w >>> UInt64.ofNat k else 0))
  | .u32 n => .ok (.u32 (n >>> k))
  | _ => .stuck "shift of a value that is not uint32/uint64"

/-- The mathematical value of an integer. -/
def intOf : Val → Res Int
  | .u8 n => .ok n
  | .u32 n => .ok n
  | .u64 w => .ok w.toNat
  | .int i => .ok i
  | _ => .stuck "integer expected"

/-- `T(v)`: reduce the mathematical value to the range of `T`. -/
def evalConv (t : Ty) (v : Val) : Res Val := do
  let x ← intOf v
  match t with
  | .u8 => pure (.u8 (x % 256).toNat)
  | .u32 => pure (.u32 (x % 4294967296).toNat)
  | .u64 => pure (.u64 (UInt64.ofNat (x % 18446744073709551616).toNat))
  | .int => pure (.int (wrapS64 x))

/-! ## heap access -/

def getBlocks (h : Heap) (r : Ref) : Res (Array Block) :=
  match h.get r with
  | some (.blocks a) => .ok a
  | _ => .stuck "reference to something that is not an array of blocks"

def getBytes (h : Heap) (r : Ref) : Res Bytes :=
  match h.get r with
  | some (.bytes b) => .ok b
  | _ => .stuck "reference to something that is not a byte buffer"

/-- The block a `*block` points to. -/
def blockAt (h : Heap) (r : Ref) (i : Nat) : Res Block := do
  let a ← getBlocks h r
  match a[i]? with
  | some b => .ok b
  | none => .stuck "dangling block pointer"

def readWord (h : Heap) (r : Ref) (i k : Nat) : Res Val := do
  let b ← blockAt h r i
  if k < 128 then
    match b[k]? with
    | some w => .ok (.u64 w)
    | none => .stuck "malformed block"
  else .panic

def storeWord (h : Heap) (r : Ref) (i k : Nat) (w : UInt64) : Res Heap := do
  let a ← getBlocks h r
  match a[i]? with
  | some b =>
    if k < b.size then .ok (h.set r (.blocks (a.set! i (b.set! k w))))
    else .stuck "malformed block"
  | none => .stuck "dangling block pointer"

def lenOf (h : Heap) : Val → Res Val
  | .bytes _ _ len _ => .ok (.int len)
  | .nilBytes => .ok (.int 0)
  | .parr r => do let b ← getBytes h r; pure (.int b.length)
  | _ => .stuck "len of something that is not a []byte"

/-- The bytes a `[]byte` value currently shows. -/
def viewBytes (h : Heap) : Val → Res Bytes
  | .bytes r off len _ => do
    let b ← getBytes h r
    if off + len ≤ b.length then .ok ((b.drop off).take len) else .stuck "slice outside its buffer"
  | .nilBytes => .ok []
  | _ => .stuck "[]byte expected"

/-- Overwrite `data.length` bytes of buffer `r` from offset `off`. -/
def writeAt (h : Heap) (r : Ref) (off : Nat) (data : Bytes) : Res Heap := do
  let b ← getBytes h r
  if off + data.length ≤ b.length then
    .ok (h.set r (.bytes (b.take off ++ data ++ b.drop (off + data.length))))
  else .stuck "slice outside its buffer"

def sliceVal (h : Heap) (c : Val) (lo hi : Nat) : Res Val :=
  match c with
  | .bytes r off _ cap =>
    if lo ≤ hi ∧ hi ≤ cap then .ok (.bytes r (off + lo) (hi - lo) (cap - lo)) else .panic
  | .parr r => do
    let b ← getBytes h r
    if lo ≤ hi ∧ hi ≤ b.length then .ok (.bytes r lo (hi - lo) (b.length - lo)) else .panic
  | .nilBytes => if lo = 0 ∧ hi = 0 then .ok .nilBytes else .panic
  | _ => .stuck "slice expression on something that is not a []byte"

/-- Little-endian bytes of a `uint32` (same text as the model's `le32`). -/
def le32 (v : Nat) : Bytes :=
  [UInt8.ofNat v, UInt8.ofNat (v >>> 8), UInt8.ofNat (v >>> 16), UInt8.ofNat (v >>> 24)]

/-- Little-endian bytes of a `uint64`. -/
def le64 (w : UInt64) : Bytes :=
  (List.range 8).map fun k => (w >>> UInt64.ofNat (8 * k)).toUInt8

/-- `binary.LittleEndian.Uint64` of (at least) eight bytes. -/
def readLE64 (b : Bytes) : UInt64 :=
  (List.range 8).foldl (fun w k => w ||| ((b[k]!).toUInt64 <<< UInt64.ofNat (8 * k))) 0

/-- `binary.LittleEndian.PutUint<8·data.length>(dst, …)`. -/
def putLE (h : Heap) (dst : Val) (data : Bytes) : Res Heap :=
  match dst with
  | .bytes r off len _ => if len < data.length then .panic else writeAt h r off data
  | .nilBytes => .panic
  | _ => .stuck "[]byte expected"

/-- `append(dst, d...)` with the result discarded. -/
def sumInto (h : Heap) (dst : Val) (d : Bytes) : Res Heap :=
  match dst with
  | .bytes r off len cap => if d.length ≤ cap - len then writeAt h r (off + len) d else .ok h
  | .nilBytes => .ok h
  | _ => .stuck "[]byte expected"

def wgAdd (h : Heap) (w : Val) (d : Int) : Res Heap :=
  match w with
  | .pwg r =>
    match h.get r with
    | some (.wg n) => if n + d < 0 then .panic else .ok (h.set r (.wg (n + d)))
    | _ => .stuck "reference to something that is not a WaitGroup"
  | _ => .stuck "*sync.WaitGroup expected"

/-- The join: all tasks have called `Done`. -/
def wgWait (h : Heap) (w : Val) : Res Unit :=
  match w with
  | .pwg r =>
    match h.get r with
    | some (.wg n) => if n = 0 then .ok () else .stuck "wg.Wait with tasks outstanding"
    | _ => .stuck "reference to something that is not a WaitGroup"
  | _ => .stuck "*sync.WaitGroup expected"

/-! ## expressions -/

def eval (h : Heap) (env : Env) : Expr → Res Val
  | .u8 n => .ok (.u8 n)
  | .u32 n => .ok (.u32 n)
  | .u64 n => .ok (.u64 (UInt64.ofNat n))
  | .int i => .ok (.int i)
  | .bool b => .ok (.bool b)
  | .var x => lookup env x
  | .bin op a b => do
    let x ← eval h env a
    let y ← eval h env b
    evalBin op x y
  | .shl e k => do evalShl (← eval h env e) k
  | .shr e k => do evalShr (← eval h env e) k
  | .conv t e => do evalConv t (← eval h env e)
  | .not e => do let x ← asBool (← eval h env e); pure (.bool (!x))
  | .lor a b => do
    let x ← asBool (← eval h env a)
    if x then pure (.bool true) else do let y ← asBool (← eval h env b); pure (.bool y)
  | .land a b => do
    let x ← asBool (← eval h env a)
    if x then do let y ← asBool (← eval h env b); pure (.bool y) else pure (.bool false)
  | .len e => do lenOf h (← eval h env e)
  | .word p i => do
    let pv ← eval h env p
    let k ← asIdx (← eval h env i)
    match pv with
    | .pblk r j => readWord h r j k
    | _ => .stuck "index of something that is not a block"
  | .elem b i => do
    let bv ← eval h env b
    let k ← asIdx (← eval h env i)
    match bv with
    | .blks r => do
      let a ← getBlocks h r
      if k < a.size then pure (.pblk r k) else .panic
    | _ => .stuck "index of something that is not a []block"
  | .addrWord p i => do
    let pv ← eval h env p
    let k ← asIdx (← eval h env i)
    match pv with
    | .pblk r j => if k < 128 then pure (.pword r j k) else .panic
    | _ => .stuck "index of something that is not a block"
  | .deref p => do
    match (← eval h env p) with
    | .pword r j k => readWord h r j k
    | _ => .stuck "*uint64 expected"
  | .loadBlk p => do
    match (← eval h env p) with
    | .pblk r j => do let b ← blockAt h r j; pure (.blk b)
    | _ => .stuck "block expected"
  | .loadArr p => do
    match (← eval h env p) with
    | .parr r => do let b ← getBytes h r; pure (.arr b)
    | _ => .stuck "byte array expected"
  | .slice b lo hi => do
    let c ← eval h env b
    let l ← asIdx (← eval h env lo)
    let u ← asIdx (← eval h env hi)
    sliceVal h c l u
  | .leU64 b => do
    let bs ← viewBytes h (← eval h env b)
    if bs.length < 8 then .panic else pure (.u64 (readLE64 bs))
  | .nilBytes => .ok .nilBytes
  | .nilHash => .ok .nilHash
  | .unknown d => .stuck ("unknown expression: " ++ d)

def evalArgs (h : Heap) (env : Env) : List Expr → Res (List Val)
  | [] => .ok []
  | e :: es => do
    let v ← eval h env e
    let vs ← evalArgs h env es
    pure (v :: vs)

/-! ## assignments -/

/-- An evaluated left-hand side. -/
inductive LRef where
  | blank
  | var (x : Nat)
  | word (r : Ref) (i k : Nat)
  | newArr (x : Nat)
  deriving Repr, DecidableEq

def evalLHS (h : Heap) (env : Env) : LHS → Res LRef
  | .blank => .ok .blank
  | .var x => .ok (.var x)
  | .word p i => do
    let pv ← eval h env p
    let k ← asIdx (← eval h env i)
    match pv with
    | .pblk r j => if k < 128 then .ok (.word r j k) else .panic
    | _ => .stuck "store into something that is not a block"
  | .deref p => do
    match (← eval h env p) with
    | .pword r j k => .ok (.word r j k)
    | _ => .stuck "*uint64 expected"
  | .newArr x => .ok (.newArr x)

def evalLHSs (h : Heap) (env : Env) : List LHS → Res (List LRef)
  | [] => .ok []
  | l :: ls => do
    let r ← evalLHS h env l
    let rs ← evalLHSs h env ls
    pure (r :: rs)

def store (h : Heap) (env : Env) (r : LRef) (v : Val) : Res (Heap × Env) :=
  match r with
  | .blank => .ok (h, env)
  | .var x => do let env' ← setSlot env x v; pure (h, env')
  | .word r j k => do
    let w ← asU64 v
    let h' ← storeWord h r j k w
    pure (h', env)
  | .newArr x =>
    match v with
    | .arr b => do
      let env' ← setSlot env x (.parr (.stk h.stk.length))
      pure (h.push [.bytes b], env')
    | _ => .stuck "byte array value expected"

def storeAll (h : Heap) (env : Env) : List LRef → List Val → Res (Heap × Env)
  | [], [] => .ok (h, env)
  | r :: rs, v :: vs => do
    let (h', env') ← store h env r v
    storeAll h' env' rs vs
  | _, _ => .stuck "assignment count mismatch"

/-! ## statements -/

/-- Lift an expression-level result into a statement result. -/
@[inline] def bindR {α : Type} (r : Res α) (k : α → Out) : Out :=
  match r with
  | .ok a => k a
  | .panic => .panic
  | .stuck w => .stuck w

@[inline] def Out.andThen (o : Out) (k : Heap → Env → Out) : Out :=
  match o with
  | .norm h env => k h env
  | o => o

/-- `for cond { step }` (`step` = body, then post statement) with a fuel bound: out of fuel with `cond`
still true is `stuck`. -/
def loop (cond : Heap → Env → Res Bool) (step : Heap → Env → Out) : Nat → Heap → Env → Out
  | fuel, h, env =>
    bindR (cond h env) fun b =>
      if b then
        match fuel with
        | 0 => .stuck "loop bound exceeded"
        | n + 1 => (step h env).andThen (loop cond step n)
      else .norm h env

/-- `n` iterations with the counter running from `i`. -/
def rangeLoop (body : Nat → Heap → Env → Out) : Nat → Nat → Heap → Env → Out
  | 0, _, h, env => .norm h env
  | n + 1, i, h, env => (body i h env).andThen (rangeLoop body n (i + 1))

def hashOf (env : Env) (x : Nat) : Res (Nat × Bytes) := do
  match (← lookup env x) with
  | .hash size w => .ok (size, w)
  | .nilHash => .panic                     -- method call on a nil interface
  | _ => .stuck "hash.Hash expected"

def exec (c : Ctx) : Stmt → Heap → Env → Out
  | .skip, h, env => .norm h env
  | .seq a b, h, env => (exec c a h env).andThen (exec c b)
  | .assign lhs rhs, h, env =>
    bindR (evalLHSs h env lhs) fun refs =>
    bindR (evalArgs h env rhs) fun vals =>
    bindR (storeAll h env refs vals) fun (h', env') => .norm h' env'
  | .declBlock x, h, env =>
    bindR (setSlot env x (.pblk (.stk h.stk.length) 0)) fun env' => .norm (h.push [.blocks #[zeroBlock]]) env'
  | .declBytes x n, h, env =>
    bindR (setSlot env x (.parr (.stk h.stk.length))) fun env' => .norm (h.push [.bytes (List.replicate n 0)]) env'
  | .declWG x, h, env =>
    bindR (setSlot env x (.pwg (.stk h.stk.length))) fun env' => .norm (h.push [.wg 0]) env'
  | .makeBlocks x n, h, env =>
    bindR (eval h env n >>= asIdx) fun k =>
    bindR (setSlot env x (.blks (.mem h.mem.length))) fun env' =>
      .norm (h.alloc (.blocks (Array.replicate k zeroBlock))) env'
  | .makeBytes x n, h, env =>
    bindR (eval h env n >>= asIdx) fun k =>
    bindR (setSlot env x (.bytes (.mem h.mem.length) 0 k k)) fun env' =>
      .norm (h.alloc (.bytes (List.replicate k 0))) env'
  | .ite cnd t e, h, env =>
    bindR (eval h env cnd >>= asBool) fun b => if b then exec c t h env else exec c e h env
  | .for_ fuel cnd post body, h, env =>
    bindR (eval h env fuel >>= asIdx) fun n =>
      loop (fun h env => eval h env cnd >>= asBool)
        (fun h env => (exec c body h env).andThen (exec c post)) n h env
  | .forN k n body, h, env =>
    rangeLoop (fun i h env => bindR (setSlot env k (.int i)) fun env' => exec c body h env') n 0 h env
  | .forBlk k v e body, h, env =>
    bindR (eval h env e) fun bv =>
      match bv with
      | .blk b =>
        rangeLoop (fun i h env =>
          bindR (setSlot env k (.int i)) fun env1 =>
          bindR (setSlot env1 v (.u64 b[i]!)) fun env2 => exec c body h env2) 128 0 h env
      | _ => .stuck "range over something that is not a block"
  | .call lhs f args, h, env =>
    bindR (evalLHSs h env lhs) fun refs =>
    bindR (evalArgs h env args) fun vals =>
    bindR (c.call f h vals) fun (h', rs) =>
    bindR (storeAll h' env refs rs) fun (h'', env') => .norm h'' env'
  | .ret es, h, env => bindR (evalArgs h env es) fun vs => .ret h vs
  | .putU32 d v, h, env =>
    bindR (eval h env d) fun dv =>
    bindR (eval h env v) fun x =>
      match x with
      | .u32 n => bindR (putLE h dv (le32 n)) fun h' => .norm h' env
      | _ => .stuck "uint32 expected"
  | .putU64 d v, h, env =>
    bindR (eval h env d) fun dv =>
    bindR (eval h env v >>= asU64) fun w =>
    bindR (putLE h dv (le64 w)) fun h' => .norm h' env
  | .newHash x size, h, env =>
    bindR (eval h env size >>= asIdx) fun k =>
    bindR (setSlot env x (if 1 ≤ k ∧ k ≤ 64 then .hash k [] else .nilHash)) fun env' => .norm h env'
  | .hashWrite x e, h, env =>
    bindR (hashOf env x) fun (size, w) =>
    bindR (eval h env e >>= viewBytes h) fun b =>
    bindR (setSlot env x (.hash size (w ++ b))) fun env' => .norm h env'
  | .hashSum x d, h, env =>
    bindR (hashOf env x) fun (size, w) =>
    bindR (eval h env d) fun dv =>
    bindR (sumInto h dv (c.H size w)) fun h' => .norm h' env
  | .hashReset x, h, env =>
    bindR (hashOf env x) fun (size, _) =>
    bindR (setSlot env x (.hash size [])) fun env' => .norm h env'
  | .copy d s, h, env =>
    bindR (eval h env d) fun dv =>
    bindR (eval h env s >>= viewBytes h) fun src =>
      match dv with
      | .bytes r off len _ => bindR (writeAt h r off (src.take len)) fun h' => .norm h' env
      | .nilBytes => .norm h env
      | _ => .stuck "[]byte expected"
  | .tasks fuel init cnd post wg f args, h, env =>
    (exec c init h env).andThen fun h env =>
    bindR (eval h env fuel >>= asIdx) fun n =>
    (loop (fun h env => eval h env cnd >>= asBool)
      (fun h env =>
        (bindR (eval h env wg) fun w =>
         bindR (wgAdd h w 1) fun h1 =>                       -- wg.Add(1)
         bindR (evalArgs h1 env args) fun vals =>
         bindR (c.call f h1 vals) fun (h2, _) => .norm h2 env  -- go f(args…): run now, to completion
        ).andThen (exec c post)) n h env).andThen fun h env =>
    bindR (eval h env wg) fun w =>
    bindR (wgWait h w) fun _ => .norm h env                   -- wg.Wait()
  | .wgDone e, h, env =>
    bindR (eval h env e) fun w =>
    bindR (wgAdd h w (-1)) fun h' => .norm h' env
  | .unknown d, _, _ => .stuck ("unknown statement: " ++ d)

/-! ## procedures -/

/-- A translated Go function: `nparams` parameters in slots `0 … nparams-1`, `nslots` slots in all. -/
structure Proc where
  nparams : Nat
  nslots : Nat
  body : Stmt
  deriving Repr, Inhabited

/-- Does the value point into the local region at or above height `n`? -/
def Ref.above (n : Nat) : Ref → Bool
  | .mem _ => false
  | .stk i => decide (n ≤ i)

def Val.escapes (n : Nat) : Val → Bool
  | .pblk r _ => r.above n
  | .pword r _ _ => r.above n
  | .blks r => r.above n
  | .parr r => r.above n
  | .bytes r _ _ _ => r.above n
  | .pwg r => r.above n
  | _ => false

def execProc (c : Ctx) (p : Proc) (h : Heap) (args : List Val) : Res (Heap × List Val) :=
  if p.nparams ≠ args.length then .stuck "wrong number of arguments" else
  match exec c p.body h (args ++ List.replicate (p.nslots - p.nparams) .undef) with
  | .ret h' vs =>
    if vs.any (Val.escapes h.stk.length) then .stuck "pointer to a local variable escapes"
    else .ok (h'.popTo h.stk.length, vs)
  | .norm h' _ => .ok (h'.popTo h.stk.length, [])   -- a function without results may fall off its end
  | .panic => .panic
  | .stuck w => .stuck w

/-- The translated functions of one package. -/
structure Program where
  procs : List (String × Proc)

/-- Calls are resolved in the program; `depth` bounds the call nesting (no recursion in the fragment:
a program that recurses deeper is `stuck`). -/
def callIn (H : Nat → Bytes → Bytes) (P : Program) : Nat → String → Heap → List Val → Res (Heap × List Val)
  | 0, _, _, _ => .stuck "call depth exceeded"
  | d + 1, f, h, args =>
    match List.lookup f P.procs with
    | some p => execProc { H := H, call := callIn H P d } p h args
    | none => .stuck ("no such function " ++ f)

/-- Run function `f` of program `P` on heap `h`, with `H` as BLAKE2b. -/
def interp (H : Nat → Bytes → Bytes) (P : Program) (f : String) (h : Heap) (args : List Val) : Res (Heap × List Val) :=
  callIn H P P.procs.length f h args

end GoCrypt.A2IR
