import GoCrypt.Base.Bytes

/-!
# Buffer IR: the bodies of `hash/base64le` as small structured programs with a heap

`gogen` (b64ir.go) re-translates `(*Encoding).Encode`, `EncodedLen`, `DecodedLen`, `(*Encoding).Decode`,
`(*Encoding).decodeQuantum`, `assemble32`, `assemble64`, `DecodeString` and `EncodeToString` from the
current Go source into the statements below (`Gen/B64IR.lean`); `Proofs/B64IR*.lean` prove that
interpreting those programs gives the hand-written model `Model/Base64LE.lean`, for every input.

The hash-transcript IR (`Base/HashIR.lean`) treats slices as values; that is not enough here, because
`Encode`/`Decode` write through their `dst` argument and `Decode` hands the alias `dst[n:]` to
`decodeQuantum`.  This IR therefore has a heap.

Reading guide (Go on the left, IR on the right):

* the heap is a list of byte buffers; a `[]byte` is `Val.slice ⟨buf, off, len, cap⟩`, a window of buffer
  number `buf`.  `x[a:b]` panics unless `0 ≤ a ≤ b ≤ cap x` (Go's rule) and yields a window of the SAME
  buffer; `x[i]` / `x[i] = v` panic unless `0 ≤ i < len x`; stores go to the heap, so they are seen
  through every alias.
* integers of every Go type are `Val.int` (mathematical integers).  The translator emits
  `Expr.wrapU bits` / `Expr.wrapS bits` around every arithmetic result and conversion whose Go type
  could not hold the mathematical result (`uint`, `int` = 64 bits, `byte` = 8 …), so overflow
  behaves as in Go.  `&`, `|`, `<<`, `>>` are modelled on non-negative operands only (else `stuck`).
  `/` and `%` truncate toward zero and panic on a zero divisor.
* a local array `var b [N]byte` is `Val.arr` (a VALUE, as in Go; the translator never emits a slice of
  it: slicing an array is `stuck`).  The receiver `enc *Encoding` is `Val.struct` of its fields in
  declaration order (the functions translated here never assign to a field, otherwise the store has
  no IR form and becomes `unknown`); a nil receiver is outside the domain.
* an `error` is `Val.err none` (`nil`) or `Val.err (some k)` (`CorruptInputError(k)`).
* variables are numbered SLOTS of one flat frame per call: parameters first, then named results,
  then every local in order of declaration (block scoping is resolved by the Go type checker: two
  variables that share a name get two slots).  A slot is `Val.undef` until its declaration runs.
* `a, b = e1, e2` is `Stmt.assign [a, b] [e1, e2]`: index operands on the left and all right-hand sides
  are evaluated first, then the stores happen left to right (Go's two phases).
* `for init; cond; post { body }` is `init ;; for_ fuel cond post body`; `break`, `continue` and `return`
  inside are `Out.brk`, `Out.cont`, `Out.ret`, and `continue` runs `post`.  `fuel` is an expression the
  translator derives, evaluated once on entry, NOT trusted: running out of fuel while `cond` still holds
  is `stuck`.
* `switch` has no IR form of its own: the translator stores the tag in a fresh slot, tests the clauses
  in source order with `ite` (a clause with several expressions is their `||`), and a clause ending in
  `fallthrough` is followed by the statements of the next clause (Go's definition of `fallthrough`).
* `binary.BigEndian.PutUint64/32(b, v)` is `Stmt.putBE 8/4 b v`: panics when `len b` is too short
  (the `_ = b[7]` of the library), else stores the bytes most significant first.
* results: `norm` = fell through, `ret` = `return`, `panic` = Go panics, `stuck` = the program left the
  fragment the interpreter understands (`unknown` node, type confusion, fuel …).  The theorems only
  ever state `ok`/`panic` results, so a `stuck` anywhere makes them fail.
-/

namespace GoCrypt.B64IR

abbrev Buf := Array UInt8
abbrev Heap := List Buf

/-- A slice header: a window of heap buffer `buf`. -/
structure Slice where
  buf : Nat
  off : Nat
  len : Nat
  cap : Nat
  deriving Repr, DecidableEq, Inhabited

/-- A struct field (the structs of this fragment hold scalars and byte arrays only). -/
inductive Fld where
  | int (i : Int)
  | bool (b : Bool)
  | arr (a : Bytes)
  deriving Repr, DecidableEq, Inhabited

inductive Val where
  | undef
  | int (i : Int)
  | bool (b : Bool)
  | slice (s : Slice)
  | arr (a : Bytes)
  | str (s : Bytes)
  | struct (fields : List Fld)
  | err (e : Option Int)
  deriving Repr, DecidableEq, Inhabited

def Fld.toVal : Fld → Val
  | .int i => .int i
  | .bool b => .bool b
  | .arr a => .arr a

inductive Res (α : Type) where
  | ok (a : α)
  | panic
  | stuck (why : String)
  deriving Repr, DecidableEq

namespace Res

@[inline] protected def bind {α β : Type} : Res α → (α → Res β) → Res β
  | .ok a, f => f a
  | .panic, _ => .panic
  | .stuck w, _ => .stuck w

instance : Monad Res where
  pure := .ok
  bind := Res.bind

end Res

inductive BinOp where
  | add | sub | mul | div | rem | band | bor | shl | shr
  | lt | le | gt | ge | eq | ne
  deriving Repr, DecidableEq, Inhabited

inductive Expr where
  | int (n : Int)
  | bool (b : Bool)
  | var (x : Nat)
  | len (e : Expr)
  | bin (op : BinOp) (a b : Expr)
  | wrapU (bits : Nat) (e : Expr)     -- result of unsigned `bits`-bit arithmetic / conversion
  | wrapS (bits : Nat) (e : Expr)     -- result of signed `bits`-bit arithmetic / conversion
  | not (e : Expr)
  | lor (a b : Expr)                  -- `||`, `&&` (short-circuit)
  | land (a b : Expr)
  | index (b i : Expr)                -- `b[i]` on a slice, array or string
  | slice (b lo hi : Expr)            -- `b[lo:hi]` (absent bounds are made explicit: `0`, `len b`)
  | field (e : Expr) (k : Nat)        -- `e.f`, `f` the `k`-th field
  | nilErr                            -- `nil` of type `error`
  | corrupt (e : Expr)                -- `CorruptInputError(e)` as an `error`
  | isNil (e : Expr)                  -- `e == nil` for an `error`
  | toStr (e : Expr)                  -- `string(b)` for a `[]byte`
  | zeros (n : Nat)                   -- zero value of `[n]byte`
  | unknown (desc : String)
  deriving Repr, DecidableEq, Inhabited

/-- Left-hand side of an assignment. -/
inductive LHS where
  | blank                             -- `_`
  | var (x : Nat)
  | index (x : Nat) (i : Expr)        -- `x[i]` for a variable `x` (slice or local array)
  deriving Repr, DecidableEq, Inhabited

inductive Stmt where
  | skip
  | seq (a b : Stmt)
  | assign (lhs : List LHS) (rhs : List Expr)
  | ite (c : Expr) (t e : Stmt)
  | for_ (fuel cond : Expr) (post body : Stmt)
  | brk
  | cont
  | call (lhs : List LHS) (f : String) (args : List Expr)   -- `a, b = f(args…)` for a translated function
  | ret (es : List Expr)
  | putBE (nbytes : Nat) (dst v : Expr)                     -- `binary.BigEndian.PutUint{8·nbytes}(dst, v)`
  | make (x : Nat) (n : Expr)                               -- `x = make([]byte, n)`
  | bytesOfStr (x : Nat) (e : Expr)                         -- `x = []byte(e)` for a string `e`
  | unknown (desc : String)
  deriving Repr, Inhabited

infixr:35 " ;; " => Stmt.seq

/-- The frame of one call: slot number ↦ value. -/
abbrev Env := List Val

/-- Result of a statement. -/
inductive Out where
  | norm (h : Heap) (env : Env)
  | brk (h : Heap) (env : Env)
  | cont (h : Heap) (env : Env)
  | ret (h : Heap) (vs : List Val)
  | panic
  | stuck (why : String)
  deriving Repr, DecidableEq

/-- Meaning of calls to other translated functions. -/
structure Ctx where
  call : String → Heap → List Val → Res (Heap × List Val)

def asInt : Val → Res Int
  | .int i => .ok i
  | _ => .stuck "int expected"

def asBool : Val → Res Bool
  | .bool b => .ok b
  | _ => .stuck "bool expected"

def lookup (env : Env) (x : Nat) : Res Val :=
  match env[x]? with
  | some .undef => .stuck "variable read before its declaration"
  | some v => .ok v
  | none => .stuck "no such slot"

def wrapU (bits : Nat) (x : Int) : Int := x % (2 : Int) ^ bits
def wrapS (bits : Nat) (x : Int) : Int := (x + (2 : Int) ^ (bits - 1)) % (2 : Int) ^ bits - (2 : Int) ^ (bits - 1)

/-- Integer operators. `&`, `|`, `<<`, `>>` are only modelled on non-negative operands. -/
def evalBin (op : BinOp) (a b : Int) : Res Val :=
  match op with
  | .add => .ok (.int (a + b))
  | .sub => .ok (.int (a - b))
  | .mul => .ok (.int (a * b))
  | .div => if b = 0 then .panic else .ok (.int (Int.tdiv a b))
  | .rem => if b = 0 then .panic else .ok (.int (Int.tmod a b))
  | .band => if 0 ≤ a ∧ 0 ≤ b then .ok (.int ((a.toNat &&& b.toNat : Nat)))
             else .stuck "& on a negative operand"
  | .bor => if 0 ≤ a ∧ 0 ≤ b then .ok (.int ((a.toNat ||| b.toNat : Nat)))
            else .stuck "| on a negative operand"
  | .shl => if b < 0 then .panic
            else if 0 ≤ a then .ok (.int ((a.toNat <<< b.toNat : Nat)))
            else .stuck "<< of a negative operand"
  | .shr => if b < 0 then .panic
            else if 0 ≤ a then .ok (.int ((a.toNat >>> b.toNat : Nat)))
            else .stuck ">> of a negative operand"
  | .lt => .ok (.bool (decide (a < b)))
  | .le => .ok (.bool (decide (a ≤ b)))
  | .gt => .ok (.bool (decide (a > b)))
  | .ge => .ok (.bool (decide (a ≥ b)))
  | .eq => .ok (.bool (decide (a = b)))
  | .ne => .ok (.bool (decide (a ≠ b)))

/-- The bytes a slice header currently shows; `none` when the header does not fit its buffer. -/
def sliceBytes (h : Heap) (s : Slice) : Option Bytes :=
  match h[s.buf]? with
  | some b => if s.off + s.len ≤ b.size then some ((b.toList.drop s.off).take s.len) else none
  | none => none

def lenOf : Val → Res Val
  | .slice s => .ok (.int s.len)
  | .arr a => .ok (.int a.length)
  | .str a => .ok (.int a.length)
  | _ => .stuck "len of a non-slice"

def indexBytes (a : Bytes) (i : Int) : Res Val :=
  if 0 ≤ i then
    match a[i.toNat]? with
    | some x => .ok (.int x.toNat)
    | none => .panic
  else .panic

def indexVal (h : Heap) (c : Val) (i : Int) : Res Val :=
  match c with
  | .slice s =>
    if 0 ≤ i ∧ i < s.len then
      match h[s.buf]? with
      | some b =>
        match b[s.off + i.toNat]? with
        | some x => .ok (.int x.toNat)
        | none => .stuck "slice outside its buffer"
      | none => .stuck "dangling slice"
    else .panic
  | .arr a => indexBytes a i
  | .str a => indexBytes a i
  | _ => .stuck "index of a non-slice"

def sliceVal (c : Val) (lo hi : Int) : Res Val :=
  match c with
  | .slice s =>
    if 0 ≤ lo ∧ lo ≤ hi ∧ hi ≤ s.cap then
      .ok (.slice ⟨s.buf, s.off + lo.toNat, (hi - lo).toNat, s.cap - lo.toNat⟩)
    else .panic
  | _ => .stuck "slice expression on a non-slice"

def fieldOf (v : Val) (k : Nat) : Res Val :=
  match v with
  | .struct fs =>
    match fs[k]? with
    | some f => .ok f.toVal
    | none => .stuck "no such field"
  | _ => .stuck "field of a non-struct"

def eval (h : Heap) (env : Env) : Expr → Res Val
  | .int n => .ok (.int n)
  | .bool b => .ok (.bool b)
  | .var x => lookup env x
  | .len e => do lenOf (← eval h env e)
  | .bin op a b => do
    let x ← asInt (← eval h env a)
    let y ← asInt (← eval h env b)
    evalBin op x y
  | .wrapU bits e => do let x ← asInt (← eval h env e); pure (.int (wrapU bits x))
  | .wrapS bits e => do let x ← asInt (← eval h env e); pure (.int (wrapS bits x))
  | .not e => do let x ← asBool (← eval h env e); pure (.bool (!x))
  | .lor a b => do
    let x ← asBool (← eval h env a)
    if x then pure (.bool true) else do let y ← asBool (← eval h env b); pure (.bool y)
  | .land a b => do
    let x ← asBool (← eval h env a)
    if x then do let y ← asBool (← eval h env b); pure (.bool y) else pure (.bool false)
  | .index b i => do
    let c ← eval h env b
    let k ← asInt (← eval h env i)
    indexVal h c k
  | .slice b lo hi => do
    let c ← eval h env b
    let l ← asInt (← eval h env lo)
    let u ← asInt (← eval h env hi)
    sliceVal c l u
  | .field e k => do fieldOf (← eval h env e) k
  | .nilErr => .ok (.err none)
  | .corrupt e => do let x ← asInt (← eval h env e); pure (.err (some x))
  | .isNil e => do
    match (← eval h env e) with
    | .err o => pure (.bool o.isNone)
    | _ => .stuck "error expected"
  | .toStr e => do
    match (← eval h env e) with
    | .slice s =>
      match sliceBytes h s with
      | some b => pure (.str b)
      | none => .stuck "slice outside its buffer"
    | _ => .stuck "[]byte expected"
  | .zeros n => .ok (.arr (List.replicate n 0))
  | .unknown d => .stuck ("unknown expression: " ++ d)

def evalArgs (h : Heap) (env : Env) : List Expr → Res (List Val)
  | [] => .ok []
  | e :: es => do
    let v ← eval h env e
    let vs ← evalArgs h env es
    pure (v :: vs)

/-- An evaluated left-hand side. -/
inductive LRef where
  | blank
  | var (x : Nat)
  | heapAt (buf idx : Nat)            -- byte `idx` of heap buffer `buf`
  | arrAt (x : Nat) (idx : Nat)       -- element `idx` of the array in slot `x`
  deriving Repr, DecidableEq

def evalLHS (h : Heap) (env : Env) : LHS → Res LRef
  | .blank => .ok .blank
  | .var x => .ok (.var x)
  | .index x i => do
    let c ← lookup env x
    let k ← asInt (← eval h env i)
    match c with
    | .slice s => if 0 ≤ k ∧ k < s.len then .ok (.heapAt s.buf (s.off + k.toNat)) else .panic
    | .arr a => if 0 ≤ k ∧ k < a.length then .ok (.arrAt x k.toNat) else .panic
    | _ => .stuck "store into a non-slice"

def evalLHSs (h : Heap) (env : Env) : List LHS → Res (List LRef)
  | [] => .ok []
  | l :: ls => do
    let r ← evalLHS h env l
    let rs ← evalLHSs h env ls
    pure (r :: rs)

def asByte : Val → Res UInt8
  | .int v => if 0 ≤ v ∧ v < 256 then .ok (UInt8.ofNat v.toNat) else .stuck "stored value is not a byte"
  | _ => .stuck "stored value is not a byte"

def store (h : Heap) (env : Env) (r : LRef) (v : Val) : Res (Heap × Env) :=
  match r with
  | .blank => .ok (h, env)
  | .var x => if x < env.length then .ok (h, env.set x v) else .stuck "no such slot"
  | .heapAt b k => do
    let x ← asByte v
    match h[b]? with
    | some buf => if k < buf.size then .ok (h.set b (buf.setIfInBounds k x), env) else .stuck "slice outside its buffer"
    | none => .stuck "dangling slice"
  | .arrAt a k => do
    let x ← asByte v
    match env[a]? with
    | some (.arr bs) => .ok (h, env.set a (.arr (bs.set k x)))
    | _ => .stuck "store into a non-array"

def storeAll (h : Heap) (env : Env) : List LRef → List Val → Res (Heap × Env)
  | [], [] => .ok (h, env)
  | r :: rs, v :: vs => do
    let (h', env') ← store h env r v
    storeAll h' env' rs vs
  | _, _ => .stuck "assignment count mismatch"

/-- Big-endian bytes of a `k`-byte value. -/
def beBytes (k : Nat) (v : Nat) : List UInt8 :=
  (List.range k).map fun i => UInt8.ofNat (v >>> (8 * (k - 1 - i)))

def writeList (buf : Buf) (off : Nat) : List UInt8 → Buf
  | [] => buf
  | b :: rest => writeList (buf.setIfInBounds off b) (off + 1) rest

def putBE (h : Heap) (nbytes : Nat) (d : Val) (v : Int) : Res Heap :=
  match d with
  | .slice s =>
    if s.len < nbytes then .panic
    else if v < 0 then .stuck "PutUint of a negative value"
    else
      match h[s.buf]? with
      | some buf =>
        if s.off + nbytes ≤ buf.size then .ok (h.set s.buf (writeList buf s.off (beBytes nbytes v.toNat)))
        else .stuck "slice outside its buffer"
      | none => .stuck "dangling slice"
  | _ => .stuck "[]byte expected"

/-- Lift an expression-level result into a statement result. -/
@[inline] def bindR {α : Type} (r : Res α) (k : α → Out) : Out :=
  match r with
  | .ok a => k a
  | .panic => .panic
  | .stuck w => .stuck w

@[inline] def Out.andThen (o : Out) (k : Heap → Env → Out) : Out :=
  match o with
  | .norm h env => k h env
  | o => o

/-- After the post statement of an iteration: go on with the loop (`k`). -/
def afterPost (k : Heap → Env → Out) : Out → Out
  | .norm h env => k h env
  | .brk _ _ => .stuck "break in a post statement"
  | .cont _ _ => .stuck "continue in a post statement"
  | o => o

/-- After the body of an iteration: `continue` and falling through run `post`, `break` leaves the loop,
`return`/panic propagate. -/
def afterBody (post : Heap → Env → Out) (k : Heap → Env → Out) : Out → Out
  | .norm h env => afterPost k (post h env)
  | .cont h env => afterPost k (post h env)
  | .brk h env => .norm h env
  | o => o

/-- `for cond; ; post { body }` with a fuel bound: out of fuel with `cond` still true is `stuck`. -/
def loop (cond : Heap → Env → Res Bool) (body post : Heap → Env → Out) : Nat → Heap → Env → Out
  | fuel, h, env =>
    bindR (cond h env) fun b =>
      if b then
        match fuel with
        | 0 => .stuck "loop bound exceeded"
        | n + 1 => afterBody post (loop cond body post n) (body h env)
      else .norm h env

def exec (c : Ctx) : Stmt → Heap → Env → Out
  | .skip, h, env => .norm h env
  | .seq a b, h, env => (exec c a h env).andThen (exec c b)
  | .assign lhs rhs, h, env =>
    bindR (evalLHSs h env lhs) fun refs =>
    bindR (evalArgs h env rhs) fun vals =>
    bindR (storeAll h env refs vals) fun (h', env') => .norm h' env'
  | .ite cnd t e, h, env =>
    bindR (eval h env cnd >>= asBool) fun b => if b then exec c t h env else exec c e h env
  | .for_ fuel cnd post body, h, env =>
    bindR (eval h env fuel >>= asInt) fun n =>
      loop (fun h env => eval h env cnd >>= asBool) (exec c body) (exec c post) n.toNat h env
  | .brk, h, env => .brk h env
  | .cont, h, env => .cont h env
  | .call lhs f args, h, env =>
    bindR (evalLHSs h env lhs) fun refs =>
    bindR (evalArgs h env args) fun vals =>
    bindR (c.call f h vals) fun (h', rs) =>
    bindR (storeAll h' env refs rs) fun (h'', env') => .norm h'' env'
  | .ret es, h, env => bindR (evalArgs h env es) fun vs => .ret h vs
  | .putBE nbytes d v, h, env =>
    bindR (eval h env d) fun dv =>
    bindR (eval h env v >>= asInt) fun x =>
    bindR (putBE h nbytes dv x) fun h' => .norm h' env
  | .make x n, h, env =>
    bindR (eval h env n >>= asInt) fun k =>
      if k < 0 then .panic
      else if x < env.length then
        .norm (h ++ [Array.replicate k.toNat 0]) (env.set x (.slice ⟨h.length, 0, k.toNat, k.toNat⟩))
      else .stuck "no such slot"
  | .bytesOfStr x e, h, env =>
    bindR (eval h env e) fun v =>
      match v with
      | .str s =>
        if x < env.length then
          .norm (h ++ [s.toArray]) (env.set x (.slice ⟨h.length, 0, s.length, s.length⟩))
        else .stuck "no such slot"
      | _ => .stuck "string expected"
  | .unknown d, _, _ => .stuck ("unknown statement: " ++ d)

/-- A translated Go function: `nparams` parameters in slots `0 … nparams-1`, `nslots` slots in all. -/
structure Proc where
  nparams : Nat
  nslots : Nat
  body : Stmt
  deriving Repr, Inhabited

def execProc (c : Ctx) (p : Proc) (h : Heap) (args : List Val) : Res (Heap × List Val) :=
  if p.nparams ≠ args.length then .stuck "wrong number of arguments" else
  match exec c p.body h (args ++ List.replicate (p.nslots - p.nparams) .undef) with
  | .ret h' vs => .ok (h', vs)
  | .norm h' _ => .ok (h', [])          -- a function without results may fall off its end
  | .brk _ _ => .stuck "break outside a loop"
  | .cont _ _ => .stuck "continue outside a loop"
  | .panic => .panic
  | .stuck w => .stuck w

/-- The translated functions of one package. -/
structure Program where
  procs : List (String × Proc)

/-- Calls are resolved in the program; `depth` bounds the call nesting (no recursion in the fragment:
a program that recurses deeper is `stuck`). -/
def callIn (P : Program) : Nat → String → Heap → List Val → Res (Heap × List Val)
  | 0, _, _, _ => .stuck "call depth exceeded"
  | d + 1, f, h, args =>
    match List.lookup f P.procs with
    | some p => execProc { call := callIn P d } p h args
    | none => .stuck ("no such function " ++ f)

/-- Run function `f` of program `P` on heap `h`. -/
def interp (P : Program) (f : String) (h : Heap) (args : List Val) : Res (Heap × List Val) :=
  callIn P P.procs.length f h args

end GoCrypt.B64IR
