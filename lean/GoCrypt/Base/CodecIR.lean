import GoCrypt.Base.TIIR

/-!
# Codec IR: the bodies of `hash/marshal.go` (and `hash/unmarshal.go`) as small structured programs

`gogen` (codecir.go, which drives the statement/expression translator of typeinfoir.go with a few
codec-specific rules) re-translates `Marshal`, `marshalValue`, `marshal`, `indirect`, `isEmpty` from the
current Go source into the statements below (`Gen/CodecIR.lean`); `Proofs/CodecIR*.lean` prove that
interpreting those programs gives the hand-written model `Model/Codec.lean` (`Props/CodecIR.lean`).

This is the type-info IR (`Base/TIIR.lean`) EXTENDED, in a separate set of types so that nothing proved
about `typeinfo.go` is touched: same statement forms (`assign`, `ite`, `for_`, `call`, `ret`, …), same
expression forms, same reading of slots, loops (`fuel`), `switch` (tag in a temporary, clauses tested in
order), results (`norm/brk/cont/ret/panic/stuck`).  What is shared is shared literally: `RType`
(`reflect.Type` = pointer depth + `GoKind` + the text-codec classes), `kindNum`, `elemOf`, `fieldAt`,
`Res`, and the HEAP OF RECORDS: `Mem.heap` is a `TIIR.Heap`, a `*fieldInfo` / `*typeInfo` is `Val.ptr a`
into it, `Expr.fld e k` reads field `k` of that record (converted by `ofTI`), so `TIIR.fiObj`, `tiObj`,
`Reps` describe what `getTypeInfo` returned.  The codec functions never write to these records.

New here:

* **`reflect.Value`.**  `Val.rv t g ro`: a valid value of type `t : RType` with payload `g : GVal` and the
  read-only flag `ro` (reached through an unexported field ⇒ `CanInterface()` is false);
  `Val.rvInvalid` is the zero `reflect.Value`.  `GVal` is what the description language can say about a
  Go value: `str`, `bytes` (`[]byte` and `[n]byte`), `int`, `uint`, `nilPtr`, `ptr g` (a non-nil pointer
  and what it points to), `struct fs` (field values, in order) and `other k n`: a value of a type the
  description calls `.other _` — `k` is its `reflect.Kind` number and `n` the one number `isEmpty` can
  observe of it (`Len()` for an array/map/slice, `Uint()` for a `uintptr`, 0/1 for `Bool()`, and
  `Float() == 0` iff `n = 0`).  The operations are EXTERNAL (`ext1`/`ext2` below):
  - `reflect.ValueOf(x)` / `reflect.TypeOf(x)` for the `interface{}` argument `Val.iface t g` (`Val.nil`
    = the nil interface: invalid `Value`, nil `Type`);
  - `IsValid`, `Kind` (Go's numbering; `Ptr` = 22 when `t.depth > 0`; `Invalid` = 0 for the zero Value;
    for a `.other _` type the number carried by the payload), `Type` (panics on the zero Value),
    `IsNil`/`Elem` (pointers only: the description language has no interface-typed values),
    `Len`, `Bytes`, `Int`, `Uint`, `String`, `Bool`, `Float`, `CanInterface` (= `!ro`);
  - `FieldByIndex(idx)` walks as `reflect` does: before every step but the first ONE pointer to a struct is
    followed (PANIC when it is nil), then field `x` of the struct value is taken; the type of the field
    and whether it is exported are read off the struct environment (`TIIR.fieldAt`); the read-only flag is
    `reflect`'s: an unexported NON-embedded field makes everything below it read-only (`flagStickyRO`), an
    unexported EMBEDDED field only itself (`flagEmbedRO`: promoted exported fields stay accessible — checked
    on the real code: a `TextMarshaler` field promoted through an unexported embedded struct is used);
  - `t.Implements(textMarshalerType)` is `t.mt ≠ .none` (`textUnmarshalerType`: `t.ut`), for `t.depth = 0`
    (the only way the program asks);
  - `v.Interface().(encoding.TextMarshaler).MarshalText()` is `ExtN.marshalText`: what the method does is
    NOT known to the interpreter — the context supplies `Ctx.marshalText : TextCodec → GVal → …` ("what the
    method of a type of this class returned"), and the theorems assume the class semantics of
    `Model/TagInfo.lean` about it (`Proofs/CodecIRDefs.lean: MarshalTextSpec`, with a witness).
* **`strings.Builder`** is `Val.builder b` in the slot of the local variable; `WriteString`/`WriteByte`
  are statements on that slot, `String()` an expression.
* **`[]byte`** is `Val.bytes`; `[]byte(s)`, `string(b)`, `make([]byte, n)` are expressions;
  `reflect.Copy(reflect.ValueOf(b), v)` for a local `b` is the statement `reflectCopy` (replaces `b`).
* **`strconv.FormatInt/FormatUint`** are `Strconv.formatInt/formatUint` (base 2..36, else stuck);
  `strconv.QuoteRuneToASCII(r)` stays symbolic (`MsgPart.quotedRune r`), as every string that is only used
  as an error message (`Val.msg`).
* **`fi.Opts.Encoding.IndexAnyInvalid(b)`** is `Ctx.indexAnyInvalid enc b` with `enc` the name of the
  package-level encoding the pointer denotes: a primitive of `internal/hashutil`, specified in
  `Proofs/CodecIRDefs.lean: IndexAnyInvalidSpec` (with a witness).
* **Error values.**  `&UnsupportedTypeError{…}` / `&UnsupportedValueError{…}` are `Val.recd name fields`:
  immutable record VALUES (nothing ever stores through such a pointer: the translator has no form for
  it).  The non-nil `error` of `MarshalText` is `Val.textErr d`; an error of `getTypeInfo` is carried as
  `Val.tiErr v` (`v` the `TIIR` error value).
* **Calls.**  `Stmt.call` calls a translated function by number; `Stmt.callExt` calls a function the
  program does not contain, BY NAME (`getTypeInfo`, `parse.Parse`): the context supplies its behaviour
  (`Ctx.ext`) and the theorems state what they assume about it.
-/

namespace GoCrypt.CIR
open GoCrypt.TIIR (RType Res kindNum elemOf fieldAt fieldType)

/-- What the description language can say about a Go value. -/
inductive GVal where
  | str (s : Bytes)
  | bytes (b : Bytes)
  | int (v : Int)
  | uint (v : Nat)
  | nilPtr
  | ptr (g : GVal)
  | struct (fs : List GVal)
  | other (k : Nat) (n : Nat)
  deriving Inhabited

/-- A piece of a string that is only ever used as an error message. -/
inductive MsgPart where
  | lit (b : Bytes)
  | name (s : String)
  | typeStr (t : RType)
  | quotedRune (c : Int)        -- `strconv.QuoteRuneToASCII(c)`
  | errText (d : String)        -- `err.Error()` of a text (un)marshaler's error
  | numErrText (range : Bool)   -- `err.Error()` of a `*strconv.NumError`
  deriving Inhabited

inductive Val where
  | undef
  | int (i : Int)
  | bool (b : Bool)
  | str (s : Bytes)
  | bytes (b : Bytes)
  | name (s : String)
  | nil
  | ptr (a : Nat)                          -- a record on `Mem.heap`
  | global (g : String)
  | ints (l : List Int)
  | ptrs (l : List Nat)
  | rtype (t : RType)
  | iface (t : RType) (g : GVal)           -- an `interface{}` holding a value
  | rv (t : RType) (g : GVal) (ro : Bool)  -- a valid `reflect.Value`
  | rvInvalid
  | builder (b : Bytes)
  | flt (zero : Bool)                      -- a `float64`, of which only "is it 0" is modelled
  | msg (parts : List MsgPart)
  | recd (tname : String) (fields : List Val)
  | textErr (d : String)
  | tiErr (v : TIIR.Val)
  -- unmarshal side
  | cell (t : RType) (idx : List Nat) (k : Nat) (ro : Bool)   -- an ADDRESSABLE `reflect.Value`: cell `idx` of the destination, `k` pointers down
  | addr (t : RType) (idx : List Nat) (k : Nat) (ro : Bool)   -- `v.Addr()` of that value (`t` = type of the pointee)
  | node (a : Nat)                                             -- a `*parse.PrefixNode/ValueNode/GroupNode`
  | nodes (l : List Nat)                                       -- `[]parse.FragmentNode`, `[]*parse.ValueNode`
  | numErr (range : Bool)                                      -- the `*strconv.NumError` of `ParseInt/ParseUint`
  | parseErr (offset msg : Nat)                                -- the `*parse.SyntaxError` of `parse.Parse`
  | dptr (t : RType)                                           -- the `interface{}` argument of `Unmarshal`: non-nil pointer(s) to the destination struct
  | root (t : RType)                                           -- `reflect.Value` of the destination struct (`t.depth` non-nil pointers in front of it)
  deriving Inhabited

abbrev Env := List Val

/-- A node of the parse tree (`hash/parse/node.go`). -/
inductive PNode where
  | pfx (text : Bytes)                      -- `End()` = `len(Text)`
  | value (val : Bytes) (pos fin : Nat)
  | group (members : List Nat)              -- addresses of its `*ValueNode`s
  deriving Inhabited, Repr, DecidableEq

/-- The memory a run can see: the records `getTypeInfo` returned. -/
structure Mem where
  heap : TIIR.Heap := []
  /-- the destination of `Unmarshal`: one cell per index path (`FieldByIndex`), holding the field's value -/
  dest : List (List Nat × GVal) := []
  /-- the nodes of the parse tree -/
  nodes : List PNode := []
  deriving Inhabited

inductive BinOp where
  | add | sub | lt | le | gt | ge
  deriving Repr, DecidableEq, Inhabited

inductive Ext1 where
  | typeKind | typeElem | typeString
  | valueOf | typeOf
  | valIsValid | valKind | valType | valIsNil | valElem | valLen | valBytes | valInt | valUint | valString
  | valBool | valFloat | valCanInterface
  | errorString | quoteRune | toBytes | toStr | makeBytes | bufString
  -- unmarshal side
  | typeBits | valCap | valCanAddr | valAddr | nodeType | nodeString | nodeEnd | nodeValue | nodeValues | ntypeString
  | assertGroup | assertValue
  deriving Repr, DecidableEq, Inhabited

inductive Ext2 where
  | valFieldByIndex | typeImplements | indexAnyInvalid | formatInt | formatUint
  | hasPrefix | trimPrefix
  deriving Repr, DecidableEq, Inhabited

inductive ExtN where
  | marshalText        -- `v.Interface().(encoding.TextMarshaler).MarshalText()` ↦ `b, err`
  | parseInt           -- `strconv.ParseInt(s, base, bits)` ↦ `v, err`
  | parseUint          -- `strconv.ParseUint(s, base, bits)` ↦ `v, err`
  deriving Repr, DecidableEq, Inhabited

/-- Stores through an addressable `reflect.Value`. -/
inductive CellOp where
  | setNew          -- `v.Set(reflect.New(T))`, argument: `T`
  | setInt | setUint | setString | setLen
  | setMakeSlice    -- `v.Set(reflect.MakeSlice(v.Type(), len, cap))`, arguments: `len`, `cap`
  | setIndexUint    -- `v.Index(i).SetUint(x)`, arguments: `i`, `x`
  deriving Repr, DecidableEq, Inhabited

inductive Expr where
  | int (n : Int)
  | bool (b : Bool)
  | str (s : Bytes)
  | nil
  | global (g : String)
  | fltZero                            -- the `float64` constant 0
  | invalidValue                       -- `reflect.Value{}`
  | emptyBuilder                       -- zero value of `strings.Builder`
  | emptyInts
  | emptyPtrs
  | var (x : Nat)
  | fld (e : Expr) (k : Nat)
  | len (e : Expr)
  | bin (op : BinOp) (a b : Expr)
  | eq (a b : Expr)
  | ne (a b : Expr)
  | isNil (e : Expr)
  | not (e : Expr)
  | lor (a b : Expr)
  | land (a b : Expr)
  | index (b i : Expr)
  | ext1 (op : Ext1) (a : Expr)
  | ext2 (op : Ext2) (a b : Expr)
  | concat (a b : Expr)
  | sliceFrom (s lo : Expr)            -- `s[lo:]` on a string
  | sliceTo (s hi : Expr)              -- `s[:hi]` on a string
  | unknown (desc : String)
  deriving Inhabited

inductive LHS where
  | blank
  | var (x : Nat)
  deriving Inhabited

inductive Stmt where
  | skip
  | seq (a b : Stmt)
  | assign (lhs : List LHS) (rhs : List Expr)
  | ite (c : Expr) (t e : Stmt)
  | for_ (cond : Expr) (post body : Stmt)
  | brk
  | cont
  | call (lhs : List LHS) (f : Nat) (args : List Expr)
  | callExt (lhs : List LHS) (name : String) (args : List Expr)
  | ret (es : List Expr)
  | allocRec (x : Nat) (tname : String) (fields : List Expr)   -- `x = &T{…}` for an error type `T`
  | extCall (lhs : List LHS) (op : ExtN) (args : List Expr)
  | bufWriteString (x : Nat) (e : Expr)                         -- `x.WriteString(e)`
  | bufWriteByte (x : Nat) (e : Expr)                           -- `x.WriteByte(e)`
  | reflectCopy (x : Nat) (e : Expr)                            -- `reflect.Copy(reflect.ValueOf(x), e)`
  | cellOp (op : CellOp) (target : Expr) (args : List Expr)     -- a store through an addressable `reflect.Value`
  | unmarshalText (lhs : LHS) (target arg : Expr)               -- `lhs = target.Interface().(encoding.TextUnmarshaler).UnmarshalText(arg)`
  | nodeSetValue (target e : Expr)                              -- `target.Value = e` for a `*parse.ValueNode`
  | allocGroup (x : Nat) (members : List Expr)                  -- `x = &parse.GroupNode{Values: []*parse.ValueNode{…}}`
  | unknown (desc : String)
  deriving Inhabited

infixr:35 " ;;; " => Stmt.seq

inductive Out where
  | norm (m : Mem) (env : Env)
  | brk (m : Mem) (env : Env)
  | cont (m : Mem) (env : Env)
  | ret (m : Mem) (vs : List Val)
  | panic
  | stuck (why : String)
  deriving Inhabited

/-- What the interpreter is told from outside. -/
structure Ctx where
  structs : List GoStruct
  fuel : Nat
  call : Nat → Mem → List Val → Res (Mem × List Val)
  /-- functions the program calls but does not contain, by name -/
  ext : String → Mem → List Val → Res (Mem × List Val)
  /-- `(*hashutil.Encoding).IndexAnyInvalid` of the package-level encoding with this name -/
  indexAnyInvalid : String → Bytes → Int
  /-- what `MarshalText` of a type of this class returned for this value (`none`: not described) -/
  marshalText : TextCodec → GVal → Option (Except String Bytes)
  /-- what `UnmarshalText` (pointer receiver) of a type of this class did with this text: the value it stored, or its error -/
  unmarshalText : TextCodec → Bytes → Option (Except String GVal) := fun _ _ => none

/-- A value read from a `TIIR` record. -/
def ofTI : TIIR.Val → Val
  | .int i => .int i
  | .bool b => .bool b
  | .str s => .str s
  | .name s => .name s
  | .nil => .nil
  | .ptr a => .ptr a
  | .global g => .global g
  | .ints l => .ints l
  | .ptrs l => .ptrs l
  | .rtype t => .rtype t
  | _ => .undef

def asInt : Val → Res Int
  | .int i => .ok i
  | _ => .stuck "int expected"

def asBool : Val → Res Bool
  | .bool b => .ok b
  | _ => .stuck "bool expected"

def lookup (env : Env) (x : Nat) : Res Val :=
  match env[x]? with
  | some .undef => .stuck "variable read before its declaration"
  | some v => .ok v
  | none => .stuck "no such slot"

def evalBin (op : BinOp) (a b : Int) : Val :=
  match op with
  | .add => .int (a + b)
  | .sub => .int (a - b)
  | .lt => .bool (decide (a < b))
  | .le => .bool (decide (a ≤ b))
  | .gt => .bool (decide (a > b))
  | .ge => .bool (decide (a ≥ b))

def evalEq : Val → Val → Res Bool
  | .int a, .int b => .ok (decide (a = b))
  | .bool a, .bool b => .ok (decide (a = b))
  | .str a, .str b => .ok (decide (a = b))
  | .name a, .name b => .ok (decide (a = b))
  | .name a, .str b => .ok (decide (TIIR.nameBytes a = b))
  | .str a, .name b => .ok (decide (a = TIIR.nameBytes b))
  | .flt a, .flt true => .ok a
  | .flt true, .flt b => .ok b
  | _, _ => .stuck "== on values the IR does not compare"

def isNilVal : Val → Res Bool
  | .nil => .ok true
  | .ptr _ => .ok false
  | .global _ => .ok false
  | .recd _ _ => .ok false
  | .textErr _ => .ok false
  | .tiErr _ => .ok false
  | .rtype _ => .ok false
  | .node _ => .ok false
  | .numErr _ => .ok false
  | .parseErr _ _ => .ok false
  | _ => .stuck "== nil on a value that is neither a pointer nor an error"

def lenOf : Val → Res Val
  | .ints l => .ok (.int l.length)
  | .ptrs l => .ok (.int l.length)
  | .str s => .ok (.int s.length)
  | .bytes s => .ok (.int s.length)
  | .nodes l => .ok (.int l.length)
  | _ => .stuck "len of something that is not a slice or string"

def indexVal (c : Val) (i : Int) : Res Val :=
  if i < 0 then .panic else
  match c with
  | .ints l => match l[i.toNat]? with | some x => .ok (.int x) | none => .panic
  | .ptrs l => match l[i.toNat]? with | some a => .ok (.ptr a) | none => .panic
  | .str s => match s[i.toNat]? with | some x => .ok (.int x.toNat) | none => .panic
  | .bytes s => match s[i.toNat]? with | some x => .ok (.int x.toNat) | none => .panic
  | .nodes l => match l[i.toNat]? with | some a => .ok (.node a) | none => .panic
  | _ => .stuck "index of something that is not a slice or string"

def fieldOf (m : Mem) (v : Val) (k : Nat) : Res Val :=
  match v with
  | .ptr a =>
    match m.heap[a]? with
    | some o => match o[k]? with | some x => .ok (ofTI x) | none => .stuck "no such field"
    | none => .stuck "dangling pointer"
  | .nil => .panic
  | .recd _ fs => (match fs[k]? with | some x => .ok x | none => .stuck "no such field")
  | _ => .stuck "field of a non-pointer"

/-! ## `reflect.Value` over a struct environment -/

def isStructRef : GoKind → Bool
  | .structRef _ => true
  | _ => false

/-- `v.Kind()` of a valid value. -/
def valKindNum (t : RType) (g : GVal) : Res Int :=
  if t.depth > 0 then .ok 22 else
  match t.kind with
  | .other _ => (match g with | .other k _ => .ok k | _ => .stuck "value does not match its type")
  | _ => .ok (kindNum t)

/-- `v.FieldByIndex(idx)` on a struct value; `first` = no step taken yet. -/
def valFieldByIndex (structs : List GoStruct) : RType → GVal → Bool → Bool → List Int → Res Val
  | _, _, _, _, [] => .stuck "FieldByIndex with an empty index"
  | t, g, ro, first, x :: rest =>
    let here : Res (RType × GVal) :=
      if !first && t.depth = 1 && isStructRef t.kind then
        match g with
        | .ptr g' => .ok ({ t with depth := 0 }, g')
        | .nilPtr => .panic
        | _ => .stuck "value does not match its type"
      else .ok (t, g)
    match here with
    | .panic => .panic
    | .stuck w => .stuck w
    | .ok (t', g') =>
      match fieldAt structs t' x with
      | .panic => .panic
      | .stuck w => .stuck w
      | .ok f =>
        match g' with
        | .struct fs =>
          (match fs[x.toNat]? with
           | some gv =>
             (match rest with
              | [] => .ok (.rv (fieldType f) gv (ro || !f.exported))
              | _ :: _ => valFieldByIndex structs (fieldType f) gv (ro || (!f.exported && !f.anonymous)) false rest)
           | none => .stuck "value does not match its type")
        | _ => .stuck "value does not match its type"

def msgParts : Val → Res (List MsgPart)
  | .str b => .ok [.lit b]
  | .name s => .ok [.name s]
  | .msg ps => .ok ps
  | _ => .stuck "+ on something that is not a string"

def ext1 (op : Ext1) (v : Val) : Res Val :=
  match op, v with
  | .typeKind, .rtype t => .ok (.int (kindNum t))
  | .typeElem, .rtype t =>
    (match t.depth, t.kind with
     | 0, .other _ => .ok (.rtype ⟨0, .other "element", "", .none, .none⟩)
     | _, _ => do let t' ← elemOf t; pure (.rtype t'))
  | .typeString, .rtype t => .ok (.msg [.typeStr t])
  | .valueOf, .iface t g => .ok (.rv t g false)
  | .valueOf, .nil => .ok .rvInvalid
  | .typeOf, .iface t _ => .ok (.rtype t)
  | .typeOf, .nil => .ok .nil
  | .valIsValid, .rv _ _ _ => .ok (.bool true)
  | .valIsValid, .rvInvalid => .ok (.bool false)
  | .valKind, .rv t g _ => do let k ← valKindNum t g; pure (.int k)
  | .valKind, .rvInvalid => .ok (.int 0)
  | .valType, .rv t _ _ => .ok (.rtype t)
  | .valType, .rvInvalid => .panic
  | .valIsNil, .rv t g _ =>
    if t.depth > 0 then
      (match g with
       | .nilPtr => .ok (.bool true)
       | .ptr _ => .ok (.bool false)
       | _ => .stuck "value does not match its type")
    else .stuck "IsNil on a value the description language does not cover"
  | .valElem, .rv t g ro =>
    (match t.depth, g with
     | d + 1, .ptr g' => .ok (.rv { t with depth := d } g' ro)
     | _ + 1, .nilPtr => .ok .rvInvalid
     | _ + 1, _ => .stuck "value does not match its type"
     | 0, _ => .panic)
  | .valLen, .rv t g _ =>
    if t.depth > 0 then .panic else
    (match g with
     | .str s => .ok (.int s.length)
     | .bytes b => .ok (.int b.length)
     | .other k n => if k = 17 ∨ k = 21 ∨ k = 23 ∨ k = 18 then .ok (.int n) else .panic
     | _ => .panic)
  | .valBytes, .rv t g _ =>
    (match t.depth, t.kind, g with
     | 0, .bytes, .bytes b => .ok (.bytes b)
     | _, _, _ => .stuck "Bytes on a value the description language does not cover")
  | .valInt, .rv t g _ =>
    (match t.depth, g with
     | 0, .int v => .ok (.int v)
     | _, _ => .panic)
  | .valUint, .rv t g _ =>
    (match t.depth, g with
     | 0, .uint v => .ok (.int v)
     | 0, .other k n => if k = 12 then .ok (.int n) else .panic
     | _, _ => .panic)
  | .valString, .rv t g _ =>
    (match t.depth, g with
     | 0, .str s => .ok (.str s)
     | _, _ => .stuck "String on a value that is not a string")
  | .valBool, .rv t g _ =>
    (match t.depth, g with
     | 0, .other k n => if k = 1 then .ok (.bool (n != 0)) else .panic
     | _, _ => .panic)
  | .valFloat, .rv t g _ =>
    (match t.depth, g with
     | 0, .other k n => if k = 13 ∨ k = 14 then .ok (.flt (n == 0)) else .panic
     | _, _ => .panic)
  | .valCanInterface, .rv _ _ ro => .ok (.bool (!ro))
  | .valCanInterface, .rvInvalid => .panic
  | .errorString, .textErr d => .ok (.msg [.errText d])
  | .quoteRune, .int c => .ok (.msg [.quotedRune c])
  | .toBytes, .str s => .ok (.bytes s)
  | .toStr, .bytes b => .ok (.str b)
  | .makeBytes, .int n => if n < 0 then .panic else .ok (.bytes (List.replicate n.toNat 0))
  | .bufString, .builder b => .ok (.str b)
  | .valCanAddr, .rv _ _ _ => .ok (.bool false)
  | .typeBits, .rtype t =>
    (match t.depth, t.kind with
     | 0, .int b => .ok (.int b)
     | 0, .uint b => .ok (.int b)
     | _, _ => .panic)
  | .ntypeString, .int k =>
    if k = 0 then .ok (.str [112, 114, 101, 102, 105, 120]) else if k = 1 then .ok (.str [103, 114, 111, 117, 112])
    else if k = 2 then .ok (.str [118, 97, 108, 117, 101]) else .stuck "NodeType.String of an unknown type"
  | .errorString, .numErr r => .ok (.msg [.numErrText r])
  | .valueOf, .dptr t => .ok (.root t)
  | .typeOf, .dptr t => .ok (.rtype t)
  | .valKind, .root t => .ok (.int (kindNum t))
  | .valIsNil, .root t => if t.depth > 0 then .ok (.bool false) else .stuck "IsNil on a struct"
  | .valElem, .root t => (match t.depth with | d + 1 => .ok (.root { t with depth := d }) | 0 => .panic)
  | .valType, .root t => .ok (.rtype t)
  | .valIsValid, .root _ => .ok (.bool true)
  | _, _ => .stuck "external operation on a value it is not defined on"

def ext2 (c : Ctx) (op : Ext2) (a b : Val) : Res Val :=
  match op, a, b with
  | .valFieldByIndex, .rv t g ro, .ints idx => valFieldByIndex c.structs t g ro true idx
  | .typeImplements, .rtype t, .global i =>
    if i = "textMarshalerType" then
      (if t.depth ≠ 0 then .stuck "Implements on a pointer type" else .ok (.bool (decide (t.mt ≠ .none))))
    else if i = "textUnmarshalerType" then
      (if t.depth = 0 then .ok (.bool false) else if t.depth = 1 then .ok (.bool (decide (t.ut ≠ .none)))
       else .stuck "Implements on a pointer to a pointer")
    else .stuck "Implements of an interface the IR does not model"
  | .indexAnyInvalid, .global e, .bytes s => .ok (.int (c.indexAnyInvalid e s))
  | .formatInt, .int v, .int base =>
    if 2 ≤ base ∧ base ≤ 36 then .ok (.str (Strconv.formatInt v base.toNat)) else .stuck "FormatInt with a base outside 2..36"
  | .formatUint, .int v, .int base =>
    if 2 ≤ base ∧ base ≤ 36 ∧ 0 ≤ v then .ok (.str (Strconv.formatUint v.toNat base.toNat)) else .stuck "FormatUint with a base outside 2..36"
  | .hasPrefix, .str s, .str p => .ok (.bool (p.isPrefixOf s))
  | .trimPrefix, .str s, .str p => .ok (.str (if p.isPrefixOf s then s.drop p.length else s))
  | _, _, _ => .stuck "external operation on values it is not defined on"

def extN (c : Ctx) (op : ExtN) (args : List Val) : Res (List Val) :=
  match op, args with
  | .marshalText, [.rv t g _] =>
    (match c.marshalText t.mt g with
     | some (.ok b) => .ok [.bytes b, .nil]
     | some (.error d) => .ok [.bytes [], .textErr d]
     | none => .stuck "MarshalText on a value its class does not describe")
  | .parseInt, [.str s, .int base, .int bits] =>
    if 2 ≤ base ∧ base ≤ 36 ∧ 0 < bits ∧ bits ≤ 64 then
      match Strconv.parseInt s base.toNat bits.toNat with
      | .ok v => .ok [.int v, .nil]
      | .error .syntax => .ok [.int 0, .numErr false]
      | .error .range => .ok [.int 0, .numErr true]
    else .stuck "ParseInt with a base/bit size the model does not cover"
  | .parseUint, [.str s, .int base, .int bits] =>
    if 2 ≤ base ∧ base ≤ 36 ∧ 0 < bits ∧ bits ≤ 64 then
      match Strconv.parseUint s base.toNat bits.toNat with
      | .ok v => .ok [.int v, .nil]
      | .error .syntax => .ok [.int 0, .numErr false]
      | .error .range => .ok [.int 0, .numErr true]
    else .stuck "ParseUint with a base/bit size the model does not cover"
  | _, _ => .stuck "external call on values it is not defined on"

/-! ## The destination cells and the parse nodes (unmarshal side) -/

/-- The value `k` pointers below `g`. -/
def getDeep : Nat → GVal → Option GVal
  | 0, g => some g
  | k + 1, .ptr g => getDeep k g
  | _ + 1, _ => none

/-- `g` with the value `k` pointers below it replaced. -/
def setDeep : Nat → GVal → GVal → Option GVal
  | 0, _, new => some new
  | k + 1, .ptr g, new => (setDeep k g new).map .ptr
  | _ + 1, _, _ => none

def cellRoot (m : Mem) (idx : List Nat) : Option GVal := (m.dest.find? (·.1 = idx)).map (·.2)

def setRoot (dest : List (List Nat × GVal)) (idx : List Nat) (g : GVal) : List (List Nat × GVal) :=
  dest.map fun p => if p.1 = idx then (p.1, g) else p

def cellGet (m : Mem) (idx : List Nat) (k : Nat) : Res GVal :=
  match cellRoot m idx with
  | none => .stuck "no such cell in the destination"
  | some r => match getDeep k r with | some g => .ok g | none => .stuck "dangling reference"

def cellSet (m : Mem) (idx : List Nat) (k : Nat) (g : GVal) : Res Mem :=
  match cellRoot m idx with
  | none => .stuck "no such cell in the destination"
  | some r =>
    match setDeep k r g with
    | some r' => .ok { m with dest := setRoot m.dest idx r' }
    | none => .stuck "dangling reference"

/-- The zero value of a type. -/
def zeroG (t : RType) : GVal :=
  if t.depth > 0 then .nilPtr else
  match t.kind with
  | .string => .str []
  | .bytes => .bytes []
  | .byteArray n => .bytes (List.replicate n 0)
  | .int _ => .int 0
  | .uint _ => .uint 0
  | .structRef _ => .struct []
  | .other _ => .other 0 0

def nodeOp (m : Mem) (op : Ext1) (a : Nat) (n : PNode) : Res Val :=
  match op, n with
  | .nodeType, .pfx _ => .ok (.int 0)
  | .nodeType, .group _ => .ok (.int 1)
  | .nodeType, .value _ _ _ => .ok (.int 2)
  | .nodeString, .pfx t => .ok (.str t)
  | .nodeString, .group _ => .ok (.str [])
  | .nodeString, .value v _ _ => .ok (.str v)
  | .nodeEnd, .pfx t => .ok (.int t.length)
  | .nodeEnd, .value _ _ fin => .ok (.int fin)
  | .nodeEnd, .group ms =>
    (match ms.getLast? with
     | none => .panic
     | some l => match m.nodes[l]? with | some (.value _ _ fin) => .ok (.int fin) | _ => .stuck "group member that is not a value node")
  | .nodeValue, .value v _ _ => .ok (.str v)
  | .nodeValues, .group ms => .ok (.nodes ms)
  | .assertGroup, .group _ => .ok (.node a)
  | .assertGroup, _ => .panic
  | .assertValue, .value _ _ _ => .ok (.node a)
  | .assertValue, _ => .panic
  | _, _ => .stuck "operation on a parse node it is not defined on"

/-- External operations with one operand that may read the memory (references into the destination, parse nodes). -/
def ext1M (m : Mem) (op : Ext1) (v : Val) : Res Val :=
  match v with
  | .cell t idx k ro =>
    (match op with
     | .valElem =>
       (match cellGet m idx k with
        | .ok g =>
          (match t.depth, g with
           | d + 1, .ptr _ => .ok (.cell { t with depth := d } idx (k + 1) ro)
           | _ + 1, .nilPtr => .ok .rvInvalid
           | _ + 1, _ => .stuck "value does not match its type"
           | 0, _ => .panic)
        | .panic => .panic
        | .stuck w => .stuck w)
     | .valCanAddr => .ok (.bool true)
     | .valAddr => .ok (.addr t idx k ro)
     | .valCap =>
       (match cellGet m idx k with
        | .ok (.bytes b) => if t.depth = 0 then .ok (.int b.length) else .panic
        | .ok _ => .panic
        | .panic => .panic
        | .stuck w => .stuck w)
     | _ =>
       (match cellGet m idx k with
        | .ok g => ext1 op (.rv t g ro)
        | .panic => .panic
        | .stuck w => .stuck w))
  | .addr t _ _ ro =>
    (match op with
     | .valCanInterface => .ok (.bool (!ro))
     | .valType => .ok (.rtype { t with depth := t.depth + 1 })
     | _ => .stuck "operation on an address it is not defined on")
  | .node a =>
    (match m.nodes[a]? with
     | some n => nodeOp m op a n
     | none => .stuck "dangling node")
  | v => ext1 op v

/-- `val.FieldByIndex(idx)` on the destination struct: the cell with that index path (it must be one of the
cells the destination is given by), typed by the struct description; read-only iff the field is unexported. -/
def rootFieldByIndex (structs : List GoStruct) (m : Mem) (t : RType) (idx : List Int) : Res Val :=
  if t.depth ≠ 0 then .panic else
  match TIIR.fieldByIndex structs t true idx with
  | .ok (f, _) =>
    if idx.all (0 ≤ ·) then
      (match cellRoot m (idx.map Int.toNat) with
       | some _ => .ok (.cell (fieldType f) (idx.map Int.toNat) 0 (!f.exported))
       | none => .stuck "no such cell in the destination")
    else .panic
  | .panic => .panic
  | .stuck w => .stuck w

def ext2M (c : Ctx) (m : Mem) (op : Ext2) (a b : Val) : Res Val :=
  match op, a, b with
  | .valFieldByIndex, .root t, .ints idx => rootFieldByIndex c.structs m t idx
  | _, _, _ => ext2 c op a b

def concatVal (a b : Val) : Res Val :=
  match a, b with
  | .str x, .str y => .ok (.str (x ++ y))
  | _, _ => do
    let x ← msgParts a
    let y ← msgParts b
    pure (.msg (x ++ y))

def sliceFromVal (c : Val) (lo : Int) : Res Val :=
  match c with
  | .str s => if 0 ≤ lo ∧ lo ≤ s.length then .ok (.str (s.drop lo.toNat)) else .panic
  | _ => .stuck "slice expression on a non-string"

def sliceToVal (c : Val) (hi : Int) : Res Val :=
  match c with
  | .str s => if 0 ≤ hi ∧ hi ≤ s.length then .ok (.str (s.take hi.toNat)) else .panic
  | _ => .stuck "slice expression on a non-string"

def eval (c : Ctx) (m : Mem) (env : Env) : Expr → Res Val
  | .int n => .ok (.int n)
  | .bool b => .ok (.bool b)
  | .str s => .ok (.str s)
  | .nil => .ok .nil
  | .global g => .ok (.global g)
  | .fltZero => .ok (.flt true)
  | .invalidValue => .ok .rvInvalid
  | .emptyBuilder => .ok (.builder [])
  | .emptyInts => .ok (.ints [])
  | .emptyPtrs => .ok (.ptrs [])
  | .var x => lookup env x
  | .fld e k => do fieldOf m (← eval c m env e) k
  | .len e => do lenOf (← eval c m env e)
  | .bin op a b => do
    let x ← asInt (← eval c m env a)
    let y ← asInt (← eval c m env b)
    pure (evalBin op x y)
  | .eq a b => do
    let x ← eval c m env a
    let y ← eval c m env b
    let r ← evalEq x y
    pure (.bool r)
  | .ne a b => do
    let x ← eval c m env a
    let y ← eval c m env b
    let r ← evalEq x y
    pure (.bool (!r))
  | .isNil e => do let r ← isNilVal (← eval c m env e); pure (.bool r)
  | .not e => do let x ← asBool (← eval c m env e); pure (.bool (!x))
  | .lor a b => do
    let x ← asBool (← eval c m env a)
    if x then pure (.bool true) else do let y ← asBool (← eval c m env b); pure (.bool y)
  | .land a b => do
    let x ← asBool (← eval c m env a)
    if x then do let y ← asBool (← eval c m env b); pure (.bool y) else pure (.bool false)
  | .index b i => do
    let s ← eval c m env b
    let k ← asInt (← eval c m env i)
    indexVal s k
  | .ext1 op a => do ext1M m op (← eval c m env a)
  | .ext2 op a b => do
    let x ← eval c m env a
    let y ← eval c m env b
    ext2M c m op x y
  | .concat a b => do
    let x ← eval c m env a
    let y ← eval c m env b
    concatVal x y
  | .sliceFrom s lo => do
    let x ← eval c m env s
    let l ← asInt (← eval c m env lo)
    sliceFromVal x l
  | .sliceTo s hi => do
    let x ← eval c m env s
    let u ← asInt (← eval c m env hi)
    sliceToVal x u
  | .unknown d => .stuck ("unknown expression: " ++ d)

def evalArgs (c : Ctx) (m : Mem) (env : Env) : List Expr → Res (List Val)
  | [] => .ok []
  | e :: es => do
    let v ← eval c m env e
    let vs ← evalArgs c m env es
    pure (v :: vs)

def store (env : Env) (r : LHS) (v : Val) : Res Env :=
  match r with
  | .blank => .ok env
  | .var x => if x < env.length then .ok (env.set x v) else .stuck "no such slot"

def storeAll (env : Env) : List LHS → List Val → Res Env
  | [], [] => .ok env
  | r :: rs, v :: vs => do
    let env' ← store env r v
    storeAll env' rs vs
  | _, _ => .stuck "assignment count mismatch"

@[inline] def bindR {α : Type} (r : Res α) (k : α → Out) : Out :=
  match r with
  | .ok a => k a
  | .panic => .panic
  | .stuck w => .stuck w

@[inline] def Out.andThen (o : Out) (k : Mem → Env → Out) : Out :=
  match o with
  | .norm m env => k m env
  | o => o

def afterPost (k : Mem → Env → Out) : Out → Out
  | .norm m env => k m env
  | .brk _ _ => .stuck "break in a post statement"
  | .cont _ _ => .stuck "continue in a post statement"
  | o => o

def afterBody (post : Mem → Env → Out) (k : Mem → Env → Out) : Out → Out
  | .norm m env => afterPost k (post m env)
  | .cont m env => afterPost k (post m env)
  | .brk m env => .norm m env
  | o => o

def loop (cond : Mem → Env → Res Bool) (body post : Mem → Env → Out) : Nat → Mem → Env → Out
  | fuel, m, env =>
    bindR (cond m env) fun b =>
      if b then
        match fuel with
        | 0 => .stuck "loop bound exceeded"
        | n + 1 => afterBody post (loop cond body post n) (body m env)
      else .norm m env

/-- `reflect.Copy(dst, src)` for a `[]byte` destination and a byte-array source. -/
def copyBytes (dst src : Bytes) : Bytes := src.take dst.length ++ dst.drop src.length

def asNodes : List Val → Option (List Nat)
  | [] => some []
  | .node a :: vs => (asNodes vs).map (a :: ·)
  | _ => none

/-- A store through an addressable `reflect.Value` (`reflect` panics on a read-only one). -/
def cellStore (m : Mem) (op : CellOp) (target : Val) (args : List Val) : Res Mem :=
  match target with
  | .cell t idx k ro =>
    if ro then .panic else
    (match op, args with
     | .setNew, [.rtype et] => if t.depth > 0 then cellSet m idx k (.ptr (zeroG et)) else .panic
     | .setInt, [.int v] =>
       (match t.depth, t.kind with | 0, .int _ => cellSet m idx k (.int v) | _, _ => .panic)
     | .setUint, [.int v] =>
       (match t.depth, t.kind with | 0, .uint _ => cellSet m idx k (.uint v.toNat) | _, _ => .panic)
     | .setString, [.str s] =>
       (match t.depth, t.kind with | 0, .string => cellSet m idx k (.str s) | _, _ => .panic)
     | .setLen, [.int n] =>
       (match t.depth, t.kind, cellGet m idx k with
        | 0, .bytes, .ok (.bytes b) =>
          if n < 0 then .panic else cellSet m idx k (.bytes (b.take n.toNat ++ List.replicate (n.toNat - b.length) 0))
        | _, _, _ => .panic)
     | .setMakeSlice, [.int n, .int cp] =>
       (match t.depth, t.kind with
        | 0, .bytes => if n < 0 ∨ cp < n then .panic else cellSet m idx k (.bytes (List.replicate n.toNat 0))
        | _, _ => .panic)
     | .setIndexUint, [.int i, .int x] =>
       (match t.depth, cellGet m idx k with
        | 0, .ok (.bytes b) =>
          if 0 ≤ i ∧ i < b.length then cellSet m idx k (.bytes (b.set i.toNat (UInt8.ofNat x.toNat))) else .panic
        | _, _ => .panic)
     | _, _ => .stuck "store with arguments the IR does not model")
  | _ => .stuck "store through something that is not an addressable value"

def exec (c : Ctx) : Stmt → Mem → Env → Out
  | .skip, m, env => .norm m env
  | .seq a b, m, env => (exec c a m env).andThen (exec c b)
  | .assign lhs rhs, m, env =>
    bindR (evalArgs c m env rhs) fun vals =>
    bindR (storeAll env lhs vals) fun env' => .norm m env'
  | .ite cnd t e, m, env =>
    bindR (eval c m env cnd >>= asBool) fun b => if b then exec c t m env else exec c e m env
  | .for_ cnd post body, m, env =>
    loop (fun m env => eval c m env cnd >>= asBool) (exec c body) (exec c post) c.fuel m env
  | .brk, m, env => .brk m env
  | .cont, m, env => .cont m env
  | .call lhs f args, m, env =>
    bindR (evalArgs c m env args) fun vals =>
    bindR (c.call f m vals) fun (m', rs) =>
    bindR (storeAll env lhs rs) fun env' => .norm m' env'
  | .callExt lhs name args, m, env =>
    bindR (evalArgs c m env args) fun vals =>
    bindR (c.ext name m vals) fun (m', rs) =>
    bindR (storeAll env lhs rs) fun env' => .norm m' env'
  | .ret es, m, env => bindR (evalArgs c m env es) fun vs => .ret m vs
  | .allocRec x tname fields, m, env =>
    bindR (evalArgs c m env fields) fun vs =>
      if x < env.length then .norm m (env.set x (.recd tname vs)) else .stuck "no such slot"
  | .extCall lhs op args, m, env =>
    bindR (evalArgs c m env args) fun vals =>
    bindR (extN c op vals) fun rs =>
    bindR (storeAll env lhs rs) fun env' => .norm m env'
  | .bufWriteString x e, m, env =>
    bindR (eval c m env e) fun v =>
    bindR (lookup env x) fun b =>
      match b, v with
      | .builder buf, .str s => .norm m (env.set x (.builder (buf ++ s)))
      | _, _ => .stuck "WriteString on something that is not a strings.Builder / a string"
  | .bufWriteByte x e, m, env =>
    bindR (eval c m env e) fun v =>
    bindR (lookup env x) fun b =>
      match b, v with
      | .builder buf, .int ch =>
        if 0 ≤ ch ∧ ch < 256 then .norm m (env.set x (.builder (buf ++ [UInt8.ofNat ch.toNat])))
        else .stuck "WriteByte of a non-byte"
      | _, _ => .stuck "WriteByte on something that is not a strings.Builder"
  | .reflectCopy x e, m, env =>
    bindR (eval c m env e) fun v =>
    bindR (lookup env x) fun b =>
      match b, v with
      | .bytes dst, .rv t (.bytes src) _ =>
        (match t.depth, t.kind with
         | 0, .byteArray _ => .norm m (env.set x (.bytes (copyBytes dst src)))
         | _, _ => .stuck "reflect.Copy from something that is not a byte array")
      | _, _ => .stuck "reflect.Copy on values the IR does not model"
  | .cellOp op target args, m, env =>
    bindR (eval c m env target) fun tv =>
    bindR (evalArgs c m env args) fun vals =>
    bindR (cellStore m op tv vals) fun m' => .norm m' env
  | .unmarshalText lhs target arg, m, env =>
    bindR (eval c m env target) fun tv =>
    bindR (eval c m env arg) fun av =>
      match tv, av with
      | .addr t idx k ro, .bytes s =>
        if ro then .panic else
        (match c.unmarshalText t.ut s with
         | some (.ok g) => bindR (cellSet m idx k g) fun m' => bindR (store env lhs .nil) fun env' => .norm m' env'
         | some (.error d) => bindR (store env lhs (.textErr d)) fun env' => .norm m env'
         | none => .stuck "UnmarshalText of a class that does not describe it")
      | _, _ => .stuck "UnmarshalText on a receiver the description language does not cover (value receiver)"
  | .nodeSetValue target e, m, env =>
    bindR (eval c m env target) fun tv =>
    bindR (eval c m env e) fun v =>
      match tv, v with
      | .node a, .str s =>
        (match m.nodes[a]? with
         | some (.value _ pos fin) => .norm { m with nodes := m.nodes.set a (.value s pos fin) } env
         | _ => .stuck "store into something that is not a value node")
      | _, _ => .stuck "store into something that is not a value node"
  | .allocGroup x members, m, env =>
    bindR (evalArgs c m env members) fun vs =>
      match asNodes vs with
      | some as =>
        if x < env.length then .norm { m with nodes := m.nodes ++ [.group as] } (env.set x (.node m.nodes.length))
        else .stuck "no such slot"
      | none => .stuck "group member that is not a node"
  | .unknown d, _, _ => .stuck ("unknown statement: " ++ d)

structure Proc where
  nparams : Nat
  nslots : Nat
  body : Stmt
  deriving Inhabited

def procResult : Out → Res (Mem × List Val)
  | .ret m vs => .ok (m, vs)
  | .norm m _ => .ok (m, [])
  | .brk _ _ => .stuck "break outside a loop"
  | .cont _ _ => .stuck "continue outside a loop"
  | .panic => .panic
  | .stuck w => .stuck w

def execProc (c : Ctx) (p : Proc) (m : Mem) (args : List Val) : Res (Mem × List Val) :=
  if p.nparams ≠ args.length then .stuck "wrong number of arguments" else
  procResult (exec c p.body m (args ++ List.replicate (p.nslots - p.nparams) .undef))

structure Program where
  procs : List Proc

/-- The environment of a run. -/
structure World where
  structs : List GoStruct
  fuel : Nat
  ext : String → Mem → List Val → Res (Mem × List Val)
  indexAnyInvalid : String → Bytes → Int
  marshalText : TextCodec → GVal → Option (Except String Bytes)
  unmarshalText : TextCodec → Bytes → Option (Except String GVal) := fun _ _ => none

def World.ctx (w : World) (call : Nat → Mem → List Val → Res (Mem × List Val)) : Ctx :=
  { structs := w.structs, fuel := w.fuel, call := call, ext := w.ext, indexAnyInvalid := w.indexAnyInvalid,
    marshalText := w.marshalText, unmarshalText := w.unmarshalText }

def callIn (P : Program) (w : World) : Nat → Nat → Mem → List Val → Res (Mem × List Val)
  | 0, _, _, _ => .stuck "call depth exceeded"
  | d + 1, f, m, args =>
    match P.procs[f]? with
    | some p => execProc (w.ctx (callIn P w d)) p m args
    | none => .stuck "no such function"

def exprUnknowns : Expr → Nat
  | .unknown _ => 1
  | .fld e _ => exprUnknowns e
  | .len e => exprUnknowns e
  | .bin _ a b => exprUnknowns a + exprUnknowns b
  | .eq a b => exprUnknowns a + exprUnknowns b
  | .ne a b => exprUnknowns a + exprUnknowns b
  | .isNil e => exprUnknowns e
  | .not e => exprUnknowns e
  | .lor a b => exprUnknowns a + exprUnknowns b
  | .land a b => exprUnknowns a + exprUnknowns b
  | .index a b => exprUnknowns a + exprUnknowns b
  | .ext1 _ a => exprUnknowns a
  | .ext2 _ a b => exprUnknowns a + exprUnknowns b
  | .concat a b => exprUnknowns a + exprUnknowns b
  | .sliceFrom a b => exprUnknowns a + exprUnknowns b
  | .sliceTo a b => exprUnknowns a + exprUnknowns b
  | _ => 0

/-- Number of `unknown` nodes in a statement: 0 means the function lies wholly inside the fragment. -/
def Stmt.unknowns : Stmt → Nat
  | .seq a b => a.unknowns + b.unknowns
  | .ite c t e => exprUnknowns c + t.unknowns + e.unknowns
  | .for_ c p b => exprUnknowns c + p.unknowns + b.unknowns
  | .assign _ rhs => (rhs.map exprUnknowns).sum
  | .call _ _ args => (args.map exprUnknowns).sum
  | .callExt _ _ args => (args.map exprUnknowns).sum
  | .ret es => (es.map exprUnknowns).sum
  | .allocRec _ _ fs => (fs.map exprUnknowns).sum
  | .extCall _ _ args => (args.map exprUnknowns).sum
  | .bufWriteString _ e => exprUnknowns e
  | .bufWriteByte _ e => exprUnknowns e
  | .reflectCopy _ e => exprUnknowns e
  | .cellOp _ t args => exprUnknowns t + (args.map exprUnknowns).sum
  | .unmarshalText _ t a => exprUnknowns t + exprUnknowns a
  | .nodeSetValue t e => exprUnknowns t + exprUnknowns e
  | .allocGroup _ ms => (ms.map exprUnknowns).sum
  | .unknown _ => 1
  | _ => 0

end GoCrypt.CIR
