import GoCrypt.Base.TIIR

/-!
# Codec IR: the bodies of `hash/marshal.go` (and `hash/unmarshal.go`) as small structured programs

`gogen` (codecir.go, which drives the statement/expression translator of typeinfoir.go with a few
codec-specific rules) re-translates `Marshal`, `marshalValue`, `marshal`, `indirect`, `isEmpty` from the
current Go source into the statements below (`Gen/CodecIR.lean`); `Proofs/CodecIR*.lean` prove that
interpreting those programs gives the hand-written model `Model/Codec.lean` (`Props/CodecIR.lean`).

This is the type-info IR (`Base/TIIR.lean`) EXTENDED, in a separate set of types so that nothing proved
about `typeinfo.go` is touched: same statement forms (`assign`, `ite`, `for_`, `call`, `ret`, …), same
expression forms, same reading of slots, loops (`fuel`), `switch` (tag in a temporary, clauses tested in
order), results (`norm/brk/cont/ret/panic/stuck`).  What is shared is shared literally: `RType`
(`reflect.Type` = pointer depth + `GoKind` + the text-codec classes), `kindNum`, `elemOf`, `fieldAt`,
`Res`, and the HEAP OF RECORDS: `Mem.heap` is a `TIIR.Heap`, a `*fieldInfo` / `*typeInfo` is `Val.ptr a`
into it, `Expr.fld e k` reads field `k` of that record (converted by `ofTI`), so `TIIR.fiObj`, `tiObj`,
`Reps` describe what `getTypeInfo` returned.  The codec functions never write to these records.

New here:

* **`reflect.Value`.**  `Val.rv t g ro`: a valid value of type `t : RType` with payload `g : GVal` and the
  read-only flag `ro` (reached through an unexported field ⇒ `CanInterface()` is false);
  `Val.rvInvalid` is the zero `reflect.Value`.  `GVal` is what the description language can say about a
  Go value: `str`, `bytes` (`[]byte` and `[n]byte`), `int`, `uint`, `nilPtr`, `ptr g` (a non-nil pointer
  and what it points to), `struct fs` (field values, in order) and `other k n`: a value of a type the
  description calls `.other _` — `k` is its `reflect.Kind` number and `n` the one number `isEmpty` can
  observe of it (`Len()` for an array/map/slice, `Uint()` for a `uintptr`, 0/1 for `Bool()`, and
  `Float() == 0` iff `n = 0`).  The operations are EXTERNAL (`ext1`/`ext2` below):
  - `reflect.ValueOf(x)` / `reflect.TypeOf(x)` for the `interface{}` argument `Val.iface t g` (`Val.nil`
    = the nil interface: invalid `Value`, nil `Type`);
  - `IsValid`, `Kind` (Go's numbering; `Ptr` = 22 when `t.depth > 0`; `Invalid` = 0 for the zero Value;
    for a `.other _` type the number carried by the payload), `Type` (panics on the zero Value),
    `IsNil`/`Elem` (pointers only: the description language has no interface-typed values),
    `Len`, `Bytes`, `Int`, `Uint`, `String`, `Bool`, `Float`, `CanInterface` (= `!ro`);
  - `FieldByIndex(idx)` walks as `reflect` does: before every step but the first ONE pointer to a struct is
    followed (PANIC when it is nil), then field `x` of the struct value is taken; the type of the field
    and whether it is exported are read off the struct environment (`TIIR.fieldAt`); the read-only flag is
    `reflect`'s: an unexported NON-embedded field makes everything below it read-only (`flagStickyRO`), an
    unexported EMBEDDED field only itself (`flagEmbedRO`: promoted exported fields stay accessible — checked
    on the real code: a `TextMarshaler` field promoted through an unexported embedded struct is used);
  - `t.Implements(textMarshalerType)` is `t.mt ≠ .none` (`textUnmarshalerType`: `t.ut`), for `t.depth = 0`
    (the only way the program asks);
  - `v.Interface().(encoding.TextMarshaler).MarshalText()` is `ExtN.marshalText`: what the method does is
    NOT known to the interpreter — the context supplies `Ctx.marshalText : TextCodec → GVal → …` ("what the
    method of a type of this class returned"), and the theorems assume the class semantics of
    `Model/TagInfo.lean` about it (`Proofs/CodecIRDefs.lean: MarshalTextSpec`, with a witness).
* **`strings.Builder`** is `Val.builder b` in the slot of the local variable; `WriteString`/`WriteByte`
  are statements on that slot, `String()` an expression.
* **`[]byte`** is `Val.bytes`; `[]byte(s)`, `string(b)`, `make([]byte, n)` are expressions;
  `reflect.Copy(reflect.ValueOf(b), v)` for a local `b` is the statement `reflectCopy` (replaces `b`).
* **`strconv.FormatInt/FormatUint`** are `Strconv.formatInt/formatUint` (base 2..36, else stuck);
  `strconv.QuoteRuneToASCII(r)` stays symbolic (`MsgPart.quotedRune r`), as every string that is only used
  as an error message (`Val.msg`).
* **`fi.Opts.Encoding.IndexAnyInvalid(b)`** is `Ctx.indexAnyInvalid enc b` with `enc` the name of the
  package-level encoding the pointer denotes: a primitive of `internal/hashutil`, specified in
  `Proofs/CodecIRDefs.lean: IndexAnyInvalidSpec` (with a witness).
* **Error values.**  `&UnsupportedTypeError{…}` / `&UnsupportedValueError{…}` are `Val.recd name fields`:
  immutable record VALUES (nothing ever stores through such a pointer: the translator has no form for
  it).  The non-nil `error` of `MarshalText` is `Val.textErr d`; an error of `getTypeInfo` is carried as
  `Val.tiErr v` (`v` the `TIIR` error value).
* **Calls.**  `Stmt.call` calls a translated function by number; `Stmt.callExt` calls a function the
  program does not contain, BY NAME (`getTypeInfo`, `parse.Parse`): the context supplies its behaviour
  (`Ctx.ext`) and the theorems state what they assume about it.
-/

namespace GoCrypt.CIR
open GoCrypt.TIIR (RType Res kindNum elemOf fieldAt fieldType)

/-- What the description language can say about a Go value. -/
inductive GVal where
  | str (s : Bytes)
  | bytes (b : Bytes)
  | int (v : Int)
  | uint (v : Nat)
  | nilPtr
  | ptr (g : GVal)
  | struct (fs : List GVal)
  | other (k : Nat) (n : Nat)
  deriving Inhabited

/-- A piece of a string that is only ever used as an error message. -/
inductive MsgPart where
  | lit (b : Bytes)
  | name (s : String)
  | typeStr (t : RType)
  | quotedRune (c : Int)        -- `strconv.QuoteRuneToASCII(c)`
  | errText (d : String)        -- `err.Error()` of a text (un)marshaler's error
  | numErrText (range : Bool)   -- `err.Error()` of a `*strconv.NumError`
  deriving Inhabited

inductive Val where
  | undef
  | int (i : Int)
  | bool (b : Bool)
  | str (s : Bytes)
  | bytes (b : Bytes)
  | name (s : String)
  | nil
  | ptr (a : Nat)                          -- a record on `Mem.heap`
  | global (g : String)
  | ints (l : List Int)
  | ptrs (l : List Nat)
  | rtype (t : RType)
  | iface (t : RType) (g : GVal)           -- an `interface{}` holding a value
  | rv (t : RType) (g : GVal) (ro : Bool)  -- a valid `reflect.Value`
  | rvInvalid
  | builder (b : Bytes)
  | flt (zero : Bool)                      -- a `float64`, of which only "is it 0" is modelled
  | msg (parts : List MsgPart)
  | recd (tname : String) (fields : List Val)
  | textErr (d : String)
  | tiErr (v : TIIR.Val)
  deriving Inhabited

abbrev Env := List Val

/-- The memory a run can see: the records `getTypeInfo` returned. -/
structure Mem where
  heap : TIIR.Heap := []
  deriving Inhabited

inductive BinOp where
  | add | sub | lt | le | gt | ge
  deriving Repr, DecidableEq, Inhabited

inductive Ext1 where
  | typeKind | typeElem | typeString
  | valueOf | typeOf
  | valIsValid | valKind | valType | valIsNil | valElem | valLen | valBytes | valInt | valUint | valString
  | valBool | valFloat | valCanInterface
  | errorString | quoteRune | toBytes | toStr | makeBytes | bufString
  deriving Repr, DecidableEq, Inhabited

inductive Ext2 where
  | valFieldByIndex | typeImplements | indexAnyInvalid | formatInt | formatUint
  deriving Repr, DecidableEq, Inhabited

inductive ExtN where
  | marshalText        -- `v.Interface().(encoding.TextMarshaler).MarshalText()` ↦ `b, err`
  deriving Repr, DecidableEq, Inhabited

inductive Expr where
  | int (n : Int)
  | bool (b : Bool)
  | str (s : Bytes)
  | nil
  | global (g : String)
  | fltZero                            -- the `float64` constant 0
  | invalidValue                       -- `reflect.Value{}`
  | emptyBuilder                       -- zero value of `strings.Builder`
  | emptyInts
  | emptyPtrs
  | var (x : Nat)
  | fld (e : Expr) (k : Nat)
  | len (e : Expr)
  | bin (op : BinOp) (a b : Expr)
  | eq (a b : Expr)
  | ne (a b : Expr)
  | isNil (e : Expr)
  | not (e : Expr)
  | lor (a b : Expr)
  | land (a b : Expr)
  | index (b i : Expr)
  | ext1 (op : Ext1) (a : Expr)
  | ext2 (op : Ext2) (a b : Expr)
  | concat (a b : Expr)
  | unknown (desc : String)
  deriving Inhabited

inductive LHS where
  | blank
  | var (x : Nat)
  deriving Inhabited

inductive Stmt where
  | skip
  | seq (a b : Stmt)
  | assign (lhs : List LHS) (rhs : List Expr)
  | ite (c : Expr) (t e : Stmt)
  | for_ (cond : Expr) (post body : Stmt)
  | brk
  | cont
  | call (lhs : List LHS) (f : Nat) (args : List Expr)
  | callExt (lhs : List LHS) (name : String) (args : List Expr)
  | ret (es : List Expr)
  | allocRec (x : Nat) (tname : String) (fields : List Expr)   -- `x = &T{…}` for an error type `T`
  | extCall (lhs : List LHS) (op : ExtN) (args : List Expr)
  | bufWriteString (x : Nat) (e : Expr)                         -- `x.WriteString(e)`
  | bufWriteByte (x : Nat) (e : Expr)                           -- `x.WriteByte(e)`
  | reflectCopy (x : Nat) (e : Expr)                            -- `reflect.Copy(reflect.ValueOf(x), e)`
  | unknown (desc : String)
  deriving Inhabited

infixr:35 " ;;; " => Stmt.seq

inductive Out where
  | norm (m : Mem) (env : Env)
  | brk (m : Mem) (env : Env)
  | cont (m : Mem) (env : Env)
  | ret (m : Mem) (vs : List Val)
  | panic
  | stuck (why : String)
  deriving Inhabited

/-- What the interpreter is told from outside. -/
structure Ctx where
  structs : List GoStruct
  fuel : Nat
  call : Nat → Mem → List Val → Res (Mem × List Val)
  /-- functions the program calls but does not contain, by name -/
  ext : String → Mem → List Val → Res (Mem × List Val)
  /-- `(*hashutil.Encoding).IndexAnyInvalid` of the package-level encoding with this name -/
  indexAnyInvalid : String → Bytes → Int
  /-- what `MarshalText` of a type of this class returned for this value (`none`: not described) -/
  marshalText : TextCodec → GVal → Option (Except String Bytes)

/-- A value read from a `TIIR` record. -/
def ofTI : TIIR.Val → Val
  | .int i => .int i
  | .bool b => .bool b
  | .str s => .str s
  | .name s => .name s
  | .nil => .nil
  | .ptr a => .ptr a
  | .global g => .global g
  | .ints l => .ints l
  | .ptrs l => .ptrs l
  | .rtype t => .rtype t
  | _ => .undef

def asInt : Val → Res Int
  | .int i => .ok i
  | _ => .stuck "int expected"

def asBool : Val → Res Bool
  | .bool b => .ok b
  | _ => .stuck "bool expected"

def lookup (env : Env) (x : Nat) : Res Val :=
  match env[x]? with
  | some .undef => .stuck "variable read before its declaration"
  | some v => .ok v
  | none => .stuck "no such slot"

def evalBin (op : BinOp) (a b : Int) : Val :=
  match op with
  | .add => .int (a + b)
  | .sub => .int (a - b)
  | .lt => .bool (decide (a < b))
  | .le => .bool (decide (a ≤ b))
  | .gt => .bool (decide (a > b))
  | .ge => .bool (decide (a ≥ b))

def evalEq : Val → Val → Res Bool
  | .int a, .int b => .ok (decide (a = b))
  | .bool a, .bool b => .ok (decide (a = b))
  | .str a, .str b => .ok (decide (a = b))
  | .name a, .name b => .ok (decide (a = b))
  | .name a, .str b => .ok (decide (TIIR.nameBytes a = b))
  | .str a, .name b => .ok (decide (a = TIIR.nameBytes b))
  | .flt a, .flt true => .ok a
  | .flt true, .flt b => .ok b
  | _, _ => .stuck "== on values the IR does not compare"

def isNilVal : Val → Res Bool
  | .nil => .ok true
  | .ptr _ => .ok false
  | .global _ => .ok false
  | .recd _ _ => .ok false
  | .textErr _ => .ok false
  | .tiErr _ => .ok false
  | .rtype _ => .ok false
  | _ => .stuck "== nil on a value that is neither a pointer nor an error"

def lenOf : Val → Res Val
  | .ints l => .ok (.int l.length)
  | .ptrs l => .ok (.int l.length)
  | .str s => .ok (.int s.length)
  | .bytes s => .ok (.int s.length)
  | _ => .stuck "len of something that is not a slice or string"

def indexVal (c : Val) (i : Int) : Res Val :=
  if i < 0 then .panic else
  match c with
  | .ints l => match l[i.toNat]? with | some x => .ok (.int x) | none => .panic
  | .ptrs l => match l[i.toNat]? with | some a => .ok (.ptr a) | none => .panic
  | .str s => match s[i.toNat]? with | some x => .ok (.int x.toNat) | none => .panic
  | .bytes s => match s[i.toNat]? with | some x => .ok (.int x.toNat) | none => .panic
  | _ => .stuck "index of something that is not a slice or string"

def fieldOf (m : Mem) (v : Val) (k : Nat) : Res Val :=
  match v with
  | .ptr a =>
    match m.heap[a]? with
    | some o => match o[k]? with | some x => .ok (ofTI x) | none => .stuck "no such field"
    | none => .stuck "dangling pointer"
  | .nil => .panic
  | _ => .stuck "field of a non-pointer"

/-! ## `reflect.Value` over a struct environment -/

def isStructRef : GoKind → Bool
  | .structRef _ => true
  | _ => false

/-- `v.Kind()` of a valid value. -/
def valKindNum (t : RType) (g : GVal) : Res Int :=
  if t.depth > 0 then .ok 22 else
  match t.kind with
  | .other _ => (match g with | .other k _ => .ok k | _ => .stuck "value does not match its type")
  | _ => .ok (kindNum t)

/-- `v.FieldByIndex(idx)` on a struct value; `first` = no step taken yet. -/
def valFieldByIndex (structs : List GoStruct) : RType → GVal → Bool → Bool → List Int → Res Val
  | _, _, _, _, [] => .stuck "FieldByIndex with an empty index"
  | t, g, ro, first, x :: rest =>
    let here : Res (RType × GVal) :=
      if !first && t.depth = 1 && isStructRef t.kind then
        match g with
        | .ptr g' => .ok ({ t with depth := 0 }, g')
        | .nilPtr => .panic
        | _ => .stuck "value does not match its type"
      else .ok (t, g)
    match here with
    | .panic => .panic
    | .stuck w => .stuck w
    | .ok (t', g') =>
      match fieldAt structs t' x with
      | .panic => .panic
      | .stuck w => .stuck w
      | .ok f =>
        match g' with
        | .struct fs =>
          (match fs[x.toNat]? with
           | some gv =>
             (match rest with
              | [] => .ok (.rv (fieldType f) gv (ro || !f.exported))
              | _ :: _ => valFieldByIndex structs (fieldType f) gv (ro || (!f.exported && !f.anonymous)) false rest)
           | none => .stuck "value does not match its type")
        | _ => .stuck "value does not match its type"

def msgParts : Val → Res (List MsgPart)
  | .str b => .ok [.lit b]
  | .name s => .ok [.name s]
  | .msg ps => .ok ps
  | _ => .stuck "+ on something that is not a string"

def ext1 (op : Ext1) (v : Val) : Res Val :=
  match op, v with
  | .typeKind, .rtype t => .ok (.int (kindNum t))
  | .typeElem, .rtype t =>
    (match t.depth, t.kind with
     | 0, .other _ => .ok (.rtype ⟨0, .other "element", "", .none, .none⟩)
     | _, _ => do let t' ← elemOf t; pure (.rtype t'))
  | .typeString, .rtype t => .ok (.msg [.typeStr t])
  | .valueOf, .iface t g => .ok (.rv t g false)
  | .valueOf, .nil => .ok .rvInvalid
  | .typeOf, .iface t _ => .ok (.rtype t)
  | .typeOf, .nil => .ok .nil
  | .valIsValid, .rv _ _ _ => .ok (.bool true)
  | .valIsValid, .rvInvalid => .ok (.bool false)
  | .valKind, .rv t g _ => do let k ← valKindNum t g; pure (.int k)
  | .valKind, .rvInvalid => .ok (.int 0)
  | .valType, .rv t _ _ => .ok (.rtype t)
  | .valType, .rvInvalid => .panic
  | .valIsNil, .rv t g _ =>
    if t.depth > 0 then
      (match g with
       | .nilPtr => .ok (.bool true)
       | .ptr _ => .ok (.bool false)
       | _ => .stuck "value does not match its type")
    else .stuck "IsNil on a value the description language does not cover"
  | .valElem, .rv t g ro =>
    (match t.depth, g with
     | d + 1, .ptr g' => .ok (.rv { t with depth := d } g' ro)
     | _ + 1, .nilPtr => .ok .rvInvalid
     | _ + 1, _ => .stuck "value does not match its type"
     | 0, _ => .panic)
  | .valLen, .rv t g _ =>
    if t.depth > 0 then .panic else
    (match g with
     | .str s => .ok (.int s.length)
     | .bytes b => .ok (.int b.length)
     | .other k n => if k = 17 ∨ k = 21 ∨ k = 23 ∨ k = 18 then .ok (.int n) else .panic
     | _ => .panic)
  | .valBytes, .rv t g _ =>
    (match t.depth, t.kind, g with
     | 0, .bytes, .bytes b => .ok (.bytes b)
     | _, _, _ => .stuck "Bytes on a value the description language does not cover")
  | .valInt, .rv t g _ =>
    (match t.depth, g with
     | 0, .int v => .ok (.int v)
     | _, _ => .panic)
  | .valUint, .rv t g _ =>
    (match t.depth, g with
     | 0, .uint v => .ok (.int v)
     | 0, .other k n => if k = 12 then .ok (.int n) else .panic
     | _, _ => .panic)
  | .valString, .rv t g _ =>
    (match t.depth, g with
     | 0, .str s => .ok (.str s)
     | _, _ => .stuck "String on a value that is not a string")
  | .valBool, .rv t g _ =>
    (match t.depth, g with
     | 0, .other k n => if k = 1 then .ok (.bool (n != 0)) else .panic
     | _, _ => .panic)
  | .valFloat, .rv t g _ =>
    (match t.depth, g with
     | 0, .other k n => if k = 13 ∨ k = 14 then .ok (.flt (n == 0)) else .panic
     | _, _ => .panic)
  | .valCanInterface, .rv _ _ ro => .ok (.bool (!ro))
  | .valCanInterface, .rvInvalid => .panic
  | .errorString, .textErr d => .ok (.msg [.errText d])
  | .quoteRune, .int c => .ok (.msg [.quotedRune c])
  | .toBytes, .str s => .ok (.bytes s)
  | .toStr, .bytes b => .ok (.str b)
  | .makeBytes, .int n => if n < 0 then .panic else .ok (.bytes (List.replicate n.toNat 0))
  | .bufString, .builder b => .ok (.str b)
  | _, _ => .stuck "external operation on a value it is not defined on"

def ext2 (c : Ctx) (op : Ext2) (a b : Val) : Res Val :=
  match op, a, b with
  | .valFieldByIndex, .rv t g ro, .ints idx => valFieldByIndex c.structs t g ro true idx
  | .typeImplements, .rtype t, .global i =>
    if t.depth ≠ 0 then .stuck "Implements on a pointer type" else
    if i = "textMarshalerType" then .ok (.bool (decide (t.mt ≠ .none)))
    else if i = "textUnmarshalerType" then .ok (.bool (decide (t.ut ≠ .none)))
    else .stuck "Implements of an interface the IR does not model"
  | .indexAnyInvalid, .global e, .bytes s => .ok (.int (c.indexAnyInvalid e s))
  | .formatInt, .int v, .int base =>
    if 2 ≤ base ∧ base ≤ 36 then .ok (.str (Strconv.formatInt v base.toNat)) else .stuck "FormatInt with a base outside 2..36"
  | .formatUint, .int v, .int base =>
    if 2 ≤ base ∧ base ≤ 36 ∧ 0 ≤ v then .ok (.str (Strconv.formatUint v.toNat base.toNat)) else .stuck "FormatUint with a base outside 2..36"
  | _, _, _ => .stuck "external operation on values it is not defined on"

def extN (c : Ctx) (op : ExtN) (args : List Val) : Res (List Val) :=
  match op, args with
  | .marshalText, [.rv t g _] =>
    (match c.marshalText t.mt g with
     | some (.ok b) => .ok [.bytes b, .nil]
     | some (.error d) => .ok [.bytes [], .textErr d]
     | none => .stuck "MarshalText on a value its class does not describe")
  | _, _ => .stuck "external call on values it is not defined on"

def eval (c : Ctx) (m : Mem) (env : Env) : Expr → Res Val
  | .int n => .ok (.int n)
  | .bool b => .ok (.bool b)
  | .str s => .ok (.str s)
  | .nil => .ok .nil
  | .global g => .ok (.global g)
  | .fltZero => .ok (.flt true)
  | .invalidValue => .ok .rvInvalid
  | .emptyBuilder => .ok (.builder [])
  | .emptyInts => .ok (.ints [])
  | .emptyPtrs => .ok (.ptrs [])
  | .var x => lookup env x
  | .fld e k => do fieldOf m (← eval c m env e) k
  | .len e => do lenOf (← eval c m env e)
  | .bin op a b => do
    let x ← asInt (← eval c m env a)
    let y ← asInt (← eval c m env b)
    pure (evalBin op x y)
  | .eq a b => do
    let x ← eval c m env a
    let y ← eval c m env b
    let r ← evalEq x y
    pure (.bool r)
  | .ne a b => do
    let x ← eval c m env a
    let y ← eval c m env b
    let r ← evalEq x y
    pure (.bool (!r))
  | .isNil e => do let r ← isNilVal (← eval c m env e); pure (.bool r)
  | .not e => do let x ← asBool (← eval c m env e); pure (.bool (!x))
  | .lor a b => do
    let x ← asBool (← eval c m env a)
    if x then pure (.bool true) else do let y ← asBool (← eval c m env b); pure (.bool y)
  | .land a b => do
    let x ← asBool (← eval c m env a)
    if x then do let y ← asBool (← eval c m env b); pure (.bool y) else pure (.bool false)
  | .index b i => do
    let s ← eval c m env b
    let k ← asInt (← eval c m env i)
    indexVal s k
  | .ext1 op a => do ext1 op (← eval c m env a)
  | .ext2 op a b => do
    let x ← eval c m env a
    let y ← eval c m env b
    ext2 c op x y
  | .concat a b => do
    let x ← msgParts (← eval c m env a)
    let y ← msgParts (← eval c m env b)
    pure (.msg (x ++ y))
  | .unknown d => .stuck ("unknown expression: " ++ d)

def evalArgs (c : Ctx) (m : Mem) (env : Env) : List Expr → Res (List Val)
  | [] => .ok []
  | e :: es => do
    let v ← eval c m env e
    let vs ← evalArgs c m env es
    pure (v :: vs)

def store (env : Env) (r : LHS) (v : Val) : Res Env :=
  match r with
  | .blank => .ok env
  | .var x => if x < env.length then .ok (env.set x v) else .stuck "no such slot"

def storeAll (env : Env) : List LHS → List Val → Res Env
  | [], [] => .ok env
  | r :: rs, v :: vs => do
    let env' ← store env r v
    storeAll env' rs vs
  | _, _ => .stuck "assignment count mismatch"

@[inline] def bindR {α : Type} (r : Res α) (k : α → Out) : Out :=
  match r with
  | .ok a => k a
  | .panic => .panic
  | .stuck w => .stuck w

@[inline] def Out.andThen (o : Out) (k : Mem → Env → Out) : Out :=
  match o with
  | .norm m env => k m env
  | o => o

def afterPost (k : Mem → Env → Out) : Out → Out
  | .norm m env => k m env
  | .brk _ _ => .stuck "break in a post statement"
  | .cont _ _ => .stuck "continue in a post statement"
  | o => o

def afterBody (post : Mem → Env → Out) (k : Mem → Env → Out) : Out → Out
  | .norm m env => afterPost k (post m env)
  | .cont m env => afterPost k (post m env)
  | .brk m env => .norm m env
  | o => o

def loop (cond : Mem → Env → Res Bool) (body post : Mem → Env → Out) : Nat → Mem → Env → Out
  | fuel, m, env =>
    bindR (cond m env) fun b =>
      if b then
        match fuel with
        | 0 => .stuck "loop bound exceeded"
        | n + 1 => afterBody post (loop cond body post n) (body m env)
      else .norm m env

/-- `reflect.Copy(dst, src)` for a `[]byte` destination and a byte-array source. -/
def copyBytes (dst src : Bytes) : Bytes := src.take dst.length ++ dst.drop src.length

def exec (c : Ctx) : Stmt → Mem → Env → Out
  | .skip, m, env => .norm m env
  | .seq a b, m, env => (exec c a m env).andThen (exec c b)
  | .assign lhs rhs, m, env =>
    bindR (evalArgs c m env rhs) fun vals =>
    bindR (storeAll env lhs vals) fun env' => .norm m env'
  | .ite cnd t e, m, env =>
    bindR (eval c m env cnd >>= asBool) fun b => if b then exec c t m env else exec c e m env
  | .for_ cnd post body, m, env =>
    loop (fun m env => eval c m env cnd >>= asBool) (exec c body) (exec c post) c.fuel m env
  | .brk, m, env => .brk m env
  | .cont, m, env => .cont m env
  | .call lhs f args, m, env =>
    bindR (evalArgs c m env args) fun vals =>
    bindR (c.call f m vals) fun (m', rs) =>
    bindR (storeAll env lhs rs) fun env' => .norm m' env'
  | .callExt lhs name args, m, env =>
    bindR (evalArgs c m env args) fun vals =>
    bindR (c.ext name m vals) fun (m', rs) =>
    bindR (storeAll env lhs rs) fun env' => .norm m' env'
  | .ret es, m, env => bindR (evalArgs c m env es) fun vs => .ret m vs
  | .allocRec x tname fields, m, env =>
    bindR (evalArgs c m env fields) fun vs =>
      if x < env.length then .norm m (env.set x (.recd tname vs)) else .stuck "no such slot"
  | .extCall lhs op args, m, env =>
    bindR (evalArgs c m env args) fun vals =>
    bindR (extN c op vals) fun rs =>
    bindR (storeAll env lhs rs) fun env' => .norm m env'
  | .bufWriteString x e, m, env =>
    bindR (eval c m env e) fun v =>
    bindR (lookup env x) fun b =>
      match b, v with
      | .builder buf, .str s => .norm m (env.set x (.builder (buf ++ s)))
      | _, _ => .stuck "WriteString on something that is not a strings.Builder / a string"
  | .bufWriteByte x e, m, env =>
    bindR (eval c m env e) fun v =>
    bindR (lookup env x) fun b =>
      match b, v with
      | .builder buf, .int ch =>
        if 0 ≤ ch ∧ ch < 256 then .norm m (env.set x (.builder (buf ++ [UInt8.ofNat ch.toNat])))
        else .stuck "WriteByte of a non-byte"
      | _, _ => .stuck "WriteByte on something that is not a strings.Builder"
  | .reflectCopy x e, m, env =>
    bindR (eval c m env e) fun v =>
    bindR (lookup env x) fun b =>
      match b, v with
      | .bytes dst, .rv t (.bytes src) _ =>
        (match t.depth, t.kind with
         | 0, .byteArray _ => .norm m (env.set x (.bytes (copyBytes dst src)))
         | _, _ => .stuck "reflect.Copy from something that is not a byte array")
      | _, _ => .stuck "reflect.Copy on values the IR does not model"
  | .unknown d, _, _ => .stuck ("unknown statement: " ++ d)

structure Proc where
  nparams : Nat
  nslots : Nat
  body : Stmt
  deriving Inhabited

def procResult : Out → Res (Mem × List Val)
  | .ret m vs => .ok (m, vs)
  | .norm m _ => .ok (m, [])
  | .brk _ _ => .stuck "break outside a loop"
  | .cont _ _ => .stuck "continue outside a loop"
  | .panic => .panic
  | .stuck w => .stuck w

def execProc (c : Ctx) (p : Proc) (m : Mem) (args : List Val) : Res (Mem × List Val) :=
  if p.nparams ≠ args.length then .stuck "wrong number of arguments" else
  procResult (exec c p.body m (args ++ List.replicate (p.nslots - p.nparams) .undef))

structure Program where
  procs : List Proc

/-- The environment of a run. -/
structure World where
  structs : List GoStruct
  fuel : Nat
  ext : String → Mem → List Val → Res (Mem × List Val)
  indexAnyInvalid : String → Bytes → Int
  marshalText : TextCodec → GVal → Option (Except String Bytes)

def World.ctx (w : World) (call : Nat → Mem → List Val → Res (Mem × List Val)) : Ctx :=
  { structs := w.structs, fuel := w.fuel, call := call, ext := w.ext, indexAnyInvalid := w.indexAnyInvalid,
    marshalText := w.marshalText }

def callIn (P : Program) (w : World) : Nat → Nat → Mem → List Val → Res (Mem × List Val)
  | 0, _, _, _ => .stuck "call depth exceeded"
  | d + 1, f, m, args =>
    match P.procs[f]? with
    | some p => execProc (w.ctx (callIn P w d)) p m args
    | none => .stuck "no such function"

def exprUnknowns : Expr → Nat
  | .unknown _ => 1
  | .fld e _ => exprUnknowns e
  | .len e => exprUnknowns e
  | .bin _ a b => exprUnknowns a + exprUnknowns b
  | .eq a b => exprUnknowns a + exprUnknowns b
  | .ne a b => exprUnknowns a + exprUnknowns b
  | .isNil e => exprUnknowns e
  | .not e => exprUnknowns e
  | .lor a b => exprUnknowns a + exprUnknowns b
  | .land a b => exprUnknowns a + exprUnknowns b
  | .index a b => exprUnknowns a + exprUnknowns b
  | .ext1 _ a => exprUnknowns a
  | .ext2 _ a b => exprUnknowns a + exprUnknowns b
  | .concat a b => exprUnknowns a + exprUnknowns b
  | _ => 0

/-- Number of `unknown` nodes in a statement: 0 means the function lies wholly inside the fragment. -/
def Stmt.unknowns : Stmt → Nat
  | .seq a b => a.unknowns + b.unknowns
  | .ite c t e => exprUnknowns c + t.unknowns + e.unknowns
  | .for_ c p b => exprUnknowns c + p.unknowns + b.unknowns
  | .assign _ rhs => (rhs.map exprUnknowns).sum
  | .call _ _ args => (args.map exprUnknowns).sum
  | .callExt _ _ args => (args.map exprUnknowns).sum
  | .ret es => (es.map exprUnknowns).sum
  | .allocRec _ _ fs => (fs.map exprUnknowns).sum
  | .extCall _ _ args => (args.map exprUnknowns).sum
  | .bufWriteString _ e => exprUnknowns e
  | .bufWriteByte _ e => exprUnknowns e
  | .reflectCopy _ e => exprUnknowns e
  | .unknown _ => 1
  | _ => 0

end GoCrypt.CIR
