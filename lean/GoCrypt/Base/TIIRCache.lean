import GoCrypt.Base.TIIR

/-!
# Type-info IR with the state of `typeCache`

`Base/TIIR.lean` gives `typeCache.Load` / `typeCache.LoadOrStore` the COLD-cache meaning.  This file is a
conservative extension: the same statements are interpreted with one more piece of state, the contents
of the package variable `typeCache` (a `sync.Map`), threaded through every statement and call.

* **Cache state.** `CacheSt = List (RType × Nat)`: the entries in insertion order, key = a `reflect.Type`
  value (whatever the program passes as key; `getTypeInfo` passes `indirectType(t)`), value = the heap
  address of the stored `*typeInfo`.
* **TRUSTED description of `sync.Map`** (`extNC`): `Load(k)` returns `(v, true)` when an entry with key `k`
  exists and `(nil, false)` otherwise, and changes nothing; `LoadOrStore(k, v)` returns the existing
  value and `true` when an entry with key `k` exists (the map is unchanged), otherwise it adds `(k, v)` and
  returns `(v, false)`.  Each of the two is ONE atomic step: nothing else happens between the lookup and
  the insertion of `LoadOrStore`.  That is the documented contract of `sync.Map`; keys are compared with
  `==` on the interface values, which for `reflect.Type` is identity of the type (here: equality of the
  `RType`).  The receiver must be the variable `typeCache` (the only `sync.Map` of the package).
* Everything else is `Base/TIIR.lean`: expressions, left-hand sides and stores are evaluated by the SAME
  functions (`eval`, `evalArgs`, `evalLHSs`, `storeAll`); the statements that contain no other statement and
  no call (`assign`, `ret`, `alloc`, `copyObj`, `skip`, `brk`, `cont`, `unknown`) are run by `exec` itself; `seq`,
  `ite`, `for_`, `call`, `extCall`, `sortSlice` are repeated here with the cache state passed along.  A
  `sort.Slice` closure must leave the cache state unchanged (else `stuck`).
* `Proofs/TIIRCacheBase.lean: execC_eq_exec` proves the extension conservative: a statement without cache
  operations whose callees do not touch the cache runs exactly as under `exec`, cache state unchanged.

A result is a pair (cache state, `Out`); for `panic`/`stuck` the cache state is the one reached so far.
-/

namespace GoCrypt.TIIR

/-- Contents of `typeCache`: `(key, address of the stored *typeInfo)`, in insertion order. -/
abbrev CacheSt := List (RType × Nat)

/-- The value stored under key `t`, if any. -/
def CacheSt.find (k : CacheSt) (t : RType) : Option Nat := (k.find? (fun e => e.1 = t)).map (·.2)

/-- The name of the one `sync.Map` of the package. -/
def typeCacheVar : String := "typeCache"

/-- External calls with the cache state: the contract of `sync.Map` for `Load` and `LoadOrStore` (one
atomic step each); every other external call is `extN` and leaves the cache alone. -/
def extNC (op : ExtN) (k : CacheSt) (args : List Val) : Res (CacheSt × List Val) :=
  match op, args with
  | .cacheLoad, [.global g, .rtype t] =>
    if g = typeCacheVar then
      match k.find t with
      | some a => .ok (k, [.ptr a, .bool true])
      | none => .ok (k, [.nil, .bool false])
    else .stuck "Load on a sync.Map other than typeCache"
  | .cacheLoad, _ => .stuck "typeCache.Load on values it is not defined on"
  | .cacheLoadOrStore, [.global g, .rtype t, .ptr v] =>
    if g = typeCacheVar then
      match k.find t with
      | some a => .ok (k, [.ptr a, .bool true])
      | none => .ok (k ++ [(t, v)], [.ptr v, .bool false])
    else .stuck "LoadOrStore on a sync.Map other than typeCache"
  | .cacheLoadOrStore, _ => .stuck "typeCache.LoadOrStore on values it is not defined on"
  | .parseUint, args =>
    match extN .parseUint args with
    | .ok vs => .ok (k, vs)
    | .panic => .panic
    | .stuck w => .stuck w

/-- What the interpreter is told from outside (as `Ctx`, calls carry the cache state). -/
structure CtxC where
  structs : List GoStruct
  fuel : Nat
  sort : Heap → List Nat → List Nat
  call : Nat → CacheSt → Heap → List Val → Res (CacheSt × Heap × List Val)

/-- The context under which the statements without sub-statements and calls are run by `exec`. -/
def CtxC.pure (c : CtxC) : Ctx :=
  { structs := c.structs, fuel := c.fuel, sort := c.sort, call := fun _ _ _ => .stuck "call through the call-free context" }

abbrev OutC := CacheSt × Out

@[inline] def bindC {α : Type} (r : Res α) (k : CacheSt) (f : α → OutC) : OutC :=
  match r with
  | .ok a => f a
  | .panic => (k, .panic)
  | .stuck w => (k, .stuck w)

@[inline] def OutC.andThen (o : OutC) (f : CacheSt → Heap → Env → OutC) : OutC :=
  match o with
  | (k, .norm h env) => f k h env
  | o => o

def afterPostC (f : CacheSt → Heap → Env → OutC) : OutC → OutC
  | (k, .norm h env) => f k h env
  | (k, .brk _ _) => (k, .stuck "break in a post statement")
  | (k, .cont _ _) => (k, .stuck "continue in a post statement")
  | o => o

def afterBodyC (post : CacheSt → Heap → Env → OutC) (f : CacheSt → Heap → Env → OutC) : OutC → OutC
  | (k, .norm h env) => afterPostC f (post k h env)
  | (k, .cont h env) => afterPostC f (post k h env)
  | (k, .brk h env) => (k, .norm h env)
  | o => o

def loopC (cond : Heap → Env → Res Bool) (body post : CacheSt → Heap → Env → OutC) :
    Nat → CacheSt → Heap → Env → OutC
  | fuel, k, h, env =>
    bindC (cond h env) k fun b =>
      if b then
        match fuel with
        | 0 => (k, .stuck "loop bound exceeded")
        | n + 1 => afterBodyC post (loopC cond body post n) (body k h env)
      else (k, .norm h env)

/-- A `sort.Slice` closure as a function of heap and frame: it must not change the cache state. -/
def closureC (run : CacheSt → Heap → Env → OutC) (k : CacheSt) : Heap → Env → Out := fun h env =>
  match run k h env with
  | (k', o) => if k' = k then o else .stuck "sort.Slice closure changed typeCache"

def execC (c : CtxC) : Stmt → CacheSt → Heap → Env → OutC
  | .seq a b, k, h, env => (execC c a k h env).andThen (execC c b)
  | .ite cnd t e, k, h, env =>
    bindC (eval c.structs h env cnd >>= asBool) k fun b => if b then execC c t k h env else execC c e k h env
  | .for_ cnd post body, k, h, env =>
    loopC (fun h env => eval c.structs h env cnd >>= asBool) (execC c body) (execC c post) c.fuel k h env
  | .call lhs f args, k, h, env =>
    bindC (evalLHSs c.structs h env lhs) k fun refs =>
    bindC (evalArgs c.structs h env args) k fun vals =>
    bindC (c.call f k h vals) k fun (k', h', rs) =>
    bindC (storeAll h' env refs rs) k' fun (h'', env') => (k', .norm h'' env')
  | .extCall lhs op args, k, h, env =>
    bindC (evalLHSs c.structs h env lhs) k fun refs =>
    bindC (evalArgs c.structs h env args) k fun vals =>
    bindC (extNC op k vals) k fun (k', rs) =>
    bindC (storeAll h env refs rs) k' fun (h', env') => (k', .norm h' env')
  | .sortSlice x i j body, k, h, env =>
    bindC (lookup env x) k fun v =>
      match v with
      | .ptrs l =>
        let p := c.sort h l
        let env' := env.set x (.ptrs p)
        if p.isPerm l && sortedBy (lessAt (closureC (execC c body) k) h env' i j) p.length then (k, .norm h env')
        else (k, .stuck "sort.Slice: the proposed result is not a sorted permutation")
      | _ => (k, .stuck "sort.Slice of something that is not a slice of pointers")
  -- no sub-statement, no call, no external call: `exec` itself
  | .skip, k, h, env => (k, exec c.pure .skip h env)
  | .assign lhs rhs, k, h, env => (k, exec c.pure (.assign lhs rhs) h env)
  | .brk, k, h, env => (k, exec c.pure .brk h env)
  | .cont, k, h, env => (k, exec c.pure .cont h env)
  | .ret es, k, h, env => (k, exec c.pure (.ret es) h env)
  | .alloc x fields, k, h, env => (k, exec c.pure (.alloc x fields) h env)
  | .copyObj x e, k, h, env => (k, exec c.pure (.copyObj x e) h env)
  | .unknown d, k, h, env => (k, exec c.pure (.unknown d) h env)

def execProcC (c : CtxC) (p : Proc) (k : CacheSt) (h : Heap) (args : List Val) : Res (CacheSt × Heap × List Val) :=
  if p.nparams ≠ args.length then .stuck "wrong number of arguments" else
  match execC c p.body k h (args ++ List.replicate (p.nslots - p.nparams) .undef) with
  | (k', .ret h' vs) => .ok (k', h', vs)
  | (k', .norm h' _) => .ok (k', h', [])
  | (_, .brk _ _) => .stuck "break outside a loop"
  | (_, .cont _ _) => .stuck "continue outside a loop"
  | (_, .panic) => .panic
  | (_, .stuck w) => .stuck w

/-- Calling function `f` of the program with cache state `k` and heap `h` (at most `depth` nested calls). -/
def callInC (P : Program) (w : World) : Nat → Nat → CacheSt → Heap → List Val → Res (CacheSt × Heap × List Val)
  | 0, _, _, _, _ => .stuck "call depth exceeded"
  | d + 1, f, k, h, args =>
    match P.procs[f]? with
    | some p => execProcC { structs := w.structs, fuel := w.fuel, sort := w.sort, call := callInC P w d } p k h args
    | none => .stuck "no such function"

/-- The statement performs no operation on `typeCache`. -/
def Stmt.cacheFree : Stmt → Bool
  | .seq a b => a.cacheFree && b.cacheFree
  | .ite _ t e => t.cacheFree && e.cacheFree
  | .for_ _ p b => p.cacheFree && b.cacheFree
  | .sortSlice _ _ _ b => b.cacheFree
  | .extCall _ op _ => (match op with | .cacheLoad => false | .cacheLoadOrStore => false | .parseUint => true)
  | _ => true

/-- The functions a statement calls. -/
def Stmt.callees : Stmt → List Nat
  | .seq a b => a.callees ++ b.callees
  | .ite _ t e => t.callees ++ e.callees
  | .for_ _ p b => p.callees ++ b.callees
  | .sortSlice _ _ _ b => b.callees
  | .call _ f _ => [f]
  | _ => []

end GoCrypt.TIIR
