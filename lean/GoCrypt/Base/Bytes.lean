/-!
# Byte strings

Go strings and `[]byte` are byte sequences; the models use `List UInt8` throughout (never Lean `String`).
This file is core-only so that the driver links as a `lean_exe`.
-/

abbrev Bytes := List UInt8

namespace Bytes

def dollar : UInt8 := 36      -- '$'
def comma : UInt8 := 44       -- ','
def underscore : UInt8 := 95  -- '_'
def equals : UInt8 := 61      -- '='

/-- Bytes of an ASCII string literal (used only for constants in models/specs). -/
def ofString (s : String) : Bytes := s.toUTF8.toList

def hexDigit (n : Nat) : Char :=
  if n < 10 then Char.ofNat (48 + n) else Char.ofNat (87 + n)

/-- Lower-case hex; `-` for the empty string (line-protocol convention). -/
def toHex (b : Bytes) : String :=
  if b.isEmpty then "-" else
  String.ofList (b.flatMap fun c => [hexDigit (c.toNat / 16), hexDigit (c.toNat % 16)])

def hexVal (c : Char) : Option Nat :=
  if '0' ≤ c ∧ c ≤ '9' then some (c.toNat - 48)
  else if 'a' ≤ c ∧ c ≤ 'f' then some (c.toNat - 87)
  else if 'A' ≤ c ∧ c ≤ 'F' then some (c.toNat - 55)
  else none

def ofHexChars : List Char → Option Bytes
  | [] => some []
  | [_] => none
  | a :: b :: rest => do
    let x ← hexVal a
    let y ← hexVal b
    let r ← ofHexChars rest
    pure (UInt8.ofNat (x * 16 + y) :: r)

def ofHex (s : String) : Option Bytes :=
  if s == "-" then some [] else ofHexChars s.toList

end Bytes
