import GoCrypt.Base.GoType
import GoCrypt.Base.Strconv

/-!
# Type-info IR: the bodies of `hash/typeinfo.go` as small structured programs with a heap of records

`gogen` (typeinfoir.go) re-translates `(*typeInfo).field`, `(*typeInfo).normalize`, `getRawTypeInfo`,
`indirectType` and `getTypeInfo` from the current Go source into the statements below
(`Gen/TypeInfoIR.lean`); `Proofs/TIIR*.lean` prove that interpreting those programs gives the
hand-written model `Model/TagInfo.lean`.

Reading guide (Go on the left, IR on the right):

* **Heap.** `*fieldInfo`, `*typeInfo`, `*TagParamError` are `Val.ptr a`: the address of a RECORD on the
  heap (`Heap = List Obj`, `Obj = List Val`).  A record lists the fields of the Go struct in declaration
  order, nested struct VALUES flattened (`fieldInfo` = `Index, Name, Type, Opts.Prefix, Opts.OmitEmpty, …`);
  `Expr.fld e k` / `LHS.fld e k` read / write field number `k` THROUGH the pointer `e`, so a store is
  seen through every alias (`fi.Index = append([]int{i}, fi.Index...)`, `ti.HashPrefix = f`,
  `ti.NumReqValues++`).  The generated file lists the field names of every record type
  (`fieldInfoFields`, …), the numbers are positions in those lists.
* **Slices.** `[]int` is `Val.ints`, `[]*fieldInfo` is `Val.ptrs` (a list of addresses): slice VALUES.
  This is faithful for the translated functions because every `append` result is stored back into the
  variable/field it was taken from and no element of a slice is ever assigned; the translator emits
  `unknown` for an indexed store.  `sort.Slice` (the one in-place mutation) is a statement that
  replaces the variable (see below).
* **Integers** of every Go type are `Val.int` (mathematical integers); the only conversion that could
  change a value, `int(v)` for a `uint64`, is `Expr.toInt64` (two's-complement wrap).  `+` is exact:
  every sum in these functions is an index or a count bounded by a slice/string length.
* **Strings** are byte lists (`Val.str`).  A struct-field NAME obtained from `reflect` (`sf.Name`) is
  `Val.name s` with `s` the Lean `String` of the description (the model keeps names as `String`);
  `==` between a name and a string compares the UTF-8 bytes.
* **Strings built for error messages** (`+`, `strconv.Quote`, `Type.String()`) stay symbolic:
  `Val.msg parts`; `errors.New(m)` is `Val.errNew parts`.  `&TagParamError{…}` is an ordinary record.
  How an error value maps to the model's `TagErr` is `Proofs/TIIRDefs.lean: absErr`.
* **`reflect`.** A `reflect.Type` is `Val.rtype ⟨depth, kind, typeName, mt, ut⟩`: `depth` pointer stars
  in front of the type described by `kind : GoKind` (the other three components are carried along
  because the model's `FieldInfo` keeps them).  A `reflect.StructField` is `Val.sfield f i` (the
  description `f : GoField` of field number `i`); a `reflect.StructTag` is `Val.stag b` (`b` = value of
  its `hash` key, the only key a `GoField` describes).  The operations are EXTERNAL (`Ext1`, `Ext2`):
  their meaning is read off the struct environment `structs : List GoStruct`, see `ext1`/`ext2`:
  - `Kind()` is Go's numbering (`Ptr` = 22 when `depth > 0`, `Struct` = 25 for `.structRef`, `Array` = 17
    for `.byteArray`, `Uint8` = 8 for `.uint 8`, `String` = 24, `Slice` = 23, …); `.other _` is `Invalid` = 0,
    i.e. "none of the kinds the program tests for" — a struct type of ANOTHER package embedded in a
    described struct is outside the description language (`GoKind.structRef` = struct of the same
    package);
  - `Elem()` removes one star, or gives `uint8` for `[n]byte`/`[]byte`; panics otherwise;
  - `Len()` is `n` for `[n]byte`, panics otherwise;
  - `NumField()`/`Field(i)` need `depth = 0` and `.structRef n` (panic otherwise, as `reflect` does) and
    look `n` up in `structs` (STUCK when it is missing: the environment does not describe the type);
  - `FieldByIndex(idx)` walks as `reflect` does: before every step but the first, ONE pointer star in
    front of a struct is removed; panics when the path does not exist;
  - `sf.PkgPath` is `""` for an exported field and the placeholder `"?"` otherwise (the program only
    compares it with `""`).
* **Library functions**: `strings.IndexByte`, `strings.HasPrefix`, `strconv.ParseUint`
  (`Strconv.parseUint`; on error the numeric result is 0 / the maximum as in Go), `strconv.Quote`,
  `errors.New`; `typeCache.Load` / `LoadOrStore` have the COLD-cache meaning (`Load` misses,
  `LoadOrStore` stores and returns its argument).
* **`sort.Slice(x, less)`** is `Stmt.sortSlice x i j body`: `body` is the closure (its parameters are the
  slots `i`, `j`; it must end in `ret [bool]` and leave the heap unchanged).  The result is NOT computed
  by any particular algorithm: the context supplies an arbitrary function `sort : Heap → List Nat → List Nat`
  ("what the library did to the slice"); the statement is `stuck` unless the proposed slice `p` is a
  permutation of the old one and is sorted with respect to the closure, i.e. evaluating the closure
  in the state where `x = p` gives `less(j, i) = false` for all positions `i < j`.  The theorems hold
  for EVERY such function.
* variables are numbered SLOTS of one flat frame per call (parameters first, then locals in order of
  declaration, then translator temporaries); a closure's parameters and locals live in the frame of
  the enclosing function.
* `for init; cond; post { body }` is `init ;; for_ cond post body`; `for k, v := range e` is lowered to
  that form with two temporaries (the range expression is evaluated once).  A loop may run at most
  `Ctx.fuel` iterations, beyond that the result is `stuck`; calls nest at most `depth` deep
  (`callIn`).  The theorems hold for every large enough fuel/depth (explicit bounds).
* `switch` has no IR form: tag in a temporary, clauses tested in order with `ite`.
* results: `norm`, `brk`, `cont`, `ret`, `panic` (Go panics), `stuck` (the program left the fragment
  the interpreter understands: `unknown` node, type confusion, fuel, missing description, invalid
  `sort` proposal).
-/

namespace GoCrypt.TIIR

/-- A `reflect.Type`: `depth` stars in front of the type described by the rest. -/
structure RType where
  depth : Nat
  kind : GoKind
  typeName : String := ""
  mt : TextCodec := .none
  ut : TextCodec := .none
  deriving Repr, DecidableEq, Inhabited

/-- A piece of a string that is only ever used as an error message. -/
inductive MsgPart where
  | lit (b : Bytes)
  | name (s : String)
  | quoted (b : Bytes)          -- `strconv.Quote(b)`
  | typeStr (t : RType)         -- `t.String()`
  deriving Repr, DecidableEq, Inhabited

inductive Val where
  | undef
  | int (i : Int)
  | bool (b : Bool)
  | str (s : Bytes)
  | name (s : String)
  | nil
  | ptr (a : Nat)
  | global (g : String)                -- a package-level pointer variable, by qualified name
  | ints (l : List Int)
  | ptrs (l : List Nat)
  | map (m : List (Bytes × Bool))      -- `map[string]bool`
  | rtype (t : RType)
  | sfield (f : GoField) (i : Nat)
  | stag (hashTag : Bytes)
  | msg (parts : List MsgPart)
  | errNew (parts : List MsgPart)      -- `errors.New(msg)`
  | numErr                             -- the non-nil error of `strconv.ParseUint`
  deriving Repr, DecidableEq, Inhabited

abbrev Obj := List Val
abbrev Heap := List Obj

inductive Res (α : Type) where
  | ok (a : α)
  | panic
  | stuck (why : String)
  deriving Repr, DecidableEq

namespace Res
@[inline] protected def bind {α β : Type} : Res α → (α → Res β) → Res β
  | .ok a, f => f a
  | .panic, _ => .panic
  | .stuck w, _ => .stuck w
instance : Monad Res where
  pure := .ok
  bind := Res.bind
end Res

inductive BinOp where
  | add | sub | lt | le | gt | ge
  deriving Repr, DecidableEq, Inhabited

/-- External operations with one operand. -/
inductive Ext1 where
  | typeNumField | typeKind | typeElem | typeLen | typeString
  | sfTag | sfPkgPath | sfAnonymous | sfType | sfIndex | sfName
  | quote | errorsNew
  deriving Repr, DecidableEq, Inhabited

/-- External operations with two operands. -/
inductive Ext2 where
  | typeField | typeFieldByIndex | tagGet | indexByte | hasPrefix
  deriving Repr, DecidableEq, Inhabited

/-- External operations with several results (statement level). -/
inductive ExtN where
  | parseUint          -- `strconv.ParseUint(s, base, bits)` ↦ `v, err`
  | cacheLoad          -- `typeCache.Load(k)` ↦ `v, ok`      (cold cache)
  | cacheLoadOrStore   -- `typeCache.LoadOrStore(k, v)` ↦ `actual, loaded`   (cold cache)
  deriving Repr, DecidableEq, Inhabited

inductive Expr where
  | int (n : Int)
  | bool (b : Bool)
  | str (s : Bytes)
  | nil
  | global (g : String)
  | emptyInts                          -- zero value of `[]int`
  | emptyPtrs                          -- zero value of `[]*T`
  | emptyMap                           -- `map[string]bool{}`
  | var (x : Nat)
  | fld (e : Expr) (k : Nat)           -- `e.f` through the pointer `e`
  | len (e : Expr)
  | bin (op : BinOp) (a b : Expr)
  | eq (a b : Expr)                    -- `==` on ints, bools, strings/names
  | ne (a b : Expr)
  | isNil (e : Expr)                   -- `e == nil`
  | not (e : Expr)
  | lor (a b : Expr)
  | land (a b : Expr)
  | index (b i : Expr)                 -- `b[i]` on `[]int`, `[]*T`, string
  | sliceFrom (s lo : Expr)            -- `s[lo:]` on a string
  | sliceTo (s hi : Expr)              -- `s[:hi]` on a string
  | ints1 (e : Expr)                   -- `[]int{e}`
  | append1 (s e : Expr)               -- `append(s, e)`
  | appendAll (s t : Expr)             -- `append(s, t...)`
  | mapGet (m k : Expr)                -- `m[k]`
  | mapHas (m k : Expr)                -- the `ok` of `_, ok := m[k]`
  | ext1 (op : Ext1) (a : Expr)
  | ext2 (op : Ext2) (a b : Expr)
  | concat (a b : Expr)                -- `a + b` on strings (error messages only)
  | toInt64 (e : Expr)                 -- conversion to `int`/`int64` from a wider/unsigned type
  | assertPtr (e : Expr)               -- `e.(*T)` on an interface holding a pointer
  | unknown (desc : String)
  deriving Repr, Inhabited

inductive LHS where
  | blank
  | var (x : Nat)
  | fld (e : Expr) (k : Nat)           -- `e.f = …` through the pointer `e`
  | mapAt (x : Nat) (k : Expr)         -- `x[k] = …` for a map variable `x`
  deriving Repr, Inhabited

inductive Stmt where
  | skip
  | seq (a b : Stmt)
  | assign (lhs : List LHS) (rhs : List Expr)
  | ite (c : Expr) (t e : Stmt)
  | for_ (cond : Expr) (post body : Stmt)
  | brk
  | cont
  | call (lhs : List LHS) (f : Nat) (args : List Expr)   -- a translated function, by its number in the program
  | ret (es : List Expr)
  | alloc (x : Nat) (fields : List Expr)                 -- `x = &T{…}`: every field of `T`, in order
  | copyObj (x : Nat) (e : Expr)                         -- `x := *e` for a struct variable `x` kept by address
  | extCall (lhs : List LHS) (op : ExtN) (args : List Expr)
  | sortSlice (x : Nat) (i j : Nat) (body : Stmt)        -- `sort.Slice(x, func(i, j int) bool { body })`
  | unknown (desc : String)
  deriving Repr, Inhabited

infixr:35 " ;; " => Stmt.seq

abbrev Env := List Val

inductive Out where
  | norm (h : Heap) (env : Env)
  | brk (h : Heap) (env : Env)
  | cont (h : Heap) (env : Env)
  | ret (h : Heap) (vs : List Val)
  | panic
  | stuck (why : String)
  deriving Repr, DecidableEq

/-- What the interpreter is told from outside. -/
structure Ctx where
  structs : List GoStruct
  /-- maximal number of iterations of one loop -/
  fuel : Nat
  /-- what `sort.Slice` did to a slice of addresses (checked, not trusted: see `Stmt.sortSlice`) -/
  sort : Heap → List Nat → List Nat
  call : Nat → Heap → List Val → Res (Heap × List Val)

def asInt : Val → Res Int
  | .int i => .ok i
  | _ => .stuck "int expected"

def asBool : Val → Res Bool
  | .bool b => .ok b
  | _ => .stuck "bool expected"

def lookup (env : Env) (x : Nat) : Res Val :=
  match env[x]? with
  | some .undef => .stuck "variable read before its declaration"
  | some v => .ok v
  | none => .stuck "no such slot"

def wrapS64 (x : Int) : Int := (x + 9223372036854775808) % 18446744073709551616 - 9223372036854775808

def evalBin (op : BinOp) (a b : Int) : Val :=
  match op with
  | .add => .int (a + b)
  | .sub => .int (a - b)
  | .lt => .bool (decide (a < b))
  | .le => .bool (decide (a ≤ b))
  | .gt => .bool (decide (a > b))
  | .ge => .bool (decide (a ≥ b))

/-- The UTF-8 bytes of a name. -/
def nameBytes (s : String) : Bytes := s.toUTF8.data.toList

def evalEq : Val → Val → Res Bool
  | .int a, .int b => .ok (decide (a = b))
  | .bool a, .bool b => .ok (decide (a = b))
  | .str a, .str b => .ok (decide (a = b))
  | .name a, .name b => .ok (decide (a = b))
  | .name a, .str b => .ok (decide (nameBytes a = b))
  | .str a, .name b => .ok (decide (a = nameBytes b))
  | _, _ => .stuck "== on values the IR does not compare"

def isNilVal : Val → Res Bool
  | .nil => .ok true
  | .ptr _ => .ok false
  | .global _ => .ok false
  | .errNew _ => .ok false
  | .numErr => .ok false
  | _ => .stuck "== nil on a value that is neither a pointer nor an error"

def lenOf : Val → Res Val
  | .ints l => .ok (.int l.length)
  | .ptrs l => .ok (.int l.length)
  | .str s => .ok (.int s.length)
  | _ => .stuck "len of something that is not a slice or string"

def indexVal (c : Val) (i : Int) : Res Val :=
  if i < 0 then .panic else
  match c with
  | .ints l => match l[i.toNat]? with | some x => .ok (.int x) | none => .panic
  | .ptrs l => match l[i.toNat]? with | some a => .ok (.ptr a) | none => .panic
  | .str s => match s[i.toNat]? with | some x => .ok (.int x.toNat) | none => .panic
  | _ => .stuck "index of something that is not a slice or string"

def sliceFromVal (c : Val) (lo : Int) : Res Val :=
  match c with
  | .str s => if 0 ≤ lo ∧ lo ≤ s.length then .ok (.str (s.drop lo.toNat)) else .panic
  | _ => .stuck "slice expression on a non-string"

def sliceToVal (c : Val) (hi : Int) : Res Val :=
  match c with
  | .str s => if 0 ≤ hi ∧ hi ≤ s.length then .ok (.str (s.take hi.toNat)) else .panic
  | _ => .stuck "slice expression on a non-string"

def append1Val : Val → Val → Res Val
  | .ints l, .int x => .ok (.ints (l ++ [x]))
  | .ptrs l, .ptr a => .ok (.ptrs (l ++ [a]))
  | _, _ => .stuck "append of an element the IR does not model"

def appendAllVal : Val → Val → Res Val
  | .ints l, .ints m => .ok (.ints (l ++ m))
  | .ptrs l, .ptrs m => .ok (.ptrs (l ++ m))
  | _, _ => .stuck "append of a slice the IR does not model"

def mapLookup (m : List (Bytes × Bool)) (k : Bytes) : Option Bool := List.lookup k m

def fieldOf (h : Heap) (v : Val) (k : Nat) : Res Val :=
  match v with
  | .ptr a =>
    match h[a]? with
    | some o => match o[k]? with | some x => .ok x | none => .stuck "no such field"
    | none => .stuck "dangling pointer"
  | .nil => .panic
  | _ => .stuck "field of a non-pointer"

/-! ## `reflect` over a struct environment -/

def lookupStruct (structs : List GoStruct) (name : String) : Option GoStruct :=
  structs.find? (·.name = name)

def fieldType (f : GoField) : RType := ⟨f.ptrDepth, f.kind, f.typeName, f.marshalText, f.unmarshalText⟩

def kindNum (t : RType) : Int :=
  if t.depth > 0 then 22 else
  match t.kind with
  | .string => 24
  | .bytes => 23
  | .byteArray _ => 17
  | .int b => if b = 8 then 3 else if b = 16 then 4 else if b = 32 then 5 else if b = 64 then 6 else 2
  | .uint b => if b = 8 then 8 else if b = 16 then 9 else if b = 32 then 10 else if b = 64 then 11 else 7
  | .structRef _ => 25
  | .other _ => 0

def uint8Type : RType := ⟨0, .uint 8, "", .none, .none⟩

def elemOf (t : RType) : Res RType :=
  match t.depth with
  | d + 1 => .ok { t with depth := d }
  | 0 =>
    match t.kind with
    | .byteArray _ => .ok uint8Type
    | .bytes => .ok uint8Type
    | _ => .panic

/-- The struct a `reflect.Type` of kind `Struct` denotes. -/
def structOf (structs : List GoStruct) (t : RType) : Res GoStruct :=
  if t.depth > 0 then .panic else
  match t.kind with
  | .structRef n =>
    match lookupStruct structs n with
    | some s => .ok s
    | none => .stuck "struct type without a description"
  | _ => .panic

/-- One step of `FieldByIndex`: field `x` of struct type `t`. -/
def fieldAt (structs : List GoStruct) (t : RType) (x : Int) : Res GoField :=
  match structOf structs t with
  | .ok s =>
    if x < 0 then .panic else
    match s.fields[x.toNat]? with
    | some f => .ok f
    | none => .panic
  | .panic => .panic
  | .stuck w => .stuck w

/-- Before every step of `FieldByIndex` but the first: one star in front of a struct is removed. -/
def derefStruct (t : RType) : RType :=
  if t.depth = 1 && (match t.kind with | .structRef _ => true | _ => false) then { t with depth := 0 } else t

/-- `t.FieldByIndex(idx)`: the field reached and its position in its struct; `first` = no step taken yet. -/
def fieldByIndex (structs : List GoStruct) : RType → Bool → List Int → Res (GoField × Nat)
  | _, _, [] => .stuck "FieldByIndex with an empty index"
  | t, first, x :: rest =>
    match fieldAt structs (if first then t else derefStruct t) x with
    | .ok f =>
      (match rest with
       | [] => .ok (f, x.toNat)
       | _ :: _ => fieldByIndex structs (fieldType f) false rest)
    | .panic => .panic
    | .stuck w => .stuck w

def ext1 (structs : List GoStruct) (op : Ext1) (v : Val) : Res Val :=
  match op, v with
  | .typeNumField, .rtype t => do let s ← structOf structs t; pure (.int s.fields.length)
  | .typeKind, .rtype t => .ok (.int (kindNum t))
  | .typeElem, .rtype t => do let t' ← elemOf t; pure (.rtype t')
  | .typeLen, .rtype t =>
    if t.depth > 0 then .panic else
    (match t.kind with
     | .byteArray n => .ok (.int n)
     | _ => .panic)
  | .typeString, .rtype t => .ok (.msg [.typeStr t])
  | .sfTag, .sfield f _ => .ok (.stag f.tag)
  | .sfPkgPath, .sfield f _ => .ok (.str (if f.exported then [] else [63]))
  | .sfAnonymous, .sfield f _ => .ok (.bool f.anonymous)
  | .sfType, .sfield f _ => .ok (.rtype (fieldType f))
  | .sfIndex, .sfield _ i => .ok (.ints [i])
  | .sfName, .sfield f _ => .ok (.name f.name)
  | .quote, .str b => .ok (.msg [.quoted b])
  | .errorsNew, .msg ps => .ok (.errNew ps)
  | .errorsNew, .str b => .ok (.errNew [.lit b])
  | _, _ => .stuck "external operation on a value it is not defined on"

def indexByte (s : Bytes) (c : UInt8) : Int :=
  match s.findIdx? (· = c) with
  | some i => i
  | none => -1

def ext2 (structs : List GoStruct) (op : Ext2) (a b : Val) : Res Val :=
  match op, a, b with
  | .typeField, .rtype t, .int i => do
    let s ← structOf structs t
    if i < 0 then .panic else
    match s.fields[i.toNat]? with
    | some f => pure (.sfield f i.toNat)
    | none => .panic
  | .typeFieldByIndex, .rtype t, .ints idx => do
    let (f, i) ← fieldByIndex structs t true idx
    pure (.sfield f i)
  | .tagGet, .stag b, .str k =>
    if k = [104, 97, 115, 104] then .ok (.str b) else .stuck "struct-tag key other than `hash`"
  | .indexByte, .str s, .int c =>
    if 0 ≤ c ∧ c < 256 then .ok (.int (indexByte s (UInt8.ofNat c.toNat))) else .stuck "IndexByte of a non-byte"
  | .hasPrefix, .str s, .str p => .ok (.bool (p.isPrefixOf s))
  | _, _, _ => .stuck "external operation on values it is not defined on"

def msgParts : Val → Res (List MsgPart)
  | .str b => .ok [.lit b]
  | .name s => .ok [.name s]
  | .msg ps => .ok ps
  | _ => .stuck "+ on something that is not a string"

def eval (structs : List GoStruct) (h : Heap) (env : Env) : Expr → Res Val
  | .int n => .ok (.int n)
  | .bool b => .ok (.bool b)
  | .str s => .ok (.str s)
  | .nil => .ok .nil
  | .global g => .ok (.global g)
  | .emptyInts => .ok (.ints [])
  | .emptyPtrs => .ok (.ptrs [])
  | .emptyMap => .ok (.map [])
  | .var x => lookup env x
  | .fld e k => do fieldOf h (← eval structs h env e) k
  | .len e => do lenOf (← eval structs h env e)
  | .bin op a b => do
    let x ← asInt (← eval structs h env a)
    let y ← asInt (← eval structs h env b)
    pure (evalBin op x y)
  | .eq a b => do
    let x ← eval structs h env a
    let y ← eval structs h env b
    let r ← evalEq x y
    pure (.bool r)
  | .ne a b => do
    let x ← eval structs h env a
    let y ← eval structs h env b
    let r ← evalEq x y
    pure (.bool (!r))
  | .isNil e => do let r ← isNilVal (← eval structs h env e); pure (.bool r)
  | .not e => do let x ← asBool (← eval structs h env e); pure (.bool (!x))
  | .lor a b => do
    let x ← asBool (← eval structs h env a)
    if x then pure (.bool true) else do let y ← asBool (← eval structs h env b); pure (.bool y)
  | .land a b => do
    let x ← asBool (← eval structs h env a)
    if x then do let y ← asBool (← eval structs h env b); pure (.bool y) else pure (.bool false)
  | .index b i => do
    let c ← eval structs h env b
    let k ← asInt (← eval structs h env i)
    indexVal c k
  | .sliceFrom s lo => do
    let c ← eval structs h env s
    let l ← asInt (← eval structs h env lo)
    sliceFromVal c l
  | .sliceTo s hi => do
    let c ← eval structs h env s
    let u ← asInt (← eval structs h env hi)
    sliceToVal c u
  | .ints1 e => do let x ← asInt (← eval structs h env e); pure (.ints [x])
  | .append1 s e => do
    let a ← eval structs h env s
    let b ← eval structs h env e
    append1Val a b
  | .appendAll s t => do
    let a ← eval structs h env s
    let b ← eval structs h env t
    appendAllVal a b
  | .mapGet m k => do
    match (← eval structs h env m), (← eval structs h env k) with
    | .map l, .str key => pure (.bool ((mapLookup l key).getD false))
    | _, _ => .stuck "map index on values the IR does not model"
  | .mapHas m k => do
    match (← eval structs h env m), (← eval structs h env k) with
    | .map l, .str key => pure (.bool (mapLookup l key).isSome)
    | _, _ => .stuck "map index on values the IR does not model"
  | .ext1 op a => do ext1 structs op (← eval structs h env a)
  | .ext2 op a b => do
    let x ← eval structs h env a
    let y ← eval structs h env b
    ext2 structs op x y
  | .concat a b => do
    let x ← msgParts (← eval structs h env a)
    let y ← msgParts (← eval structs h env b)
    pure (.msg (x ++ y))
  | .toInt64 e => do let x ← asInt (← eval structs h env e); pure (.int (wrapS64 x))
  | .assertPtr e => do
    match (← eval structs h env e) with
    | .ptr a => pure (.ptr a)
    | .nil => .panic
    | _ => .stuck "type assertion on a value that is not a pointer"
  | .unknown d => .stuck ("unknown expression: " ++ d)

def evalArgs (structs : List GoStruct) (h : Heap) (env : Env) : List Expr → Res (List Val)
  | [] => .ok []
  | e :: es => do
    let v ← eval structs h env e
    let vs ← evalArgs structs h env es
    pure (v :: vs)

/-- An evaluated left-hand side. -/
inductive LRef where
  | blank
  | var (x : Nat)
  | heapAt (a k : Nat)                -- field `k` of the record at address `a`
  | mapAt (x : Nat) (key : Bytes)
  deriving Repr, DecidableEq

def evalLHS (structs : List GoStruct) (h : Heap) (env : Env) : LHS → Res LRef
  | .blank => .ok .blank
  | .var x => .ok (.var x)
  | .fld e k => do
    match (← eval structs h env e) with
    | .ptr a => .ok (.heapAt a k)
    | .nil => .panic
    | _ => .stuck "store through a non-pointer"
  | .mapAt x k => do
    match (← eval structs h env k) with
    | .str key => .ok (.mapAt x key)
    | _ => .stuck "map key that is not a string"

def evalLHSs (structs : List GoStruct) (h : Heap) (env : Env) : List LHS → Res (List LRef)
  | [] => .ok []
  | l :: ls => do
    let r ← evalLHS structs h env l
    let rs ← evalLHSs structs h env ls
    pure (r :: rs)

def store (h : Heap) (env : Env) (r : LRef) (v : Val) : Res (Heap × Env) :=
  match r with
  | .blank => .ok (h, env)
  | .var x => if x < env.length then .ok (h, env.set x v) else .stuck "no such slot"
  | .heapAt a k =>
    match h[a]? with
    | some o => if k < o.length then .ok (h.set a (o.set k v), env) else .stuck "no such field"
    | none => .stuck "dangling pointer"
  | .mapAt x key =>
    match env[x]?, v with
    | some (.map m), .bool b => .ok (h, env.set x (.map ((key, b) :: m)))
    | _, _ => .stuck "store into something that is not a map[string]bool"

def storeAll (h : Heap) (env : Env) : List LRef → List Val → Res (Heap × Env)
  | [], [] => .ok (h, env)
  | r :: rs, v :: vs => do
    let (h', env') ← store h env r v
    storeAll h' env' rs vs
  | _, _ => .stuck "assignment count mismatch"

def extN (op : ExtN) (args : List Val) : Res (List Val) :=
  match op, args with
  | .parseUint, [.str s, .int base, .int bits] =>
    if 2 ≤ base ∧ base ≤ 36 ∧ 0 < bits ∧ bits ≤ 64 then
      match Strconv.parseUint s base.toNat bits.toNat with
      | .ok v => .ok [.int v, .nil]
      | .error .syntax => .ok [.int 0, .numErr]
      | .error .range => .ok [.int ((2 : Int) ^ bits.toNat - 1), .numErr]
    else .stuck "ParseUint with a base/bit size the model does not cover"
  | .cacheLoad, [.global _, _] => .ok [.nil, .bool false]
  | .cacheLoadOrStore, [.global _, _, v] => .ok [v, .bool false]
  | _, _ => .stuck "external call on values it is not defined on"

@[inline] def bindR {α : Type} (r : Res α) (k : α → Out) : Out :=
  match r with
  | .ok a => k a
  | .panic => .panic
  | .stuck w => .stuck w

@[inline] def Out.andThen (o : Out) (k : Heap → Env → Out) : Out :=
  match o with
  | .norm h env => k h env
  | o => o

def afterPost (k : Heap → Env → Out) : Out → Out
  | .norm h env => k h env
  | .brk _ _ => .stuck "break in a post statement"
  | .cont _ _ => .stuck "continue in a post statement"
  | o => o

def afterBody (post : Heap → Env → Out) (k : Heap → Env → Out) : Out → Out
  | .norm h env => afterPost k (post h env)
  | .cont h env => afterPost k (post h env)
  | .brk h env => .norm h env
  | o => o

def loop (cond : Heap → Env → Res Bool) (body post : Heap → Env → Out) : Nat → Heap → Env → Out
  | fuel, h, env =>
    bindR (cond h env) fun b =>
      if b then
        match fuel with
        | 0 => .stuck "loop bound exceeded"
        | n + 1 => afterBody post (loop cond body post n) (body h env)
      else .norm h env

/-- One evaluation of a `sort.Slice` closure: `less(a, b)` in state `h`, `env`. -/
def lessAt (run : Heap → Env → Out) (h : Heap) (env : Env) (i j : Nat) (a b : Nat) : Res Bool :=
  match run h ((env.set i (.int a)).set j (.int b)) with
  | .ret h' [.bool r] => if h' = h then .ok r else .stuck "sort.Slice closure changed the heap"
  | .panic => .panic
  | .stuck w => .stuck w
  | _ => .stuck "sort.Slice closure did not return a bool"

/-- `less(b, a) = false` for all positions `a < b < n`. -/
def sortedBy (less : Nat → Nat → Res Bool) (n : Nat) : Bool :=
  (List.range n).all fun b => (List.range b).all fun a => less b a == .ok false

def exec (c : Ctx) : Stmt → Heap → Env → Out
  | .skip, h, env => .norm h env
  | .seq a b, h, env => (exec c a h env).andThen (exec c b)
  | .assign lhs rhs, h, env =>
    bindR (evalLHSs c.structs h env lhs) fun refs =>
    bindR (evalArgs c.structs h env rhs) fun vals =>
    bindR (storeAll h env refs vals) fun (h', env') => .norm h' env'
  | .ite cnd t e, h, env =>
    bindR (eval c.structs h env cnd >>= asBool) fun b => if b then exec c t h env else exec c e h env
  | .for_ cnd post body, h, env =>
    loop (fun h env => eval c.structs h env cnd >>= asBool) (exec c body) (exec c post) c.fuel h env
  | .brk, h, env => .brk h env
  | .cont, h, env => .cont h env
  | .call lhs f args, h, env =>
    bindR (evalLHSs c.structs h env lhs) fun refs =>
    bindR (evalArgs c.structs h env args) fun vals =>
    bindR (c.call f h vals) fun (h', rs) =>
    bindR (storeAll h' env refs rs) fun (h'', env') => .norm h'' env'
  | .ret es, h, env => bindR (evalArgs c.structs h env es) fun vs => .ret h vs
  | .alloc x fields, h, env =>
    bindR (evalArgs c.structs h env fields) fun vs =>
      if x < env.length then .norm (h ++ [vs]) (env.set x (.ptr h.length)) else .stuck "no such slot"
  | .copyObj x e, h, env =>
    bindR (eval c.structs h env e) fun v =>
      match v with
      | .ptr a =>
        match h[a]? with
        | some o => if x < env.length then .norm (h ++ [o]) (env.set x (.ptr h.length)) else .stuck "no such slot"
        | none => .stuck "dangling pointer"
      | .nil => .panic
      | _ => .stuck "dereference of a non-pointer"
  | .extCall lhs op args, h, env =>
    bindR (evalLHSs c.structs h env lhs) fun refs =>
    bindR (evalArgs c.structs h env args) fun vals =>
    bindR (extN op vals) fun rs =>
    bindR (storeAll h env refs rs) fun (h', env') => .norm h' env'
  | .sortSlice x i j body, h, env =>
    bindR (lookup env x) fun v =>
      match v with
      | .ptrs l =>
        let p := c.sort h l
        let env' := env.set x (.ptrs p)
        if p.isPerm l && sortedBy (lessAt (exec c body) h env' i j) p.length then .norm h env'
        else .stuck "sort.Slice: the proposed result is not a sorted permutation"
      | _ => .stuck "sort.Slice of something that is not a slice of pointers"
  | .unknown d, _, _ => .stuck ("unknown statement: " ++ d)

structure Proc where
  nparams : Nat
  nslots : Nat
  body : Stmt
  deriving Repr, Inhabited

def execProc (c : Ctx) (p : Proc) (h : Heap) (args : List Val) : Res (Heap × List Val) :=
  if p.nparams ≠ args.length then .stuck "wrong number of arguments" else
  match exec c p.body h (args ++ List.replicate (p.nslots - p.nparams) .undef) with
  | .ret h' vs => .ok (h', vs)
  | .norm h' _ => .ok (h', [])
  | .brk _ _ => .stuck "break outside a loop"
  | .cont _ _ => .stuck "continue outside a loop"
  | .panic => .panic
  | .stuck w => .stuck w

structure Program where
  procs : List Proc

/-- The environment of a run: struct descriptions, loop bound, the `sort.Slice` behaviour. -/
structure World where
  structs : List GoStruct
  fuel : Nat
  sort : Heap → List Nat → List Nat

def callIn (P : Program) (w : World) : Nat → Nat → Heap → List Val → Res (Heap × List Val)
  | 0, _, _, _ => .stuck "call depth exceeded"
  | d + 1, f, h, args =>
    match P.procs[f]? with
    | some p => execProc { structs := w.structs, fuel := w.fuel, sort := w.sort, call := callIn P w d } p h args
    | none => .stuck "no such function"

/-- Number of `unknown` nodes in an expression. -/
def exprUnknowns : Expr → Nat
  | .unknown _ => 1
  | .fld e _ => exprUnknowns e
  | .len e => exprUnknowns e
  | .bin _ a b => exprUnknowns a + exprUnknowns b
  | .eq a b => exprUnknowns a + exprUnknowns b
  | .ne a b => exprUnknowns a + exprUnknowns b
  | .isNil e => exprUnknowns e
  | .not e => exprUnknowns e
  | .lor a b => exprUnknowns a + exprUnknowns b
  | .land a b => exprUnknowns a + exprUnknowns b
  | .index a b => exprUnknowns a + exprUnknowns b
  | .sliceFrom a b => exprUnknowns a + exprUnknowns b
  | .sliceTo a b => exprUnknowns a + exprUnknowns b
  | .ints1 e => exprUnknowns e
  | .append1 a b => exprUnknowns a + exprUnknowns b
  | .appendAll a b => exprUnknowns a + exprUnknowns b
  | .mapGet a b => exprUnknowns a + exprUnknowns b
  | .mapHas a b => exprUnknowns a + exprUnknowns b
  | .ext1 _ a => exprUnknowns a
  | .ext2 _ a b => exprUnknowns a + exprUnknowns b
  | .concat a b => exprUnknowns a + exprUnknowns b
  | .toInt64 e => exprUnknowns e
  | .assertPtr e => exprUnknowns e
  | _ => 0

def lhsUnknowns : LHS → Nat
  | .fld e _ => exprUnknowns e
  | .mapAt _ k => exprUnknowns k
  | _ => 0

/-- Number of `unknown` nodes in a statement: 0 means the function lies wholly inside the fragment. -/
def Stmt.unknowns : Stmt → Nat
  | .seq a b => a.unknowns + b.unknowns
  | .ite c t e => exprUnknowns c + t.unknowns + e.unknowns
  | .for_ c p b => exprUnknowns c + p.unknowns + b.unknowns
  | .sortSlice _ _ _ b => b.unknowns
  | .assign lhs rhs => (lhs.map lhsUnknowns).sum + (rhs.map exprUnknowns).sum
  | .call lhs _ args => (lhs.map lhsUnknowns).sum + (args.map exprUnknowns).sum
  | .ret es => (es.map exprUnknowns).sum
  | .alloc _ fs => (fs.map exprUnknowns).sum
  | .copyObj _ e => exprUnknowns e
  | .extCall lhs _ args => (lhs.map lhsUnknowns).sum + (args.map exprUnknowns).sum
  | .unknown _ => 1
  | _ => 0


end GoCrypt.TIIR
