/-!
# Word IR: the DES core of `des/descrypt/des.go` as small structured programs

`gogen` (desir.go) re-translates `permute816`, `permute1616`, `keySchedules` and `Encrypt` from the
current Go source into the statements below (`Gen/DesIR.lean`); `Proofs/DesIR*.lean` prove that
interpreting those programs gives the hand-written model `Model/Kdf/Des.lean`, for every input.

Reading guide (Go on the left, IR on the right):

* a `uint64` is `Val.u64`, a `uint32` is `Val.u32` (Lean's fixed-width words: `&`, `|`, `^`, `+`, `-`
  wrap around as in Go).  `x << n` / `x >> n` follow GO's rule, not the hardware's: a count `≥` the
  width gives `0` (Lean's `<<<` alone would reduce the count modulo the width), a negative count panics.
  Untyped constants arrive with the type the Go type checker gave them (`Expr.lit ty n`).
* an array of `uint64` of any dimension (`[8][16]uint64`, `[8][2]uint64`, …) is `Val.tab dims off data`:
  the row-major window of `data` that starts at `off`; indexing it with `i` panics unless `i < dims[0]`
  and gives the sub-window (or, in the last dimension, the word `data[off+i]`).  An array given in the
  source as a composite literal of NAMED tables (`pcxRot`) is `Val.arr` of its elements.  Arrays are
  values, as in Go.
* package-level variables are referenced by NAME (`Expr.global`) and resolved through the environment
  `Globals := String → Option Val`; an unknown name is `stuck`.
* variables are numbered SLOTS of one flat frame per call: parameters first, then every local in order
  of declaration.  A slot is `Val.undef` until its declaration or first assignment runs.
* `a, b = e1, e2` is `Stmt.assign [a, b] [e1, e2]`: all right-hand sides are evaluated first.
  `x op= e` is emitted as `x = x op e`, `x--` as `x = x - 1` (Go's definition, `x` a plain variable).
* `for ; cond; post { body }` is `Stmt.for_ fuel cond post body`: `fuel` is an expression the translator
  derives (evaluated once, NOT trusted: running out of fuel with `cond` still true is `stuck`).
  `for k, v := range e { body }` is `Stmt.range k v e body`: `e` is evaluated once, the body runs once
  per element with the index in slot `k` (a Go `int`) and the element in slot `v`.
* results: `norm` = fell through, `ret` = `return`, `panic` = Go panics (index out of range), `stuck` =
  the program left the fragment the interpreter understands (`unknown` node, type confusion, unknown
  table, fuel, call depth).  The theorems only state `ok` results, so a `stuck` makes them fail.
-/

namespace GoCrypt.DesIR

inductive Res (α : Type) where
  | ok (a : α)
  | panic
  | stuck (why : String)
  deriving Repr

namespace Res

@[inline] protected def bind {α β : Type} : Res α → (α → Res β) → Res β
  | .ok a, f => f a
  | .panic, _ => .panic
  | .stuck w, _ => .stuck w

instance : Monad Res where
  pure := .ok
  bind := Res.bind

end Res

inductive Val where
  | undef
  | u64 (x : UInt64)
  | u32 (x : UInt32)
  | int (i : Int)
  | bool (b : Bool)
  | tab (dims : List Nat) (off : Nat) (data : Array Nat)
  | arr (vs : List Val)

instance : Inhabited Val := ⟨.undef⟩

/-- Scalar Go types of the fragment (`int` only for constants, indices and shift counts). -/
inductive Ty where
  | u64 | u32 | int
  deriving Repr, DecidableEq, Inhabited

/-- Types that have a zero value in the fragment: scalars and arrays of `uint64`. -/
inductive VTy where
  | scalar (t : Ty)
  | array (dims : List Nat)
  deriving Repr, DecidableEq, Inhabited

inductive BinOp where
  | and | or | xor | add | sub | shl | shr
  | eq | ne | lt | le | gt | ge
  deriving Repr, DecidableEq, Inhabited

inductive Expr where
  | lit (t : Ty) (n : Nat)            -- a constant of Go type `t`
  | var (x : Nat)
  | global (name : String)            -- package-level variable
  | bin (op : BinOp) (a b : Expr)
  | conv (t : Ty) (e : Expr)          -- `uint64(e)`, `uint32(e)`
  | index (a i : Expr)                -- `a[i]`
  | unknown (src : String)
  deriving Repr, DecidableEq, Inhabited

inductive Stmt where
  | skip
  | seq (a b : Stmt)
  | decl (x : Nat) (t : VTy)                              -- `var x T`
  | assign (xs : List Nat) (es : List Expr)               -- `x, y = e1, e2` / `:=`
  | store (x : Nat) (idx : List Expr) (e : Expr)          -- `x[i][j] = e`
  | call (x : Nat) (f : String) (args : List Expr)        -- `x = f(args…)` for a translated function
  | ite (c : Expr) (t e : Stmt)
  | for_ (fuel cond : Expr) (post body : Stmt)
  | range (k v : Option Nat) (e : Expr) (body : Stmt)
  | ret (e : Expr)
  | retCall (f : String) (args : List Expr)               -- `return f(args…)`
  | unknown (src : String)
  deriving Repr, Inhabited

infixr:35 " ;;; " => Stmt.seq

abbrev Env := List Val
abbrev Globals := String → Option Val

inductive Out where
  | norm (env : Env)
  | ret (v : Val)
  | panic
  | stuck (why : String)

/-- Meaning of calls to other translated functions. -/
structure Ctx where
  call : String → List Val → Res Val

def lookup (env : Env) (x : Nat) : Res Val :=
  match env[x]? with
  | some .undef => .stuck "variable read before its declaration"
  | some v => .ok v
  | none => .stuck "no such slot"

def setSlot (env : Env) (x : Nat) (v : Val) : Res Env :=
  if x < env.length then .ok (env.set x v) else .stuck "no such slot"

def setOpt (env : Env) (x : Option Nat) (v : Val) : Res Env :=
  match x with
  | some x => setSlot env x v
  | none => .ok env

def setAll (env : Env) : List Nat → List Val → Res Env
  | [], [] => .ok env
  | x :: xs, v :: vs => do
    let env' ← setSlot env x v
    setAll env' xs vs
  | _, _ => .stuck "assignment count mismatch"

/-- Go's shifts on 64-bit words: a count of 64 or more shifts everything out. -/
def shl64 (a : UInt64) (n : Nat) : UInt64 := if n < 64 then a <<< UInt64.ofNat n else 0
def shr64 (a : UInt64) (n : Nat) : UInt64 := if n < 64 then a >>> UInt64.ofNat n else 0
def shl32 (a : UInt32) (n : Nat) : UInt32 := if n < 32 then a <<< UInt32.ofNat n else 0
def shr32 (a : UInt32) (n : Nat) : UInt32 := if n < 32 then a >>> UInt32.ofNat n else 0

/-- A shift count or an index: any non-negative integer value; a negative one panics. -/
def asCount : Val → Res Nat
  | .u64 x => .ok x.toNat
  | .u32 x => .ok x.toNat
  | .int i => if i < 0 then .panic else .ok i.toNat
  | _ => .stuck "integer expected"

def evalBin (op : BinOp) (a b : Val) : Res Val :=
  match op, a, b with
  | .shl, .u64 x, n => do let k ← asCount n; pure (.u64 (shl64 x k))
  | .shr, .u64 x, n => do let k ← asCount n; pure (.u64 (shr64 x k))
  | .shl, .u32 x, n => do let k ← asCount n; pure (.u32 (shl32 x k))
  | .shr, .u32 x, n => do let k ← asCount n; pure (.u32 (shr32 x k))
  | .and, .u64 x, .u64 y => .ok (.u64 (x &&& y))
  | .or, .u64 x, .u64 y => .ok (.u64 (x ||| y))
  | .xor, .u64 x, .u64 y => .ok (.u64 (x ^^^ y))
  | .add, .u64 x, .u64 y => .ok (.u64 (x + y))
  | .sub, .u64 x, .u64 y => .ok (.u64 (x - y))
  | .eq, .u64 x, .u64 y => .ok (.bool (x == y))
  | .ne, .u64 x, .u64 y => .ok (.bool (x != y))
  | .lt, .u64 x, .u64 y => .ok (.bool (decide (x < y)))
  | .le, .u64 x, .u64 y => .ok (.bool (decide (x ≤ y)))
  | .gt, .u64 x, .u64 y => .ok (.bool (decide (y < x)))
  | .ge, .u64 x, .u64 y => .ok (.bool (decide (y ≤ x)))
  | .and, .u32 x, .u32 y => .ok (.u32 (x &&& y))
  | .or, .u32 x, .u32 y => .ok (.u32 (x ||| y))
  | .xor, .u32 x, .u32 y => .ok (.u32 (x ^^^ y))
  | .add, .u32 x, .u32 y => .ok (.u32 (x + y))
  | .sub, .u32 x, .u32 y => .ok (.u32 (x - y))
  | .eq, .u32 x, .u32 y => .ok (.bool (x == y))
  | .ne, .u32 x, .u32 y => .ok (.bool (x != y))
  | .lt, .u32 x, .u32 y => .ok (.bool (decide (x < y)))
  | .le, .u32 x, .u32 y => .ok (.bool (decide (x ≤ y)))
  | .gt, .u32 x, .u32 y => .ok (.bool (decide (y < x)))
  | .ge, .u32 x, .u32 y => .ok (.bool (decide (y ≤ x)))
  | _, _, _ => .stuck "operator applied to operands outside the fragment"

def litVal (t : Ty) (n : Nat) : Val :=
  match t with
  | .u64 => .u64 (UInt64.ofNat n)
  | .u32 => .u32 (UInt32.ofNat n)
  | .int => .int n

def convVal (t : Ty) (v : Val) : Res Val :=
  match t, v with
  | .u64, .u64 x => .ok (.u64 x)
  | .u64, .u32 x => .ok (.u64 x.toUInt64)
  | .u32, .u32 x => .ok (.u32 x)
  | .u32, .u64 x => .ok (.u32 x.toUInt32)
  | _, _ => .stuck "conversion outside the fragment"

/-- Number of words of an array with these dimensions. -/
def dimsSize : List Nat → Nat
  | [] => 1
  | d :: ds => d * dimsSize ds

/-- Element `i` of the window `dims@off` (no bounds check). -/
def tabElem (ds : List Nat) (off : Nat) (data : Array Nat) (i : Nat) : Val :=
  match ds with
  | [] => .u64 (UInt64.ofNat (data.getD (off + i) 0))
  | _ => .tab ds (off + i * dimsSize ds) data

def indexVal (c : Val) (i : Nat) : Res Val :=
  match c with
  | .tab (d :: ds) off data => if i < d then .ok (tabElem ds off data i) else .panic
  | .arr vs =>
    match vs[i]? with
    | some v => .ok v
    | none => .panic
  | _ => .stuck "index of a non-array"

/-- The elements of an array value, in order (what `range` iterates over). -/
def elems (c : Val) : Res (List Val) :=
  match c with
  | .tab (d :: ds) off data => .ok ((List.range d).map (tabElem ds off data))
  | .arr vs => .ok vs
  | _ => .stuck "range over a non-array"

def zeroVal : VTy → Val
  | .scalar .u64 => .u64 0
  | .scalar .u32 => .u32 0
  | .scalar .int => .int 0
  | .array dims => .tab dims 0 (List.replicate (dimsSize dims) 0).toArray

/-- Position of `x[i₀][i₁]…` in the data of a window; every index must be in range and the path must
reach a word. -/
def storePos : List Nat → Nat → List Nat → Res Nat
  | [], off, [] => .ok off
  | d :: ds, off, i :: is => if i < d then storePos ds (off + i * dimsSize ds) is else .panic
  | _, _, _ => .stuck "store path does not reach a word"

def storeVal (c : Val) (idx : List Nat) (v : Val) : Res Val :=
  match c, v with
  | .tab dims off data, .u64 x => do
    let pos ← storePos dims off idx
    if pos < data.size then pure (.tab dims off (data.toList.set pos x.toNat).toArray)
    else .stuck "window outside its data"
  | _, _ => .stuck "store outside the fragment"

def eval (g : Globals) (env : Env) : Expr → Res Val
  | .lit t n => .ok (litVal t n)
  | .var x => lookup env x
  | .global name =>
    match g name with
    | some v => .ok v
    | none => .stuck ("unknown package-level variable " ++ name)
  | .bin op a b => do
    let x ← eval g env a
    let y ← eval g env b
    evalBin op x y
  | .conv t e => do convVal t (← eval g env e)
  | .index a i => do
    let c ← eval g env a
    let k ← asCount (← eval g env i)
    indexVal c k
  | .unknown d => .stuck ("unknown expression: " ++ d)

def evalArgs (g : Globals) (env : Env) : List Expr → Res (List Val)
  | [] => .ok []
  | e :: es => do
    let v ← eval g env e
    let vs ← evalArgs g env es
    pure (v :: vs)

def evalCounts (g : Globals) (env : Env) : List Expr → Res (List Nat)
  | [] => .ok []
  | e :: es => do
    let v ← asCount (← eval g env e)
    let vs ← evalCounts g env es
    pure (v :: vs)

def asBool : Val → Res Bool
  | .bool b => .ok b
  | _ => .stuck "bool expected"

@[inline] def bindR {α : Type} (r : Res α) (k : α → Out) : Out :=
  match r with
  | .ok a => k a
  | .panic => .panic
  | .stuck w => .stuck w

@[inline] def Out.andThen (o : Out) (k : Env → Out) : Out :=
  match o with
  | .norm env => k env
  | o => o

/-- `for ; cond; post { body }` with a fuel bound: out of fuel with `cond` still true is `stuck`.
A `return` in the post statement has no Go meaning and is `stuck`. -/
def loop (cond : Env → Res Bool) (body post : Env → Out) : Nat → Env → Out
  | fuel, env =>
    bindR (cond env) fun b =>
      if b then
        match fuel with
        | 0 => .stuck "loop bound exceeded"
        | n + 1 => ((body env).andThen post).andThen (loop cond body post n)
      else .norm env

/-- `for k, v := range <elements> { body }`, `i` the index of the next element. -/
def rangeLoop (k v : Option Nat) (body : Env → Out) : Nat → List Val → Env → Out
  | _, [], env => .norm env
  | i, x :: xs, env =>
    bindR (setOpt env k (.int i)) fun env1 =>
    bindR (setOpt env1 v x) fun env2 =>
      (body env2).andThen (rangeLoop k v body (i + 1) xs)

def exec (c : Ctx) (g : Globals) : Stmt → Env → Out
  | .skip, env => .norm env
  | .seq a b, env => (exec c g a env).andThen (exec c g b)
  | .decl x t, env => bindR (setSlot env x (zeroVal t)) .norm
  | .assign xs es, env =>
    bindR (evalArgs g env es) fun vals =>
    bindR (setAll env xs vals) .norm
  | .store x idx e, env =>
    bindR (lookup env x) fun cv =>
    bindR (evalCounts g env idx) fun is =>
    bindR (eval g env e) fun v =>
    bindR (storeVal cv is v) fun cv' =>
    bindR (setSlot env x cv') .norm
  | .call x f args, env =>
    bindR (evalArgs g env args) fun vals =>
    bindR (c.call f vals) fun r =>
    bindR (setSlot env x r) .norm
  | .ite cnd t e, env =>
    bindR (eval g env cnd >>= asBool) fun b => if b then exec c g t env else exec c g e env
  | .for_ fuel cnd post body, env =>
    bindR (eval g env fuel >>= asCount) fun n =>
      loop (fun env => eval g env cnd >>= asBool) (exec c g body) (exec c g post) n env
  | .range k v e body, env =>
    bindR (eval g env e >>= elems) fun xs => rangeLoop k v (exec c g body) 0 xs env
  | .ret e, env => bindR (eval g env e) .ret
  | .retCall f args, env =>
    bindR (evalArgs g env args) fun vals =>
    bindR (c.call f vals) .ret
  | .unknown d, _ => .stuck ("unknown statement: " ++ d)

/-- A translated Go function: `nparams` parameters in slots `0 … nparams-1`, `nslots` slots in all. -/
structure Proc where
  nparams : Nat
  nslots : Nat
  body : Stmt
  deriving Repr, Inhabited

def execProc (c : Ctx) (g : Globals) (p : Proc) (args : List Val) : Res Val :=
  if p.nparams ≠ args.length then .stuck "wrong number of arguments" else
  match exec c g p.body (args ++ List.replicate (p.nslots - p.nparams) .undef) with
  | .ret v => .ok v
  | .norm _ => .stuck "missing return"
  | .panic => .panic
  | .stuck w => .stuck w

structure Program where
  procs : List (String × Proc)

/-- Calls are resolved in the program; `depth` bounds the call nesting (no recursion in the fragment:
a program that nests deeper is `stuck`). -/
def callIn (P : Program) (g : Globals) : Nat → String → List Val → Res Val
  | 0, _, _ => .stuck "call depth exceeded"
  | d + 1, f, args =>
    match List.lookup f P.procs with
    | some p => execProc { call := callIn P g d } g p args
    | none => .stuck ("no such function " ++ f)

/-- Run function `f` of program `P` with the package-level variables `g`. -/
def interp (P : Program) (g : Globals) (f : String) (args : List Val) : Res Val :=
  callIn P g P.procs.length f args

/-! ## `unknown`-freeness (decidable on the generated programs) -/

def Expr.clean : Expr → Bool
  | .lit _ _ => true
  | .var _ => true
  | .global _ => true
  | .bin _ a b => a.clean && b.clean
  | .conv _ e => e.clean
  | .index a i => a.clean && i.clean
  | .unknown _ => false

def Stmt.clean : Stmt → Bool
  | .skip => true
  | .seq a b => a.clean && b.clean
  | .decl _ _ => true
  | .assign _ es => es.all Expr.clean
  | .store _ idx e => idx.all Expr.clean && e.clean
  | .call _ _ args => args.all Expr.clean
  | .ite c t e => c.clean && t.clean && e.clean
  | .for_ f c p b => f.clean && c.clean && p.clean && b.clean
  | .range _ _ e b => e.clean && b.clean
  | .ret e => e.clean
  | .retCall _ args => args.all Expr.clean
  | .unknown _ => false

def Program.clean (P : Program) : Bool := P.procs.all fun p => p.2.body.clean

end GoCrypt.DesIR
