import GoCrypt.Prim.Util

/-! SHA-256 (FIPS 180-4). -/

namespace GoCrypt.Prim

/-- First 32 bits of the fractional parts of the cube roots of the first 64 primes. -/
def sha256K : Array UInt32 := #[
  0x428a2f98, 0x71374491, 0xb5c0fbcf, 0xe9b5dba5,
  0x3956c25b, 0x59f111f1, 0x923f82a4, 0xab1c5ed5,
  0xd807aa98, 0x12835b01, 0x243185be, 0x550c7dc3,
  0x72be5d74, 0x80deb1fe, 0x9bdc06a7, 0xc19bf174,
  0xe49b69c1, 0xefbe4786, 0x0fc19dc6, 0x240ca1cc,
  0x2de92c6f, 0x4a7484aa, 0x5cb0a9dc, 0x76f988da,
  0x983e5152, 0xa831c66d, 0xb00327c8, 0xbf597fc7,
  0xc6e00bf3, 0xd5a79147, 0x06ca6351, 0x14292967,
  0x27b70a85, 0x2e1b2138, 0x4d2c6dfc, 0x53380d13,
  0x650a7354, 0x766a0abb, 0x81c2c92e, 0x92722c85,
  0xa2bfe8a1, 0xa81a664b, 0xc24b8b70, 0xc76c51a3,
  0xd192e819, 0xd6990624, 0xf40e3585, 0x106aa070,
  0x19a4c116, 0x1e376c08, 0x2748774c, 0x34b0bcb5,
  0x391c0cb3, 0x4ed8aa4a, 0x5b9cca4f, 0x682e6ff3,
  0x748f82ee, 0x78a5636f, 0x84c87814, 0x8cc70208,
  0x90befffa, 0xa4506ceb, 0xbef9a3f7, 0xc67178f2]

/-- First 32 bits of the fractional parts of the square roots of the first 8 primes. -/
def sha256Init : Array UInt32 := #[
  0x6a09e667, 0xbb67ae85, 0x3c6ef372, 0xa54ff53a,
  0x510e527f, 0x9b05688c, 0x1f83d9ab, 0x5be0cd19]

def sha256Block (h : Array UInt32) (buf : ByteArray) (off : Nat) : Array UInt32 := Id.run do
  let mut w : Array UInt32 := Array.mkEmpty 64
  for j in [0:16] do
    w := w.push (be32 buf (off + 4 * j))
  for j in [16:64] do
    let v1 := w[j-2]!
    let t1 := rotr32 v1 17 ^^^ rotr32 v1 19 ^^^ (v1 >>> 10)
    let v2 := w[j-15]!
    let t2 := rotr32 v2 7 ^^^ rotr32 v2 18 ^^^ (v2 >>> 3)
    w := w.push (t1 + w[j-7]! + t2 + w[j-16]!)
  let mut a := h[0]!
  let mut b := h[1]!
  let mut c := h[2]!
  let mut d := h[3]!
  let mut e := h[4]!
  let mut f := h[5]!
  let mut g := h[6]!
  let mut hh := h[7]!
  for i in [0:64] do
    let t1 := hh + (rotr32 e 6 ^^^ rotr32 e 11 ^^^ rotr32 e 25) + ((e &&& f) ^^^ (~~~e &&& g))
                + sha256K[i]! + w[i]!
    let t2 := (rotr32 a 2 ^^^ rotr32 a 13 ^^^ rotr32 a 22) + ((a &&& b) ^^^ (a &&& c) ^^^ (b &&& c))
    hh := g
    g := f
    f := e
    e := d + t1
    d := c
    c := b
    b := a
    a := t1 + t2
  return #[h[0]! + a, h[1]! + b, h[2]! + c, h[3]! + d, h[4]! + e, h[5]! + f, h[6]! + g, h[7]! + hh]

def sha256BA (msg : ByteArray) : ByteArray :=
  let p := pad64 msg true
  let st := Nat.fold (p.size / 64) (fun i _ st => sha256Block st p (64 * i)) sha256Init
  st.foldl pushBE32 (ByteArray.emptyWithCapacity 32)

/-- SHA-256 digest (32 bytes). -/
def sha256 (msg : Bytes) : Bytes := baToBytes (sha256BA (bytesToBA msg))

end GoCrypt.Prim
