import GoCrypt.Prim.UtilB

/-!
BLAKE2b (RFC 7693), unkeyed, mirroring golang.org/x/crypto@v0.31.0/blake2b
(blake2b.go `newDigest`/`Write`/`Sum`/`finalize`, blake2b_generic.go `hashBlocksGeneric`).
-/

namespace GoCrypt.Prim
namespace Blake2b

/-- `iv` of blake2b.go. -/
def iv : Array UInt64 := #[
  0x6a09e667f3bcc908, 0xbb67ae8584caa73b, 0x3c6ef372fe94f82b, 0xa54ff53a5f1d36f1,
  0x510e527fade682d1, 0x9b05688c2b3e6c1f, 0x1f83d9abfb41bd6b, 0x5be0cd19137e2179]

/-- `precomputed` of blake2b_generic.go. -/
def precomputed : Array (Array Nat) := #[
  #[0, 2, 4, 6, 1, 3, 5, 7, 8, 10, 12, 14, 9, 11, 13, 15],
  #[14, 4, 9, 13, 10, 8, 15, 6, 1, 0, 11, 5, 12, 2, 7, 3],
  #[11, 12, 5, 15, 8, 0, 2, 13, 10, 3, 7, 9, 14, 6, 1, 4],
  #[7, 3, 13, 11, 9, 1, 12, 14, 2, 5, 4, 15, 6, 10, 0, 8],
  #[9, 5, 2, 10, 0, 7, 4, 15, 14, 11, 6, 3, 1, 12, 8, 13],
  #[2, 6, 0, 8, 12, 10, 11, 3, 4, 7, 15, 1, 13, 5, 14, 9],
  #[12, 1, 14, 4, 5, 15, 13, 10, 0, 6, 9, 8, 7, 3, 2, 11],
  #[13, 7, 12, 3, 11, 14, 1, 9, 5, 15, 8, 2, 0, 4, 6, 10],
  #[6, 14, 11, 0, 15, 9, 3, 8, 12, 13, 1, 10, 2, 7, 4, 5],
  #[10, 8, 7, 1, 2, 4, 6, 5, 15, 9, 3, 13, 11, 14, 12, 0],
  #[0, 2, 4, 6, 1, 3, 5, 7, 8, 10, 12, 14, 9, 11, 13, 15],
  #[14, 4, 9, 13, 10, 8, 15, 6, 1, 0, 11, 5, 12, 2, 7, 3]]

/-- `bits.RotateLeft64(x, -n)` for `0 < n < 64`. -/
@[inline] def rotr (x : UInt64) (n : UInt64) : UInt64 :=
  (x >>> n) ||| (x <<< (64 - n))

/-- The sixteen working words `v0 … v15`. -/
structure V16 where
  v0 : UInt64
  v1 : UInt64
  v2 : UInt64
  v3 : UInt64
  v4 : UInt64
  v5 : UInt64
  v6 : UInt64
  v7 : UInt64
  v8 : UInt64
  v9 : UInt64
  v10 : UInt64
  v11 : UInt64
  v12 : UInt64
  v13 : UInt64
  v14 : UInt64
  v15 : UInt64

/-- First half of a G application: `a += x; a += b; d ^= a; d = rotr d 32; c += d; b ^= c; b = rotr b 24`. -/
@[inline] def g1 (a b c d x : UInt64) : UInt64 × UInt64 × UInt64 × UInt64 :=
  let a := a + x
  let a := a + b
  let d := d ^^^ a
  let d := rotr d 32
  let c := c + d
  let b := b ^^^ c
  let b := rotr b 24
  (a, b, c, d)

/-- Second half of a G application (rotations 16 and 63). -/
@[inline] def g2 (a b c d x : UInt64) : UInt64 × UInt64 × UInt64 × UInt64 :=
  let a := a + x
  let a := a + b
  let d := d ^^^ a
  let d := rotr d 16
  let c := c + d
  let b := b ^^^ c
  let b := rotr b 63
  (a, b, c, d)

/-- One iteration of `for j := range precomputed` in `hashBlocksGeneric`, in the same statement order. -/
def round (m : Array UInt64) (s : Array Nat) (v : V16) : V16 :=
  let ⟨v0, v1, v2, v3, v4, v5, v6, v7, v8, v9, v10, v11, v12, v13, v14, v15⟩ := v
  let (v0, v4, v8, v12) := g1 v0 v4 v8 v12 m[s[0]!]!
  let (v1, v5, v9, v13) := g1 v1 v5 v9 v13 m[s[1]!]!
  let (v2, v6, v10, v14) := g1 v2 v6 v10 v14 m[s[2]!]!
  let (v3, v7, v11, v15) := g1 v3 v7 v11 v15 m[s[3]!]!
  let (v0, v4, v8, v12) := g2 v0 v4 v8 v12 m[s[4]!]!
  let (v1, v5, v9, v13) := g2 v1 v5 v9 v13 m[s[5]!]!
  let (v2, v6, v10, v14) := g2 v2 v6 v10 v14 m[s[6]!]!
  let (v3, v7, v11, v15) := g2 v3 v7 v11 v15 m[s[7]!]!
  let (v0, v5, v10, v15) := g1 v0 v5 v10 v15 m[s[8]!]!
  let (v1, v6, v11, v12) := g1 v1 v6 v11 v12 m[s[9]!]!
  let (v2, v7, v8, v13) := g1 v2 v7 v8 v13 m[s[10]!]!
  let (v3, v4, v9, v14) := g1 v3 v4 v9 v14 m[s[11]!]!
  let (v0, v5, v10, v15) := g2 v0 v5 v10 v15 m[s[12]!]!
  let (v1, v6, v11, v12) := g2 v1 v6 v11 v12 m[s[13]!]!
  let (v2, v7, v8, v13) := g2 v2 v7 v8 v13 m[s[14]!]!
  let (v3, v4, v9, v14) := g2 v3 v4 v9 v14 m[s[15]!]!
  ⟨v0, v1, v2, v3, v4, v5, v6, v7, v8, v9, v10, v11, v12, v13, v14, v15⟩

/-- `binary.LittleEndian.Uint64(b[off:])`. -/
@[inline] def le64 (b : ByteArray) (off : Nat) : UInt64 :=
  (b.get! off).toUInt64 |||
  ((b.get! (off + 1)).toUInt64 <<< 8) |||
  ((b.get! (off + 2)).toUInt64 <<< 16) |||
  ((b.get! (off + 3)).toUInt64 <<< 24) |||
  ((b.get! (off + 4)).toUInt64 <<< 32) |||
  ((b.get! (off + 5)).toUInt64 <<< 40) |||
  ((b.get! (off + 6)).toUInt64 <<< 48) |||
  ((b.get! (off + 7)).toUInt64 <<< 56)

/-- Hash state carried between `hashBlocks` calls: `h [8]uint64`, `c [2]uint64`. -/
structure State where
  h : Array UInt64
  c0 : UInt64
  c1 : UInt64

/-- One iteration of the outer loop of `hashBlocksGeneric`: the 128-byte block of `blocks` at `off`. -/
def compress (st : State) (flag : UInt64) (blocks : ByteArray) (off : Nat) : State := Id.run do
  let h := st.h
  let c0 := st.c0 + 128
  let c1 := if c0 < 128 then st.c1 + 1 else st.c1
  let mut m : Array UInt64 := Array.emptyWithCapacity 16
  for j in [0:16] do
    m := m.push (le64 blocks (off + 8 * j))
  let mut v : V16 :=
    ⟨h[0]!, h[1]!, h[2]!, h[3]!, h[4]!, h[5]!, h[6]!, h[7]!,
     iv[0]!, iv[1]!, iv[2]!, iv[3]!, iv[4]! ^^^ c0, iv[5]! ^^^ c1, iv[6]! ^^^ flag, iv[7]!⟩
  for s in precomputed do
    v := round m s v
  let h' : Array UInt64 := #[
    h[0]! ^^^ (v.v0 ^^^ v.v8),
    h[1]! ^^^ (v.v1 ^^^ v.v9),
    h[2]! ^^^ (v.v2 ^^^ v.v10),
    h[3]! ^^^ (v.v3 ^^^ v.v11),
    h[4]! ^^^ (v.v4 ^^^ v.v12),
    h[5]! ^^^ (v.v5 ^^^ v.v13),
    h[6]! ^^^ (v.v6 ^^^ v.v14),
    h[7]! ^^^ (v.v7 ^^^ v.v15)]
  return { h := h', c0 := c0, c1 := c1 }

/-- `hashBlocks(&h, &c, flag, blocks[off : off + 128*n])`. -/
def hashBlocks (st : State) (flag : UInt64) (blocks : ByteArray) (off n : Nat) : State := Id.run do
  let mut st := st
  for k in [0:n] do
    st := compress st flag blocks (off + 128 * k)
  return st

/-- `newDigest(outLen, nil)` + `Write(msg)` + `Sum(nil)` on a `ByteArray`. -/
def sumBA (outLen : Nat) (msg : ByteArray) : ByteArray := Id.run do
  -- Reset: h = iv; h[0] ^= size | keyLen<<8 | 1<<16 | 1<<24 ; offset, c = 0
  let h0 := iv.set! 0 (iv[0]! ^^^ (UInt64.ofNat outLen ||| ((1 : UInt64) <<< 16) ||| ((1 : UInt64) <<< 24)))
  let mut st : State := { h := h0, c0 := 0, c1 := 0 }
  -- Write (d.offset = 0 on entry)
  let length := msg.size
  let mut nn := 0
  if length > 128 then
    nn := length / 128 * 128        -- length &^ (BlockSize - 1)
    if length == nn then
      nn := nn - 128
    st := hashBlocks st 0 msg 0 (nn / 128)
  let offset := length - nn          -- bytes buffered in d.block (0 ≤ offset ≤ 128)
  -- finalize
  let mut block : ByteArray := msg.extract nn length
  for _ in [0:128 - offset] do
    block := block.push 0
  let remaining : UInt64 := UInt64.ofNat (128 - offset)
  let c1 := if st.c0 < remaining then st.c1 - 1 else st.c1
  let c0 := st.c0 - remaining
  let fin := compress { st with c0 := c0, c1 := c1 } 0xFFFFFFFFFFFFFFFF block 0
  let mut out : ByteArray := ByteArray.emptyWithCapacity 64
  for v in fin.h do
    for k in [0:8] do
      out := out.push (v >>> (UInt64.ofNat (8 * k))).toUInt8
  return out.extract 0 outLen

end Blake2b

/-- BLAKE2b (RFC 7693), unkeyed, digest size `outLen` bytes with `1 ≤ outLen ≤ 64`; equals Go's
`blake2b.New(outLen, nil)`; `Write(msg)`; `Sum(nil)`. -/
def blake2b (outLen : Nat) (msg : Bytes) : Bytes :=
  byteArrayToBytes (Blake2b.sumBA outLen (bytesToByteArray msg))

end GoCrypt.Prim
