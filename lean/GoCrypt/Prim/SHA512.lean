import GoCrypt.Prim.Util

/-! SHA-512 (FIPS 180-4). -/

namespace GoCrypt.Prim

/-- First 64 bits of the fractional parts of the cube roots of the first 80 primes. -/
def sha512K : Array UInt64 := #[
  0x428a2f98d728ae22, 0x7137449123ef65cd, 0xb5c0fbcfec4d3b2f, 0xe9b5dba58189dbbc,
  0x3956c25bf348b538, 0x59f111f1b605d019, 0x923f82a4af194f9b, 0xab1c5ed5da6d8118,
  0xd807aa98a3030242, 0x12835b0145706fbe, 0x243185be4ee4b28c, 0x550c7dc3d5ffb4e2,
  0x72be5d74f27b896f, 0x80deb1fe3b1696b1, 0x9bdc06a725c71235, 0xc19bf174cf692694,
  0xe49b69c19ef14ad2, 0xefbe4786384f25e3, 0x0fc19dc68b8cd5b5, 0x240ca1cc77ac9c65,
  0x2de92c6f592b0275, 0x4a7484aa6ea6e483, 0x5cb0a9dcbd41fbd4, 0x76f988da831153b5,
  0x983e5152ee66dfab, 0xa831c66d2db43210, 0xb00327c898fb213f, 0xbf597fc7beef0ee4,
  0xc6e00bf33da88fc2, 0xd5a79147930aa725, 0x06ca6351e003826f, 0x142929670a0e6e70,
  0x27b70a8546d22ffc, 0x2e1b21385c26c926, 0x4d2c6dfc5ac42aed, 0x53380d139d95b3df,
  0x650a73548baf63de, 0x766a0abb3c77b2a8, 0x81c2c92e47edaee6, 0x92722c851482353b,
  0xa2bfe8a14cf10364, 0xa81a664bbc423001, 0xc24b8b70d0f89791, 0xc76c51a30654be30,
  0xd192e819d6ef5218, 0xd69906245565a910, 0xf40e35855771202a, 0x106aa07032bbd1b8,
  0x19a4c116b8d2d0c8, 0x1e376c085141ab53, 0x2748774cdf8eeb99, 0x34b0bcb5e19b48a8,
  0x391c0cb3c5c95a63, 0x4ed8aa4ae3418acb, 0x5b9cca4f7763e373, 0x682e6ff3d6b2b8a3,
  0x748f82ee5defb2fc, 0x78a5636f43172f60, 0x84c87814a1f0ab72, 0x8cc702081a6439ec,
  0x90befffa23631e28, 0xa4506cebde82bde9, 0xbef9a3f7b2c67915, 0xc67178f2e372532b,
  0xca273eceea26619c, 0xd186b8c721c0c207, 0xeada7dd6cde0eb1e, 0xf57d4f7fee6ed178,
  0x06f067aa72176fba, 0x0a637dc5a2c898a6, 0x113f9804bef90dae, 0x1b710b35131c471b,
  0x28db77f523047d84, 0x32caab7b40c72493, 0x3c9ebe0a15c9bebc, 0x431d67c49c100d4c,
  0x4cc5d4becb3e42b6, 0x597f299cfc657e2a, 0x5fcb6fab3ad6faec, 0x6c44198c4a475817]

/-- First 64 bits of the fractional parts of the square roots of the first 8 primes. -/
def sha512Init : Array UInt64 := #[
  0x6a09e667f3bcc908, 0xbb67ae8584caa73b, 0x3c6ef372fe94f82b, 0xa54ff53a5f1d36f1,
  0x510e527fade682d1, 0x9b05688c2b3e6c1f, 0x1f83d9abfb41bd6b, 0x5be0cd19137e2179]

def sha512Block (h : Array UInt64) (buf : ByteArray) (off : Nat) : Array UInt64 := Id.run do
  let mut w : Array UInt64 := Array.mkEmpty 80
  for j in [0:16] do
    w := w.push (be64 buf (off + 8 * j))
  for j in [16:80] do
    let v1 := w[j-2]!
    let t1 := rotr64 v1 19 ^^^ rotr64 v1 61 ^^^ (v1 >>> 6)
    let v2 := w[j-15]!
    let t2 := rotr64 v2 1 ^^^ rotr64 v2 8 ^^^ (v2 >>> 7)
    w := w.push (t1 + w[j-7]! + t2 + w[j-16]!)
  let mut a := h[0]!
  let mut b := h[1]!
  let mut c := h[2]!
  let mut d := h[3]!
  let mut e := h[4]!
  let mut f := h[5]!
  let mut g := h[6]!
  let mut hh := h[7]!
  for i in [0:80] do
    let t1 := hh + (rotr64 e 14 ^^^ rotr64 e 18 ^^^ rotr64 e 41) + ((e &&& f) ^^^ (~~~e &&& g))
                + sha512K[i]! + w[i]!
    let t2 := (rotr64 a 28 ^^^ rotr64 a 34 ^^^ rotr64 a 39) + ((a &&& b) ^^^ (a &&& c) ^^^ (b &&& c))
    hh := g
    g := f
    f := e
    e := d + t1
    d := c
    c := b
    b := a
    a := t1 + t2
  return #[h[0]! + a, h[1]! + b, h[2]! + c, h[3]! + d, h[4]! + e, h[5]! + f, h[6]! + g, h[7]! + hh]

def sha512BA (msg : ByteArray) : ByteArray :=
  let p := pad128 msg
  let st := Nat.fold (p.size / 128) (fun i _ st => sha512Block st p (128 * i)) sha512Init
  st.foldl pushBE64 (ByteArray.emptyWithCapacity 64)

/-- SHA-512 digest (64 bytes). -/
def sha512 (msg : Bytes) : Bytes := baToBytes (sha512BA (bytesToBA msg))

end GoCrypt.Prim
