import GoCrypt.Base.Bytes
namespace GoCrypt.Prim

/-- `List UInt8 → ByteArray` (boundary conversion only). -/
def bytesToByteArray (b : Bytes) : ByteArray :=
  b.foldl (fun acc x => acc.push x) (ByteArray.emptyWithCapacity b.length)

/-- `ByteArray → List UInt8` (boundary conversion only). -/
def byteArrayToBytes (b : ByteArray) : Bytes := b.data.toList

end GoCrypt.Prim
