import GoCrypt.Prim.UtilB
import GoCrypt.Prim.BlowfishTables

/-!
Blowfish, mirroring golang.org/x/crypto@v0.31.0/blowfish (block.go, cipher.go, const.go).
-/

namespace GoCrypt.Prim

/-- `blowfish.Cipher`: `p [18]uint32; s0, s1, s2, s3 [256]uint32`. -/
structure Blowfish where
  p : Array UInt32
  s0 : Array UInt32
  s1 : Array UInt32
  s2 : Array UInt32
  s3 : Array UInt32

namespace Blowfish

/-- `initCipher`: copy of the pi-derived tables of const.go. -/
def init : Blowfish :=
  { p := BlowfishTables.p
    s0 := BlowfishTables.s0
    s1 := BlowfishTables.s1
    s2 := BlowfishTables.s2
    s3 := BlowfishTables.s3 }

/-- `((c.s0[byte(x>>24)] + c.s1[byte(x>>16)]) ^ c.s2[byte(x>>8)]) + c.s3[byte(x)]`. -/
@[inline] def f (s0 s1 s2 s3 : Array UInt32) (x : UInt32) : UInt32 :=
  ((s0[(x >>> 24).toUInt8.toNat]! + s1[(x >>> 16).toUInt8.toNat]!)
      ^^^ s2[(x >>> 8).toUInt8.toNat]!) + s3[x.toUInt8.toNat]!

/-- `encryptBlock` of block.go on the unpacked tables. Note Go gives `+` and `^` the same precedence,
so each line there reads `x ^= (F(y) ^ p[i])`. -/
def encryptBlockT (p s0 s1 s2 s3 : Array UInt32) (l r : UInt32) : UInt32 × UInt32 :=
  let xl := l
  let xr := r
  let xl := xl ^^^ p[0]!
  let xr := xr ^^^ (f s0 s1 s2 s3 xl ^^^ p[1]!)
  let xl := xl ^^^ (f s0 s1 s2 s3 xr ^^^ p[2]!)
  let xr := xr ^^^ (f s0 s1 s2 s3 xl ^^^ p[3]!)
  let xl := xl ^^^ (f s0 s1 s2 s3 xr ^^^ p[4]!)
  let xr := xr ^^^ (f s0 s1 s2 s3 xl ^^^ p[5]!)
  let xl := xl ^^^ (f s0 s1 s2 s3 xr ^^^ p[6]!)
  let xr := xr ^^^ (f s0 s1 s2 s3 xl ^^^ p[7]!)
  let xl := xl ^^^ (f s0 s1 s2 s3 xr ^^^ p[8]!)
  let xr := xr ^^^ (f s0 s1 s2 s3 xl ^^^ p[9]!)
  let xl := xl ^^^ (f s0 s1 s2 s3 xr ^^^ p[10]!)
  let xr := xr ^^^ (f s0 s1 s2 s3 xl ^^^ p[11]!)
  let xl := xl ^^^ (f s0 s1 s2 s3 xr ^^^ p[12]!)
  let xr := xr ^^^ (f s0 s1 s2 s3 xl ^^^ p[13]!)
  let xl := xl ^^^ (f s0 s1 s2 s3 xr ^^^ p[14]!)
  let xr := xr ^^^ (f s0 s1 s2 s3 xl ^^^ p[15]!)
  let xl := xl ^^^ (f s0 s1 s2 s3 xr ^^^ p[16]!)
  let xr := xr ^^^ p[17]!
  (xr, xl)

/-- `encryptBlock(l, r, c)` of block.go. -/
def encryptBlock (c : Blowfish) (l r : UInt32) : UInt32 × UInt32 :=
  encryptBlockT c.p c.s0 c.s1 c.s2 c.s3 l r

/-- `getNextWord(b, &pos)` of block.go: next big-endian word, cycling through `b`; returns the word and
the updated position. -/
@[inline] def getNextWord (b : ByteArray) (pos : Nat) : UInt32 × Nat := Id.run do
  let mut w : UInt32 := 0
  let mut j := pos
  for _ in [0:4] do
    w := (w <<< 8) ||| (b.get! j).toUInt32
    j := j + 1
    if j ≥ b.size then
      j := 0
  return (w, j)

/-- `ExpandKey(key, c)` on a `ByteArray` key. -/
def expandKeyBA (key : ByteArray) (c : Blowfish) : Blowfish := Id.run do
  let ⟨p0, s00, s10, s20, s30⟩ := c
  let mut p := p0
  let mut s0 := s00
  let mut s1 := s10
  let mut s2 := s20
  let mut s3 := s30
  let mut j := 0
  for i in [0:18] do
    let (d, j') := getNextWord key j
    j := j'
    p := p.set! i (p[i]! ^^^ d)
  let mut l : UInt32 := 0
  let mut r : UInt32 := 0
  for k in [0:9] do
    let i := 2 * k
    let (l', r') := encryptBlockT p s0 s1 s2 s3 l r
    l := l'; r := r'
    p := (p.set! i l).set! (i + 1) r
  for k in [0:128] do
    let i := 2 * k
    let (l', r') := encryptBlockT p s0 s1 s2 s3 l r
    l := l'; r := r'
    s0 := (s0.set! i l).set! (i + 1) r
  for k in [0:128] do
    let i := 2 * k
    let (l', r') := encryptBlockT p s0 s1 s2 s3 l r
    l := l'; r := r'
    s1 := (s1.set! i l).set! (i + 1) r
  for k in [0:128] do
    let i := 2 * k
    let (l', r') := encryptBlockT p s0 s1 s2 s3 l r
    l := l'; r := r'
    s2 := (s2.set! i l).set! (i + 1) r
  for k in [0:128] do
    let i := 2 * k
    let (l', r') := encryptBlockT p s0 s1 s2 s3 l r
    l := l'; r := r'
    s3 := (s3.set! i l).set! (i + 1) r
  return { p := p, s0 := s0, s1 := s1, s2 := s2, s3 := s3 }

/-- `expandKeyWithSalt(key, salt, c)` on `ByteArray`s. -/
def expandKeyWithSaltBA (key salt : ByteArray) (c : Blowfish) : Blowfish := Id.run do
  let ⟨p0, s00, s10, s20, s30⟩ := c
  let mut p := p0
  let mut s0 := s00
  let mut s1 := s10
  let mut s2 := s20
  let mut s3 := s30
  let mut j := 0
  for i in [0:18] do
    let (d, j') := getNextWord key j
    j := j'
    p := p.set! i (p[i]! ^^^ d)
  j := 0
  let mut l : UInt32 := 0
  let mut r : UInt32 := 0
  for k in [0:9] do
    let i := 2 * k
    let (w1, j1) := getNextWord salt j
    let (w2, j2) := getNextWord salt j1
    j := j2
    let (l', r') := encryptBlockT p s0 s1 s2 s3 (l ^^^ w1) (r ^^^ w2)
    l := l'; r := r'
    p := (p.set! i l).set! (i + 1) r
  for k in [0:128] do
    let i := 2 * k
    let (w1, j1) := getNextWord salt j
    let (w2, j2) := getNextWord salt j1
    j := j2
    let (l', r') := encryptBlockT p s0 s1 s2 s3 (l ^^^ w1) (r ^^^ w2)
    l := l'; r := r'
    s0 := (s0.set! i l).set! (i + 1) r
  for k in [0:128] do
    let i := 2 * k
    let (w1, j1) := getNextWord salt j
    let (w2, j2) := getNextWord salt j1
    j := j2
    let (l', r') := encryptBlockT p s0 s1 s2 s3 (l ^^^ w1) (r ^^^ w2)
    l := l'; r := r'
    s1 := (s1.set! i l).set! (i + 1) r
  for k in [0:128] do
    let i := 2 * k
    let (w1, j1) := getNextWord salt j
    let (w2, j2) := getNextWord salt j1
    j := j2
    let (l', r') := encryptBlockT p s0 s1 s2 s3 (l ^^^ w1) (r ^^^ w2)
    l := l'; r := r'
    s2 := (s2.set! i l).set! (i + 1) r
  for k in [0:128] do
    let i := 2 * k
    let (w1, j1) := getNextWord salt j
    let (w2, j2) := getNextWord salt j1
    j := j2
    let (l', r') := encryptBlockT p s0 s1 s2 s3 (l ^^^ w1) (r ^^^ w2)
    l := l'; r := r'
    s3 := (s3.set! i l).set! (i + 1) r
  return { p := p, s0 := s0, s1 := s1, s2 := s2, s3 := s3 }

/-- `blowfish.ExpandKey(key, c)` (key non-empty). -/
def expandKey (key : Bytes) (c : Blowfish) : Blowfish :=
  expandKeyBA (bytesToByteArray key) c

/-- `expandKeyWithSalt(key, salt, c)` of block.go (key, salt non-empty). -/
def expandKeyWithSalt (key salt : Bytes) (c : Blowfish) : Blowfish :=
  expandKeyWithSaltBA (bytesToByteArray key) (bytesToByteArray salt) c

/-- `blowfish.NewSaltedCipher(key, salt)` for `1 ≤ len(key)`; with an empty salt it is `NewCipher`
(`initCipher` then `ExpandKey`), without the 56-byte key length check. -/
def newSaltedCipher (key salt : Bytes) : Blowfish :=
  if salt.isEmpty then
    expandKey key init
  else
    expandKeyWithSalt key salt init

/-- `c.Encrypt(dst, src)` on one 8-byte block; returns `dst[0:8]`. Missing source bytes read as 0
(Go would panic). -/
def encrypt8 (c : Blowfish) (src : Bytes) : Bytes :=
  let b (i : Nat) : UInt32 := (src.getD i 0).toUInt32
  let l := (b 0 <<< 24) ||| (b 1 <<< 16) ||| (b 2 <<< 8) ||| b 3
  let r := (b 4 <<< 24) ||| (b 5 <<< 16) ||| (b 6 <<< 8) ||| b 7
  let (l, r) := encryptBlock c l r
  [(l >>> 24).toUInt8, (l >>> 16).toUInt8, (l >>> 8).toUInt8, l.toUInt8,
   (r >>> 24).toUInt8, (r >>> 16).toUInt8, (r >>> 8).toUInt8, r.toUInt8]

end Blowfish
end GoCrypt.Prim
