import GoCrypt.Prim.Util

/-! SHA-1 (FIPS 180-4) and HMAC-SHA1 (RFC 2104). -/

namespace GoCrypt.Prim

structure SHA1State where
  h0 : UInt32
  h1 : UInt32
  h2 : UInt32
  h3 : UInt32
  h4 : UInt32

def sha1Init : SHA1State := ⟨0x67452301, 0xefcdab89, 0x98badcfe, 0x10325476, 0xc3d2e1f0⟩

def sha1Block (st : SHA1State) (buf : ByteArray) (off : Nat) : SHA1State := Id.run do
  let mut w : Array UInt32 := Array.mkEmpty 80
  for j in [0:16] do
    w := w.push (be32 buf (off + 4 * j))
  for j in [16:80] do
    w := w.push (rotl32 (w[j-3]! ^^^ w[j-8]! ^^^ w[j-14]! ^^^ w[j-16]!) 1)
  let mut a := st.h0
  let mut b := st.h1
  let mut c := st.h2
  let mut d := st.h3
  let mut e := st.h4
  for i in [0:80] do
    let r := i / 20
    let f : UInt32 :=
      if r == 0 then (b &&& c) ||| (~~~b &&& d)
      else if r == 1 then b ^^^ c ^^^ d
      else if r == 2 then (b &&& c) ||| (b &&& d) ||| (c &&& d)
      else b ^^^ c ^^^ d
    let k : UInt32 :=
      if r == 0 then 0x5a827999
      else if r == 1 then 0x6ed9eba1
      else if r == 2 then 0x8f1bbcdc
      else 0xca62c1d6
    let t := rotl32 a 5 + f + e + k + w[i]!
    e := d
    d := c
    c := rotl32 b 30
    b := a
    a := t
  return ⟨st.h0 + a, st.h1 + b, st.h2 + c, st.h3 + d, st.h4 + e⟩

def sha1BA (msg : ByteArray) : ByteArray :=
  let p := pad64 msg true
  let st := Nat.fold (p.size / 64) (fun i _ st => sha1Block st p (64 * i)) sha1Init
  pushBE32 (pushBE32 (pushBE32 (pushBE32 (pushBE32 (ByteArray.emptyWithCapacity 20)
    st.h0) st.h1) st.h2) st.h3) st.h4

/-- SHA-1 digest (20 bytes). -/
def sha1 (msg : Bytes) : Bytes := baToBytes (sha1BA (bytesToBA msg))

def hmacSha1BA (key msg : ByteArray) : ByteArray :=
  let k0 := if key.size > 64 then sha1BA key else key
  let k := pushZeros k0 (64 - k0.size)
  let ipad : ByteArray := Nat.fold 64 (fun i _ acc => acc.push (k.get! i ^^^ 0x36))
    (ByteArray.emptyWithCapacity (64 + msg.size))
  let opad : ByteArray := Nat.fold 64 (fun i _ acc => acc.push (k.get! i ^^^ 0x5c))
    (ByteArray.emptyWithCapacity 84)
  sha1BA (opad ++ sha1BA (ipad ++ msg))

/-- HMAC-SHA1 (RFC 2104): block size 64; keys longer than 64 bytes are hashed first. -/
def hmacSha1 (key msg : Bytes) : Bytes :=
  baToBytes (hmacSha1BA (bytesToBA key) (bytesToBA msg))

end GoCrypt.Prim
