import GoCrypt.Prim.Util

/-! MD4 (RFC 1320). -/

namespace GoCrypt.Prim

/-- Message-word index used at each of the 48 steps. -/
def md4X : Array Nat := #[
  0, 1, 2, 3, 4, 5, 6, 7, 8, 9, 10, 11, 12, 13, 14, 15,
  0, 4, 8, 12, 1, 5, 9, 13, 2, 6, 10, 14, 3, 7, 11, 15,
  0, 8, 4, 12, 2, 10, 6, 14, 1, 9, 5, 13, 3, 11, 7, 15]

/-- Left-rotation amount at each of the 48 steps. -/
def md4S : Array UInt32 := #[
  3, 7, 11, 19, 3, 7, 11, 19, 3, 7, 11, 19, 3, 7, 11, 19,
  3, 5,  9, 13, 3, 5,  9, 13, 3, 5,  9, 13, 3, 5,  9, 13,
  3, 9, 11, 15, 3, 9, 11, 15, 3, 9, 11, 15, 3, 9, 11, 15]

structure MD4State where
  a : UInt32
  b : UInt32
  c : UInt32
  d : UInt32

def md4Init : MD4State := ⟨0x67452301, 0xefcdab89, 0x98badcfe, 0x10325476⟩

def md4Block (st : MD4State) (buf : ByteArray) (off : Nat) : MD4State := Id.run do
  let mut x : Array UInt32 := Array.mkEmpty 16
  for j in [0:16] do
    x := x.push (le32 buf (off + 4 * j))
  let mut a := st.a
  let mut b := st.b
  let mut c := st.c
  let mut d := st.d
  for i in [0:48] do
    let r := i / 16
    let f : UInt32 :=
      if r == 0 then (b &&& c) ||| (~~~b &&& d)
      else if r == 1 then (b &&& c) ||| (b &&& d) ||| (c &&& d)
      else b ^^^ c ^^^ d
    let k : UInt32 :=
      if r == 0 then 0
      else if r == 1 then 0x5a827999
      else 0x6ed9eba1
    let t := rotl32 (a + f + x[md4X[i]!]! + k) md4S[i]!
    a := d
    d := c
    c := b
    b := t
  return ⟨st.a + a, st.b + b, st.c + c, st.d + d⟩

def md4BA (msg : ByteArray) : ByteArray :=
  let p := pad64 msg false
  let st := Nat.fold (p.size / 64) (fun i _ st => md4Block st p (64 * i)) md4Init
  pushLE32 (pushLE32 (pushLE32 (pushLE32 (ByteArray.emptyWithCapacity 16) st.a) st.b) st.c) st.d

/-- MD4 digest (16 bytes). -/
def md4 (msg : Bytes) : Bytes := baToBytes (md4BA (bytesToBA msg))

end GoCrypt.Prim
