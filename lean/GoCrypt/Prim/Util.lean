import GoCrypt.Base.Bytes
/-
  Byte-level helpers shared by the hash primitives.
  Core Lean only; everything is total.
-/



namespace GoCrypt.Prim

@[inline] def bytesToBA (l : Bytes) : ByteArray := ByteArray.mk l.toArray

@[inline] def baToBytes (b : ByteArray) : Bytes := b.toList

@[inline] def rotl32 (x n : UInt32) : UInt32 := (x <<< n) ||| (x >>> (32 - n))
@[inline] def rotr32 (x n : UInt32) : UInt32 := (x >>> n) ||| (x <<< (32 - n))
@[inline] def rotr64 (x n : UInt64) : UInt64 := (x >>> n) ||| (x <<< (64 - n))

/-- Little-endian 32-bit load at byte offset `o`. -/
@[inline] def le32 (b : ByteArray) (o : Nat) : UInt32 :=
  (b.get! o).toUInt32 ||| ((b.get! (o+1)).toUInt32 <<< 8) |||
  ((b.get! (o+2)).toUInt32 <<< 16) ||| ((b.get! (o+3)).toUInt32 <<< 24)

/-- Big-endian 32-bit load at byte offset `o`. -/
@[inline] def be32 (b : ByteArray) (o : Nat) : UInt32 :=
  ((b.get! o).toUInt32 <<< 24) ||| ((b.get! (o+1)).toUInt32 <<< 16) |||
  ((b.get! (o+2)).toUInt32 <<< 8) ||| (b.get! (o+3)).toUInt32

/-- Big-endian 64-bit load at byte offset `o`. -/
@[inline] def be64 (b : ByteArray) (o : Nat) : UInt64 :=
  ((b.get! o).toUInt64 <<< 56) ||| ((b.get! (o+1)).toUInt64 <<< 48) |||
  ((b.get! (o+2)).toUInt64 <<< 40) ||| ((b.get! (o+3)).toUInt64 <<< 32) |||
  ((b.get! (o+4)).toUInt64 <<< 24) ||| ((b.get! (o+5)).toUInt64 <<< 16) |||
  ((b.get! (o+6)).toUInt64 <<< 8) ||| (b.get! (o+7)).toUInt64

@[inline] def pushLE32 (b : ByteArray) (x : UInt32) : ByteArray :=
  (((b.push x.toUInt8).push (x >>> 8).toUInt8).push (x >>> 16).toUInt8).push (x >>> 24).toUInt8

@[inline] def pushBE32 (b : ByteArray) (x : UInt32) : ByteArray :=
  (((b.push (x >>> 24).toUInt8).push (x >>> 16).toUInt8).push (x >>> 8).toUInt8).push x.toUInt8

@[inline] def pushLE64 (b : ByteArray) (x : UInt64) : ByteArray :=
  pushLE32 (pushLE32 b x.toUInt32) (x >>> 32).toUInt32

@[inline] def pushBE64 (b : ByteArray) (x : UInt64) : ByteArray :=
  pushBE32 (pushBE32 b (x >>> 32).toUInt32) x.toUInt32

def pushZeros (b : ByteArray) (n : Nat) : ByteArray :=
  Nat.fold n (fun _ _ acc => acc.push 0) b

/-- Merkle–Damgård padding for 64-byte-block hashes: `0x80`, zeros up to 56 mod 64,
    then the 64-bit message bit length (little endian for MD4/MD5, big endian for SHA-1/256). -/
def pad64 (msg : ByteArray) (bigEndian : Bool) : ByteArray :=
  let len := msg.size
  let out := pushZeros (msg.push 0x80) ((119 - len % 64) % 64)
  let bits : UInt64 := (len * 8).toUInt64
  if bigEndian then pushBE64 out bits else pushLE64 out bits

/-- Padding for 128-byte-block hashes (SHA-512): `0x80`, zeros up to 112 mod 128,
    then the 128-bit big-endian message bit length. -/
def pad128 (msg : ByteArray) : ByteArray :=
  let len := msg.size
  let out := pushZeros (msg.push 0x80) ((239 - len % 128) % 128)
  let bits := len * 8
  pushBE64 (pushBE64 out (bits >>> 64).toUInt64) bits.toUInt64

end GoCrypt.Prim
