import GoCrypt.Prim.Util

/-! MD5 (RFC 1321). -/

namespace GoCrypt.Prim

/-- `K[i] = floor(2^32 * |sin (i+1)|)`. -/
def md5K : Array UInt32 := #[
  0xd76aa478, 0xe8c7b756, 0x242070db, 0xc1bdceee,
  0xf57c0faf, 0x4787c62a, 0xa8304613, 0xfd469501,
  0x698098d8, 0x8b44f7af, 0xffff5bb1, 0x895cd7be,
  0x6b901122, 0xfd987193, 0xa679438e, 0x49b40821,
  0xf61e2562, 0xc040b340, 0x265e5a51, 0xe9b6c7aa,
  0xd62f105d, 0x02441453, 0xd8a1e681, 0xe7d3fbc8,
  0x21e1cde6, 0xc33707d6, 0xf4d50d87, 0x455a14ed,
  0xa9e3e905, 0xfcefa3f8, 0x676f02d9, 0x8d2a4c8a,
  0xfffa3942, 0x8771f681, 0x6d9d6122, 0xfde5380c,
  0xa4beea44, 0x4bdecfa9, 0xf6bb4b60, 0xbebfbc70,
  0x289b7ec6, 0xeaa127fa, 0xd4ef3085, 0x04881d05,
  0xd9d4d039, 0xe6db99e5, 0x1fa27cf8, 0xc4ac5665,
  0xf4292244, 0x432aff97, 0xab9423a7, 0xfc93a039,
  0x655b59c3, 0x8f0ccc92, 0xffeff47d, 0x85845dd1,
  0x6fa87e4f, 0xfe2ce6e0, 0xa3014314, 0x4e0811a1,
  0xf7537e82, 0xbd3af235, 0x2ad7d2bb, 0xeb86d391]

/-- Per-step left-rotation amounts. -/
def md5S : Array UInt32 := #[
  7, 12, 17, 22, 7, 12, 17, 22, 7, 12, 17, 22, 7, 12, 17, 22,
  5,  9, 14, 20, 5,  9, 14, 20, 5,  9, 14, 20, 5,  9, 14, 20,
  4, 11, 16, 23, 4, 11, 16, 23, 4, 11, 16, 23, 4, 11, 16, 23,
  6, 10, 15, 21, 6, 10, 15, 21, 6, 10, 15, 21, 6, 10, 15, 21]

structure MD5State where
  a : UInt32
  b : UInt32
  c : UInt32
  d : UInt32

def md5Init : MD5State := ⟨0x67452301, 0xefcdab89, 0x98badcfe, 0x10325476⟩

/-- Process the 64-byte block of `buf` starting at byte offset `off`. -/
def md5Block (st : MD5State) (buf : ByteArray) (off : Nat) : MD5State := Id.run do
  let mut x : Array UInt32 := Array.mkEmpty 16
  for j in [0:16] do
    x := x.push (le32 buf (off + 4 * j))
  let mut a := st.a
  let mut b := st.b
  let mut c := st.c
  let mut d := st.d
  for i in [0:64] do
    let r := i / 16
    let f : UInt32 :=
      if r == 0 then (b &&& c) ||| (~~~b &&& d)
      else if r == 1 then (d &&& b) ||| (~~~d &&& c)
      else if r == 2 then b ^^^ c ^^^ d
      else c ^^^ (b ||| ~~~d)
    let g : Nat :=
      if r == 0 then i
      else if r == 1 then (5 * i + 1) % 16
      else if r == 2 then (3 * i + 5) % 16
      else (7 * i) % 16
    let t := a + f + md5K[i]! + x[g]!
    let nb := b + rotl32 t md5S[i]!
    a := d
    d := c
    c := b
    b := nb
  return ⟨st.a + a, st.b + b, st.c + c, st.d + d⟩

def md5BA (msg : ByteArray) : ByteArray :=
  let p := pad64 msg false
  let st := Nat.fold (p.size / 64) (fun i _ st => md5Block st p (64 * i)) md5Init
  pushLE32 (pushLE32 (pushLE32 (pushLE32 (ByteArray.emptyWithCapacity 16) st.a) st.b) st.c) st.d

/-- MD5 digest (16 bytes). -/
def md5 (msg : Bytes) : Bytes := baToBytes (md5BA (bytesToBA msg))

end GoCrypt.Prim
