import GoCrypt.Proofs.SIRDecNfrLoop

/-!
# Stream IR, decoder side: `NewDecoder` and how a model state `DecSt` sits in the world

Helper definitions and lemmas only; the property theorems are in `Props/SIRDecoder.lean`.
-/

namespace GoCrypt.SIR
open GoCrypt.B64IR (Buf Heap Slice Res sliceBytes writeList writeList_size writeList_append heap_set_self heap_lt_of_get)
open GoCrypt.Base64LE GoCrypt.Stream GoCrypt.Gen.base64leStream

/-- The Go struct `decoder`: fields in declaration order. -/
def decObj (err readErr : Option Nat) (ae nf bb nbuf : Nat) (ow : Slice) (bo : Nat) : Obj :=
  ⟨"decoder", [.err err, .err readErr, .ptr ae, .ptr nf, .slice ⟨bb, 0, 1024, 1024⟩, .int nbuf, .slice ow, .slice ⟨bo, 0, 768, 768⟩]⟩

/-- `NewDecoder(enc, r)` for any meaning of calls (it calls nothing). -/
theorem newDecoder_proc (c : Ctx) (H : Heap) (O : List Obj) (X : List Ext) (ae k : Nat) :
    execProc c newDecoderIR ⟨H, O, X⟩ [.ptr ae, .ext k] =
      .ok (⟨H ++ [Array.replicate 1024 0, Array.replicate 768 0],
            O ++ [nfrObj k, decObj none none ae O.length H.length 0 ⟨0, 0, 0, 0⟩ (H.length + 1)], X⟩, [.ptr (O.length + 1)]) := by
  rw [execProc_eq c newDecoderIR _ _ rfl]
  simp only [newDecoderIR]
  b64_simp [evalInits]
  simp [nfrObj, decObj]

/-! ## The representation relation -/

/-- Where the parts of a decoder live: decoder object `d`, encoding object `ae` with arrays `b1`, `b2`, filtering-reader
object `nf`, external reader `k`, buffer `bb` of the field `buf`, buffer `bo` of the field `outbuf`. -/
structure DecLay where
  d : Nat
  ae : Nat
  b1 : Nat
  b2 : Nat
  nf : Nat
  k : Nat
  bb : Nat
  bo : Nat

/-- World `W` holds a decoder in model state `st` (encoding `e`) at layout `L`; `ow` is the current value of the field
`out` (a window of `outbuf` whenever it is not empty). -/
structure DecRep (L : DecLay) (e : Encoding) (ow : Slice) (st : DecSt) (W : World) : Prop where
  enc : EncAt W.heap W.objs L.ae L.b1 L.b2 e
  nfr : W.objs[L.nf]? = some (nfrObj L.k)
  rdr : W.exts[L.k]? = some (readerOf st)
  obj : W.objs[L.d]? = some (decObj st.err st.readErr L.ae L.nf L.bb st.buf.length ow L.bo)
  nbuf : st.buf.length ≤ 1024
  buf : ∃ Bb, W.heap[L.bb]? = some Bb ∧ Bb.size = 1024 ∧ Bb.toList.take st.buf.length = st.buf
  outbuf : ∃ Bo, W.heap[L.bo]? = some Bo ∧ Bo.size = 768
  outLen : ow.len = st.out.length
  outCap : ow.len ≤ ow.cap
  out : st.out ≠ [] → ow.buf = L.bo ∧ sliceBytes W.heap ow = some st.out
  ne_bb_bo : L.bb ≠ L.bo
  ne_b1_bb : L.b1 ≠ L.bb
  ne_b1_bo : L.b1 ≠ L.bo
  ne_b2_bb : L.b2 ≠ L.bb
  ne_b2_bo : L.b2 ≠ L.bo
  ne_d_ae : L.d ≠ L.ae
  ne_d_nf : L.d ≠ L.nf

theorem getElem?_append_length {α : Type} (l : List α) (a : α) (r : List α) : (l ++ a :: r)[l.length]? = some a := by
  simp

/-- The world `NewDecoder` builds holds the initial model state with the given script. -/
theorem newDecoder_rep (H : Heap) (O : List Obj) (X : List Ext) (ae b1 b2 k : Nat) (e : Encoding) (st : DecSt)
    (henc : EncAt H O ae b1 b2 e) (hk : X[k]? = some (readerOf st))
    (h0 : st.err = none ∧ st.readErr = none ∧ st.buf = [] ∧ st.out = []) :
    DecRep ⟨O.length + 1, ae, b1, b2, O.length, k, H.length, H.length + 1⟩ e ⟨0, 0, 0, 0⟩ st
      ⟨H ++ [Array.replicate 1024 0, Array.replicate 768 0],
        O ++ [nfrObj k, decObj none none ae O.length H.length 0 ⟨0, 0, 0, 0⟩ (H.length + 1)], X⟩ := by
  obtain ⟨he, hr, hbuf, hout⟩ := h0
  have hae := lt_of_getElem? henc.obj
  have hb1 := heap_lt_of_get henc.alpha
  have hb2 := heap_lt_of_get henc.dmap
  refine ⟨henc.mono _ _ ?_ ?_ ?_, ?_, hk, ?_, by simp [hbuf], ⟨Array.replicate 1024 0, ?_, by simp, by simp [hbuf]⟩,
    ⟨Array.replicate 768 0, ?_, by simp⟩, by simp [hout], by simp, fun h => absurd hout h, ?_, ?_, ?_, ?_, ?_, ?_, ?_⟩
  · exact List.getElem?_append_left hae
  · exact List.getElem?_append_left hb1
  · exact List.getElem?_append_left hb2
  · exact getElem?_append_length O _ _
  · show (O ++ [nfrObj k, _])[O.length + 1]? = _
    rw [List.getElem?_append_right (by omega)]
    simp [he, hr, hbuf]
  · exact getElem?_append_length H _ _
  · show (H ++ [_, _])[H.length + 1]? = _
    rw [List.getElem?_append_right (by omega)]
    simp
  all_goals (simp only [ne_eq]; omega)

end GoCrypt.SIR
