import GoCrypt.Proofs.CodecIRMain

/-!
# Codec IR: the call specifications hold inside the program; the primitives' witnesses

Helper lemmas only.
-/

namespace GoCrypt.CIR
open GoCrypt.Codec GoCrypt.Gen.codecIR
open GoCrypt.TIIR (RType Res kindNum fiType fiObj tiObj encVal optsVals Reps RepOpt)

theorem marshalSpec_callIn (w : World) (hmt : MarshalTextSpec w.marshalText) (d : Nat) :
    MarshalSpec (w.ctx (callIn program w (d + 1))) := by
  constructor
  · intro m t t0 a fi fv g0 h hd hk0 hm0 hbase hv hc
    simp only [World.ctx]
    rw [callIn_succ program w d 2 m _ marshalIR (by rfl)]
    exact marshal_spec (w.ctx (callIn program w d)) hmt m t t0 a fi fv g0 h hd hk0 hm0 hbase hv hc
  · intro m t fi
    simp only [World.ctx]
    rw [callIn_succ program w d 2 m _ marshalIR (by rfl)]
    exact marshal_invalid _ m t fi

/-- Inside a call of the program at depth `d + 2`, functions 1, 3, 4 are `marshalValue`, `indirect`, `isEmpty`. -/
theorem callSpecs_callIn (w : World) (hidx : IndexAnyInvalidSpec w.indexAnyInvalid) (hmt : MarshalTextSpec w.marshalText) (d : Nat) :
    CallSpecs (w.ctx (callIn program w (d + 2))) := by
  refine ⟨⟨?_, ?_⟩, ?_, ⟨?_, ?_⟩⟩
  · intro m t g0 ro ht
    simp only [World.ctx]
    rw [callIn_succ program w (d + 1) 3 m _ indirectIR (by rfl)]
    exact indirect_chain _ m t g0 ro ht
  · intro m t ro hd hf
    simp only [World.ctx]
    rw [callIn_succ program w (d + 1) 3 m _ indirectIR (by rfl)]
    exact indirect_nil _ m t ro hd hf
  · intro m fi fv g ro hrep hom
    simp only [World.ctx]
    rw [callIn_succ program w (d + 1) 4 m _ isEmptyIR (by rfl)]
    exact isEmpty_spec _ m fi fv g ro hrep hom
  · intro m t t0 a fi fv g0 h hd hk0 hm0 hbase hv hc
    simp only [World.ctx]
    rw [callIn_succ program w (d + 1) 1 m _ marshalValueIR (by rfl)]
    exact marshalValue_spec _ (marshalSpec_callIn w hmt d) hidx m t t0 a fi fv g0 h hd hk0 hm0 hbase hv hc
  · intro m t a fi h
    simp only [World.ctx]
    rw [callIn_succ program w (d + 1) 1 m _ marshalValueIR (by rfl)]
    exact marshalValue_nil _ (marshalSpec_callIn w hmt d) hidx m t a fi h

/-! ## The witness of `IndexAnyInvalidSpec` -/

theorem findIdx_find {α : Type} (p : α → Bool) : ∀ (l : List α),
    (l.find? p = none → l.findIdx? p = none) ∧
    (∀ c, l.find? p = some c → ∃ i, l.findIdx? p = some i ∧ l[i]? = some c)
  | [] => by simp
  | x :: xs => by
    obtain ⟨h1, h2⟩ := findIdx_find p xs
    by_cases hx : p x
    · simp [List.find?_cons, List.findIdx?_cons, hx]
    · simp only [List.find?_cons, List.findIdx?_cons, hx]
      constructor
      · intro h; simp [h1 h]
      · intro c hc
        obtain ⟨i, hi, hg⟩ := h2 c hc
        exact ⟨i + 1, by simp [hi], by simpa using hg⟩

theorem indexAnyInvalidRef_spec : IndexAnyInvalidSpec indexAnyInvalidRef := by
  constructor
  · intro e n s hn hf
    cases e <;> simp only [encName, Option.some.injEq, reduceCtorEq] at hn <;> subst hn <;>
      simp only [firstInvalid, alphabetOf] at hf <;>
      simp only [indexAnyInvalidRef, ↓reduceIte, String.reduceEq] <;>
      rw [(findIdx_find _ s).1 hf] <;> decide
  · intro e n s ch hn hf
    cases e <;> simp only [encName, Option.some.injEq, reduceCtorEq] at hn <;> subst hn <;>
      simp only [firstInvalid, alphabetOf] at hf <;>
      (obtain ⟨i, hi, hg⟩ := (findIdx_find _ s).2 ch hf
       simp only [indexAnyInvalidRef, ↓reduceIte, String.reduceEq]
       rw [hi]
       exact ⟨by simp, by simpa using hg⟩)

end GoCrypt.CIR
