import GoCrypt.Proofs.DesLay
import GoCrypt.Proofs.DesIter

/-!
# The table-driven DES of the Go code is FIPS 46-3 DES (with the crypt(3) salt)

Pieces, each for all inputs, from kernel-checked table facts:

* `ip_left/ip_right`: `ie3264` after the bit-interleaving shuffles = E ∘ (left/right half of IP);
* `fp_eq`: `cf6464` after the nibble shuffles = IP⁻¹ of the two halves read back from E layout;
* `spe_sbox`, `speXor_lay`: every `spe` entry is `E(P(Sᵢ(·)))`, and the eight XORed lookups are
  `E(P(S1..S8(·)))`;
* `salt_mix`: the two-shift salt trick exchanges E outputs `i` and `i + 24` for the set salt bits;
* `ks_*`: `pc1Rot`, `pc2RotA`, `pc2RotB` implement PC-1, the left shifts and PC-2;
* `encrypt_eq_fips`: `Encrypt(key, block, salt, 1) = DesFips.desWord key salt block`.
-/

set_option maxRecDepth 100000

namespace GoCrypt.DesEq
open GoCrypt.Kdf GoCrypt.Bits GoCrypt.Kdf.Des GoCrypt.Gen.des_descrypt GoCrypt.DesFips GoCrypt.DesIter

/-- The E-expanded layout of the Go code: E output `6g + k` (0-based, `k < 6`) is bit `58 - 8g + k`. -/
def posE : Route := fun j => if 2 ≤ j % 8 then some (6 * (7 - j / 8) + (j % 8 - 2)) else none

/-- A 32-bit half in E-expanded layout. -/
def eLay (h : Bits) : UInt64 := lay posE (select E h)

/-! ## Initial permutation -/

theorem lrIP_L : LR (fun b => select E ((select IP b).take 32)) (lsel E 32 (ltake 32 (lsel IP 64 rid))) 64 48 :=
  (((LR.id 64).select IP).take 32 (by decide)).select E
theorem lrIP_R : LR (fun b => select E ((select IP b).drop 32)) (lsel E 32 (ldrop 32 (lsel IP 64 rid))) 64 48 :=
  (((LR.id 64).select IP).drop 32 (by decide)).select E

theorem ip_left (x : UInt64) : ie (f1 x) = eLay ((select IP (wordBits x)).take 32) := by
  unfold eLay
  rw [lrIP_L.lay posE _ (wordBits_length x)]
  exact (rIE.comp rF1).eq (isRoute_lay_wordBits _) (by decide +kernel) x

theorem ip_right (x : UInt64) : ie (f2 x) = eLay ((select IP (wordBits x)).drop 32) := by
  unfold eLay
  rw [lrIP_R.lay posE _ (wordBits_length x)]
  exact (rIE.comp rF2).eq (isRoute_lay_wordBits _) (by decide +kernel) x

/-! ## Final permutation -/

theorem lrE : LR (fun b => select E b) (lsel E 32 rid) 32 48 := (LR.id 32).select E
theorem lrFP : LR (fun b => select FP b) (lsel FP 64 rid) 64 64 := (LR.id 64).select FP

theorem fp_eq (A B : Bits) (hA : A.length = 32) (hB : B.length = 32) :
    fpPair (eLay A, eLay B) = bitsWord (select FP (A ++ B)) := by
  have hAB : (A ++ B).length = 64 := by simp [hA, hB]
  unfold fpPair eLay
  simp only []
  rw [rCF.map_or, (rCF.comp rCombL).lay posE, (rCF.comp rCombR).lay posE, lrE.lay _ A hA, lrE.lay _ B hB,
    bitsWord_eq_lay _ (by unfold DesFips.select; rw [List.length_map]; rfl), lrFP.lay _ _ hAB, lay_append _ A B 32 hA]
  refine congr (congrArg HOr.hOr (lay_congr ?_ A)) (lay_congr ?_ B) <;> decide +kernel


/-! ## S-boxes -/

theorem lay_nil (ρ : Route) : lay ρ [] = 0 := by
  apply ext; intro j hj; rw [bit_lay _ _ j hj]; cases ρ j <;> simp

def lo (n : Nat) (ρ : Route) : Route := fun j => match ρ j with | some e => if e < n then some e else none | none => none
def hi (n : Nat) (ρ : Route) : Route := fun j => match ρ j with | some e => if n ≤ e then some (e - n) else none | none => none

/-- A layout of `a ++ b` is the XOR (= OR: the parts are disjoint) of layouts of the parts. -/
theorem lay_append_xor (ρ : Route) (a b : Bits) (n : Nat) (ha : a.length = n) :
    lay ρ (a ++ b) = lay (lo n ρ) a ^^^ lay (hi n ρ) b := by
  rw [lay_append ρ a b n ha]
  unfold lo hi
  apply ext; intro j hj
  rw [bit_or, bit_xor, bit_lay _ _ j hj, bit_lay _ _ j hj, bit_lay _ _ j hj, bit_lay _ _ j hj]
  cases ρ j with
  | none => rfl
  | some e =>
    by_cases he : e < n
    · have : ¬ n ≤ e := by omega
      simp [he, this]
    · have : n ≤ e := by omega
      simp [he, this]

/-- index into the 32 S-box output bits, for a word in E layout holding `E(P(·))` -/
def rhoPE : Route := rlay (rlay posE 48 (lsel E 32 rid)) 32 (lsel P 32 rid)

theorem lay_PE (C : Bits) (hC : C.length = 32) : lay posE (select E (select P C)) = lay rhoPE C := by
  have lrP : LR (fun b => select P b) (lsel P 32 rid) 32 32 := (LR.id 32).select P
  have lrE : LR (fun b => select E b) (lsel E 32 rid) 32 48 := (LR.id 32).select E
  rw [lrE.lay posE _ (lrP C hC).1, lrP.lay _ _ hC]; rfl

def hiN : Nat → Route
  | 0 => rhoPE
  | g + 1 => hi 4 (hiN g)

/-- layout of the 4 output bits of box `g` -/
def rhoS (g : Nat) : Route := lo 4 (hiN g)

/-- the six bits `b1..b6` of an index into `spe`: least significant bit first -/
def sixOf (v : Nat) : Bits := (List.range 6).map v.testBit

/-- **Every `spe` entry is `E(P(S-box output))` in the Go layout** (8 boxes × 64 inputs × 64 bits):
entry `(g, v)` holds the four output bits of `S(g+1)` on input `b1..b6` = the binary digits of `v`,
least significant first, sent through P and E. -/
theorem spe_sbox : ∀ g, g < 8 → ∀ v, v < 64 → ∀ j, j < 64 →
    (spe.getD (g * 64 + v) 0).testBit j =
      (match rhoS g j with | some m => (sbox g (sixOf v)).getD m false | none => false) := by
  decide +kernel


theorem natOfBits_lt (l : List Bool) : natOfBits l < 2 ^ l.length := by
  induction l with
  | nil => simp [natOfBits]
  | cons b bs ih => simp only [natOfBits, List.length_cons, Nat.pow_succ]; cases b <;> simp <;> omega

theorem sixOf_natOfBits (six : Bits) (h : six.length = 6) : sixOf (natOfBits six) = six := by
  match six, h with
  | [a, b, c, d, e, f], _ =>
    unfold sixOf
    simp only [show List.range 6 = [0, 1, 2, 3, 4, 5] from rfl, List.map_cons, List.map_nil, natOfBits_testBit]
    rfl

/-- six consecutive bits of a word, as a number -/
theorem six_bits (w : UInt64) (s : Nat) (hs : s < 64) :
    ((w >>> UInt64.ofNat s) &&& 0x3F).toNat = natOfBits ((List.range 6).map fun k => bit w (s + k)) := by
  apply Nat.eq_of_testBit_eq
  intro k
  rw [natOfBits_testBit, UInt64.toNat_and, Nat.testBit_and, UInt64.toNat_shiftRight, Nat.testBit_shiftRight]
  have e1 : (UInt64.ofNat s).toNat % 64 = s := by rw [UInt64.toNat_ofNat']; omega
  have e2 : (UInt64.toNat 63).testBit k = decide (k < 6) := by
    show (2 ^ 6 - 1).testBit k = _
    exact Nat.testBit_two_pow_sub_one 6 k
  rw [e1, e2]
  by_cases hk : k < 6
  · simp [hk, List.getD_eq_getElem?_getD, bit]
  · simp [hk, List.getD_eq_getElem?_getD]

theorem drop_take6 (y : Bits) (n : Nat) (h : n + 6 ≤ y.length) :
    (y.drop n).take 6 = (List.range 6).map fun k => y.getD (n + k) false := by
  apply List.ext_getElem
  · simp; omega
  · intro i h1 h2
    simp only [List.length_map, List.length_range] at h2
    simp [List.getElem_take, List.getElem_drop, List.getD_eq_getElem?_getD, List.getElem?_eq_getElem (by omega : n + i < y.length)]

/-- the index of box `g` read from a word in E layout is the number with digits `y[6g..6g+5]`, first digit lowest -/
theorem idx_eq (y : Bits) (hy : y.length = 48) (g : Nat) (hg : g < 8) :
    ((lay posE y >>> UInt64.ofNat (58 - 8 * g)) &&& 0x3F).toNat = natOfBits ((y.drop (6 * g)).take 6) := by
  rw [six_bits _ _ (by omega), drop_take6 y (6 * g) (by omega)]
  congr 1
  apply List.map_congr_left
  intro k hk
  have hk : k < 6 := List.mem_range.1 hk
  rw [bit_lay _ _ _ (by omega)]
  have : posE (58 - 8 * g + k) = some (6 * g + k) := by
    unfold posE
    have h1 : (58 - 8 * g + k) % 8 = 2 + k := by omega
    have h2 : (58 - 8 * g + k) / 8 = 7 - g := by omega
    rw [h1, h2, if_pos (by omega)]
    congr 1; omega
  rw [this]


theorem sbox_length (g : Nat) (b : Bits) : (sbox g b).length = 4 := by simp [sbox, DesFips.ofNat]

theorem tbl_spe (g : Nat) (hg : g < 8) (six : Bits) (h6 : six.length = 6) :
    tbl spe (g * 64 + natOfBits six) = lay (rhoS g) (sbox g six) := by
  have hv : natOfBits six < 64 := by have := natOfBits_lt six; rw [h6] at this; exact this
  apply ext; intro j hj
  unfold tbl
  rw [bit_ofNat, bit_lay _ _ j hj, spe_sbox g hg _ hv j hj, sixOf_natOfBits six h6]
  cases rhoS g j <;> simp [hj]

/-- The eight selection functions applied to a 48-bit list, concatenated (the argument of P in FIPS 46). -/
def sboxes (y : Bits) : Bits := (List.range 8).flatMap fun g => sbox g ((y.drop (6 * g)).take 6)

theorem sboxes_length (y : Bits) : (sboxes y).length = 32 := by
  simp [sboxes, sbox_length, List.range_succ]

/-- **The S-box/P step.** On a word holding 48 bits `y` in E layout, the eight `spe` lookups XORed
together are `E(P(S1(y₁..y₆) ‖ … ‖ S8(y₄₃..y₄₈)))` in E layout. -/
theorem speXor_lay (y : Bits) (hy : y.length = 48) :
    speXor (lay posE y) = lay posE (select E (select P (sboxes y))) := by
  have t6 : ∀ g, g < 8 → ((y.drop (6 * g)).take 6).length = 6 := by
    intro g hg; simp; omega
  have i0 : ((lay posE y >>> 58) &&& 0x3F).toNat = natOfBits ((y.drop (6 * 0)).take 6) := idx_eq y hy 0 (by decide)
  have i1 : ((lay posE y >>> 50) &&& 0x3F).toNat = natOfBits ((y.drop (6 * 1)).take 6) := idx_eq y hy 1 (by decide)
  have i2 : ((lay posE y >>> 42) &&& 0x3F).toNat = natOfBits ((y.drop (6 * 2)).take 6) := idx_eq y hy 2 (by decide)
  have i3 : ((lay posE y >>> 34) &&& 0x3F).toNat = natOfBits ((y.drop (6 * 3)).take 6) := idx_eq y hy 3 (by decide)
  have i4 : ((lay posE y >>> 26) &&& 0x3F).toNat = natOfBits ((y.drop (6 * 4)).take 6) := idx_eq y hy 4 (by decide)
  have i5 : ((lay posE y >>> 18) &&& 0x3F).toNat = natOfBits ((y.drop (6 * 5)).take 6) := idx_eq y hy 5 (by decide)
  have i6 : ((lay posE y >>> 10) &&& 0x3F).toNat = natOfBits ((y.drop (6 * 6)).take 6) := idx_eq y hy 6 (by decide)
  have i7 : ((lay posE y >>> 2) &&& 0x3F).toNat = natOfBits ((y.drop (6 * 7)).take 6) := idx_eq y hy 7 (by decide)
  unfold speXor
  rw [i0, i1, i2, i3, i4, i5, i6, i7,
    tbl_spe 0 (by decide) _ (t6 0 (by decide)), tbl_spe 1 (by decide) _ (t6 1 (by decide)),
    tbl_spe 2 (by decide) _ (t6 2 (by decide)), tbl_spe 3 (by decide) _ (t6 3 (by decide)),
    tbl_spe 4 (by decide) _ (t6 4 (by decide)), tbl_spe 5 (by decide) _ (t6 5 (by decide)),
    tbl_spe 6 (by decide) _ (t6 6 (by decide)), tbl_spe 7 (by decide) _ (t6 7 (by decide)),
    lay_PE _ (sboxes_length y)]
  have hs : sboxes y = sbox 0 ((y.drop (6 * 0)).take 6) ++ (sbox 1 ((y.drop (6 * 1)).take 6) ++
      (sbox 2 ((y.drop (6 * 2)).take 6) ++ (sbox 3 ((y.drop (6 * 3)).take 6) ++ (sbox 4 ((y.drop (6 * 4)).take 6) ++
      (sbox 5 ((y.drop (6 * 5)).take 6) ++ (sbox 6 ((y.drop (6 * 6)).take 6) ++
      (sbox 7 ((y.drop (6 * 7)).take 6) ++ []))))))) := rfl
  rw [hs, lay_append_xor _ _ _ 4 (sbox_length _ _), lay_append_xor _ _ _ 4 (sbox_length _ _),
    lay_append_xor _ _ _ 4 (sbox_length _ _), lay_append_xor _ _ _ 4 (sbox_length _ _),
    lay_append_xor _ _ _ 4 (sbox_length _ _), lay_append_xor _ _ _ 4 (sbox_length _ _),
    lay_append_xor _ _ _ 4 (sbox_length _ _), lay_append_xor _ _ _ 4 (sbox_length _ _), lay_nil]
  simp only [UInt64.xor_assoc, UInt64.xor_zero]
  rfl


/-! ## The salt -/

/-- which salt bit ends up at bit `j` of the expanded salt -/
def saltSrc (j : Nat) : Option Nat :=
  if 26 ≤ j ∧ j < 32 then some (j - 26) else if 18 ≤ j ∧ j < 24 then some (j - 12)
  else if 10 ≤ j ∧ j < 16 then some (j + 2) else if 2 ≤ j ∧ j < 8 then some (j + 16) else none

theorem mask_testBit (lo len k : Nat) : ((2 ^ len - 1) <<< lo).testBit k = decide (lo ≤ k ∧ k < lo + len) := by
  rw [Nat.testBit_shiftLeft, Nat.testBit_two_pow_sub_one]
  by_cases h : lo ≤ k
  · have : (k - lo < len) ↔ (k < lo + len) := by omega
    simp [h]; exact this
  · simp [h]


theorem expandSalt_toNat (s : UInt32) : (expandSalt s).toUInt64.toNat =
    ((s.toNat &&& 63) <<< 26 % 2 ^ 32) ||| ((s.toNat &&& 4032) <<< 12 % 2 ^ 32) |||
      ((s.toNat &&& 258048) >>> 2) ||| ((s.toNat &&& 16515072) >>> 16) := by
  unfold expandSalt
  simp only [UInt32.toNat_toUInt64, UInt32.toNat_or, UInt32.toNat_shiftLeft, UInt32.toNat_shiftRight, UInt32.toNat_and]
  rfl


theorem m63 : (63 : Nat) = (2 ^ 6 - 1) <<< 0 := by decide
theorem m4032 : (4032 : Nat) = (2 ^ 6 - 1) <<< 6 := by decide
theorem m258048 : (258048 : Nat) = (2 ^ 6 - 1) <<< 12 := by decide
theorem m16515072 : (16515072 : Nat) = (2 ^ 6 - 1) <<< 18 := by decide

theorem salt64_bit (salt j : Nat) (hj : j < 64) :
    bit (expandSalt (UInt32.ofNat salt)).toUInt64 j = (match saltSrc j with | some i => salt.testBit i | none => false) := by
  unfold bit
  rw [expandSalt_toNat, UInt32.toNat_ofNat']
  simp only [Nat.testBit_or, Nat.testBit_mod_two_pow, Nat.testBit_shiftLeft, Nat.testBit_shiftRight, Nat.testBit_and]
  rw [m63, m4032, m258048, m16515072]
  simp only [mask_testBit]
  unfold saltSrc
  by_cases h1 : 26 ≤ j ∧ j < 32
  · have f1 : j - 26 < 32 := by omega
    have f2 : j - 26 < 6 := by omega
    have f3 : ¬ j - 12 < 12 := by omega
    have f4 : ¬ 2 + j < 18 := by omega
    have f5 : ¬ 16 + j < 24 := by omega
    simp (disch := omega) [h1, f1, f2, f3, f4, f5]
  · by_cases h2 : 18 ≤ j ∧ j < 24
    · have f1 : ¬ 26 ≤ j := by omega
      have f0 : j < 32 := by omega
      have f2 : 12 ≤ j := by omega
      have f3 : j - 12 < 32 := by omega
      have f4 : 6 ≤ j - 12 := by omega
      have f5 : j - 12 < 12 := by omega
      have f6 : ¬ 2 + j < 18 := by omega
      have f7 : ¬ 16 + j < 24 := by omega
      simp (disch := omega) [h2, f0, f1, f2, f3, f4, f5, f6, f7]
    · by_cases h3 : 10 ≤ j ∧ j < 16
      · have f1 : ¬ 26 ≤ j := by omega
        have f2 : ¬ 12 ≤ j ∨ ¬ 6 ≤ j - 12 := by omega
        have f3 : 2 + j < 32 := by omega
        have f4 : 12 ≤ 2 + j := by omega
        have f5 : 2 + j < 18 := by omega
        have f7 : ¬ 16 + j < 24 := by omega
        have f8 : j + 2 = 2 + j := by omega
        rcases f2 with f2 | f2 <;> simp (disch := omega) [h2, h3, f1, f2, f3, f4, f5, f7, f8]
      · by_cases h4 : 2 ≤ j ∧ j < 8
        · have f1 : ¬ 26 ≤ j := by omega
          have f2 : ¬ 12 ≤ j := by omega
          have f3 : ¬ 12 ≤ 2 + j := by omega
          have f4 : 16 + j < 32 := by omega
          have f5 : 18 ≤ 16 + j := by omega
          have f6 : 16 + j < 24 := by omega
          have f8 : j + 16 = 16 + j := by omega
          simp (disch := omega) [h2, h3, h4, f1, f2, f3, f4, f5, f6, f8]
        · have g1 : ¬ (26 ≤ j ∧ j - 26 < 32 ∧ j - 26 < 6) := by omega
          have g2 : ¬ (12 ≤ j ∧ j - 12 < 32 ∧ 6 ≤ j - 12 ∧ j - 12 < 12) := by omega
          have g3 : ¬ (2 + j < 32 ∧ 12 ≤ 2 + j ∧ 2 + j < 18) := by omega
          have g4 : ¬ (16 + j < 32 ∧ 18 ≤ 16 + j ∧ 16 + j < 24) := by omega
          simp only [h1, h2, h3, h4, if_false]
          have d1 : ∀ X : Bool, (decide (j < 32) && (decide (j ≥ 26) && (X && decide (0 ≤ j - 26 ∧ j - 26 < 0 + 6)))) = false := by
            intro X
            by_cases a : j < 32 <;> by_cases b : j ≥ 26 <;> simp [a, b] <;> omega
          have d2 : ∀ X : Bool, (decide (j < 32) && (decide (j ≥ 12) && (X && decide (6 ≤ j - 12 ∧ j - 12 < 6 + 6)))) = false := by
            intro X
            by_cases a : j < 32 <;> by_cases b : j ≥ 12 <;> simp [a, b] <;> omega
          have d3 : decide (12 ≤ 2 + j ∧ 2 + j < 12 + 6) = false := by simp; omega
          have d4 : decide (18 ≤ 16 + j ∧ 16 + j < 18 + 6) = false := by simp; omega
          rw [d1, d2, d3, d4]; simp

theorem saltSwap_getD (salt : Nat) (y : Bits) (e : Nat) (he : e < 48) :
    (saltSwap salt y).getD e false = if salt.testBit (e % 24) then y.getD ((e + 24) % 48) false else y.getD e false := by
  unfold saltSwap
  simp [List.getD_eq_getElem?_getD, List.getElem?_map, List.getElem?_range he]

theorem idx_low : ∀ j, j < 32 →
    posE (32 + j) = (posE j).map (· - 24) ∧ saltSrc j = (posE j).map (· - 24) ∧
      ∀ e, posE j = some e → 24 ≤ e ∧ e < 48 := by decide +kernel

theorem idx_high : ∀ j, j < 32 → saltSrc (32 + j) = none ∧
    posE j = (posE (32 + j)).map (· + 24) ∧ saltSrc j = posE (32 + j) ∧
      ∀ e, posE (32 + j) = some e → e < 24 := by decide +kernel

/-- **The salt.** With `k = ((w >> 32) ^ w) & salt`, `(k << 32) ^ k ^ w` exchanges, for every set salt
bit `i < 24`, E outputs `i` and `i + 24` of the word `w` in E layout. -/
theorem salt_mix (salt : Nat) (y : Bits) :
    ((((lay posE y >>> 32) ^^^ lay posE y) &&& (expandSalt (UInt32.ofNat salt)).toUInt64) <<< 32) ^^^
      (((lay posE y >>> 32) ^^^ lay posE y) &&& (expandSalt (UInt32.ofNat salt)).toUInt64) ^^^ lay posE y =
    lay posE (saltSwap salt y) := by
  have h32 : (32 : UInt64).toNat % 64 = 32 := by decide
  have hk : ∀ i, i < 64 → bit (((lay posE y >>> 32) ^^^ lay posE y) &&& (expandSalt (UInt32.ofNat salt)).toUInt64) i =
      ((bit (lay posE y) (32 + i) ^^ bit (lay posE y) i) &&
        (match saltSrc i with | some t => salt.testBit t | none => false)) := by
    intro i hi
    rw [bit_and, bit_xor, bit_shr, h32, salt64_bit salt i hi]
  apply ext; intro j hj
  rw [bit_xor, bit_xor, bit_shl, h32, hk j hj, bit_lay posE (saltSwap salt y) j hj]
  by_cases hlow : j < 32
  · have hnot : ¬ 32 ≤ j := by omega
    have := idx_low j hlow
    rw [bit_lay posE y (32 + j) (by omega), bit_lay posE y j hj]
    simp only [hj, hnot, decide_true, decide_false, Bool.true_and, Bool.false_and, Bool.false_bne]
    obtain ⟨hp2, hs, hb⟩ := this
    rw [hp2, hs]
    cases hp : posE j with
    | none => simp
    | some e =>
      obtain ⟨h24, h48⟩ := hb e hp
      simp only [Option.map_some]
      rw [saltSwap_getD salt y e h48]
      have e2 : (e + 24) % 48 = e - 24 := by omega
      have e3 : e % 24 = e - 24 := by omega
      rw [e2, e3]
      cases salt.testBit (e - 24) <;> cases y.getD (e - 24) false <;> cases y.getD e false <;> rfl
  · have h32' : 32 ≤ j := by omega
    obtain ⟨i, rfl⟩ : ∃ i, j = 32 + i := ⟨j - 32, by omega⟩
    have hi : i < 32 := by omega
    have := idx_high i hi
    have hsub : 32 + i - 32 = i := by omega
    obtain ⟨hs0, hp2, hs, hb⟩ := this
    rw [hsub, hk i (by omega), bit_lay posE y (32 + i) hj, bit_lay posE y i (by omega), hs0, hp2, hs]
    have hge : bit (lay posE y) (32 + (32 + i)) = false := bit_ge _ (by omega)
    rw [hge]
    simp only [hj, h32', decide_true, Bool.true_and, Bool.and_false, Bool.bne_false]
    cases hp : posE (32 + i) with
    | none => simp
    | some e =>
      have h24 := hb e hp
      simp only [Option.map_some]
      rw [saltSwap_getD salt y e (by omega)]
      have e2 : (e + 24) % 48 = e + 24 := by omega
      have e3 : e % 24 = e := by omega
      rw [e2, e3]
      cases salt.testBit e <;> cases y.getD (e + 24) false <;> cases y.getD e false <;> rfl


/-! ## One half-round -/

theorem eLay_eq (h : Bits) (hh : h.length = 32) : eLay h = lay (rlay posE 48 (lsel E 32 rid)) h := by
  unfold eLay; exact lrE.lay posE h hh

theorem eLay_xor (a b : Bits) (ha : a.length = 32) (hb : b.length = 32) :
    eLay (DesFips.xor a b) = eLay a ^^^ eLay b := by
  rw [eLay_eq _ (by rw [xor_length a b (by rw [ha, hb]), ha]), eLay_eq a ha, eLay_eq b hb, lay_xor _ a b (by rw [ha, hb])]

theorem select_length (T : List Nat) (b : Bits) : (select T b).length = T.length := by simp [DesFips.select]
theorem saltSwap_length (salt : Nat) (y : Bits) : (saltSwap salt y).length = 48 := by simp [saltSwap]

theorem f_eq (salt : Nat) (R K : Bits) :
    f salt R K = select P (sboxes (DesFips.xor (saltSwap salt (select E R)) K)) := rfl

theorem f_length (salt : Nat) (R K : Bits) : (f salt R K).length = 32 := by rw [f_eq, select_length]; rfl

/-- **One Feistel half-round**, on words in E layout: `l ^= spe…(salted r ^ ks)` is `L ⊕ f(R, K)`. -/
theorem half_step (salt : Nat) (L R K : Bits) (hL : L.length = 32) (hK : K.length = 48) :
    eLay L ^^^ speXor
      ((((eLay R >>> 32) ^^^ eLay R) &&& (expandSalt (UInt32.ofNat salt)).toUInt64) <<< 32 ^^^
        (((eLay R >>> 32) ^^^ eLay R) &&& (expandSalt (UInt32.ofNat salt)).toUInt64) ^^^ eLay R ^^^ lay posE K) =
    eLay (DesFips.xor L (f salt R K)) := by
  have hl : (saltSwap salt (select E R)).length = K.length := by rw [saltSwap_length, hK]
  rw [eLay_xor L _ hL (f_length salt R K), f_eq]
  show _ ^^^ speXor (_ ^^^ lay posE K) = _
  unfold eLay
  rw [salt_mix salt (select E R), ← lay_xor posE _ K hl,
    speXor_lay _ (by rw [xor_length _ _ hl, saltSwap_length])]



/-! ## Key schedule -/

/-- `keySchedules` as a recursion over the table pairs. -/
def ksModel (u : UInt64) : List (Array Nat × Array Nat) → List (UInt64 × UInt64)
  | [] => []
  | (pE, pO) :: rest =>
    let e := permuteNib pE 16 u
    let o := permuteNib pO 16 e
    (e &&& ksMask, o &&& ksMask) :: ksModel o rest

theorem ksModel_foldl (tables : List (Array Nat × Array Nat)) (u : UInt64) (acc : List (UInt64 × UInt64)) :
    (List.foldl (fun (b : UInt64 × List (UInt64 × UInt64)) (a : Array Nat × Array Nat) =>
        (permuteNib a.snd 16 (permuteNib a.fst 16 b.fst),
          b.snd ++ [(permuteNib a.fst 16 b.fst &&& ksMask, permuteNib a.snd 16 (permuteNib a.fst 16 b.fst) &&& ksMask)]))
      (u, acc) tables).snd = acc ++ ksModel u tables := by
  induction tables generalizing u acc with
  | nil => simp [ksModel]
  | cons t ts ih =>
    obtain ⟨pE, pO⟩ := t
    rw [List.foldl_cons, ih]
    simp [ksModel]

theorem keySchedules_eq (key : UInt64) : keySchedules key = ksModel key pcxRot := by
  unfold keySchedules
  simp only [List.forIn_pure_yield_eq_foldl, pure_bind]
  exact (ksModel_foldl pcxRot key []).trans (List.nil_append _)

/-- One step of the FIPS schedule on `CD` as a single 56-bit list. -/
def rotCD (s : Nat) (cd : Bits) : Bits := rotl s (cd.take 28) ++ rotl s (cd.drop 28)

def ksFrom (cd : Bits) : List Nat → List Bits
  | [] => []
  | s :: ss => select PC2 (rotCD s cd) :: ksFrom (rotCD s cd) ss

theorem rotl_length (n : Nat) (b : Bits) : (rotl n b).length = b.length := by
  simp [rotl]; omega

theorem keySchedule_foldl (ss : List Nat) (c d : Bits) (acc : List Bits) (hc : c.length = 28) :
    (ss.foldl (fun (acc : (Bits × Bits) × List Bits) (s : Nat) =>
        ((rotl s acc.1.1, rotl s acc.1.2), acc.2 ++ [select PC2 (rotl s acc.1.1 ++ rotl s acc.1.2)]))
      ((c, d), acc)).2 = acc ++ ksFrom (c ++ d) ss := by
  induction ss generalizing c d acc with
  | nil => simp [ksFrom]
  | cons s ss ih =>
    rw [List.foldl_cons, ih _ _ _ (by rw [rotl_length, hc])]
    have : rotCD s (c ++ d) = rotl s c ++ rotl s d := by
      unfold rotCD
      rw [List.take_left' hc, List.drop_left' hc]
    simp [ksFrom, this]

theorem keySchedule_eq (kb : Bits) (_h : kb.length = 64) : keySchedule kb = ksFrom (select PC1 kb) shifts := by
  unfold keySchedule
  simp only []
  have hc : ((select PC1 kb).take 28).length = 28 := by rw [List.length_take, select_length]; rfl
  rw [keySchedule_foldl shifts _ _ [] hc, List.take_append_drop, List.nil_append]

/-- The 56 bits of `CD` in a schedule word: the 48 bits PC-2 selects sit in E layout, the 8 others in
the spare positions of the upper half (`ksMask` removes them). -/
def posCDL : List (Option Nat) :=
  [none, none, some 45, some 41, some 49, some 35, some 28, some 31, none, none, some 43, some 48, some 38, some 55, some 33, some 52, none, none, some 29, some 39, some 50, some 44, some 32, some 47, none, none, some 40, some 51, some 30, some 36, some 46, some 54, some 42, some 53, some 15, some 6, some 26, some 19, some 12, some 1, some 34, some 37, some 22, some 18, some 11, some 3, some 25, some 7, some 21, some 24, some 2, some 27, some 14, some 5, some 20, some 9, some 8, some 17, some 13, some 16, some 10, some 23, some 0, some 4]
def posCD : Route := ofList posCDL

def lrot (n M : Nat) (τ : Route) : Route := lapp (M - n) (ldrop n τ) (ltake n τ)
def lrotCD (s : Nat) (τ : Route) : Route := lapp 28 (lrot s 28 (ltake 28 τ)) (lrot s 28 (ldrop 28 τ))

theorem _root_.GoCrypt.Bits.LR.rotCD {g : Bits → Bits} {τ : Route} {N : Nat} (h : LR g τ N 56) (s : Nat) (hs : s ≤ 28) :
    LR (fun b => rotCD s (g b)) (lrotCD s τ) N 56 :=
  ((h.take 28 (by decide)).rotl s hs).append ((h.drop 28 (by decide)).rotl s hs)

theorem rotCD_length (s : Nat) (cd : Bits) (h : cd.length = 56) : (rotCD s cd).length = 56 := by
  simp [rotCD, rotl_length, h]

/-- `pc1Rot` = PC-1 and the first left shift. -/
theorem ks_first (k : UInt64) : permuteNib pc1Rot 16 k = lay posCD (rotCD 1 (select PC1 (wordBits k))) := by
  have lr := ((LR.id 64).select PC1).rotCD 1 (by decide)
  rw [lr.lay posCD _ (wordBits_length k)]
  exact isRoute_pc1Rot.eq (isRoute_lay_wordBits _) (by decide +kernel) k

/-- `pc2RotA`: undo PC-2, shift left by one, PC-2. -/
theorem ks_rot1 (cd : Bits) (h : cd.length = 56) :
    permuteNib pc2RotA 16 (lay posCD cd) = lay posCD (rotCD 1 cd) := by
  rw [isRoute_pc2RotA.lay posCD, ((LR.id 56).rotCD 1 (by decide)).lay posCD cd h]
  exact lay_congr (by decide +kernel) cd

/-- `pc2RotB`: the same with a shift by two. -/
theorem ks_rot2 (cd : Bits) (h : cd.length = 56) :
    permuteNib pc2RotB 16 (lay posCD cd) = lay posCD (rotCD 2 cd) := by
  rw [isRoute_pc2RotB.lay posCD, ((LR.id 56).rotCD 2 (by decide)).lay posCD cd h]
  exact lay_congr (by decide +kernel) cd

/-- Masked with `ksMask`, a schedule word is the round key `PC-2(CD)` in E layout. -/
theorem ks_mask (cd : Bits) (h : cd.length = 56) : lay posCD cd &&& ksMask = lay posE (select PC2 cd) := by
  rw [(isRoute_id.and_lit ksMask).lay posCD, ((LR.id 56).select PC2).lay posE cd h]
  exact lay_congr (by decide +kernel) cd

def pairs {α : Type} : List α → List (α × α)
  | a :: b :: rest => (a, b) :: pairs rest
  | _ => []

/-- **The key schedule.** The eight (even, odd) schedule words of the Go code are the sixteen FIPS
round keys `K₁ … K₁₆` in E layout. -/
theorem keySchedules_fips (k : UInt64) :
    keySchedules k = pairs ((keySchedule (wordBits k)).map (lay posE)) := by
  have h0 : (select PC1 (wordBits k)).length = 56 := by rw [select_length]; rfl
  rw [keySchedules_eq, keySchedule_eq _ (wordBits_length k)]
  simp only [ksModel, pcxRot, ksFrom, shifts, List.map_cons, List.map_nil, pairs]
  simp (maxDischargeDepth := 40) only [ks_first, ks_rot1, ks_rot2, ks_mask, rotCD_length, h0]



/-! ## Sixteen rounds -/

theorem round_length (salt : Nat) (LR : Bits × Bits) (K : Bits) (h : LR.1.length = 32 ∧ LR.2.length = 32) :
    (round salt LR K).1.length = 32 ∧ (round salt LR K).2.length = 32 := by
  unfold round
  exact ⟨h.2, by rw [xor_length _ _ (by rw [h.1, f_length]), h.1]⟩

/-- One (even, odd) step of the Go loop = two FIPS iterations. -/
theorem passStep_fips (salt : Nat) (LR : Bits × Bits) (K1 K2 : Bits) (h : LR.1.length = 32 ∧ LR.2.length = 32)
    (h1 : K1.length = 48) (h2 : K2.length = 48) :
    passStep (expandSalt (UInt32.ofNat salt)).toUInt64 (eLay LR.1, eLay LR.2) (lay posE K1, lay posE K2) =
      (eLay (round salt (round salt LR K1) K2).1, eLay (round salt (round salt LR K1) K2).2) := by
  obtain ⟨L, R⟩ := LR
  have hl1 : (DesFips.xor L (f salt R K1)).length = 32 := by rw [xor_length _ _ (by rw [h.1, f_length]), h.1]
  unfold passStep round
  simp only []
  rw [half_step salt L R K1 h.1 h1, half_step salt R (DesFips.xor L (f salt R K1)) K2 h.2 h2]

theorem foldl_fips (salt : Nat) (ks : List Bits) (hks : ∀ K ∈ ks, K.length = 48) (LR : Bits × Bits)
    (h : LR.1.length = 32 ∧ LR.2.length = 32) (hev : ks.length % 2 = 0) :
    (pairs (ks.map (lay posE))).foldl (passStep (expandSalt (UInt32.ofNat salt)).toUInt64) (eLay LR.1, eLay LR.2) =
      (eLay (ks.foldl (round salt) LR).1, eLay (ks.foldl (round salt) LR).2) := by
  match ks with
  | [] => rfl
  | [_] => simp at hev
  | K1 :: K2 :: rest =>
    simp only [List.map_cons, pairs, List.foldl_cons]
    rw [passStep_fips salt LR K1 K2 h (hks K1 (by simp)) (hks K2 (by simp))]
    exact foldl_fips salt rest (fun K hK => hks K (by simp [hK])) _
      (round_length salt _ K2 (round_length salt LR K1 h)) (by simp at hev; omega)

theorem foldl_round_length (salt : Nat) (ks : List Bits) (LR : Bits × Bits) (h : LR.1.length = 32 ∧ LR.2.length = 32) :
    (ks.foldl (round salt) LR).1.length = 32 ∧ (ks.foldl (round salt) LR).2.length = 32 := by
  induction ks generalizing LR with
  | nil => exact h
  | cons K ks ih => exact ih _ (round_length salt LR K h)

theorem keySchedule_lengths (kb : Bits) (h : kb.length = 64) :
    (keySchedule kb).length = 16 ∧ ∀ K ∈ keySchedule kb, K.length = 48 := by
  rw [keySchedule_eq kb h]
  simp only [ksFrom, shifts]
  refine ⟨rfl, ?_⟩
  intro K hK
  simp only [List.mem_cons, List.not_mem_nil, or_false] at hK
  rcases hK with h | h | h | h | h | h | h | h | h | h | h | h | h | h | h | h <;> rw [h, select_length] <;> rfl

/-- **`descrypt.Encrypt` with one round is FIPS 46-3 DES with the crypt(3) salt**, for every 64-bit
key and block and every salt number. -/
theorem encrypt_eq_fips (key block : UInt64) (salt : Nat) :
    encrypt key block (UInt32.ofNat salt) 1 = desWord key salt block := by
  have hip : (select IP (wordBits block)).length = 64 := by rw [select_length]; rfl
  have h32 : ((select IP (wordBits block)).take 32).length = 32 ∧ ((select IP (wordBits block)).drop 32).length = 32 := by
    rw [List.length_take, List.length_drop, hip]; exact ⟨rfl, rfl⟩
  obtain ⟨hk16, hk48⟩ := keySchedule_lengths (wordBits key) (wordBits_length key)
  rw [encrypt_eq]
  have hl : desLoop (keySchedules key) (expandSalt (UInt32.ofNat salt)).toUInt64 1 (ipPair block) =
      ((desPass (keySchedules key) (expandSalt (UInt32.ofNat salt)).toUInt64 (ipPair block).1 (ipPair block).2).2,
       (desPass (keySchedules key) (expandSalt (UInt32.ofNat salt)).toUInt64 (ipPair block).1 (ipPair block).2).1) := by
    cases hp : ipPair block with
    | mk l r => simp only [desLoop]
  rw [hl, desPass_eq_foldl, keySchedules_fips]
  have hi : ((ipPair block).1, (ipPair block).2) =
      (eLay ((select IP (wordBits block)).take 32, (select IP (wordBits block)).drop 32).1,
       eLay ((select IP (wordBits block)).take 32, (select IP (wordBits block)).drop 32).2) := by
    simp only [ipPair, ip_left, ip_right]
  rw [hi, foldl_fips salt _ hk48 _ h32 (by rw [hk16])]
  have hr := foldl_round_length salt (keySchedule (wordBits key))
    ((select IP (wordBits block)).take 32, (select IP (wordBits block)).drop 32) h32
  simp only []
  rw [fp_eq _ _ hr.2 hr.1]
  rfl


/-- With salt 0 the expansion is the plain E of the standard. -/
theorem saltSwap_zero (e : Bits) (h : e.length = 48) : saltSwap 0 e = e := by
  apply List.ext_getElem
  · rw [saltSwap_length, h]
  · intro i h1 h2
    have hi : i < 48 := by rw [saltSwap_length] at h1; exact h1
    have := saltSwap_getD 0 e i hi
    simp only [Nat.zero_testBit, Bool.false_eq_true, if_false] at this
    rw [List.getD_eq_getElem?_getD, List.getD_eq_getElem?_getD, List.getElem?_eq_getElem h1, List.getElem?_eq_getElem h2] at this
    simpa using this

end GoCrypt.DesEq
