import GoCrypt.Proofs.CodecL2Facts

/-!
# The pieces Marshal writes, and the fragments the parser makes of them

* `FragsTexts`: a fragment list carries given pieces (positions do not matter to the field loop);
* structure of `bodyPieces`: per field, per inline chain, per group run; counting lemmas for the
  optional-field count rule;
* `render_pieces`: `renderFields` is the rendering of `bodyPieces`.
-/

namespace GoCrypt.Codec
open Bytes GoCrypt.Parse Layers GoCrypt.Respell GoCrypt.CodecDomain GoCrypt.RefParse

/-! ## Fragments carrying given pieces -/

def FragsTexts : List Frag → List (List Bytes) → Prop
  | [], [] => True
  | .value v :: fs, [m] :: ps => v.val = m ∧ FragsTexts fs ps
  | .group vs :: fs, ms :: ps => vs.map (·.val) = ms ∧ 2 ≤ ms.length ∧ FragsTexts fs ps
  | _, _ => False

theorem mkValues_map_val : ∀ (ms : List Bytes) (off : Nat), (mkValues off ms).map (·.val) = ms
  | [], _ => rfl
  | m :: ms, off => by simp [mkValues, mkValues_map_val ms]

theorem fragsTexts_piecesFrags : ∀ (pieces : List (List Bytes)) (off : Nat),
    (∀ ms ∈ pieces, ms ≠ []) → FragsTexts (piecesFrags off pieces) pieces
  | [], _, _ => trivial
  | ms :: rest, off, h => by
    have ih := fragsTexts_piecesFrags rest (off + (joinWith comma ms).length + 1)
      (fun x hx => h x (by simp [hx]))
    match ms, h ms (by simp) with
    | [m], _ => exact ⟨rfl, ih⟩
    | m :: m' :: ms', _ =>
      refine ⟨?_, by simp, ih⟩
      exact mkValues_map_val _ _

theorem FragsTexts.length_eq : ∀ {frs : List Frag} {ps : List (List Bytes)}, FragsTexts frs ps →
    frs.length = ps.length
  | [], [], _ => rfl
  | [], _ :: _, h => h.elim
  | .value _ :: _, [], h => h.elim
  | .group _ :: _, [], h => h.elim
  | .value v :: fs, [] :: ps, h => h.elim
  | .value v :: fs, [m] :: ps, h => by simp [FragsTexts.length_eq h.2]
  | .value v :: fs, (m :: m' :: ms) :: ps, h => h.elim
  | .group vs :: fs, ms :: ps, h => by simp [FragsTexts.length_eq h.2.2]

theorem FragsTexts.nil_left {ps : List (List Bytes)} (h : FragsTexts [] ps) : ps = [] := by
  cases ps with
  | nil => rfl
  | cons _ _ => exact h.elim

theorem FragsTexts.nil_right {frs : List Frag} (h : FragsTexts frs []) : frs = [] := by
  cases frs with
  | nil => rfl
  | cons f _ => cases f <;> exact h.elim

/-- A single-member head piece is carried by a value fragment. -/
theorem FragsTexts.single {frs : List Frag} {m : Bytes} {ps : List (List Bytes)}
    (h : FragsTexts frs ([m] :: ps)) : ∃ v rest, frs = .value v :: rest ∧ v.val = m ∧ FragsTexts rest ps := by
  cases frs with
  | nil => exact h.elim
  | cons f rest =>
    cases f with
    | value v => exact ⟨v, rest, rfl, h.1, h.2⟩
    | group vs =>
      obtain ⟨-, h2, -⟩ := h
      simp at h2

/-- A head piece with several members is carried by a group fragment. -/
theorem FragsTexts.multi {frs : List Frag} {ms : List Bytes} {ps : List (List Bytes)}
    (h : FragsTexts frs (ms :: ps)) (h2 : 2 ≤ ms.length) :
    ∃ vs rest, frs = .group vs :: rest ∧ vs.map (·.val) = ms ∧ FragsTexts rest ps := by
  cases frs with
  | nil => exact h.elim
  | cons f rest =>
    cases f with
    | group vs => exact ⟨vs, rest, rfl, h.1, h.2.2⟩
    | value v =>
      match ms, h2 with
      | [], h2 => simp at h2
      | [m], h2 => simp at h2
      | m :: m' :: ms', _ => exact h.elim

/-! ## Structure of `piecesE` / `bodyPieces` -/

theorem attach_cases (vals : Vals) (f : FieldInfo) (next : Option FieldInfo) (ps : List (List Bytes)) :
    (f.opts.inline = true ∧
      ((∃ m ms ps', ps = (m :: ms) :: ps' ∧ attach vals f next ps = ((nt vals f ++ m) :: ms) :: ps') ∨
       ((∀ m ms ps', ps ≠ (m :: ms) :: ps') ∧ attach vals f next ps = [[nt vals f]]))) ∨
    (f.opts.inline = false ∧ (f.opts.group && nextGroup next) = true ∧
      ((∃ ms ps', ps = ms :: ps' ∧ attach vals f next ps = (nt vals f :: ms) :: ps') ∨
       (ps = [] ∧ attach vals f next ps = [[nt vals f]]))) ∨
    (f.opts.inline = false ∧ (f.opts.group && nextGroup next) = false ∧
      attach vals f next ps = [nt vals f] :: ps) := by
  unfold attach
  cases hi : f.opts.inline with
  | true =>
    left
    refine ⟨by simp, ?_⟩
    simp only [if_true]
    match ps with
    | (m :: ms) :: ps' => exact Or.inl ⟨m, ms, ps', rfl, rfl⟩
    | [] => exact Or.inr ⟨by simp, rfl⟩
    | [] :: ps' => exact Or.inr ⟨by simp, rfl⟩
  | false =>
    right
    simp only [Bool.false_eq_true, if_false]
    cases hc : (f.opts.group && nextGroup next) with
    | true =>
      left
      refine ⟨by simp, by simp, ?_⟩
      simp only [if_true]
      match ps with
      | ms :: ps' => exact Or.inl ⟨ms, ps', rfl, rfl⟩
      | [] => exact Or.inr ⟨rfl, rfl⟩
    | false =>
      right
      exact ⟨by simp, by simp, by simp⟩

theorem attach_ne_nil (vals : Vals) (f : FieldInfo) (next : Option FieldInfo) (ps : List (List Bytes)) :
    attach vals f next ps ≠ [] := by
  rcases attach_cases vals f next ps with ⟨-, ⟨m, ms, ps', -, h⟩ | ⟨-, h⟩⟩ | ⟨-, -, ⟨ms, ps', -, h⟩ | ⟨-, h⟩⟩ | ⟨-, -, h⟩ <;>
    rw [h] <;> simp

theorem attach_pieces_ne (vals : Vals) (f : FieldInfo) (next : Option FieldInfo) (ps : List (List Bytes))
    (h : ∀ ms ∈ ps, ms ≠ []) : ∀ ms ∈ attach vals f next ps, ms ≠ [] := by
  intro x hx
  rcases attach_cases vals f next ps with ⟨-, ⟨m, ms, ps', hps, ha⟩ | ⟨-, ha⟩⟩ |
    ⟨-, -, ⟨ms, ps', hps, ha⟩ | ⟨-, ha⟩⟩ | ⟨-, -, ha⟩ <;> rw [ha] at hx
  · simp only [List.mem_cons] at hx
    rcases hx with rfl | hx
    · simp
    · exact h x (by rw [hps]; simp [hx])
  · simp only [List.mem_cons, List.not_mem_nil, or_false] at hx
    subst hx; simp
  · simp only [List.mem_cons] at hx
    rcases hx with rfl | hx
    · simp
    · exact h x (by rw [hps]; simp [hx])
  · simp only [List.mem_cons, List.not_mem_nil, or_false] at hx
    subst hx; simp
  · simp only [List.mem_cons] at hx
    rcases hx with rfl | hx
    · simp
    · exact h x hx

theorem piecesE_pieces_ne (vals : Vals) : ∀ (E : List FieldInfo), ∀ ms ∈ piecesE vals E, ms ≠ []
  | [], _, h => by simp [piecesE] at h
  | f :: rest, ms, h => attach_pieces_ne vals f rest.head? _ (piecesE_pieces_ne vals rest) ms h

theorem piecesE_eq_nil (vals : Vals) (E : List FieldInfo) : piecesE vals E = [] ↔ E = [] := by
  cases E with
  | nil => simp [piecesE]
  | cons f rest => simp [piecesE, attach_ne_nil]

theorem attach_length_ge (vals : Vals) (f : FieldInfo) (next : Option FieldInfo) (ps : List (List Bytes))
    (h : ∀ ms ∈ ps, ms ≠ []) : ps.length ≤ (attach vals f next ps).length := by
  rcases attach_cases vals f next ps with ⟨-, ⟨m, ms, ps', hps, ha⟩ | ⟨hne, ha⟩⟩ |
    ⟨-, -, ⟨ms, ps', hps, ha⟩ | ⟨hps, ha⟩⟩ | ⟨-, -, ha⟩ <;> rw [ha]
  · rw [hps]; simp
  · cases ps with
    | nil => simp
    | cons p ps' =>
      cases p with
      | nil => exact absurd rfl (h [] (by simp))
      | cons m ms => exact absurd rfl (hne m ms ps')
  · rw [hps]; simp
  · rw [hps]; simp
  · simp

theorem bodyPieces_nil (vals : Vals) : bodyPieces vals [] = [] := rfl

theorem bodyPieces_cons_omit (vals : Vals) (f : FieldInfo) (rest : List FieldInfo)
    (h : emitted vals f = false) : bodyPieces vals (f :: rest) = bodyPieces vals rest := by
  simp [bodyPieces, h]

/-- The first field written among `fs`. -/
def firstEm (vals : Vals) (fs : List FieldInfo) : Option FieldInfo := (fs.filter (emitted vals)).head?

theorem bodyPieces_cons_emit (vals : Vals) (f : FieldInfo) (rest : List FieldInfo)
    (h : emitted vals f = true) :
    bodyPieces vals (f :: rest) = attach vals f (firstEm vals rest) (bodyPieces vals rest) := by
  simp [bodyPieces, h, piecesE, firstEm]

/-- A stand-alone (not inline, not grouped) emitted field is a piece of its own. -/
theorem bodyPieces_cons_alone (vals : Vals) (f : FieldInfo) (rest : List FieldInfo)
    (h : emitted vals f = true) (hi : f.opts.inline = false) (hg : f.opts.group = false) :
    bodyPieces vals (f :: rest) = [nt vals f] :: bodyPieces vals rest := by
  rw [bodyPieces_cons_emit vals f rest h]
  simp [attach, hi, hg]

theorem bodyPieces_pieces_ne (vals : Vals) (fs : List FieldInfo) : ∀ ms ∈ bodyPieces vals fs, ms ≠ [] :=
  piecesE_pieces_ne vals _

theorem emitted_of_required (vals : Vals) (f : FieldInfo) (h : f.opts.omitEmpty = false) :
    emitted vals f = true := by simp [emitted, h]

theorem omitEmpty_of_omitted (vals : Vals) (f : FieldInfo) (h : emitted vals f = false) :
    f.opts.omitEmpty = true := by
  cases ho : f.opts.omitEmpty with
  | true => rfl
  | false => simp [emitted, ho] at h

theorem inlineOk_tail (f : FieldInfo) (rest : List FieldInfo) (h : inlineOk (f :: rest) = true) :
    inlineOk rest = true := by
  cases rest with
  | nil => rfl
  | cons g rest' =>
    simp only [inlineOk, Bool.and_eq_true] at h
    exact h.2

/-- After an inline field comes a required field without name, not grouped. -/
theorem inlineOk_next (f : FieldInfo) (rest : List FieldInfo) (h : inlineOk (f :: rest) = true)
    (hi : f.opts.inline = true) :
    f.opts.param = [] ∧ ∃ g rest', rest = g :: rest' ∧ g.opts.param = [] ∧ g.opts.group = false ∧
      g.opts.omitEmpty = false := by
  cases rest with
  | nil => simp [inlineOk, hi] at h
  | cons g rest' =>
    simp only [inlineOk, hi, Bool.not_true, Bool.false_or, Bool.and_eq_true, decide_eq_true_eq,
      isPositional, Bool.not_eq_eq_eq_not, Bool.not_true] at h
    exact ⟨h.1.1.1, g, rest', rfl, h.1.1.2.1, h.1.1.2.2, h.1.2⟩

/-- When the first field written is not grouped, the head piece has a single member. -/
theorem bodyPieces_head_single (vals : Vals) : ∀ (fs : List FieldInfo), inlineOk fs = true →
    ∀ g, firstEm vals fs = some g → g.opts.group = false → ∃ m ps, bodyPieces vals fs = [m] :: ps
  | [], _, g, h, _ => by simp [firstEm] at h
  | f :: rest, hio, g, hfe, hg => by
    by_cases hem : emitted vals f = true
    · have hfg : f = g := by
        simp only [firstEm, List.filter_cons, hem, if_true, List.head?_cons, Option.some.injEq] at hfe
        exact hfe
      subst hfg
      by_cases hi : f.opts.inline = true
      · obtain ⟨-, h, rest', rfl, -, hhg, hho⟩ := inlineOk_next f rest hio hi
        have hhe := emitted_of_required vals h hho
        obtain ⟨m, ps, hb⟩ := bodyPieces_head_single vals (h :: rest') (inlineOk_tail f _ hio) h
          (by simp [firstEm, hhe]) hhg
        refine ⟨nt vals f ++ m, ps, ?_⟩
        rw [bodyPieces_cons_emit vals f _ hem, hb]
        simp [attach, hi]
      · simp only [Bool.not_eq_true] at hi
        exact ⟨_, _, bodyPieces_cons_alone vals f rest hem hi hg⟩
    · simp only [Bool.not_eq_true] at hem
      rw [bodyPieces_cons_omit vals f rest hem]
      apply bodyPieces_head_single vals rest (inlineOk_tail f rest hio) g _ hg
      simpa [firstEm, List.filter_cons, hem] using hfe

/-- Every required stand-alone field owns a piece. -/
theorem bodyPieces_length_ge (vals : Vals) : ∀ (fs : List FieldInfo),
    reqCount fs ≤ (bodyPieces vals fs).length
  | [] => by simp [reqCount]
  | f :: rest => by
    have ih := bodyPieces_length_ge vals rest
    by_cases hem : emitted vals f = true
    · rw [bodyPieces_cons_emit vals f rest hem]
      have hge := attach_length_ge vals f (firstEm vals rest) _ (bodyPieces_pieces_ne vals rest)
      by_cases hc : (!f.opts.group && !f.opts.omitEmpty && !f.opts.inline) = true
      · simp only [Bool.and_eq_true, Bool.not_eq_eq_eq_not, Bool.not_true] at hc
        simp only [reqCount, List.filter_cons, hc.1.1, hc.1.2, hc.2, Bool.not_false, Bool.and_self,
          if_true, List.length_cons, attach, Bool.false_eq_true, if_false, Bool.false_and] at ih ⊢
        omega
      · simp only [Bool.not_eq_true] at hc
        simp only [reqCount, List.filter_cons, hc, Bool.false_eq_true, if_false] at ih ⊢
        omega
    · simp only [Bool.not_eq_true] at hem
      rw [bodyPieces_cons_omit vals f rest hem]
      have ho := omitEmpty_of_omitted vals f hem
      simp only [reqCount, List.filter_cons, ho, Bool.not_true, Bool.and_false, Bool.false_and,
        Bool.false_eq_true, if_false] at ih ⊢
      exact ih

/-- Without groups and with every optional field omitted, the pieces are exactly the required
stand-alone fields. -/
theorem bodyPieces_length_eq (vals : Vals) : ∀ (fs : List FieldInfo), inlineOk fs = true →
    (∀ f ∈ fs, f.opts.group = false) → (∀ f ∈ fs, f.opts.omitEmpty = true → emitted vals f = false) →
    (bodyPieces vals fs).length = reqCount fs
  | [], _, _, _ => by simp [reqCount, bodyPieces_nil]
  | f :: rest, hio, hng, hom => by
    have ih := bodyPieces_length_eq vals rest (inlineOk_tail f rest hio)
      (fun g hg => hng g (by simp [hg])) (fun g hg => hom g (by simp [hg]))
    have hg := hng f (by simp)
    cases ho : f.opts.omitEmpty with
    | true =>
      rw [bodyPieces_cons_omit vals f rest (hom f (by simp) ho)]
      simp only [reqCount, List.filter_cons, ho, Bool.not_true, Bool.and_false, Bool.false_and,
        Bool.false_eq_true, if_false] at ih ⊢
      exact ih
    | false =>
      have hem := emitted_of_required vals f ho
      cases hi : f.opts.inline with
      | false =>
        rw [bodyPieces_cons_alone vals f rest hem hi hg]
        simp only [reqCount, List.filter_cons, hg, ho, hi, Bool.not_false, Bool.and_self, if_true,
          List.length_cons] at ih ⊢
        omega
      | true =>
        obtain ⟨-, h, rest', rfl, -, hhg, hho⟩ := inlineOk_next f rest hio hi
        have hhe := emitted_of_required vals h hho
        obtain ⟨m, ps, hb⟩ := bodyPieces_head_single vals (h :: rest') (inlineOk_tail f _ hio) h
          (by simp [firstEm, hhe]) hhg
        rw [bodyPieces_cons_emit vals f _ hem, hb]
        rw [hb] at ih
        simp only [reqCount, List.filter_cons, hi, Bool.not_true, Bool.and_false, Bool.false_eq_true,
          if_false, attach, if_true, List.length_cons] at ih ⊢
        exact ih

/-! ## Group runs -/

theorem takeGroupRun_spec : ∀ (fs : List FieldInfo), fs = (takeGroupRun fs).1 ++ (takeGroupRun fs).2 ∧
    (∀ f ∈ (takeGroupRun fs).1, f.opts.group = true) ∧
    ((takeGroupRun fs).2 = [] ∨ ∃ h t, (takeGroupRun fs).2 = h :: t ∧ h.opts.group = false)
  | [] => by simp [takeGroupRun]
  | f :: rest => by
    obtain ⟨h1, h2, h3⟩ := takeGroupRun_spec rest
    by_cases hg : f.opts.group = true
    · simp only [takeGroupRun, hg, if_true]
      refine ⟨by simp [← h1], ?_, h3⟩
      intro x hx
      simp only [List.mem_cons] at hx
      rcases hx with rfl | hx
      · exact hg
      · exact h2 x hx
    · simp only [Bool.not_eq_true] at hg
      simp only [takeGroupRun, hg, Bool.false_eq_true, if_false]
      exact ⟨by simp, by simp, Or.inr ⟨f, rest, rfl, hg⟩⟩

theorem groupsSeparated_tail (f : FieldInfo) (rest : List FieldInfo)
    (h : groupsSeparated (f :: rest) = true) : groupsSeparated rest = true := by
  simp only [groupsSeparated, Bool.and_eq_true] at h
  exact h.2

theorem groupsSeparated_append (run after : List FieldInfo) (h : groupsSeparated (run ++ after) = true) :
    groupsSeparated after = true := by
  induction run with
  | nil => exact h
  | cons f run ih => exact ih (groupsSeparated_tail f _ h)

/-- After a (non-empty) run of grouped fields, the first field written is not grouped. -/
theorem after_run_not_group (run after : List FieldInfo) (hne : run ≠ [])
    (hrun : ∀ f ∈ run, f.opts.group = true)
    (hafter : after = [] ∨ ∃ h t, after = h :: t ∧ h.opts.group = false)
    (hgs : groupsSeparated (run ++ after) = true) : optRunThenGroup after = false := by
  induction run with
  | nil => exact absurd rfl hne
  | cons f run ih =>
    cases run with
    | nil =>
      rcases hafter with rfl | ⟨h, t, rfl, hh⟩
      · rfl
      · have hf := hrun f (by simp)
        simp only [List.cons_append, List.nil_append, groupsSeparated, hf, Bool.not_true, hh,
          Bool.false_or, Bool.and_eq_true, Bool.not_eq_eq_eq_not, Bool.not_true] at hgs
        exact hgs.1
    | cons g run' =>
      exact ih (by simp) (fun x hx => hrun x (by simp [hx])) (groupsSeparated_tail f _ hgs)

theorem firstEm_not_group (vals : Vals) : ∀ (fs : List FieldInfo), optRunThenGroup fs = false →
    ∀ g, firstEm vals fs = some g → g.opts.group = false
  | [], _, g, h => by simp [firstEm] at h
  | f :: rest, ho, g, hfe => by
    cases hg : f.opts.group with
    | true => simp [optRunThenGroup, hg] at ho
    | false =>
      by_cases hem : emitted vals f = true
      · simp only [firstEm, List.filter_cons, hem, if_true, List.head?_cons, Option.some.injEq] at hfe
        subst hfe; exact hg
      · simp only [Bool.not_eq_true] at hem
        have hom := omitEmpty_of_omitted vals f hem
        simp only [optRunThenGroup, hg, Bool.false_eq_true, if_false, hom, if_true] at ho
        apply firstEm_not_group vals rest ho g
        simpa [firstEm, List.filter_cons, hem] using hfe

theorem firstEm_append_none (vals : Vals) (run after : List FieldInfo)
    (h : run.filter (emitted vals) = []) : firstEm vals (run ++ after) = firstEm vals after := by
  simp [firstEm, List.filter_append, h]

theorem bodyPieces_append_none (vals : Vals) (run after : List FieldInfo)
    (h : run.filter (emitted vals) = []) : bodyPieces vals (run ++ after) = bodyPieces vals after := by
  simp [bodyPieces, List.filter_append, h]

/-- The pieces of a run of grouped fields followed by fields whose first written one is not grouped:
the written members of the run form one piece. -/
theorem bodyPieces_run (vals : Vals) (after : List FieldInfo)
    (hafter : ∀ g, firstEm vals after = some g → g.opts.group = false) :
    ∀ (run : List FieldInfo), (∀ f ∈ run, f.opts.group = true ∧ f.opts.inline = false) →
    run.filter (emitted vals) ≠ [] →
    bodyPieces vals (run ++ after) = (run.filter (emitted vals)).map (nt vals) :: bodyPieces vals after
  | [], _, h => absurd rfl h
  | f :: run, hrun, hne => by
    obtain ⟨hfg, hfi⟩ := hrun f (by simp)
    by_cases hem : emitted vals f = true
    · rw [List.cons_append, bodyPieces_cons_emit vals f _ hem]
      by_cases hr : run.filter (emitted vals) = []
      · rw [firstEm_append_none vals run after hr, bodyPieces_append_none vals run after hr]
        have hng : nextGroup (firstEm vals after) = false := by
          cases hfe : firstEm vals after with
          | none => rfl
          | some g => exact hafter g hfe
        simp [attach, hfi, hfg, hng, hem, hr]
      · have ih := bodyPieces_run vals after hafter run (fun x hx => hrun x (by simp [hx])) hr
        rw [ih]
        have hnext : nextGroup (firstEm vals (run ++ after)) = true := by
          cases hf : run.filter (emitted vals) with
          | nil => exact absurd hf hr
          | cons g gs =>
            have hgm : g ∈ run := (List.mem_filter.1 (by rw [hf]; simp : g ∈ run.filter (emitted vals))).1
            simp [firstEm, List.filter_append, hf, nextGroup, (hrun g (by simp [hgm])).1]
        simp [attach, hfi, hfg, hnext, hem]
    · simp only [Bool.not_eq_true] at hem
      rw [List.cons_append, bodyPieces_cons_omit vals f _ hem]
      have hne' : run.filter (emitted vals) ≠ [] := by
        simpa [List.filter_cons, hem] using hne
      rw [bodyPieces_run vals after hafter run (fun x hx => hrun x (by simp [hx])) hne']
      simp [hem]

/-! ## `renderFields` is the rendering of `bodyPieces` -/

theorem joinWith_cons_append (d : UInt8) (a x : Bytes) (xs : List Bytes) :
    joinWith d ((a ++ x) :: xs) = a ++ joinWith d (x :: xs) := by
  cases xs with
  | nil => simp [joinWith]
  | cons y ys => simp [joinWith]

theorem firstEm_none (vals : Vals) (fs : List FieldInfo) (h : firstEm vals fs = none) :
    bodyPieces vals fs = [] := by
  simp only [firstEm, List.head?_eq_none_iff] at h
  simp [bodyPieces, h, piecesE]

theorem firstEm_cons_emit (vals : Vals) (f : FieldInfo) (rest : List FieldInfo)
    (h : emitted vals f = true) : firstEm vals (f :: rest) = some f := by
  simp [firstEm, h]

theorem firstEm_cons_omit (vals : Vals) (f : FieldInfo) (rest : List FieldInfo)
    (h : emitted vals f = false) : firstEm vals (f :: rest) = firstEm vals rest := by
  simp [firstEm, h]

theorem firstEm_some_pieces (vals : Vals) (fs : List FieldInfo) (g : FieldInfo)
    (h : firstEm vals fs = some g) : ∃ m ms ps, bodyPieces vals fs = (m :: ms) :: ps := by
  have hne : bodyPieces vals fs ≠ [] := by
    intro e
    have := (piecesE_eq_nil vals _).1 e
    simp [firstEm, this] at h
  cases hb : bodyPieces vals fs with
  | nil => exact absurd hb hne
  | cons p ps =>
    cases p with
    | nil => exact absurd rfl (bodyPieces_pieces_ne vals fs [] (by rw [hb]; simp))
    | cons m ms => exact ⟨m, ms, ps, rfl⟩

theorem render_pieces_gen (vals : Vals) : ∀ (fs : List FieldInfo) (prev : Option FieldInfo),
    renderFields vals fs prev =
      match firstEm vals fs with
      | none => []
      | some g => sepOf prev g ++ renderPieces (bodyPieces vals fs)
  | [], prev => by simp [renderFields, firstEm]
  | f :: rest, prev => by
    by_cases hem : emitted vals f = true
    · rw [renderFields_cons_emit vals f rest prev hem, firstEm_cons_emit vals f rest hem,
        render_pieces_gen vals rest (some f), bodyPieces_cons_emit vals f rest hem]
      simp only [List.append_assoc, List.append_cancel_left_eq]
      show nt vals f ++ _ = _
      cases hfe : firstEm vals rest with
      | none =>
        rw [firstEm_none vals rest hfe]
        simp only [List.append_nil]
        rcases attach_cases vals f none [] with ⟨-, ⟨m, ms, ps', hps, -⟩ | ⟨-, ha⟩⟩ |
          ⟨-, -, ⟨ms, ps', hps, -⟩ | ⟨-, ha⟩⟩ | ⟨-, -, ha⟩
        · cases hps
        · rw [ha]; simp [renderPieces, joinWith]
        · cases hps
        · rw [ha]; simp [renderPieces, joinWith]
        · rw [ha]; simp [renderPieces, joinWith]
      | some g =>
        obtain ⟨m, ms, ps, hb⟩ := firstEm_some_pieces vals rest g hfe
        rw [hb]
        simp only [sepOf]
        rcases attach_cases vals f (some g) ((m :: ms) :: ps) with ⟨hi, ⟨m', ms', ps', hps, ha⟩ | ⟨hne, -⟩⟩ |
          ⟨hi, hc, ⟨ms', ps', hps, ha⟩ | ⟨hps, -⟩⟩ | ⟨hi, hc, ha⟩
        · cases hps
          rw [ha]
          simp only [hi, if_true, List.nil_append, renderPieces, List.map_cons]
          rw [joinWith_cons_append, joinWith_cons_append]
        · exact absurd rfl (hne m ms ps)
        · cases hps
          rw [ha]
          have hc' : (f.opts.group && g.opts.group) = true := hc
          simp only [hi, Bool.false_eq_true, if_false, hc', if_true, renderPieces, List.map_cons]
          have : joinWith comma (nt vals f :: m :: ms) = (nt vals f ++ [comma]) ++ joinWith comma (m :: ms) := by
            simp [joinWith]
          rw [this, joinWith_cons_append]
          simp
        · cases hps
        · rw [ha]
          have hc' : (f.opts.group && g.opts.group) = false := hc
          simp only [hi, Bool.false_eq_true, if_false, hc', renderPieces, List.map_cons]
          simp [joinWith]
    · simp only [Bool.not_eq_true] at hem
      rw [renderFields_cons_omit vals f rest prev hem, firstEm_cons_omit vals f rest hem,
        bodyPieces_cons_omit vals f rest hem]
      exact render_pieces_gen vals rest prev

/-- What Marshal writes after the prefix is the rendering of the pieces. -/
theorem render_pieces (vals : Vals) (fs : List FieldInfo) :
    renderFields vals fs none = renderPieces (bodyPieces vals fs) := by
  rw [render_pieces_gen vals fs none]
  cases hfe : firstEm vals fs with
  | none => rw [firstEm_none vals fs hfe]; simp [renderPieces, joinWith]
  | some g => simp [sepOf]

/-- Every member of every piece is delimiter-free when every written text is. -/
theorem bodyPieces_noDelim (vals : Vals) : ∀ (fs : List FieldInfo),
    (∀ f ∈ fs, emitted vals f = true → NoDelim (nt vals f)) →
    ∀ ms ∈ bodyPieces vals fs, ∀ m ∈ ms, NoDelim m
  | [], _, ms, h, _, _ => by simp [bodyPieces_nil] at h
  | f :: rest, hnd, ms, hms, m, hm => by
    have ih := bodyPieces_noDelim vals rest (fun g hg => hnd g (by simp [hg]))
    by_cases hem : emitted vals f = true
    · have hf := hnd f (by simp) hem
      rw [bodyPieces_cons_emit vals f rest hem] at hms
      rcases attach_cases vals f (firstEm vals rest) (bodyPieces vals rest) with
        ⟨-, ⟨m', ms', ps', hps, ha⟩ | ⟨-, ha⟩⟩ | ⟨-, -, ⟨ms', ps', hps, ha⟩ | ⟨-, ha⟩⟩ | ⟨-, -, ha⟩ <;>
        rw [ha] at hms
      · simp only [List.mem_cons] at hms
        rcases hms with rfl | hms
        · simp only [List.mem_cons] at hm
          rcases hm with rfl | hm
          · intro c hc
            simp only [List.mem_append] at hc
            rcases hc with hc | hc
            · exact hf c hc
            · exact ih (m' :: ms') (by rw [hps]; simp) m' (by simp) c hc
          · exact ih (m' :: ms') (by rw [hps]; simp) m (by simp [hm])
        · exact ih ms (by rw [hps]; simp [hms]) m hm
      · simp only [List.mem_cons, List.not_mem_nil, or_false] at hms
        subst hms
        simp only [List.mem_cons, List.not_mem_nil, or_false] at hm
        subst hm; exact hf
      · simp only [List.mem_cons] at hms
        rcases hms with rfl | hms
        · simp only [List.mem_cons] at hm
          rcases hm with rfl | hm
          · exact hf
          · exact ih ms' (by rw [hps]; simp) m hm
        · exact ih ms (by rw [hps]; simp [hms]) m hm
      · simp only [List.mem_cons, List.not_mem_nil, or_false] at hms
        subst hms
        simp only [List.mem_cons, List.not_mem_nil, or_false] at hm
        subst hm; exact hf
      · simp only [List.mem_cons] at hms
        rcases hms with rfl | hms
        · simp only [List.mem_cons, List.not_mem_nil, or_false] at hm
          subst hm; exact hf
        · exact ih ms hms m hm
    · simp only [Bool.not_eq_true] at hem
      rw [bodyPieces_cons_omit vals f rest hem] at hms
      exact ih ms hms m hm

end GoCrypt.Codec
