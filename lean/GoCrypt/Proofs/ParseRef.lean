import GoCrypt.Proofs.Parse
import GoCrypt.Proofs.Dispatch
import GoCrypt.Spec.RefParse

/-!
# The model parser equals the split-based reference parser

`parse_eq_ref : parse s = refParse s` for every byte string, node positions included, plus two
corollaries on the model: no value text contains a delimiter, and a fragment is a group exactly when
its `$`-separated piece contains a comma.
-/

namespace GoCrypt.Parse
open Bytes GoCrypt.RefParse

/-! ## `splitOn` -/

theorem splitOn_ne_nil (d : UInt8) (s : Bytes) : splitOn d s ≠ [] := by
  cases s with
  | nil => simp [splitOn]
  | cons c cs =>
    unfold splitOn
    split
    · simp
    · split <;> simp

/-- A delimiter-free text in front of `b` is glued onto the first piece of `b`. -/
theorem splitOn_append (d : UInt8) (a b : Bytes) (ha : ∀ c ∈ a, c ≠ d) (p : Bytes) (ps : List Bytes)
    (hb : splitOn d b = p :: ps) : splitOn d (a ++ b) = (a ++ p) :: ps := by
  induction a with
  | nil => simpa using hb
  | cons c a ih =>
    have hc : c ≠ d := ha c (by simp)
    have := ih (fun x hx => ha x (by simp [hx]))
    simp [splitOn, hc, this]

theorem splitOn_plain (d : UInt8) (a : Bytes) (ha : ∀ c ∈ a, c ≠ d) : splitOn d a = [a] := by
  have := splitOn_append d a [] ha [] [] (by simp [splitOn])
  simpa using this

theorem splitOn_append_delim (d : UInt8) (a b : Bytes) (ha : ∀ c ∈ a, c ≠ d) :
    splitOn d (a ++ d :: b) = a :: splitOn d b := by
  have := splitOn_append d a (d :: b) ha [] (splitOn d b) (by simp [splitOn])
  simpa using this

/-- No piece contains the delimiter. -/
theorem splitOn_no_delim (d : UInt8) (s : Bytes) : ∀ p ∈ splitOn d s, ∀ c ∈ p, c ≠ d := by
  induction s with
  | nil => simp [splitOn]
  | cons c cs ih =>
    unfold splitOn
    by_cases hc : c = d
    · simp only [hc, if_true]
      intro p hp
      simp only [List.mem_cons] at hp
      rcases hp with rfl | hp
      · simp
      · exact ih p hp
    · simp only [hc, if_false]
      cases hs : splitOn d cs with
      | nil => exact absurd hs (splitOn_ne_nil d cs)
      | cons q qs =>
        rw [hs] at ih
        intro p hp
        simp only [List.mem_cons] at hp
        rcases hp with rfl | hp
        · intro x hx
          simp only [List.mem_cons] at hx
          rcases hx with rfl | hx
          · exact hc
          · exact ih q (by simp) x hx
        · exact ih p (by simp [hp])

/-- Every byte of a piece is a byte of the text. -/
theorem splitOn_subset (d : UInt8) (s : Bytes) : ∀ p ∈ splitOn d s, ∀ c ∈ p, c ∈ s := by
  induction s with
  | nil => simp [splitOn]
  | cons c cs ih =>
    unfold splitOn
    by_cases hc : c = d
    · simp only [hc, if_true]
      intro p hp
      simp only [List.mem_cons] at hp
      rcases hp with rfl | hp
      · simp
      · intro x hx; exact List.mem_cons_of_mem _ (ih p hp x hx)
    · simp only [hc, if_false]
      cases hs : splitOn d cs with
      | nil => exact absurd hs (splitOn_ne_nil d cs)
      | cons q qs =>
        rw [hs] at ih
        intro p hp
        simp only [List.mem_cons] at hp
        rcases hp with rfl | hp
        · intro x hx
          simp only [List.mem_cons] at hx
          rcases hx with rfl | hx
          · simp
          · exact List.mem_cons_of_mem _ (ih q (by simp) x hx)
        · intro x hx; exact List.mem_cons_of_mem _ (ih p (by simp [hp]) x hx)

/-! ## `mkValues` -/

theorem mkValues_ne_nil (off : Nat) (ps : List Bytes) (h : ps ≠ []) : mkValues off ps ≠ [] := by
  cases ps with
  | nil => exact absurd rfl h
  | cons p ps => simp [mkValues]

theorem mkValues_val_mem (ps : List Bytes) : ∀ (off : Nat), ∀ n ∈ mkValues off ps, n.val ∈ ps := by
  induction ps with
  | nil => simp [mkValues]
  | cons p ps ih =>
    intro off n hn
    simp only [mkValues, List.mem_cons] at hn
    rcases hn with rfl | hn
    · simp
    · exact List.mem_cons_of_mem _ (ih _ n hn)

/-! ## The reference fragment builder, generalised over an open group -/

/-- The parser's `group` field for a list of already collected members. -/
def grp (g : List VNode) : Option (List VNode) := if g = [] then none else some g

/-- `mkFrag` with members `g` of the same group already collected to the left of `piece`. -/
def gFrag (g : List VNode) (off : Nat) (piece : Bytes) (isLast : Bool) : Option Frag :=
  let parts := splitOn comma piece
  let vs := mkValues off parts
  let vs := if isLast && parts.getLast? == some [] then vs.dropLast else vs
  if g = [] ∧ parts.length = 1 then vs.head?.map Frag.value else some (Frag.group (g ++ vs))

def gFrags (g : List VNode) (off : Nat) : List Bytes → List Frag
  | [] => []
  | [p] => (gFrag g off p true).toList
  | p :: q :: rest => (gFrag g off p false).toList ++ mkFrags (off + p.length + 1) (q :: rest)

theorem gFrag_nil (off : Nat) (p : Bytes) (l : Bool) : gFrag [] off p l = mkFrag off p l := by
  simp [gFrag, mkFrag]

theorem gFrags_nil (off : Nat) (ps : List Bytes) : gFrags [] off ps = mkFrags off ps := by
  match ps with
  | [] => rfl
  | [p] => simp [gFrags, mkFrags, gFrag_nil]
  | p :: q :: rest => simp [gFrags, mkFrags, gFrag_nil]

/-- The fragment closed by a value `v` when members `g` are already collected. -/
def fragOf (g : List VNode) (v : VNode) : Frag :=
  if g = [] then Frag.value v else Frag.group (g ++ [v])

theorem gFrag_plain (g : List VNode) (off : Nat) (cur : Bytes) (h : ∀ c ∈ cur, c ≠ comma) :
    gFrag g off cur false = some (fragOf g ⟨cur, off, off + cur.length⟩) := by
  unfold gFrag fragOf
  rw [splitOn_plain comma cur h]
  by_cases hg : g = [] <;> simp [hg, mkValues]

theorem gFrag_plain_last (g : List VNode) (off : Nat) (cur : Bytes) (h : ∀ c ∈ cur, c ≠ comma)
    (hne : cur ≠ []) :
    gFrag g off cur true = some (fragOf g ⟨cur, off, off + cur.length⟩) := by
  unfold gFrag fragOf
  rw [splitOn_plain comma cur h]
  by_cases hg : g = [] <;> simp [hg, mkValues, hne]

theorem gFrag_empty_last (g : List VNode) (off : Nat) :
    gFrag g off [] true = (grp g).map Frag.group := by
  unfold gFrag grp
  by_cases hg : g = [] <;> simp [hg, mkValues, splitOn]

/-- A comma after a delimiter-free text closes one more member of the group. -/
theorem gFrag_comma (g : List VNode) (off : Nat) (cur p : Bytes) (l : Bool)
    (h : ∀ c ∈ cur, c ≠ comma) :
    gFrag g off (cur ++ comma :: p) l =
      gFrag (g ++ [⟨cur, off, off + cur.length⟩]) (off + cur.length + 1) p l := by
  unfold gFrag
  rw [splitOn_append_delim comma cur p h]
  have hne := splitOn_ne_nil comma p
  cases hs : splitOn comma p with
  | nil => exact absurd hs hne
  | cons q qs =>
    have hv : mkValues (off + cur.length + 1) (q :: qs) ≠ [] := mkValues_ne_nil _ _ (by simp)
    simp only [mkValues] at hv ⊢
    simp [List.getLast?_cons_cons, List.dropLast_cons_of_ne_nil hv]
    split <;> simp

/-! ## The fragment loop computes the reference fragments -/

theorem grp_getD (g : List VNode) : (grp g).getD [] = g := by
  unfold grp; by_cases hg : g = [] <;> simp [hg]

theorem grp_snoc (g : List VNode) (v : VNode) : grp (g ++ [v]) = some (g ++ [v]) := by
  simp [grp]

theorem flush_push (pfx : Option Bytes) (frags : List Frag) (g : List VNode) (start : Nat) (acc : Bytes) :
    (pushValue ⟨pfx, frags, grp g, none⟩ start acc).flush =
      ⟨pfx, frags ++ [fragOf g ⟨acc.reverse, start, start + acc.reverse.length⟩], none, none⟩ := by
  unfold grp fragOf
  by_cases hg : g = [] <;> simp [hg, pushValue, PState.flush]

theorem flush_idle (pfx : Option Bytes) (frags : List Frag) (g : List VNode) :
    (⟨pfx, frags, grp g, none⟩ : PState).flush =
      ⟨pfx, frags ++ ((grp g).map Frag.group).toList, none, none⟩ := by
  unfold grp
  by_cases hg : g = [] <;> simp [hg, PState.flush]

/-- From a state with no pending value, open group `g`, and a delimiter-free partial value
`acc.reverse` starting at `start`, the loop appends exactly the reference fragments of the remaining
text. -/
theorem loop_eq_ref (rest : Bytes) : ∀ (pfx : Option Bytes) (frags : List Frag) (g : List VNode)
    (start : Nat) (acc : Bytes), (∀ c ∈ acc, c ≠ dollar ∧ c ≠ comma) →
    parseToks ⟨pfx, frags, grp g, none⟩ (lexFrag rest start acc) =
      .ok ⟨pfx, frags ++ gFrags g start (splitOn dollar (acc.reverse ++ rest))⟩ := by
  induction rest with
  | nil =>
    intro pfx frags g start acc hacc
    have hd : ∀ c ∈ acc.reverse, c ≠ dollar := fun c hc => (hacc c (by simpa using hc)).1
    have hc : ∀ c ∈ acc.reverse, c ≠ comma := fun c hc => (hacc c (by simpa using hc)).2
    rw [parseToks_lexFrag_nil, List.append_nil, splitOn_plain dollar _ hd]
    by_cases he : acc = []
    · subst he
      simp [flush_idle, gFrags, gFrag_empty_last]
    · have hne : acc.reverse ≠ [] := by simpa using he
      simp [he, flush_push, gFrags, gFrag_plain_last g start _ hc hne]
  | cons c cs ih =>
    intro pfx frags g start acc hacc
    have hd : ∀ c ∈ acc.reverse, c ≠ dollar := fun c hc => (hacc c (by simpa using hc)).1
    have hc : ∀ c ∈ acc.reverse, c ≠ comma := fun c hc => (hacc c (by simpa using hc)).2
    by_cases h1 : c = dollar
    · subst h1
      rw [parseToks_lexFrag_dollar, flush_push, splitOn_append_delim dollar _ cs hd]
      have := ih pfx (frags ++ [fragOf g ⟨acc.reverse, start, start + acc.reverse.length⟩]) []
        (start + acc.length + 1) [] (by simp)
      simp only [grp, if_true, List.reverse_nil, List.nil_append] at this
      rw [this, gFrags_nil]
      cases hs : splitOn dollar cs with
      | nil => exact absurd hs (splitOn_ne_nil _ _)
      | cons q qs =>
        simp [gFrags, gFrag_plain g start _ hc]
    · by_cases h2 : c = comma
      · subst h2
        rw [parseToks_lexFrag_comma]
        simp only [grp_getD]
        rw [← grp_snoc]
        rw [ih pfx frags _ (start + acc.length + 1) [] (by simp)]
        simp only [List.reverse_nil, List.nil_append]
        cases hs : splitOn dollar cs with
        | nil => exact absurd hs (splitOn_ne_nil _ _)
        | cons q qs =>
          rw [splitOn_append dollar acc.reverse (comma :: cs) hd (comma :: q) qs
            (by simp [splitOn, hs, show comma ≠ dollar by decide])]
          cases qs with
          | nil => simp [gFrags, gFrag_comma g start _ q _ hc]
          | cons r rs =>
            simp [gFrags, gFrag_comma g start _ q _ hc]
            congr 1; omega
      · rw [parseToks_lexFrag_other _ _ _ _ _ h1 h2]
        rw [ih pfx frags g start (c :: acc) (by
          intro x hx
          simp only [List.mem_cons] at hx
          rcases hx with rfl | hx
          · exact ⟨h1, h2⟩
          · exact hacc x hx)]
        simp

/-- The loop started right after the prefix. -/
theorem loop_start (pfx : Option Bytes) (rest : Bytes) (start : Nat) :
    parseToks { pfx := pfx } (lexFrag rest start []) =
      .ok ⟨pfx, mkFrags start (splitOn dollar rest)⟩ := by
  have := loop_eq_ref rest pfx [] [] start [] (by simp)
  simpa [grp, gFrags_nil] using this

/-! ## Main theorem -/

theorem parse_eq_ref (s : Bytes) : GoCrypt.Parse.parse s = GoCrypt.RefParse.refParse s := by
  unfold parse tokens refParse refPrefix
  cases s with
  | nil =>
    have := loop_start none [] 0
    simpa using this
  | cons c rest =>
    by_cases hc : c = dollar
    · subst hc
      simp only [if_true]
      cases hi : indexDelim rest with
      | none => simp [GoCrypt.C07.takeWhile_of_indexDelim_none rest hi, parseToks]
      | some i =>
        have hl := GoCrypt.C07.takeWhile_of_indexDelim_some rest i hi
        have hlt := indexDelim_lt rest i hi
        cases i with
        | zero =>
          simp only [hl]
          have h0 : ¬ (0 = rest.length) := by omega
          simp [h0, parseToks]
        | succ i =>
          simp only [hl]
          have h1 : ¬ (i + 1 = rest.length) := by omega
          have hlen : ((dollar :: rest).take (i + 3)).length = i + 3 := by
            simp [List.length_take]; omega
          simp only [h1, if_false, parseToks]
          have := loop_start (some ((dollar :: rest).take (i + 3))) ((dollar :: rest).drop (i + 3)) (i + 3)
          have hmin : min (i + 2) rest.length = i + 2 := by omega
          simp [hmin] at this ⊢
          exact this
    · by_cases hu : c = underscore
      · subst hu
        have hne : underscore ≠ dollar := by decide
        simp only [hne, if_false, if_true, parseToks]
        have := loop_start (some [underscore]) rest 1
        simpa using this
      · simp only [hc, hu, if_false]
        have := loop_start none (c :: rest) 0
        simpa using this

/-! ## Corollary 1: value texts are delimiter-free -/

theorem mkFrag_nodes (off : Nat) (p : Bytes) (l : Bool) (f : Frag) (h : mkFrag off p l = some f) :
    ∀ n ∈ f.nodes, n.val ∈ splitOn comma p := by
  unfold mkFrag at h
  simp only at h
  generalize hvs : (if (l && (splitOn comma p).getLast? == some []) = true
    then (mkValues off (splitOn comma p)).dropLast else mkValues off (splitOn comma p)) = vs at h
  have hsub : ∀ n ∈ vs, n ∈ mkValues off (splitOn comma p) := by
    intro n hn
    rw [← hvs] at hn
    split at hn
    · exact List.dropLast_subset _ hn
    · exact hn
  intro n hn
  apply mkValues_val_mem _ off
  apply hsub
  split at h
  · cases vs with
    | nil => simp at h
    | cons v vs' =>
      simp at h; subst h
      simp only [Frag.nodes, List.mem_singleton] at hn
      subst hn; simp
  · simp only [Option.some.injEq] at h
    subst h
    exact hn

theorem mkFrags_nodes (ps : List Bytes) : ∀ (off : Nat), ∀ f ∈ mkFrags off ps, ∀ n ∈ f.nodes,
    ∃ p ∈ ps, n.val ∈ splitOn comma p := by
  induction ps with
  | nil => intro off f hf; simp [mkFrags] at hf
  | cons p ps ih =>
    intro off f hf n hn
    cases ps with
    | nil =>
      simp only [mkFrags, Option.mem_toList] at hf
      exact ⟨p, by simp, mkFrag_nodes off p true f hf n hn⟩
    | cons q qs =>
      simp only [mkFrags, List.mem_append, Option.mem_toList] at hf
      rcases hf with hf | hf
      · exact ⟨p, by simp, mkFrag_nodes off p false f hf n hn⟩
      · obtain ⟨p', hp', hv⟩ := ih _ f hf n hn
        exact ⟨p', List.mem_cons_of_mem _ hp', hv⟩

/-- No value text contains a delimiter: comma-joined values always surface as one group. -/
theorem values_no_delim (s : Bytes) (t : Tree) (h : parse s = .ok t) :
    ∀ n ∈ t.nodes, ∀ c ∈ n.val, c ≠ dollar ∧ c ≠ comma := by
  rw [parse_eq_ref] at h
  unfold refParse at h
  split at h
  · cases h
  · next p rest _ =>
    simp only [Result.ok.injEq] at h
    subst h
    intro n hn c hc
    simp only [Tree.nodes, List.mem_flatMap] at hn
    obtain ⟨f, hf, hnf⟩ := hn
    obtain ⟨piece, hp, hv⟩ := mkFrags_nodes _ _ f hf n hnf
    refine ⟨?_, splitOn_no_delim comma piece _ hv c hc⟩
    exact splitOn_no_delim dollar rest piece hp c (splitOn_subset comma piece _ hv c hc)

/-! ## Corollary 2: a fragment is a group iff its `$`-separated piece contains a comma -/

theorem splitOn_length_one_iff (d : UInt8) (s : Bytes) :
    (splitOn d s).length = 1 ↔ ∀ c ∈ s, c ≠ d := by
  constructor
  · induction s with
    | nil => simp
    | cons c cs ih =>
      unfold splitOn
      by_cases hc : c = d
      · simp only [hc, if_true, List.length_cons]
        intro h
        have := splitOn_ne_nil d cs
        cases hs : splitOn d cs with
        | nil => exact absurd hs this
        | cons q qs => simp [hs] at h
      · simp only [hc, if_false]
        cases hs : splitOn d cs with
        | nil => exact absurd hs (splitOn_ne_nil d cs)
        | cons q qs =>
          intro h
          simp only [List.length_cons] at h
          have := ih (by rw [hs]; simpa using h)
          intro x hx
          simp only [List.mem_cons] at hx
          rcases hx with rfl | hx
          · exact hc
          · exact this x hx
  · intro h; simp [splitOn_plain d s h]

def Frag.isGroup : Frag → Bool
  | .group _ => true
  | .value _ => false

/-- `mkFrag` yields a group exactly for a piece containing a comma … -/
theorem mkFrag_group_iff (off : Nat) (p : Bytes) (l : Bool) :
    (∃ vs, mkFrag off p l = some (Frag.group vs)) ↔ comma ∈ p := by
  by_cases hm : comma ∈ p
  case neg =>
    have hcm : ∀ c ∈ p, c ≠ comma := fun c hc e => hm (e ▸ hc)
    have hn : comma ∉ p := hm
    unfold mkFrag
    rw [splitOn_plain comma p hcm]
    simp [hn]
  case pos =>
    have hlen : (splitOn comma p).length ≠ 1 :=
      fun h => (splitOn_length_one_iff comma p).1 h comma hm rfl
    unfold mkFrag
    simp [hlen, hm]

/-- … and yields nothing only for an empty final piece. -/
theorem mkFrag_isGroup (off : Nat) (p : Bytes) (l : Bool) :
    (mkFrag off p l).toList.map Frag.isGroup =
      if l = true ∧ p = [] then [] else [p.contains comma] := by
  by_cases hm : comma ∈ p
  case neg =>
    have hcm : ∀ c ∈ p, c ≠ comma := fun c hc e => hm (e ▸ hc)
    have hn : p.contains comma = false := by
      simp only [List.contains_eq_mem, decide_eq_false_iff_not]
      exact hm
    unfold mkFrag
    rw [splitOn_plain comma p hcm, hn]
    cases l <;> by_cases hp : p = [] <;> simp [mkValues, hp, Frag.isGroup]
  case pos =>
    have hlen : (splitOn comma p).length ≠ 1 :=
      fun h => (splitOn_length_one_iff comma p).1 h comma hm rfl
    have hp : p ≠ [] := by intro e; subst e; simp at hm
    unfold mkFrag
    simp [hlen, hm, hp, Frag.isGroup]

/-- The `$`-separated pieces that give rise to a fragment: all of them, except an empty last one
(nothing follows the final `$`, or the input is empty). -/
def trimLast (ps : List Bytes) : List Bytes := if ps.getLast? = some [] then ps.dropLast else ps

theorem mkFrags_isGroup (ps : List Bytes) : ∀ (off : Nat),
    (mkFrags off ps).map Frag.isGroup = (trimLast ps).map (fun p => p.contains comma) := by
  induction ps with
  | nil => intro off; simp [mkFrags, trimLast]
  | cons p ps ih =>
    intro off
    cases ps with
    | nil =>
      simp only [mkFrags, mkFrag_isGroup, trimLast]
      by_cases hp : p = [] <;> simp [hp]
    | cons q qs =>
      have ht : trimLast (p :: q :: qs) = p :: trimLast (q :: qs) := by
        unfold trimLast
        rw [List.getLast?_cons_cons]
        split <;> simp
      simp only [mkFrags, List.map_append, mkFrag_isGroup, ih, ht]
      simp

/-- A fragment is a group iff its `$`-separated piece contains a comma: the fragments of the parse
tree correspond one-to-one, in order, to the `$`-separated pieces of the text after the prefix
(an empty last piece excepted), and the i-th fragment is a group exactly when the i-th piece
contains a comma. -/
theorem frag_group_iff_comma (s : Bytes) (t : Tree) (h : parse s = .ok t) :
    ∃ rest, refPrefix s = .ok (t.pfx, rest) ∧
      t.frags.map Frag.isGroup = (trimLast (splitOn dollar rest)).map (fun p => p.contains comma) := by
  rw [parse_eq_ref] at h
  unfold refParse at h
  split at h
  · cases h
  · next p rest hr =>
    simp only [Result.ok.injEq] at h
    subst h
    exact ⟨rest, hr, mkFrags_isGroup _ _⟩

#print axioms parse_eq_ref
#print axioms values_no_delim
#print axioms frag_group_iff_comma
#print axioms mkFrag_group_iff

end GoCrypt.Parse
