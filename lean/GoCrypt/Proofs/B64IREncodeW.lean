import GoCrypt.Proofs.B64IREncode

/-!
# Buffer IR of `hash/base64le`: `Encode` of a source WINDOW

`B64IREncode.encode_proc` is stated for a source that is a whole buffer. Here the source is any window
`⟨s, off, n, cp⟩` of a buffer `S` (`off + n ≤ S.size`; `Encode` never re-slices `src`, so the capacity
`cp` is irrelevant, and `off` never enters Go-`int` arithmetic, so it needs no bound). The model side
speaks about `winBuf S off n`, the bytes of the window. Helper lemmas only.
-/

namespace GoCrypt.B64IR
open GoCrypt.Base64LE GoCrypt.Gen.base64leIR GoCrypt.Gen.base64le GoCrypt.Spec.Base64Bits

/-! ## The bytes of a window -/

/-- The bytes `S[off : off+n]` as a buffer of their own. -/
def winBuf (S : Buf) (off n : Nat) : Buf := ((S.toList.drop off).take n).toArray

theorem winBuf_toList (S : Buf) (off n : Nat) : (winBuf S off n).toList = (S.toList.drop off).take n := rfl

theorem winBuf_size (S : Buf) (off n : Nat) (hw : off + n ≤ S.size) : (winBuf S off n).size = n := by
  simp [winBuf]; omega

theorem winBuf_lt (S : Buf) (off n i : Nat) (h : i < (winBuf S off n).size) : off + i < S.size := by
  simp [winBuf] at h; omega

theorem winBuf_getElem (S : Buf) (off n i : Nat) (h : i < (winBuf S off n).size) :
    (winBuf S off n)[i] = S[off + i]'(winBuf_lt S off n i h) := by
  simp [winBuf]

/-! ## One iteration of the main loop -/

theorem encBody_stepW (c : Ctx) (e : Encoding) (hal : e.alphabet.length = 64) (H : Heap) (d s dn : Nat) (D S : Buf)
    (off n cp di si : Nat) (vn v6 v7 v8 v9 : Val)
    (hd : H[d]? = some D) (hs : H[s]? = some S) (hdn : D.size = dn) (hw : off + n ≤ S.size)
    (hsi : si + 2 < n) (hdi : di + 3 < dn) (hsz : n < 2 ^ 62) (hdz : dn < 2 ^ 62) :
    exec c encBody H [encVal e, .slice ⟨d, 0, dn, dn⟩, .slice ⟨s, off, n, cp⟩, .int di, .int si, vn, v6, v7, v8, v9] =
    .norm (H.set d ((((D.setIfInBounds di (e.sym (Encode_sym0 (Encode_val S[off + si].toNat S[off + (si+1)].toNat S[off + (si+2)].toNat)))).setIfInBounds
        (di + 1) (e.sym (Encode_sym1 (Encode_val S[off + si].toNat S[off + (si+1)].toNat S[off + (si+2)].toNat)))).setIfInBounds
        (di + 2) (e.sym (Encode_sym2 (Encode_val S[off + si].toNat S[off + (si+1)].toNat S[off + (si+2)].toNat)))).setIfInBounds
        (di + 3) (e.sym (Encode_sym3 (Encode_val S[off + si].toNat S[off + (si+1)].toNat S[off + (si+2)].toNat)))))
      [encVal e, .slice ⟨d, 0, dn, dn⟩, .slice ⟨s, off, n, cp⟩, .int (di + 4 : Nat), .int (si + 3 : Nat), vn,
        .int (Encode_val S[off + si].toNat S[off + (si+1)].toNat S[off + (si+2)].toNat), v7, v8, v9] := by
  have hdl : d < H.length := heap_lt_of_get hd
  have q := quantum_digits (S[off + si]).toNat_lt (S[off + (si+1)]).toNat_lt (S[off + (si+2)]).toNat_lt
  have b0 : Encode_sym0 (Encode_val S[off + si].toNat S[off + (si+1)].toNat S[off + (si+2)].toNat) < 64 := by rw [q.1]; exact digit_lt _ _
  have b1 : Encode_sym1 (Encode_val S[off + si].toNat S[off + (si+1)].toNat S[off + (si+2)].toNat) < 64 := by rw [q.2.1]; exact digit_lt _ _
  have b2 : Encode_sym2 (Encode_val S[off + si].toNat S[off + (si+1)].toNat S[off + (si+2)].toNat) < 64 := by rw [q.2.2.1]; exact digit_lt _ _
  have b3 : Encode_sym3 (Encode_val S[off + si].toNat S[off + (si+1)].toNat S[off + (si+2)].toNat) < 64 := by rw [q.2.2.2]; exact digit_lt _ _
  have i0 := indexBytes_nat e.alphabet _ (show _ < e.alphabet.length from hal ▸ b0)
  have i1 := indexBytes_nat e.alphabet _ (show _ < e.alphabet.length from hal ▸ b1)
  have i2 := indexBytes_nat e.alphabet _ (show _ < e.alphabet.length from hal ▸ b2)
  have i3 := indexBytes_nat e.alphabet _ (show _ < e.alphabet.length from hal ▸ b3)
  simp only [Encode_sym0, Encode_sym1, Encode_sym2, Encode_sym3, Encode_val] at i0 i1 i2 i3
  clear q b0 b1 b2 b3
  simp only [encBody, encFor, Stmt.forBody, Stmt.head, Stmt.drop, encodeIR, encVal]
  b64_simp [hs, hd, hdn, i0, i1, i2, i3]
  rfl

/-! ## The main loop -/

/-- Heap and frame at the start of iteration `k` of the main loop (source = window of `S`). -/
def encStW (e : Encoding) (h : Heap) (d s : Nat) (dst S : Buf) (off n cp : Nat) (k : Nat) : Heap × Env :=
  (h.set d (encBuf e dst (winBuf S off n) k),
   [encVal e, .slice ⟨d, 0, dst.size, dst.size⟩, .slice ⟨s, off, n, cp⟩, .int (4 * k : Nat), .int (3 * k : Nat),
    .int (n / 3 * 3 : Nat), encV6 (winBuf S off n) k, .undef, .undef, .undef])

/-- `encBuf_succ` with the window's bytes read in `S`. -/
theorem encBuf_succW (e : Encoding) (dst S : Buf) (off n k : Nat) (hw : off + n ≤ S.size) (hk : 3 * k + 2 < n) :
    encBuf e dst (winBuf S off n) (k + 1) =
      ((((encBuf e dst (winBuf S off n) k).setIfInBounds (4 * k) (e.sym (Encode_sym0 (Encode_val S[off + 3 * k].toNat S[off + (3 * k + 1)].toNat S[off + (3 * k + 2)].toNat)))).setIfInBounds
        (4 * k + 1) (e.sym (Encode_sym1 (Encode_val S[off + 3 * k].toNat S[off + (3 * k + 1)].toNat S[off + (3 * k + 2)].toNat)))).setIfInBounds
        (4 * k + 2) (e.sym (Encode_sym2 (Encode_val S[off + 3 * k].toNat S[off + (3 * k + 1)].toNat S[off + (3 * k + 2)].toNat)))).setIfInBounds
        (4 * k + 3) (e.sym (Encode_sym3 (Encode_val S[off + 3 * k].toNat S[off + (3 * k + 1)].toNat S[off + (3 * k + 2)].toNat))) := by
  have hsz := winBuf_size S off n hw
  rw [encBuf_succ e dst (winBuf S off n) k (by omega)]
  simp only [winBuf_getElem]

theorem encV6_succW (S : Buf) (off n k : Nat) (hw : off + n ≤ S.size) (hk : 3 * k + 2 < n) :
    encV6 (winBuf S off n) (k + 1) =
      .int (Encode_val S[off + 3 * k].toNat S[off + (3 * k + 1)].toNat S[off + (3 * k + 2)].toNat) := by
  have hsz := winBuf_size S off n hw
  simp only [encV6, arr_getD_eq (show 3 * k < (winBuf S off n).size by omega),
    arr_getD_eq (show 3 * k + 1 < (winBuf S off n).size by omega),
    arr_getD_eq (show 3 * k + 2 < (winBuf S off n).size by omega), winBuf_getElem]

theorem encLoopW (c : Ctx) (e : Encoding) (hal : e.alphabet.length = 64) (h : Heap) (d s : Nat) (dst S : Buf)
    (off n cp : Nat) (hd : h[d]? = some dst) (hs : h[s]? = some S) (hne : d ≠ s) (hw : off + n ≤ S.size)
    (hlen : encodedLen e n ≤ dst.size) (hdz : dst.size < 2 ^ 62) :
    exec c encFor (encStW e h d s dst S off n cp 0).1 (encStW e h d s dst S off n cp 0).2 =
      .norm (encStW e h d s dst S off n cp (n / 3)).1 (encStW e h d s dst S off n cp (n / 3)).2 := by
  have hle := le_encodedLen e n
  have hdl : d < h.length := heap_lt_of_get hd
  rw [encFor_eq, exec_for]
  have hfuel : (eval (encStW e h d s dst S off n cp 0).1 (encStW e h d s dst S off n cp 0).2 encFor.forFuel >>= asInt) =
      .ok ((1 + dst.size + n : Nat) : Int) := by
    simp only [encFor, Stmt.forFuel, Stmt.head, Stmt.drop, encodeIR, encStW]
    b64_simp []
    rfl
  rw [hfuel, bindR_ok, Int.toNat_natCast]
  refine loop_count _ _ _ (encStW e h d s dst S off n cp) (n / 3) ?_ ?_ ?_ ?_ _ 0 (Nat.zero_le _) (by omega)
  · intro k hk
    simp only [encFor, Stmt.forCond, Stmt.head, Stmt.drop, encodeIR, encStW]
    b64_simp []
    exact congrArg _ (decide_eq_true (by omega))
  · simp only [encFor, Stmt.forCond, Stmt.head, Stmt.drop, encodeIR, encStW]
    b64_simp []
    exact congrArg _ (decide_eq_false (by omega))
  · intro k hk
    have hstep := encBody_stepW c e hal (h.set d (encBuf e dst (winBuf S off n) k)) d s dst.size
      (encBuf e dst (winBuf S off n) k) S off n cp
      (4 * k) (3 * k) (.int (n / 3 * 3 : Nat)) (encV6 (winBuf S off n) k) .undef .undef .undef
      (List.getElem?_set_self hdl) (by rw [List.getElem?_set_ne hne]; exact hs) (encBuf_size _ _ _ _) hw
      (by omega) (by omega) (by omega) hdz
    simp only [encStW]
    rw [hstep, andThen_norm, exec_skip, List.set_set, ← encBuf_succW e dst S off n k hw (by omega),
      ← encV6_succW S off n k hw (by omega)]
    simp only [Nat.mul_succ]
  · intro k hk
    have hstep := encBody_stepW c e hal (h.set d (encBuf e dst (winBuf S off n) k)) d s dst.size
      (encBuf e dst (winBuf S off n) k) S off n cp
      (4 * k) (3 * k) (.int (n / 3 * 3 : Nat)) (encV6 (winBuf S off n) k) .undef .undef .undef
      (List.getElem?_set_self hdl) (by rw [List.getElem?_set_ne hne]; exact hs) (encBuf_size _ _ _ _) hw
      (by omega) (by omega) (by omega) hdz
    exact ⟨_, _, hstep⟩

/-! ## Before the loop -/

theorem encPrefix_emptyW (c : Ctx) (e : Encoding) (h : Heap) (d s dn off cp : Nat) :
    exec c encPrefix h ([encVal e, .slice ⟨d, 0, dn, dn⟩, .slice ⟨s, off, 0, cp⟩] ++ List.replicate 7 .undef) =
      .ret h [] := by
  simp only [encPrefix, Stmt.take, encodeIR, encVal]
  b64_simp []

theorem encPrefix_runW (c : Ctx) (e : Encoding) (h : Heap) (d s : Nat) (dst S : Buf) (off n cp : Nat)
    (hd : h[d]? = some dst) (hz : n ≠ 0) (hsz : n < 2 ^ 62) :
    exec c encPrefix h ([encVal e, .slice ⟨d, 0, dst.size, dst.size⟩, .slice ⟨s, off, n, cp⟩] ++ List.replicate 7 .undef) =
      .norm (encStW e h d s dst S off n cp 0).1 (encStW e h d s dst S off n cp 0).2 := by
  have hb : encBuf e dst (winBuf S off n) 0 = dst := by simp [encBuf, encode, writeList]
  simp only [encStW, hb, heap_set_self h d dst hd]
  simp only [encPrefix, Stmt.take, encodeIR, encVal]
  b64_simp [hz]
  rfl

/-! ## After the loop: the last one or two bytes -/

set_option maxHeartbeats 1000000 in
theorem encTail_runW (c : Ctx) (e : Encoding) (hal : e.alphabet.length = 64) (H : Heap) (d s dn m : Nat) (D S : Buf)
    (off n cp : Nat) (vn v6 : Val) (hd : H[d]? = some D) (hs : H[s]? = some S) (hdn : D.size = dn)
    (hw : off + n ≤ S.size) (hm : m = n / 3) (hlen : encodedLen e n ≤ dn) (hdz : dn < 2 ^ 62) :
    procResult (exec c encTail H [encVal e, .slice ⟨d, 0, dn, dn⟩, .slice ⟨s, off, n, cp⟩, .int (4 * m : Nat),
        .int (3 * m : Nat), vn, v6, .undef, .undef, .undef]) =
      .ok (H.set d (writeList D (4 * m) (encode e ((winBuf S off n).toList.drop (3 * m)))), []) := by
  have hdl : d < H.length := heap_lt_of_get hd
  have hle := le_encodedLen e n
  have hsz := winBuf_size S off n hw
  have hr : n - 3 * m = 0 ∨ n - 3 * m = 1 ∨ n - 3 * m = 2 := by omega
  rcases hr with hr | hr | hr
  · -- nothing left
    have : (winBuf S off n).toList.drop (3 * m) = [] := List.drop_eq_nil_of_le (by simp; omega)
    rw [this]
    simp only [encode, writeList, heap_set_self H d D hd]
    simp only [encTail, Stmt.drop, encodeIR, encVal]
    b64_simp [hr]
    rfl
  · -- one byte
    have hl : (winBuf S off n).toList.length = 3 * m + 1 := by simp; omega
    have h3 : off + 3 * m < S.size := by omega
    rw [drop_one _ _ hl]
    have t := tail1_digits (S[off + 3 * m]).toNat_lt
    have b0 : EncodeTail_sym0 (EncodeTail_val S[off + 3 * m].toNat) < 64 := by rw [t.1]; exact digit_lt _ _
    have b1 : EncodeTail_sym1 (EncodeTail_val S[off + 3 * m].toNat) < 64 := by rw [t.2]; exact digit_lt _ _
    have i0 := indexBytes_nat e.alphabet _ (show _ < e.alphabet.length from hal ▸ b0)
    have i1 := indexBytes_nat e.alphabet _ (show _ < e.alphabet.length from hal ▸ b1)
    simp only [EncodeTail_sym0, EncodeTail_sym1, EncodeTail_val] at i0 i1
    clear t b0 b1
    cases hp : e.pad with
    | none =>
      have hpi : padInt e = -1 := by simp [padInt, hp]
      have hlen' : 4 * m + 2 ≤ dn := by
        simp only [encodedLen, EncodedLen_eq, hp, Option.isNone_none, if_true] at hlen; omega
      simp only [encTail, Stmt.drop, encodeIR, encVal]
      b64_simp [hr, hs, hd, hdn, i0, i1, hpi]
      simp only [Array.getElem_toList, winBuf_getElem, encode, padBytes, hp, writeList, List.append_nil, procResult_norm]
      rfl
    | some p =>
      have hpi : padInt e = (p.toNat : Int) := by simp [padInt, hp]
      have hp1 : ¬ ((p.toNat : Int) = -1) := by omega
      have hpm : p.toNat % 256 = p.toNat := Nat.mod_eq_of_lt p.toNat_lt
      have hlen' : 4 * m + 4 ≤ dn := by
        simp only [encodedLen, EncodedLen_eq, hp, Option.isNone_some] at hlen; simp at hlen; omega
      simp only [encTail, Stmt.drop, encodeIR, encVal]
      b64_simp [hr, hs, hd, hdn, i0, i1, hpi, hp1, hpm]
      simp only [Array.getElem_toList, winBuf_getElem, encode, padBytes, hp, writeList, List.replicate, List.cons_append,
        List.nil_append, procResult_norm]
      rfl
  · -- two bytes
    have hl : (winBuf S off n).toList.length = 3 * m + 2 := by simp; omega
    have h3 : off + (3 * m + 1) < S.size := by omega
    rw [drop_two _ _ hl]
    have t := tail2_digits (S[off + 3 * m]).toNat_lt (S[off + (3 * m + 1)]).toNat_lt
    have b0 : EncodeTail_sym0 (EncodeTail_val S[off + 3 * m].toNat ||| EncodeTail_or S[off + (3 * m + 1)].toNat) < 64 := by
      rw [t.1]; exact digit_lt _ _
    have b1 : EncodeTail_sym1 (EncodeTail_val S[off + 3 * m].toNat ||| EncodeTail_or S[off + (3 * m + 1)].toNat) < 64 := by
      rw [t.2.1]; exact digit_lt _ _
    have b2 : EncodeTail_sym2 (EncodeTail_val S[off + 3 * m].toNat ||| EncodeTail_or S[off + (3 * m + 1)].toNat) < 64 := by
      rw [t.2.2]; exact digit_lt _ _
    have i0 := indexBytes_nat e.alphabet _ (show _ < e.alphabet.length from hal ▸ b0)
    have i1 := indexBytes_nat e.alphabet _ (show _ < e.alphabet.length from hal ▸ b1)
    have i2 := indexBytes_nat e.alphabet _ (show _ < e.alphabet.length from hal ▸ b2)
    simp only [EncodeTail_sym0, EncodeTail_sym1, EncodeTail_sym2, EncodeTail_val, EncodeTail_or] at i0 i1 i2
    clear t b0 b1 b2
    cases hp : e.pad with
    | none =>
      have hpi : padInt e = -1 := by simp [padInt, hp]
      have hlen' : 4 * m + 3 ≤ dn := by
        simp only [encodedLen, EncodedLen_eq, hp, Option.isNone_none, if_true] at hlen; omega
      simp only [encTail, Stmt.drop, encodeIR, encVal]
      b64_simp [hr, hs, hd, hdn, i0, i1, i2, hpi]
      simp only [Array.getElem_toList, winBuf_getElem, encode, padBytes, hp, writeList, List.append_nil,
        procResult_norm]
      rfl
    | some p =>
      have hpi : padInt e = (p.toNat : Int) := by simp [padInt, hp]
      have hp1 : ¬ ((p.toNat : Int) = -1) := by omega
      have hpm : p.toNat % 256 = p.toNat := Nat.mod_eq_of_lt p.toNat_lt
      have hlen' : 4 * m + 4 ≤ dn := by
        simp only [encodedLen, EncodedLen_eq, hp, Option.isNone_some] at hlen; simp at hlen; omega
      simp only [encTail, Stmt.drop, encodeIR, encVal]
      b64_simp [hr, hs, hd, hdn, i0, i1, i2, hpi, hp1, hpm]
      simp only [Array.getElem_toList, winBuf_getElem, encode, padBytes, hp, writeList, List.replicate, List.cons_append,
        List.nil_append, procResult_norm]
      rfl

/-! ## The whole function -/

/-- `enc.Encode(dst, src)` for a source that is the window `⟨s, off, n, cp⟩` of buffer `S`. -/
theorem encode_proc_window (c : Ctx) (e : Encoding) (hal : e.alphabet.length = 64) (h : Heap) (d s : Nat) (dst S : Buf)
    (off n cp : Nat) (hd : h[d]? = some dst) (hs : h[s]? = some S) (hne : d ≠ s) (hwin : off + n ≤ S.size)
    (hlen : encodedLen e n ≤ dst.size) (hdz : dst.size < 2 ^ 62) :
    execProc c encodeIR h [encVal e, .slice ⟨d, 0, dst.size, dst.size⟩, .slice ⟨s, off, n, cp⟩] =
      .ok (h.set d (writeAt dst 0 (encode e ((S.toList.drop off).take n))), []) := by
  have hle := le_encodedLen e n
  have hdl : d < h.length := heap_lt_of_get hd
  have hsz := winBuf_size S off n hwin
  rw [← winBuf_toList]
  rw [execProc_eq c encodeIR h _ rfl, exec_take_drop c h _ 4]
  show procResult ((exec c encPrefix h ([encVal e, .slice ⟨d, 0, dst.size, dst.size⟩, .slice ⟨s, off, n, cp⟩] ++
    List.replicate 7 .undef)).andThen (exec c (encodeIR.body.drop 4))) = _
  by_cases hz : n = 0
  · subst hz
    rw [encPrefix_emptyW c e h d s dst.size off cp, procResult_andThen_ret]
    have : (winBuf S off 0).toList = [] := by
      apply List.eq_nil_of_length_eq_zero; simpa using hsz
    rw [this]
    simp only [encode, writeAt, heap_set_self h d dst hd]
  · rw [encPrefix_runW c e h d s dst S off n cp hd hz (by omega), andThen_norm, encBody_split, exec_seq,
      encLoopW c e hal h d s dst S off n cp hd hs hne hwin hlen hdz, andThen_norm]
    simp only [encStW]
    rw [encTail_runW c e hal (h.set d (encBuf e dst (winBuf S off n) (n / 3))) d s dst.size (n / 3)
      (encBuf e dst (winBuf S off n) (n / 3)) S off n cp _ _ (List.getElem?_set_self hdl)
      (by rw [List.getElem?_set_ne hne]; exact hs) (encBuf_size _ _ _ _) hwin rfl hlen hdz]
    rw [List.set_set, ← writeList_eq_writeAt]
    congr 2
    have hsplit : (winBuf S off n).toList =
        (winBuf S off n).toList.take (3 * (n / 3)) ++ (winBuf S off n).toList.drop (3 * (n / 3)) :=
      (List.take_append_drop _ _).symm
    conv => rhs; rw [hsplit]
    rw [encode_append e _ _ (by rw [List.length_take]; simp; omega), writeList_append,
      encode_take_length e _ _ (by simp; omega), Nat.zero_add]
    rfl

end GoCrypt.B64IR
