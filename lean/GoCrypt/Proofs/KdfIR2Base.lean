import GoCrypt.Base.HashIR2

/-!
# Second-generation hash-transcript IR: interpreter lemmas

Generic facts about `HashIR2.exec`: the `Res` monad, slot environments (concrete lists, so that `simp`
computes lookups and updates), operators on natural-number operands, one lemma per loop SHAPE, and
the call mechanism. Helper lemmas only; the property theorems are in `Props/KdfIR2.lean`.
-/

namespace GoCrypt.HashIR2

/-- `rfl`, but not recognised as a definitional (`dsimp`) lemma: `simp` records a proof step for it.
A definitional step next to `exec c <program>` would make the kernel compare the two sides by
unfolding `exec` (a structural recursion) on the whole remaining program. -/
macro "norfl" : tactic => `(tactic| (have _h : True := trivial; exact rfl))

/-! ## The result monad -/

@[simp] theorem pure_eq_ok {α : Type} (a : α) : (pure a : Res α) = .ok a := by norfl
@[simp] theorem ok_bind {α β : Type} (a : α) (f : α → Res β) : (Res.ok a >>= f) = f a := by norfl
@[simp] theorem ret_bind {α β : Type} (v : Val) (f : α → Res β) : (Res.ret v >>= f) = .ret v := by norfl
@[simp] theorem panic_bind {α β : Type} (f : α → Res β) : (Res.panic >>= f) = .panic := by norfl
@[simp] theorem stuck_bind {α β : Type} (w : String) (f : α → Res β) : (Res.stuck w >>= f) = .stuck w := by norfl

theorem bind_assoc {α β γ : Type} (x : Res α) (f : α → Res β) (g : β → Res γ) :
    (x >>= f >>= g) = (x >>= fun a => f a >>= g) := by
  cases x <;> rfl

@[simp] theorem asInt_int (i : Int) : asInt (.int i) = .ok i := by norfl
@[simp] theorem asBool_bool (b : Bool) : asBool (.bool b) = .ok b := by norfl
@[simp] theorem asBytes_bytes (b : Bytes) : asBytes (.bytes b) = .ok b := by norfl
@[simp] theorem asHash_hash (b : Bytes) : asHash (.hash b) = .ok b := by norfl

/-- A natural number as an IR integer. -/
abbrev nat (n : Nat) : Val := .int (n : Int)

/-! ## Environments -/

namespace Env

@[simp] theorem get_cons_zero (v : Val) (st : Env) : Env.get (some v :: st) 0 = .ok v := by norfl
@[simp] theorem get_cons_succ (a : Option Val) (st : Env) (x : Nat) : Env.get (a :: st) (x + 1) = Env.get st x := by
  simp [Env.get]
@[simp] theorem put_cons_zero (a : Option Val) (v : Val) (st : Env) : Env.put (a :: st) 0 v = .ok (some v :: st) := by
  simp [Env.put]
theorem put_cons_succ (a : Option Val) (v : Val) (st : Env) (x : Nat) :
    Env.put (a :: st) (x + 1) v = (Env.put st x v >>= fun st' => .ok (a :: st')) := by
  simp only [Env.put, List.length_cons, Nat.add_lt_add_iff_right, List.set_cons_succ]
  split <;> rfl
@[simp] theorem clear_nil (st : Env) : Env.clear st [] = st := by norfl
@[simp] theorem clear_cons (st : Env) (x : Nat) (xs : List Nat) : Env.clear st (x :: xs) = Env.clear (st.set x none) xs := by norfl
@[simp] theorem putOpt_some (st : Env) (x : Nat) (v : Val) : st.putOpt (some x) v = st.put x v := by norfl
@[simp] theorem putOpt_none (st : Env) (v : Val) : st.putOpt none v = .ok st := by norfl
@[simp] theorem clearOpt_some (st : Env) (x : Nat) : st.clearOpt (some x) = st.set x none := by norfl
@[simp] theorem clearOpt_none (st : Env) : st.clearOpt none = st := by norfl

end Env

/-! ## Operators on natural-number operands -/

@[simp] theorem natOp_nat (f : Nat → Nat → Nat) (a b : Nat) : natOp f a b = .ok (nat (f a b)) := by
  simp [natOp]

/-- Bit operators on non-negative integers (`simp` discharges the side conditions on casts, literals and
remainders). -/
@[simp] theorem natOp_nonneg (f : Nat → Nat → Nat) (a b : Int) (ha : 0 ≤ a) (hb : 0 ≤ b) :
    natOp f a b = .ok (nat (f a.toNat b.toNat)) := by
  simp [natOp, ha, hb]

/-- `/` and `%` on non-negative integers. -/
theorem evalBin_quo_nonneg (a b : Int) (ha : 0 ≤ a) (hb : 0 < b) :
    evalBin .quo a b = .ok (nat (a.toNat / b.toNat)) := by
  have h1 : ¬ b = 0 := by omega
  have h2 : 0 ≤ a ∧ 0 ≤ b := ⟨ha, by omega⟩
  simp only [evalBin, h1, h2, and_self, if_true, if_false]

theorem evalBin_rem_nonneg (a b : Int) (ha : 0 ≤ a) (hb : 0 < b) :
    evalBin .rem a b = .ok (nat (a.toNat % b.toNat)) := by
  have h1 : ¬ b = 0 := by omega
  have h2 : 0 ≤ a ∧ 0 ≤ b := ⟨ha, by omega⟩
  simp only [evalBin, h1, h2, and_self, if_true, if_false]

@[simp] theorem add_nonneg_of_nonneg (a b : Int) (ha : 0 ≤ a) (hb : 0 ≤ b) : 0 ≤ a + b := Int.add_nonneg ha hb
@[simp] theorem mul_nonneg_of_nonneg (a b : Int) (ha : 0 ≤ a) (hb : 0 ≤ b) : 0 ≤ a * b := Int.mul_nonneg ha hb
@[simp] theorem toNat_natCast_add (a : Nat) (b : Int) (hb : 0 ≤ b) : ((a : Int) + b).toNat = a + b.toNat := by omega
@[simp] theorem toNat_natCast_mul (a : Nat) (b : Int) (hb : 0 ≤ b) : ((a : Int) * b).toNat = a * b.toNat := by
  obtain ⟨n, rfl⟩ := Int.eq_ofNat_of_zero_le hb
  rw [← Int.natCast_mul, Int.toNat_natCast, Int.toNat_natCast]

@[simp] theorem natCast_lt_zero (n : Nat) : ((n : Int) < 0) = False := by
  simp only [eq_iff_iff, iff_false]; omega

@[simp] theorem emod_nonneg_of_pos (a b : Int) (hb : 0 < b) : 0 ≤ a % b := Int.emod_nonneg a (by omega)
@[simp] theorem emod_lt_zero_of_pos (a b : Int) (hb : 0 < b) : (a % b < 0) = False := by
  have := Int.emod_nonneg a (show b ≠ 0 by omega)
  simp only [eq_iff_iff, iff_false]; omega

theorem natCast_ofNat_int (n : Nat) : ((OfNat.ofNat n : Nat) : Int) = (OfNat.ofNat n : Int) := by norfl

@[simp] theorem indexOf_nat (b : Bytes) (k : Nat) (h : k < b.length) : indexOf b (k : Int) = .ok (nat b[k].toNat) := by
  simp [indexOf, h]

theorem indexOf_nat_panic (b : Bytes) (k : Nat) (h : b.length ≤ k) : indexOf b (k : Int) = .panic := by
  simp [indexOf, h]

@[simp] theorem sliceOf_nat (b : Bytes) (lo hi : Nat) (h1 : lo ≤ hi) (h2 : hi ≤ b.length) :
    sliceOf b (lo : Int) (hi : Int) = .ok (.bytes ((b.take hi).drop lo)) := by
  have h : (0 : Int) ≤ lo ∧ (lo : Int) ≤ hi ∧ (hi : Int) ≤ b.length :=
    ⟨Int.natCast_nonneg _, by omega, by omega⟩
  simp only [sliceOf, h, and_self, if_true, Int.toNat_natCast]

@[simp] theorem sliceOf_zero_nat (b : Bytes) (hi : Nat) (h : hi ≤ b.length) :
    sliceOf b 0 (hi : Int) = .ok (.bytes (b.take hi)) := by
  have := sliceOf_nat b 0 hi (Nat.zero_le _) h
  simp only [Int.natCast_zero, List.drop_zero] at this; exact this

theorem sliceOf_full (b : Bytes) : sliceOf b 0 (b.length : Int) = .ok (.bytes b) := by
  have := sliceOf_nat b 0 b.length (Nat.zero_le _) (Nat.le_refl _)
  simp only [Int.natCast_zero, List.drop_zero, List.take_length] at this; exact this

@[simp] theorem lenOf_bytes (b : Bytes) : lenOf (.bytes b) = .ok (nat b.length) := by norfl
@[simp] theorem lenOf_ints (l : List Int) : lenOf (.ints l) = .ok (nat l.length) := by norfl

@[simp] theorem storeByte_nat (b : Bytes) (i v : Nat) (hv : v < 256) (hi : i < b.length) :
    storeByte b (i : Int) (v : Int) = .ok (.bytes (b.set i (UInt8.ofNat v))) := by
  have h1 : (0 : Int) ≤ v ∧ (v : Int) < 256 := ⟨Int.natCast_nonneg _, by omega⟩
  have h2 : (0 : Int) ≤ i ∧ (i : Int) < b.length := ⟨Int.natCast_nonneg _, by omega⟩
  simp only [storeByte, h1, h2, and_self, if_true, Int.toNat_natCast]

theorem sliceOf_all (b : Bytes) (hi : Int) (h : hi = b.length) : sliceOf b 0 hi = .ok (.bytes b) := by
  subst h; exact sliceOf_full b

@[simp] theorem toNat_emod_256 (a : Nat) : ((a : Int) % 256).toNat = a % 256 := by omega
@[simp] theorem toNat_emod_65536 (a : Nat) : ((a : Int) % 65536).toNat = a % 65536 := by omega
@[simp] theorem toNat_emod_2_32 (a : Nat) : ((a : Int) % 4294967296).toNat = a % 4294967296 := by omega
@[simp] theorem toNat_emod_2_64 (a : Nat) : ((a : Int) % 18446744073709551616).toNat = a % 18446744073709551616 := by omega

/-- Symbolic execution of straight-line IR code: unfold the evaluator, compute on slot lists, keep
natural-number bit operations under one cast. -/
syntax "ir_simp" (" [" (Lean.Parser.Tactic.simpErase <|> Lean.Parser.Tactic.simpLemma),* "]")? : tactic
macro_rules
  | `(tactic| ir_simp) => `(tactic| simp [eval, evalBin, Env.put_cons_succ, -Int.natCast_shiftRight,
      -Int.natCast_shiftLeft, -Int.natCast_ediv, -Int.natCast_emod])
  | `(tactic| ir_simp [$ts,*]) => `(tactic| simp [eval, evalBin, Env.put_cons_succ, -Int.natCast_shiftRight,
      -Int.natCast_shiftLeft, -Int.natCast_ediv, -Int.natCast_emod, $ts,*])

/-! ## Loop shapes -/

/-- Leaving a loop: the condition is false. -/
theorem iter_false (cond : Env → Res Bool) (step : Env → Res Env) (fuel : Nat) (st : Env)
    (h : cond st = .ok false) : iter cond step fuel st = .ok st := by
  cases fuel <;> simp [iter, h]

/-- One iteration. -/
theorem iter_true (cond : Env → Res Bool) (step : Env → Res Env) (fuel : Nat) (st : Env)
    (h : cond st = .ok true) : iter cond step (fuel + 1) st = (step st >>= iter cond step fuel) := by
  simp [iter, h]

/-- Counting loop: `f k` is the environment at the start of iteration `k`. -/
theorem iter_count (cond : Env → Res Bool) (step : Env → Res Env) (f : Nat → Env) (n : Nat)
    (hc : ∀ k, k < n → cond (f k) = .ok true) (hn : cond (f n) = .ok false)
    (hs : ∀ k, k < n → step (f k) = .ok (f (k + 1))) :
    ∀ fuel k, k ≤ n → n - k ≤ fuel → iter cond step fuel (f k) = .ok (f n) := by
  intro fuel
  induction fuel with
  | zero =>
    intro k hk hf
    have : k = n := by omega
    subst this
    exact iter_false _ _ _ _ hn
  | succ fuel ih =>
    intro k hk hf
    by_cases hkn : k = n
    · subst hkn; exact iter_false _ _ _ _ hn
    · have hlt : k < n := by omega
      rw [iter_true _ _ _ _ (hc k hlt), hs k hlt, ok_bind]
      exact ih (k + 1) (by omega) (by omega)

/-- A counting loop whose body fails in iteration `n` (panic, or an early return). -/
theorem iter_count_fail (cond : Env → Res Bool) (step : Env → Res Env) (f : Nat → Env) (n : Nat) (r : Res Env)
    (hr : ∀ st, r ≠ .ok st)
    (hc : ∀ k, k ≤ n → cond (f k) = .ok true)
    (hs : ∀ k, k < n → step (f k) = .ok (f (k + 1))) (hfail : step (f n) = r) :
    ∀ fuel k, k ≤ n → n - k < fuel → iter cond step fuel (f k) = r := by
  intro fuel
  induction fuel with
  | zero => intro k hk hf; omega
  | succ fuel ih =>
    intro k hk hf
    rw [iter_true _ _ _ _ (hc k hk)]
    by_cases hkn : k = n
    · subst hkn
      rw [hfail]
      cases r <;> first | rfl | (exfalso; exact hr _ rfl)
    · have hlt : k < n := by omega
      rw [hs k hlt, ok_bind]
      exact ih (k + 1) (by omega) (by omega)

/-- `range` over a list whose body succeeds on every element: `f j` is the environment before
element `j`. -/
theorem rangeLoop_count (step : Nat → Val → Env → Res Env) : ∀ (items : List Val) (k : Nat) (f : Nat → Env),
    (∀ j (h : j < items.length), step (k + j) items[j] (f j) = .ok (f (j + 1))) →
    rangeLoop step items k (f 0) = .ok (f items.length)
  | [], _, _, _ => rfl
  | v :: vs, k, f, hs => by
    have h0 := hs 0 (by simp)
    simp only [Nat.add_zero, List.getElem_cons_zero] at h0
    simp only [rangeLoop, h0, ok_bind, List.length_cons]
    apply rangeLoop_count step vs (k + 1) (fun j => f (j + 1))
    intro j h
    have := hs (j + 1) (by simp only [List.length_cons]; omega)
    simp only [List.getElem_cons_succ] at this
    have e : k + (j + 1) = k + 1 + j := by omega
    rw [e] at this; exact this

/-! ## Statement rules

`exec` is unfolded one constructor at a time, so that a loop statement stays recognisable until its
own lemma is applied. The rules tagged `simp` execute straight-line code. None of them is PROVED by a
bare `rfl`: `simp` would then use it as a definitional step without a proof term, and the kernel would
have to re-derive it by unfolding `exec` (a structural recursion) on the whole remaining program. -/

section rules
variable (c : Ctx) (st : Env)

@[simp] theorem exec_skip : exec c .skip st = .ok st := by rw [exec]
@[simp] theorem exec_seq (a b : Stmt) : exec c (a ;;; b) st = (exec c a st >>= exec c b) := by rw [exec]
@[simp] theorem exec_assign (x : Nat) (e : Expr) :
    exec c (.assign x e) st = (eval c st e >>= fun v => st.put x v) := by rw [exec]
@[simp] theorem exec_write (h : Nat) (e : Expr) :
    exec c (.write h e) st = (st.get h >>= asHash >>= fun w => eval c st e >>= asBytes >>= fun b =>
      st.put h (.hash (w ++ b))) := by
  simp only [exec]
  cases st.get h <;> simp
  next v => cases asHash v <;> simp
            next w => cases eval c st e <;> simp
@[simp] theorem exec_reset (h : Nat) :
    exec c (.reset h) st = (st.get h >>= asHash >>= fun _ => st.put h (.hash [])) := by
  simp only [exec]
  cases st.get h <;> simp
@[simp] theorem exec_setIndex (x : Nat) (i e : Expr) :
    exec c (.setIndex x i e) st = (st.get x >>= asBytes >>= fun b => eval c st i >>= asInt >>= fun k =>
      eval c st e >>= asInt >>= fun v => storeByte b k v >>= fun b' => st.put x b') := by
  simp only [exec]
  cases st.get x <;> simp
  next v => cases asBytes v <;> simp
            next w => cases eval c st i <;> simp
                      next u => cases asInt u <;> simp
                                next k => cases eval c st e <;> simp
@[simp] theorem exec_putUint (x : Nat) (off : Expr) (width : Nat) (be : Bool) (e : Expr) :
    exec c (.putUint x off width be e) st = (st.get x >>= asBytes >>= fun b => eval c st off >>= asInt >>= fun o =>
      eval c st e >>= asInt >>= fun v => putUintAt b o width be v >>= fun b' => st.put x b') := by
  simp only [exec]
  cases st.get x <;> simp
  next v => cases asBytes v <;> simp
            next w => cases eval c st off <;> simp
                      next u => cases asInt u <;> simp
                                next k => cases eval c st e <;> simp
@[simp] theorem exec_setSlice (x : Nat) (lo hi e : Expr) :
    exec c (.setSlice x lo hi e) st = (st.get x >>= asBytes >>= fun b => eval c st lo >>= asInt >>= fun l =>
      eval c st hi >>= asInt >>= fun h => eval c st e >>= asBytes >>= fun d =>
      setSliceAt b l h d >>= fun b' => st.put x b') := by
  simp only [exec]
  cases st.get x <;> simp
  next v => cases asBytes v <;> simp
            next w => cases eval c st lo <;> simp
                      next u => cases asInt u <;> simp
                                next k => cases eval c st hi <;> simp
                                          next u2 => cases asInt u2 <;> simp
                                                     next k2 => cases eval c st e <;> simp
@[simp] theorem exec_ite (cnd : Expr) (t e : Stmt) :
    exec c (.ite cnd t e) st = (eval c st cnd >>= asBool >>= fun b => if b then exec c t st else exec c e st) := by
  simp only [exec]
  cases eval c st cnd <;> simp
@[simp] theorem exec_scoped (xs : List Nat) (s : Stmt) :
    exec c (.scoped xs s) st = (exec c s st >>= fun st' => .ok (st'.clear xs)) := by rw [exec]; rfl
@[simp] theorem exec_call (x : Nat) (f : String) (args : List Expr) :
    exec c (.call x f args) st = (evalArgs c st args >>= fun vs => c.call f vs >>= fun r => st.put x r) := by
  rw [exec]
@[simp] theorem exec_ret (e : Expr) : exec c (.ret e) st = (eval c st e >>= fun v => .ret v) := by rw [exec]
@[simp] theorem exec_retErr (m : String) : exec c (.retErr m) st = .ret (.err m) := by rw [exec]

@[simp] theorem evalArgs_nil : evalArgs c st [] = .ok [] := by norfl
@[simp] theorem evalArgs_cons (e : Expr) (es : List Expr) :
    evalArgs c st (e :: es) = (eval c st e >>= fun v => evalArgs c st es >>= fun vs => .ok (v :: vs)) := by norfl

theorem exec_for (fuel cnd : Expr) (post body : Stmt) :
    exec c (.for_ fuel cnd post body) st = (eval c st fuel >>= asInt >>= fun n =>
      iter (fun st => eval c st cnd >>= asBool) (fun st => exec c body st >>= exec c post) n.toNat st) := by
  simp only [exec]
  cases eval c st fuel <;> simp

theorem exec_forRange (k v : Option Nat) (coll : Expr) (body : Stmt) :
    exec c (.forRange k v coll body) st = (eval c st coll >>= rangeItems >>= fun items =>
      rangeLoop (fun i x st => st.putOpt k (.int i) >>= fun st1 => st1.putOpt v x >>= fun st2 =>
        exec c body st2 >>= fun st' => .ok ((st'.clearOpt k).clearOpt v)) items 0 st) := by
  simp only [exec]
  cases eval c st coll <;> simp

end rules

/-- Statement-level rule for a counting loop: `f k` is the environment at the start of iteration `k`,
`n` the number of iterations, `F` the value of the fuel expression on entry. -/
theorem exec_for_count (c : Ctx) (fuel cond : Expr) (post body : Stmt) (st : Env) (f : Nat → Env) (n : Nat) (F : Int)
    (h0 : st = f 0) (hfuel : eval c st fuel = .ok (.int F)) (hF : n ≤ F.toNat)
    (hc : ∀ k, k < n → eval c (f k) cond = .ok (.bool true))
    (hn : eval c (f n) cond = .ok (.bool false))
    (hs : ∀ k, k < n → (exec c body (f k) >>= exec c post) = .ok (f (k + 1))) :
    exec c (.for_ fuel cond post body) st = .ok (f n) := by
  subst h0
  rw [exec_for, hfuel]
  simp only [ok_bind, asInt_int]
  exact iter_count _ _ f n (fun k hk => by simp [hc k hk]) (by simp [hn])
    (fun k hk => hs k hk) F.toNat 0 (Nat.zero_le _) (by omega)

/-- A counting loop whose body fails (panics / returns) in iteration `n`. -/
theorem exec_for_fail (c : Ctx) (fuel cond : Expr) (post body : Stmt) (st : Env) (f : Nat → Env) (n : Nat) (F : Int)
    (r : Res Env) (hr : ∀ st, r ≠ .ok st)
    (h0 : st = f 0) (hfuel : eval c st fuel = .ok (.int F)) (hF : n < F.toNat)
    (hc : ∀ k, k ≤ n → eval c (f k) cond = .ok (.bool true))
    (hs : ∀ k, k < n → (exec c body (f k) >>= exec c post) = .ok (f (k + 1)))
    (hfail : (exec c body (f n) >>= exec c post) = r) :
    exec c (.for_ fuel cond post body) st = r := by
  subst h0
  rw [exec_for, hfuel]
  simp only [ok_bind, asInt_int]
  exact iter_count_fail _ _ f n r hr (fun k hk => by simp [hc k hk]) (fun k hk => hs k hk) hfail
    F.toNat 0 (Nat.zero_le _) (by omega)

/-- Statement-level rule for `for k, v := range coll`: `f j` is the environment before element `j`. -/
theorem exec_forRange_count (c : Ctx) (k v : Option Nat) (coll : Expr) (body : Stmt) (st : Env) (items : List Val)
    (f : Nat → Env) (w : Val) (hcoll : eval c st coll = .ok w) (hitems : rangeItems w = .ok items) (h0 : st = f 0)
    (hs : ∀ j (h : j < items.length), ((f j).putOpt k (.int j) >>= fun st1 => st1.putOpt v items[j] >>= fun st2 =>
        exec c body st2 >>= fun st' => .ok ((st'.clearOpt k).clearOpt v)) = .ok (f (j + 1))) :
    exec c (.forRange k v coll body) st = .ok (f items.length) := by
  subst h0
  rw [exec_forRange, hcoll]
  simp only [ok_bind, hitems]
  apply rangeLoop_count
  intro j h
  simpa using hs j h

/-! ## Procedures and calls -/

theorem execProc_eq (c : Ctx) (p : Proc) (args : List Val) (h1 : p.params = args.length) (h2 : p.params ≤ p.slots) :
    execProc c p args = match exec c p.body (Env.init p.slots args) with
      | .ret v => .ok v
      | .ok _ => .stuck "function ended without return"
      | .panic => .panic
      | .stuck w => .stuck w := by
  have : ¬ (p.params ≠ args.length ∨ p.slots < p.params) := by omega
  unfold execProc
  rw [if_neg this]
  cases exec c p.body (Env.init p.slots args) <;> rfl

theorem execProc_of_ret (c : Ctx) (p : Proc) (args : List Val) (v : Val) (h1 : p.params = args.length)
    (h2 : p.params ≤ p.slots) (h : exec c p.body (Env.init p.slots args) = .ret v) : execProc c p args = .ok v := by
  rw [execProc_eq c p args h1 h2, h]

theorem execProc_of_panic (c : Ctx) (p : Proc) (args : List Val) (h1 : p.params = args.length)
    (h2 : p.params ≤ p.slots) (h : exec c p.body (Env.init p.slots args) = .panic) : execProc c p args = .panic := by
  rw [execProc_eq c p args h1 h2, h]

/-- The context in which the procedures of `P` run at call depth `d + 1`. -/
def ctxOf (π : Params) (P : Program) (d : Nat) : Ctx :=
  { H := π.H, globals := fun g => List.lookup g P.globals, call := callIn π P d }

theorem ctxOf_call (π : Params) (P : Program) (d : Nat) : (ctxOf π P d).call = callIn π P d := by norfl
theorem ctxOf_H (π : Params) (P : Program) (d : Nat) : (ctxOf π P d).H = π.H := by norfl
theorem ctxOf_globals (π : Params) (P : Program) (d : Nat) (g : String) :
    (ctxOf π P d).globals g = List.lookup g P.globals := by norfl

theorem callIn_proc (π : Params) (P : Program) (d : Nat) (f : String) (p : Proc) (args : List Val)
    (h : List.lookup f P.procs = some p) : callIn π P (d + 1) f args = execProc (ctxOf π P d) p args := by
  simp only [callIn, h]; rfl

/-- Running an entry point: the procedure in the context of depth `P.procs.length`. -/
theorem interp_proc (π : Params) (P : Program) (f : String) (p : Proc) (args : List Val)
    (h : List.lookup f P.procs = some p) : interp π P f args = execProc (ctxOf π P P.procs.length) p args :=
  callIn_proc π P _ f p args h

theorem callIn_prim (π : Params) (P : Program) (d : Nat) (f : String) (args : List Val)
    (h1 : List.lookup f P.procs = none) (h2 : List.lookup f P.links = none) :
    callIn π P (d + 1) f args = π.prim f args := by
  simp only [callIn, h1, h2]

theorem callIn_link (π : Params) (P : Program) (d : Nat) (f : String) (Q : HashIR.Program) (args : List Val)
    (args' : List HashIR.Val) (h1 : List.lookup f P.procs = none) (h2 : List.lookup f P.links = some Q)
    (h3 : argsToOld args = some args') :
    callIn π P (d + 1) f args = ofOldRes (HashIR.interp π.H π.HM π.size Q f args') := by
  simp only [callIn, h1, h2, h3]

end GoCrypt.HashIR2
