import GoCrypt.Proofs.B64IRQuantumTail

/-!
# Buffer IR of `hash/base64le`: facts about the hand model needed to run `Decode`

Where `collect`/`decodeQuantum` leave the source index and the output index (inside the buffers,
strictly after the start when a character was available), and `decodeStep` by cases.
Helper lemmas only.
-/

namespace GoCrypt.B64IR
open GoCrypt.Base64LE GoCrypt.Gen.base64leIR GoCrypt.Gen.base64le GoCrypt.Spec.Base64Bits

/-- The source index a `collect` result carries. -/
def collectSi : Sum (Nat × Option Nat) (Nat × Nat × List Nat × Option Nat) → Nat
  | .inl (si', _) => si'
  | .inr (si', _, _, _) => si'

theorem collect_si (e : Encoding) (src : Buf) :
    ∀ (n si j : Nat) (dr : List Nat), src.size - si = n → si ≤ src.size → j ≤ 4 →
      si ≤ collectSi (collect e src si j dr) ∧ collectSi (collect e src si j dr) ≤ src.size ∧
      (si < src.size → j < 4 → si < collectSi (collect e src si j dr)) := by
  intro n
  induction n using Nat.strongRecOn with
  | _ n ih =>
    intro si j dr hn hsi hj4
    by_cases hj : j = 4
    · subst hj
      rw [collect_done]; simp only [collectSi]; omega
    · have hjlt : j < 4 := by omega
      by_cases hlt : si < src.size
      · by_cases hout : e.dec src[si] = 255
        · by_cases hnl : isNL src[si] = true
          · rw [collect_nl e src si j dr hlt hjlt hout hnl]
            have := ih (src.size - (si + 1)) (by omega) (si + 1) j dr rfl (by omega) hj4
            omega
          · have hnl' : isNL src[si] = false := by simpa using hnl
            by_cases hp : some src[si] = e.pad
            · have hjc : j < 2 ∨ j = 2 ∨ j = 3 := by omega
              rcases hjc with hj2 | rfl | rfl
              · rw [collect_pad01 e src si j dr hlt hj2 hout hnl' hp]; simp only [collectSi]; omega
              · have hb := skipNL_bounds src (si + 1) (by omega)
                by_cases h2 : skipNL src (si + 1) = src.size
                · rw [collect_pad2_short e src si dr hlt hout hnl' hp h2]; simp only [collectSi]; omega
                · have hlt2 : skipNL src (si + 1) < src.size := by omega
                  by_cases hp2 : some src[skipNL src (si + 1)] = e.pad
                  · have hb4 := skipNL_bounds src (skipNL src (si + 1) + 1) (by omega)
                    rw [collect_pad2_ok e src si dr _ _ hlt hout hnl' hp rfl hlt2 hp2 rfl]
                    simp only [collectSi]; omega
                  · rw [collect_pad2_bad e src si dr _ hlt hout hnl' hp rfl hlt2 hp2]
                    simp only [collectSi]; omega
              · have hb4 := skipNL_bounds src (si + 1) (by omega)
                rw [collect_pad3' e src si dr _ hlt hout hnl' hp rfl]
                simp only [collectSi]; omega
            · rw [collect_badc e src si j dr hlt hjlt hout hnl' hp]; simp only [collectSi]; omega
        · rw [collect_valid e src si j dr hlt hjlt (by rw [arr_getD_eq hlt]; exact hout)]
          have := ih (src.size - (si + 1)) (by omega) (si + 1) (j + 1) (e.dec (src.getD si 0) :: dr) rfl (by omega) (by omega)
          omega
      · have hse : si = src.size := by omega
        subst hse
        by_cases hj0 : j = 0
        · subst hj0
          rw [collect_eof0 e src _ dr (Nat.le_refl _)]; simp only [collectSi]; omega
        · by_cases hc : j = 1 ∨ e.pad.isSome = true
          · rw [collect_eof_err e src _ j dr (Nat.le_refl _) hj0 hjlt hc]; simp only [collectSi]; omega
          · have hj23 : j = 2 ∨ j = 3 := by omega
            have hpn : e.pad = none := by
              cases hh : e.pad with
              | none => rfl
              | some p => exact absurd (Or.inr (by simp [hh])) hc
            rw [collect_eof_ok e src _ j dr (Nat.le_refl _) hj23 hpn]; simp only [collectSi]; omega

/-- The number of digits of a `collect` result is 2, 3 or 4. -/
def collectDlenOk : Sum (Nat × Option Nat) (Nat × Nat × List Nat × Option Nat) → Prop
  | .inl _ => True
  | .inr (_, dlen, _, _) => 2 ≤ dlen ∧ dlen ≤ 4

theorem collect_dlen (e : Encoding) (src : Buf) :
    ∀ (n si j : Nat) (dr : List Nat), src.size - si = n → si ≤ src.size → j ≤ 4 →
      collectDlenOk (collect e src si j dr) := by
  intro n
  induction n using Nat.strongRecOn with
  | _ n ih =>
    intro si j dr hn hsi hj4
    by_cases hj : j = 4
    · subst hj
      rw [collect_done]; simp only [collectDlenOk]; (try trivial); (try omega)
    · have hjlt : j < 4 := by omega
      by_cases hlt : si < src.size
      · by_cases hout : e.dec src[si] = 255
        · by_cases hnl : isNL src[si] = true
          · rw [collect_nl e src si j dr hlt hjlt hout hnl]
            exact ih (src.size - (si + 1)) (by omega) (si + 1) j dr rfl (by omega) hj4
          · have hnl' : isNL src[si] = false := by simpa using hnl
            by_cases hp : some src[si] = e.pad
            · have hjc : j < 2 ∨ j = 2 ∨ j = 3 := by omega
              rcases hjc with hj2 | rfl | rfl
              · rw [collect_pad01 e src si j dr hlt hj2 hout hnl' hp]; simp only [collectDlenOk]; (try trivial); (try omega)
              · have hb := skipNL_bounds src (si + 1) (by omega)
                by_cases h2 : skipNL src (si + 1) = src.size
                · rw [collect_pad2_short e src si dr hlt hout hnl' hp h2]; simp only [collectDlenOk]; (try trivial); (try omega)
                · have hlt2 : skipNL src (si + 1) < src.size := by omega
                  by_cases hp2 : some src[skipNL src (si + 1)] = e.pad
                  · have hb4 := skipNL_bounds src (skipNL src (si + 1) + 1) (by omega)
                    rw [collect_pad2_ok e src si dr _ _ hlt hout hnl' hp rfl hlt2 hp2 rfl]
                    simp only [collectDlenOk]; (try trivial); (try omega)
                  · rw [collect_pad2_bad e src si dr _ hlt hout hnl' hp rfl hlt2 hp2]
                    simp only [collectDlenOk]; (try trivial); (try omega)
              · have hb4 := skipNL_bounds src (si + 1) (by omega)
                rw [collect_pad3' e src si dr _ hlt hout hnl' hp rfl]
                simp only [collectDlenOk]; (try trivial); (try omega)
            · rw [collect_badc e src si j dr hlt hjlt hout hnl' hp]; simp only [collectDlenOk]; (try trivial); (try omega)
        · rw [collect_valid e src si j dr hlt hjlt (by rw [arr_getD_eq hlt]; exact hout)]
          exact ih (src.size - (si + 1)) (by omega) (si + 1) (j + 1) (e.dec (src.getD si 0) :: dr) rfl (by omega) (by omega)
      · have hse : si = src.size := by omega
        subst hse
        by_cases hj0 : j = 0
        · subst hj0
          rw [collect_eof0 e src _ dr (Nat.le_refl _)]; simp only [collectDlenOk]; (try trivial); (try omega)
        · by_cases hc : j = 1 ∨ e.pad.isSome = true
          · rw [collect_eof_err e src _ j dr (Nat.le_refl _) hj0 hjlt hc]; simp only [collectDlenOk]; (try trivial); (try omega)
          · have hj23 : j = 2 ∨ j = 3 := by omega
            have hpn : e.pad = none := by
              cases hh : e.pad with
              | none => rfl
              | some p => exact absurd (Or.inr (by simp [hh])) hc
            rw [collect_eof_ok e src _ j dr (Nat.le_refl _) hj23 hpn]; simp only [collectDlenOk]; (try trivial); (try omega)

theorem setChk_size {dst dst' : Buf} {i v : Nat} (h : setChk dst i v = some dst') : dst'.size = dst.size ∧ i < dst.size := by
  unfold setChk at h
  split at h
  · next hlt => cases h; simp [hlt]
  · cases h

/-- Where `dqFinish` leaves the indices. -/
theorem dqFinish_props (e : Encoding) (dst : Buf) (n si' dlen d0 d1 d2 d3 : Nat) (err : Option Nat) (q : QRes)
    (hdl : 2 ≤ dlen ∧ dlen ≤ 4) (h : dqFinish e dst n si' dlen d0 d1 d2 d3 err = some q) :
    q.si = si' ∧ q.dst.size = dst.size ∧ n + q.n ≤ dst.size := by
  unfold dqFinish at h
  simp only [Option.bind_eq_bind, Option.pure_def, ge_iff_le] at h
  have hd3 : dlen = 2 ∨ dlen = 3 ∨ dlen = 4 := by omega
  rcases hd3 with rfl | rfl | rfl
  · simp at h
    cases hs0 : setChk dst n (decodeQuantum_out0 (decodeQuantum_val d0 d1 d2 d3)) with
    | none => simp [hs0] at h
    | some b0 =>
      have p0 := setChk_size hs0
      simp [hs0] at h
      split at h <;> (cases h; simp; omega)
  · simp at h
    cases hs1 : setChk dst (n + 1) (decodeQuantum_out1 (decodeQuantum_val d0 d1 d2 d3)) with
    | none => simp [hs1] at h
    | some b1 =>
      have p1 := setChk_size hs1
      simp [hs1] at h
      split at h
      · cases h; simp; omega
      · cases hs0 : setChk b1 n (decodeQuantum_out0 (decodeQuantum_val d0 d1 d2 d3)) with
        | none => simp [hs0] at h
        | some b0 =>
          have p0 := setChk_size hs0
          simp [hs0] at h
          cases h; simp; omega
  · simp at h
    cases hs2 : setChk dst (n + 2) (decodeQuantum_out2 (decodeQuantum_val d0 d1 d2 d3)) with
    | none => simp [hs2] at h
    | some b2 =>
      have p2 := setChk_size hs2
      simp [hs2] at h
      cases hs1 : setChk b2 (n + 1) (decodeQuantum_out1 (decodeQuantum_val d0 d1 d2 d3)) with
      | none => simp [hs1] at h
      | some b1 =>
        have p1 := setChk_size hs1
        simp [hs1] at h
        cases hs0 : setChk b1 n (decodeQuantum_out0 (decodeQuantum_val d0 d1 d2 d3)) with
        | none => simp [hs0] at h
        | some b0 =>
          have p0 := setChk_size hs0
          simp [hs0] at h
          cases h; simp; omega

/-- Where `decodeQuantum` leaves the indices. -/
theorem dq_props (e : Encoding) (dst : Buf) (n : Nat) (src : Buf) (si : Nat) (q : QRes)
    (hn : n ≤ dst.size) (hsi : si ≤ src.size) (h : decodeQuantum e dst n src si = some q) :
    q.dst.size = dst.size ∧ n + q.n ≤ dst.size ∧ q.si ≤ src.size ∧ (si < src.size → si < q.si) := by
  have hc := collect_si e src (src.size - si) si 0 [] rfl hsi (by omega)
  have hdl := collect_dlen e src (src.size - si) si 0 [] rfl hsi (by omega)
  rw [decodeQuantum_eq] at h
  cases hcol : collect e src si 0 [] with
  | inl r =>
    obtain ⟨si', err⟩ := r
    rw [hcol] at h hc
    simp only [collectSi] at hc
    cases h
    exact ⟨rfl, by simpa using hn, hc.2.1, fun hlt => hc.2.2 hlt (by omega)⟩
  | inr r =>
    obtain ⟨si', dlen, dr, err⟩ := r
    rw [hcol] at h hc hdl
    simp only [collectSi] at hc
    simp only [collectDlenOk] at hdl
    have hp := dqFinish_props e dst n si' dlen _ _ _ _ err q hdl h
    refine ⟨hp.2.1, hp.2.2, by omega, fun hlt => ?_⟩
    have := hc.2.2 hlt (by omega)
    omega

/-! ## One step of `Decode`'s loops in the model -/

theorem viaQ_eq (e : Encoding) (src : Buf) (si n : Nat) (dst : Buf) (ph : Nat) :
    viaQ e src si n dst ph =
      match decodeQuantum e dst n src si with
      | none => .inl ⟨n, none, dst, true⟩
      | some q =>
        match q.err with
        | some off => .inl ⟨n + q.n, some off, q.dst, false⟩
        | none => .inr (ph, q.si, n + q.n, q.dst) := rfl

/-- Not enough room for a fast path: quantum by quantum from now on. -/
theorem decodeStep_slow (e : Encoding) (src : Buf) (phase si n : Nat) (dst : Buf)
    (h8 : ¬ (phase = 0 ∧ src.size - si ≥ 8 ∧ dst.size - n ≥ 8))
    (h4 : ¬ (phase ≤ 1 ∧ src.size - si ≥ 4 ∧ dst.size - n ≥ 4)) :
    decodeStep e src phase si n dst = viaQ e src si n dst 2 := by
  unfold decodeStep viaQ
  simp only [h8, h4, if_false]
  rfl

theorem decodeStep_8 (e : Encoding) (src : Buf) (si n : Nat) (dst : Buf)
    (h8 : src.size - si ≥ 8 ∧ dst.size - n ≥ 8) :
    decodeStep e src 0 si n dst =
      if (assemble64 (e.dec (src.getD si 0)) (e.dec (src.getD (si+1) 0)) (e.dec (src.getD (si+2) 0)) (e.dec (src.getD (si+3) 0))
          (e.dec (src.getD (si+4) 0)) (e.dec (src.getD (si+5) 0)) (e.dec (src.getD (si+6) 0)) (e.dec (src.getD (si+7) 0))).2 = true
      then .inr (0, si + 8, n + 6, writeAt dst n (be
        (assemble64 (e.dec (src.getD si 0)) (e.dec (src.getD (si+1) 0)) (e.dec (src.getD (si+2) 0)) (e.dec (src.getD (si+3) 0))
          (e.dec (src.getD (si+4) 0)) (e.dec (src.getD (si+5) 0)) (e.dec (src.getD (si+6) 0)) (e.dec (src.getD (si+7) 0))).1 8))
      else viaQ e src si n dst 0 := by
  unfold decodeStep viaQ
  simp only [h8, and_self, if_true]
  split <;> rfl

theorem decodeStep_4 (e : Encoding) (src : Buf) (phase si n : Nat) (dst : Buf) (hph : phase ≤ 1)
    (h8 : ¬ (phase = 0 ∧ src.size - si ≥ 8 ∧ dst.size - n ≥ 8))
    (h4 : src.size - si ≥ 4 ∧ dst.size - n ≥ 4) :
    decodeStep e src phase si n dst =
      if (assemble32 (e.dec (src.getD si 0)) (e.dec (src.getD (si+1) 0)) (e.dec (src.getD (si+2) 0)) (e.dec (src.getD (si+3) 0))).2 = true
      then .inr (1, si + 4, n + 3, writeAt dst n (be
        (assemble32 (e.dec (src.getD si 0)) (e.dec (src.getD (si+1) 0)) (e.dec (src.getD (si+2) 0)) (e.dec (src.getD (si+3) 0))).1 4))
      else viaQ e src si n dst 1 := by
  unfold decodeStep viaQ
  simp only [h8, hph, h4, and_self, if_true, if_false]
  split <;> rfl

/-- Leaving the 8-symbol loop: the model goes on exactly as in phase 1. -/
theorem decodeLoop_phase01 (e : Encoding) (src : Buf) (si n : Nat) (dst : Buf)
    (h8 : ¬ (src.size - si ≥ 8 ∧ dst.size - n ≥ 8)) :
    decodeLoop e src 0 si n dst = decodeLoop e src 1 si n dst := by
  have hs : decodeStep e src 0 si n dst = decodeStep e src 1 si n dst := by
    have a0 : ¬ ((0 : Nat) = 0 ∧ src.size - si ≥ 8 ∧ dst.size - n ≥ 8) := fun h => h8 h.2
    have a1 : ¬ ((1 : Nat) = 0 ∧ src.size - si ≥ 8 ∧ dst.size - n ≥ 8) := fun h => absurd h.1 (by decide)
    by_cases h4 : src.size - si ≥ 4 ∧ dst.size - n ≥ 4
    · rw [decodeStep_4 e src 0 si n dst (by decide) a0 h4, decodeStep_4 e src 1 si n dst (by decide) a1 h4]
    · rw [decodeStep_slow e src 0 si n dst a0 (fun h => h4 h.2), decodeStep_slow e src 1 si n dst a1 (fun h => h4 h.2)]
  rw [decodeLoop, decodeLoop.eq_1 e src 1, hs]

/-- Leaving the 4-symbol loop: the model goes on exactly as in phase 2. -/
theorem decodeLoop_phase12 (e : Encoding) (src : Buf) (si n : Nat) (dst : Buf)
    (h4 : ¬ (src.size - si ≥ 4 ∧ dst.size - n ≥ 4)) :
    decodeLoop e src 1 si n dst = decodeLoop e src 2 si n dst := by
  have hs : decodeStep e src 1 si n dst = decodeStep e src 2 si n dst := by
    rw [decodeStep_slow e src 1 si n dst (fun h => absurd h.1 (by decide)) (fun h => h4 h.2),
      decodeStep_slow e src 2 si n dst (fun h => absurd h.1 (by decide)) (fun h => absurd h.1 (by decide))]
  rw [decodeLoop, decodeLoop.eq_1 e src 2, hs]

end GoCrypt.B64IR
