import GoCrypt.Proofs.EndToEndExtra
import GoCrypt.Proofs.EndToEndCanon
import GoCrypt.Proofs.FlowValLen

/-!
# bcrypt: `NewHash` is total on its domain

The length facts about the Blowfish stage (`C03bProofs.encrypt8_length`: one ECB block is 8 bytes;
`FlowVal.encryptTimes_length`: 64 encryptions of a block keep its size) give: the key `bcryptDerive`
returns — the 24-byte ECB output of `"OrpheanBeholderScryDoubt"` cut to 23 bytes — has 23 bytes
(`bcryptDerive_length`), so its `bcrypt.Encoding` text has the 31 symbols of the layout's digest field.
`NewHash` always uses `$2b$`, whose key schedule input is the password followed by a NUL: never empty, so
`blowfish.NewSaltedCipher` cannot refuse it (`Key` has no "internal" outcome on this path).
-/

namespace GoCrypt.EndToEnd.Proofs
open GoCrypt GoCrypt.Scheme GoCrypt.Codec GoCrypt.Codec.Shapes GoCrypt.Guards
open GoCrypt.Kdf (encryptTimes orphean expandLoop bcryptDerive prefix2 stdDecodeBuf)

/-- The three ECB blocks, cut to 23 bytes. -/
theorem bcrypt_blocks_length (c : Prim.Blowfish) :
    (((encryptTimes c 64 (orphean.take 8)) ++ (encryptTimes c 64 ((orphean.drop 8).take 8)) ++
      (encryptTimes c 64 (orphean.drop 16))).take 23).length = 23 := by
  rw [List.length_take, List.length_append, List.length_append,
    FlowVal.encryptTimes_length _ _ _ rfl, FlowVal.encryptTimes_length _ _ _ rfl,
    FlowVal.encryptTimes_length _ _ _ rfl]
  rfl

/-- The key schedule input: the (rewritten) password, followed by a NUL except under `$2$`. -/
def bcryptKeyInput (pfx pw : Bytes) : Bytes :=
  if pfx ≠ prefix2 then Kdf.bcryptPassword pfx pw ++ [0] else Kdf.bcryptPassword pfx pw

def bcryptCipher (pfx pw decSalt : Bytes) (cost : Nat) : Prim.Blowfish :=
  expandLoop (bcryptKeyInput pfx pw) decSalt (2 ^ cost) (Prim.Blowfish.newSaltedCipher (bcryptKeyInput pfx pw) decSalt)

def bcryptBlocks (c : Prim.Blowfish) : Bytes :=
  ((encryptTimes c 64 (orphean.take 8)) ++ (encryptTimes c 64 ((orphean.drop 8).take 8)) ++
    (encryptTimes c 64 (orphean.drop 16))).take 23

theorem bcryptDerive_unfold (pfx pw decSalt : Bytes) (cost : Nat) :
    bcryptDerive pfx pw decSalt cost =
      if (bcryptKeyInput pfx pw).isEmpty = true then none else some (bcryptBlocks (bcryptCipher pfx pw decSalt cost)) := rfl

/-- Every key `bcryptDerive` returns has 23 bytes. -/
theorem bcryptDerive_length (pfx pw decSalt k : Bytes) (cost : Nat)
    (h : bcryptDerive pfx pw decSalt cost = some k) : k.length = 23 := by
  rw [bcryptDerive_unfold] at h
  by_cases hE : (bcryptKeyInput pfx pw).isEmpty = true
  · rw [if_pos hE] at h; cases h
  · rw [if_neg hE] at h
    simp only [Option.some.injEq] at h
    subst h
    exact bcrypt_blocks_length _

/-- `bcryptDerive` refuses exactly the empty key: the empty password under `$2$` (no NUL is appended). -/
theorem bcryptDerive_eq_none_iff (pfx pw decSalt : Bytes) (cost : Nat) :
    bcryptDerive pfx pw decSalt cost = none ↔ pfx = prefix2 ∧ Kdf.bcryptPassword pfx pw = [] := by
  rw [bcryptDerive_unfold]
  unfold bcryptKeyInput
  by_cases hp : pfx = prefix2
  · subst hp
    simp only [ne_eq, not_true_eq_false, if_false, true_and]
    cases hk : Kdf.bcryptPassword prefix2 pw with
    | nil => simp
    | cons a as => simp
  · simp [hp]

theorem bcrypt_verdict_none (r : NewHashReq) (hlo : Gen.bcrypt.MinCost ≤ r.rounds)
    (hhi : r.rounds ≤ Gen.bcrypt.MaxCost) (hent : 16 ≤ r.entropy.length) :
    Accepts.bcrypt.verdict (bcryptArgs r) = none := by
  have hd : Accepts.bcrypt.defaults (bcryptArgs r) = bcryptArgs r := rfl
  rw [C14.verdict_none_iff, hd]
  intro c hc
  simp only [Accepts.bcrypt, List.mem_cons, List.not_mem_nil, or_false] at hc
  rcases hc with rfl | rfl | rfl | rfl
  · rfl
  · rw [saltExact_iff]
    show (bcryptSalt r).length = Gen.bcrypt.SaltLength
    rw [bcryptSalt, C15.stdEncode_length, List.length_take, Nat.min_eq_left hent]
    rfl
  · rw [C14.saltAlphabet_accepts_iff]
    intro c hc
    have h1 := stdEncode_mem bcryptAlphabet (by decide) _ c hc
    have : ∀ c ∈ bcryptAlphabet, c ∈ Accepts.hashAlpha := by decide
    exact this c h1
  · simp only [Accepts.Clause.violation]
    rw [if_neg]
    show ¬ (r.rounds < _ ∨ r.rounds > _)
    omega

/-- `Key` on the arguments `NewHash` builds: always a key, of 23 bytes. -/
theorem key_bcrypt_newHash (r : NewHashReq) (hlo : Gen.bcrypt.MinCost ≤ r.rounds)
    (hhi : r.rounds ≤ Gen.bcrypt.MaxCost) (hent : 16 ≤ r.entropy.length) :
    ∃ k, key bcrypt (bcryptArgs r) = .ok k ∧ k.length = 23 := by
  have hv := bcrypt_verdict_none r hlo hhi hent
  have hkey : key bcrypt (bcryptArgs r) =
      bcrypt.derive { bcryptArgs r with password := Guards.bcryptPassword Gen.bcrypt.Prefix2b r.password } := by
    rw [key_of_guards bcrypt Accepts.bcrypt _ bcrypt_guards', hv]
    rfl
  -- `$2b$` is not `$2$`: a NUL is appended, the key is never empty
  have hne : Gen.bcrypt.Prefix2b ≠ prefix2 := by decide
  have hE : ¬ (if Gen.bcrypt.Prefix2b ≠ prefix2 then Guards.bcryptPassword Gen.bcrypt.Prefix2b r.password ++ [0]
      else Guards.bcryptPassword Gen.bcrypt.Prefix2b r.password).isEmpty = true := by
    rw [if_pos hne]; simp
  refine ⟨_, ?_, bcrypt_blocks_length
    (expandLoop (Guards.bcryptPassword Gen.bcrypt.Prefix2b r.password ++ [0]) (stdDecodeBuf bcryptAlphabet (bcryptSalt r))
      (2 ^ r.rounds) (Prim.Blowfish.newSaltedCipher (Guards.bcryptPassword Gen.bcrypt.Prefix2b r.password ++ [0])
        (stdDecodeBuf bcryptAlphabet (bcryptSalt r))))⟩
  rw [hkey]
  show (if (if Gen.bcrypt.Prefix2b ≠ prefix2 then Guards.bcryptPassword Gen.bcrypt.Prefix2b r.password ++ [0]
      else Guards.bcryptPassword Gen.bcrypt.Prefix2b r.password).isEmpty = true then KeyRes.internal "cipher" else _) = _
  rw [if_neg hE]
  have hne' : (bcryptArgs r).optPrefix ≠ prefix2 := hne
  simp only [if_pos hne']
  rfl

theorem newHash_total_bcrypt (r : NewHashReq) (hlo : Gen.bcrypt.MinCost ≤ r.rounds)
    (hhi : r.rounds ≤ Gen.bcrypt.MaxCost) (hent : 16 ≤ r.entropy.length) :
    ∃ h, newHash bcrypt r = .ok h 16 ∧ h ≠ [] := by
  obtain ⟨k, hk, hl⟩ := key_bcrypt_newHash r hlo hhi hent
  refine newHash_ok_bcrypt r k hk ?_
  rw [bcrypt_encodeSum, C15.stdEncode_length, hl]
  rfl

/-- The domain is exact: `NewHash` returns a hash ONLY for a cost within the exported bounds and 16
bytes of entropy (a shorter salt is `InvalidSaltLengthError`). -/
theorem newHash_ok_bcrypt_domain (r : NewHashReq) (h : Bytes) (used : Nat) (hn : newHash bcrypt r = .ok h used) :
    Gen.bcrypt.MinCost ≤ r.rounds ∧ r.rounds ≤ Gen.bcrypt.MaxCost ∧ 16 ≤ r.entropy.length := by
  obtain ⟨k, hk, -, -⟩ := newHash_bcrypt_inv r h used hn
  obtain ⟨hlo, hhi⟩ := key_bcrypt_cost _ k rfl hk
  refine ⟨hlo, hhi, ?_⟩
  obtain ⟨hc, -⟩ := key_ok_of_guards bcrypt Accepts.bcrypt _ bcrypt_guards' _ k hk
  have hsl : (bcryptSalt r).length = 22 :=
    saltExact_ok (a := bcryptArgs r)
      (hc (.saltExact Gen.bcrypt.SaltLength "InvalidSaltLengthError") (by simp [Accepts.bcrypt]))
  rw [bcryptSalt, C15.stdEncode_length, List.length_take] at hsl
  omega

end GoCrypt.EndToEnd.Proofs
