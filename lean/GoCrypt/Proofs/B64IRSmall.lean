import GoCrypt.Proofs.B64IRDefs

/-!
# Buffer IR of `hash/base64le`: `EncodedLen`, `DecodedLen`, `assemble32`, `assemble64`

What the regenerated straight-line functions compute, for every calling context. Helper lemmas only.
-/

namespace GoCrypt.B64IR
open GoCrypt.Base64LE GoCrypt.Gen.base64leIR GoCrypt.Gen.base64le

/-! ## `EncodedLen` / `DecodedLen` -/

theorem encodedLen_proc (c : Ctx) (e : Encoding) (h : Heap) (n : Nat) (hn : n * 8 + 5 < 2 ^ 63) :
    execProc c encodedLenIR h [encVal e, .int n] = .ok (h, [.int (encodedLen e n)]) := by
  simp only [execProc, encodedLenIR, encVal]
  by_cases hp : padInt e = -1
  · have hp' := hp; rw [padInt_eq_neg_one] at hp'
    b64_simp [hp]
    simp [encodedLen, EncodedLen, hp']
  · have hp' := hp; rw [padInt_eq_neg_one] at hp'
    b64_simp [hp]
    simp [encodedLen, EncodedLen, hp']

theorem decodedLen_proc (c : Ctx) (e : Encoding) (h : Heap) (n : Nat) (hn : n * 6 < 2 ^ 63) :
    execProc c decodedLenIR h [encVal e, .int n] = .ok (h, [.int (decodedLen e n)]) := by
  simp only [execProc, decodedLenIR, encVal]
  by_cases hp : padInt e = -1
  · have hp' := hp; rw [padInt_eq_neg_one] at hp'
    b64_simp [hp]
    simp [decodedLen, DecodedLen, hp']
  · have hp' := hp; rw [padInt_eq_neg_one] at hp'
    b64_simp [hp]
    simp [decodedLen, DecodedLen, hp']

/-! ## `assemble32` / `assemble64` -/

theorem assemble32_proc (c : Ctx) (h : Heap) (n1 n2 n3 n4 : Nat) :
    execProc c assemble32IR h [.int n1, .int n2, .int n3, .int n4] =
      .ok (h, [.int (assemble32 n1 n2 n3 n4).1, .bool (assemble32 n1 n2 n3 n4).2]) := by
  simp only [execProc, assemble32IR]
  rw [assemble32_eq]
  by_cases hff : (n1 ||| n2 ||| n3 ||| n4) = 255
  · have hff' : ((n1 ||| n2 ||| n3 ||| n4 : Nat) : Int) = 255 := by rw [hff]; rfl
    rw [if_pos hff]
    b64_simp [hff']
  · have hff' : ¬ ((n1 ||| n2 ||| n3 ||| n4 : Nat) : Int) = 255 := by omega
    rw [if_neg hff]
    b64_simp [hff']

theorem assemble64_proc (c : Ctx) (h : Heap) (n1 n2 n3 n4 n5 n6 n7 n8 : Nat) :
    execProc c assemble64IR h [.int n1, .int n2, .int n3, .int n4, .int n5, .int n6, .int n7, .int n8] =
      .ok (h, [.int (assemble64 n1 n2 n3 n4 n5 n6 n7 n8).1, .bool (assemble64 n1 n2 n3 n4 n5 n6 n7 n8).2]) := by
  simp only [execProc, assemble64IR]
  rw [assemble64_eq]
  by_cases hff : (n1 ||| n2 ||| n3 ||| n4 ||| n5 ||| n6 ||| n7 ||| n8) = 255
  · have hff' : ((n1 ||| n2 ||| n3 ||| n4 ||| n5 ||| n6 ||| n7 ||| n8 : Nat) : Int) = 255 := by rw [hff]; rfl
    rw [if_pos hff]
    b64_simp [hff']
  · have hff' : ¬ ((n1 ||| n2 ||| n3 ||| n4 ||| n5 ||| n6 ||| n7 ||| n8 : Nat) : Int) = 255 := by omega
    rw [if_neg hff]
    b64_simp [hff']

end GoCrypt.B64IR
