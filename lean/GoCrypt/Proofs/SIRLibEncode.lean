import GoCrypt.Proofs.SIREncDefs
import GoCrypt.Proofs.B64IREncodeW

/-!
# Stream IR of `hash/base64le`: the library functions `Encoding.Encode` / `Encoding.EncodedLen`

`EncLibSpec lib` — what the streaming encoder's `Write`/`Close` need from the library — holds for
`lib = libB64 base64leIR.program`, the regenerated buffer-IR program: `Encode` of ANY source window
into a whole destination buffer (`B64IR.encode_proc_window`) and `EncodedLen` (`B64IR.encodedLen_proc`).
Helper lemmas only.
-/

namespace GoCrypt.SIR
open GoCrypt.B64IR (Buf Heap Slice Res sliceBytes writeList padInt decodeMapBytes encVal)
open GoCrypt.Base64LE GoCrypt.Stream GoCrypt.Gen.base64leStream

theorem lib_encodedLen (e : Encoding) (H : Heap) (O : List Obj) (X : List Ext) (ae b1 b2 : Nat)
    (he : EncAt H O ae b1 b2 e) (n : Nat) (hn : n * 8 + 5 < 2 ^ 63) :
    lib "Encoding.EncodedLen" ⟨H, O, X⟩ [.ptr ae, .int n] = .ok (⟨H, O, X⟩, [.int (encodedLen e n)]) := by
  have h1 : B64IR.interp GoCrypt.Gen.base64leIR.program "Encoding.EncodedLen" H [encVal e, .int n] =
      .ok (H, [.int (encodedLen e n)]) := by
    rw [B64IR.interp_eq GoCrypt.Gen.base64leIR.program _ _ H _ B64IR.lookup_el rfl]
    exact B64IR.encodedLen_proc _ e H n hn
  have hargs : argsToB ⟨H, O, X⟩ [.ptr ae, .int n] = .ok [encVal e, .int n] := by
    simp only [argsToB, toB_enc X he]; rfl
  simp only [lib, libB64, hargs, h1]
  rfl

theorem lib_encode (e : Encoding) (H : Heap) (O : List Obj) (X : List Ext) (ae b1 b2 : Nat)
    (he : EncAt H O ae b1 b2 e) (d s : Nat) (dst S : Buf) (off n cp : Nat)
    (hd : H[d]? = some dst) (hs : H[s]? = some S) (hne : d ≠ s) (hwin : off + n ≤ S.size)
    (hlen : encodedLen e n ≤ dst.size) (hdz : dst.size < 2 ^ 62) :
    lib "Encoding.Encode" ⟨H, O, X⟩ [.ptr ae, .slice ⟨d, 0, dst.size, dst.size⟩, .slice ⟨s, off, n, cp⟩] =
      .ok (⟨H.set d (writeAt dst 0 (encode e ((S.toList.drop off).take n))), O, X⟩, []) := by
  have h1 : B64IR.interp GoCrypt.Gen.base64leIR.program "Encoding.Encode" H
      [encVal e, .slice ⟨d, 0, dst.size, dst.size⟩, .slice ⟨s, off, n, cp⟩] =
      .ok (H.set d (writeAt dst 0 (encode e ((S.toList.drop off).take n))), []) := by
    rw [B64IR.interp_eq GoCrypt.Gen.base64leIR.program _ _ H _ B64IR.lookup_enc rfl]
    exact B64IR.encode_proc_window _ e he.len H d s dst S off n cp hd hs hne hwin hlen hdz
  have hargs : argsToB ⟨H, O, X⟩ [.ptr ae, .slice ⟨d, 0, dst.size, dst.size⟩, .slice ⟨s, off, n, cp⟩] =
      .ok [encVal e, .slice ⟨d, 0, dst.size, dst.size⟩, .slice ⟨s, off, n, cp⟩] := by
    simp only [argsToB, toB_enc X he]; rfl
  simp only [lib, libB64, hargs, h1]
  rfl

/-- The regenerated buffer-IR program provides what the streaming encoder needs from the library. -/
theorem libB64_encLibSpec : EncLibSpec lib where
  encode := fun e H O X ae b1 b2 he d s dst S off n cp hd hs hne hwin hlen hdz =>
    lib_encode e H O X ae b1 b2 he d s dst S off n cp hd hs hne hwin hlen hdz
  encodedLen := fun e H O X ae b1 b2 he n hn => lib_encodedLen e H O X ae b1 b2 he n hn

end GoCrypt.SIR
