import GoCrypt.Proofs.CodecIRUText2

/-!
# Codec IR: the second half of `unmarshal` = the model's `storeValue`, for every field kind

`uStore` (everything after the alphabet check) in three phases: `gS1` the TextUnmarshaler attempts, `gS2` the prefix rule,
`gS3` the switch on the kind (with the `Index(i).SetUint` loop for `[]byte` / `[n]byte`).  Helper lemmas only.
-/

namespace GoCrypt.CIR
open GoCrypt.Codec GoCrypt.Gen.codecIR
open GoCrypt.TIIR (RType Res kindNum fiType fiObj tiObj encVal optsVals)

/-! ## The cell under the reference `v` -/

/-- The root value `r` with the value `k` pointers below it replaced by `g` (`r` itself when the chain is shorter). -/
def reroot (k : Nat) (r g : GVal) : GVal := (setDeep k r g).getD r

theorem setDeep_shape : ∀ (k : Nat) (r cur g : GVal), getDeep k r = some cur →
    ∃ r', setDeep k r g = some r' ∧ getDeep k r' = some g ∧ (∀ g', setDeep k r' g' = setDeep k r g') ∧ (g = cur → r' = r)
  | 0, r, cur, g, h => ⟨g, rfl, rfl, fun _ => rfl, fun hg => by simp only [getDeep, Option.some.injEq] at h; rw [hg, h]⟩
  | k + 1, r, cur, g, h => by
    cases r <;> simp only [getDeep, reduceCtorEq] at h
    rename_i inner
    obtain ⟨r', h1, h2, h3, h4⟩ := setDeep_shape k inner cur g h
    refine ⟨.ptr r', by simp [setDeep, h1], by simpa [getDeep] using h2, fun g' => by simp [setDeep, h3], fun hg => by rw [h4 hg]⟩

section reroot
variable (k : Nat) (r cur : GVal) (hg : getDeep k r = some cur)
include hg
theorem setDeep_reroot (g : GVal) : setDeep k r g = some (reroot k r g) := by
  obtain ⟨r', h1, _⟩ := setDeep_shape k r cur g hg
  simp [reroot, h1]
theorem getDeep_reroot (g : GVal) : getDeep k (reroot k r g) = some g := by
  obtain ⟨r', h1, h2, _⟩ := setDeep_shape k r cur g hg
  simpa [reroot, h1] using h2
theorem reroot_reroot (g g' : GVal) : reroot k (reroot k r g) g' = reroot k r g' := by
  obtain ⟨r', h1, _, h3, _⟩ := setDeep_shape k r cur g hg
  have : reroot k r g = r' := by simp [reroot, h1]
  rw [this]; unfold reroot; rw [h3]
  obtain ⟨r'', h1', _⟩ := setDeep_shape k r cur g' hg
  simp [h1']
theorem reroot_self : reroot k r cur = r := by
  obtain ⟨r', h1, _, _, h4⟩ := setDeep_shape k r cur cur hg
  simp [reroot, h1, h4 rfl]
end reroot

theorem reroot_ptrChain (k : Nat) (cur g : GVal) : reroot k (ptrChain k cur) g = ptrChain k g := by
  simp [reroot, setDeep_ptrChain]

/-- `mm` is `m` except for the cell `idx`, whose value `k` pointers down is `g` (the rest of the chain as in `r`). -/
structure At (m mm : Mem) (idx : List Nat) (k : Nat) (r g : GVal) : Prop where
  same : SameBut m mm idx
  root : cellRoot mm idx = some (reroot k r g)

section at_
variable (m : Mem) (idx : List Nat) (k : Nat) (r cur : GVal) (hr : cellRoot m idx = some r) (hg : getDeep k r = some cur)
include hr hg
theorem At.init : At m m idx k r cur := ⟨SameBut.rfl' m idx, by rw [reroot_self k r cur hg]; exact hr⟩
omit hr in
theorem At.get {mm : Mem} {g : GVal} (h : At m mm idx k r g) : cellGet mm idx k = .ok g :=
  cellGet_of_root mm idx k _ g h.root (getDeep_reroot k r cur hg g)
omit hr in
theorem At.set {mm : Mem} {g : GVal} (h : At m mm idx k r g) (g' : GVal) :
    cellSet mm idx k g' = .ok (mm.withCell idx (reroot k r g')) ∧ At m (mm.withCell idx (reroot k r g')) idx k r g' := by
  have hs : setDeep k (reroot k r g) g' = some (reroot k r g') := by
    rw [setDeep_reroot k (reroot k r g) g (getDeep_reroot k r cur hg g) g', reroot_reroot k r cur hg]
  exact ⟨cellSet_of_root mm idx k _ g' _ h.root hs,
    ⟨h.same.trans (SameBut.withCell mm idx _), cellRoot_withCell_same mm idx _ _ h.root⟩⟩
end at_

/-! ## Small facts about the operations `unmarshal` applies to `v` -/

/-- `indirectType(fi.Type)`. -/
def ftOf (fi : FieldInfo) : RType := { fiType fi with depth := 0 }

theorem ext1M_cell_canAddr (m : Mem) (t : RType) (idx : List Nat) (k : Nat) (ro : Bool) :
    ext1M m .valCanAddr (.cell t idx k ro) = .ok (.bool true) := rfl
theorem ext1M_cell_addr (m : Mem) (t : RType) (idx : List Nat) (k : Nat) (ro : Bool) :
    ext1M m .valAddr (.cell t idx k ro) = .ok (.addr t idx k ro) := rfl
theorem ext1M_addr_canInterface (m : Mem) (t : RType) (idx : List Nat) (k : Nat) (ro : Bool) :
    ext1M m .valCanInterface (.addr t idx k ro) = .ok (.bool (!ro)) := rfl
theorem ext1M_addr_type (m : Mem) (t : RType) (idx : List Nat) (k : Nat) (ro : Bool) :
    ext1M m .valType (.addr t idx k ro) = .ok (.rtype { t with depth := t.depth + 1 }) := rfl
theorem ext1M_cell_canInterface (m : Mem) (t : RType) (idx : List Nat) (k : Nat) (ro : Bool) (g : GVal)
    (hg : cellGet m idx k = .ok g) : ext1M m .valCanInterface (.cell t idx k ro) = .ok (.bool (!ro)) := by
  rw [ext1M_cell_read m .valCanInterface t idx k ro g (by simp) hg]; rfl
theorem ext1M_cell_kind (m : Mem) (t : RType) (idx : List Nat) (k : Nat) (ro : Bool) (g : GVal)
    (hg : cellGet m idx k = .ok g) (hd : t.depth = 0) (hk : ∀ d, t.kind ≠ .other d) :
    ext1M m .valKind (.cell t idx k ro) = .ok (.int (kindNum t)) := by
  rw [ext1M_cell_read m .valKind t idx k ro g (by simp) hg]
  show (do let k ← valKindNum t g; pure (Val.int k)) = _
  rw [valKindNum_plain t g hd hk]; rfl
theorem ext1M_cell_len (m : Mem) (t : RType) (idx : List Nat) (k : Nat) (ro : Bool) (b : Bytes)
    (hg : cellGet m idx k = .ok (.bytes b)) (hd : t.depth = 0) :
    ext1M m .valLen (.cell t idx k ro) = .ok (.int b.length) := by
  rw [ext1M_cell_read m .valLen t idx k ro _ (by simp) hg]
  simp [ext1, hd]
theorem ext1M_cell_cap (m : Mem) (t : RType) (idx : List Nat) (k : Nat) (ro : Bool) (b : Bytes)
    (hg : cellGet m idx k = .ok (.bytes b)) (hd : t.depth = 0) :
    ext1M m .valCap (.cell t idx k ro) = .ok (.int b.length) := by
  simp [ext1M, hg, hd]

theorem ext1_errorString_num (r : Bool) : ext1 .errorString (.numErr r) = .ok (.msg [.numErrText r]) := rfl

theorem kindNum_ftOf_string (fi : FieldInfo) : (kindNum (ftOf fi) = 24) = (fi.kind = .string) := by
  unfold kindNum ftOf fiType
  simp only [Nat.lt_irrefl, if_false, gt_iff_lt]
  cases fi.kind <;> simp <;> (repeat' split) <;> simp

def gS1 : Stmt := uStore.take 3
def gS2 : Stmt := (uStore.drop 3).take 1
def gS3 : Stmt := uStore.drop 4

theorem uStore_split (c : Ctx) (m : Mem) (env : Env) :
    exec c uStore m env = (exec c gS1 m env).andThen fun m env => (exec c gS2 m env).andThen (exec c gS3) := by
  rw [exec_take_drop c m env 3 uStore]
  congr 1; funext m env
  rw [exec_take_drop c m env 1 (uStore.drop 3)]
  rfl


def Stmt.iteElse' : Stmt → Stmt
  | .ite _ _ e => e
  | s => s

/-- The `switch ft.Kind()` of `unmarshal`: its four clauses, and what follows it (the `unsupported type` return). -/
def swChain : Stmt := (gS3.drop 1).head
def swArr : Stmt := swChain.iteThen'
def swInt : Stmt := swChain.iteElse'.iteThen'
def swUint : Stmt := swChain.iteElse'.iteElse'.iteThen'
def swStr : Stmt := swChain.iteElse'.iteElse'.iteElse'.iteThen'
def swTail : Stmt := gS3.drop 2
def cArr : Expr := .lor (.eq (.var 24) (.int 17)) (.eq (.var 24) (.int 23))
def cInt : Expr := .lor (.eq (.var 24) (.int 2)) (.lor (.eq (.var 24) (.int 3)) (.lor (.eq (.var 24) (.int 4)) (.lor (.eq (.var 24) (.int 5)) (.eq (.var 24) (.int 6)))))
def cUint : Expr := .lor (.eq (.var 24) (.int 7)) (.lor (.eq (.var 24) (.int 8)) (.lor (.eq (.var 24) (.int 9)) (.lor (.eq (.var 24) (.int 10)) (.eq (.var 24) (.int 11)))))
def cStr : Expr := .eq (.var 24) (.int 24)

theorem gS3_eq : gS3 = (.assign [.var 24] [(.ext1 .typeKind (.var 7))] ;;;
    .ite cArr swArr (.ite cInt swInt (.ite cUint swUint (.ite cStr swStr .skip))) ;;; swTail) := rfl

/-- Which clause of the switch a kind number selects. -/
def swPick (kn : Int) : Stmt :=
  if kn = 17 ∨ kn = 23 then swArr else if kn = 2 ∨ kn = 3 ∨ kn = 4 ∨ kn = 5 ∨ kn = 6 then swInt
  else if kn = 7 ∨ kn = 8 ∨ kn = 9 ∨ kn = 10 ∨ kn = 11 then swUint else if kn = 24 then swStr else .skip

theorem kindNum_ftOf_cases (fi : FieldInfo) : kindNum (ftOf fi) ∈ ([0, 2, 3, 4, 5, 6, 7, 8, 9, 10, 11, 17, 23, 24, 25] : List Int) := by
  cases hk : fi.kind with
  | int b => rcases kindNum_int (ftOf fi) b rfl hk with h | h | h | h | h <;> rw [h] <;> decide
  | uint b => rcases kindNum_uint (ftOf fi) b rfl hk with h | h | h | h | h <;> rw [h] <;> decide
  | string => have : kindNum (ftOf fi) = 24 := by simp [kindNum, ftOf, fiType, hk]
              rw [this]; decide
  | bytes => have : kindNum (ftOf fi) = 23 := by simp [kindNum, ftOf, fiType, hk]
             rw [this]; decide
  | byteArray n => have : kindNum (ftOf fi) = 17 := by simp [kindNum, ftOf, fiType, hk]
                   rw [this]; decide
  | structRef n => have : kindNum (ftOf fi) = 25 := by simp [kindNum, ftOf, fiType, hk]
                   rw [this]; decide
  | other d => have : kindNum (ftOf fi) = 0 := by simp [kindNum, ftOf, fiType, hk]
               rw [this]; decide

theorem gS3_dispatch_kn (c : Ctx) (m : Mem) (fi : FieldInfo) (kn : Int) (hk : kindNum (ftOf fi) = kn)
    (h : kn = 0 ∨ kn = 2 ∨ kn = 3 ∨ kn = 4 ∨ kn = 5 ∨ kn = 6 ∨ kn = 7 ∨ kn = 8 ∨ kn = 9 ∨ kn = 10 ∨ kn = 11 ∨ kn = 17 ∨ kn = 23 ∨
      kn = 24 ∨ kn = 25)
    (x0 x1 x2 x3 x4 x5 x6 x8 x9 x10 x11 x12 x13 x14 x15 x16 x17 x18 x19 x20 x21 x22 x23 x24 x25 x26 x27 : Val) :
    exec c gS3 m [x0, x1, x2, x3, x4, x5, x6, .rtype (ftOf fi), x8, x9, x10, x11, x12, x13, x14, x15,
        x16, x17, x18, x19, x20, x21, x22, x23, x24, x25, x26, x27] =
      (exec c (swPick kn) m [x0, x1, x2, x3, x4, x5, x6, .rtype (ftOf fi), x8, x9, x10, x11, x12, x13, x14, x15,
        x16, x17, x18, x19, x20, x21, x22, x23, .int kn, x25, x26, x27]).andThen (exec c swTail) := by
  rw [gS3_eq]
  simp only [cArr, cInt, cUint, cStr]
  rcases h with h | h | h | h | h | h | h | h | h | h | h | h | h | h | h <;> subst h <;>
    (ci_simp [hk]; simp [swPick, exec_skip])

/-- The switch dispatches on `kindNum ft`. -/
theorem gS3_dispatch (c : Ctx) (m : Mem) (fi : FieldInfo)
    (x0 x1 x2 x3 x4 x5 x6 x8 x9 x10 x11 x12 x13 x14 x15 x16 x17 x18 x19 x20 x21 x22 x23 x24 x25 x26 x27 : Val) :
    exec c gS3 m [x0, x1, x2, x3, x4, x5, x6, .rtype (ftOf fi), x8, x9, x10, x11, x12, x13, x14, x15,
        x16, x17, x18, x19, x20, x21, x22, x23, x24, x25, x26, x27] =
      (exec c (swPick (kindNum (ftOf fi))) m [x0, x1, x2, x3, x4, x5, x6, .rtype (ftOf fi), x8, x9, x10, x11, x12, x13, x14, x15,
        x16, x17, x18, x19, x20, x21, x22, x23, .int (kindNum (ftOf fi)), x25, x26, x27]).andThen (exec c swTail) :=
  gS3_dispatch_kn c m fi _ rfl (by simpa using kindNum_ftOf_cases fi) _ _ _ _ _ _ _ _ _ _ _ _ _ _ _ _ _ _ _ _ _ _ _ _ _ _ _

@[simp] theorem deferMem_true (m : Mem) (na : Nat) (s0 : Bytes) (pos fin len : Nat) :
    deferMem m true na s0 pos fin len = { m with nodes := m.nodes.set na (.value (s0.drop len) pos fin) } := rfl

section store
variable (c : Ctx) (m : Mem) (na tia a : Nat) (s0 : Bytes) (pos fin : Nat) (fi : FieldInfo) (kl : Bytes) (kind : String) (st : RType)
  (t0 : RType) (idx : List Nat) (k : Nat) (r cur : GVal) (s : Bytes)
  (ha : m.heap[a]? = some (fiObj fi)) (hec : ErrCalls c m na tia a kl kind fin fi st)
  (hit : IndirectTypeOk c.ext) (hd : t0.depth = 0) (hk0 : t0.kind = fi.kind) (hu0 : t0.ut = fi.unmarshalText)
  (hr : cellRoot m idx = some r) (hg : getDeep k r = some cur)

include ha hit hd hu0 hr hg in
/-- Phase 1 without a text unmarshaler: `ft`, `a := v.Addr()`. -/
theorem gS1_none (hut : fi.unmarshalText = .none) (inl : Bool)
    (y5 y6 x7 x8 x9 x10 x11 x12 x13 x14 x15 x17 x18 x19 x20 x21 x22 x23 x24 x25 x26 x27 : Val) :
    exec c gS1 m [.node na, .ptr tia, .ptr a, .cell t0 idx k false, .str s, y5, y6, x7, x8, x9, x10, x11, x12, x13, x14, x15,
        .bool inl, x17, x18, x19, x20, x21, x22, x23, x24, x25, x26, x27] =
      .norm m [.node na, .ptr tia, .ptr a, .cell t0 idx k false, .str s, y5, y6, .rtype (ftOf fi), x8, .addr t0 idx k false, x10, x11, x12,
        x13, x14, x15, .bool inl, x17, x18, x19, x20, x21, x22, x23, x24, x25, x26, x27] := by
  have hcg : cellGet m idx k = .ok cur := cellGet_of_root m idx k r cur hr hg
  have hext : c.ext "indirectType" m [.rtype (fiType fi)] = .ok (m, [.rtype (ftOf fi)]) := hit m (fiType fi)
  have himp : decide (({ t0 with depth := t0.depth + 1 } : RType).ut ≠ .none) = false := by simp [hu0, hut]
  simp only [gS1, uStore, unmarshalIR, Stmt.drop, Stmt.take]
  ci_simp [fi_type m a fi ha, hext, ext1M_cell_canInterface m t0 idx k false cur hcg, typeImplements_u0 c (ftOf fi) rfl,
    ext1M_cell_canAddr, ext1M_cell_addr, ext1M_addr_canInterface, ext1M_addr_type,
    typeImplements_u1 c { t0 with depth := t0.depth + 1 } (by simp [hd]), himp]

include ha hec hit hd hu0 hr hg in
/-- Phase 1 with a text unmarshaler (pointer receiver): `UnmarshalText` decides. -/
theorem gS1_text (hut : fi.unmarshalText ≠ .none) (res : Except String GVal) (hres : c.unmarshalText fi.unmarshalText s = some res)
    (inl : Bool) (y5 : Val)
    (hy5 : inl = true → y5 = .node na ∧ fi.opts.length ≤ s0.length ∧ m.nodes[na]? = some (.value s0 pos fin))
    (y6 x7 x8 x9 x10 x11 x12 x13 x14 x15 x17 x18 x19 x20 x21 x22 x23 x24 x25 x26 x27 : Val) :
    exec c gS1 m [.node na, .ptr tia, .ptr a, .cell t0 idx k false, .str s, y5, y6, x7, x8, x9, x10, x11, x12, x13, x14, x15,
        .bool inl, x17, x18, x19, x20, x21, x22, x23, x24, x25, x26, x27] =
      (match res with
       | .ok g => .ret (deferMem (m.withCell idx (reroot k r g)) inl na s0 pos fin fi.opts.length) [.nil]
       | .error d => .ret (deferMem m inl na s0 pos fin fi.opts.length) [errRecK kl fin fi st (.msg [.errText d])]) := by
  have hcg : cellGet m idx k = .ok cur := cellGet_of_root m idx k r cur hr hg
  have hext : c.ext "indirectType" m [.rtype (fiType fi)] = .ok (m, [.rtype (ftOf fi)]) := hit m (fiType fi)
  have himp : decide (({ t0 with depth := t0.depth + 1 } : RType).ut ≠ .none) = true := by simp [hu0, hut]
  have hres' : c.unmarshalText t0.ut s = some res := by rw [hu0]; exact hres
  simp only [gS1, uStore, unmarshalIR, Stmt.drop, Stmt.take]
  cases res with
  | ok g =>
    have hset : cellSet m idx k g = .ok (m.withCell idx (reroot k r g)) :=
      cellSet_of_root m idx k r g _ hr (setDeep_reroot k r cur hg g)
    cases inl
    · ci_simp [fi_type m a fi ha, hext, ext1M_cell_canInterface m t0 idx k false cur hcg, typeImplements_u0 c (ftOf fi) rfl,
        ext1M_cell_canAddr, ext1M_cell_addr, ext1M_addr_canInterface, ext1M_addr_type,
        typeImplements_u1 c { t0 with depth := t0.depth + 1 } (by simp [hd]), himp, hres', hset, deferMem_false]
    · obtain ⟨rfl, hle, hn⟩ := hy5 rfl
      have hle' : (0 : Int) ≤ (fi.opts.length : Int) ∧ (fi.opts.length : Int) ≤ (s0.length : Int) := by omega
      have hn' : (m.withCell idx (reroot k r g)).nodes[na]? = some (.value s0 pos fin) := hn
      ci_simp [fi_type m a fi ha, hext, ext1M_cell_canInterface m t0 idx k false cur hcg, typeImplements_u0 c (ftOf fi) rfl,
        ext1M_cell_canAddr, ext1M_cell_addr, ext1M_addr_canInterface, ext1M_addr_type,
        typeImplements_u1 c { t0 with depth := t0.depth + 1 } (by simp [hd]), himp, hres', hset, deferMem_true,
        ext1M_nodeValue _ na s0 pos fin hn', fi_length (m.withCell idx (reroot k r g)) a fi ha, sliceFromVal, hle', hn']
  | error d =>
    have hcall := hec.msg [.errText d]
    cases inl
    · ci_simp [fi_type m a fi ha, hext, ext1M_cell_canInterface m t0 idx k false cur hcg, typeImplements_u0 c (ftOf fi) rfl,
        ext1M_cell_canAddr, ext1M_cell_addr, ext1M_addr_canInterface, ext1M_addr_type,
        typeImplements_u1 c { t0 with depth := t0.depth + 1 } (by simp [hd]), himp, hres', hcall, errRecK, deferMem_false]
    · obtain ⟨rfl, hle, hn⟩ := hy5 rfl
      have hle' : (0 : Int) ≤ (fi.opts.length : Int) ∧ (fi.opts.length : Int) ≤ (s0.length : Int) := by omega
      ci_simp [fi_type m a fi ha, hext, ext1M_cell_canInterface m t0 idx k false cur hcg, typeImplements_u0 c (ftOf fi) rfl,
        ext1M_cell_canAddr, ext1M_cell_addr, ext1M_addr_canInterface, ext1M_addr_type,
        typeImplements_u1 c { t0 with depth := t0.depth + 1 } (by simp [hd]), himp, hres', hcall, errRecK, deferMem_true,
        ext1M_nodeValue _ na s0 pos fin hn, fi_length m a fi ha, sliceFromVal, hle', hn]

include ha hec in
/-- Phase 2: the prefix rule (`fi.Opts.Prefix && ft.Kind() != reflect.String`). -/
theorem gS2_spec (inl : Bool) (y5 : Val)
    (hy5 : inl = true → y5 = .node na ∧ fi.opts.length ≤ s0.length ∧ m.nodes[na]? = some (.value s0 pos fin))
    (cv y6 x8 x9 x10 x11 x12 x13 x14 x15 x17 x18 x19 x20 x21 x22 x23 x24 x25 x26 x27 : Val) :
    exec c gS2 m [.node na, .ptr tia, .ptr a, cv, .str s, y5, y6, .rtype (ftOf fi), x8, x9, x10, x11, x12, x13, x14, x15,
        .bool inl, x17, x18, x19, x20, x21, x22, x23, x24, x25, x26, x27] =
      (if fi.opts.isPrefix && decide (fi.kind ≠ .string) then
        .ret (deferMem m inl na s0 pos fin fi.opts.length) [errRecK kl fin fi st (.str unsupportedTypeLit)]
       else .norm m [.node na, .ptr tia, .ptr a, cv, .str s, y5, y6, .rtype (ftOf fi), x8, x9, x10, x11, x12, x13, x14, x15,
        .bool inl, x17, x18, x19, x20, x21, x22, x23, x24, x25, x26, x27]) := by
  have hcall := hec.str unsupportedTypeLit
  simp only [unsupportedTypeLit] at hcall
  simp only [gS2, uStore, unmarshalIR, Stmt.drop, Stmt.take]
  cases hpx : fi.opts.isPrefix
  · ci_simp [fi_prefix m a fi ha, hpx]
  · by_cases hks : fi.kind = .string
    · have hkn : kindNum (ftOf fi) = 24 := by rw [kindNum_ftOf_string]; exact hks
      ci_simp [fi_prefix m a fi ha, hpx, hkn, hks]
    · have hkn : ¬ kindNum (ftOf fi) = 24 := by rw [kindNum_ftOf_string]; exact hks
      cases inl
      · ci_simp [fi_prefix m a fi ha, hpx, hkn, hks, hcall, errRecK, unsupportedTypeLit, deferMem_false]
      · obtain ⟨rfl, hle, hn⟩ := hy5 rfl
        have hle' : (0 : Int) ≤ (fi.opts.length : Int) ∧ (fi.opts.length : Int) ≤ (s0.length : Int) := by omega
        ci_simp [fi_prefix m a fi ha, hpx, hkn, hks, hcall, errRecK, unsupportedTypeLit, deferMem_true,
          ext1M_nodeValue _ na s0 pos fin hn, fi_length m a fi ha, sliceFromVal, hle', hn]

include ha hec in
/-- After the switch: `unsupported type`. -/
theorem swTail_spec (inl : Bool) (y5 : Val)
    (hy5 : inl = true → y5 = .node na ∧ fi.opts.length ≤ s0.length ∧ m.nodes[na]? = some (.value s0 pos fin))
    (cv x4 y6 x7 x8 x9 x10 x11 x12 x13 x14 x15 x17 x18 x19 x20 x21 x22 x23 x24 x25 x26 x27 : Val) :
    exec c swTail m [.node na, .ptr tia, .ptr a, cv, x4, y5, y6, x7, x8, x9, x10, x11, x12, x13, x14, x15,
        .bool inl, x17, x18, x19, x20, x21, x22, x23, x24, x25, x26, x27] =
      .ret (deferMem m inl na s0 pos fin fi.opts.length) [errRecK kl fin fi st (.str unsupportedTypeLit)] := by
  have hcall := hec.str unsupportedTypeLit
  simp only [unsupportedTypeLit] at hcall
  simp only [swTail, gS3, uStore, unmarshalIR, Stmt.drop]
  cases inl
  · ci_simp [hcall, errRecK, unsupportedTypeLit, deferMem_false]
  · obtain ⟨rfl, hle, hn⟩ := hy5 rfl
    have hle' : (0 : Int) ≤ (fi.opts.length : Int) ∧ (fi.opts.length : Int) ≤ (s0.length : Int) := by omega
    ci_simp [hcall, errRecK, unsupportedTypeLit, deferMem_true,
      ext1M_nodeValue _ na s0 pos fin hn, fi_length m a fi ha, sliceFromVal, hle', hn]

include ha hd hk0 hr hg in
/-- `case reflect.String`: `SetString`. -/
theorem swStr_spec (hk : fi.kind = .string) (inl : Bool) (y5 : Val)
    (hy5 : inl = true → y5 = .node na ∧ fi.opts.length ≤ s0.length ∧ m.nodes[na]? = some (.value s0 pos fin))
    (y6 x7 x8 x9 x10 x11 x12 x13 x14 x15 x17 x18 x19 x20 x21 x22 x23 x24 x25 x26 x27 : Val) :
    exec c swStr m [.node na, .ptr tia, .ptr a, .cell t0 idx k false, .str s, y5, y6, x7, x8, x9, x10, x11, x12, x13, x14, x15,
        .bool inl, x17, x18, x19, x20, x21, x22, x23, x24, x25, x26, x27] =
      .ret (deferMem (m.withCell idx (reroot k r (.str s))) inl na s0 pos fin fi.opts.length) [.nil] := by
  have hk' : t0.kind = .string := by rw [hk0, hk]
  have hset : cellSet m idx k (.str s) = .ok (m.withCell idx (reroot k r (.str s))) :=
    cellSet_of_root m idx k r _ _ hr (setDeep_reroot k r cur hg _)
  have hstore : cellStore m .setString (.cell t0 idx k false) [.str s] = .ok (m.withCell idx (reroot k r (.str s))) := by
    simp [cellStore, hd, hk', hset]
  simp only [swStr, swChain, gS3, uStore, unmarshalIR, Stmt.drop, Stmt.head, Stmt.iteThen', Stmt.iteElse']
  cases inl
  · ci_simp [hstore, deferMem_false]
  · obtain ⟨rfl, hle, hn⟩ := hy5 rfl
    have hle' : (0 : Int) ≤ (fi.opts.length : Int) ∧ (fi.opts.length : Int) ≤ (s0.length : Int) := by omega
    have hn' : (m.withCell idx (reroot k r (.str s))).nodes[na]? = some (.value s0 pos fin) := hn
    ci_simp [hstore, deferMem_true, ext1M_nodeValue _ na s0 pos fin hn', fi_length (m.withCell idx (reroot k r (.str s))) a fi ha,
      sliceFromVal, hle', hn']

/-- The message part of a `*strconv.NumError`. -/
def numErrIsRange : Strconv.NumErr → Bool
  | .syntax => false
  | .range => true

omit ha hec hit hd hk0 hu0 hr hg in
theorem extN_parseInt (base bits : Nat) (hb : 2 ≤ base ∧ base ≤ 36) (hbits : 0 < bits ∧ bits ≤ 64) :
    extN c .parseInt [.str s, .int base, .int bits] =
      .ok (match Strconv.parseInt s base bits with
        | .ok v => [.int v, .nil]
        | .error e => [.int 0, .numErr (numErrIsRange e)]) := by
  have h : (2 : Int) ≤ (base : Int) ∧ (base : Int) ≤ 36 ∧ (0 : Int) < (bits : Int) ∧ (bits : Int) ≤ 64 := by omega
  simp only [extN, h, and_self, if_true, Int.toNat_natCast]
  cases Strconv.parseInt s base bits with
  | ok v => rfl
  | error e => cases e <;> rfl

omit ha hec hit hd hk0 hu0 hr hg in
theorem extN_parseUint (base bits : Nat) (hb : 2 ≤ base ∧ base ≤ 36) (hbits : 0 < bits ∧ bits ≤ 64) :
    extN c .parseUint [.str s, .int base, .int bits] =
      .ok (match Strconv.parseUint s base bits with
        | .ok v => [.int v, .nil]
        | .error e => [.int 0, .numErr (numErrIsRange e)]) := by
  have h : (2 : Int) ≤ (base : Int) ∧ (base : Int) ≤ 36 ∧ (0 : Int) < (bits : Int) ∧ (bits : Int) ≤ 64 := by omega
  simp only [extN, h, and_self, if_true, Int.toNat_natCast]
  cases Strconv.parseUint s base bits with
  | ok v => rfl
  | error e => cases e <;> rfl

include ha hec hd hk0 hr hg in
/-- `case reflect.Int…`: `ParseInt`, then `SetInt`. -/
theorem swInt_spec (bits : Nat) (hk : fi.kind = .int bits) (hb : 2 ≤ fi.opts.base ∧ fi.opts.base ≤ 36) (hbits : 0 < bits ∧ bits ≤ 64)
    (inl : Bool) (y5 : Val)
    (hy5 : inl = true → y5 = .node na ∧ fi.opts.length ≤ s0.length ∧ m.nodes[na]? = some (.value s0 pos fin))
    (y6 x8 x9 x10 x11 x12 x13 x14 x15 x17 x18 x19 x20 x21 x22 x23 x24 x25 x26 x27 : Val) :
    exec c swInt m [.node na, .ptr tia, .ptr a, .cell t0 idx k false, .str s, y5, y6, .rtype (ftOf fi), x8, x9, x10, x11, x12, x13, x14, x15,
        .bool inl, x17, x18, x19, x20, x21, x22, x23, x24, x25, x26, x27] =
      (match Strconv.parseInt s fi.opts.base bits with
       | .ok v => .ret (deferMem (m.withCell idx (reroot k r (.int v))) inl na s0 pos fin fi.opts.length) [.nil]
       | .error e => .ret (deferMem m inl na s0 pos fin fi.opts.length) [errRecK kl fin fi st (.msg [.numErrText (numErrIsRange e)])]) := by
  have hk' : t0.kind = .int bits := by rw [hk0, hk]
  have hbitsE : ext1 .typeBits (.rtype (ftOf fi)) = .ok (.int bits) := by simp [ext1, ftOf, fiType, hk]
  have hparse := extN_parseInt c s fi.opts.base bits hb hbits
  simp only [swInt, swChain, gS3, uStore, unmarshalIR, Stmt.drop, Stmt.head, Stmt.iteThen', Stmt.iteElse']
  cases hp : Strconv.parseInt s fi.opts.base bits with
  | ok v =>
    rw [hp] at hparse
    have hset : cellSet m idx k (.int v) = .ok (m.withCell idx (reroot k r (.int v))) :=
      cellSet_of_root m idx k r _ _ hr (setDeep_reroot k r cur hg _)
    have hstore : cellStore m .setInt (.cell t0 idx k false) [.int v] = .ok (m.withCell idx (reroot k r (.int v))) := by
      simp [cellStore, hd, hk', hset]
    cases inl
    · ci_simp [fi_base m a fi ha, hbitsE, hparse, hstore, deferMem_false]
    · obtain ⟨rfl, hle, hn⟩ := hy5 rfl
      have hle' : (0 : Int) ≤ (fi.opts.length : Int) ∧ (fi.opts.length : Int) ≤ (s0.length : Int) := by omega
      have hn' : (m.withCell idx (reroot k r (.int v))).nodes[na]? = some (.value s0 pos fin) := hn
      ci_simp [fi_base m a fi ha, hbitsE, hparse, hstore, deferMem_true, ext1M_nodeValue _ na s0 pos fin hn',
        fi_length (m.withCell idx (reroot k r (.int v))) a fi ha, sliceFromVal, hle', hn']
  | error e =>
    rw [hp] at hparse
    have hcall := hec.msg [.numErrText (numErrIsRange e)]
    cases inl
    · ci_simp [fi_base m a fi ha, hbitsE, hparse, isNilVal_numErr, ext1_errorString_num, hcall, errRecK, deferMem_false]
    · obtain ⟨rfl, hle, hn⟩ := hy5 rfl
      have hle' : (0 : Int) ≤ (fi.opts.length : Int) ∧ (fi.opts.length : Int) ≤ (s0.length : Int) := by omega
      ci_simp [fi_base m a fi ha, hbitsE, hparse, isNilVal_numErr, ext1_errorString_num, hcall, errRecK, deferMem_true,
        ext1M_nodeValue _ na s0 pos fin hn, fi_length m a fi ha, sliceFromVal, hle', hn]

include ha hec hd hk0 hr hg in
/-- `case reflect.Uint…`: `ParseUint`, then `SetUint`. -/
theorem swUint_spec (bits : Nat) (hk : fi.kind = .uint bits) (hb : 2 ≤ fi.opts.base ∧ fi.opts.base ≤ 36) (hbits : 0 < bits ∧ bits ≤ 64)
    (inl : Bool) (y5 : Val)
    (hy5 : inl = true → y5 = .node na ∧ fi.opts.length ≤ s0.length ∧ m.nodes[na]? = some (.value s0 pos fin))
    (y6 x8 x9 x10 x11 x12 x13 x14 x15 x17 x18 x19 x20 x21 x22 x23 x24 x25 x26 x27 : Val) :
    exec c swUint m [.node na, .ptr tia, .ptr a, .cell t0 idx k false, .str s, y5, y6, .rtype (ftOf fi), x8, x9, x10, x11, x12, x13, x14, x15,
        .bool inl, x17, x18, x19, x20, x21, x22, x23, x24, x25, x26, x27] =
      (match Strconv.parseUint s fi.opts.base bits with
       | .ok v => .ret (deferMem (m.withCell idx (reroot k r (.uint v))) inl na s0 pos fin fi.opts.length) [.nil]
       | .error e => .ret (deferMem m inl na s0 pos fin fi.opts.length) [errRecK kl fin fi st (.msg [.numErrText (numErrIsRange e)])]) := by
  have hk' : t0.kind = .uint bits := by rw [hk0, hk]
  have hbitsE : ext1 .typeBits (.rtype (ftOf fi)) = .ok (.int bits) := by simp [ext1, ftOf, fiType, hk]
  have hparse := extN_parseUint c s fi.opts.base bits hb hbits
  simp only [swUint, swChain, gS3, uStore, unmarshalIR, Stmt.drop, Stmt.head, Stmt.iteThen', Stmt.iteElse']
  cases hp : Strconv.parseUint s fi.opts.base bits with
  | ok v =>
    rw [hp] at hparse
    have hset : cellSet m idx k (.uint v) = .ok (m.withCell idx (reroot k r (.uint v))) :=
      cellSet_of_root m idx k r _ _ hr (setDeep_reroot k r cur hg _)
    have hstore : cellStore m .setUint (.cell t0 idx k false) [.int (v : Int)] = .ok (m.withCell idx (reroot k r (.uint v))) := by
      simp [cellStore, hd, hk', hset]
    cases inl
    · ci_simp [fi_base m a fi ha, hbitsE, hparse, hstore, deferMem_false]
    · obtain ⟨rfl, hle, hn⟩ := hy5 rfl
      have hle' : (0 : Int) ≤ (fi.opts.length : Int) ∧ (fi.opts.length : Int) ≤ (s0.length : Int) := by omega
      have hn' : (m.withCell idx (reroot k r (.uint v))).nodes[na]? = some (.value s0 pos fin) := hn
      ci_simp [fi_base m a fi ha, hbitsE, hparse, hstore, deferMem_true, ext1M_nodeValue _ na s0 pos fin hn',
        fi_length (m.withCell idx (reroot k r (.uint v))) a fi ha, sliceFromVal, hle', hn']
  | error e =>
    rw [hp] at hparse
    have hcall := hec.msg [.numErrText (numErrIsRange e)]
    cases inl
    · ci_simp [fi_base m a fi ha, hbitsE, hparse, isNilVal_numErr, ext1_errorString_num, hcall, errRecK, deferMem_false]
    · obtain ⟨rfl, hle, hn⟩ := hy5 rfl
      have hle' : (0 : Int) ≤ (fi.opts.length : Int) ∧ (fi.opts.length : Int) ≤ (s0.length : Int) := by omega
      ci_simp [fi_base m a fi ha, hbitsE, hparse, isNilVal_numErr, ext1_errorString_num, hcall, errRecK, deferMem_true,
        ext1M_nodeValue _ na s0 pos fin hn, fi_length m a fi ha, sliceFromVal, hle', hn]

end store

/-! ## `[]byte` / `[n]byte`: the `Index(i).SetUint` loop -/

def arrBody : Stmt := swArr.iteThen'
def arrPre : Stmt := arrBody.take 2
def arrLoop : Stmt := (arrBody.drop 2).head
def arrPost : Stmt := arrBody.drop 3

theorem arrBody_split (c : Ctx) (m : Mem) (env : Env) :
    exec c arrBody m env = (exec c arrPre m env).andThen fun m env =>
      (loop (fun m env => eval c m env arrLoop.forCond >>= asBool) (exec c arrLoop.forBody) (exec c arrLoop.forPost) c.fuel m env).andThen
        (exec c arrPost) := by
  rw [exec_take_drop c m env 2 arrBody]; rfl

theorem set_take_drop (s B : Bytes) (i : Nat) (x : UInt8) (hi : s[i]? = some x) (hB : i < B.length) :
    (s.take i ++ B.drop i).set i x = s.take (i + 1) ++ B.drop (i + 1) := by
  have hs : i < s.length := by
    rcases Nat.lt_or_ge i s.length with h | h
    · exact h
    · rw [List.getElem?_eq_none h] at hi; exact absurd hi (by simp)
  have hlen : (s.take i).length = i := by simp; omega
  have h1 : (s.take i ++ B.drop i).set i x = s.take i ++ (B.drop i).set 0 x := by
    rw [List.set_append_right _ _ (by omega), hlen, Nat.sub_self]
  rw [h1]
  have h2 : B.drop i = B[i] :: B.drop (i + 1) := by rw [List.drop_eq_getElem_cons hB]
  rw [h2, List.set_cons_zero]
  have h3 : s.take (i + 1) = s.take i ++ [x] := by
    rw [List.take_add_one, hi]; rfl
  rw [h3, List.append_assoc]; rfl

theorem uint8_ofNat_toNat (x : UInt8) : UInt8.ofNat ((x.toNat : Int)).toNat = x := by
  simp

section arr
variable (c : Ctx) (m : Mem) (na tia a : Nat) (t0 : RType) (idx : List Nat) (k : Nat) (r cur : GVal) (s B : Bytes)
  (hd : t0.depth = 0) (hg : getDeep k r = some cur)

include hd hg in
theorem arr_loop (y5 y6 x7 x8 x9 x10 x12 x13 x14 x15 x16 x17 x18 x19 x20 x21 x22 x23 x24 x25 x26 x27 : Val) :
    ∀ (n fuel i : Nat) (mm : Mem), n = min s.length B.length - i → i ≤ min s.length B.length → n ≤ fuel →
      At m mm idx k r (.bytes (s.take i ++ B.drop i)) →
      ∃ mm', loop (fun m env => eval c m env arrLoop.forCond >>= asBool) (exec c arrLoop.forBody) (exec c arrLoop.forPost) fuel mm
          [.node na, .ptr tia, .ptr a, .cell t0 idx k false, .str s, y5, y6, x7, x8, x9, x10, .int i, x12, x13, x14, x15,
            x16, x17, x18, x19, x20, x21, x22, x23, x24, x25, x26, x27] =
        .norm mm' [.node na, .ptr tia, .ptr a, .cell t0 idx k false, .str s, y5, y6, x7, x8, x9, x10, .int (min s.length B.length : Nat), x12, x13,
            x14, x15, x16, x17, x18, x19, x20, x21, x22, x23, x24, x25, x26, x27] ∧
        At m mm' idx k r (.bytes (s.take (min s.length B.length) ++ B.drop (min s.length B.length))) := by
  intro n
  induction n with
  | zero =>
    intro fuel i mm hn hi _ hat
    have hieq : i = min s.length B.length := by omega
    have hget := hat.get m idx k r cur hg
    have hlenB : (s.take i ++ B.drop i).length = B.length := by simp; omega
    have hc : (fun m env => eval c m env arrLoop.forCond >>= asBool) mm
        [.node na, .ptr tia, .ptr a, .cell t0 idx k false, .str s, y5, y6, x7, x8, x9, x10, .int i, x12, x13, x14, x15,
          x16, x17, x18, x19, x20, x21, x22, x23, x24, x25, x26, x27] = .ok false := by
      simp only [arrLoop, arrBody, swArr, swChain, gS3, uStore, unmarshalIR, Stmt.drop, Stmt.head, Stmt.iteThen', Stmt.forCond]
      by_cases h1 : i < s.length
      · have h2 : ¬ (i < B.length) := by omega
        ci_simp [h1, ext1M_cell_len mm t0 idx k false _ hget hd, hlenB, h2]
      · ci_simp [h1]
    refine ⟨mm, ?_, by rw [← hieq]; exact hat⟩
    rw [loop_false _ _ _ _ _ _ hc, hieq]
  | succ n ih =>
    intro fuel i mm hn hi hf hat
    obtain ⟨f, rfl⟩ : ∃ f, fuel = f + 1 := ⟨fuel - 1, by omega⟩
    have h1 : i < s.length := by omega
    have h2 : i < B.length := by omega
    have hget := hat.get m idx k r cur hg
    have hlenB : (s.take i ++ B.drop i).length = B.length := by simp; omega
    have hc : (fun m env => eval c m env arrLoop.forCond >>= asBool) mm
        [.node na, .ptr tia, .ptr a, .cell t0 idx k false, .str s, y5, y6, x7, x8, x9, x10, .int i, x12, x13, x14, x15,
          x16, x17, x18, x19, x20, x21, x22, x23, x24, x25, x26, x27] = .ok true := by
      simp only [arrLoop, arrBody, swArr, swChain, gS3, uStore, unmarshalIR, Stmt.drop, Stmt.head, Stmt.iteThen', Stmt.forCond]
      ci_simp [h1, ext1M_cell_len mm t0 idx k false _ hget hd, hlenB, h2]
    obtain ⟨x, hx⟩ : ∃ x, s[i]? = some x := ⟨s[i], by simp [h1]⟩
    obtain ⟨hset, hat'⟩ := hat.set m idx k r cur hg (.bytes (s.take (i + 1) ++ B.drop (i + 1)))
    have hstore : cellStore mm .setIndexUint (.cell t0 idx k false) [.int i, .int x.toNat] =
        .ok (mm.withCell idx (reroot k r (.bytes (s.take (i + 1) ++ B.drop (i + 1))))) := by
      have hb : (0 : Int) ≤ (i : Int) ∧ (i : Int) < ((s.take i ++ B.drop i).length : Int) := by rw [hlenB]; omega
      simp only [cellStore, Bool.false_eq_true, if_false, hd, hget, hb, and_self, if_true, Int.toNat_natCast]
      rw [show UInt8.ofNat x.toNat = x by simp, set_take_drop s B i x hx h2]
      exact hset
    have hbody : exec c arrLoop.forBody mm
        [.node na, .ptr tia, .ptr a, .cell t0 idx k false, .str s, y5, y6, x7, x8, x9, x10, .int i, x12, x13, x14, x15,
          x16, x17, x18, x19, x20, x21, x22, x23, x24, x25, x26, x27] =
        .norm (mm.withCell idx (reroot k r (.bytes (s.take (i + 1) ++ B.drop (i + 1)))))
          [.node na, .ptr tia, .ptr a, .cell t0 idx k false, .str s, y5, y6, x7, x8, x9, x10, .int i, x12, x13, x14, x15,
          x16, x17, x18, x19, x20, x21, x22, x23, x24, x25, x26, x27] := by
      simp only [arrLoop, arrBody, swArr, swChain, gS3, uStore, unmarshalIR, Stmt.drop, Stmt.head, Stmt.iteThen', Stmt.forBody]
      ci_simp [indexVal_str s (i : Int) x (by omega) (by simpa using hx), hstore]
    have hpost : ∀ (mm : Mem), exec c arrLoop.forPost mm
        [.node na, .ptr tia, .ptr a, .cell t0 idx k false, .str s, y5, y6, x7, x8, x9, x10, .int i, x12, x13, x14, x15,
          x16, x17, x18, x19, x20, x21, x22, x23, x24, x25, x26, x27] =
        .norm mm [.node na, .ptr tia, .ptr a, .cell t0 idx k false, .str s, y5, y6, x7, x8, x9, x10, .int (i + 1 : Nat), x12, x13, x14, x15,
          x16, x17, x18, x19, x20, x21, x22, x23, x24, x25, x26, x27] := by
      intro mm
      simp only [arrLoop, arrBody, swArr, swChain, gS3, uStore, unmarshalIR, Stmt.drop, Stmt.head, Stmt.iteThen', Stmt.forPost]
      ci_simp
    rw [loop_step _ _ _ _ _ _ hc, hbody]
    simp only [afterBody_norm, hpost, afterPost_norm]
    exact ih f (i + 1) _ (by omega) (by omega) (by omega) hat'
end arr

section store
variable (c : Ctx) (m : Mem) (na tia a : Nat) (s0 : Bytes) (pos fin : Nat) (fi : FieldInfo) (kl : Bytes) (kind : String) (st : RType)
  (t0 : RType) (idx : List Nat) (k : Nat) (r cur : GVal) (s : Bytes)
  (ha : m.heap[a]? = some (fiObj fi)) (hec : ErrCalls c m na tia a kl kind fin fi st)
  (hit : IndirectTypeOk c.ext) (hd : t0.depth = 0) (hk0 : t0.kind = fi.kind) (hu0 : t0.ut = fi.unmarshalText)
  (hr : cellRoot m idx = some r) (hg : getDeep k r = some cur)

theorem swArr_eq : swArr = .ite (.eq (.ext1 .typeKind (.ext1 .typeElem (.var 7))) (.int 8)) arrBody .skip := rfl

omit ha hec hit hd hk0 hu0 hr hg in
/-- For a `[]byte` / `[n]byte` field the element kind is `Uint8`. -/
theorem swArr_enter (hk : fi.kind = .bytes ∨ ∃ n, fi.kind = .byteArray n)
    (x0 x1 x2 x3 x4 x5 x6 x8 x9 x10 x11 x12 x13 x14 x15 x16 x17 x18 x19 x20 x21 x22 x23 x24 x25 x26 x27 : Val) :
    exec c swArr m [x0, x1, x2, x3, x4, x5, x6, .rtype (ftOf fi), x8, x9, x10, x11, x12, x13, x14, x15,
        x16, x17, x18, x19, x20, x21, x22, x23, x24, x25, x26, x27] =
      exec c arrBody m [x0, x1, x2, x3, x4, x5, x6, .rtype (ftOf fi), x8, x9, x10, x11, x12, x13, x14, x15,
        x16, x17, x18, x19, x20, x21, x22, x23, x24, x25, x26, x27] := by
  have hel : ext1 .typeElem (.rtype (ftOf fi)) = .ok (.rtype TIIR.uint8Type) := by
    rcases hk with hk | ⟨n, hk⟩
    · exact typeElem_bytes (ftOf fi) rfl hk
    · exact typeElem_arr (ftOf fi) n rfl hk
  rw [swArr_eq]
  ci_simp [hel, kindNum_uint8]

include hd hk0 hr hg in
/-- Before the loop, `[]byte` on a zero (nil) slice: `MakeSlice`, then `SetLen(len(s))`. -/
theorem arrPre_slice (hk : fi.kind = .bytes) (hcur : cur = .bytes [])
    (x0 x1 x2 y5 y6 x7 x8 x9 x10 x11 x12 x13 x14 x15 x16 x17 x18 x19 x20 x21 x22 x23 x24 x25 x26 x27 : Val) :
    exec c arrPre m [x0, x1, x2, .cell t0 idx k false, .str s, y5, y6, x7, x8, x9, x10, x11, x12, x13, x14, x15,
        x16, x17, x18, x19, x20, x21, x22, x23, x24, x25, x26, x27] =
      .norm (m.withCell idx (reroot k r (.bytes (List.replicate s.length 0))))
        [x0, x1, x2, .cell t0 idx k false, .str s, y5, y6, x7, x8, x9, x10, .int 0, x12, x13, x14, x15,
        x16, x17, x18, x19, x20, x21, x22, x23, x24, x25, x26, x27] := by
  subst hcur
  have hk' : t0.kind = .bytes := by rw [hk0, hk]
  have hat0 := At.init m idx k r _ hr hg
  have hget0 := hat0.get m idx k r _ hg
  obtain ⟨hset1, hat1⟩ := hat0.set m idx k r _ hg (.bytes [])
  have hget1 := hat1.get m idx k r _ hg
  obtain ⟨hset2, hat2⟩ := hat1.set m idx k r _ hg (.bytes (List.replicate s.length 0))
  rw [withCell_withCell] at hset2
  have hkn : kindNum t0 = 23 := by simp [kindNum, hd, hk']
  have hkind : ∀ (mm : Mem) (g : GVal), cellGet mm idx k = .ok g → ext1M mm .valKind (.cell t0 idx k false) = .ok (.int 23) := by
    intro mm g hgm; rw [ext1M_cell_kind mm t0 idx k false g hgm hd (by simp [hk']), hkn]
  have hs1 : cellStore m .setMakeSlice (.cell t0 idx k false) [.int ((0 : Nat) : Int), .int (s.length : Int)] =
      .ok (m.withCell idx (reroot k r (.bytes []))) := by
    have : ¬ ((s.length : Int) < 0) := by omega
    simp [cellStore, hd, hk', this, hset1]
  simp only [arrPre, arrBody, swArr, swChain, gS3, uStore, unmarshalIR, Stmt.drop, Stmt.head, Stmt.iteThen', Stmt.take]
  by_cases hs0 : s.length = 0
  · have : List.replicate s.length (0 : UInt8) = [] := by rw [hs0]; rfl
    rw [this]
    rw [hs0] at hs1
    ci_simp [hkind m _ hget0, ext1M_cell_cap m t0 idx k false _ hget0 hd, ext1M_cell_len m t0 idx k false _ hget0 hd, hs1,
      ext1M_cell_len _ t0 idx k false _ hget1 hd, hs0]
  · have hs2 : cellStore (m.withCell idx (reroot k r (.bytes []))) .setLen (.cell t0 idx k false) [.int (s.length : Int)] =
        .ok (m.withCell idx (reroot k r (.bytes (List.replicate s.length 0)))) := by
      have : ¬ ((s.length : Int) < 0) := by omega
      simp [cellStore, hd, hk', hget1, this, hset2]
    ci_simp [hkind m _ hget0, ext1M_cell_cap m t0 idx k false _ hget0 hd, ext1M_cell_len m t0 idx k false _ hget0 hd, hs1,
      ext1M_cell_len _ t0 idx k false _ hget1 hd, hs0, hs2]

include hd hk0 hr hg in
/-- Before the loop, `[n]byte`: nothing. -/
theorem arrPre_array (n : Nat) (hk : fi.kind = .byteArray n)
    (x0 x1 x2 x4 y5 y6 x7 x8 x9 x10 x11 x12 x13 x14 x15 x16 x17 x18 x19 x20 x21 x22 x23 x24 x25 x26 x27 : Val) :
    exec c arrPre m [x0, x1, x2, .cell t0 idx k false, x4, y5, y6, x7, x8, x9, x10, x11, x12, x13, x14, x15,
        x16, x17, x18, x19, x20, x21, x22, x23, x24, x25, x26, x27] =
      .norm m [x0, x1, x2, .cell t0 idx k false, x4, y5, y6, x7, x8, x9, x10, .int 0, x12, x13, x14, x15,
        x16, x17, x18, x19, x20, x21, x22, x23, x24, x25, x26, x27] := by
  have hk' : t0.kind = .byteArray n := by rw [hk0, hk]
  have hget0 : cellGet m idx k = .ok cur := cellGet_of_root m idx k r cur hr hg
  have hkn : kindNum t0 = 17 := by simp [kindNum, hd, hk']
  simp only [arrPre, arrBody, swArr, swChain, gS3, uStore, unmarshalIR, Stmt.drop, Stmt.head, Stmt.iteThen', Stmt.take]
  ci_simp [ext1M_cell_kind m t0 idx k false cur hget0 hd (by simp [hk']), hkn]

include ha hd hg in
/-- After the loop: an empty text makes a `[]byte` a non-nil empty slice; `return nil`. -/
theorem arrPost_spec (mm : Mem) (X : Bytes) (hat : At m mm idx k r (.bytes X))
    (hk : fi.kind = .bytes ∨ ∃ n, fi.kind = .byteArray n) (hk0 : t0.kind = fi.kind) (inl : Bool) (y5 : Val)
    (hy5 : inl = true → y5 = .node na ∧ fi.opts.length ≤ s0.length ∧ m.nodes[na]? = some (.value s0 pos fin))
    (x0 x1 y6 x7 x8 x9 x10 x11 x12 x13 x14 x15 x17 x18 x19 x20 x21 x22 x23 x24 x25 x26 x27 : Val) :
    ∃ mm', exec c arrPost mm [x0, x1, .ptr a, .cell t0 idx k false, .str s, y5, y6, x7, x8, x9, x10, x11, x12, x13, x14, x15,
        .bool inl, x17, x18, x19, x20, x21, x22, x23, x24, x25, x26, x27] =
      .ret (deferMem mm' inl na s0 pos fin fi.opts.length) [.nil] ∧
      At m mm' idx k r (.bytes (if s.length = 0 ∧ fi.kind = .bytes then [] else X)) := by
  have hget := hat.get m idx k r cur hg
  have hnodes : mm.nodes = m.nodes := hat.same.nodes
  have hheap : mm.heap[a]? = some (fiObj fi) := by rw [hat.same.heap]; exact ha
  have tail : ∀ (mm2 : Mem), mm2.nodes = m.nodes → mm2.heap[a]? = some (fiObj fi) → ∀ (e11 : Val),
      exec c (arrPost.drop 1) mm2 [x0, x1, .ptr a, .cell t0 idx k false, .str s, y5, y6, x7, x8, x9, x10, e11, x12, x13, x14, x15,
        .bool inl, x17, x18, x19, x20, x21, x22, x23, x24, x25, x26, x27] = .ret (deferMem mm2 inl na s0 pos fin fi.opts.length) [.nil] := by
    intro mm2 hn2 hh2 e11
    simp only [arrPost, arrBody, swArr, swChain, gS3, uStore, unmarshalIR, Stmt.drop, Stmt.head, Stmt.iteThen']
    cases inl
    · ci_simp [deferMem_false]
    · obtain ⟨rfl, hle, hn⟩ := hy5 rfl
      have hle' : (0 : Int) ≤ (fi.opts.length : Int) ∧ (fi.opts.length : Int) ≤ (s0.length : Int) := by omega
      have hn' : mm2.nodes[na]? = some (.value s0 pos fin) := by rw [hn2]; exact hn
      ci_simp [deferMem_true, ext1M_nodeValue _ na s0 pos fin hn', fi_length mm2 a fi hh2, sliceFromVal, hle', hn']
  rw [exec_take_drop c mm _ 1 arrPost]
  by_cases hs0 : s.length = 0
  · rcases hk with hk | ⟨n, hk⟩
    · have hk' : t0.kind = .bytes := by rw [hk0, hk]
      have hkn : kindNum t0 = 23 := by simp [kindNum, hd, hk']
      obtain ⟨hset, hat'⟩ := hat.set m idx k r cur hg (.bytes [])
      have hs1 : cellStore mm .setMakeSlice (.cell t0 idx k false) [.int 0, .int 0] = .ok (mm.withCell idx (reroot k r (.bytes []))) := by
        simp [cellStore, hd, hk', hset]
      refine ⟨mm.withCell idx (reroot k r (.bytes [])), ?_, by simpa [hs0, hk] using hat'⟩
      have h1 : exec c (arrPost.take 1) mm [x0, x1, .ptr a, .cell t0 idx k false, .str s, y5, y6, x7, x8, x9, x10, x11, x12, x13, x14, x15,
          .bool inl, x17, x18, x19, x20, x21, x22, x23, x24, x25, x26, x27] =
          .norm (mm.withCell idx (reroot k r (.bytes []))) [x0, x1, .ptr a, .cell t0 idx k false, .str s, y5, y6, x7, x8, x9, x10, x11, x12, x13, x14, x15,
          .bool inl, x17, x18, x19, x20, x21, x22, x23, x24, x25, x26, x27] := by
        simp only [arrPost, arrBody, swArr, swChain, gS3, uStore, unmarshalIR, Stmt.drop, Stmt.head, Stmt.iteThen', Stmt.take]
        ci_simp [hs0, ext1M_cell_kind mm t0 idx k false _ hget hd (by simp [hk']), hkn, hs1]
      rw [h1, andThen_norm]
      exact tail (mm.withCell idx (reroot k r (.bytes []))) hnodes hheap _
    · have hk' : t0.kind = .byteArray n := by rw [hk0, hk]
      have hkn : kindNum t0 = 17 := by simp [kindNum, hd, hk']
      refine ⟨mm, ?_, by simpa [hs0, hk] using hat⟩
      have h1 : exec c (arrPost.take 1) mm [x0, x1, .ptr a, .cell t0 idx k false, .str s, y5, y6, x7, x8, x9, x10, x11, x12, x13, x14, x15,
          .bool inl, x17, x18, x19, x20, x21, x22, x23, x24, x25, x26, x27] =
          .norm mm [x0, x1, .ptr a, .cell t0 idx k false, .str s, y5, y6, x7, x8, x9, x10, x11, x12, x13, x14, x15,
          .bool inl, x17, x18, x19, x20, x21, x22, x23, x24, x25, x26, x27] := by
        simp only [arrPost, arrBody, swArr, swChain, gS3, uStore, unmarshalIR, Stmt.drop, Stmt.head, Stmt.iteThen', Stmt.take]
        ci_simp [hs0, ext1M_cell_kind mm t0 idx k false _ hget hd (by simp [hk']), hkn]
      rw [h1, andThen_norm]
      exact tail _ hnodes hheap _
  · refine ⟨mm, ?_, by simpa [hs0] using hat⟩
    have h1 : exec c (arrPost.take 1) mm [x0, x1, .ptr a, .cell t0 idx k false, .str s, y5, y6, x7, x8, x9, x10, x11, x12, x13, x14, x15,
        .bool inl, x17, x18, x19, x20, x21, x22, x23, x24, x25, x26, x27] =
        .norm mm [x0, x1, .ptr a, .cell t0 idx k false, .str s, y5, y6, x7, x8, x9, x10, x11, x12, x13, x14, x15,
        .bool inl, x17, x18, x19, x20, x21, x22, x23, x24, x25, x26, x27] := by
      simp only [arrPost, arrBody, swArr, swChain, gS3, uStore, unmarshalIR, Stmt.drop, Stmt.head, Stmt.iteThen', Stmt.take]
      ci_simp [hs0]
    rw [h1, andThen_norm]
    exact tail _ hnodes hheap _
end store

/-! ## The store phase as a whole -/

/-- The cell content that represents a value `storeValue` yields. -/
def gOfF : FVal → GVal
  | .str s => .str s
  | .bytes b => .bytes b
  | .int v => .int v
  | .uint v => .uint v
  | .nilPtr => .nilPtr
  | .other => .other 0 0

theorem swPick_of_int (fi : FieldInfo) (b : Nat) (hk : fi.kind = .int b) : swPick (kindNum (ftOf fi)) = swInt := by
  rcases kindNum_int (ftOf fi) b rfl hk with h | h | h | h | h <;> rw [h] <;> simp [swPick]
theorem swPick_of_uint (fi : FieldInfo) (b : Nat) (hk : fi.kind = .uint b) : swPick (kindNum (ftOf fi)) = swUint := by
  rcases kindNum_uint (ftOf fi) b rfl hk with h | h | h | h | h <;> rw [h] <;> simp [swPick]
theorem swPick_of_string (fi : FieldInfo) (hk : fi.kind = .string) : swPick (kindNum (ftOf fi)) = swStr := by
  have : kindNum (ftOf fi) = 24 := by simp [kindNum, ftOf, fiType, hk]
  rw [this]; simp [swPick]
theorem swPick_of_bytes (fi : FieldInfo) (hk : fi.kind = .bytes) : swPick (kindNum (ftOf fi)) = swArr := by
  have : kindNum (ftOf fi) = 23 := by simp [kindNum, ftOf, fiType, hk]
  rw [this]; simp [swPick]
theorem swPick_of_array (fi : FieldInfo) (n : Nat) (hk : fi.kind = .byteArray n) : swPick (kindNum (ftOf fi)) = swArr := by
  have : kindNum (ftOf fi) = 17 := by simp [kindNum, ftOf, fiType, hk]
  rw [this]; simp [swPick]
theorem swPick_of_struct (fi : FieldInfo) (n : String) (hk : fi.kind = .structRef n) : swPick (kindNum (ftOf fi)) = .skip := by
  have : kindNum (ftOf fi) = 25 := by simp [kindNum, ftOf, fiType, hk]
  rw [this]; simp [swPick]
theorem swPick_of_other (fi : FieldInfo) (d : String) (hk : fi.kind = .other d) : swPick (kindNum (ftOf fi)) = .skip := by
  have : kindNum (ftOf fi) = 0 := by simp [kindNum, ftOf, fiType, hk]
  rw [this]; simp [swPick]

theorem take_min_drop_replicate (s : Bytes) (n : Nat) :
    s.take (min s.length n) ++ (List.replicate n (0 : UInt8)).drop (min s.length n) = s.take n ++ List.replicate (n - s.length) 0 := by
  rcases Nat.le_total s.length n with h | h
  · rw [Nat.min_eq_left h, List.take_of_length_le (Nat.le_refl _), List.take_of_length_le h, List.drop_replicate]
  · rw [Nat.min_eq_right h, List.drop_replicate, Nat.sub_self, Nat.sub_eq_zero_of_le h]

theorem msgClassU_errText (d : String) : msgClassU (.msg [.errText d]) = some (.text d) := rfl
theorem msgClassU_numErr (e : Strconv.NumErr) :
    msgClassU (.msg [.numErrText (numErrIsRange e)]) = some (match e with | .syntax => .numSyntax | .range => .numRange) := by
  cases e <;> rfl
theorem msgClassU_unsupportedType : msgClassU (.str unsupportedTypeLit) = some .unsupportedType := by
  simp [msgClassU, unsupportedTypeLit, lengthMismatchLit, prefixNotFoundLit, unexpectedEOFLit, excessiveFragmentLit, excessivePrefixLit]

section whole
variable (c : Ctx) (m : Mem) (na tia a : Nat) (s0 : Bytes) (pos fin : Nat) (fi : FieldInfo) (kl : Bytes) (kind : String) (st : RType)
  (t0 : RType) (idx : List Nat) (k : Nat) (r cur : GVal) (s : Bytes)
  (ha : m.heap[a]? = some (fiObj fi)) (hec : ErrCalls c m na tia a kl kind fin fi st)
  (hit : IndirectTypeOk c.ext) (hd : t0.depth = 0) (hk0 : t0.kind = fi.kind) (hu0 : t0.ut = fi.unmarshalText)
  (hr : cellRoot m idx = some r) (hg : getDeep k r = some cur)

include ha hec hit hd hk0 hu0 hr hg in
/-- **The store phase of `unmarshal` = the model's `storeValue`**, for every field kind, on a zero cell. -/
theorem uStore_spec (hut : UnmarshalTextSpec c.unmarshalText) (hcur : cur = zeroG t0)
    (hnum : ∀ bits, fi.kind = .int bits ∨ fi.kind = .uint bits → (0 < bits ∧ bits ≤ 64) ∧ 2 ≤ fi.opts.base ∧ fi.opts.base ≤ 36)
    (hfuel : s.length ≤ c.fuel) (inl : Bool) (y5 : Val)
    (hy5 : inl = true → y5 = .node na ∧ fi.opts.length ≤ s0.length ∧ m.nodes[na]? = some (.value s0 pos fin))
    (y6 x7 x8 x9 x10 x11 x12 x13 x14 x15 x17 x18 x19 x20 x21 x22 x23 x24 x25 x26 x27 : Val) :
    match storeValue fi kind fin s with
    | .error e => ∃ m' v, exec c uStore m [.node na, .ptr tia, .ptr a, .cell t0 idx k false, .str s, y5, y6, x7, x8, x9, x10, x11, x12, x13,
          x14, x15, .bool inl, x17, x18, x19, x20, x21, x22, x23, x24, x25, x26, x27] = .ret m' [v] ∧ m'.heap = m.heap ∧
        absErrU m.heap v = some e
    | .ok fv => ∃ mm, exec c uStore m [.node na, .ptr tia, .ptr a, .cell t0 idx k false, .str s, y5, y6, x7, x8, x9, x10, x11, x12, x13,
          x14, x15, .bool inl, x17, x18, x19, x20, x21, x22, x23, x24, x25, x26, x27] =
        .ret (deferMem mm inl na s0 pos fin fi.opts.length) [.nil] ∧ At m mm idx k r (gOfF fv) := by
  rw [uStore_split]
  have hat0 : At m m idx k r cur := At.init m idx k r cur hr hg
  have okCase : ∀ (g : GVal), ∃ mm, Out.ret (deferMem (m.withCell idx (reroot k r g)) inl na s0 pos fin fi.opts.length) [Val.nil] =
      .ret (deferMem mm inl na s0 pos fin fi.opts.length) [.nil] ∧ At m mm idx k r g :=
    fun g => ⟨_, rfl, (hat0.set m idx k r cur hg g).2⟩
  have errCase : ∀ (msg : Val) (cls : MsgClass), msgClassU msg = some cls →
      ∃ m' v, Out.ret (deferMem m inl na s0 pos fin fi.opts.length) [errRecK kl fin fi st msg] = .ret m' [v] ∧ m'.heap = m.heap ∧
        absErrU m.heap v = some (.ute kind fin fi.name cls) :=
    fun msg cls h => ⟨_, _, rfl, deferMem_heap _ _ _ _ _ _ _, hec.abs msg cls h⟩
  cases hu : fi.unmarshalText with
  | whitelist l =>
    cases hl : l.contains s with
    | true =>
      rw [gS1_text c m na tia a s0 pos fin fi kl kind st t0 idx k r cur s ha hec hit hd hu0 hr hg (by simp [hu]) (.ok (.str s))
        (by rw [hu]; exact hut.whitelist_ok l s hl) inl y5 hy5]
      simp only [storeValue, hu, hl, if_true, andThen_ret]
      exact okCase (.str s)
    | false =>
      rw [gS1_text c m na tia a s0 pos fin fi kl kind st t0 idx k r cur s ha hec hit hd hu0 hr hg (by simp [hu]) (.error "unsupported prefix")
        (by rw [hu]; exact hut.whitelist_no l s hl) inl y5 hy5]
      simp only [storeValue, hu, hl, Bool.false_eq_true, if_false, andThen_ret]
      exact errCase _ _ (msgClassU_errText _)
  | desInt =>
    rw [gS1_text c m na tia a s0 pos fin fi kl kind st t0 idx k r cur s ha hec hit hd hu0 hr hg (by simp [hu]) (.ok (.uint (desDecodeInt s)))
      (by rw [hu]; exact hut.desInt s) inl y5 hy5]
    simp only [storeValue, hu, andThen_ret]
    exact okCase (.uint (desDecodeInt s))
  | twoDigit =>
    rw [gS1_text c m na tia a s0 pos fin fi kl kind st t0 idx k r cur s ha hec hit hd hu0 hr hg (by simp [hu]) (.error "opaque")
      (by rw [hu]; exact hut.twoDigit s) inl y5 hy5]
    simp only [storeValue, hu, andThen_ret]
    exact errCase _ _ (msgClassU_errText _)
  | «opaque» d =>
    rw [gS1_text c m na tia a s0 pos fin fi kl kind st t0 idx k r cur s ha hec hit hd hu0 hr hg (by simp [hu]) (.error d)
      (by rw [hu]; exact hut.opaque_ d s) inl y5 hy5]
    simp only [storeValue, hu, andThen_ret]
    exact errCase _ _ (msgClassU_errText _)
  | none =>
    rw [gS1_none c m na tia a fi t0 idx k r cur s ha hit hd hu0 hr hg hu inl, andThen_norm,
      gS2_spec c m na tia a s0 pos fin fi kl kind st s ha hec inl y5 hy5]
    cases hpb : (fi.opts.isPrefix && decide (fi.kind ≠ .string))
    · simp only [Bool.false_eq_true, if_false, andThen_norm]
      rw [gS3_dispatch]
      simp only [storeValue, hu]
      rw [if_neg (by rw [hpb]; exact Bool.false_ne_true)]
      cases hk : fi.kind with
      | string =>
        dsimp only
        rw [swPick_of_string fi hk, swStr_spec c m na tia a s0 pos fin fi t0 idx k r cur s ha hd hk0 hr hg hk inl y5 hy5, andThen_ret]
        exact okCase (.str s)
      | int bits =>
        dsimp only
        obtain ⟨hbits, hb⟩ := hnum bits (Or.inl hk)
        rw [swPick_of_int fi bits hk, swInt_spec c m na tia a s0 pos fin fi kl kind st t0 idx k r cur s ha hec hd hk0 hr hg bits hk hb hbits inl y5 hy5]
        cases hp : Strconv.parseInt s fi.opts.base bits with
        | ok v => simp only [andThen_ret]; exact okCase (.int v)
        | error e =>
          simp only [andThen_ret]
          cases e
          · exact errCase _ _ (msgClassU_numErr Strconv.NumErr.syntax)
          · exact errCase _ _ (msgClassU_numErr Strconv.NumErr.range)
      | uint bits =>
        dsimp only
        obtain ⟨hbits, hb⟩ := hnum bits (Or.inr hk)
        rw [swPick_of_uint fi bits hk, swUint_spec c m na tia a s0 pos fin fi kl kind st t0 idx k r cur s ha hec hd hk0 hr hg bits hk hb hbits inl y5 hy5]
        cases hp : Strconv.parseUint s fi.opts.base bits with
        | ok v => simp only [andThen_ret]; exact okCase (.uint v)
        | error e =>
          simp only [andThen_ret]
          cases e
          · exact errCase _ _ (msgClassU_numErr Strconv.NumErr.syntax)
          · exact errCase _ _ (msgClassU_numErr Strconv.NumErr.range)
      | structRef n =>
        dsimp only
        rw [swPick_of_struct fi n hk, exec_skip, andThen_norm, swTail_spec c m na tia a s0 pos fin fi kl kind st ha hec inl y5 hy5]
        exact errCase _ _ msgClassU_unsupportedType
      | other dsc =>
        dsimp only
        rw [swPick_of_other fi dsc hk, exec_skip, andThen_norm, swTail_spec c m na tia a s0 pos fin fi kl kind st ha hec inl y5 hy5]
        exact errCase _ _ msgClassU_unsupportedType
      | bytes =>
        dsimp only
        have hk' : t0.kind = .bytes := by rw [hk0, hk]
        have hc0 : cur = .bytes [] := by rw [hcur]; simp [zeroG, hd, hk']
        rw [swPick_of_bytes fi hk, swArr_enter c m fi (Or.inl hk), arrBody_split,
          arrPre_slice c m fi t0 idx k r cur s hd hk0 hr hg hk hc0, andThen_norm]
        have hat1 : At m (m.withCell idx (reroot k r (.bytes (List.replicate s.length 0)))) idx k r
            (.bytes (s.take 0 ++ (List.replicate s.length (0 : UInt8)).drop 0)) := (hat0.set m idx k r cur hg _).2
        have hmin : min s.length (List.replicate s.length (0 : UInt8)).length = s.length := by simp
        obtain ⟨mm', hloop, hat2⟩ := arr_loop c m na tia a t0 idx k r cur s (List.replicate s.length 0) hd hg y5 y6 (.rtype (ftOf fi)) x8
          (.addr t0 idx k false) x10 x12 x13 x14 x15 (.bool inl) x17 x18 x19 x20 x21 x22 x23 (.int (kindNum (ftOf fi))) x25 x26 x27
          _ c.fuel 0 _ rfl (Nat.zero_le _) (by rw [hmin]; omega) hat1
        rw [show ((0 : Nat) : Int) = 0 from rfl] at hloop
        rw [hloop, andThen_norm]
        rw [hmin] at hat2
        obtain ⟨mm'', hpost, hat3⟩ := arrPost_spec c m na a s0 pos fin fi t0 idx k r cur s ha hd hg mm' _ hat2 (Or.inl hk) hk0 inl y5 hy5
          (.node na) (.ptr tia) y6 (.rtype (ftOf fi)) x8 (.addr t0 idx k false) x10 (.int (min s.length (List.replicate s.length (0 : UInt8)).length : Nat))
          x12 x13 x14 x15 x17 x18 x19 x20 x21 x22 x23 (.int (kindNum (ftOf fi))) x25 x26 x27
        rw [hpost, andThen_ret]
        refine ⟨mm'', rfl, ?_⟩
        have hfin : (if s.length = 0 ∧ fi.kind = .bytes then ([] : Bytes)
            else s.take s.length ++ (List.replicate s.length (0 : UInt8)).drop s.length) = s := by
          by_cases hs0 : s.length = 0
          · simp [hs0, hk, List.length_eq_zero_iff.mp hs0]
          · simp [hs0]
        rw [hfin] at hat3
        exact hat3
      | byteArray n =>
        dsimp only
        have hk' : t0.kind = .byteArray n := by rw [hk0, hk]
        have hc0 : cur = .bytes (List.replicate n 0) := by rw [hcur]; simp [zeroG, hd, hk']
        rw [swPick_of_array fi n hk, swArr_enter c m fi (Or.inr ⟨n, hk⟩), arrBody_split,
          arrPre_array c m fi t0 idx k r cur hd hk0 hr hg n hk, andThen_norm]
        have hat1 : At m m idx k r (.bytes (s.take 0 ++ (List.replicate n (0 : UInt8)).drop 0)) := by
          have := hat0; rw [hc0] at this; simpa using this
        have hmin : min s.length (List.replicate n (0 : UInt8)).length = min s.length n := by simp
        obtain ⟨mm', hloop, hat2⟩ := arr_loop c m na tia a t0 idx k r cur s (List.replicate n 0) hd hg y5 y6 (.rtype (ftOf fi)) x8
          (.addr t0 idx k false) x10 x12 x13 x14 x15 (.bool inl) x17 x18 x19 x20 x21 x22 x23 (.int (kindNum (ftOf fi))) x25 x26 x27
          _ c.fuel 0 _ rfl (Nat.zero_le _) (by rw [hmin]; omega) hat1
        rw [show ((0 : Nat) : Int) = 0 from rfl] at hloop
        rw [hloop, andThen_norm]
        rw [hmin, take_min_drop_replicate] at hat2
        obtain ⟨mm'', hpost, hat3⟩ := arrPost_spec c m na a s0 pos fin fi t0 idx k r cur s ha hd hg mm' _ hat2 (Or.inr ⟨n, hk⟩) hk0 inl y5 hy5
          (.node na) (.ptr tia) y6 (.rtype (ftOf fi)) x8 (.addr t0 idx k false) x10 (.int (min s.length (List.replicate n (0 : UInt8)).length : Nat))
          x12 x13 x14 x15 x17 x18 x19 x20 x21 x22 x23 (.int (kindNum (ftOf fi))) x25 x26 x27
        rw [hpost, andThen_ret]
        refine ⟨mm'', rfl, ?_⟩
        have hfin : (if s.length = 0 ∧ fi.kind = .bytes then ([] : Bytes)
            else s.take n ++ List.replicate (n - s.length) (0 : UInt8)) = s.take n ++ List.replicate (n - s.length) 0 := by
          simp [hk]
        rw [hfin] at hat3
        exact hat3
    · simp only [if_true, andThen_ret]
      have hsv : storeValue fi kind fin s = .error (.ute kind fin fi.name .unsupportedType) := by
        simp only [storeValue, hu]
        rw [if_pos hpb]
      rw [hsv]
      exact errCase _ _ msgClassU_unsupportedType
end whole

section store
variable (c : Ctx)
end store

end GoCrypt.CIR
