import GoCrypt.Proofs.DesTables

/-!
# `descrypt.Encrypt` with `rounds = n` is `n` complete encryptions

`Encrypt` applies the initial permutation once, runs `rounds` × 16 Feistel rounds on a state kept
in E-expanded layout, and applies the final permutation once. crypt(3) is specified as `rounds`
complete DES encryptions; the two agree because `IP ∘ FP` is the identity **on E-consistent states**
(the 16 bits that E duplicates must agree), and the Feistel rounds preserve E-consistency (every
`spe` entry is E-consistent — checked for all 512 entries). All statements are for every 64-bit
key, block and salt.
-/

set_option maxRecDepth 100000

namespace GoCrypt.DesIter
open GoCrypt.Kdf GoCrypt.Bits GoCrypt.Kdf.Des GoCrypt.Gen.des_descrypt

/-! ## The pieces of `Encrypt`, as functions -/

def ie (y : UInt64) : UInt64 := permuteNib ie3264 8 y
def cf (c : UInt64) : UInt64 := permuteNib cf6464 16 c
def f1 (x : UInt64) : UInt64 := ((x >>> 31) &&& (0xAAAAAAAA : UInt64)) ||| (x &&& (0x55555555 : UInt64))
def f2 (x : UInt64) : UInt64 := ((x >>> 32) &&& (0xAAAAAAAA : UInt64)) ||| ((x >>> 1) &&& (0x55555555 : UInt64))
def combL (l : UInt64) : UInt64 :=
  ((l >>> 3) &&& (0x0F0F0F0F00000000 : UInt64)) ||| ((l <<< 33) &&& (0xF0F0F0F000000000 : UInt64))
def combR (r : UInt64) : UInt64 :=
  ((r >>> 35) &&& (0x000000000F0F0F0F : UInt64)) ||| ((r <<< 1) &&& (0x00000000F0F0F0F0 : UInt64))

def sF1 : Route := ror (rand 0xAAAAAAAA (rshr 31 rid)) (rand 0x55555555 rid)
def sF2 : Route := ror (rand 0xAAAAAAAA (rshr 32 rid)) (rand 0x55555555 (rshr 1 rid))
def sCombL : Route := ror (rand 0x0F0F0F0F00000000 (rshr 3 rid)) (rand 0xF0F0F0F000000000 (rshl 33 rid))
def sCombR : Route := ror (rand 0x000000000F0F0F0F (rshr 35 rid)) (rand 0x00000000F0F0F0F0 (rshl 1 rid))

theorem rF1 : IsRoute f1 sF1 := ((isRoute_id.shr 31).and_lit 0xAAAAAAAA).or (isRoute_id.and_lit 0x55555555) (by decide +kernel)
theorem rF2 : IsRoute f2 sF2 :=
  ((isRoute_id.shr 32).and_lit 0xAAAAAAAA).or ((isRoute_id.shr 1).and_lit 0x55555555) (by decide +kernel)
theorem rCombL : IsRoute combL sCombL :=
  ((isRoute_id.shr 3).and_lit 0x0F0F0F0F00000000).or ((isRoute_id.shl 33).and_lit 0xF0F0F0F000000000) (by decide +kernel)
theorem rCombR : IsRoute combR sCombR :=
  ((isRoute_id.shr 35).and_lit 0x000000000F0F0F0F).or ((isRoute_id.shl 1).and_lit 0x00000000F0F0F0F0) (by decide +kernel)
theorem rIE : IsRoute ie sigIE := isRoute_ie3264
theorem rCF : IsRoute cf sigCF := isRoute_cf6464

/-! ## `FP ∘ IP = id` on all words -/

theorem rFPIP_L : IsRoute (fun x => cf (combL (ie (f1 x)))) (rcomp sigCF (rcomp sCombL (rcomp sigIE sF1))) :=
  rCF.comp (rCombL.comp (rIE.comp rF1))
theorem rFPIP_R : IsRoute (fun x => cf (combR (ie (f2 x)))) (rcomp sigCF (rcomp sCombR (rcomp sigIE sF2))) :=
  rCF.comp (rCombR.comp (rIE.comp rF2))

theorem fp_ip (x : UInt64) : cf (combL (ie (f1 x)) ||| combR (ie (f2 x))) = x := by
  rw [rCF.map_or]
  exact (rFPIP_L.or rFPIP_R (by decide +kernel)).eq isRoute_id (by decide +kernel) x

/-! ## E-consistent words -/

/-- `G = ie ∘ f1 ∘ cf ∘ combL`: re-expands the 32 bits that the final permutation reads from a left
half. Its fixed points are the E-consistent words. -/
def G (x : UInt64) : UInt64 := ie (f1 (cf (combL x)))
def G' (x : UInt64) : UInt64 := ie (f1 (cf (combR x)))
def H (x : UInt64) : UInt64 := ie (f2 (cf (combR x)))
def H' (x : UInt64) : UInt64 := ie (f2 (cf (combL x)))

def sG : Route := rcomp sigIE (rcomp sF1 (rcomp sigCF sCombL))
def sG' : Route := rcomp sigIE (rcomp sF1 (rcomp sigCF sCombR))
def sH : Route := rcomp sigIE (rcomp sF2 (rcomp sigCF sCombR))
def sH' : Route := rcomp sigIE (rcomp sF2 (rcomp sigCF sCombL))

theorem rG : IsRoute G sG := rIE.comp (rF1.comp (rCF.comp rCombL))
theorem rG' : IsRoute G' sG' := rIE.comp (rF1.comp (rCF.comp rCombR))
theorem rH : IsRoute H sH := rIE.comp (rF2.comp (rCF.comp rCombR))
theorem rH' : IsRoute H' sH' := rIE.comp (rF2.comp (rCF.comp rCombL))

def Valid (l : UInt64) : Prop := G l = l

theorem valid_ie (a : UInt64) : Valid (ie a) :=
  (rG.comp rIE).eq rIE (by decide +kernel) a

theorem valid_xor {l m : UInt64} (hl : Valid l) (hm : Valid m) : Valid (l ^^^ m) := by
  unfold Valid at *; rw [rG.map_xor, hl, hm]

theorem valid_zero : Valid 0 := rG.map_zero

/-- `sG` as a literal list (bit `j` of `G x` is bit `sGL[j]` of `x`). -/
def sGL : List (Option Nat) :=
  [none, none, some 14, some 3, some 4, some 5, some 6, some 59, none, none, some 22, some 11, some 12, some 13, some 14, some 3, none, none, some 30, some 19, some 20, some 21, some 22, some 11, none, none, some 38, some 27, some 28, some 29, some 30, some 19, none, none, some 46, some 35, some 36, some 37, some 38, some 27, none, none, some 54, some 43, some 44, some 45, some 46, some 35, none, none, some 62, some 51, some 52, some 53, some 54, some 43, none, none, some 6, some 59, some 60, some 61, some 62, some 51]

theorem sG_eq : ∀ j, j < 64 → sG j = sGL.getD j none := by decide +kernel
theorem sGL_lt : ∀ j, j < 64 → ∀ i, sGL.getD j none = some i → i < 64 := by decide +kernel

/-- Every entry of `spe` is E-consistent (512 entries × 64 bits). -/
theorem spe_bits : ∀ idx, idx < 512 → ∀ j, j < 64 →
    (spe.getD idx 0).testBit j = (match sGL.getD j none with | some i => (spe.getD idx 0).testBit i | none => false) := by
  decide +kernel

theorem valid_spe (idx : Nat) (h : idx < 512) : Valid (tbl spe idx) := by
  unfold Valid
  apply ext
  intro j hj
  rw [rG _ j hj, Route.eval, sG_eq j hj]
  unfold tbl
  rw [bit_ofNat, spe_bits idx h j hj]
  cases hs : sGL.getD j none with
  | none => simp
  | some i => simp [bit_ofNat, hj, sGL_lt j hj i hs]


/-- `IP ∘ FP` is the identity on pairs of E-consistent words. -/
theorem ip_fp {l r : UInt64} (hl : Valid l) (hr : Valid r) :
    ie (f1 (cf (combL l ||| combR r))) = l ∧ ie (f2 (cf (combL l ||| combR r))) = r := by
  unfold Valid at hl hr
  constructor
  · rw [rCF.map_or, rF1.map_or, rIE.map_or]
    show G l ||| G' r = l
    have : G' r = 0 := by
      rw [← hr]; exact (rG'.comp rG).eq_zero (by decide +kernel) r
    rw [this, hl]; simp
  · rw [rCF.map_or, rF2.map_or, rIE.map_or]
    show H' l ||| H r = r
    have h1 : H' l = 0 := by
      rw [← hl]; exact (rH'.comp rG).eq_zero (by decide +kernel) l
    have h2 : H r = r := by
      conv => lhs; rw [← hr]
      exact ((rH.comp rG).eq rG (by decide +kernel) r).trans hr
    rw [h1, h2]; simp

/-! ## The rounds preserve E-consistency -/

theorem idx_lt (i : Nat) (hi : i < 8) (b : UInt64) (k : UInt64) : i * 64 + ((b >>> k) &&& 0x3F).toNat < 512 := by
  have : ((b >>> k) &&& 0x3F).toNat < 64 := by
    rw [UInt64.toNat_and]; exact Nat.lt_of_le_of_lt Nat.and_le_right (by decide)
  omega

theorem valid_speXor (b : UInt64) : Valid (speXor b) := by
  unfold speXor
  exact valid_xor (valid_xor (valid_xor (valid_xor (valid_xor (valid_xor (valid_xor
    (valid_spe _ (idx_lt 0 (by decide) b 58)) (valid_spe _ (idx_lt 1 (by decide) b 50)))
    (valid_spe _ (idx_lt 2 (by decide) b 42))) (valid_spe _ (idx_lt 3 (by decide) b 34)))
    (valid_spe _ (idx_lt 4 (by decide) b 26))) (valid_spe _ (idx_lt 5 (by decide) b 18)))
    (valid_spe _ (idx_lt 6 (by decide) b 10))) (valid_spe _ (idx_lt 7 (by decide) b 2))

/-- One (even, odd) step of `desPass`. -/
def passStep (salt : UInt64) (lr : UInt64 × UInt64) (ks : UInt64 × UInt64) : UInt64 × UInt64 :=
  let l := lr.1
  let r := lr.2
  let k := ((r >>> 32) ^^^ r) &&& salt
  let b := (k <<< 32) ^^^ k ^^^ r ^^^ ks.1
  let l := l ^^^ speXor b
  let k := ((l >>> 32) ^^^ l) &&& salt
  let b := (k <<< 32) ^^^ k ^^^ l ^^^ ks.2
  let r := r ^^^ speXor b
  (l, r)

theorem desPass_eq_foldl (kss : List (UInt64 × UInt64)) (salt l r : UInt64) :
    desPass kss salt l r = kss.foldl (passStep salt) (l, r) := by
  unfold desPass
  simp only [List.forIn_pure_yield_eq_foldl, pure_bind]
  rfl


theorem passStep_valid (salt : UInt64) (lr ks : UInt64 × UInt64) (h : Valid lr.1 ∧ Valid lr.2) :
    Valid (passStep salt lr ks).1 ∧ Valid (passStep salt lr ks).2 := by
  unfold passStep
  exact ⟨valid_xor h.1 (valid_speXor _), valid_xor h.2 (valid_speXor _)⟩

theorem foldl_valid (salt : UInt64) (kss : List (UInt64 × UInt64)) (lr : UInt64 × UInt64) (h : Valid lr.1 ∧ Valid lr.2) :
    Valid (kss.foldl (passStep salt) lr).1 ∧ Valid (kss.foldl (passStep salt) lr).2 := by
  induction kss generalizing lr with
  | nil => exact h
  | cons ks kss ih => exact ih _ (passStep_valid salt lr ks h)

theorem desLoop_valid (kss : List (UInt64 × UInt64)) (salt : UInt64) (n : Nat) (lr : UInt64 × UInt64)
    (h : Valid lr.1 ∧ Valid lr.2) : Valid (desLoop kss salt n lr).1 ∧ Valid (desLoop kss salt n lr).2 := by
  induction n generalizing lr with
  | zero => exact h
  | succ n ih =>
    obtain ⟨l, r⟩ := lr
    rw [desLoop, desPass_eq_foldl]
    have := foldl_valid salt kss (l, r) h
    exact ih _ ⟨this.2, this.1⟩

theorem desLoop_add (kss : List (UInt64 × UInt64)) (salt : UInt64) (m n : Nat) (lr : UInt64 × UInt64) :
    desLoop kss salt (m + n) lr = desLoop kss salt n (desLoop kss salt m lr) := by
  induction m generalizing lr with
  | zero => rw [Nat.zero_add]; rfl
  | succ m ih =>
    obtain ⟨l, r⟩ := lr
    rw [Nat.add_right_comm, desLoop, desLoop]
    cases desPass kss salt l r with
    | mk l' r' => exact ih _

/-- The initial permutation of `Encrypt` (the `input != 0` test only skips work: both permutations map 0 to 0). -/
def ipPair (x : UInt64) : UInt64 × UInt64 := (ie (f1 x), ie (f2 x))
/-- The final permutation of `Encrypt`. -/
def fpPair (lr : UInt64 × UInt64) : UInt64 := cf (combL lr.1 ||| combR lr.2)

theorem encrypt_eq (key input : UInt64) (salt : UInt32) (rounds : Nat) :
    encrypt key input salt rounds =
      fpPair (desLoop (keySchedules key) (expandSalt salt).toUInt64 rounds (ipPair input)) := by
  have e1 : ie (f1 0) = 0 := (rIE.comp rF1).map_zero
  have e2 : ie (f2 0) = 0 := (rIE.comp rF2).map_zero
  have hfp : ∀ lr : UInt64 × UInt64, permuteNib cf6464 16
      (((lr.1 >>> 3) &&& (0x0F0F0F0F00000000 : UInt64)) ||| ((lr.1 <<< 33) &&& (0xF0F0F0F000000000 : UInt64)) |||
        ((lr.2 >>> 35) &&& (0x000000000F0F0F0F : UInt64)) ||| ((lr.2 <<< 1) &&& (0x00000000F0F0F0F0 : UInt64))) = fpPair lr := by
    intro lr
    simp only [fpPair, combL, combR, cf, UInt64.or_assoc]
  unfold encrypt
  simp only []
  by_cases h : input = 0
  · subst h
    simp only [bne_self_eq_false, Bool.false_eq_true, if_false]
    have : ipPair 0 = (0, 0) := by simp only [ipPair, e1, e2]
    rw [this]
    exact hfp _
  · have : (input != 0) = true := by simpa using h
    simp only [this, if_true]
    exact hfp _


/-! ## `Encrypt` composes -/

theorem ip_fp_pair (lr : UInt64 × UInt64) (h : Valid lr.1 ∧ Valid lr.2) : ipPair (fpPair lr) = lr := by
  obtain ⟨l, r⟩ := lr
  have := ip_fp h.1 h.2
  simp only [ipPair, fpPair, this.1, this.2]

theorem ipPair_valid (x : UInt64) : Valid (ipPair x).1 ∧ Valid (ipPair x).2 :=
  ⟨valid_ie (f1 x), valid_ie (f2 x)⟩

/-- `rounds = 0`: the two permutations cancel. -/
theorem encrypt_zero (key input : UInt64) (salt : UInt32) : encrypt key input salt 0 = input := by
  rw [encrypt_eq]; exact fp_ip input

/-- `m + n` rounds in one call = `m` rounds, then `n` rounds on the result. For every key, block, salt. -/
theorem encrypt_add (key input : UInt64) (salt : UInt32) (m n : Nat) :
    encrypt key input salt (m + n) = encrypt key (encrypt key input salt m) salt n := by
  rw [encrypt_eq, encrypt_eq key _ salt n, encrypt_eq key input salt m, desLoop_add,
    ip_fp_pair _ (desLoop_valid _ _ m _ (ipPair_valid input))]

end GoCrypt.DesIter
