import GoCrypt.Proofs.DesIRPermute
import GoCrypt.Proofs.DesFipsEq

/-!
# Word IR: `keySchedules` as regenerated is `Des.keySchedules`

The loop `for i, p := range pcxRot` runs over the eight (even, odd) table pairs the source lists in
`pcxRot`; one lemma describes an iteration for an arbitrary index, table pair and array contents, and the
eight iterations are then chained. Helper lemmas only.
-/

namespace GoCrypt.DesIR
open GoCrypt.Gen.DesIR GoCrypt.Kdf GoCrypt.Kdf.Des

/-- What the callers of `permute1616` may assume about it. -/
def Perm1616Spec (c : Ctx) : Prop :=
  ∀ (x : UInt64) (t : Array Nat), c.call "permute1616" [.u64 x, .tab [16, 16] 0 t] = .ok (.u64 (permuteNib t 16 x))

/-- A `[n][2]uint64` array holding the (even, odd) pairs `l`. -/
def ksFlat (l : List (UInt64 × UInt64)) : List Nat := l.flatMap fun p => [p.1.toNat, p.2.toNat]
def ksVal (l : List (UInt64 × UInt64)) : Val := .tab [l.length, 2] 0 (ksFlat l).toArray

def ksBody : Stmt := (proc_keySchedules.body.nth 2).rangeBody

theorem globals_ksMask : globals "ksMask" = some (.u64 ksMask) := rfl

/-- One iteration of the loop of `keySchedules`: index `i`, table pair `(pE, pO)`. -/
theorem ksBody_step (c : Ctx) (hc : Perm1616Spec c) (u e0 : UInt64) (L : List Nat) (i : Nat) (pE pO : Array Nat)
    (X5 X6 : Val) (hi : i < 8) (hL : L.length = 16) :
    exec c globals ksBody
        [.u64 u, .tab [8, 2] 0 L.toArray, .u64 e0, .int (i : Int), .arr [.tab [16, 16] 0 pE, .tab [16, 16] 0 pO], X5, X6] =
      .norm [.u64 (permuteNib pO 16 (permuteNib pE 16 u)),
        .tab [8, 2] 0 ((L.set (i * 2) (permuteNib pE 16 u &&& ksMask).toNat).set (i * 2 + 1)
          (permuteNib pO 16 (permuteNib pE 16 u) &&& ksMask).toNat).toArray,
        .u64 (permuteNib pE 16 u), .int (i : Int), .arr [.tab [16, 16] 0 pE, .tab [16, 16] 0 pO],
        .tab [16, 16] 0 pE, .tab [16, 16] 0 pO] := by
  have h1 : i * 2 < L.length := by omega
  have h2 : i * 2 + 1 < L.length := by omega
  simp only [ksBody, proc_keySchedules, Stmt.nth, Stmt.drop, Stmt.head, Stmt.rangeBody, desir, indexVal,
    List.getElem?_cons_zero, List.getElem?_cons_succ, hc _ _, eval_global _ _ _ _ globals_ksMask, storeVal, storePos,
    hi, if_true, Nat.lt_add_one, Nat.zero_lt_succ, Nat.zero_add, Nat.mul_one, Nat.add_zero,
    List.size_toArray, h1, h2, List.length_set]

theorem globals_pcxRot : globals "pcxRot" = some (.arr (Des.pcxRot.map fun p =>
    .arr [.tab [16, 16] 0 p.1, .tab [16, 16] 0 p.2])) := rfl

/-- The result array of `keySchedules` for the model's eight pairs, written out. -/
theorem ksModel_pcxRot (key : UInt64) : ∃ a0 b0 a1 b1 a2 b2 a3 b3 a4 b4 a5 b5 a6 b6 a7 b7 : UInt64,
    keySchedules key = [(a0, b0), (a1, b1), (a2, b2), (a3, b3), (a4, b4), (a5, b5), (a6, b6), (a7, b7)] :=
  ⟨_, _, _, _, _, _, _, _, _, _, _, _, _, _, _, _, (GoCrypt.DesEq.keySchedules_eq key).trans rfl⟩

/-- `keySchedules(key)` as regenerated returns the `[8][2]uint64` array of the model's eight pairs. -/
theorem keySchedules_body (c : Ctx) (hc : Perm1616Spec c) (key : UInt64) :
    execProc c globals proc_keySchedules [.u64 key] = .ok (ksVal (keySchedules key)) := by
  apply execProc_of_ret _ _ _ _ _ rfl
  show exec c globals proc_keySchedules.body [.u64 key, .undef, .undef, .undef, .undef, .undef, .undef] = _
  have hsplit : proc_keySchedules.body =
      (.decl 1 (.array [8, 2]) ;;; .decl 2 (.scalar .u64) ;;;
        .range (some 3) (some 4) (.global "pcxRot") ksBody ;;; .ret (.var 1)) := rfl
  have hz : (List.replicate (8 * (2 * 1)) (0 : Nat)) = [0, 0, 0, 0, 0, 0, 0, 0, 0, 0, 0, 0, 0, 0, 0, 0] := rfl
  rw [hsplit, GoCrypt.DesEq.keySchedules_eq]
  simp only [desir, zeroVal, hz, elems, eval_global _ _ _ _ globals_pcxRot, Des.pcxRot, List.map_cons, List.map_nil]
  iterate 8 (rw [ksBody_step c hc _ _ _ _ _ _ _ _ (by decide) (by simp)]; simp only [desir])
  rfl

end GoCrypt.DesIR
