import GoCrypt.Proofs.KdfIR2Base
import GoCrypt.Gen.KdfIR2
import GoCrypt.Model.Kdf.Misc

/-!
# Second-generation IR: the NT-hash glue = the hand models

`nthash.Key` after its guard (`md4.New(); Write; Sum`) and `nthash.encodePassword` as regenerated in
`Gen/KdfIR2.lean`. The conversion `[]rune(s)` and `utf16.Encode` are opaque primitives: the lemmas hold
for EVERY pair of functions `runes : Bytes → List Int`, `u16 : List Int → List Int` whose units are
16-bit; `Props/KdfIR2.lean` instantiates them with the model's `decodeRunes` / `utf16Units`.
Helper lemmas only.
-/

namespace GoCrypt.HashIR2
open GoCrypt.Gen.KdfIR2 GoCrypt.Kdf

set_option linter.unusedSimpArgs false

/-! ## `nthash.Key` after the guard -/

theorem nthash_key_tail_proc (c : Ctx) (pw : Bytes) :
    execProc c nthash.proc_Key [.bytes pw] = .ok (.bytes (c.H pw)) := by
  apply execProc_of_ret _ _ _ _ rfl (by decide)
  simp only [nthash.proc_Key, Env.init, List.map, List.length, List.replicate]
  ir_simp

/-! ## `nthash.encodePassword` -/

structure NtCalls (c : Ctx) (runes : Bytes → List Int) (u16 : List Int → List Int) : Prop where
  runes : ∀ s, c.call "[]rune" [.bytes s] = .ok (.ints (runes s))
  encode : ∀ l, c.call "utf16.Encode" [.ints l] = .ok (.ints (u16 l))
  unit_range : ∀ l, ∀ u ∈ u16 l, 0 ≤ u ∧ u < 65536

/-- A UTF-16 unit as two little-endian bytes. -/
def le2 (u : Int) : Bytes := leBytes 2 u.toNat

theorem le2_length (u : Int) : (le2 u).length = 2 := by simp [le2, leBytes]

theorem flatMap_le2_length : ∀ l : List Int, (l.flatMap le2).length = 2 * l.length
  | [] => rfl
  | u :: l => by
    rw [List.flatMap_cons, List.length_append, le2_length, flatMap_le2_length l, List.length_cons]; omega

/-- Storing unit `j` into the buffer whose first `2j` bytes are already written. -/
theorem putUintAt_le2 (units : List Int) (j : Nat) (hj : j < units.length) (u : Int) (hu : units[j] = u)
    (h0 : 0 ≤ u) (h1 : u < 65536) (m : Nat) (hm : m = 2 * j) :
    putUintAt ((units.take j).flatMap le2 ++ List.replicate (2 * (units.length - j)) 0) (m : Int) 2 false u =
      .ok (.bytes ((units.take (j + 1)).flatMap le2 ++ List.replicate (2 * (units.length - (j + 1))) 0)) := by
  subst hm
  have hA : ((units.take j).flatMap le2).length = 2 * j := by
    rw [flatMap_le2_length, List.length_take]; congr 1; omega
  have hlen : ((units.take j).flatMap le2 ++ List.replicate (2 * (units.length - j)) (0 : UInt8)).length =
      2 * j + 2 * (units.length - j) := by
    rw [List.length_append, hA, List.length_replicate]
  have c1 : (0 : Int) ≤ ((2 * j : Nat) : Int) ∧ ((2 * j : Nat) : Int) ≤
      (((units.take j).flatMap le2 ++ List.replicate (2 * (units.length - j)) (0 : UInt8)).length : Int) := by
    rw [hlen]; omega
  have c2 : 2 * j + 2 ≤
      ((units.take j).flatMap le2 ++ List.replicate (2 * (units.length - j)) (0 : UInt8)).length := by
    rw [hlen]; omega
  have c3 : (0 : Int) ≤ u ∧ u.toNat < 2 ^ (8 * 2) := by
    refine ⟨h0, ?_⟩
    have : (2 : Nat) ^ (8 * 2) = 65536 := by decide
    omega
  simp only [putUintAt, c1, c2, c3, and_self, if_true, Int.toNat_natCast, Bool.false_eq_true, if_false]
  congr 2
  rw [List.take_succ_eq_append_getElem hj, List.flatMap_append, hu]
  generalize (units.take j).flatMap le2 = A at hA
  have hr : 2 * (units.length - j) = 2 + 2 * (units.length - (j + 1)) := by omega
  have e1 : (A ++ List.replicate (2 * (units.length - j)) (0 : UInt8)).take (2 * j) = A := by
    rw [← hA]; exact List.take_left
  have e2 : (A ++ List.replicate (2 * (units.length - j)) (0 : UInt8)).drop (2 * j + 2) =
      List.replicate (2 * (units.length - (j + 1))) 0 := by
    rw [← hA, ← List.drop_drop, List.drop_left, hr, List.drop_replicate]
    congr 1; omega
  rw [e1, e2]
  simp only [le2, List.flatMap_cons, List.flatMap_nil, List.append_nil, List.append_assoc]

theorem nthash_encodePassword_body (c : Ctx) {runes : Bytes → List Int} {u16 : List Int → List Int}
    (hc : NtCalls c runes u16) (s : Bytes) :
    exec c nthash.proc_encodePassword.body (Env.init 6 [.bytes s]) =
      .ret (.bytes ((u16 (runes s)).flatMap le2)) := by
  simp only [nthash.proc_encodePassword, Env.init, List.map, List.length, List.replicate]
  generalize hunits : u16 (runes s) = units
  have hrange : ∀ u ∈ units, 0 ≤ u ∧ u < 65536 := hunits ▸ hc.unit_range (runes s)
  obtain ⟨m, hm⟩ : ∃ m : Nat, m = 2 * units.length := ⟨_, rfl⟩
  have e : (units.length : Int) * 2 = (m : Int) := by omega
  ir_simp [hc.runes, hc.encode, hunits, e]
  rw [exec_forRange_count c _ _ _ _ _ (units.map .int)
    (fun j => [some (.bytes s), some (.ints (runes s)), some (.ints units),
      some (.bytes ((units.take j).flatMap le2 ++ List.replicate (2 * (units.length - j)) 0)), none, none])
    (.ints units)]
  · ir_simp
  · ir_simp
  · rfl
  · simp [hm]
  · intro j hj
    have hj' : j < units.length := by simpa using hj
    obtain ⟨k, hk⟩ : ∃ k : Nat, k = 2 * j := ⟨_, rfl⟩
    have e2 : (j : Int) * 2 = (k : Int) := by omega
    have hr := hrange units[j] (List.getElem_mem hj')
    ir_simp [e2, putUintAt_le2 units j hj' _ rfl hr.1 hr.2 k hk]

theorem nthash_encodePassword_proc (c : Ctx) {runes : Bytes → List Int} {u16 : List Int → List Int}
    (hc : NtCalls c runes u16) (s : Bytes) :
    execProc c nthash.proc_encodePassword [.bytes s] = .ok (.bytes ((u16 (runes s)).flatMap le2)) :=
  execProc_of_ret _ _ _ _ rfl (by decide) (nthash_encodePassword_body c hc s)

/-! ## Linking -/

/-- The meaning the theorems assume for the two primitives of `encodePassword`. -/
structure NtPrimSpec (prim : String → List Val → Res Val) (runes : Bytes → List Int) (u16 : List Int → List Int) : Prop where
  runes : ∀ s, prim "[]rune" [.bytes s] = .ok (.ints (runes s))
  encode : ∀ l, prim "utf16.Encode" [.ints l] = .ok (.ints (u16 l))
  unit_range : ∀ l, ∀ u ∈ u16 l, 0 ≤ u ∧ u < 65536

theorem ntCalls_ctxOf (π : Params) {runes : Bytes → List Int} {u16 : List Int → List Int}
    (hπ : NtPrimSpec π.prim runes u16) (d : Nat) : NtCalls (ctxOf π nthash.program (d + 1)) runes u16 where
  runes s := by
    rw [ctxOf_call, callIn_prim π _ d _ _ rfl rfl]; exact hπ.runes s
  encode l := by
    rw [ctxOf_call, callIn_prim π _ d _ _ rfl rfl]; exact hπ.encode l
  unit_range := hπ.unit_range

end GoCrypt.HashIR2
