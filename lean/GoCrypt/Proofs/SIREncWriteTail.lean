import GoCrypt.Proofs.SIREncClose

/-!
# Stream IR of `hash/base64le`: `(*encoder).Write` — the parts of the body, the trailing fringe

Helper lemmas only; the property theorems are in `Props/SIREncoder.lean`.
-/

namespace GoCrypt.SIR
open GoCrypt.B64IR (Buf Heap Slice Res sliceBytes writeList padInt decodeMapBytes encVal)
open GoCrypt.Base64LE GoCrypt.Stream GoCrypt.Gen.base64leStream GoCrypt.Gen.base64le

/-! ## The parts of the generated body -/

/-- `n = 0; err = nil; if e.err != nil { return 0, e.err }` -/
def wPre : Stmt := encoderWriteIR.body.take 3
/-- `if e.nbuf > 0 { … }` (leading fringe) -/
def wLead : Stmt := (encoderWriteIR.body.drop 3).head
/-- `for len(p) >= 3 { … }` -/
def wInterior : Stmt := (encoderWriteIR.body.drop 4).head
/-- `i := 0` -/
def wTailInit : Stmt := (encoderWriteIR.body.drop 5).head
/-- `for i < len(p) { e.buf[i] = p[i] }` -/
def wTailFor : Stmt := (encoderWriteIR.body.drop 6).head
/-- `e.nbuf = len(p); n += len(p); return` -/
def wTailEnd : Stmt := encoderWriteIR.body.drop 7

theorem wBody_split : encoderWriteIR.body.drop 3 = (wLead ;; wInterior ;; wTailInit ;; wTailFor ;; wTailEnd) := rfl
theorem wTailFor_eq : wTailFor = .for_ wTailFor.forFuel wTailFor.forCond wTailFor.forPost wTailFor.forBody := rfl
theorem wInterior_eq : wInterior = .for_ wInterior.forFuel wInterior.forCond .skip wInterior.forBody := rfl

/-! ## The trailing fringe: fewer than three bytes go to `e.buf` -/

/-- World and frame at the start of iteration `j` of the trailing loop. -/
def tailSt (L : EncLayout) (H : Heap) (O : List Obj) (X : List Ext) (B P : Buf) (bp off len : Nat) (n : Int) (v4 v5 : Val)
    (j : Nat) : World × Env :=
  (⟨H.set L.bb (writeList B 0 ((P.toList.drop off).take j)), O, X⟩,
   [.ptr L.d, .slice ⟨bp, off, len, len⟩, .int n, .err none, v4, v5, .int j])

theorem take_succ_drop (l : List UInt8) (off j : Nat) (h : off + j < l.length) :
    (l.drop off).take (j + 1) = (l.drop off).take j ++ [l[off + j]] := by
  rw [List.take_succ_eq_append_getElem (by simp; omega)]
  simp

theorem tailLoop (c : Ctx) (L : EncLayout) (H : Heap) (O : List Obj) (X : List Ext) (B P : Buf) (bp off len : Nat) (n : Int)
    (v4 v5 : Val) (nb : Nat) (err : Option Nat)
    (hobj : O[L.d]? = some (encoderObj L.ae L.k L.bb L.bo err nb))
    (hB : H[L.bb]? = some B) (hBs : B.size = 3) (hP : H[bp]? = some P) (hne : L.bb ≠ bp)
    (hwin : off + len = P.size) (hlen : len < 3) (hsz : P.size < 2 ^ 62) :
    exec c wTailFor (tailSt L H O X B P bp off len n v4 v5 0).1 (tailSt L H O X B P bp off len n v4 v5 0).2 =
      .norm (tailSt L H O X B P bp off len n v4 v5 len).1 (tailSt L H O X B P bp off len n v4 v5 len).2 := by
  have hbl : L.bb < H.length := lt_of_getElem? hB
  simp only [encoderObj] at hobj
  rw [wTailFor_eq, exec_for]
  have hfuel : (eval (tailSt L H O X B P bp off len n v4 v5 0).1 (tailSt L H O X B P bp off len n v4 v5 0).2 wTailFor.forFuel >>= asInt) =
      .ok ((1 + len : Nat) : Int) := by
    simp only [wTailFor, Stmt.forFuel, Stmt.head, Stmt.drop, encoderWriteIR, tailSt]
    b64_simp []
    rfl
  rw [hfuel, bindR_ok, Int.toNat_natCast]
  refine loop_count _ _ _ (tailSt L H O X B P bp off len n v4 v5) len ?_ ?_ ?_ ?_ _ 0 (Nat.zero_le _) (by omega)
  · intro j hj
    simp only [wTailFor, Stmt.forCond, Stmt.head, Stmt.drop, encoderWriteIR, tailSt]
    b64_simp []
    exact congrArg _ (decide_eq_true (by omega))
  · simp only [wTailFor, Stmt.forCond, Stmt.head, Stmt.drop, encoderWriteIR, tailSt]
    b64_simp []
    exact congrArg _ (decide_eq_false (by omega))
  · intro j hj
    have hPj : off + j < P.size := by omega
    have hws : j < (writeList B 0 ((P.toList.drop off).take j)).size := by simp; omega
    simp only [wTailFor, Stmt.forBody, Stmt.forPost, Stmt.head, Stmt.drop, encoderWriteIR, tailSt]
    b64_simp [hobj, hP, hB, hne, B64IR.writeList_size, hBs]
    rw [take_succ_drop _ _ _ (by simpa using hPj), B64IR.writeList_append]
    simp [writeList, Nat.min_eq_left (show j ≤ P.size - off by omega)]
  · intro j hj
    have hPj : off + j < P.size := by omega
    simp only [wTailFor, Stmt.forBody, Stmt.forPost, Stmt.head, Stmt.drop, encoderWriteIR, tailSt]
    b64_simp [hobj, hP, hB, hne, B64IR.writeList_size, hBs]
    exact ⟨_, _, rfl⟩

end GoCrypt.SIR
