import GoCrypt.Proofs.MiscIRBase

/-!
# Misc IR: `hashutil.NewEncoding`

Helper lemmas only; the property theorems are in `Props/MiscIR.lean`. The loops reuse the buffers-after-`k`-iterations
`ffBuf` / `dmBuf` of `Proofs/B64IRCtor.lean` (the two loops are the same code as in `base64le.NewEncoding`).
-/

namespace GoCrypt.SIR
open GoCrypt.B64IR (Buf Heap Slice Res sliceBytes)
open GoCrypt.Gen.miscIR

namespace HU
open GoCrypt.Gen.miscIR.hashutil

/-- `e := &Encoding{encoder: encoder, encMax: big.NewInt(int64(len(encoder)))}; i := 0` -/
def nePre : Stmt := newEncodingIR.body.take 4
/-- `for i < len(e.decodeMap) { e.decodeMap[i] = 0xFF }` -/
def neFor2 : Stmt := (newEncodingIR.body.drop 4).head
def neBody2 : Stmt := neFor2.forBody
/-- `i := 0` -/
def neAsg : Stmt := (newEncodingIR.body.drop 5).head
/-- `for i < len(encoder) { e.decodeMap[encoder[i]] = byte(i) }` -/
def neFor3 : Stmt := (newEncodingIR.body.drop 6).head
def neBody3 : Stmt := neFor3.forBody
/-- `return e` -/
def neRet : Stmt := newEncodingIR.body.drop 7

theorem neFor2_eq : neFor2 = .for_ neFor2.forFuel neFor2.forCond neFor2.forPost neBody2 := rfl
theorem neFor3_eq : neFor3 = .for_ neFor3.forFuel neFor3.forCond neFor3.forPost neBody3 := rfl
theorem ne_split4 : newEncodingIR.body.drop 4 = (neFor2 ;; neAsg ;; neFor3 ;; neRet) := rfl

theorem nePre_run (rk : Nat) (H : Heap) (O : List Obj) (X : List Ext) (al : Bytes) :
    exec (mctx program rk) nePre ⟨H, O, X⟩ [.str al, .undef, .undef, .undef, .undef, .undef] =
      .norm ⟨H ++ [Array.replicate 256 0], O ++ [hEncObj H.length al], X⟩
        [.str al, .ptr O.length, .int (0 : Nat), .undef, .int al.length, .ptr O.length] := by
  simp only [nePre, Stmt.take, newEncodingIR]
  b64_simp [hcall_newInt, libNewInt, evalInits, hEncObj]

theorem neBody2_step (c : Ctx) (H : Heap) (O : List Obj) (X : List Ext) (o b2 : Nat) (f0 f1 : Val) (D : Buf)
    (hO : O[o]? = some ⟨"Encoding", [f0, f1, .slice ⟨b2, 0, 256, 256⟩]⟩) (hH : H[b2]? = some D) (hD : D.size = 256)
    (k : Nat) (hk : k < 256) (v0 v3 v4 v5 : Val) :
    exec c neBody2 ⟨H, O, X⟩ [v0, .ptr o, .int k, v3, v4, v5] =
      .norm ⟨H.set b2 (D.setIfInBounds k 255), O, X⟩ [v0, .ptr o, .int k, v3, v4, v5] := by
  simp only [neBody2, neFor2, Stmt.forBody, Stmt.head, Stmt.drop, newEncodingIR]
  b64_simp [hO, hH, hD, asByte_255]

theorem neFor2_fuel (W : World) (env : Env) : (eval W env neFor2.forFuel >>= asInt) = .ok 257 := by
  simp only [neFor2, Stmt.forFuel, Stmt.head, Stmt.drop, newEncodingIR]
  b64_simp []

theorem neFor2_cond (W : World) (k : Nat) (v0 v1 v3 v4 v5 : Val) :
    (eval W [v0, v1, .int k, v3, v4, v5] neFor2.forCond >>= asBool) = .ok (decide (k < 256)) := by
  simp only [neFor2, Stmt.forCond, Stmt.head, Stmt.drop, newEncodingIR]
  b64_simp []

theorem neFor2_post (c : Ctx) (W : World) (k : Nat) (hk : k < 256) (v0 v1 v3 v4 v5 : Val) :
    exec c neFor2.forPost W [v0, v1, .int k, v3, v4, v5] = .norm W [v0, v1, .int (k + 1 : Nat), v3, v4, v5] := by
  simp only [neFor2, Stmt.forPost, Stmt.head, Stmt.drop, newEncodingIR]
  b64_simp []

/-- World and frame at the start of iteration `k` of the 0xFF loop. -/
def neSt2 (H : Heap) (O : List Obj) (X : List Ext) (b2 : Nat) (v0 v1 v3 v4 v5 : Val) (k : Nat) : World × Env :=
  (⟨H.set b2 (ffBuf k), O, X⟩, [v0, v1, .int k, v3, v4, v5])

theorem neLoop2 (c : Ctx) (H : Heap) (O : List Obj) (X : List Ext) (o b2 : Nat) (f0 f1 : Val)
    (hO : O[o]? = some ⟨"Encoding", [f0, f1, .slice ⟨b2, 0, 256, 256⟩]⟩) (hH : H[b2]? = some (Array.replicate 256 0))
    (v0 v3 v4 v5 : Val) :
    exec c neFor2 ⟨H, O, X⟩ [v0, .ptr o, .int (0 : Nat), v3, v4, v5] =
      .norm ⟨H.set b2 (Array.replicate 256 255), O, X⟩ [v0, .ptr o, .int (256 : Nat), v3, v4, v5] := by
  have hbl : b2 < H.length := B64IR.heap_lt_of_get hH
  have h0 : (⟨H, O, X⟩, [v0, Val.ptr o, .int (0 : Nat), v3, v4, v5]) = neSt2 H O X b2 v0 (.ptr o) v3 v4 v5 0 := by
    simp only [neSt2, ffBuf, B64IR.heap_set_self H b2 _ hH]
  have h256 : (⟨H.set b2 (Array.replicate 256 255), O, X⟩, [v0, Val.ptr o, .int (256 : Nat), v3, v4, v5]) =
      neSt2 H O X b2 v0 (.ptr o) v3 v4 v5 256 := by
    simp only [neSt2, ffBuf_full]
  rw [neFor2_eq, exec_for, neFor2_fuel, bindR_ok]
  have := loop_count (fun W env => eval W env neFor2.forCond >>= asBool) (exec c neBody2) (exec c neFor2.forPost)
    (neSt2 H O X b2 v0 (.ptr o) v3 v4 v5) 256 ?_ ?_ ?_ ?_ (257 : Int).toNat 0 (Nat.zero_le _) (by decide)
  · rw [← h0, ← h256] at this; exact this
  · intro k hk
    simp only [neSt2, neFor2_cond, decide_eq_true hk]
  · simp only [neSt2, neFor2_cond]; rfl
  · intro k hk
    simp only [neSt2]
    rw [neBody2_step c _ O X o b2 f0 f1 (ffBuf k) hO (List.getElem?_set_self hbl) (ffBuf_size k) k hk, andThen_norm,
      neFor2_post c _ k hk, List.set_set]
    rfl
  · intro k hk
    simp only [neSt2]
    rw [neBody2_step c _ O X o b2 f0 f1 (ffBuf k) hO (List.getElem?_set_self hbl) (ffBuf_size k) k hk]
    exact ⟨_, _, rfl⟩

/-! ## The table loop -/

theorem neBody3_step (c : Ctx) (H : Heap) (O : List Obj) (X : List Ext) (o b2 : Nat) (f0 f1 : Val) (D : Buf)
    (hO : O[o]? = some ⟨"Encoding", [f0, f1, .slice ⟨b2, 0, 256, 256⟩]⟩) (hH : H[b2]? = some D) (hD : D.size = 256)
    (al : Bytes) (k : Nat) (hk : k < al.length) (v2 v4 v5 : Val) :
    exec c neBody3 ⟨H, O, X⟩ [.str al, .ptr o, v2, .int k, v4, v5] =
      .norm ⟨H.set b2 (D.setIfInBounds (al.getD k 0).toNat (UInt8.ofNat k)), O, X⟩ [.str al, .ptr o, v2, .int k, v4, v5] := by
  have hx := (al.getD k 0).toNat_lt
  have hb := asByte_nat (k % 256) (Nat.mod_lt _ (by decide))
  simp only [neBody3, neFor3, Stmt.forBody, Stmt.head, Stmt.drop, newEncodingIR]
  b64_simp [hO, hH, hD, hb, UInt8.ofNat_mod256]

theorem neFor3_fuel (W : World) (al : Bytes) (v1 v2 v3 v4 v5 : Val) :
    (eval W [.str al, v1, v2, v3, v4, v5] neFor3.forFuel >>= asInt) = .ok ((1 + al.length : Nat) : Int) := by
  simp only [neFor3, Stmt.forFuel, Stmt.head, Stmt.drop, newEncodingIR]
  b64_simp []
  rfl

theorem neFor3_cond (W : World) (al : Bytes) (k : Nat) (v1 v2 v4 v5 : Val) :
    (eval W [.str al, v1, v2, .int k, v4, v5] neFor3.forCond >>= asBool) = .ok (decide (k < al.length)) := by
  simp only [neFor3, Stmt.forCond, Stmt.head, Stmt.drop, newEncodingIR]
  b64_simp []

theorem neFor3_post (c : Ctx) (W : World) (k : Nat) (hk : k < 9223372036854775807) (v0 v1 v2 v4 v5 : Val) :
    exec c neFor3.forPost W [v0, v1, v2, .int k, v4, v5] = .norm W [v0, v1, v2, .int (k + 1 : Nat), v4, v5] := by
  simp only [neFor3, Stmt.forPost, Stmt.head, Stmt.drop, newEncodingIR]
  b64_simp []

theorem neAsg_run (c : Ctx) (W : World) (v0 v1 v2 v3 v4 v5 : Val) :
    exec c neAsg W [v0, v1, v2, v3, v4, v5] = .norm W [v0, v1, v2, .int (0 : Nat), v4, v5] := by
  simp only [neAsg, Stmt.head, Stmt.drop, newEncodingIR]
  b64_simp []

theorem neRet_run (c : Ctx) (W : World) (v0 v2 v3 v4 v5 : Val) (o : Nat) :
    exec c neRet W [v0, .ptr o, v2, v3, v4, v5] = .ret W [.ptr o] := by
  simp only [neRet, Stmt.drop, newEncodingIR]
  b64_simp []

/-- World and frame at the start of iteration `k` of the table loop. -/
def neSt3 (H : Heap) (O : List Obj) (X : List Ext) (b2 : Nat) (al : Bytes) (v1 v2 v4 v5 : Val) (k : Nat) : World × Env :=
  (⟨H.set b2 (dmBuf al k), O, X⟩, [.str al, v1, v2, .int k, v4, v5])

theorem neLoop3 (c : Ctx) (H : Heap) (O : List Obj) (X : List Ext) (o b2 : Nat) (f0 f1 : Val) (al : Bytes)
    (hal : al.length < 9223372036854775807)
    (hO : O[o]? = some ⟨"Encoding", [f0, f1, .slice ⟨b2, 0, 256, 256⟩]⟩) (hH : H[b2]? = some (Array.replicate 256 255))
    (v2 v4 v5 : Val) :
    exec c neFor3 ⟨H, O, X⟩ [.str al, .ptr o, v2, .int (0 : Nat), v4, v5] =
      .norm ⟨H.set b2 (dmBuf al al.length), O, X⟩ [.str al, .ptr o, v2, .int (al.length : Nat), v4, v5] := by
  have hbl : b2 < H.length := B64IR.heap_lt_of_get hH
  have h0 : (⟨H, O, X⟩, [Val.str al, .ptr o, v2, .int (0 : Nat), v4, v5]) = neSt3 H O X b2 al (.ptr o) v2 v4 v5 0 := by
    simp only [neSt3, dmBuf, B64IR.heap_set_self H b2 _ hH]
  rw [neFor3_eq, exec_for, neFor3_fuel, bindR_ok]
  have := loop_count (fun W env => eval W env neFor3.forCond >>= asBool) (exec c neBody3) (exec c neFor3.forPost)
    (neSt3 H O X b2 al (.ptr o) v2 v4 v5) al.length ?_ ?_ ?_ ?_ (((1 + al.length : Nat) : Int)).toNat 0 (Nat.zero_le _)
    (by omega)
  · rw [← h0] at this; exact this
  · intro k hk
    simp only [neSt3, neFor3_cond, decide_eq_true hk]
  · simp only [neSt3, neFor3_cond]; simp
  · intro k hk
    simp only [neSt3]
    rw [neBody3_step c _ O X o b2 f0 f1 (dmBuf al k) hO (List.getElem?_set_self hbl) (dmBuf_size al k) al k hk,
      andThen_norm, neFor3_post c _ k (by omega), List.set_set]
    rfl
  · intro k hk
    simp only [neSt3]
    rw [neBody3_step c _ O X o b2 f0 f1 (dmBuf al k) hO (List.getElem?_set_self hbl) (dmBuf_size al k) al k hk]
    exact ⟨_, _, rfl⟩

theorem dmBuf_table (al : Bytes) : dmBuf al al.length = (decodeTable al).toArray := by
  apply Array.ext
  · simp [dmBuf_size, decodeTable]
  · intro i h1 h2
    have hi : i < 256 := by rw [dmBuf_size] at h1; exact h1
    rw [dmBuf_get al al.length i hi]
    simp only [decodeTable, List.getElem_toArray, List.getElem_map, List.getElem_range]

/-! ## The whole function -/

theorem newEncoding_proc (rk : Nat) (H : Heap) (O : List Obj) (X : List Ext) (al : Bytes)
    (hal : al.length < 9223372036854775807) :
    execProc (mctx program rk) newEncodingIR ⟨H, O, X⟩ [.str al] =
      .ok (⟨H ++ [(decodeTable al).toArray], O ++ [hEncObj H.length al], X⟩, [.ptr O.length]) := by
  rw [execProc_eq _ newEncodingIR _ _ rfl, exec_take_drop _ _ _ 4]
  show procResult ((exec _ nePre ⟨H, O, X⟩ [.str al, .undef, .undef, .undef, .undef, .undef]).andThen
    (exec _ (newEncodingIR.body.drop 4))) = _
  rw [nePre_run, andThen_norm, ne_split4, exec_seq]
  simp only [hEncObj]
  rw [neLoop2 _ _ _ X O.length H.length _ _ List.getElem?_concat_length List.getElem?_concat_length,
    andThen_norm, exec_seq, neAsg_run, andThen_norm, exec_seq, set_concat_length,
    neLoop3 _ _ _ X O.length H.length _ _ al hal List.getElem?_concat_length List.getElem?_concat_length,
    andThen_norm, neRet_run, procResult_ret, set_concat_length, dmBuf_table]

end HU

end GoCrypt.SIR
