import GoCrypt.Proofs.A2IRSpecs2
import GoCrypt.Proofs.Argon2Eq.Hash
import GoCrypt.Proofs.Argon2Eq.Blake2bLen

/-!
# Block IR: byte-buffer rules used by the `initHash` / `blake2bHash` proofs

Unfolding rules for `lenOf`, `viewBytes`, `writeAt`, `sliceVal`, `putLE`, `sumInto`, `hashOf` (one per
constructor), their behaviour on a heap `h.push os`, and small facts about `le32` and casts.
-/

namespace GoCrypt.A2IR
open GoCrypt.Kdf

/-! ## one rule per constructor -/

section rules
variable (h : Heap) (r : Ref) (off len cap lo hi : Nat) (d : Bytes)

theorem lenOf_bytes : lenOf h (.bytes r off len cap) = .ok (.int len) := id rfl
theorem lenOf_nilBytes : lenOf h .nilBytes = .ok (.int 0) := id rfl
theorem lenOf_parr : lenOf h (.parr r) = (getBytes h r >>= fun b => pure (.int b.length)) := id rfl

theorem viewBytes_bytes : viewBytes h (.bytes r off len cap) =
    (getBytes h r >>= fun b =>
      if off + len ≤ b.length then .ok ((b.drop off).take len) else .stuck "slice outside its buffer") := id rfl
theorem viewBytes_nilBytes : viewBytes h .nilBytes = .ok [] := id rfl

theorem writeAt_def : writeAt h r off d =
    (getBytes h r >>= fun b =>
      if off + d.length ≤ b.length then
        .ok (h.set r (.bytes (b.take off ++ d ++ b.drop (off + d.length))))
      else .stuck "slice outside its buffer") := id rfl

theorem sliceVal_bytes : sliceVal h (.bytes r off len cap) lo hi =
    if lo ≤ hi ∧ hi ≤ cap then .ok (.bytes r (off + lo) (hi - lo) (cap - lo)) else .panic := id rfl
theorem sliceVal_parr : sliceVal h (.parr r) lo hi =
    (getBytes h r >>= fun b =>
      if lo ≤ hi ∧ hi ≤ b.length then .ok (.bytes r lo (hi - lo) (b.length - lo)) else .panic) := id rfl
theorem sliceVal_nilBytes : sliceVal h .nilBytes lo hi = if lo = 0 ∧ hi = 0 then .ok .nilBytes else .panic := id rfl

theorem putLE_bytes : putLE h (.bytes r off len cap) d = if len < d.length then .panic else writeAt h r off d := id rfl
theorem sumInto_bytes : sumInto h (.bytes r off len cap) d =
    if d.length ≤ cap - len then writeAt h r (off + len) d else .ok h := id rfl
theorem sumInto_nilBytes : sumInto h .nilBytes d = .ok h := id rfl

theorem hashOf_def (env : Env) (x : Nat) : hashOf env x =
    (lookup env x >>= fun v =>
      match v with
      | .hash size w => .ok (size, w)
      | .nilHash => .panic
      | _ => .stuck "hash.Hash expected") := id rfl

end rules

/-! ## values that show bytes -/

/-- `viewBytes h v = .ok b` says what `v` is. -/
theorem viewBytes_ok_cases {h : Heap} {v : Val} {b : Bytes} (hv : viewBytes h v = .ok b) :
    (v = .nilBytes ∧ b = []) ∨
    ∃ r off len cap buf, v = .bytes r off len cap ∧ h.get r = some (.bytes buf) ∧ off + len ≤ buf.length ∧
      b = (buf.drop off).take len ∧ b.length = len := by
  cases v <;> try (simp [viewBytes] at hv; done)
  · rename_i r off len cap
    right
    simp only [viewBytes, getBytes] at hv
    cases hg : h.get r with
    | none => rw [hg] at hv; cases hv
    | some o =>
      rw [hg] at hv
      cases o with
      | bytes buf =>
        simp only [ok_bind] at hv
        by_cases hle : off + len ≤ buf.length
        · rw [if_pos hle] at hv
          cases hv
          exact ⟨r, off, len, cap, buf, rfl, hg, hle, rfl, by simp; omega⟩
        · rw [if_neg hle] at hv; cases hv
      | _ => cases hv
  · left; simp [viewBytes] at hv; exact ⟨rfl, hv⟩

theorem viewBytes_push {h : Heap} {v : Val} {b : Bytes} (hv : viewBytes h v = .ok b) (os : List Obj) :
    viewBytes (h.push os) v = .ok b := by
  rcases viewBytes_ok_cases hv with ⟨rfl, rfl⟩ | ⟨r, off, len, cap, buf, rfl, hg, hle, rfl, _⟩
  · rfl
  · simp only [viewBytes, getBytes, Heap.get_push_of_in h os r (Ref.inH_of_get hg), hg, ok_bind, if_pos hle]

/-! ## buffers among the locals just pushed -/

theorem viewBytes_push_top (h : Heap) (os : List Obj) (k off len cap : Nat) :
    viewBytes (h.push os) (.bytes (.stk (h.stk.length + k)) off len cap) =
      match os[k]? with
      | some (Obj.bytes b) => if off + len ≤ b.length then .ok ((b.drop off).take len) else .stuck "slice outside its buffer"
      | _ => .stuck "reference to something that is not a byte buffer" := by
  simp only [viewBytes, getBytes, Heap.get_push_top]
  cases os[k]? with
  | none => rfl
  | some o => cases o <;> rfl

theorem viewBytes_push_top0 (h : Heap) (os : List Obj) (off len cap : Nat) :
    viewBytes (h.push os) (.bytes (.stk h.stk.length) off len cap) =
      match os[0]? with
      | some (Obj.bytes b) => if off + len ≤ b.length then .ok ((b.drop off).take len) else .stuck "slice outside its buffer"
      | _ => .stuck "reference to something that is not a byte buffer" := by
  simpa using viewBytes_push_top h os 0 off len cap

/-! ## `le32` and casts -/

theorem le32_eq (v : Nat) : A2IR.le32 v = Argon2.le32 v := id rfl

theorem le32_mod (v : Nat) : Argon2.le32 (v % 4294967296) = Argon2.le32 v := by
  rw [Argon2Eq.le32_eq_LE32, Argon2Eq.le32_eq_LE32]
  simp only [Spec.Argon2Rfc.LE32]
  apply List.map_congr_left
  intro i hi
  simp only [List.mem_range] at hi
  congr 1
  have : i = 0 ∨ i = 1 ∨ i = 2 ∨ i = 3 := by omega
  rcases this with rfl | rfl | rfl | rfl <;> simp <;> omega

theorem le32_length (v : Nat) : (Argon2.le32 v).length = 4 := id rfl

end GoCrypt.A2IR
