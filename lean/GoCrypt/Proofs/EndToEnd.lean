import GoCrypt.Props.C10
import GoCrypt.Props.C02Core
import GoCrypt.Props.Accept
import GoCrypt.Props.C14
import GoCrypt.Props.C15

/-!
# Helper lemmas for `Props/EndToEnd`: NewHash → Check / Params / the grammar, scheme by scheme

`key S args` is never unfolded below the guard clauses: the proofs only use that `Check` / `Params`
rebuild the very `KeyArgs` that `NewHash` handed to `Key`, the codec round trip (`Proofs/CodecShapes`),
the grammar characterisation of `Unmarshal` (`Proofs/AcceptShapes`) and what `Marshal` checks
(`marshal_render`, `marshalValue_ok`).
-/

namespace GoCrypt.EndToEnd
open GoCrypt GoCrypt.Scheme GoCrypt.Codec GoCrypt.Codec.Shapes GoCrypt.Guards

/-! ## Generic: what a successful `Marshal` says about one field -/

/-- One written field: its text is the raw text, of the tagged length, over the tagged alphabet. -/
theorem field_text (ti : TypeInfo) (vals : Vals) (s : Bytes) (h : marshal ti vals = .ok s)
    (f : FieldInfo) (hf : f ∈ ti.fields) (he : emitted vals f = true) (v : FVal) (t : Bytes)
    (hv : Codec.fieldVal vals f = v) (hr : marshalRaw f v = .ok t) :
    textOf vals f = t ∧ (f.opts.hasLength = true → t.length = f.opts.length) ∧
      firstInvalid f.opts.enc t = none := by
  obtain ⟨-, -, h3⟩ := marshal_render ti vals s h
  have := h3 f hf he
  rw [hv] at this
  obtain ⟨a, b, c⟩ := marshalValue_ok this
  rw [hr] at a
  cases a
  exact ⟨rfl, b, c⟩

theorem prefix_text (ti : TypeInfo) (vals : Vals) (s : Bytes) (h : marshal ti vals = .ok s)
    (hp : FieldInfo) (hhp : ti.hashPrefix = some hp) (v : FVal) (t : Bytes)
    (hv : Codec.fieldVal vals hp = v) (hr : marshalRaw hp v = .ok t) : textOf vals hp = t := by
  obtain ⟨-, h2, -⟩ := marshal_render ti vals s h
  have := h2 hp hhp
  rw [hv] at this
  obtain ⟨a, -, -⟩ := marshalValue_ok this
  rw [hr] at a
  cases a
  rfl

/-- `check` succeeds as soon as the hash unmarshals to a value whose `checkArgs` are `args`, `Key`
returns `k` on `args`, and the stored digest text is the encoding of `k`. -/
theorem check_of_fields (S : Def) (ti : TypeInfo) (h pw : Bytes) (rand : Nat) (out vals : Vals)
    (args : KeyArgs) (k : Bytes) (hti : tiOf S = some ti) (hu : unmarshal ti h = .ok out)
    (hf : finalVals ti out = vals) (ha : checkArgs S ti vals pw rand = args)
    (hk : key S args = .ok k) (hs : fvBytes (Scheme.fieldVal ti vals "Sum") = S.encodeSum k) :
    check S h pw rand = .nil := by
  refine (C02.check_ok_iff S h pw rand).2 ⟨ti, out, k, hti, hu, ?_, ?_⟩
  · rw [hf, ha]; exact hk
  · rw [hf, hs]

theorem params_of_fields (S : Def) (ti : TypeInfo) (h : Bytes) (out vals : Vals)
    (hti : tiOf S = some ti) (hu : unmarshal ti h = .ok out) (hf : finalVals ti out = vals) :
    params S h = .ok (checkArgs S ti vals [] 0) := by
  simp only [params, hti, hu, hf]

/-- Symbols drawn by `Encoding.Rand` are over the crypt alphabet. -/
theorem randSymbols_overHash (e : Bytes) : OverHash (randSymbols hashAlphabet e) := by
  unfold OverHash
  rw [firstInvalid_none_iff .hash hashAlphabet rfl]
  exact C15.randSymbols_in_alphabet hashAlphabet e (by decide)

theorem over_of_overHash (b : Bytes) (h : OverHash b) : Grammar.over Grammar.A b = true := by
  unfold OverHash at h
  rw [firstInvalid_none_iff .hash hashAlphabet rfl] at h
  simp only [Grammar.over, List.all_eq_true]
  intro c hc
  simpa [Grammar.A] using h c hc

/-! ## `Key` = guards ; derive, read through the declarative bounds of `Spec/Accepts` -/

/-- `Key` returns a key exactly when no clause of the declarative spec is violated and the derivation
(on the arguments the guards hand on) returns it; it returns a typed error exactly when a clause is
violated, and then the first violated clause's error. -/
theorem key_of_guards (S : Def) (spec : Accepts.Spec) (norm : KeyArgs → KeyArgs)
    (hg : ∀ a, S.guards a = outcome (spec.verdict a) (norm a)) (a : KeyArgs) :
    key S a = match spec.verdict a with
      | some e => .err e
      | none => S.derive (norm a) := by
  unfold key
  rw [hg]
  cases spec.verdict a <;> rfl

theorem key_ok_of_guards (S : Def) (spec : Accepts.Spec) (norm : KeyArgs → KeyArgs)
    (hg : ∀ a, S.guards a = outcome (spec.verdict a) (norm a)) (a : KeyArgs) (k : Bytes)
    (h : key S a = .ok k) : (∀ c ∈ spec.clauses, c.violation (spec.defaults a) = none) ∧ S.derive (norm a) = .ok k := by
  rw [key_of_guards S spec norm hg] at h
  cases hv : spec.verdict a with
  | some e => simp [hv] at h
  | none => exact ⟨(C14.verdict_none_iff spec a).1 hv, by simpa [hv] using h⟩

theorem roundsRange_ok {lo hi : Nat} {e : String} {a : KeyArgs}
    (h : (Accepts.Clause.roundsRange lo hi e).violation a = none) : lo ≤ a.rounds ∧ a.rounds ≤ hi := by
  simp only [Accepts.Clause.violation, ite_eq_right_iff, reduceCtorEq, imp_false, not_or, Nat.not_lt, gt_iff_lt] at h
  exact h

theorem roundsMin_ok {lo : Nat} {e : String} {a : KeyArgs}
    (h : (Accepts.Clause.roundsMin lo e).violation a = none) : lo ≤ a.rounds := by
  simpa [Accepts.Clause.violation] using h

theorem roundsMax_ok {hi : Nat} {e : String} {a : KeyArgs}
    (h : (Accepts.Clause.roundsMax hi e).violation a = none) : a.rounds ≤ hi := by
  simpa [Accepts.Clause.violation] using h

theorem memoryMin_ok {lo : Nat} {e : String} {a : KeyArgs}
    (h : (Accepts.Clause.memoryMin lo e).violation a = none) : lo ≤ a.memory := by
  simpa [Accepts.Clause.violation] using h

/-! ## The two result shapes of `NewHash` -/

/-- eight schemes: a `Key` error is returned, a `Marshal` error is an internal error -/
def nhStrict (kr : KeyRes) (m : Bytes → Except MErr Bytes) (used : Nat) : NewHashRes :=
  match kr with
  | .ok k => (match m k with | .ok h => .ok h used | .error _ => .internal "marshal")
  | .err e => .kerr e
  | .internal w => .internal w
  | .panic => .panic

/-- md5 / des: both errors are ignored (zero-filled digest, empty string) -/
def nhLenient (kr : KeyRes) (m : Bytes → Except MErr Bytes) (mz : Except MErr Bytes) (used : Nat) : NewHashRes :=
  match kr with
  | .ok k => (match m k with | .ok h => .ok h used | .error _ => .ok [] used)
  | .err _ => (match mz with | .ok h => .ok h used | .error _ => .ok [] used)
  | .internal w => .internal w
  | .panic => .panic

theorem nhStrict_ok (kr : KeyRes) (m : Bytes → Except MErr Bytes) (used u : Nat) (h : Bytes) :
    nhStrict kr m used = .ok h u ↔ ∃ k, kr = .ok k ∧ m k = .ok h ∧ u = used := by
  unfold nhStrict
  cases kr with
  | ok k =>
    dsimp only
    cases hm : m k with
    | ok h' =>
      simp only [NewHashRes.ok.injEq, KeyRes.ok.injEq]
      constructor
      · rintro ⟨rfl, rfl⟩; exact ⟨k, rfl, hm, rfl⟩
      · rintro ⟨k', rfl, hm', rfl⟩; rw [hm] at hm'; cases hm'; exact ⟨rfl, rfl⟩
    | error e =>
      simp only [KeyRes.ok.injEq, reduceCtorEq, false_iff, not_exists, not_and]
      rintro k' rfl hm'; rw [hm] at hm'; cases hm'
  | err e => simp
  | internal w => simp
  | panic => simp

/-- The lenient shape, when the zero-filled digest is refused by `Marshal` (it always is: NUL is not
a symbol): a non-empty result comes from a successful `Key` and a successful `Marshal`. -/
theorem nhLenient_ok_ne (kr : KeyRes) (m : Bytes → Except MErr Bytes) (mz : Except MErr Bytes)
    (used u : Nat) (h : Bytes) (hz : ∀ s, mz ≠ .ok s) (hne : h ≠ []) :
    nhLenient kr m mz used = .ok h u ↔ ∃ k, kr = .ok k ∧ m k = .ok h ∧ u = used := by
  unfold nhLenient
  cases kr with
  | ok k =>
    dsimp only
    cases hm : m k with
    | ok h' =>
      simp only [NewHashRes.ok.injEq, KeyRes.ok.injEq]
      constructor
      · rintro ⟨rfl, rfl⟩; exact ⟨k, rfl, hm, rfl⟩
      · rintro ⟨k', rfl, hm', rfl⟩; rw [hm] at hm'; cases hm'; exact ⟨rfl, rfl⟩
    | error e =>
      simp only [NewHashRes.ok.injEq, KeyRes.ok.injEq]
      constructor
      · rintro ⟨rfl, -⟩; exact absurd rfl hne
      · rintro ⟨k', rfl, hm', rfl⟩; rw [hm] at hm'; cases hm'
  | err e =>
    cases hm : mz with
    | ok h' => exact absurd hm (hz h')
    | error e' =>
      simp only [NewHashRes.ok.injEq, reduceCtorEq, false_and, exists_false, iff_false, not_and]
      rintro rfl; exact absurd rfl hne
  | internal w => simp
  | panic => simp

/-- … and the empty result: `Key` refused the arguments, or `Marshal` refused the digest. -/
theorem nhLenient_ok_nil (kr : KeyRes) (m : Bytes → Except MErr Bytes) (mz : Except MErr Bytes)
    (used u : Nat) (hz : ∀ s, mz ≠ .ok s) (hm0 : ∀ k, m k ≠ .ok []) :
    nhLenient kr m mz used = .ok [] u ↔
      u = used ∧ ((∃ e, kr = .err e) ∨ ∃ k e, kr = .ok k ∧ m k = .error e) := by
  unfold nhLenient
  cases kr with
  | ok k =>
    dsimp only
    cases hm : m k with
    | ok h' =>
      have : h' ≠ [] := fun hh => hm0 k (hh ▸ hm)
      simp only [NewHashRes.ok.injEq, reduceCtorEq, exists_false, KeyRes.ok.injEq, false_or]
      constructor
      · rintro ⟨hh, -⟩; exact absurd hh this
      · rintro ⟨-, k', e, rfl, hm'⟩; rw [hm] at hm'; cases hm'
    | error e =>
      simp only [NewHashRes.ok.injEq, true_and, reduceCtorEq, exists_false, KeyRes.ok.injEq, false_or]
      constructor
      · rintro rfl; exact ⟨rfl, k, e, rfl, hm⟩
      · rintro ⟨rfl, -⟩; rfl
  | err e =>
    cases hm : mz with
    | ok h' => exact absurd hm (hz h')
    | error e' =>
      simp only [NewHashRes.ok.injEq, true_and, KeyRes.err.injEq, exists_eq', reduceCtorEq, false_and,
        exists_false, or_false, and_true]
      exact eq_comm
  | internal w => simp
  | panic => simp

/-! ## md5 -/

theorem tiOf_md5 : tiOf md5 = some md5TI := by
  simp only [tiOf, md5, ti_md5, Except.toOption]

/-- the salt `md5.NewHash` draws -/
def md5Salt (r : NewHashReq) : Bytes :=
  randSymbols hashAlphabet (r.entropy.take Gen.md5.DefaultSaltLength)
/-- the arguments `md5.NewHash` hands to `Key` -/
def md5Args (r : NewHashReq) : KeyArgs := { password := r.password, salt := md5Salt r }

theorem md5_name : md5.name = "md5" := rfl
theorem md5_saltFromBytes : md5.saltFromBytes = none := rfl
theorem md5_saltSymbols : md5.saltSymbols = Gen.md5.DefaultSaltLength := rfl
theorem md5_encodeSum : md5.encodeSum = leEncode := rfl

theorem mkVals_md5 (p salt sum : Bytes) :
    mkVals md5TI [("HashPrefix", FVal.str p), ("Salt", .bytes salt), ("Sum", .bytes sum)] =
      md5Vals p salt sum := rfl

theorem newHash_md5_eq (r : NewHashReq) :
    newHash md5 r =
      nhLenient (key md5 (md5Args r))
        (fun k => marshal md5TI (md5Vals Gen.md5.Prefix (md5Salt r) (leEncode k)))
        (marshal md5TI (md5Vals Gen.md5.Prefix (md5Salt r) (List.replicate 22 0))) 8 := by
  unfold newHash nhLenient
  rw [tiOf_md5]
  simp [md5_name, md5_saltFromBytes, md5_saltSymbols, md5_encodeSum, md5Args, md5Salt, mkVals_md5,
    Gen.md5.DefaultSaltLength]
  rfl

theorem marshal_md5_inv (p salt sum s : Bytes) (h : marshal md5TI (md5Vals p salt sum) = .ok s) :
    s = p ++ salt ++ [36] ++ sum ∧ OverHash salt ∧ sum.length = 22 ∧ OverHash sum := by
  have hp := prefix_text _ _ _ h md5_HashPrefix rfl (.str p) p rfl rfl
  obtain ⟨a1, -, a3⟩ := field_text _ _ _ h md5_Salt (by simp [md5TI]) rfl (.bytes salt) salt rfl rfl
  obtain ⟨b1, b2, b3⟩ := field_text _ _ _ h md5_Sum (by simp [md5TI]) rfl (.bytes sum) sum rfl rfl
  obtain ⟨h1, -, -⟩ := marshal_render _ _ _ h
  refine ⟨?_, a3, b2 rfl, b3⟩
  rw [h1]
  show textOf _ md5_HashPrefix ++ renderFields _ [md5_Salt, md5_Sum] none = _
  rw [renderFields_cons_emit _ _ _ _ rfl, renderFields_cons_emit _ _ _ _ rfl, renderFields_nil, hp, a1, b1]
  simp [sepOf, namedText, md5_Salt, md5_Sum, Bytes.dollar]

theorem zeros22_not_hash : ¬ OverHash (List.replicate 22 (0 : UInt8)) := by decide

theorem md5_zero_refused (p salt s : Bytes) :
    marshal md5TI (md5Vals p salt (List.replicate 22 0)) ≠ .ok s :=
  fun hm => zeros22_not_hash (marshal_md5_inv _ _ _ _ hm).2.2.2

/-- `md5.NewHash` returned a non-empty string: `Key` succeeded and the string is Marshal's. -/
theorem newHash_md5_inv (r : NewHashReq) (h : Bytes) (used : Nat) (hn : newHash md5 r = .ok h used)
    (hne : h ≠ []) :
    ∃ k, key md5 (md5Args r) = .ok k ∧
      marshal md5TI (md5Vals Gen.md5.Prefix (md5Salt r) (leEncode k)) = .ok h ∧ used = 8 := by
  rw [newHash_md5_eq] at hn
  exact (nhLenient_ok_ne _ _ _ _ _ _ (md5_zero_refused _ _) hne).1 hn

theorem checkArgs_md5 (p salt sum pw : Bytes) (rand : Nat) :
    checkArgs md5 md5TI (md5Vals p salt sum) pw rand = { password := pw, salt := salt } := rfl

theorem sum_md5 (p salt sum : Bytes) :
    fvBytes (Scheme.fieldVal md5TI (md5Vals p salt sum) "Sum") = sum := rfl

/-! ## Marshal only reads the fields of the struct -/

theorem marshalFields_congr (vals vals' : Vals) : ∀ (fields : List FieldInfo) (prev : Option FieldInfo) (buf : Bytes),
    (∀ f ∈ fields, Codec.fieldVal vals f = Codec.fieldVal vals' f) →
    marshalFields vals fields prev buf = marshalFields vals' fields prev buf := by
  intro fields
  induction fields with
  | nil => intro prev buf _; rfl
  | cons fi rest ih =>
    intro prev buf h
    unfold marshalFields
    have h0 : (getVal vals fi.index).getD (zeroOf fi.kind fi.ptrDepth) =
        (getVal vals' fi.index).getD (zeroOf fi.kind fi.ptrDepth) := h fi (by simp)
    rw [h0]
    have ih' := fun prev buf => ih prev buf (fun f hf => h f (by simp [hf]))
    simp only [ih']

/-- `Marshal` reads a struct value only through its fields (absent entries read as zero values). -/
theorem marshal_congr (ti : TypeInfo) (vals vals' : Vals)
    (h : ∀ f ∈ ti.hashPrefix.toList ++ ti.fields, Codec.fieldVal vals f = Codec.fieldVal vals' f) :
    marshal ti vals = marshal ti vals' := by
  unfold marshal
  have hf := fun prev buf => marshalFields_congr vals vals' ti.fields prev buf (fun f hf => h f (by simp [hf]))
  cases hp : ti.hashPrefix with
  | none => simp only [hf]
  | some p =>
    have h0 : (getVal vals p.index).getD (zeroOf p.kind p.ptrDepth) =
        (getVal vals' p.index).getD (zeroOf p.kind p.ptrDepth) := h p (by simp [hp])
    simp only [h0, hf]

/-! ## sha256 -/

theorem tiOf_sha256 : tiOf sha256 = some sha256TI := by
  simp only [tiOf, sha256, ti_sha256, Except.toOption]

def sha256Salt (r : NewHashReq) : Bytes :=
  randSymbols hashAlphabet (r.entropy.take Gen.sha256.DefaultSaltLength)
def sha256Args (r : NewHashReq) : KeyArgs := { password := r.password, salt := sha256Salt r, rounds := r.rounds }

theorem sha256_name : sha256.name = "sha256" := rfl
theorem sha256_saltFromBytes : sha256.saltFromBytes = none := rfl
theorem sha256_saltSymbols : sha256.saltSymbols = Gen.sha256.DefaultSaltLength := rfl
theorem sha256_encodeSum : sha256.encodeSum = leEncode := rfl

theorem mkVals_sha256 (p salt sum : Bytes) (rounds : Nat) :
    marshal sha256TI (mkVals sha256TI [("HashPrefix", FVal.str p), ("Salt", .bytes salt), ("Sum", .bytes sum),
      ("Rounds", .uint rounds)]) = marshal sha256TI (sha256Vals p rounds salt sum) := by
  apply marshal_congr
  intro f hf
  simp only [sha256TI, Option.toList, List.cons_append, List.nil_append, List.mem_cons, List.not_mem_nil, or_false] at hf
  rcases hf with rfl | rfl | rfl | rfl <;> rfl

theorem newHash_sha256_eq (r : NewHashReq) :
    newHash sha256 r =
      nhStrict (key sha256 (sha256Args r))
        (fun k => marshal sha256TI (sha256Vals Gen.sha256.Prefix r.rounds (sha256Salt r) (leEncode k))) 16 := by
  unfold newHash nhStrict
  rw [tiOf_sha256]
  simp [sha256_name, sha256_saltFromBytes, sha256_saltSymbols, sha256_encodeSum, sha256Args, sha256Salt, mkVals_sha256,
    Gen.sha256.DefaultSaltLength]
  rfl

theorem marshal_sha256_inv (p salt sum s : Bytes) (rounds : Nat) (hr : rounds ≠ 0)
    (h : marshal sha256TI (sha256Vals p rounds salt sum) = .ok s) :
    s = p ++ Grammar.kRounds ++ Strconv.formatUint rounds 10 ++ [36] ++ salt ++ [36] ++ sum ∧
      OverHash salt ∧ sum.length = 43 ∧ OverHash sum := by
  have hp := prefix_text _ _ _ h sha256_HashPrefix rfl (.str p) p rfl rfl
  have hem : emitted (sha256Vals p rounds salt sum) sha256_Rounds = true := by
    simp [emitted, Codec.fieldVal, sha256Vals, getVal, sha256_Rounds, isEmptyVal, hr]
  obtain ⟨r1, -, -⟩ := field_text _ _ _ h sha256_Rounds (by simp [sha256TI]) hem (.uint rounds)
    (Strconv.formatUint rounds 10) rfl rfl
  obtain ⟨a1, -, a3⟩ := field_text _ _ _ h sha256_Salt (by simp [sha256TI]) rfl (.bytes salt) salt rfl rfl
  obtain ⟨b1, b2, b3⟩ := field_text _ _ _ h sha256_Sum (by simp [sha256TI]) rfl (.bytes sum) sum rfl rfl
  obtain ⟨h1, -, -⟩ := marshal_render _ _ _ h
  refine ⟨?_, a3, b2 rfl, b3⟩
  rw [h1]
  show textOf _ sha256_HashPrefix ++ renderFields _ [sha256_Rounds, sha256_Salt, sha256_Sum] none = _
  rw [renderFields_cons_emit _ _ _ _ hem, renderFields_cons_emit _ _ _ _ rfl, renderFields_cons_emit _ _ _ _ rfl,
    renderFields_nil, hp, r1, a1, b1]
  simp [sepOf, namedText, sha256_Rounds, sha256_Salt, sha256_Sum, Bytes.dollar, Bytes.equals, Grammar.kRounds]

theorem sha256_guards' (a : KeyArgs) : sha256.guards a = outcome (Accepts.sha256.verdict a) a := sha256_guards a

/-- `sha256.Key` succeeded: the round count is within the exported bounds. -/
theorem key_sha256_rounds (a : KeyArgs) (k : Bytes) (h : key sha256 a = .ok k) :
    Gen.sha256.MinRounds ≤ a.rounds ∧ a.rounds ≤ Gen.sha256.MaxRounds := by
  obtain ⟨hc, -⟩ := key_ok_of_guards sha256 Accepts.sha256 id sha256_guards' a k h
  have := hc (.roundsRange Gen.sha256.MinRounds Gen.sha256.MaxRounds "InvalidRoundsError") (by simp [Accepts.sha256])
  exact roundsRange_ok (a := a) this

theorem newHash_sha256_inv (r : NewHashReq) (h : Bytes) (used : Nat) (hn : newHash sha256 r = .ok h used) :
    ∃ k, key sha256 (sha256Args r) = .ok k ∧
      marshal sha256TI (sha256Vals Gen.sha256.Prefix r.rounds (sha256Salt r) (leEncode k)) = .ok h ∧ used = 16 := by
  rw [newHash_sha256_eq] at hn
  exact (nhStrict_ok _ _ _ _ _).1 hn

theorem checkArgs_sha256 (p salt sum pw : Bytes) (rounds rand : Nat) (hr : rounds ≠ 0) :
    checkArgs sha256 sha256TI (sha256Vals p rounds salt sum) pw rand =
      { password := pw, salt := salt, rounds := rounds } := by
  show ({ password := pw, salt := salt, rounds := if rounds = 0 then Gen.sha256.ImplicitRounds else rounds } : KeyArgs) = _
  rw [if_neg hr]

theorem sum_sha256 (p salt sum : Bytes) (rounds : Nat) :
    fvBytes (Scheme.fieldVal sha256TI (sha256Vals p rounds salt sum) "Sum") = sum := rfl

/-! ## sha512 -/

theorem tiOf_sha512 : tiOf sha512 = some sha512TI := by
  simp only [tiOf, sha512, ti_sha512, Except.toOption]

def sha512Salt (r : NewHashReq) : Bytes :=
  randSymbols hashAlphabet (r.entropy.take Gen.sha512.DefaultSaltLength)
def sha512Args (r : NewHashReq) : KeyArgs := { password := r.password, salt := sha512Salt r, rounds := r.rounds }

theorem sha512_name : sha512.name = "sha512" := rfl
theorem sha512_saltFromBytes : sha512.saltFromBytes = none := rfl
theorem sha512_saltSymbols : sha512.saltSymbols = Gen.sha512.DefaultSaltLength := rfl
theorem sha512_encodeSum : sha512.encodeSum = leEncode := rfl

theorem mkVals_sha512 (p salt sum : Bytes) (rounds : Nat) :
    marshal sha512TI (mkVals sha512TI [("HashPrefix", FVal.str p), ("Salt", .bytes salt), ("Sum", .bytes sum),
      ("Rounds", .uint rounds)]) = marshal sha512TI (sha512Vals p rounds salt sum) := by
  apply marshal_congr
  intro f hf
  simp only [sha512TI, Option.toList, List.cons_append, List.nil_append, List.mem_cons, List.not_mem_nil, or_false] at hf
  rcases hf with rfl | rfl | rfl | rfl <;> rfl

theorem newHash_sha512_eq (r : NewHashReq) :
    newHash sha512 r =
      nhStrict (key sha512 (sha512Args r))
        (fun k => marshal sha512TI (sha512Vals Gen.sha512.Prefix r.rounds (sha512Salt r) (leEncode k))) 16 := by
  unfold newHash nhStrict
  rw [tiOf_sha512]
  simp [sha512_name, sha512_saltFromBytes, sha512_saltSymbols, sha512_encodeSum, sha512Args, sha512Salt, mkVals_sha512,
    Gen.sha512.DefaultSaltLength]
  rfl

theorem marshal_sha512_inv (p salt sum s : Bytes) (rounds : Nat) (hr : rounds ≠ 0)
    (h : marshal sha512TI (sha512Vals p rounds salt sum) = .ok s) :
    s = p ++ Grammar.kRounds ++ Strconv.formatUint rounds 10 ++ [36] ++ salt ++ [36] ++ sum ∧
      OverHash salt ∧ sum.length = 86 ∧ OverHash sum := by
  have hp := prefix_text _ _ _ h sha512_HashPrefix rfl (.str p) p rfl rfl
  have hem : emitted (sha512Vals p rounds salt sum) sha512_Rounds = true := by
    simp [emitted, Codec.fieldVal, sha512Vals, getVal, sha512_Rounds, isEmptyVal, hr]
  obtain ⟨r1, -, -⟩ := field_text _ _ _ h sha512_Rounds (by simp [sha512TI]) hem (.uint rounds)
    (Strconv.formatUint rounds 10) rfl rfl
  obtain ⟨a1, -, a3⟩ := field_text _ _ _ h sha512_Salt (by simp [sha512TI]) rfl (.bytes salt) salt rfl rfl
  obtain ⟨b1, b2, b3⟩ := field_text _ _ _ h sha512_Sum (by simp [sha512TI]) rfl (.bytes sum) sum rfl rfl
  obtain ⟨h1, -, -⟩ := marshal_render _ _ _ h
  refine ⟨?_, a3, b2 rfl, b3⟩
  rw [h1]
  show textOf _ sha512_HashPrefix ++ renderFields _ [sha512_Rounds, sha512_Salt, sha512_Sum] none = _
  rw [renderFields_cons_emit _ _ _ _ hem, renderFields_cons_emit _ _ _ _ rfl, renderFields_cons_emit _ _ _ _ rfl,
    renderFields_nil, hp, r1, a1, b1]
  simp [sepOf, namedText, sha512_Rounds, sha512_Salt, sha512_Sum, Bytes.dollar, Bytes.equals, Grammar.kRounds]

theorem sha512_guards' (a : KeyArgs) : sha512.guards a = outcome (Accepts.sha512.verdict a) a := sha512_guards a

/-- `sha512.Key` succeeded: the round count is within the exported bounds. -/
theorem key_sha512_rounds (a : KeyArgs) (k : Bytes) (h : key sha512 a = .ok k) :
    Gen.sha512.MinRounds ≤ a.rounds ∧ a.rounds ≤ Gen.sha512.MaxRounds := by
  obtain ⟨hc, -⟩ := key_ok_of_guards sha512 Accepts.sha512 id sha512_guards' a k h
  have := hc (.roundsRange Gen.sha512.MinRounds Gen.sha512.MaxRounds "InvalidRoundsError") (by simp [Accepts.sha512])
  exact roundsRange_ok (a := a) this

theorem newHash_sha512_inv (r : NewHashReq) (h : Bytes) (used : Nat) (hn : newHash sha512 r = .ok h used) :
    ∃ k, key sha512 (sha512Args r) = .ok k ∧
      marshal sha512TI (sha512Vals Gen.sha512.Prefix r.rounds (sha512Salt r) (leEncode k)) = .ok h ∧ used = 16 := by
  rw [newHash_sha512_eq] at hn
  exact (nhStrict_ok _ _ _ _ _).1 hn

theorem checkArgs_sha512 (p salt sum pw : Bytes) (rounds rand : Nat) (hr : rounds ≠ 0) :
    checkArgs sha512 sha512TI (sha512Vals p rounds salt sum) pw rand =
      { password := pw, salt := salt, rounds := rounds } := by
  show ({ password := pw, salt := salt, rounds := if rounds = 0 then Gen.sha256.ImplicitRounds else rounds } : KeyArgs) = _
  rw [if_neg hr]

theorem sum_sha512 (p salt sum : Bytes) (rounds : Nat) :
    fvBytes (Scheme.fieldVal sha512TI (sha512Vals p rounds salt sum) "Sum") = sum := rfl

/-! ## sha1 -/

theorem tiOf_sha1 : tiOf sha1 = some sha1TI := by
  simp only [tiOf, sha1, ti_sha1, Except.toOption]

/-- the 32-bit big-endian word `randRounds` reads from the first four entropy bytes -/
def sha1Word (r : NewHashReq) : Nat := (r.entropy.take 4).foldl (fun acc b => acc * 256 + b.toNat) 0
/-- the round count `sha1.NewHash` uses: the requested one, or the drawn one for `RandomRounds` -/
def sha1Rounds (r : NewHashReq) : Nat :=
  if r.rounds = Gen.sha1.RandomRounds then Gen.sha1.randRounds (sha1Word r) else r.rounds
/-- the entropy left for the salt -/
def sha1Ent (r : NewHashReq) : Bytes := if r.rounds = Gen.sha1.RandomRounds then r.entropy.drop 4 else r.entropy
def sha1Used (r : NewHashReq) : Nat := if r.rounds = Gen.sha1.RandomRounds then 12 else 8
def sha1Salt (r : NewHashReq) : Bytes :=
  randSymbols hashAlphabet ((sha1Ent r).take Gen.sha1.DefaultSaltLength)
def sha1Args (r : NewHashReq) : KeyArgs := { password := r.password, salt := sha1Salt r, rounds := sha1Rounds r }

theorem sha1_name : sha1.name = "sha1" := rfl
theorem sha1_saltFromBytes : sha1.saltFromBytes = none := rfl
theorem sha1_saltSymbols : sha1.saltSymbols = Gen.sha1.DefaultSaltLength := rfl
theorem sha1_encodeSum : sha1.encodeSum = leEncode := rfl

theorem mkVals_sha1 (p salt sum : Bytes) (rounds : Nat) :
    marshal sha1TI (mkVals sha1TI [("HashPrefix", FVal.str p), ("Salt", .bytes salt), ("Sum", .bytes sum),
      ("Rounds", .uint rounds)]) = marshal sha1TI (sha1Vals p rounds salt sum) := by
  apply marshal_congr
  intro f hf
  simp only [sha1TI, Option.toList, List.cons_append, List.nil_append, List.mem_cons, List.not_mem_nil, or_false] at hf
  rcases hf with rfl | rfl | rfl | rfl <;> rfl

theorem newHash_sha1_eq (r : NewHashReq) :
    newHash sha1 r =
      nhStrict (key sha1 (sha1Args r))
        (fun k => marshal sha1TI (sha1Vals Gen.sha1.Prefix (sha1Rounds r) (sha1Salt r) (leEncode k))) (sha1Used r) := by
  unfold newHash nhStrict
  rw [tiOf_sha1]
  by_cases hr : r.rounds = Gen.sha1.RandomRounds
  · simp [sha1_name, sha1_saltFromBytes, sha1_saltSymbols, sha1_encodeSum, sha1Args, sha1Salt, mkVals_sha1,
      Gen.sha1.DefaultSaltLength, sha1Rounds, sha1Ent, sha1Used, sha1Word, hr]
    rfl
  · simp [sha1_name, sha1_saltFromBytes, sha1_saltSymbols, sha1_encodeSum, sha1Args, sha1Salt, mkVals_sha1,
      Gen.sha1.DefaultSaltLength, sha1Rounds, sha1Ent, sha1Used, hr]
    rfl

theorem marshal_sha1_inv (p salt sum s : Bytes) (rounds : Nat)
    (h : marshal sha1TI (sha1Vals p rounds salt sum) = .ok s) :
    s = p ++ Strconv.formatUint rounds 10 ++ [36] ++ salt ++ [36] ++ sum ∧
      OverHash salt ∧ sum.length = 28 ∧ OverHash sum := by
  have hp := prefix_text _ _ _ h sha1_HashPrefix rfl (.str p) p rfl rfl
  obtain ⟨r1, -, -⟩ := field_text _ _ _ h sha1_Rounds (by simp [sha1TI]) rfl (.uint rounds)
    (Strconv.formatUint rounds 10) rfl rfl
  obtain ⟨a1, -, a3⟩ := field_text _ _ _ h sha1_Salt (by simp [sha1TI]) rfl (.bytes salt) salt rfl rfl
  obtain ⟨b1, b2, b3⟩ := field_text _ _ _ h sha1_Sum (by simp [sha1TI]) rfl (.bytes sum) sum rfl rfl
  obtain ⟨h1, -, -⟩ := marshal_render _ _ _ h
  refine ⟨?_, a3, b2 rfl, b3⟩
  rw [h1]
  show textOf _ sha1_HashPrefix ++ renderFields _ [sha1_Rounds, sha1_Salt, sha1_Sum] none = _
  rw [renderFields_cons_emit _ _ _ _ rfl, renderFields_cons_emit _ _ _ _ rfl, renderFields_cons_emit _ _ _ _ rfl,
    renderFields_nil, hp, r1, a1, b1]
  simp [sepOf, namedText, sha1_Rounds, sha1_Salt, sha1_Sum, Bytes.dollar]

theorem sha1_guards' (a : KeyArgs) :
    sha1.guards a = outcome (Accepts.sha1.verdict a) (Accepts.sha1.defaults a) := sha1_guards a

/-- `sha1.NewHash` never hands the `RandomRounds` request on to `Key`: it draws the count itself. -/
theorem sha1Rounds_ne_random (r : NewHashReq) : sha1Rounds r ≠ Gen.sha1.RandomRounds := by
  unfold sha1Rounds
  by_cases hr : r.rounds = Gen.sha1.RandomRounds
  · rw [if_pos hr, randRounds_eq]; unfold Gen.sha1.RandomRounds; omega
  · rw [if_neg hr]; exact hr

theorem sha1Rounds_lt (r : NewHashReq) (hr : r.rounds < 2 ^ 32) : sha1Rounds r < 2 ^ 32 := by
  unfold sha1Rounds
  by_cases h : r.rounds = Gen.sha1.RandomRounds
  · rw [if_pos h, randRounds_eq]; omega
  · rw [if_neg h]; exact hr

/-- `sha1.Key` reads the random word only for the `RandomRounds` request. -/
theorem key_sha1_rand (a : KeyArgs) (x : Nat) (h : a.rounds ≠ Gen.sha1.RandomRounds) :
    key sha1 { a with rand := x } = key sha1 a := by
  rw [key_of_guards sha1 Accepts.sha1 _ sha1_guards', key_of_guards sha1 Accepts.sha1 _ sha1_guards']
  unfold Accepts.Spec.verdict
  rw [sha1_defaults_other a h, sha1_defaults_other { a with rand := x } h]
  rfl

theorem newHash_sha1_inv (r : NewHashReq) (h : Bytes) (used : Nat) (hn : newHash sha1 r = .ok h used) :
    ∃ k, key sha1 (sha1Args r) = .ok k ∧
      marshal sha1TI (sha1Vals Gen.sha1.Prefix (sha1Rounds r) (sha1Salt r) (leEncode k)) = .ok h ∧
      used = sha1Used r := by
  rw [newHash_sha1_eq] at hn
  exact (nhStrict_ok _ _ _ _ _).1 hn

theorem checkArgs_sha1 (p salt sum pw : Bytes) (rounds rand : Nat) :
    checkArgs sha1 sha1TI (sha1Vals p rounds salt sum) pw rand =
      { password := pw, salt := salt, rounds := rounds, rand := rand } := rfl

theorem sum_sha1 (p salt sum : Bytes) (rounds : Nat) :
    fvBytes (Scheme.fieldVal sha1TI (sha1Vals p rounds salt sum) "Sum") = sum := rfl

/-! ## nthash -/

theorem tiOf_nthash : tiOf nthash = some nthashTI := by
  simp only [tiOf, nthash, ti_nthash, Except.toOption]

def nthashArgs (r : NewHashReq) : KeyArgs := { password := Kdf.utf16le r.password }

theorem nthash_name : nthash.name = "nthash" := rfl
theorem nthash_saltFromBytes : nthash.saltFromBytes = none := rfl
theorem nthash_saltSymbols : nthash.saltSymbols = 0 := rfl
theorem nthash_encodeSum : nthash.encodeSum = Kdf.hexLower := rfl

/-- `NewHash` sets no `Empty` field: Marshal reads the zero value of `[0]byte`. -/
theorem mkVals_nthash (p salt sum : Bytes) :
    marshal nthashTI (mkVals nthashTI [("HashPrefix", FVal.str p), ("Salt", .bytes salt), ("Sum", .bytes sum)]) =
      marshal nthashTI (nthashVals p [] sum) := by
  apply marshal_congr
  intro f hf
  simp only [nthashTI, Option.toList, List.cons_append, List.nil_append, List.mem_cons, List.not_mem_nil, or_false] at hf
  rcases hf with rfl | rfl | rfl <;> rfl

theorem newHash_nthash_eq (r : NewHashReq) :
    newHash nthash r =
      nhStrict (key nthash (nthashArgs r))
        (fun k => marshal nthashTI (nthashVals Gen.nthash.Prefix [] (Kdf.hexLower k))) 0 := by
  unfold newHash nhStrict
  rw [tiOf_nthash]
  simp [nthash_name, nthash_saltFromBytes, nthash_saltSymbols, nthash_encodeSum, nthashArgs, mkVals_nthash]
  rfl

theorem marshal_nthash_inv (p sum s : Bytes) (h : marshal nthashTI (nthashVals p [] sum) = .ok s) :
    s = p ++ [36] ++ sum ∧ sum.length = 32 ∧ OverHash sum := by
  have hp := prefix_text _ _ _ h nthash_HashPrefix rfl (.str p) p rfl rfl
  obtain ⟨a1, -, -⟩ := field_text _ _ _ h nthash_Empty (by simp [nthashTI]) rfl (.bytes []) [] rfl rfl
  obtain ⟨b1, b2, b3⟩ := field_text _ _ _ h nthash_Sum (by simp [nthashTI]) rfl (.bytes sum) sum rfl rfl
  obtain ⟨h1, -, -⟩ := marshal_render _ _ _ h
  refine ⟨?_, b2 rfl, b3⟩
  rw [h1]
  show textOf _ nthash_HashPrefix ++ renderFields _ [nthash_Empty, nthash_Sum] none = _
  rw [renderFields_cons_emit _ _ _ _ rfl, renderFields_cons_emit _ _ _ _ rfl, renderFields_nil, hp, a1, b1]
  simp [sepOf, namedText, nthash_Empty, nthash_Sum, Bytes.dollar]

theorem newHash_nthash_inv (r : NewHashReq) (h : Bytes) (used : Nat) (hn : newHash nthash r = .ok h used) :
    ∃ k, key nthash (nthashArgs r) = .ok k ∧
      marshal nthashTI (nthashVals Gen.nthash.Prefix [] (Kdf.hexLower k)) = .ok h ∧ used = 0 := by
  rw [newHash_nthash_eq] at hn
  exact (nhStrict_ok _ _ _ _ _).1 hn

theorem checkArgs_nthash (p e sum pw : Bytes) (rand : Nat) :
    checkArgs nthash nthashTI (nthashVals p e sum) pw rand = { password := Kdf.utf16le pw } := rfl

theorem sum_nthash (p e sum : Bytes) :
    fvBytes (Scheme.fieldVal nthashTI (nthashVals p e sum) "Sum") = sum := rfl

/-! ## des -/

theorem tiOf_des : tiOf des = some desTI := by
  simp only [tiOf, des, ti_des, Except.toOption]

def desSalt (r : NewHashReq) : Bytes := randSymbols hashAlphabet (r.entropy.take Gen.des.SaltLength)
def desArgs (r : NewHashReq) : KeyArgs := { password := r.password, salt := desSalt r }

theorem des_name : des.name = "des" := rfl
theorem des_saltFromBytes : des.saltFromBytes = none := rfl
theorem des_saltSymbols : des.saltSymbols = Gen.des.SaltLength := rfl
theorem des_encodeSum : des.encodeSum = beEncode := rfl

theorem mkVals_des (p salt sum : Bytes) :
    mkVals desTI [("HashPrefix", FVal.str p), ("Salt", .bytes salt), ("Sum", .bytes sum)] = desVals p salt sum := rfl

theorem newHash_des_eq (r : NewHashReq) :
    newHash des r =
      nhLenient (key des (desArgs r))
        (fun k => marshal desTI (desVals Gen.des.Prefix (desSalt r) (beEncode k)))
        (marshal desTI (desVals Gen.des.Prefix (desSalt r) (List.replicate 11 0))) 2 := by
  unfold newHash nhLenient
  rw [tiOf_des]
  simp [des_name, des_saltFromBytes, des_saltSymbols, des_encodeSum, desArgs, desSalt, mkVals_des, Gen.des.SaltLength]
  rfl

theorem marshal_des_inv (p salt sum s : Bytes) (h : marshal desTI (desVals p salt sum) = .ok s) :
    s = p ++ salt ++ sum ∧ salt.length = 2 ∧ OverHash salt ∧ sum.length = 11 ∧ OverHash sum := by
  have hp := prefix_text _ _ _ h des_HashPrefix rfl (.str p) p rfl rfl
  obtain ⟨a1, a2, a3⟩ := field_text _ _ _ h des_Salt (by simp [desTI]) rfl (.bytes salt) salt rfl rfl
  obtain ⟨b1, b2, b3⟩ := field_text _ _ _ h des_Sum (by simp [desTI]) rfl (.bytes sum) sum rfl rfl
  obtain ⟨h1, -, -⟩ := marshal_render _ _ _ h
  refine ⟨?_, a2 rfl, a3, b2 rfl, b3⟩
  rw [h1]
  show textOf _ des_HashPrefix ++ renderFields _ [des_Salt, des_Sum] none = _
  rw [renderFields_cons_emit _ _ _ _ rfl, renderFields_cons_emit _ _ _ _ rfl, renderFields_nil, hp, a1, b1]
  simp [sepOf, namedText, des_Salt, des_Sum]

theorem zeros11_not_hash : ¬ OverHash (List.replicate 11 (0 : UInt8)) := by decide

theorem des_zero_refused (p salt s : Bytes) :
    marshal desTI (desVals p salt (List.replicate 11 0)) ≠ .ok s :=
  fun hm => zeros11_not_hash (marshal_des_inv _ _ _ _ hm).2.2.2.2

theorem newHash_des_inv (r : NewHashReq) (h : Bytes) (used : Nat) (hn : newHash des r = .ok h used)
    (hne : h ≠ []) :
    ∃ k, key des (desArgs r) = .ok k ∧
      marshal desTI (desVals Gen.des.Prefix (desSalt r) (beEncode k)) = .ok h ∧ used = 2 := by
  rw [newHash_des_eq] at hn
  exact (nhLenient_ok_ne _ _ _ _ _ _ (des_zero_refused _ _) hne).1 hn

theorem checkArgs_des (p salt sum pw : Bytes) (rand : Nat) :
    checkArgs des desTI (desVals p salt sum) pw rand = { password := pw, salt := salt } := rfl

theorem sum_des (p salt sum : Bytes) :
    fvBytes (Scheme.fieldVal desTI (desVals p salt sum) "Sum") = sum := rfl

/-! ## desext -/

theorem tiOf_desext : tiOf desext = some desextTI := by
  simp only [tiOf, desext, ti_desext, Except.toOption]

def desextSalt (r : NewHashReq) : Bytes := randSymbols hashAlphabet (r.entropy.take Gen.desext.SaltLength)
def desextArgs (r : NewHashReq) : KeyArgs := { password := r.password, salt := desextSalt r, rounds := r.rounds }

theorem desext_name : desext.name = "desext" := rfl
theorem desext_saltFromBytes : desext.saltFromBytes = none := rfl
theorem desext_saltSymbols : desext.saltSymbols = Gen.desext.SaltLength := rfl
theorem desext_encodeSum : desext.encodeSum = beEncode := rfl

theorem mkVals_desext (p salt sum : Bytes) (rounds : Nat) :
    marshal desextTI (mkVals desextTI [("HashPrefix", FVal.str p), ("Salt", .bytes salt), ("Sum", .bytes sum),
      ("Rounds", .uint rounds)]) = marshal desextTI (desextVals p rounds salt sum) := by
  apply marshal_congr
  intro f hf
  simp only [desextTI, Option.toList, List.cons_append, List.nil_append, List.mem_cons, List.not_mem_nil, or_false] at hf
  rcases hf with rfl | rfl | rfl | rfl <;> rfl

theorem newHash_desext_eq (r : NewHashReq) :
    newHash desext r =
      nhStrict (key desext (desextArgs r))
        (fun k => marshal desextTI (desextVals Gen.desext.Prefix r.rounds (desextSalt r) (beEncode k))) 4 := by
  unfold newHash nhStrict
  rw [tiOf_desext]
  simp [desext_name, desext_saltFromBytes, desext_saltSymbols, desext_encodeSum, desextArgs, desextSalt,
    mkVals_desext, Gen.desext.SaltLength]
  rfl

theorem marshal_desext_inv (p salt sum s : Bytes) (rounds : Nat)
    (h : marshal desextTI (desextVals p rounds salt sum) = .ok s) :
    s = p ++ desEncodeInt (rounds % 4294967296) ++ salt ++ sum ∧ salt.length = 4 ∧ OverHash salt ∧
      sum.length = 11 ∧ OverHash sum := by
  have hp := prefix_text _ _ _ h desext_HashPrefix rfl (.str p) p rfl rfl
  obtain ⟨r1, -, -⟩ := field_text _ _ _ h desext_Rounds (by simp [desextTI]) rfl (.uint rounds)
    (desEncodeInt (rounds % 4294967296)) rfl rfl
  obtain ⟨a1, a2, a3⟩ := field_text _ _ _ h desext_Salt (by simp [desextTI]) rfl (.bytes salt) salt rfl rfl
  obtain ⟨b1, b2, b3⟩ := field_text _ _ _ h desext_Sum (by simp [desextTI]) rfl (.bytes sum) sum rfl rfl
  obtain ⟨h1, -, -⟩ := marshal_render _ _ _ h
  refine ⟨?_, a2 rfl, a3, b2 rfl, b3⟩
  rw [h1]
  show textOf _ desext_HashPrefix ++ renderFields _ [desext_Rounds, desext_Salt, desext_Sum] none = _
  rw [renderFields_cons_emit _ _ _ _ rfl, renderFields_cons_emit _ _ _ _ rfl, renderFields_cons_emit _ _ _ _ rfl,
    renderFields_nil, hp, r1, a1, b1]
  simp [sepOf, namedText, desext_Rounds, desext_Salt, desext_Sum]

theorem desext_guards' (a : KeyArgs) : desext.guards a = outcome (Accepts.desext.verdict a) a := desext_guards a

theorem key_desext_rounds (a : KeyArgs) (k : Bytes) (h : key desext a = .ok k) :
    Gen.desext.MinRounds ≤ a.rounds ∧ a.rounds ≤ Gen.desext.MaxRounds := by
  obtain ⟨hc, -⟩ := key_ok_of_guards desext Accepts.desext id desext_guards' a k h
  have := hc (.roundsRange Gen.desext.MinRounds Gen.desext.MaxRounds "InvalidRoundsError") (by simp [Accepts.desext])
  exact roundsRange_ok (a := a) this

theorem newHash_desext_inv (r : NewHashReq) (h : Bytes) (used : Nat) (hn : newHash desext r = .ok h used) :
    ∃ k, key desext (desextArgs r) = .ok k ∧
      marshal desextTI (desextVals Gen.desext.Prefix r.rounds (desextSalt r) (beEncode k)) = .ok h ∧ used = 4 := by
  rw [newHash_desext_eq] at hn
  exact (nhStrict_ok _ _ _ _ _).1 hn

theorem checkArgs_desext (p salt sum pw : Bytes) (rounds rand : Nat) :
    checkArgs desext desextTI (desextVals p rounds salt sum) pw rand =
      { password := pw, salt := salt, rounds := rounds } := rfl

theorem sum_desext (p salt sum : Bytes) (rounds : Nat) :
    fvBytes (Scheme.fieldVal desextTI (desextVals p rounds salt sum) "Sum") = sum := rfl

/-! ## bcrypt -/

theorem tiOf_bcrypt : tiOf bcrypt = some bcryptTI := by
  simp only [tiOf, bcrypt, ti_bcrypt, Except.toOption]

/-- the salt text `bcrypt.NewHash` writes: bcrypt-base64 of 16 entropy bytes -/
def bcryptSalt (r : NewHashReq) : Bytes := Kdf.stdEncode bcryptAlphabet (r.entropy.take 16)
def bcryptArgs (r : NewHashReq) : KeyArgs :=
  { password := r.password, salt := bcryptSalt r, rounds := r.rounds, optsNil := false, optPrefix := Gen.bcrypt.Prefix2b }

theorem bcrypt_name : bcrypt.name = "bcrypt" := rfl
theorem bcrypt_saltFromBytes : bcrypt.saltFromBytes = some 16 := rfl
theorem bcrypt_saltAlphabet : bcrypt.saltAlphabet = bcryptAlphabet := rfl
theorem bcrypt_encodeSum : bcrypt.encodeSum = Kdf.stdEncode bcryptAlphabet := rfl

theorem mkVals_bcrypt (p salt sum : Bytes) (cost : Nat) :
    marshal bcryptTI (mkVals bcryptTI [("HashPrefix", FVal.str p), ("Salt", .bytes salt), ("Sum", .bytes sum),
      ("Cost", .uint cost)]) = marshal bcryptTI (bcryptVals p cost salt sum) := by
  apply marshal_congr
  intro f hf
  simp only [bcryptTI, Option.toList, List.cons_append, List.nil_append, List.mem_cons, List.not_mem_nil, or_false] at hf
  rcases hf with rfl | rfl | rfl | rfl <;> rfl

theorem newHash_bcrypt_eq (r : NewHashReq) :
    newHash bcrypt r =
      nhStrict (key bcrypt (bcryptArgs r))
        (fun k => marshal bcryptTI (bcryptVals Gen.bcrypt.Prefix2b r.rounds (bcryptSalt r)
          (Kdf.stdEncode bcryptAlphabet k))) 16 := by
  unfold newHash nhStrict
  rw [tiOf_bcrypt]
  simp [bcrypt_name, bcrypt_saltFromBytes, bcrypt_saltAlphabet, bcrypt_encodeSum, bcryptArgs, bcryptSalt, mkVals_bcrypt]
  rfl

theorem marshal_bcrypt_inv (p salt sum s : Bytes) (cost : Nat)
    (h : marshal bcryptTI (bcryptVals p cost salt sum) = .ok s) :
    s = p ++ twoDigit cost ++ [36] ++ salt ++ sum ∧ salt.length = 22 ∧ OverHash salt ∧
      sum.length = 31 ∧ OverHash sum := by
  have hp := prefix_text _ _ _ h bcrypt_HashPrefix rfl (.str p) p rfl rfl
  obtain ⟨r1, -, -⟩ := field_text _ _ _ h bcrypt_Cost (by simp [bcryptTI]) rfl (.uint cost) (twoDigit cost) rfl rfl
  obtain ⟨a1, a2, a3⟩ := field_text _ _ _ h bcrypt_Salt (by simp [bcryptTI]) rfl (.bytes salt) salt rfl rfl
  obtain ⟨b1, b2, b3⟩ := field_text _ _ _ h bcrypt_Sum (by simp [bcryptTI]) rfl (.bytes sum) sum rfl rfl
  obtain ⟨h1, -, -⟩ := marshal_render _ _ _ h
  refine ⟨?_, a2 rfl, a3, b2 rfl, b3⟩
  rw [h1]
  show textOf _ bcrypt_HashPrefix ++ renderFields _ [bcrypt_Cost, bcrypt_Salt, bcrypt_Sum] none = _
  rw [renderFields_cons_emit _ _ _ _ rfl, renderFields_cons_emit _ _ _ _ rfl, renderFields_cons_emit _ _ _ _ rfl,
    renderFields_nil, hp, r1, a1, b1]
  simp [sepOf, namedText, bcrypt_Cost, bcrypt_Salt, bcrypt_Sum, Bytes.dollar]

theorem bcrypt_guards' (a : KeyArgs) : bcrypt.guards a = outcome (Accepts.bcrypt.verdict a)
    { Accepts.bcrypt.defaults a with
      password := bcryptPassword (Accepts.bcrypt.defaults a).optPrefix a.password } := bcrypt_guards a

/-- `bcrypt.Key` succeeded (with explicit options): the cost is within the exported bounds. -/
theorem key_bcrypt_cost (a : KeyArgs) (k : Bytes) (ho : a.optsNil = false) (h : key bcrypt a = .ok k) :
    Gen.bcrypt.MinCost ≤ a.rounds ∧ a.rounds ≤ Gen.bcrypt.MaxCost := by
  obtain ⟨hc, -⟩ := key_ok_of_guards bcrypt Accepts.bcrypt _ bcrypt_guards' a k h
  have := hc (.roundsRange Gen.bcrypt.MinCost Gen.bcrypt.MaxCost "InvalidCostError") (by simp [Accepts.bcrypt])
  have hd : Accepts.bcrypt.defaults a = a := by simp [Accepts.bcrypt, ho]
  rw [hd] at this
  exact roundsRange_ok this

theorem newHash_bcrypt_inv (r : NewHashReq) (h : Bytes) (used : Nat) (hn : newHash bcrypt r = .ok h used) :
    ∃ k, key bcrypt (bcryptArgs r) = .ok k ∧
      marshal bcryptTI (bcryptVals Gen.bcrypt.Prefix2b r.rounds (bcryptSalt r) (Kdf.stdEncode bcryptAlphabet k)) = .ok h ∧
      used = 16 := by
  rw [newHash_bcrypt_eq] at hn
  exact (nhStrict_ok _ _ _ _ _).1 hn

theorem checkArgs_bcrypt (p salt sum pw : Bytes) (cost rand : Nat) (hc : cost < 256) :
    checkArgs bcrypt bcryptTI (bcryptVals p cost salt sum) pw rand =
      { password := pw, salt := salt, rounds := cost, optsNil := false, optPrefix := p } := by
  show ({ password := pw, salt := salt, rounds := cost % 256, optsNil := false, optPrefix := p } : KeyArgs) = _
  rw [Nat.mod_eq_of_lt hc]

theorem sum_bcrypt (p salt sum : Bytes) (cost : Nat) :
    fvBytes (Scheme.fieldVal bcryptTI (bcryptVals p cost salt sum) "Sum") = sum := rfl

/-! ## sunmd5 -/

theorem tiOf_sunmd5 : tiOf sunmd5 = some sunmd5TI := by
  simp only [tiOf, sunmd5, ti_sunmd5, Except.toOption]

def sunmd5Salt (r : NewHashReq) : Bytes :=
  randSymbols hashAlphabet (r.entropy.take Gen.sunmd5.DefaultSaltLength)
/-- `$md5$` for zero rounds, `$md5,` otherwise -/
def sunmd5Prefix (r : NewHashReq) : Bytes :=
  if r.rounds = 0 then Gen.sunmd5.PrefixZeroRounds else Gen.sunmd5.PrefixNonZeroRounds
/-- the `Separator` field: nil for zero rounds, a pointer to the empty string otherwise -/
def sunmd5Sep (r : NewHashReq) : FVal := if r.rounds = 0 then FVal.nilPtr else FVal.str []
def sunmd5Args (r : NewHashReq) : KeyArgs :=
  { password := r.password, salt := sunmd5Salt r, rounds := r.rounds, optsNil := false,
    optPrefix := sunmd5Prefix r, optFlag := decide (r.rounds = 0) }

theorem sunmd5_name : sunmd5.name = "sunmd5" := rfl
theorem sunmd5_saltFromBytes : sunmd5.saltFromBytes = none := rfl
theorem sunmd5_saltSymbols : sunmd5.saltSymbols = Gen.sunmd5.DefaultSaltLength := rfl
theorem sunmd5_encodeSum : sunmd5.encodeSum = leEncode := rfl

theorem mkVals_sunmd5 (p salt sum : Bytes) (rounds : Nat) (sep : FVal) :
    marshal sunmd5TI (mkVals sunmd5TI [("HashPrefix", FVal.str p), ("Salt", .bytes salt), ("Sum", .bytes sum),
      ("Rounds", .uint rounds), ("Separator", sep)]) = marshal sunmd5TI (sunmd5Vals p rounds salt sep sum) := by
  apply marshal_congr
  intro f hf
  simp only [sunmd5TI, Option.toList, List.cons_append, List.nil_append, List.mem_cons, List.not_mem_nil, or_false] at hf
  rcases hf with rfl | rfl | rfl | rfl | rfl <;> rfl

theorem newHash_sunmd5_eq (r : NewHashReq) :
    newHash sunmd5 r =
      nhStrict (key sunmd5 (sunmd5Args r))
        (fun k => marshal sunmd5TI (sunmd5Vals (sunmd5Prefix r) r.rounds (sunmd5Salt r) (sunmd5Sep r) (leEncode k))) 8 := by
  unfold newHash nhStrict
  rw [tiOf_sunmd5]
  simp [sunmd5_name, sunmd5_saltFromBytes, sunmd5_saltSymbols, sunmd5_encodeSum, sunmd5Args, sunmd5Salt, mkVals_sunmd5,
    Gen.sunmd5.DefaultSaltLength, sunmd5Prefix, sunmd5Sep]
  rfl

theorem marshal_sunmd5_sum (p salt sum s : Bytes) (rounds : Nat) (sep : FVal)
    (h : marshal sunmd5TI (sunmd5Vals p rounds salt sep sum) = .ok s) : sum.length = 22 ∧ OverHash sum := by
  obtain ⟨-, b2, b3⟩ := field_text _ _ _ h sunmd5_Sum (by simp [sunmd5TI]) rfl (.bytes sum) sum rfl rfl
  exact ⟨b2 rfl, b3⟩

/-- the text between the salt and the digest: `$` normally, `$$` when the separator is written -/
def sunmd5SepText (sep : FVal) : Bytes := if sep = FVal.nilPtr then [36] else [36, 36]

theorem marshal_sunmd5_inv (p salt sum s : Bytes) (rounds : Nat) (sep : FVal) (hs : salt ≠ [])
    (hsep : sep = .nilPtr ∨ sep = .str [])
    (h : marshal sunmd5TI (sunmd5Vals p rounds salt sep sum) = .ok s) :
    s = p ++ Grammar.kRounds ++ Strconv.formatUint rounds 10 ++ [36] ++ salt ++ sunmd5SepText sep ++ sum ∧
      OverHash salt := by
  have hp := prefix_text _ _ _ h sunmd5_HashPrefix rfl (.str p) p rfl rfl
  obtain ⟨r1, -, -⟩ := field_text _ _ _ h sunmd5_Rounds (by simp [sunmd5TI]) rfl (.uint rounds)
    (Strconv.formatUint rounds 10) rfl rfl
  have hem : emitted (sunmd5Vals p rounds salt sep sum) sunmd5_Salt = true := by
    cases salt with
    | nil => exact absurd rfl hs
    | cons c cs => rfl
  obtain ⟨a1, -, a3⟩ := field_text _ _ _ h sunmd5_Salt (by simp [sunmd5TI]) hem (.bytes salt) salt rfl rfl
  obtain ⟨b1, -, -⟩ := field_text _ _ _ h sunmd5_Sum (by simp [sunmd5TI]) rfl (.bytes sum) sum rfl rfl
  obtain ⟨h1, -, -⟩ := marshal_render _ _ _ h
  refine ⟨?_, a3⟩
  rw [h1]
  show textOf _ sunmd5_HashPrefix ++ renderFields _ [sunmd5_Rounds, sunmd5_Salt, sunmd5_Separator, sunmd5_Sum] none = _
  rcases hsep with rfl | rfl
  · rw [renderFields_cons_emit _ _ _ _ rfl, renderFields_cons_emit _ _ _ _ hem, renderFields_cons_omit _ _ _ _ rfl,
      renderFields_cons_emit _ _ _ _ rfl, renderFields_nil, hp, r1, a1, b1]
    simp [sepOf, namedText, sunmd5_Rounds, sunmd5_Salt, sunmd5_Sum, Bytes.dollar, Bytes.equals, Grammar.kRounds,
      sunmd5SepText]
  · obtain ⟨e1, -, -⟩ := field_text _ _ _ h sunmd5_Separator (by simp [sunmd5TI]) rfl (.str []) [] rfl rfl
    rw [renderFields_cons_emit _ _ _ _ rfl, renderFields_cons_emit _ _ _ _ hem, renderFields_cons_emit _ _ _ _ rfl,
      renderFields_cons_emit _ _ _ _ rfl, renderFields_nil, hp, r1, a1, e1, b1]
    simp [sepOf, namedText, sunmd5_Rounds, sunmd5_Salt, sunmd5_Separator, sunmd5_Sum, Bytes.dollar, Bytes.equals,
      Grammar.kRounds, sunmd5SepText]

theorem sunmd5_guards' (a : KeyArgs) :
    sunmd5.guards a = outcome (Accepts.sunmd5.verdict a) (Accepts.sunmd5.defaults a) := sunmd5_guards a

/-- `sunmd5.Key` succeeded: the round count is within the exported bound, the password within its limit. -/
theorem key_sunmd5_bounds (a : KeyArgs) (k : Bytes) (ho : a.optsNil = false) (h : key sunmd5 a = .ok k) :
    a.rounds ≤ Gen.sunmd5.MaxRounds := by
  obtain ⟨hc, -⟩ := key_ok_of_guards sunmd5 Accepts.sunmd5 _ sunmd5_guards' a k h
  have := hc (.roundsMax Gen.sunmd5.MaxRounds "InvalidRoundsError") (by simp [Accepts.sunmd5])
  have hd : Accepts.sunmd5.defaults a = a := by simp [Accepts.sunmd5, ho]
  rw [hd] at this
  exact roundsMax_ok this

theorem newHash_sunmd5_inv (r : NewHashReq) (h : Bytes) (used : Nat) (hn : newHash sunmd5 r = .ok h used) :
    ∃ k, key sunmd5 (sunmd5Args r) = .ok k ∧
      marshal sunmd5TI (sunmd5Vals (sunmd5Prefix r) r.rounds (sunmd5Salt r) (sunmd5Sep r) (leEncode k)) = .ok h ∧
      used = 8 := by
  rw [newHash_sunmd5_eq] at hn
  exact (nhStrict_ok _ _ _ _ _).1 hn

theorem checkArgs_sunmd5 (p salt sum pw : Bytes) (rounds rand : Nat) (sep : FVal) :
    checkArgs sunmd5 sunmd5TI (sunmd5Vals p rounds salt sep sum) pw rand =
      { password := pw, salt := salt, rounds := rounds, optsNil := false, optPrefix := p,
        optFlag := sep == .nilPtr } := rfl

theorem sum_sunmd5 (p salt sum : Bytes) (rounds : Nat) (sep : FVal) :
    fvBytes (Scheme.fieldVal sunmd5TI (sunmd5Vals p rounds salt sep sum) "Sum") = sum := rfl

theorem sunmd5Sep_flag (r : NewHashReq) : (sunmd5Sep r == FVal.nilPtr) = decide (r.rounds = 0) := by
  unfold sunmd5Sep
  by_cases h : r.rounds = 0 <;> simp [h]

/-! ## argon2 -/

theorem tiOf_argon2 : tiOf argon2 = some argon2TI := by
  simp only [tiOf, argon2, ti_argon2, Except.toOption]

/-- the salt text `argon2.NewHash` writes: unpadded base64 of 8 entropy bytes -/
def argon2Salt (r : NewHashReq) : Bytes := Kdf.stdEncode stdAlphabet (r.entropy.take 8)
def argon2Args (r : NewHashReq) : KeyArgs :=
  { password := r.password, salt := argon2Salt r, memory := r.memory, rounds := r.rounds,
    threads := Gen.argon2.DefaultThreads, optsNil := false, optPrefix := Gen.argon2.Prefix2id,
    optVersion := Gen.argon2.Version13 }

theorem argon2_name : argon2.name = "argon2" := rfl
theorem argon2_saltFromBytes : argon2.saltFromBytes = some 8 := rfl
theorem argon2_saltAlphabet : argon2.saltAlphabet = stdAlphabet := rfl
theorem argon2_encodeSum : argon2.encodeSum = Kdf.stdEncode stdAlphabet := rfl

theorem mkVals_argon2 (p salt sum : Bytes) (v m t th : Nat) :
    marshal argon2TI (mkVals argon2TI [("HashPrefix", FVal.str p), ("Salt", .bytes salt), ("Sum", .bytes sum),
      ("Version", .uint v), ("Memory", .uint m), ("Time", .uint t), ("Threads", .uint th)]) =
      marshal argon2TI (argon2Vals p v m t th salt sum) := by
  apply marshal_congr
  intro f hf
  simp only [argon2TI, Option.toList, List.cons_append, List.nil_append, List.mem_cons, List.not_mem_nil, or_false] at hf
  rcases hf with rfl | rfl | rfl | rfl | rfl | rfl | rfl <;> rfl

theorem newHash_argon2_eq (r : NewHashReq) :
    newHash argon2 r =
      nhStrict (key argon2 (argon2Args r))
        (fun k => marshal argon2TI (argon2Vals Gen.argon2.Prefix2id Gen.argon2.Version13 r.memory r.rounds
          Gen.argon2.DefaultThreads (argon2Salt r) (Kdf.stdEncode stdAlphabet k))) 8 := by
  unfold newHash nhStrict
  rw [tiOf_argon2]
  simp [argon2_name, argon2_saltFromBytes, argon2_saltAlphabet, argon2_encodeSum, argon2Args, argon2Salt, mkVals_argon2]
  rfl

/-- `v=19$m=M,t=T,p=1$` -/
def argon2ParamText (v m t th : Nat) : Bytes :=
  Grammar.kV ++ Strconv.formatUint v 10 ++ [36] ++ Grammar.kM ++ Strconv.formatUint m 10 ++ [44] ++
    Grammar.kT ++ Strconv.formatUint t 10 ++ [44] ++ Grammar.kP ++ Strconv.formatUint th 10 ++ [36]

theorem marshal_argon2_inv (p salt sum s : Bytes) (v m t th : Nat) (hv : v ≠ 0)
    (h : marshal argon2TI (argon2Vals p v m t th salt sum) = .ok s) :
    s = p ++ argon2ParamText v m t th ++ salt ++ [36] ++ sum ∧ OverBase64 salt ∧ OverBase64 sum := by
  have hp := prefix_text _ _ _ h argon2_HashPrefix rfl (.str p) p rfl rfl
  have hem : emitted (argon2Vals p v m t th salt sum) argon2_Version = true := by
    simp [emitted, Codec.fieldVal, argon2Vals, getVal, argon2_Version, isEmptyVal, hv]
  obtain ⟨v1, -, -⟩ := field_text _ _ _ h argon2_Version (by simp [argon2TI]) hem (.uint v)
    (Strconv.formatUint v 10) rfl rfl
  obtain ⟨m1, -, -⟩ := field_text _ _ _ h argon2_Memory (by simp [argon2TI]) rfl (.uint m)
    (Strconv.formatUint m 10) rfl rfl
  obtain ⟨t1, -, -⟩ := field_text _ _ _ h argon2_Time (by simp [argon2TI]) rfl (.uint t)
    (Strconv.formatUint t 10) rfl rfl
  obtain ⟨p1, -, -⟩ := field_text _ _ _ h argon2_Threads (by simp [argon2TI]) rfl (.uint th)
    (Strconv.formatUint th 10) rfl rfl
  obtain ⟨a1, -, a3⟩ := field_text _ _ _ h argon2_Salt (by simp [argon2TI]) rfl (.bytes salt) salt rfl rfl
  obtain ⟨b1, -, b3⟩ := field_text _ _ _ h argon2_Sum (by simp [argon2TI]) rfl (.bytes sum) sum rfl rfl
  obtain ⟨h1, -, -⟩ := marshal_render _ _ _ h
  refine ⟨?_, a3, b3⟩
  rw [h1]
  show textOf _ argon2_HashPrefix ++ renderFields _
    [argon2_Version, argon2_Memory, argon2_Time, argon2_Threads, argon2_Salt, argon2_Sum] none = _
  rw [renderFields_cons_emit _ _ _ _ hem, renderFields_cons_emit _ _ _ _ rfl, renderFields_cons_emit _ _ _ _ rfl,
    renderFields_cons_emit _ _ _ _ rfl, renderFields_cons_emit _ _ _ _ rfl, renderFields_cons_emit _ _ _ _ rfl,
    renderFields_nil, hp, v1, m1, t1, p1, a1, b1]
  simp [sepOf, namedText, argon2_Version, argon2_Memory, argon2_Time, argon2_Threads, argon2_Salt, argon2_Sum,
    Bytes.dollar, Bytes.equals, Bytes.comma, Grammar.kV, Grammar.kM, Grammar.kT, Grammar.kP, argon2ParamText]

theorem argon2_guards' (a : KeyArgs) :
    argon2.guards a = outcome (Accepts.argon2.verdict a) (Accepts.argon2.defaults a) := argon2_guards a

theorem newHash_argon2_inv (r : NewHashReq) (h : Bytes) (used : Nat) (hn : newHash argon2 r = .ok h used) :
    ∃ k, key argon2 (argon2Args r) = .ok k ∧
      marshal argon2TI (argon2Vals Gen.argon2.Prefix2id Gen.argon2.Version13 r.memory r.rounds
        Gen.argon2.DefaultThreads (argon2Salt r) (Kdf.stdEncode stdAlphabet k)) = .ok h ∧ used = 8 := by
  rw [newHash_argon2_eq] at hn
  exact (nhStrict_ok _ _ _ _ _).1 hn

theorem checkArgs_argon2 (p salt sum pw : Bytes) (v m t th rand : Nat) (hv : v ≠ 0) :
    checkArgs argon2 argon2TI (argon2Vals p v m t th salt sum) pw rand =
      { password := pw, salt := salt, memory := m, rounds := t, threads := th, optsNil := false, optPrefix := p,
        optVersion := v } := by
  show ({ password := pw, salt := salt, memory := m, rounds := t, threads := th, optsNil := false, optPrefix := p,
            optVersion := if v = 0 then Gen.argon2.Version10 else v } : KeyArgs) = _
  rw [if_neg hv]

theorem sum_argon2 (p salt sum : Bytes) (v m t th : Nat) :
    fvBytes (Scheme.fieldVal argon2TI (argon2Vals p v m t th salt sum) "Sum") = sum := rfl

end GoCrypt.EndToEnd
