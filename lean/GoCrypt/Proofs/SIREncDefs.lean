import GoCrypt.Proofs.SIRDefs
import GoCrypt.Model.Stream

/-!
# Stream IR of `hash/base64le`: the streaming encoder — representation of the model state

* `writerOf st` is the external scripted writer holding the model's `writes`/`script`; one `Write` call on
  it is `EncSt.wWrite` (`extWrite_eq_wWrite`).
* `EncRep … e st H O X`: the world holds an `encoder` object that represents the model state `st`.
* `EncLibSpec lib`: what `Write`/`Close` need from the library functions `Encoding.Encode` and
  `Encoding.EncodedLen`.
Helper definitions and lemmas only.
-/

namespace GoCrypt.SIR
open GoCrypt.B64IR (Buf Heap Slice Res sliceBytes writeList padInt decodeMapBytes encVal)
open GoCrypt.Base64LE GoCrypt.Stream GoCrypt.Gen.base64leStream

/-- The external writer of a model state. -/
def writerOf (st : EncSt) : Ext := .writer st.writes st.script

/-- The byte count the scripted writer reports (the Go code discards it). -/
def wWriteN (st : EncSt) (data : Bytes) : Nat :=
  match st.script with
  | some (_, k) :: _ => (data.take k).length
  | _ => data.length

/-- One `w.Write(data)` on the external writer is the model's `wWrite` (the state had no error, as the
Go code checks before every call): same log, same script, and the returned error is the new `err`. -/
theorem extWrite_eq_wWrite (st : EncSt) (herr : st.err = none) (H : Heap) (O : List Obj) (X : List Ext) (k : Nat)
    (s : Slice) (data : Bytes) (hk : X[k]? = some (writerOf st)) (hd : sliceBytes H s = some data) :
    extCall ⟨H, O, X⟩ k "Write" [.slice s] =
      .ok (⟨H, O, X.set k (writerOf (st.wWrite data))⟩, [.int (wWriteN st data), .err (st.wWrite data).err]) := by
  obtain ⟨err, buf, writes, script⟩ := st
  simp only at herr
  subst herr
  simp only [writerOf] at hk
  cases script with
  | nil => simp [extCall, hk, hd, writerOf, EncSt.wWrite, wWriteN]
  | cons r rest =>
    cases r with
    | none => simp [extCall, hk, hd, writerOf, EncSt.wWrite, wWriteN]
    | some ek =>
      obtain ⟨e', n⟩ := ek
      simp [extCall, hk, hd, writerOf, EncSt.wWrite, wWriteN]

theorem wWrite_writerOf_err (st : EncSt) (data : Bytes) (c : Option Err) :
    writerOf ({ (st.wWrite data) with err := c }) = writerOf (st.wWrite data) := rfl

/-- The Go struct `encoder`. -/
def encoderObj (ae k bb bo : Nat) (err : Option Nat) (nbuf : Nat) : Obj :=
  ⟨"encoder", [.err err, .ptr ae, .ext k, .slice ⟨bb, 0, 3, 3⟩, .int nbuf, .slice ⟨bo, 0, 1024, 1024⟩]⟩

/-- Where things are: the `encoder` object `d`, its `Encoding` object `ae` with buffers `b1`/`b2`, the
external writer `k`, the buffers of the arrays `buf` (`bb`) and `out` (`bo`). -/
structure EncLayout where
  d : Nat
  ae : Nat
  b1 : Nat
  b2 : Nat
  k : Nat
  bb : Nat
  bo : Nat

/-- The world holds an encoder in model state `st`: the object's `err` and `nbuf` fields, `buf[:nbuf]`,
the writer's log and script. (`buf[nbuf:]` and `out` hold leftovers: unspecified.) -/
structure EncRep (L : EncLayout) (e : Encoding) (st : EncSt) (H : Heap) (O : List Obj) (X : List Ext) : Prop where
  enc : EncAt H O L.ae L.b1 L.b2 e
  obj : O[L.d]? = some (encoderObj L.ae L.k L.bb L.bo st.err st.buf.length)
  wr : X[L.k]? = some (writerOf st)
  buf : ∃ B : Buf, H[L.bb]? = some B ∧ B.size = 3 ∧ B.toList.take st.buf.length = st.buf
  out : ∃ Ob : Buf, H[L.bo]? = some Ob ∧ Ob.size = 1024
  ne1 : L.bb ≠ L.bo
  ne2 : L.bb ≠ L.b1
  ne3 : L.bb ≠ L.b2
  ne4 : L.bo ≠ L.b1
  ne5 : L.bo ≠ L.b2
  ne6 : L.d ≠ L.ae

/-- What `Write`/`Close` need from the library: `enc.Encode(dst, src)` for a destination that is a whole
buffer and a source that is ANY window of another buffer writes `Model.encode` of the window's bytes at
the start of the destination and touches nothing else; `enc.EncodedLen(n)` is the model's. -/
structure EncLibSpec (lib : Lib) : Prop where
  encode : ∀ (e : Encoding) (H : Heap) (O : List Obj) (X : List Ext) (ae b1 b2 : Nat), EncAt H O ae b1 b2 e →
    ∀ (d s : Nat) (dst S : Buf) (off n cp : Nat), H[d]? = some dst → H[s]? = some S → d ≠ s → off + n ≤ S.size →
      encodedLen e n ≤ dst.size → dst.size < 2 ^ 62 →
      lib "Encoding.Encode" ⟨H, O, X⟩ [.ptr ae, .slice ⟨d, 0, dst.size, dst.size⟩, .slice ⟨s, off, n, cp⟩] =
        .ok (⟨H.set d (writeAt dst 0 (encode e ((S.toList.drop off).take n))), O, X⟩, [])
  encodedLen : ∀ (e : Encoding) (H : Heap) (O : List Obj) (X : List Ext) (ae b1 b2 : Nat), EncAt H O ae b1 b2 e →
    ∀ n : Nat, n * 8 + 5 < 2 ^ 63 →
      lib "Encoding.EncodedLen" ⟨H, O, X⟩ [.ptr ae, .int n] = .ok (⟨H, O, X⟩, [.int (encodedLen e n)])

theorem list_set_self {α : Type} (l : List α) (i : Nat) (x : α) (h : l[i]? = some x) : l.set i x = l := by
  apply List.ext_getElem?
  intro j
  by_cases hj : j = i
  · subst hj
    have : j < l.length := by
      rcases Nat.lt_or_ge j l.length with h' | h'
      · exact h'
      · rw [List.getElem?_eq_none h'] at h; cases h
    rw [List.getElem?_set_self this, h]
  · rw [List.getElem?_set_ne (Ne.symm hj)]

theorem lt_of_getElem? {α : Type} {l : List α} {i : Nat} {x : α} (h : l[i]? = some x) : i < l.length := by
  rcases Nat.lt_or_ge i l.length with h' | h'
  · exact h'
  · rw [List.getElem?_eq_none h'] at h; cases h

end GoCrypt.SIR
