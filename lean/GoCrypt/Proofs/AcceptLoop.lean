import GoCrypt.Proofs.Accept

/-!
# Acceptance direction: field side and loop side

`readField` (text checks + store) characterised per class of field, and `iff` / equation lemmas for
one iteration of the field loop in each situation, stated on states built by `mkSt` (no open group).
-/

namespace GoCrypt.Accept
open Bytes GoCrypt.Parse GoCrypt.RefParse GoCrypt.Codec

/-! ## Alphabets -/

theorem over_iff (a s : Bytes) : Grammar.over a s = true ↔ ∀ c ∈ s, c ∈ a := by
  simp [Grammar.over, List.all_eq_true]

theorem firstInvalid_over (e : EncKind) (a : Bytes) (h : alphabetOf e = some a) (s : Bytes) :
    firstInvalid e s = none ↔ Grammar.over a s = true := by
  rw [firstInvalid_none_iff e a h, over_iff]

theorem firstInvalid_some_of (e : EncKind) (a : Bytes) (h : alphabetOf e = some a) (s : Bytes)
    (hn : Grammar.over a s ≠ true) : ∃ c, firstInvalid e s = some c := by
  cases hf : firstInvalid e s with
  | none => exact absurd ((firstInvalid_over e a h s).1 hf) hn
  | some c => exact ⟨c, rfl⟩

theorem over_append (a s t : Bytes) : Grammar.over a (s ++ t) = (Grammar.over a s && Grammar.over a t) := by
  simp [Grammar.over]

theorem over_take_drop (a s : Bytes) (n : Nat) :
    Grammar.over a s = (Grammar.over a (s.take n) && Grammar.over a (s.drop n)) := by
  rw [← over_append, List.take_append_drop]

/-! ## Decimal numbers lie in the hash alphabet -/

theorem digit10_mem : ∀ n, n < 256 →
    (match Strconv.digitVal (UInt8.ofNat n) with | some d => decide (d < 10) | none => false) = true →
    hashAlphabet.contains (UInt8.ofNat n) = true := by
  decide +kernel

theorem digit10_mem' (c : UInt8) (d : Nat) (h : Strconv.digitVal c = some d) (hd : d < 10) :
    c ∈ hashAlphabet := by
  have := digit10_mem c.toNat (UInt8.toNat_lt c)
  rw [UInt8.ofNat_toNat] at this
  simp only [h, hd, decide_true, forall_const] at this
  simpa using this

theorem parseDigits10_over (bits : Nat) : ∀ (s : Bytes) (acc m : Nat),
    Strconv.parseDigits 10 bits s acc = .ok m → ∀ c ∈ s, c ∈ hashAlphabet
  | [], _, _, _ => by simp
  | c :: cs, acc, m, h => by
    unfold Strconv.parseDigits at h
    cases hd : Strconv.digitVal c with
    | none => simp [hd] at h
    | some d =>
      simp only [hd] at h
      by_cases h10 : d < 10
      · simp only [h10, if_true] at h
        split at h
        · intro x hx
          simp only [List.mem_cons] at hx
          rcases hx with rfl | hx
          · exact digit10_mem' x d hd h10
          · exact parseDigits10_over bits cs _ m h x hx
        · cases h
      · simp [h10] at h

theorem parseUint10_over (bits : Nat) (s : Bytes) (m : Nat) (h : Strconv.parseUint s 10 bits = .ok m) :
    Grammar.over hashAlphabet s = true := by
  rw [over_iff]
  unfold Strconv.parseUint at h
  split at h
  · cases h
  · exact parseDigits10_over bits s 0 m h

theorem num_some_iff (bits : Nat) (t : Bytes) (m : Nat) :
    Grammar.num bits t = some m ↔ Strconv.parseUint t 10 bits = .ok m := by
  unfold Grammar.num
  cases Strconv.parseUint t 10 bits <;> simp

/-! ## One field: text checks and store -/

/-- `fieldText` then `storeValue` on a value node's text. -/
def readField (fi : FieldInfo) (e : Nat) (s0 : Bytes) : Except UErr (FVal × Bytes) :=
  match fieldText fi "value" e s0 with
  | .error err => .error err
  | .ok (s, rem) =>
    match storeValue fi "value" e s with
    | .error err => .error err
    | .ok fv => .ok (fv, rem)

/-- the node carries the field's param name (or the field has none) -/
def KeyOK (fi : FieldInfo) (s0 : Bytes) : Prop :=
  fi.opts.param = [] ∨ (fi.opts.param ++ [equals]).isPrefixOf s0 = true

instance (fi : FieldInfo) (s0 : Bytes) : Decidable (KeyOK fi s0) := by unfold KeyOK; infer_instance

theorem readField_iff (fi : FieldInfo) (e : Nat) (s0 : Bytes) (fv : FVal) (rem : Bytes) :
    readField fi e s0 = .ok (fv, rem) ↔
      ∃ s, fieldText fi "value" e s0 = .ok (s, rem) ∧ storeValue fi "value" e s = .ok fv := by
  unfold readField
  cases hft : fieldText fi "value" e s0 with
  | error err => simp
  | ok x =>
    obtain ⟨s, r⟩ := x
    simp only [Except.ok.injEq, Prod.mk.injEq]
    cases hsv : storeValue fi "value" e s with
    | error err =>
      simp only [reduceCtorEq, false_iff, not_exists, not_and]
      rintro s' ⟨rfl, rfl⟩
      rw [hsv]; simp
    | ok v =>
      simp only [Except.ok.injEq, Prod.mk.injEq]
      constructor
      · rintro ⟨rfl, rfl⟩; exact ⟨s, ⟨rfl, rfl⟩, hsv⟩
      · rintro ⟨s', ⟨rfl, rfl⟩, h2⟩
        rw [hsv] at h2
        exact ⟨Except.ok.inj h2, rfl⟩

/-- The text a non-inline field reads off a node: the node's text without the `name=` key. -/
def bodyOf (fi : FieldInfo) (s0 : Bytes) : Bytes :=
  if fi.opts.param ≠ [] ∧ (fi.opts.param ++ [equals]).isPrefixOf s0 = true
  then s0.drop (fi.opts.param ++ [equals]).length else s0

/-- `fieldText` of a non-inline field. -/
theorem fieldText_iff (fi : FieldInfo) (k : String) (e : Nat) (s0 s rem a : Bytes)
    (hinl : fi.opts.inline = false) (henc : alphabetOf fi.opts.enc = some a) :
    fieldText fi k e s0 = .ok (s, rem) ↔
      (fi.opts.hasLength = true → (bodyOf fi s0).length = fi.opts.length) ∧
      Grammar.over a (bodyOf fi s0) = true ∧ s = bodyOf fi s0 ∧ rem = [] := by
  unfold bodyOf
  generalize hb : (if fi.opts.param ≠ [] ∧ (fi.opts.param ++ [equals]).isPrefixOf s0 = true
    then s0.drop (fi.opts.param ++ [equals]).length else s0) = b
  unfold fieldText
  simp only [hb, hinl, Bool.false_eq_true, if_false, bind, Except.bind, pure, Except.pure]
  by_cases hover : Grammar.over a b = true
  · have hfi := (firstInvalid_over _ a henc _).2 hover
    by_cases hl : fi.opts.hasLength = true
    · by_cases hlen : b.length = fi.opts.length
      · simp only [hl, if_true, hlen, ne_eq, not_true_eq_false, if_false, hfi, Except.ok.injEq,
          Prod.mk.injEq, hover, forall_const, true_and]
        constructor <;> rintro ⟨rfl, rfl⟩ <;> exact ⟨rfl, rfl⟩
      · simp [hl, hlen, throw, throwThe, MonadExceptOf.throw]
    · simp only [hl, Bool.false_eq_true, if_false, hfi, Except.ok.injEq, Prod.mk.injEq, hover,
        false_imp_iff, true_and]
      constructor <;> rintro ⟨rfl, rfl⟩ <;> exact ⟨rfl, rfl⟩
  · obtain ⟨c, hc⟩ := firstInvalid_some_of _ a henc _ hover
    by_cases hl : fi.opts.hasLength = true
    · by_cases hlen : b.length = fi.opts.length
      · simp [hl, hlen, hc, hover, throw, throwThe, MonadExceptOf.throw]
      · simp [hl, hlen, throw, throwThe, MonadExceptOf.throw]
    · simp [hl, hc, hover, throw, throwThe, MonadExceptOf.throw]

/-- `fieldText` of an unnamed inline field of fixed length. -/
theorem fieldText_inline_iff (fi : FieldInfo) (k : String) (e : Nat) (s0 s rem a : Bytes)
    (hinl : fi.opts.inline = true) (hp : fi.opts.param = []) (hl : fi.opts.hasLength = true)
    (henc : alphabetOf fi.opts.enc = some a) :
    fieldText fi k e s0 = .ok (s, rem) ↔
      fi.opts.length ≤ s0.length ∧ Grammar.over a (s0.take fi.opts.length) = true ∧
      s = s0.take fi.opts.length ∧ rem = s0.drop fi.opts.length := by
  unfold fieldText
  simp only [hp, ne_eq, not_true_eq_false, false_and, if_false, hl, hinl, if_true, bind, Except.bind,
    pure, Except.pure]
  by_cases hlen : s0.length < fi.opts.length
  · simp only [hlen, if_true, throw, throwThe, MonadExceptOf.throw]
    constructor
    · intro h; cases h
    · rintro ⟨h1, -⟩; omega
  · simp only [hlen, if_false]
    by_cases hover : Grammar.over a (s0.take fi.opts.length) = true
    · have hfi := (firstInvalid_over _ a henc _).2 hover
      simp only [hfi, Except.ok.injEq, Prod.mk.injEq, hover, true_and]
      constructor
      · rintro ⟨rfl, rfl⟩; exact ⟨by omega, rfl, rfl⟩
      · rintro ⟨-, rfl, rfl⟩; exact ⟨rfl, rfl⟩
    · obtain ⟨c, hc⟩ := firstInvalid_some_of _ a henc _ hover
      simp [hc, hover, throw, throwThe, MonadExceptOf.throw]

/-! ### `storeValue` per kind -/

theorem storeValue_bytes (fi : FieldInfo) (k : String) (e : Nat) (s : Bytes)
    (hut : fi.unmarshalText = .none) (hk : fi.kind = .bytes) (hpfx : fi.opts.isPrefix = false) :
    storeValue fi k e s = .ok (.bytes s) := by
  unfold storeValue; simp [hut, hk, hpfx]

theorem storeValue_array (fi : FieldInfo) (k : String) (e : Nat) (s : Bytes) (n : Nat)
    (hut : fi.unmarshalText = .none) (hk : fi.kind = .byteArray n) (hpfx : fi.opts.isPrefix = false)
    (hlen : s.length = n) :
    storeValue fi k e s = .ok (.bytes s) := by
  unfold storeValue
  simp only [hut, hk, hpfx, Bool.false_and, Bool.false_eq_true, if_false]
  rw [← hlen]; simp

theorem storeValue_string (fi : FieldInfo) (k : String) (e : Nat) (s : Bytes)
    (hut : fi.unmarshalText = .none) (hk : fi.kind = .string) (hpfx : fi.opts.isPrefix = false) :
    storeValue fi k e s = .ok (.str s) := by
  unfold storeValue; simp [hut, hk, hpfx]

theorem storeValue_uint_iff (fi : FieldInfo) (k : String) (e : Nat) (s : Bytes) (bits : Nat) (fv : FVal)
    (hut : fi.unmarshalText = .none) (hk : fi.kind = .uint bits) (hpfx : fi.opts.isPrefix = false)
    (hb : fi.opts.base = 10) :
    storeValue fi k e s = .ok fv ↔ ∃ m, Strconv.parseUint s 10 bits = .ok m ∧ fv = .uint m := by
  unfold storeValue
  simp only [hut, hk, hpfx, Bool.false_and, Bool.false_eq_true, if_false, hb]
  cases hp : Strconv.parseUint s 10 bits with
  | error err => cases err <;> simp
  | ok m =>
    simp only [Except.ok.injEq]
    constructor
    · rintro rfl; exact ⟨m, rfl, rfl⟩
    · rintro ⟨m', h1, rfl⟩; rw [h1]

/-! ### `readField` per class of field -/

/-- `[]byte` field, not inline (with or without a declared length). -/
theorem read_bytes (fi : FieldInfo) (e : Nat) (s0 : Bytes) (fv : FVal) (rem a : Bytes)
    (hut : fi.unmarshalText = .none) (hk : fi.kind = .bytes) (hpfx : fi.opts.isPrefix = false)
    (hinl : fi.opts.inline = false) (henc : alphabetOf fi.opts.enc = some a) :
    readField fi e s0 = .ok (fv, rem) ↔
      (fi.opts.hasLength = true → (bodyOf fi s0).length = fi.opts.length) ∧
      Grammar.over a (bodyOf fi s0) = true ∧ fv = .bytes (bodyOf fi s0) ∧ rem = [] := by
  rw [readField_iff]
  simp only [fieldText_iff fi "value" e s0 _ rem a hinl henc, storeValue_bytes fi "value" e _ hut hk hpfx,
    Except.ok.injEq]
  constructor
  · rintro ⟨s, ⟨h1, h2, rfl, h4⟩, rfl⟩; exact ⟨h1, h2, rfl, h4⟩
  · rintro ⟨h1, h2, rfl, h4⟩; exact ⟨_, ⟨h1, h2, rfl, h4⟩, rfl⟩

/-- `[n]byte` field, not inline (its length is always declared). -/
theorem read_array (fi : FieldInfo) (e : Nat) (s0 : Bytes) (fv : FVal) (rem a : Bytes) (n : Nat)
    (hut : fi.unmarshalText = .none) (hk : fi.kind = .byteArray n) (hpfx : fi.opts.isPrefix = false)
    (hinl : fi.opts.inline = false) (hl : fi.opts.hasLength = true) (hn : fi.opts.length = n)
    (henc : alphabetOf fi.opts.enc = some a) :
    readField fi e s0 = .ok (fv, rem) ↔
      (bodyOf fi s0).length = n ∧ Grammar.over a (bodyOf fi s0) = true ∧
      fv = .bytes (bodyOf fi s0) ∧ rem = [] := by
  rw [readField_iff]
  simp only [fieldText_iff fi "value" e s0 _ rem a hinl henc, hl, forall_const, hn]
  constructor
  · rintro ⟨s, ⟨h1, h2, rfl, h4⟩, h5⟩
    rw [storeValue_array fi "value" e _ n hut hk hpfx h1] at h5
    exact ⟨h1, h2, (Except.ok.inj h5).symm, h4⟩
  · rintro ⟨h1, h2, rfl, h4⟩
    exact ⟨_, ⟨h1, h2, rfl, h4⟩, storeValue_array fi "value" e _ n hut hk hpfx h1⟩

/-- string field, not inline. -/
theorem read_string (fi : FieldInfo) (e : Nat) (s0 : Bytes) (fv : FVal) (rem a : Bytes)
    (hut : fi.unmarshalText = .none) (hk : fi.kind = .string) (hpfx : fi.opts.isPrefix = false)
    (hinl : fi.opts.inline = false) (henc : alphabetOf fi.opts.enc = some a) :
    readField fi e s0 = .ok (fv, rem) ↔
      (fi.opts.hasLength = true → (bodyOf fi s0).length = fi.opts.length) ∧
      Grammar.over a (bodyOf fi s0) = true ∧ fv = .str (bodyOf fi s0) ∧ rem = [] := by
  rw [readField_iff]
  simp only [fieldText_iff fi "value" e s0 _ rem a hinl henc, storeValue_string fi "value" e _ hut hk hpfx,
    Except.ok.injEq]
  constructor
  · rintro ⟨s, ⟨h1, h2, rfl, h4⟩, rfl⟩; exact ⟨h1, h2, rfl, h4⟩
  · rintro ⟨h1, h2, rfl, h4⟩; exact ⟨_, ⟨h1, h2, rfl, h4⟩, rfl⟩

/-- decimal unsigned field over the hash alphabet, not inline: the alphabet check is implied by the
number syntax. -/
theorem read_uint (fi : FieldInfo) (e : Nat) (s0 : Bytes) (fv : FVal) (rem : Bytes) (bits : Nat)
    (hut : fi.unmarshalText = .none) (hk : fi.kind = .uint bits) (hpfx : fi.opts.isPrefix = false)
    (hinl : fi.opts.inline = false) (henc : fi.opts.enc = .hash) (hb : fi.opts.base = 10) :
    readField fi e s0 = .ok (fv, rem) ↔
      (fi.opts.hasLength = true → (bodyOf fi s0).length = fi.opts.length) ∧
      (∃ m, Grammar.num bits (bodyOf fi s0) = some m ∧ fv = .uint m) ∧ rem = [] := by
  rw [readField_iff]
  have henc' : alphabetOf fi.opts.enc = some hashAlphabet := by rw [henc]; rfl
  simp only [fieldText_iff fi "value" e s0 _ rem hashAlphabet hinl henc',
    storeValue_uint_iff fi "value" e _ bits fv hut hk hpfx hb, num_some_iff]
  constructor
  · rintro ⟨s, ⟨h1, h2, rfl, h4⟩, m, h5, rfl⟩; exact ⟨h1, ⟨m, h5, rfl⟩, h4⟩
  · rintro ⟨h1, ⟨m, h5, rfl⟩, h4⟩
    exact ⟨_, ⟨h1, parseUint10_over bits _ m h5, rfl, h4⟩, m, h5, rfl⟩

/-- unnamed inline `[]byte` field of fixed length. -/
theorem read_bytes_inline (fi : FieldInfo) (e : Nat) (s0 : Bytes) (fv : FVal) (rem a : Bytes)
    (hut : fi.unmarshalText = .none) (hk : fi.kind = .bytes) (hpfx : fi.opts.isPrefix = false)
    (hinl : fi.opts.inline = true) (hp : fi.opts.param = []) (hl : fi.opts.hasLength = true)
    (henc : alphabetOf fi.opts.enc = some a) :
    readField fi e s0 = .ok (fv, rem) ↔
      fi.opts.length ≤ s0.length ∧ Grammar.over a (s0.take fi.opts.length) = true ∧
      fv = .bytes (s0.take fi.opts.length) ∧ rem = s0.drop fi.opts.length := by
  rw [readField_iff]
  simp only [fieldText_inline_iff fi "value" e s0 _ rem a hinl hp hl henc,
    storeValue_bytes fi "value" e _ hut hk hpfx, Except.ok.injEq]
  constructor
  · rintro ⟨s, ⟨h1, h2, rfl, h4⟩, rfl⟩; exact ⟨h1, h2, rfl, h4⟩
  · rintro ⟨h1, h2, rfl, h4⟩; exact ⟨_, ⟨h1, h2, rfl, h4⟩, rfl⟩

/-- unnamed inline crypt(3)-integer field of fixed length. -/
theorem read_desint_inline (fi : FieldInfo) (e : Nat) (s0 : Bytes) (fv : FVal) (rem a : Bytes)
    (hut : fi.unmarshalText = .desInt)
    (hinl : fi.opts.inline = true) (hp : fi.opts.param = []) (hl : fi.opts.hasLength = true)
    (henc : alphabetOf fi.opts.enc = some a) :
    readField fi e s0 = .ok (fv, rem) ↔
      fi.opts.length ≤ s0.length ∧ Grammar.over a (s0.take fi.opts.length) = true ∧
      fv = .uint (desDecodeInt (s0.take fi.opts.length)) ∧ rem = s0.drop fi.opts.length := by
  rw [readField_iff]
  simp only [fieldText_inline_iff fi "value" e s0 _ rem a hinl hp hl henc,
    storeValue_desInt fi "value" e _ hut, Except.ok.injEq]
  constructor
  · rintro ⟨s, ⟨h1, h2, rfl, h4⟩, rfl⟩; exact ⟨h1, h2, rfl, h4⟩
  · rintro ⟨h1, h2, rfl, h4⟩; exact ⟨_, ⟨h1, h2, rfl, h4⟩, rfl⟩

theorem bodyOf_plain (fi : FieldInfo) (s0 : Bytes) (hp : fi.opts.param = []) : bodyOf fi s0 = s0 := by
  simp [bodyOf, hp]

/-! ## Loop side -/

/-- A loop state with no open group. -/
def mkSt (frags : List Frag) (nv nr : Int) (out : Vals) : LoopSt :=
  { frags := frags, numValues := nv, numReq := nr, out := out }

theorem loop_nil_iff (n : Nat) (st st' : LoopSt) : loopFields n [] st = .ok st' ↔ st' = st := by
  simp only [loopFields, pure, Except.pure, Except.ok.injEq]
  exact eq_comm

theorem loop_cons_iff (n : Nat) (f : FieldInfo) (fs : List FieldInfo) (st st' : LoopSt) :
    loopFields n (f :: fs) st = .ok st' ↔
      ∃ st1, stepField n f st = .ok st1 ∧ loopFields n fs st1 = .ok st' := by
  simp only [loopFields, bind, Except.bind]
  cases h : stepField n f st with
  | error e => simp
  | ok st1 => simp

/-- A non-grouped field facing a value node that is not skipped by count and carries the right key:
the step succeeds exactly when `readField` does. -/
theorem step_value_eq (n : Nat) (fi : FieldInfo) (st : LoopSt) (v : VNode) (rest : List Frag)
    (hg : fi.opts.group = false) (hsg : st.group = none) (hf : st.frags = .value v :: rest)
    (hskip : ¬ (fi.opts.omitEmpty = true ∧ st.numValues - st.numReq ≤ 0)) (hkey : KeyOK fi v.val) :
    stepField n fi st =
      match readField fi v.fin v.val with
      | .error err => .error err
      | .ok (fv, rem) => .ok { st with
          frags := if fi.opts.inline then Frag.value { v with val := rem } :: rest else rest,
          numValues := st.numValues - 1,
          numReq := if fi.opts.omitEmpty then st.numReq else st.numReq - 1,
          out := st.out ++ [(fi.index, fv)] } := by
  unfold readField
  cases hft : fieldText fi "value" v.fin v.val with
  | error err =>
    unfold stepField
    simp only [hg, hsg, hf, Bool.not_false, Option.isSome_none, Bool.and_false, Bool.false_eq_true, if_false,
      pure_bind, Option.isNone_none, Bool.and_true, Bool.false_and]
    have hsk : (fi.opts.omitEmpty && decide (st.numValues - st.numReq ≤ 0)) = false := by
      cases ho : fi.opts.omitEmpty with
      | false => rfl
      | true =>
        have : ¬ (st.numValues - st.numReq ≤ 0) := fun h => hskip ⟨ho, h⟩
        simp [this]
    have hkey' : fi.opts.param = [] ∨ (fi.opts.param ++ [equals]).isPrefixOf v.val = true := hkey
    simp only [hsk, Bool.false_eq_true, if_false, if_true, hkey', hft, bind, Except.bind]
  | ok x =>
    obtain ⟨s, rem⟩ := x
    cases hsv : storeValue fi "value" v.fin s with
    | error err =>
      unfold stepField
      simp only [hg, hsg, hf, Bool.not_false, Option.isSome_none, Bool.and_false, Bool.false_eq_true, if_false,
        pure_bind, Option.isNone_none, Bool.and_true, Bool.false_and]
      have hsk : (fi.opts.omitEmpty && decide (st.numValues - st.numReq ≤ 0)) = false := by
        cases ho : fi.opts.omitEmpty with
        | false => rfl
        | true =>
          have : ¬ (st.numValues - st.numReq ≤ 0) := fun h => hskip ⟨ho, h⟩
          simp [this]
      have hkey' : fi.opts.param = [] ∨ (fi.opts.param ++ [equals]).isPrefixOf v.val = true := hkey
      simp only [hsk, Bool.false_eq_true, if_false, if_true, hkey', hft, hsv, bind, Except.bind]
    | ok fv =>
      simp only [hsv]
      exact stepField_value n fi st v rest s rem fv hg hsg hf hskip hkey hft hsv

/-- A required non-grouped field with no open group: it needs a value node with the right key. -/
theorem step_req_fail (n : Nat) (fi : FieldInfo) (st : LoopSt)
    (hg : fi.opts.group = false) (ho : fi.opts.omitEmpty = false) (hsg : st.group = none)
    (hbad : ∀ v rest, st.frags = .value v :: rest → ¬ KeyOK fi v.val) :
    ∃ err, stepField n fi st = .error err := by
  unfold stepField
  simp only [hg, hsg, ho, Bool.not_false, Option.isSome_none, Bool.and_false, Bool.false_eq_true, if_false,
    pure_bind, Bool.false_and, Bool.not_false]
  cases hf : st.frags with
  | nil => exact ⟨_, rfl⟩
  | cons fr rest =>
    cases fr with
    | group vs => exact ⟨_, rfl⟩
    | value v =>
      have := hbad v rest hf
      simp only [KeyOK, not_or] at this
      simp only [Bool.true_and, this.1, this.2, false_or, Bool.false_eq_true, if_false]
      exact ⟨_, rfl⟩

/-- Loop form: a required non-grouped, non-inline field. -/
theorem loop_req (n : Nat) (fi : FieldInfo) (fis : List FieldInfo) (frags : List Frag) (nv nr : Int)
    (out : Vals) (st' : LoopSt)
    (hg : fi.opts.group = false) (ho : fi.opts.omitEmpty = false) (hinl : fi.opts.inline = false) :
    loopFields n (fi :: fis) (mkSt frags nv nr out) = .ok st' ↔
      ∃ v rest fv rem, frags = .value v :: rest ∧ KeyOK fi v.val ∧
        readField fi v.fin v.val = .ok (fv, rem) ∧
        loopFields n fis (mkSt rest (nv - 1) (nr - 1) (out ++ [(fi.index, fv)])) = .ok st' := by
  rw [loop_cons_iff]
  constructor
  · rintro ⟨st1, h1, h2⟩
    by_cases hex : ∃ v rest, frags = .value v :: rest ∧ KeyOK fi v.val
    · obtain ⟨v, rest, hf, hkey⟩ := hex
      rw [step_value_eq n fi (mkSt frags nv nr out) v rest hg rfl hf (by simp [ho]) hkey] at h1
      cases hr : readField fi v.fin v.val with
      | error err => simp [hr] at h1
      | ok x =>
        obtain ⟨fv, rem⟩ := x
        simp only [hr, Except.ok.injEq, hinl, Bool.false_eq_true, if_false, ho] at h1
        subst h1
        exact ⟨v, rest, fv, rem, hf, hkey, hr, h2⟩
    · obtain ⟨err, herr⟩ := step_req_fail n fi (mkSt frags nv nr out) hg ho rfl
        (fun v rest hf hk => hex ⟨v, rest, hf, hk⟩)
      rw [herr] at h1; cases h1
  · rintro ⟨v, rest, fv, rem, hf, hkey, hr, h2⟩
    refine ⟨_, ?_, h2⟩
    rw [step_value_eq n fi (mkSt frags nv nr out) v rest hg rfl hf (by simp [ho]) hkey, hr]
    simp only [hinl, Bool.false_eq_true, if_false, ho]
    rfl

/-- Loop form: a required non-grouped inline field (its remainder stays in the node). -/
theorem loop_req_inline (n : Nat) (fi : FieldInfo) (fis : List FieldInfo) (frags : List Frag) (nv nr : Int)
    (out : Vals) (st' : LoopSt)
    (hg : fi.opts.group = false) (ho : fi.opts.omitEmpty = false) (hinl : fi.opts.inline = true) :
    loopFields n (fi :: fis) (mkSt frags nv nr out) = .ok st' ↔
      ∃ v rest fv rem, frags = .value v :: rest ∧ KeyOK fi v.val ∧
        readField fi v.fin v.val = .ok (fv, rem) ∧
        loopFields n fis (mkSt (.value { v with val := rem } :: rest) (nv - 1) (nr - 1)
          (out ++ [(fi.index, fv)])) = .ok st' := by
  rw [loop_cons_iff]
  constructor
  · rintro ⟨st1, h1, h2⟩
    by_cases hex : ∃ v rest, frags = .value v :: rest ∧ KeyOK fi v.val
    · obtain ⟨v, rest, hf, hkey⟩ := hex
      rw [step_value_eq n fi (mkSt frags nv nr out) v rest hg rfl hf (by simp [ho]) hkey] at h1
      cases hr : readField fi v.fin v.val with
      | error err => simp [hr] at h1
      | ok x =>
        obtain ⟨fv, rem⟩ := x
        simp only [hr, Except.ok.injEq, hinl, if_true, ho, Bool.false_eq_true, if_false] at h1
        subst h1
        exact ⟨v, rest, fv, rem, hf, hkey, hr, h2⟩
    · obtain ⟨err, herr⟩ := step_req_fail n fi (mkSt frags nv nr out) hg ho rfl
        (fun v rest hf hk => hex ⟨v, rest, hf, hk⟩)
      rw [herr] at h1; cases h1
  · rintro ⟨v, rest, fv, rem, hf, hkey, hr, h2⟩
    refine ⟨_, ?_, h2⟩
    rw [step_value_eq n fi (mkSt frags nv nr out) v rest hg rfl hf (by simp [ho]) hkey, hr]
    simp only [hinl, if_true, ho, Bool.false_eq_true, if_false]
    rfl

/-- Loop form: an optional field with no fragment left. -/
theorem loop_opt_nil (n : Nat) (fi : FieldInfo) (fis : List FieldInfo) (nv nr : Int) (out : Vals)
    (ho : fi.opts.omitEmpty = true) :
    loopFields n (fi :: fis) (mkSt [] nv nr out) = loopFields n fis (mkSt [] nv nr out) := by
  have : stepField n fi (mkSt [] nv nr out) = .ok (mkSt [] nv nr out) := by
    unfold stepField
    simp only [mkSt, ho, Option.isSome_none, Bool.and_false, Bool.false_eq_true, if_false, pure_bind]
    rfl
  rw [loopFields_cons _ _ _ _ _ this]

/-- Loop form: an optional field skipped by count. -/
theorem loop_opt_skip (n : Nat) (fi : FieldInfo) (fis : List FieldInfo) (fr : Frag) (rest : List Frag)
    (nv nr : Int) (out : Vals) (ho : fi.opts.omitEmpty = true) (hcnt : nv - nr ≤ 0) :
    loopFields n (fi :: fis) (mkSt (fr :: rest) nv nr out) =
      loopFields n fis (mkSt (fr :: rest) (nv - 1) nr out) := by
  rw [loopFields_cons _ _ _ _ _ (stepField_skip n fi (mkSt (fr :: rest) nv nr out) fr rest ho rfl rfl hcnt)]
  rfl

/-- Loop form: an optional non-grouped field facing a group fragment (surplus count): nothing happens. -/
theorem loop_opt_group (n : Nat) (fi : FieldInfo) (fis : List FieldInfo) (vs : List VNode) (rest : List Frag)
    (nv nr : Int) (out : Vals) (ho : fi.opts.omitEmpty = true) (hg : fi.opts.group = false)
    (hcnt : ¬ (nv - nr ≤ 0)) :
    loopFields n (fi :: fis) (mkSt (.group vs :: rest) nv nr out) =
      loopFields n fis (mkSt (.group vs :: rest) nv nr out) := by
  rw [loopFields_cons _ _ _ _ _
    (stepField_pass_group n fi (mkSt (.group vs :: rest) nv nr out) vs rest ho hg rfl rfl hcnt)]

/-- Loop form: an optional non-grouped field facing a value node without its key: nothing happens. -/
theorem loop_opt_nokey (n : Nat) (fi : FieldInfo) (fis : List FieldInfo) (v : VNode) (rest : List Frag)
    (nv nr : Int) (out : Vals) (ho : fi.opts.omitEmpty = true) (hg : fi.opts.group = false)
    (hcnt : ¬ (nv - nr ≤ 0)) (hkey : ¬ KeyOK fi v.val) :
    loopFields n (fi :: fis) (mkSt (.value v :: rest) nv nr out) =
      loopFields n fis (mkSt (.value v :: rest) nv nr out) := by
  have : stepField n fi (mkSt (.value v :: rest) nv nr out) = .ok (mkSt (.value v :: rest) nv nr out) := by
    simp only [KeyOK, not_or] at hkey
    unfold stepField
    simp only [mkSt, hg, ho, Bool.not_false, Option.isSome_none, Bool.and_false, Bool.false_eq_true, if_false,
      pure_bind, Option.isNone_none, Bool.true_and, decide_eq_true_eq, hcnt, Bool.false_and, hkey.1, hkey.2,
      false_or, if_true]
    rfl
  rw [loopFields_cons _ _ _ _ _ this]

/-- Loop form: an optional non-grouped, non-inline field facing a value node with its key (surplus
count): it reads the node. -/
theorem loop_opt_value (n : Nat) (fi : FieldInfo) (fis : List FieldInfo) (v : VNode) (rest : List Frag)
    (nv nr : Int) (out : Vals) (st' : LoopSt) (ho : fi.opts.omitEmpty = true) (hg : fi.opts.group = false)
    (hinl : fi.opts.inline = false) (hcnt : ¬ (nv - nr ≤ 0)) (hkey : KeyOK fi v.val) :
    loopFields n (fi :: fis) (mkSt (.value v :: rest) nv nr out) = .ok st' ↔
      ∃ fv rem, readField fi v.fin v.val = .ok (fv, rem) ∧
        loopFields n fis (mkSt rest (nv - 1) nr (out ++ [(fi.index, fv)])) = .ok st' := by
  rw [loop_cons_iff,
    step_value_eq n fi (mkSt (.value v :: rest) nv nr out) v rest hg rfl rfl (fun h => hcnt h.2) hkey]
  cases hr : readField fi v.fin v.val with
  | error err => simp
  | ok x =>
    obtain ⟨fv, rem⟩ := x
    simp only [Except.ok.injEq, hinl, Bool.false_eq_true, if_false, ho, if_true, Prod.mk.injEq]
    constructor
    · rintro ⟨st1, rfl, h2⟩; exact ⟨fv, rem, ⟨rfl, rfl⟩, h2⟩
    · rintro ⟨fv', rem', ⟨rfl, rfl⟩, h2⟩; exact ⟨_, rfl, h2⟩



/-! ### Grouped params -/

/-- A loop state with an open group. -/
def mkStG (frags : List Frag) (g : List VNode) (ngv : Nat) (nv nr : Int) (out : Vals) : LoopSt :=
  { frags := frags, group := some g, numGroupValues := ngv, numValues := nv, numReq := nr, out := out }

/-- the member carries the field's `name=` -/
def keyP (fi : FieldInfo) : VNode → Bool := fun v => (fi.opts.param ++ [equals]).isPrefixOf v.val

/-- A required field with no fragment left fails. -/
theorem step_req_nil (n : Nat) (fi : FieldInfo) (st : LoopSt) (ho : fi.opts.omitEmpty = false)
    (hf : st.frags = []) (hg : fi.opts.group = true ∨ st.group = none) :
    ∃ err, stepField n fi st = .error err := by
  unfold stepField
  have h1 : (!fi.opts.group && st.group.isSome) = false := by
    rcases hg with hg | hg <;> simp [hg]
  simp only [h1, Bool.false_eq_true, if_false, pure_bind, hf, ho]
  exact ⟨_, rfl⟩

/-- A required grouped param facing a value fragment: it succeeds only if the value carries its name,
and then leaves the fragment in place with the one-member group `[v]` open. -/
theorem step_group_value (n : Nat) (fi : FieldInfo) (st st1 : LoopSt) (v : VNode) (rest : List Frag)
    (hg : fi.opts.group = true) (ho : fi.opts.omitEmpty = false) (hinl : fi.opts.inline = false)
    (hf : st.frags = .value v :: rest) (h : stepField n fi st = .ok st1) :
    keyP fi v = true ∧ st1.frags = .value v :: rest := by
  unfold stepField at h
  simp only [hg, Bool.not_true, Bool.false_and, Bool.false_eq_true, if_false, pure_bind, hf, ho,
    Bool.true_and, Bool.not_false, Bool.or_true, if_true, List.find?_cons, List.find?_nil] at h
  by_cases hk : keyP fi v = true
  · have hk' : (fi.opts.param ++ [equals]).isPrefixOf v.val = true := hk
    simp only [hk'] at h
    cases hft : fieldText fi "value" v.fin v.val with
    | error err => simp [hft, bind, Except.bind] at h
    | ok x =>
      obtain ⟨s, rem⟩ := x
      cases hsv : storeValue fi "value" v.fin s with
      | error err => simp [hft, hsv, bind, Except.bind] at h
      | ok fv =>
        simp only [hft, hsv, bind, Except.bind, pure, Except.pure, hinl, Bool.false_eq_true, if_false,
          Except.ok.injEq] at h
        subst h
        exact ⟨hk, rfl⟩
  · have hk' : (fi.opts.param ++ [equals]).isPrefixOf v.val = false := by
      cases hb : (fi.opts.param ++ [equals]).isPrefixOf v.val with
      | false => rfl
      | true => exact absurd hb hk
    simp [hk', throw, throwThe, MonadExceptOf.throw] at h

/-- Two required grouped params in a row facing a value fragment: the value would have to carry both
names. -/
theorem loop_group_value_fail (n : Nat) (f1 f2 : FieldInfo) (fis : List FieldInfo) (st st' : LoopSt)
    (v : VNode) (rest : List Frag)
    (hg1 : f1.opts.group = true) (ho1 : f1.opts.omitEmpty = false) (hinl1 : f1.opts.inline = false)
    (hg2 : f2.opts.group = true) (ho2 : f2.opts.omitEmpty = false) (hinl2 : f2.opts.inline = false)
    (hf : st.frags = .value v :: rest) (h : loopFields n (f1 :: f2 :: fis) st = .ok st') :
    keyP f1 v = true ∧ keyP f2 v = true := by
  rw [loop_cons_iff] at h
  obtain ⟨st1, h1, h2⟩ := h
  rw [loop_cons_iff] at h2
  obtain ⟨st2, h2, -⟩ := h2
  obtain ⟨hk1, hf1⟩ := step_group_value n f1 st st1 v rest hg1 ho1 hinl1 hf h1
  obtain ⟨hk2, -⟩ := step_group_value n f2 st1 st2 v rest hg2 ho2 hinl2 hf1 h2
  exact ⟨hk1, hk2⟩

/-- Inversion: a required grouped param facing a group fragment not yet opened. -/
theorem step_group_first_inv (n : Nat) (fi : FieldInfo) (st st1 : LoopSt) (vs : List VNode) (rest : List Frag)
    (hg : fi.opts.group = true) (ho : fi.opts.omitEmpty = false)
    (hsg : st.group = none) (hf : st.frags = .group vs :: rest) (h : stepField n fi st = .ok st1) :
    ∃ v s rem fv, vs.find? (fun v => (fi.opts.param ++ [equals]).isPrefixOf v.val) = some v ∧
      fieldText fi "value" v.fin v.val = .ok (s, rem) ∧ storeValue fi "value" v.fin s = .ok fv := by
  unfold stepField at h
  simp only [hg, Bool.not_true, Bool.false_and, Bool.false_eq_true, if_false, pure_bind, hf, ho, hsg,
    Bool.true_and, Bool.not_false, Bool.or_true, Bool.true_or, if_true] at h
  cases hfind : vs.find? (fun v => (fi.opts.param ++ [equals]).isPrefixOf v.val) with
  | none => simp [hfind, throw, throwThe, MonadExceptOf.throw] at h
  | some v =>
    simp only [hfind] at h
    cases hft : fieldText fi "value" v.fin v.val with
    | error err => simp [hft, bind, Except.bind] at h
    | ok x =>
      obtain ⟨s, rem⟩ := x
      cases hsv : storeValue fi "value" v.fin s with
      | error err => simp [hft, hsv, bind, Except.bind] at h
      | ok fv => exact ⟨v, s, rem, fv, rfl, hft, hsv⟩

/-- Inversion: a required grouped param facing the group fragment already opened. -/
theorem step_group_next_inv (n : Nat) (fi : FieldInfo) (st st1 : LoopSt) (g vs : List VNode) (rest : List Frag)
    (hg : fi.opts.group = true) (ho : fi.opts.omitEmpty = false)
    (hsg : st.group = some g) (hf : st.frags = .group vs :: rest) (h : stepField n fi st = .ok st1) :
    ∃ v s rem fv, g.find? (fun v => (fi.opts.param ++ [equals]).isPrefixOf v.val) = some v ∧
      fieldText fi "value" v.fin v.val = .ok (s, rem) ∧ storeValue fi "value" v.fin s = .ok fv := by
  unfold stepField at h
  simp only [hg, Bool.not_true, Bool.false_and, Bool.false_eq_true, if_false, pure_bind, hf, ho, hsg,
    Bool.true_and, Bool.not_false, Bool.or_true, Bool.true_or, if_true] at h
  cases hfind : g.find? (fun v => (fi.opts.param ++ [equals]).isPrefixOf v.val) with
  | none => simp [hfind, throw, throwThe, MonadExceptOf.throw] at h
  | some v =>
    simp only [hfind] at h
    cases hft : fieldText fi "value" v.fin v.val with
    | error err => simp [hft, bind, Except.bind] at h
    | ok x =>
      obtain ⟨s, rem⟩ := x
      cases hsv : storeValue fi "value" v.fin s with
      | error err => simp [hft, hsv, bind, Except.bind] at h
      | ok fv => exact ⟨v, s, rem, fv, rfl, hft, hsv⟩

theorem readField_of (fi : FieldInfo) (e : Nat) (s0 s rem : Bytes) (fv : FVal)
    (hft : fieldText fi "value" e s0 = .ok (s, rem)) (hsv : storeValue fi "value" e s = .ok fv) :
    readField fi e s0 = .ok (fv, rem) := (readField_iff fi e s0 fv rem).2 ⟨s, hft, hsv⟩

/-- A required grouped param facing a group fragment not yet opened. -/
theorem loop_group_first (n : Nat) (fi : FieldInfo) (fis : List FieldInfo) (vs : List VNode) (rest : List Frag)
    (nv nr : Int) (out : Vals) (st' : LoopSt)
    (hg : fi.opts.group = true) (ho : fi.opts.omitEmpty = false) (hinl : fi.opts.inline = false) :
    loopFields n (fi :: fis) (mkSt (.group vs :: rest) nv nr out) = .ok st' ↔
      ∃ v fv rem, vs.find? (keyP fi) = some v ∧ readField fi v.fin v.val = .ok (fv, rem) ∧
        loopFields n fis (mkStG (.group vs :: rest) vs (vs.length - 1) nv nr (out ++ [(fi.index, fv)])) = .ok st' := by
  rw [loop_cons_iff]
  constructor
  · rintro ⟨st1, h1, h2⟩
    obtain ⟨v, s, rem, fv, hfind, hft, hsv⟩ := step_group_first_inv n fi _ st1 vs rest hg ho rfl rfl h1
    rw [stepField_group_first n fi (mkSt (.group vs :: rest) nv nr out) vs rest v s rem fv hg ho hinl rfl rfl
      hfind hft hsv] at h1
    cases h1
    exact ⟨v, fv, rem, hfind, readField_of fi _ _ s rem fv hft hsv, h2⟩
  · rintro ⟨v, fv, rem, hfind, hr, h2⟩
    obtain ⟨s, hft, hsv⟩ := (readField_iff fi _ _ fv rem).1 hr
    exact ⟨_, stepField_group_first n fi (mkSt (.group vs :: rest) nv nr out) vs rest v s rem fv hg ho hinl rfl rfl
      hfind hft hsv, h2⟩

/-- A required grouped param facing the group fragment already opened. -/
theorem loop_group_next (n : Nat) (fi : FieldInfo) (fis : List FieldInfo) (g vs : List VNode) (rest : List Frag)
    (ngv : Nat) (nv nr : Int) (out : Vals) (st' : LoopSt)
    (hg : fi.opts.group = true) (ho : fi.opts.omitEmpty = false) (hinl : fi.opts.inline = false) :
    loopFields n (fi :: fis) (mkStG (.group vs :: rest) g ngv nv nr out) = .ok st' ↔
      ∃ v fv rem, g.find? (keyP fi) = some v ∧ readField fi v.fin v.val = .ok (fv, rem) ∧
        loopFields n fis (mkStG (.group g :: rest) g (ngv - 1) nv nr (out ++ [(fi.index, fv)])) = .ok st' := by
  rw [loop_cons_iff]
  constructor
  · rintro ⟨st1, h1, h2⟩
    obtain ⟨v, s, rem, fv, hfind, hft, hsv⟩ := step_group_next_inv n fi _ st1 g vs rest hg ho rfl rfl h1
    rw [stepField_group_next n fi (mkStG (.group vs :: rest) g ngv nv nr out) g vs rest v s rem fv hg ho hinl
      rfl rfl hfind hft hsv] at h1
    cases h1
    exact ⟨v, fv, rem, hfind, readField_of fi _ _ s rem fv hft hsv, h2⟩
  · rintro ⟨v, fv, rem, hfind, hr, h2⟩
    obtain ⟨s, hft, hsv⟩ := (readField_iff fi _ _ fv rem).1 hr
    exact ⟨_, stepField_group_next n fi (mkStG (.group vs :: rest) g ngv nv nr out) g vs rest v s rem fv hg ho hinl
      rfl rfl hfind hft hsv, h2⟩

/-- A non-grouped field after an open group: every member must have been taken; the group fragment is
dropped. -/
theorem loop_close (n : Nat) (fi : FieldInfo) (fis : List FieldInfo) (frags : List Frag) (g : List VNode)
    (ngv : Nat) (nv nr : Int) (out : Vals) (st' : LoopSt) (hg : fi.opts.group = false) :
    loopFields n (fi :: fis) (mkStG frags g ngv nv nr out) = .ok st' ↔
      ngv = 0 ∧ loopFields n (fi :: fis) (mkSt frags.tail nv nr out) = .ok st' := by
  by_cases hn : ngv = 0
  · subst hn
    rw [loop_close_group g hg rfl rfl rfl]
    simp [mkSt, mkStG]
  · have : ∃ err, stepField n fi (mkStG frags g ngv nv nr out) = .error err := by
      unfold stepField
      have hpos : ngv > 0 := Nat.pos_of_ne_zero hn
      simp only [mkStG, hg, Bool.not_false, Option.isSome_some, Bool.and_self, if_true, hpos]
      exact ⟨_, rfl⟩
    obtain ⟨err, herr⟩ := this
    rw [loop_cons_iff]
    simp [herr, hn]

/-! ### Forward forms (for building an accepting run) -/

theorem ex_req {P : LoopSt → Prop} {n : Nat} {fi : FieldInfo} {fis : List FieldInfo} {v : VNode}
    {rest : List Frag} {nv nr : Int} {out : Vals} {fv : FVal} {rem : Bytes}
    (hg : fi.opts.group = false) (ho : fi.opts.omitEmpty = false) (hinl : fi.opts.inline = false)
    (hkey : KeyOK fi v.val) (hr : readField fi v.fin v.val = .ok (fv, rem))
    (h : ∃ st', loopFields n fis (mkSt rest (nv - 1) (nr - 1) (out ++ [(fi.index, fv)])) = .ok st' ∧ P st') :
    ∃ st', loopFields n (fi :: fis) (mkSt (.value v :: rest) nv nr out) = .ok st' ∧ P st' := by
  obtain ⟨st', h1, h2⟩ := h
  exact ⟨st', (loop_req n fi fis _ nv nr out st' hg ho hinl).2 ⟨v, rest, fv, rem, rfl, hkey, hr, h1⟩, h2⟩

theorem ex_req_inline {P : LoopSt → Prop} {n : Nat} {fi : FieldInfo} {fis : List FieldInfo} {v : VNode}
    {rest : List Frag} {nv nr : Int} {out : Vals} {fv : FVal} {rem : Bytes}
    (hg : fi.opts.group = false) (ho : fi.opts.omitEmpty = false) (hinl : fi.opts.inline = true)
    (hkey : KeyOK fi v.val) (hr : readField fi v.fin v.val = .ok (fv, rem))
    (h : ∃ st', loopFields n fis (mkSt (.value { v with val := rem } :: rest) (nv - 1) (nr - 1)
      (out ++ [(fi.index, fv)])) = .ok st' ∧ P st') :
    ∃ st', loopFields n (fi :: fis) (mkSt (.value v :: rest) nv nr out) = .ok st' ∧ P st' := by
  obtain ⟨st', h1, h2⟩ := h
  exact ⟨st', (loop_req_inline n fi fis _ nv nr out st' hg ho hinl).2 ⟨v, rest, fv, rem, rfl, hkey, hr, h1⟩, h2⟩

theorem ex_opt_value {P : LoopSt → Prop} {n : Nat} {fi : FieldInfo} {fis : List FieldInfo} {v : VNode}
    {rest : List Frag} {nv nr : Int} {out : Vals} {fv : FVal} {rem : Bytes}
    (ho : fi.opts.omitEmpty = true) (hg : fi.opts.group = false) (hinl : fi.opts.inline = false)
    (hcnt : ¬ (nv - nr ≤ 0)) (hkey : KeyOK fi v.val) (hr : readField fi v.fin v.val = .ok (fv, rem))
    (h : ∃ st', loopFields n fis (mkSt rest (nv - 1) nr (out ++ [(fi.index, fv)])) = .ok st' ∧ P st') :
    ∃ st', loopFields n (fi :: fis) (mkSt (.value v :: rest) nv nr out) = .ok st' ∧ P st' := by
  obtain ⟨st', h1, h2⟩ := h
  exact ⟨st', (loop_opt_value n fi fis v rest nv nr out st' ho hg hinl hcnt hkey).2 ⟨fv, rem, hr, h1⟩, h2⟩

theorem ex_nil {P : LoopSt → Prop} {n : Nat} {st : LoopSt} (h : P st) :
    ∃ st', loopFields n [] st = .ok st' ∧ P st' := ⟨st, rfl, h⟩

/-! ## `unmarshalTree` split into prefix part, loop and final checks -/

/-- The final checks of `unmarshalTree`. -/
def FinalOK (st : LoopSt) : Prop :=
  match st.group with
  | some _ => st.numGroupValues = 0 ∧ st.frags.tail = []
  | none => st.frags = []

theorem tailPart_iff (ti : TypeInfo) (n : Nat) (tree : Tree) (out0 out : Vals) :
    tailPart ti n tree out0 = .ok out ↔
      ∃ st', loopFields n ti.fields (mkSt tree.frags tree.frags.length ti.numReqValues out0) = .ok st' ∧
        FinalOK st' ∧ out = st'.out := by
  unfold tailPart mkSt
  cases hl : loopFields n ti.fields
      { frags := tree.frags, numValues := tree.frags.length, numReq := ti.numReqValues, out := out0 } with
  | error err => simp [bind, Except.bind]
  | ok st =>
    simp only [bind, Except.bind, Except.ok.injEq, exists_eq_left']
    unfold FinalOK
    cases hg : st.group with
    | none =>
      simp only [pure, Except.pure]
      cases hfr : st.frags with
      | nil => simp [eq_comm]
      | cons f fs' => simp [throw, throwThe, MonadExceptOf.throw]
    | some g =>
      simp only [pure, Except.pure]
      by_cases hn : st.numGroupValues = 0
      · simp only [hn, gt_iff_lt, Nat.lt_irrefl, if_false, true_and]
        cases hfr : st.frags.tail with
        | nil => simp [eq_comm]
        | cons f fs' => simp [throw, throwThe, MonadExceptOf.throw]
      · have : st.numGroupValues > 0 := Nat.pos_of_ne_zero hn
        simp [this, hn, throw, throwThe, MonadExceptOf.throw]

theorem tree_iff (ti : TypeInfo) (n : Nat) (p : Option Bytes) (fs : List Frag) (out : Vals) :
    unmarshalTree ti n ⟨p, fs⟩ = .ok out ↔
      ∃ out0 st', prefixPart ti n ⟨p, fs⟩ = .ok out0 ∧
        loopFields n ti.fields (mkSt fs fs.length ti.numReqValues out0) = .ok st' ∧
        FinalOK st' ∧ out = st'.out := by
  rw [unmarshalTree_eq]
  cases hp : prefixPart ti n ⟨p, fs⟩ with
  | error err => simp [bind, Except.bind]
  | ok out0 =>
    simp only [bind, Except.bind, Except.ok.injEq]
    rw [tailPart_iff ti n ⟨p, fs⟩ out0 out]
    constructor
    · rintro ⟨st', h1, h2⟩; exact ⟨out0, st', rfl, h1, h2⟩
    · rintro ⟨out0', st', rfl, h1, h2⟩; exact ⟨st', h1, h2⟩

/-- The prefix part for a whitelisted string prefix. -/
theorem prefixPart_some (ti : TypeInfo) (n : Nat) (p : Bytes) (fs : List Frag) (out0 : Vals)
    (hp : FieldInfo) (wl : List Bytes) (h1 : ti.hashPrefix = some hp)
    (hut : hp.unmarshalText = .whitelist wl) (hpar : hp.opts.param = [])
    (hl : hp.opts.hasLength = false) (henc : hp.opts.enc = .none) :
    prefixPart ti n ⟨some p, fs⟩ = .ok out0 ↔ wl.contains p = true ∧ out0 = [(hp.index, .str p)] := by
  have hft : fieldText hp "prefix" p.length p = .ok (p, []) := by
    unfold fieldText
    simp [hpar, hl, henc, firstInvalid, alphabetOf, bind, Except.bind, pure, Except.pure]
  unfold prefixPart
  simp only [h1, hft, bind, Except.bind]
  unfold storeValue
  simp only [hut]
  by_cases hw : p ∈ wl
  · simp [hw, pure, Except.pure, eq_comm]
  · simp [hw]

theorem prefixPart_none (ti : TypeInfo) (n : Nat) (fs : List Frag) (out0 : Vals)
    (hp : FieldInfo) (h1 : ti.hashPrefix = some hp) :
    prefixPart ti n ⟨none, fs⟩ = .ok out0 ↔ hp.opts.omitEmpty = true ∧ out0 = [] := by
  unfold prefixPart
  simp only [h1]
  by_cases ho : hp.opts.omitEmpty = true
  · simp [ho, pure, Except.pure, eq_comm]
  · simp [ho, throw, throwThe, MonadExceptOf.throw]

end GoCrypt.Accept
