import GoCrypt.Proofs.CodecIRValue

/-!
# Codec IR: `Marshal` = the model's `marshal`

The loop over `info.Fields` in three phases per iteration (omitempty test, value text, separators),
an induction over the remaining fields, and the straight-line code around it. Helper lemmas only.
-/

namespace GoCrypt.CIR
open GoCrypt.Codec GoCrypt.Gen.codecIR
open GoCrypt.TIIR (RType Res kindNum fiType fiObj tiObj encVal optsVals Reps RepOpt)

/-- The loop `for _, fi := range info.Fields` of `Marshal`, its body, and the final `return`. -/
def fieldsLoop : Stmt := (marshalTopIR.body.drop 9).head
def loopBody : Stmt := fieldsLoop.forBody
def finalRet : Stmt := marshalTopIR.body.drop 10
/-- omitempty test; `indirect` + `marshalValue`; separators and text. -/
def phaseA : Stmt := loopBody.take 5
def phaseB : Stmt := (loopBody.drop 5).take 3
def phaseC : Stmt := loopBody.drop 8

theorem loopBody_split (c : Ctx) (m : Mem) (env : Env) :
    exec c loopBody m env =
      (exec c phaseA m env).andThen fun m env => (exec c phaseB m env).andThen (exec c phaseC) := by
  rw [exec_take_drop c m env 5 loopBody]
  congr 1
  funext m env
  rw [exec_take_drop c m env 3 (loopBody.drop 5)]
  rfl

theorem ext2_valFieldByIndex (c : Ctx) (t : RType) (g : GVal) (ro : Bool) (idx : List Int) :
    ext2 c .valFieldByIndex (.rv t g ro) (.ints idx) = valFieldByIndex c.structs t g ro true idx := rfl

/-- Everything `Marshal` assumes about the functions it calls. -/
structure CallSpecs (c : Ctx) : Prop where
  indirect : IndirectSpec c
  isEmpty : IsEmptySpec c
  marshalValue : MarshalValueSpec c

section phases
variable (c : Ctx) (hs : CallSpecs c) (m : Mem) (t0 : RType) (fs : List GVal) (fi : FieldInfo) (a : Nat) (gv : GVal) (fv : FVal)
  (h : m.heap[a]? = some (fiObj fi))
  (hfb : valFieldByIndex c.structs t0 (.struct fs) false true (fi.index.map Int.ofNat) = .ok (.rv (fiType fi) gv false))
  (hrep : RepF fi fv gv)

include hs h hfb hrep in
/-- Phase A: `fi`, `fv`, and whether the field is skipped. -/
theorem phaseA_spec (addrs : List Nat) (i : Nat) (hi : addrs[i]? = some a)
    (x0 x2 x3 x4 x5 x6 x7 x8 x9 x10 x11 x12 x13 x14 x17 x18 : Val) :
    ∃ y17 y18, exec c phaseA m [x0, .rv t0 (.struct fs) false, x2, x3, x4, x5, x6, x7, x8, x9, x10, x11, x12, x13, x14,
        .ptrs addrs, .int i, x17, x18] =
      (if fi.opts.omitEmpty && isEmptyVal fi fv then Out.cont else Out.norm) m
        [x0, .rv t0 (.struct fs) false, x2, x3, x4, x5, x6, x7, x8, .ptr a, .rv (fiType fi) gv false, x11, x12, x13, x14,
          .ptrs addrs, .int i, y17, y18] := by
  simp only [phaseA, loopBody, fieldsLoop, marshalTopIR, Stmt.drop, Stmt.head, Stmt.forBody, Stmt.take]
  cases hom : fi.opts.omitEmpty
  · refine ⟨x17, .bool false, ?_⟩
    ci_simp [indexVal_ptrs addrs i a hi, fi_index m a fi h, ext2_valFieldByIndex, hfb, fi_omitEmpty m a fi h, hom]
  · have hcall := hs.isEmpty m fi fv gv false hrep hom
    refine ⟨.bool (isEmptyVal fi fv), .bool (isEmptyVal fi fv), ?_⟩
    cases hie : isEmptyVal fi fv <;> rw [hie] at hcall <;>
      ci_simp [indexVal_ptrs addrs i a hi, fi_index m a fi h, ext2_valFieldByIndex, hfb, fi_omitEmpty m a fi h, hom, hcall]

include hs h hrep in
/-- Phase B: `indirect`, `marshalValue`, the error test. -/
theorem phaseB_spec (t : RType) (hfuel : fi.ptrDepth < c.fuel) (hbase : 2 ≤ fi.opts.base ∧ fi.opts.base ≤ 36)
    (x0 x1 x3 x4 x5 x6 x7 x8 x11 x12 x13 x14 x15 x16 x17 x18 : Val) :
    match Codec.marshalValue fi fv with
    | .ok s => ∃ y10, exec c phaseB m [x0, x1, .rtype t, x3, x4, x5, x6, x7, x8, .ptr a, .rv (fiType fi) gv false, x11, x12, x13, x14,
          x15, x16, x17, x18] =
        .norm m [x0, x1, .rtype t, x3, x4, x5, x6, x7, x8, .ptr a, y10, .str s, .nil, x13, x14, x15, x16, x17, x18]
    | .error e => ∃ n fs', exec c phaseB m [x0, x1, .rtype t, x3, x4, x5, x6, x7, x8, .ptr a, .rv (fiType fi) gv false, x11, x12, x13, x14,
          x15, x16, x17, x18] = .ret m [.str [], .recd n fs'] ∧ absErr m.heap (.recd n fs') = some e := by
  simp only [phaseB, loopBody, fieldsLoop, marshalTopIR, Stmt.drop, Stmt.head, Stmt.forBody, Stmt.take]
  rcases hrep with ⟨hd, hfv, hg⟩ | ⟨g0, hg, hv, hc⟩
  · subst hfv hg
    have hind := hs.indirect.2 m (fiType fi) false hd (by omega)
    have hmv := hs.marshalValue.2 m t a fi h
    cases hr : Codec.marshalValue fi .nilPtr with
    | ok s =>
      rw [hr] at hmv; simp only [MPost] at hmv
      exact ⟨.rvInvalid, by ci_simp [hind, hmv]⟩
    | error e =>
      rw [hr] at hmv; obtain ⟨n, fs', hmv, habs⟩ := hmv
      exact ⟨n, fs', by ci_simp [hind, hmv], habs⟩
  · subst hg
    have hind : c.call 3 m [.rv (fiType fi) (ptrChain fi.ptrDepth g0) false] =
        .ok (m, [.rv ⟨0, fi.kind, fi.typeName, fi.marshalText, fi.unmarshalText⟩ g0 false]) :=
      hs.indirect.1 m (fiType fi) g0 false hfuel
    have hmv : MPost m (Codec.marshalValue fi fv)
        (c.call 1 m [.rtype t, .ptr a, .rv ⟨0, fi.kind, fi.typeName, fi.marshalText, fi.unmarshalText⟩ g0 false]) :=
      hs.marshalValue.1 m t ⟨0, fi.kind, fi.typeName, fi.marshalText, fi.unmarshalText⟩ a fi fv g0 h rfl rfl rfl hbase hv hc
    cases hr : Codec.marshalValue fi fv with
    | ok s =>
      rw [hr] at hmv; simp only [MPost] at hmv
      exact ⟨.rv ⟨0, fi.kind, fi.typeName, fi.marshalText, fi.unmarshalText⟩ g0 false, by ci_simp [hind, hmv]⟩
    | error e =>
      rw [hr] at hmv; obtain ⟨n, fs', hmv, habs⟩ := hmv
      exact ⟨n, fs', by ci_simp [hind, hmv], habs⟩

/-- The separator the model writes before a field. -/
def sepOf (prev : Option FieldInfo) (fi : FieldInfo) : Bytes :=
  match prev with
  | some p => if p.opts.inline then [] else if p.opts.group && fi.opts.group then [Bytes.comma] else [Bytes.dollar]
  | none => []

def nameOf (fi : FieldInfo) : Bytes := if fi.opts.param ≠ [] then fi.opts.param ++ [Bytes.equals] else []

/-- The run-time `prevFi` for the model's `prev`. -/
def PrevRep (m : Mem) : Option FieldInfo → Val → Prop
  | none, .nil => True
  | some p, .ptr pa => m.heap[pa]? = some (fiObj p)
  | _, _ => False

include h in
/-- Phase C: separator, `param=`, the text, `prevFi = fi`. -/
theorem phaseC_spec (prev : Option FieldInfo) (pv : Val) (hp : PrevRep m prev pv) (buf s : Bytes)
    (x0 x1 x2 x3 x4 x6 x7 x10 x12 x13 x14 x15 x16 x17 x18 : Val) :
    exec c phaseC m [x0, x1, x2, x3, x4, .builder buf, x6, x7, pv, .ptr a, x10, .str s, x12, x13, x14, x15, x16, x17, x18] =
      .norm m [x0, x1, x2, x3, x4, .builder (buf ++ sepOf prev fi ++ nameOf fi ++ s), x6, x7, .ptr a, .ptr a, x10, .str s, x12, x13, x14,
        x15, x16, x17, x18] := by
  simp only [phaseC, loopBody, fieldsLoop, marshalTopIR, Stmt.drop, Stmt.head, Stmt.forBody, Stmt.take]
  have hname : ∀ b : Bytes, (if fi.opts.param = [] then b else b ++ fi.opts.param ++ [UInt8.ofNat 61]) = b ++ nameOf fi := by
    intro b; unfold nameOf; by_cases hpm : fi.opts.param = [] <;> simp [hpm, Bytes.equals]
  cases prev with
  | none =>
    cases pv <;> simp only [PrevRep] at hp
    by_cases hpm : fi.opts.param = [] <;>
      ci_simp [fi_param m a fi h, hpm] <;> simp [sepOf, nameOf, hpm, Bytes.equals]
  | some p =>
    cases pv <;> simp only [PrevRep] at hp
    rename_i pa
    cases hinl : p.opts.inline <;> cases hg1 : p.opts.group <;> cases hg2 : fi.opts.group <;>
      by_cases hpm : fi.opts.param = [] <;>
      ci_simp [fi_param m a fi h, fi_inline m pa p hp, fi_group m pa p hp, fi_group m a fi h, hinl, hg1, hg2, hpm] <;>
      simp [sepOf, nameOf, hpm, hinl, hg1, hg2, Bytes.equals, Bytes.comma, Bytes.dollar]

end phases

end GoCrypt.CIR
