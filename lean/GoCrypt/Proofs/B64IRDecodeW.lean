import GoCrypt.Proofs.B64IRQuantumTailW

/-!
# Buffer IR of `hash/base64le`: `Decode` on a prefix window of its source buffer

The lemmas of `B64IRDecode.lean` again for a source slice `⟨s, 0, src.size, cp⟩` (`src.size ≤ cp`) over
a heap buffer `S` of which `src` is a prefix. Helper lemmas only.
-/

namespace GoCrypt.B64IR
open GoCrypt.Base64LE GoCrypt.Gen.base64leIR GoCrypt.Gen.base64le GoCrypt.Spec.Base64Bits

/-- Frame of `Decode` between iterations: `n`, `err = nil`, `si`, and the block-local slots. -/
def dcEnvW (e : Encoding) (d dn s sn cp n si : Nat) (v6 v7 v8 v9 v10 v11 v12 v13 v14 : Val) : Env :=
  [encVal e, .slice ⟨d, 0, dn, dn⟩, .slice ⟨s, 0, sn, cp⟩, .int n, .err none, .int si, v6, v7, v8, v9, v10, v11, v12, v13, v14]

/-- What the calls made by `Decode` return. -/
structure DecCtxW (c : Ctx) (e : Encoding) (H : Heap) (d dn s : Nat) (src : Buf) (cp : Nat) : Prop where
  a32 : ∀ (h : Heap) (n1 n2 n3 n4 : Nat), c.call "assemble32" h [.int n1, .int n2, .int n3, .int n4] =
    .ok (h, [.int (assemble32 n1 n2 n3 n4).1, .bool (assemble32 n1 n2 n3 n4).2])
  a64 : ∀ (h : Heap) (n1 n2 n3 n4 n5 n6 n7 n8 : Nat),
    c.call "assemble64" h [.int n1, .int n2, .int n3, .int n4, .int n5, .int n6, .int n7, .int n8] =
    .ok (h, [.int (assemble64 n1 n2 n3 n4 n5 n6 n7 n8).1, .bool (assemble64 n1 n2 n3 n4 n5 n6 n7 n8).2])
  dq : ∀ (D : Buf) (n si : Nat), D.size = dn → n ≤ dn → si ≤ src.size →
    c.call "Encoding.decodeQuantum" (H.set d D) [encVal e, .slice ⟨d, n, dn - n, dn - n⟩,
      .slice ⟨s, 0, src.size, cp⟩, .int si] = ofQ (H.set d D) d (decodeQuantum e D n src si)
/-- What one iteration of a `Decode` loop must produce, given what the model's `decodeStep` returns. -/
def DecStepRelW (e : Encoding) (H : Heap) (d dn s sn cp : Nat) : Sum DRes (Nat × Nat × Nat × Buf) → Out → Prop
  | .inl r, o => if r.panic = true then o = .panic else o = .ret (H.set d r.dst) [.int (r.n : Nat), errVal r.err]
  | .inr (_, si', n', D'), o => ∃ v6 v7 v8 v9 v10 v11 v12 v13 v14,
      o = .norm (H.set d D') (dcEnvW e d dn s sn cp n' si' v6 v7 v8 v9 v10 v11 v12 v13 v14)

section loops
variable (c : Ctx) (e : Encoding) (hal : e.alphabet.length = 64) (H : Heap) (d dn s : Nat) (S src : Buf) (cp : Nat)
  (hdl : d < H.length) (hs : H[s]? = some S) (hle : src.size ≤ S.size) (hcp : src.size ≤ cp)
  (hbr : ∀ (i : Nat) (h1 : i < S.size) (h2 : i < src.size), S[i]'h1 = src[i]'h2) (hne : d ≠ s) (hdz : dn < 2 ^ 62) (hsz : src.size < 2 ^ 62)
  (hc : DecCtxW c e H d dn s src cp)

include hdz hc in
theorem decQ3_relW (D : Buf) (hD : D.size = dn) (n si : Nat) (hn : n ≤ dn) (hsi : si ≤ src.size)
    (v6 v7 v8 v9 v10 v11 v12 v13 v14 : Val) (ph : Nat) :
    DecStepRelW e H d dn s src.size cp (viaQ e src si n D ph)
      (exec c decFor3.forBody (H.set d D) (dcEnvW e d dn s src.size cp n si v6 v7 v8 v9 v10 v11 v12 v13 v14)) := by
  have hcall := hc.dq D n si hD hn hsi
  rw [viaQ_eq]
  cases hq : decodeQuantum e D n src si with
  | none =>
    rw [hq] at hcall
    simp only [ofQ, encVal] at hcall
    simp only [decFor3, Stmt.forBody, Stmt.head, Stmt.drop, decodeIR, dcEnvW, encVal, DecStepRelW]
    b64_simp [hcall]
  | some q =>
    have hp := dq_props e D n src si q (by omega) hsi hq
    rw [hq] at hcall
    simp only [ofQ, encVal] at hcall
    simp only [decFor3, Stmt.forBody, Stmt.head, Stmt.drop, decodeIR, dcEnvW, encVal]
    cases hqe : q.err with
    | none =>
      simp only [hqe, errVal, Option.map_none] at hcall
      simp only [DecStepRelW]
      b64_simp [hcall, Option.isNone_none]
      exact ⟨_, _, _, _, _, _, _, _, _, rfl⟩
    | some off =>
      simp only [hqe, errVal, Option.map_some] at hcall
      simp only [DecStepRelW]
      b64_simp [hcall, Option.isNone_some]
      rfl

include hdz hc in
theorem decQ2_relW (D : Buf) (hD : D.size = dn) (n si : Nat) (hn : n ≤ dn) (hsi : si ≤ src.size)
    (v6 v7 v8 v9 v10 v11 v12 v13 v14 : Val) (ph : Nat) :
    DecStepRelW e H d dn s src.size cp (viaQ e src si n D ph)
      (exec c decQ2 (H.set d D) (dcEnvW e d dn s src.size cp n si v6 v7 v8 v9 v10 v11 v12 v13 v14)) := by
  have hcall := hc.dq D n si hD hn hsi
  rw [viaQ_eq]
  cases hq : decodeQuantum e D n src si with
  | none =>
    rw [hq] at hcall
    simp only [ofQ, encVal] at hcall
    simp only [decQ2, decFor2, Stmt.forBody, Stmt.iteElse, Stmt.head, Stmt.drop, decodeIR, dcEnvW, encVal, DecStepRelW]
    b64_simp [hcall]
  | some q =>
    have hp := dq_props e D n src si q (by omega) hsi hq
    rw [hq] at hcall
    simp only [ofQ, encVal] at hcall
    simp only [decQ2, decFor2, Stmt.forBody, Stmt.iteElse, Stmt.head, Stmt.drop, decodeIR, dcEnvW, encVal]
    cases hqe : q.err with
    | none =>
      simp only [hqe, errVal, Option.map_none] at hcall
      simp only [DecStepRelW]
      b64_simp [hcall, Option.isNone_none]
      exact ⟨_, _, _, _, _, _, _, _, _, rfl⟩
    | some off =>
      simp only [hqe, errVal, Option.map_some] at hcall
      simp only [DecStepRelW]
      b64_simp [hcall, Option.isNone_some]
      rfl

include hdz hc in
theorem decQ1_relW (D : Buf) (hD : D.size = dn) (n si : Nat) (hn : n ≤ dn) (hsi : si ≤ src.size)
    (v6 v7 v8 v9 v10 v11 v12 v13 v14 : Val) (ph : Nat) :
    DecStepRelW e H d dn s src.size cp (viaQ e src si n D ph)
      (exec c decQ1 (H.set d D) (dcEnvW e d dn s src.size cp n si v6 v7 v8 v9 v10 v11 v12 v13 v14)) := by
  have hcall := hc.dq D n si hD hn hsi
  rw [viaQ_eq]
  cases hq : decodeQuantum e D n src si with
  | none =>
    rw [hq] at hcall
    simp only [ofQ, encVal] at hcall
    simp only [decQ1, decFor1, Stmt.forBody, Stmt.iteElse, Stmt.head, Stmt.drop, decodeIR, dcEnvW, encVal, DecStepRelW]
    b64_simp [hcall]
  | some q =>
    have hp := dq_props e D n src si q (by omega) hsi hq
    rw [hq] at hcall
    simp only [ofQ, encVal] at hcall
    simp only [decQ1, decFor1, Stmt.forBody, Stmt.iteElse, Stmt.head, Stmt.drop, decodeIR, dcEnvW, encVal]
    cases hqe : q.err with
    | none =>
      simp only [hqe, errVal, Option.map_none] at hcall
      simp only [DecStepRelW]
      b64_simp [hcall, Option.isNone_none]
      exact ⟨_, _, _, _, _, _, _, _, _, rfl⟩
    | some off =>
      simp only [hqe, errVal, Option.map_some] at hcall
      simp only [DecStepRelW]
      b64_simp [hcall, Option.isNone_some]
      rfl

include hal hdl hs hle hcp hbr hne hdz hsz hc in
/-- One iteration of the 4-symbol loop. -/
theorem decBody2_relW (D : Buf) (hD : D.size = dn) (n si : Nat) (hsi : src.size - si ≥ 4) (hn : dn - n ≥ 4)
    (v6 v7 v8 v9 v10 v11 v12 v13 v14 : Val) (phase : Nat) (hph : phase ≤ 1)
    (h8 : ¬ (phase = 0 ∧ src.size - si ≥ 8 ∧ D.size - n ≥ 8)) :
    DecStepRelW e H d dn s src.size cp (decodeStep e src phase si n D)
      (exec c decFor2.forBody (H.set d D) (dcEnvW e d dn s src.size cp n si v6 v7 v8 v9 v10 v11 v12 v13 v14)) := by
  rw [decodeStep_4 e src phase si n D hph h8 ⟨hsi, by omega⟩]
  rw [arr_getD_eq (show si < src.size by omega), arr_getD_eq (show si + 1 < src.size by omega),
    arr_getD_eq (show si + 2 < src.size by omega), arr_getD_eq (show si + 3 < src.size by omega)]
  have m0 := decodeMap_index e hal src[si]
  have m1 := decodeMap_index e hal src[si + 1]
  have m2 := decodeMap_index e hal src[si + 2]
  have m3 := decodeMap_index e hal src[si + 3]
  have ha := hc.a32
  have hss : (H.set d D)[s]? = some S := by rw [List.getElem?_set_ne hne]; exact hs
  have hdd : (H.set d D)[d]? = some D := List.getElem?_set_self hdl
  have hpre : exec c (decFor2.forBody.take 2) (H.set d D) (dcEnvW e d dn s src.size cp n si v6 v7 v8 v9 v10 v11 v12 v13 v14) =
      .norm (H.set d D) (dcEnvW e d dn s src.size cp n si v6 v7 v8 v9 (.slice ⟨s, si, 4, cp - si⟩)
        (.int (assemble32 (e.dec src[si]) (e.dec src[si + 1]) (e.dec src[si + 2]) (e.dec src[si + 3])).1)
        (.bool (assemble32 (e.dec src[si]) (e.dec src[si + 1]) (e.dec src[si + 2]) (e.dec src[si + 3])).2) v13 v14) := by
    simp only [decFor2, Stmt.forBody, Stmt.take, Stmt.head, Stmt.drop, decodeIR, dcEnvW, encVal]
    b64_simp [hss, hbr, m0, m1, m2, m3, ha, Nat.add_sub_cancel_left]
  rw [exec_take_drop c _ _ 2, hpre, andThen_norm, decBody2_split, exec_ite]
  cases hr : (assemble32 (e.dec src[si]) (e.dec src[si + 1]) (e.dec src[si + 2]) (e.dec src[si + 3])).2
  · -- a digit is missing: decode one quantum the slow way
    have : (eval (H.set d D) (dcEnvW e d dn s src.size cp n si v6 v7 v8 v9 (.slice ⟨s, si, 4, cp - si⟩)
        (.int (assemble32 (e.dec src[si]) (e.dec src[si + 1]) (e.dec src[si + 2]) (e.dec src[si + 3])).1)
        (.bool false) v13 v14) (.var 12) >>= asBool) = .ok false := by
      simp only [dcEnvW]; b64_simp []
    rw [this, bindR_ok]
    simp only [Bool.false_eq_true, if_false]
    exact decQ2_relW c e H d dn s src cp hdz hc D hD n si (by omega) (by omega) _ _ _ _ _ _ _ _ _ 1
  · have : (eval (H.set d D) (dcEnvW e d dn s src.size cp n si v6 v7 v8 v9 (.slice ⟨s, si, 4, cp - si⟩)
        (.int (assemble32 (e.dec src[si]) (e.dec src[si + 1]) (e.dec src[si + 2]) (e.dec src[si + 3])).1)
        (.bool true) v13 v14) (.var 12) >>= asBool) = .ok true := by
      simp only [dcEnvW]; b64_simp []
    rw [this, bindR_ok]
    simp only [if_true, DecStepRelW]
    simp only [decFast2, decFor2, Stmt.forBody, Stmt.iteThen, Stmt.head, Stmt.drop, decodeIR, dcEnvW, encVal]
    b64_simp [hdd, hD, putBE, beBytes_eq, writeList_eq_writeAt]
    exact ⟨_, _, _, _, _, _, _, _, _, rfl⟩

set_option maxHeartbeats 1000000 in
include hal hdl hs hle hcp hbr hne hdz hsz hc in
/-- One iteration of the 8-symbol loop. -/
theorem decBody1_relW (D : Buf) (hD : D.size = dn) (n si : Nat) (hsi : src.size - si ≥ 8) (hn : dn - n ≥ 8)
    (v6 v7 v8 v9 v10 v11 v12 v13 v14 : Val) :
    DecStepRelW e H d dn s src.size cp (decodeStep e src 0 si n D)
      (exec c decFor1.forBody (H.set d D) (dcEnvW e d dn s src.size cp n si v6 v7 v8 v9 v10 v11 v12 v13 v14)) := by
  rw [decodeStep_8 e src si n D ⟨hsi, by omega⟩]
  rw [arr_getD_eq (show si < src.size by omega), arr_getD_eq (show si + 1 < src.size by omega),
    arr_getD_eq (show si + 2 < src.size by omega), arr_getD_eq (show si + 3 < src.size by omega),
    arr_getD_eq (show si + 4 < src.size by omega), arr_getD_eq (show si + 5 < src.size by omega),
    arr_getD_eq (show si + 6 < src.size by omega), arr_getD_eq (show si + 7 < src.size by omega)]
  have m0 := decodeMap_index e hal src[si]
  have m1 := decodeMap_index e hal src[si + 1]
  have m2 := decodeMap_index e hal src[si + 2]
  have m3 := decodeMap_index e hal src[si + 3]
  have m4 := decodeMap_index e hal src[si + 4]
  have m5 := decodeMap_index e hal src[si + 5]
  have m6 := decodeMap_index e hal src[si + 6]
  have m7 := decodeMap_index e hal src[si + 7]
  have ha := hc.a64
  have hss : (H.set d D)[s]? = some S := by rw [List.getElem?_set_ne hne]; exact hs
  have hdd : (H.set d D)[d]? = some D := List.getElem?_set_self hdl
  have hpre : exec c (decFor1.forBody.take 2) (H.set d D) (dcEnvW e d dn s src.size cp n si v6 v7 v8 v9 v10 v11 v12 v13 v14) =
      .norm (H.set d D) (dcEnvW e d dn s src.size cp n si (.slice ⟨s, si, 8, cp - si⟩)
        (.int (assemble64 (e.dec src[si]) (e.dec src[si + 1]) (e.dec src[si + 2]) (e.dec src[si + 3]) (e.dec src[si + 4]) (e.dec src[si + 5]) (e.dec src[si + 6]) (e.dec src[si + 7])).1)
        (.bool (assemble64 (e.dec src[si]) (e.dec src[si + 1]) (e.dec src[si + 2]) (e.dec src[si + 3]) (e.dec src[si + 4]) (e.dec src[si + 5]) (e.dec src[si + 6]) (e.dec src[si + 7])).2) v9 v10 v11 v12 v13 v14) := by
    simp only [decFor1, Stmt.forBody, Stmt.take, Stmt.head, Stmt.drop, decodeIR, dcEnvW, encVal]
    b64_simp [hss, hbr, m0, m1, m2, m3, m4, m5, m6, m7, ha, Nat.add_sub_cancel_left]
  rw [exec_take_drop c _ _ 2, hpre, andThen_norm, decBody1_split, exec_ite]
  cases hr : (assemble64 (e.dec src[si]) (e.dec src[si + 1]) (e.dec src[si + 2]) (e.dec src[si + 3]) (e.dec src[si + 4]) (e.dec src[si + 5]) (e.dec src[si + 6]) (e.dec src[si + 7])).2
  · have : (eval (H.set d D) (dcEnvW e d dn s src.size cp n si (.slice ⟨s, si, 8, cp - si⟩)
        (.int (assemble64 (e.dec src[si]) (e.dec src[si + 1]) (e.dec src[si + 2]) (e.dec src[si + 3]) (e.dec src[si + 4]) (e.dec src[si + 5]) (e.dec src[si + 6]) (e.dec src[si + 7])).1)
        (.bool false) v9 v10 v11 v12 v13 v14) (.var 8) >>= asBool) = .ok false := by
      simp only [dcEnvW]; b64_simp []
    rw [this, bindR_ok]
    simp only [Bool.false_eq_true, if_false]
    exact decQ1_relW c e H d dn s src cp hdz hc D hD n si (by omega) (by omega) (.slice ⟨s, si, 8, cp - si⟩)
      (.int (assemble64 (e.dec src[si]) (e.dec src[si + 1]) (e.dec src[si + 2]) (e.dec src[si + 3]) (e.dec src[si + 4]) (e.dec src[si + 5]) (e.dec src[si + 6]) (e.dec src[si + 7])).1) (.bool false) v9 v10 v11 v12 v13 v14 0
  · have : (eval (H.set d D) (dcEnvW e d dn s src.size cp n si (.slice ⟨s, si, 8, cp - si⟩)
        (.int (assemble64 (e.dec src[si]) (e.dec src[si + 1]) (e.dec src[si + 2]) (e.dec src[si + 3]) (e.dec src[si + 4]) (e.dec src[si + 5]) (e.dec src[si + 6]) (e.dec src[si + 7])).1)
        (.bool true) v9 v10 v11 v12 v13 v14) (.var 8) >>= asBool) = .ok true := by
      simp only [dcEnvW]; b64_simp []
    rw [this, bindR_ok]
    simp only [if_true, DecStepRelW]
    simp only [decFast1, decFor1, Stmt.forBody, Stmt.iteThen, Stmt.head, Stmt.drop, decodeIR, dcEnvW, encVal]
    b64_simp [hdd, hD, putBE, beBytes_eq, writeList_eq_writeAt]
    exact ⟨_, _, _, _, _, _, _, _, _, rfl⟩

end loops

end GoCrypt.B64IR
