import GoCrypt.Proofs.CodecIRUPrologue
import GoCrypt.Props.C11Core

/-!
# Codec IR: the executable `parse.Parse` of the examples satisfies `ParseOkAt`

`Examples.parseExt` writes the nodes of the model's `Parse.parse hash` into `Mem.nodes`.  Here: the layout it produces (`layOf`),
that the nodes represent the fragments (`RepFA`), that the value addresses are pairwise distinct, and the length bounds from the
parser facts of `Props/C11Core.lean`; together `ParseOkAt` for every `F > hash.length`.
-/

namespace GoCrypt.CIR
open GoCrypt.Codec GoCrypt.Gen.codecIR GoCrypt.Parse
open GoCrypt.TIIR (Res)

/-- Where `putFrags`, started with `n0` nodes, puts the fragments. -/
def layOf (n0 : Nat) : List Frag → List FA
  | [] => []
  | .value _ :: fs => .value n0 :: layOf (n0 + 1) fs
  | .group vs :: fs => .group (n0 + vs.length) ((List.range vs.length).map (n0 + ·)) :: layOf (n0 + vs.length + 1) fs

theorem putFrags_cons (nodes : List PNode) (f : Frag) (fs : List Frag) :
    Examples.putFrags nodes (f :: fs) =
      ((Examples.putFrags (Examples.putFrag nodes f).1 fs).1,
        (Examples.putFrag nodes f).2 :: (Examples.putFrags (Examples.putFrag nodes f).1 fs).2) := rfl

theorem all2_of_getElem? {α β : Type} {R : α → β → Prop} : ∀ (l1 : List α) (l2 : List β), l1.length = l2.length →
    (∀ (i : Nat) a b, l1[i]? = some a → l2[i]? = some b → R a b) → All2 R l1 l2
  | [], [], _, _ => .nil
  | [], _ :: _, h, _ => by simp at h
  | _ :: _, [], h, _ => by simp at h
  | a :: l1, b :: l2, h, hr =>
    .cons (hr 0 a b rfl rfl) (all2_of_getElem? l1 l2 (by simpa using h) (fun i a b h1 h2 => hr (i + 1) a b (by simpa using h1) (by simpa using h2)))

/-- The members of a group written after `pre`. -/
theorem repVNodes_group (heap : TIIR.Heap) (dest : List (List Nat × GVal)) (pre post : List PNode) (vs : List VNode) :
    All2 (RepVNode ⟨heap, dest, pre ++ vs.map (fun v => PNode.value v.val v.pos v.fin) ++ post⟩)
      ((List.range vs.length).map (pre.length + ·)) vs := by
  apply all2_of_getElem?
  · simp
  · intro i a v h1 h2
    have hi : i < vs.length := by
      rcases Nat.lt_or_ge i vs.length with h | h
      · exact h
      · rw [List.getElem?_eq_none (by simpa using h)] at h2; cases h2
    have ha : a = pre.length + i := by
      rw [List.getElem?_map, List.getElem?_range hi] at h1
      simpa using h1.symm
    subst ha
    show (pre ++ vs.map (fun v => PNode.value v.val v.pos v.fin) ++ post)[pre.length + i]? = _
    rw [List.append_assoc, List.getElem?_append_right (Nat.le_add_right _ _), Nat.add_sub_cancel_left,
      List.getElem?_append_left (by simpa using hi), List.getElem?_map, h2]
    rfl

/-- One fragment: the new node list extends the old one, the address is the layout's, and the nodes represent the fragment in every
node list that extends the new one. -/
theorem putFrag_spec (heap : TIIR.Heap) (dest : List (List Nat × GVal)) (nodes : List PNode) (f : Frag) (fs : List Frag)
    (hne : ∀ vs, f = .group vs → vs ≠ []) :
    ∃ fa, layOf nodes.length (f :: fs) = fa :: layOf (Examples.putFrag nodes f).1.length fs ∧
      (Examples.putFrag nodes f).2 = fa.addr ∧ nodes <+: (Examples.putFrag nodes f).1 ∧
      (∀ N, (Examples.putFrag nodes f).1 <+: N → RepFA ⟨heap, dest, N⟩ fa f) := by
  cases f with
  | value v =>
    refine ⟨.value nodes.length, by simp [layOf, Examples.putFrag], rfl, by simp [Examples.putFrag], ?_⟩
    rintro N ⟨t, rfl⟩
    simp [Examples.putFrag, RepFA, RepVNode]
  | group vs =>
    refine ⟨.group (nodes.length + vs.length) ((List.range vs.length).map (nodes.length + ·)),
      by simp [layOf, Examples.putFrag, Nat.add_assoc], by simp [Examples.putFrag, FA.addr], ?_, ?_⟩
    · simp only [Examples.putFrag, List.append_assoc]; exact List.prefix_append _ _
    · rintro N ⟨t, rfl⟩
      refine ⟨?_, ?_, ?_⟩
      · show (nodes ++ vs.map (fun v => PNode.value v.val v.pos v.fin) ++ [PNode.group _] ++ t)[nodes.length + vs.length]? = _
        rw [List.append_assoc, List.getElem?_append_right (by simp), List.getElem?_append_left (by simp)]
        simp
      · have := hne vs rfl
        cases vs with
        | nil => exact absurd rfl this
        | cons v vs => simp [List.range_succ_eq_map]
      · have := repVNodes_group heap dest nodes ([PNode.group ((List.range vs.length).map (nodes.length + ·))] ++ t) vs
        simpa [Examples.putFrag, List.append_assoc] using this

theorem putFrags_spec (heap : TIIR.Heap) (dest : List (List Nat × GVal)) : ∀ (frags : List Frag) (nodes : List PNode),
    (∀ vs, Frag.group vs ∈ frags → vs ≠ []) →
    (Examples.putFrags nodes frags).2 = (layOf nodes.length frags).map FA.addr ∧ nodes <+: (Examples.putFrags nodes frags).1 ∧
      (∀ N, (Examples.putFrags nodes frags).1 <+: N → All2 (RepFA ⟨heap, dest, N⟩) (layOf nodes.length frags) frags)
  | [], nodes, _ => ⟨rfl, List.prefix_refl _, fun _ _ => .nil⟩
  | f :: fs, nodes, hne => by
    obtain ⟨fa, hlay, haddr, hpre, hrep⟩ := putFrag_spec heap dest nodes f fs (fun vs h => hne vs (by simp [h]))
    obtain ⟨ih1, ih2, ih3⟩ := putFrags_spec heap dest fs (Examples.putFrag nodes f).1 (fun vs h => hne vs (by simp [h]))
    rw [putFrags_cons, hlay]
    refine ⟨by simp [ih1, haddr], hpre.trans ih2, fun N hN => .cons (hrep N (ih2.trans hN)) (ih3 N hN)⟩

/-- The value addresses of the layout are at least the base and strictly increasing. -/
theorem layOf_sorted : ∀ (frags : List Frag) (n0 : Nat),
    (∀ a ∈ (layOf n0 frags).flatMap FA.vaddrs, n0 ≤ a) ∧ ((layOf n0 frags).flatMap FA.vaddrs).Pairwise (· < ·)
  | [], _ => by simp [layOf]
  | .value v :: fs, n0 => by
    obtain ⟨h1, h2⟩ := layOf_sorted fs (n0 + 1)
    simp only [layOf, List.flatMap_cons, FA.vaddrs, List.singleton_append, List.mem_cons, List.pairwise_cons]
    refine ⟨?_, ?_, h2⟩
    · rintro a (rfl | ha)
      · exact Nat.le_refl _
      · have := h1 a ha; omega
    · intro a ha; have := h1 a ha; omega
  | .group vs :: fs, n0 => by
    obtain ⟨h1, h2⟩ := layOf_sorted fs (n0 + vs.length + 1)
    simp only [layOf, List.flatMap_cons, FA.vaddrs, List.mem_append, List.pairwise_append]
    refine ⟨?_, ?_, h2, ?_⟩
    · rintro a (ha | ha)
      · simp only [List.mem_map, List.mem_range] at ha
        obtain ⟨i, _, rfl⟩ := ha; omega
      · have := h1 a ha; omega
    · rw [List.pairwise_map]
      exact List.Pairwise.imp (fun h => by omega) List.pairwise_lt_range
    · intro a ha b hb
      simp only [List.mem_map, List.mem_range] at ha
      obtain ⟨i, hi, rfl⟩ := ha
      have := h1 b hb; omega

theorem layOf_nodup (frags : List Frag) (n0 : Nat) : ((layOf n0 frags).flatMap FA.vaddrs).Nodup :=
  List.Pairwise.imp (fun h => Nat.ne_of_lt h) (layOf_sorted frags n0).2

/-! ## Bounds -/

theorem joinWith_length_count (d : UInt8) : ∀ l : List Bytes, l.length ≤ (joinWith d l).length + 1
  | [] => by simp [joinWith]
  | [x] => by simp [joinWith]
  | x :: y :: rest => by
    have := joinWith_length_count d (y :: rest)
    simp only [joinWith, List.length_append, List.length_cons] at this ⊢
    omega

theorem joinWith_length_mem (d : UInt8) : ∀ (l : List Bytes) (x : Bytes), x ∈ l → x.length ≤ (joinWith d l).length
  | [], _, h => by cases h
  | [y], x, h => by simp at h; subst h; simp [joinWith]
  | y :: z :: rest, x, h => by
    simp only [joinWith, List.length_append, List.length_cons]
    rcases List.mem_cons.1 h with rfl | h
    · omega
    · have := joinWith_length_mem d (z :: rest) x h; omega

theorem frag_render_le (t : Tree) (f : Frag) (hf : f ∈ t.frags) : f.render.length ≤ t.render.length := by
  have := joinWith_length_mem Bytes.dollar (t.frags.map Frag.render) f.render (List.mem_map_of_mem hf)
  simp only [Tree.render, List.length_append]
  omega

theorem parse_bounds (hash : Bytes) (tree : Tree) (hp : Parse.parse hash = .ok tree) (F : Nat) (hF : hash.length < F) :
    (∀ p, tree.pfx = some p → p.length ≤ F) ∧ (∀ v, Frag.value v ∈ tree.frags → v.val.length ≤ F) ∧
      ShortG F tree.frags ∧ GroupsLe F tree.frags := by
  have hsp := C11.spans_exact hash tree hp
  obtain ⟨d, _, hd⟩ := C11.parse_lossless hash tree hp
  have hlen : tree.render.length ≤ hash.length := by rw [← hd]; simp
  refine ⟨?_, ?_, ?_, ?_⟩
  · intro p hpf
    have : p.length ≤ tree.render.length := by simp [Tree.render, hpf]
    omega
  · intro v hv
    have := hsp v (by simp only [Tree.nodes, List.mem_flatMap]; exact ⟨_, hv, by simp [Frag.nodes]⟩)
    omega
  · intro g hg v hv
    have := hsp v (by simp only [Tree.nodes, List.mem_flatMap]; exact ⟨_, hg, by simpa [Frag.nodes] using hv⟩)
    omega
  · intro g hg
    have h1 := frag_render_le tree _ hg
    have h2 := joinWith_length_count Bytes.comma (g.map (·.val))
    simp only [Frag.render] at h1
    simp only [List.length_map] at h2
    omega

/-! ## The theorem -/

/-- **The executable `parse.Parse` of the examples meets the hypothesis of the top-level `Unmarshal` theorem**, for every bound above
the input's length. -/
theorem parseOkAt_parseExt (ext : String → Mem → List Val → Res (Mem × List Val))
    (hext : ∀ m h, ext "parse.Parse" m [.str h] = Examples.parseExt m h)
    (F : Nat) (m : Mem) (hash : Bytes) (hF : hash.length < F) : ParseOkAt ext F m hash := by
  unfold ParseOkAt
  rw [hext]
  unfold Examples.parseExt
  generalize hp : Parse.parse hash = r
  cases r with
  | err o e => rfl
  | nilInGroup => rfl
  | ok tree =>
    obtain ⟨hb1, hb2, hb3, hb4⟩ := parse_bounds hash tree hp F hF
    have hne := C11.groups_nonempty hash tree hp
    obtain ⟨pfx, frags⟩ := tree
    cases pfx with
    | none =>
      obtain ⟨h1, _, h3⟩ := putFrags_spec m.heap m.dest frags m.nodes hne
      refine ⟨(Examples.putFrags m.nodes frags).1, .nil, layOf m.nodes.length frags, ?_, rfl,
        h3 _ (List.prefix_refl _), layOf_nodup _ _, hb2, hb3, hb4⟩
      simp only [h1]
    | some p =>
      obtain ⟨h1, h2, h3⟩ := putFrags_spec m.heap m.dest frags (m.nodes ++ [.pfx p]) hne
      refine ⟨(Examples.putFrags (m.nodes ++ [.pfx p]) frags).1, .node m.nodes.length,
        layOf (m.nodes ++ [PNode.pfx p]).length frags, ?_, ⟨_, rfl, ?_, hb1 p rfl⟩,
        h3 _ (List.prefix_refl _), layOf_nodup _ _, hb2, hb3, hb4⟩
      · simp only [h1]
      · obtain ⟨t, ht⟩ := h2
        rw [← ht]
        simp

end GoCrypt.CIR
