import GoCrypt.Proofs.CodecIRUDefs
import GoCrypt.Proofs.CodecIRExamples

/-!
# Codec IR: running the regenerated `Unmarshal` on concrete struct descriptions

Definitions only, for the `#guard` examples of `Props/CodecIRU.lean`: concrete external functions (`parse.Parse`
writes the nodes of the model's `Parse.parse` into the memory; `getTypeInfo` as on the marshal side;
`indirectType`; `(fieldInfo).String`), a zero destination, and `agreesU`, which runs function 5 and compares
with `Codec.unmarshal` + `finalVals` (or the error through `absErrU`).
-/

namespace GoCrypt.CIR.Examples
open GoCrypt.Codec GoCrypt.Gen.codecIR GoCrypt.CIR GoCrypt.Parse
open GoCrypt.TIIR (RType Res fiObj tiObj fiType)

/-- Append the nodes of one fragment; returns the new node list and the fragment's address. -/
def putFrag (nodes : List PNode) : Frag → List PNode × Nat
  | .value v => (nodes ++ [.value v.val v.pos v.fin], nodes.length)
  | .group vs =>
    let members := (List.range vs.length).map (nodes.length + ·)
    let nodes' := nodes ++ vs.map (fun v => PNode.value v.val v.pos v.fin)
    (nodes' ++ [.group members], nodes'.length)

def putFrags (nodes : List PNode) : List Frag → List PNode × List Nat
  | [] => (nodes, [])
  | f :: fs =>
    let (n1, a) := putFrag nodes f
    let (n2, as) := putFrags n1 fs
    (n2, a :: as)

/-- `parse.Parse` as the model's parser: the tree's nodes go to the memory. -/
def parseExt (m : Mem) (hash : Bytes) : Res (Mem × List Val) :=
  match Parse.parse hash with
  | .ok tree =>
    let (n1, pv) : List PNode × Val := match tree.pfx with
      | some p => (m.nodes ++ [.pfx p], .node m.nodes.length)
      | none => (m.nodes, .nil)
    let (n2, as) := putFrags n1 tree.frags
    .ok ({ m with nodes := n2 }, [.recd "Tree" [pv, .nodes as], .nil])
  | .err o e => .ok (m, [.nil, .parseErr o e])
  | .nilInGroup => .ok (m, [.nil, .parseErr 0 99])

def fieldStringExt (m : Mem) (a : Nat) : Res (Mem × List Val) :=
  match m.heap[a]? with
  | some (o : List TIIR.Val) =>
    (match o[5]?, o[6]? with
     | some (TIIR.Val.bool g), some (TIIR.Val.str p) =>
       .ok (m, [.str (litOf (if g then "grouped param" else if p ≠ [] then "param" else "value"))])
     | _, _ => .stuck "not a fieldInfo record")
  | none => .stuck "dangling pointer"

def extRefU (structs : List GoStruct) : String → Mem → List Val → Res (Mem × List Val)
  | name, m, args =>
    if name = "parse.Parse" then (match args with | [.str h] => parseExt m h | _ => .stuck "parse.Parse")
    else if name = "indirectType" then (match args with | [.rtype t] => .ok (m, [.rtype { t with depth := 0 }]) | _ => .stuck "indirectType")
    else if name = "fieldInfo.String" then (match args with | [.ptr a] => fieldStringExt m a | _ => .stuck "fieldInfo.String")
    else extRef structs name m args

def worldU (structs : List GoStruct) : World :=
  { structs := structs, fuel := 300, ext := extRefU structs, indexAnyInvalid := indexAnyInvalidRef, marshalText := marshalTextRef,
    unmarshalText := unmarshalTextRef }

/-- The zero destination: one cell per field `ti` lists. -/
def zeroDest (ti : TypeInfo) : List (List Nat × GVal) :=
  (ti.hashPrefix.toList ++ ti.fields).map fun fi => (fi.index, zeroG (fiType fi))

def runU (structs : List GoStruct) (root : String) (hash : Bytes) : Res (Mem × List Val) :=
  let dest := match typeInfoOf structs root with | .ok ti => zeroDest ti | .error _ => []
  callIn program (worldU structs) 12 5 { dest := dest } [.str hash, .dptr (rootType root 1)]

/-- The model's view of a cell. -/
def fOfG : GVal → FVal
  | .nilPtr => .nilPtr
  | .ptr g => fOfG g
  | .str s => .str s
  | .bytes b => .bytes b
  | .int v => .int v
  | .uint v => .uint v
  | _ => .other

/-- The run agrees with the model: success and every cell holds `finalVals`' value, or the same error. -/
def agreesU (structs : List GoStruct) (root : String) (hash : Bytes) : Bool :=
  match typeInfoOf structs root with
  | .error e =>
    (match runU structs root hash with
     | .ok (m, [v]) => absErrU m.heap v == some (.tag e) || (match Parse.parse hash with | .ok _ => false | _ => absErrU m.heap v == (match Codec.unmarshal {} hash with | .error e' => some e' | _ => none))
     | _ => false)
  | .ok ti =>
    match runU structs root hash, Codec.unmarshal ti hash with
    | .ok (m, [.nil]), .ok out =>
      (finalVals ti out).all fun (idx, fv) => (cellRoot m idx).map fOfG == some fv
    | .ok (m, [v]), .error e => absErrU m.heap v == some e
    | _, _ => false

/-- What the run stored (for examples that spell the expected values out). -/
def storedU (structs : List GoStruct) (root : String) (hash : Bytes) : Option (List (List Nat × FVal)) :=
  match runU structs root hash with
  | .ok (m, [.nil]) => some (m.dest.map fun (idx, g) => (idx, fOfG g))
  | _ => none

end GoCrypt.CIR.Examples
