import GoCrypt.Spec.SFlowVal2Parse
import GoCrypt.Proofs.SFlowValLex

/-!
# Symbolic evaluation of the extended structured-flow interpreter (`Spec/SFlowVal2*.lean`)

As in `Proofs/SFlowVal.lean`: the programs of `Gen/ParseFlow.lean` are concrete terms, their inputs
symbolic; `simp [sflowval]` runs the interpreter on them.  This file adds the defining equations of
the new evaluators to that simp set, the projections of the primitive records `pp0` … `pp4`, and what
the primitives do on a state whose **last** heap object is the lexer and whose last channel is the
lexer's (`LS`), which is the shape of the state while the lexer goroutine runs.
-/

namespace GoCrypt.SFlowVal2
open GoCrypt GoCrypt.Flow GoCrypt.SFlow GoCrypt.SFlow2 GoCrypt.SFlowVal

attribute [sflowval] execBlock2 execCases evalX evalSpineX evalListX evalCallee matchVals
  runFunc2 callRes bindArgs Flow2.pop swEnd condVal spreadArg
-- every statement but the loop, which is kept folded (`loopOf`) so that it can be reasoned about by induction
attribute [sflowval] exec2.eq_1 exec2.eq_2 exec2.eq_3 exec2.eq_4 exec2.eq_5 exec2.eq_6 exec2.eq_7
  exec2.eq_9 exec2.eq_10 exec2.eq_11 exec2.eq_12 exec2.eq_13

/-- The iterations of `label: for …; c; post { body }` (in the scope of the init statement). -/
def loopOf {σ ν} (P : Prims σ ν) (fuel : Nat) (label : String) (c : Option FExpr) (post body : List PStmt) :
    Nat → Env ν → σ → Flow2 σ ν :=
  loopN label (condVal P c) (fun env st => (execBlock2 P fuel body ([] :: env) st).pop)
    (fun env st => execBlock2 P fuel post env st)

@[sflowval] theorem exec2_loop {σ ν} (P : Prims σ ν) (fuel : Nat) (env : Env ν) (st : σ) (label : String)
    (init : List PStmt) (c : Option FExpr) (post body : List PStmt) :
    exec2 P fuel (.loop label init c post body) env st =
      match execBlock2 P fuel init ([] :: env) st with
      | .next env1 st1 => (loopOf P fuel label c post body fuel env1 st1).pop
      | f => f.pop := by
  rw [exec2.eq_8]; rfl

theorem loopOf_zero {σ ν} (P : Prims σ ν) (fuel : Nat) (label : String) (c : Option FExpr) (post body : List PStmt)
    (env : Env ν) (st : σ) : loopOf P fuel label c post body 0 env st = .stuck "loop: out of fuel" := rfl

/-- One iteration. -/
theorem loopOf_succ {σ ν} (P : Prims σ ν) (fuel : Nat) (label : String) (c : Option FExpr) (post body : List PStmt)
    (n : Nat) (env : Env ν) (st : σ) :
    loopOf P fuel label c post body (n + 1) env st =
      match condVal P c env st with
      | .ok (false, st1) => .next env st1
      | .ok (true, st1) =>
        (match (execBlock2 P fuel body ([] :: env) st1).pop with
         | .next env2 st2 =>
           (match execBlock2 P fuel post env2 st2 with
            | .next env3 st3 => loopOf P fuel label c post body n env3 st3
            | f => f)
         | .cont l env2 st2 =>
           if labelHit label l then
             (match execBlock2 P fuel post env2 st2 with
              | .next env3 st3 => loopOf P fuel label c post body n env3 st3
              | f => f)
           else .cont l env2 st2
         | .brk l env2 st2 => if labelHit label l then .next env2 st2 else .brk l env2 st2
         | f => f)
      | .panic w => .panic w
      | .stuck w => .stuck w := rfl

/-! ## Lists as heaps -/

@[simp] theorem lget_append_length {α} (p : List α) (x : α) : lget (p ++ [x]) p.length = some x := by
  induction p with
  | nil => rfl
  | cons a p ih => simpa [lget] using ih

@[simp] theorem lset_append_length {α} (p : List α) (x y : α) :
    lset (p ++ [x]) p.length y = some (p ++ [y]) := by
  induction p with
  | nil => rfl
  | cons a p ih => simp [lset, ih]

theorem lget_lt {α} (l : List α) (a : Nat) (x : α) (h : lget l a = some x) : a < l.length := by
  induction l generalizing a with
  | nil => simp [lget] at h
  | cons y r ih =>
    cases a with
    | zero => simp
    | succ a => simp [lget] at h; have := ih a h; simp; omega

theorem lget_append_left {α} (l : List α) (a : Nat) (x y : α) (h : lget l a = some x) :
    lget (l ++ [y]) a = some x := by
  induction l generalizing a with
  | nil => simp [lget] at h
  | cons z r ih =>
    cases a with
    | zero => simpa [lget] using h
    | succ a => simp [lget] at h ⊢; exact ih a h

theorem lset_length {α} (l l' : List α) (a : Nat) (y : α) (h : lset l a y = some l') : l'.length = l.length := by
  induction l generalizing a l' with
  | nil => simp [lset] at h
  | cons z r ih =>
    cases a with
    | zero => simp [lset] at h; subst h; simp
    | succ a =>
      simp only [lset, Option.map_eq_some_iff] at h
      obtain ⟨r', hr, e⟩ := h
      subst e
      simp [ih r' a hr]

theorem lset_some {α} (l : List α) (a : Nat) (x y : α) (h : lget l a = some x) : ∃ l', lset l a y = some l' := by
  induction l generalizing a with
  | nil => simp [lget] at h
  | cons z r ih =>
    cases a with
    | zero => exact ⟨_, rfl⟩
    | succ a =>
      simp [lget] at h
      obtain ⟨r', hr⟩ := ih a h
      exact ⟨z :: r', by simp [lset, hr]⟩

theorem lget_lset {α} (l l' : List α) (a b : Nat) (y : α) (h : lset l a y = some l') :
    lget l' b = if b = a then some y else lget l b := by
  induction l generalizing a b l' with
  | nil => simp [lset] at h
  | cons z r ih =>
    cases a with
    | zero =>
      simp [lset] at h; subst h
      cases b <;> simp [lget]
    | succ a =>
      simp only [lset, Option.map_eq_some_iff] at h
      obtain ⟨r', hr, e⟩ := h
      subst e
      cases b with
      | zero => simp [lget]
      | succ b => simp [lget, ih r' a b hr]

/-! ## Names, constants, operators that occur in `Gen/ParseFlow.lean` -/

@[sflowval] theorem placeOfName_p1_pos : placeOfName "p1.pos" = .field "p1" "pos" := by decide
@[sflowval] theorem placeOfName_p1_start : placeOfName "p1.start" = .field "p1" "start" := by decide
@[sflowval] theorem placeOfName_v1 : placeOfName "v1" = .var "v1" := by decide
@[sflowval] theorem placeOfName_v3 : placeOfName "v3" = .var "v3" := by decide
@[sflowval] theorem placeOfName_v4 : placeOfName "v4" = .var "v4" := by decide
@[sflowval] theorem placeOfName_v1_Prefix : placeOfName "v1.Prefix" = .field "v1" "Prefix" := by decide
@[sflowval] theorem placeOfName_v1_Fragments : placeOfName "v1.Fragments" = .field "v1" "Fragments" := by decide
@[sflowval] theorem placeOfName_v3_Values : placeOfName "v3.Values" = .field "v3" "Values" := by decide

@[sflowval] theorem constVal_3 {σ ν} (P : Prims σ ν) : constVal P "3" = some (.int 3) := rfl
@[sflowval] theorem constVal_4 {σ ν} (P : Prims σ ν) : constVal P "4" = some (.int 4) := rfl
@[sflowval] theorem constVal_5 {σ ν} (P : Prims σ ν) : constVal P "5" = some (.int 5) := rfl
@[sflowval] theorem constVal_36 {σ ν} (P : Prims σ ν) : constVal P "36" = some (.int 36) := rfl
@[sflowval] theorem constVal_44 {σ ν} (P : Prims σ ν) : constVal P "44" = some (.int 44) := rfl

@[sflowval] theorem isVariadicTy_lexer : isVariadicTy "*lexer" = false := by decide
@[sflowval] theorem isVariadicTy_tokenType : isVariadicTy "tokenType" = false := by decide
@[sflowval] theorem isVariadicTy_string : isVariadicTy "string" = false := by decide
@[sflowval] theorem isVariadicTy_iface : isVariadicTy "...interface{}" = true := by decide

@[sflowval] theorem binop2_int {ν} (o : String) (x y : Int) : binop2 (ν := ν) o (.int x) (.int y) = binop o (.int x) (.int y) := rfl
@[sflowval] theorem binop2_str_int {ν} (o : String) (x : Bytes) (y : Int) : binop2 (ν := ν) o (.str x) (.int y) = binop o (.str x) (.int y) := rfl
@[sflowval] theorem binop2_func_nil_ne {ν} (g : String) : binop2 (ν := ν) "!=" (.func g) .nil = .ok (.bool true) := rfl
@[sflowval] theorem binop2_nil_nil_ne {ν} : binop2 (ν := ν) "!=" .nil .nil = .ok (.bool false) := rfl
@[sflowval] theorem binop2_nil_nil_eq {ν} : binop2 (ν := ν) "==" .nil .nil = .ok (.bool true) := rfl
@[sflowval] theorem binop2_ext_nil_ne {ν} (x : ν) : binop2 (ν := ν) "!=" (.ext x) .nil = .ok (.bool true) := rfl
@[sflowval] theorem binop2_ext_nil_eq {ν} (x : ν) : binop2 (ν := ν) "==" (.ext x) .nil = .ok (.bool false) := rfl
@[sflowval] theorem binop_int_gt {ν} (x y : Int) : binop (ν := ν) ">" (.int x) (.int y) = .ok (.bool (decide (x > y))) := rfl
@[sflowval] theorem labelHit_empty (m : String) : labelHit m "" = true := rfl
@[sflowval] theorem labelHit_L1 : labelHit "L1" "L1" = true := by decide
@[sflowval] theorem labelHit_empty_L1 : labelHit "" "L1" = false := by decide

/-! ## Projections of the primitive records -/

theorem pp0_readField_ptr (a : Nat) (f : String) (st : PSt) :
    pp0.readField (.ext (.ptr a)) f st = (lget st.heap a).bind fun o => Frame.get o.2 f := rfl
@[sflowval] theorem pp0_readField_token (t : GoToken) (f : String) (st : PSt) :
    pp0.readField (.ext (.token t)) f st = tokenField t f := rfl
theorem pp0_writeField_ptr (a : Nat) (f : String) (v : Val PVal) (st : PSt) :
    pp0.writeField (.ext (.ptr a)) f v st =
      (lget st.heap a).bind fun o =>
        (Frame.set o.2 f v).bind fun fs =>
          (lset st.heap a (o.1, fs)).map fun h => { st with heap := h } := rfl
@[sflowval] theorem pp0_global (d : String) : pp0.global d = none := rfl
@[sflowval] theorem pp0_zero (T : String) : pp0.zero T = zeroOf T := rfl
@[sflowval] theorem pp0_conv_int (T : String) (n : Int) :
    pp0.conv T (.int n) = if T = "Pos" ∨ T = "tokenType" ∨ T = "int" ∨ T = "byte" then some (.int n) else none := rfl

@[sflowval] theorem pp0_call_lit_token (args : List (Val PVal)) (st : PSt) : pp0.call "lit:token" args st =
    match kvGet args "Type", kvGet args "Pos", kvGet args "Value" with
    | some (.int t), some (.int p), some (.str v) =>
      if args.length = 3 then .ok (.ext (.token ⟨t, p, v⟩), st) else .stuck "token literal: fields"
    | _, _, _ => .stuck "token literal: fields" := rfl
@[sflowval] theorem pp0_call_make (st : PSt) : pp0.call "make:chan token" [] st =
    .ok (.ext (.chan st.chans.length), { st with chans := st.chans ++ [{}] }) := rfl
theorem pp0_call_send (c : Nat) (t : GoToken) (st : PSt) :
    pp0.call "chan<-" [.ext (.chan c), .ext (.token t)] st =
      (match lget st.chans c with
       | some ch =>
         if ch.closed then .panic "send on closed channel"
         else
           (match lset st.chans c { ch with buf := ch.buf ++ [t] } with
            | some cs => .ok (.unit, { st with chans := cs })
            | none => .stuck "send: channel")
       | none => .stuck "send: channel") := rfl
theorem pp0_call_recv (c : Nat) (st : PSt) :
    pp0.call "<-chan" [.ext (.chan c)] st =
      (match lget st.chans c with
       | some ch =>
         (match ch.buf with
          | t :: r =>
            (match lset st.chans c { ch with buf := r } with
             | some cs => .ok (.ext (.token t), { st with chans := cs })
             | none => .stuck "receive: channel")
          | [] =>
            if ch.closed then .ok (.ext (.token zeroToken), st)
            else .stuck "receive: nothing sent and the channel is open (deadlock)")
       | none => .stuck "receive: channel") := rfl
theorem pp0_call_close (c : Nat) (st : PSt) :
    pp0.call "close" [.ext (.chan c)] st =
      (match lget st.chans c with
       | some ch =>
         if ch.closed then .panic "close of closed channel"
         else
           (match lset st.chans c { ch with closed := true } with
            | some cs => .ok (.unit, { st with chans := cs })
            | none => .stuck "close: channel")
       | none => .stuck "close: channel") := rfl
@[sflowval] theorem pp0_call_append (s v : Val PVal) (st : PSt) :
    pp0.call "append" [s, v] st =
      (match sliceOf s, sliceElem v with
       | some xs, some x => .ok (.ext (.slice (xs ++ [x])), st)
       | _, _ => .stuck "append: operands") := rfl
@[sflowval] theorem pp0_call_sprintf (fmt : Bytes) (st : PSt) :
    pp0.call "fmt.Sprintf" [.str fmt] st =
      if fmt.contains 37 then .stuck "fmt.Sprintf: format verbs" else .ok (.str fmt, st) := rfl
theorem pp0_call_new (T : String) (args : List (Val PVal)) (st : PSt)
    (h1 : ("new:" ++ T) ≠ "lit:token") (h2 : ("new:" ++ T) ≠ "make:chan token") (h3 : ("new:" ++ T) ≠ "chan<-")
    (h4 : ("new:" ++ T) ≠ "<-chan") (h5 : ("new:" ++ T) ≠ "close") (h6 : ("new:" ++ T) ≠ "append")
    (h7 : ("new:" ++ T) ≠ "fmt.Sprintf") (h8 : hasPfx "new:" ("new:" ++ T) = true)
    (h9 : dropPfx "new:" ("new:" ++ T) = T) :
    pp0.call ("new:" ++ T) args st =
      match newObj T args with
      | some o => .ok (.ext (.ptr st.heap.length), { st with heap := st.heap ++ [o] })
      | none => .stuck ("composite literal " ++ ("new:" ++ T)) := by
  simp only [pp0, h1, h2, h3, h4, h5, h6, h7, h8, h9, if_false, if_true]
  rfl

@[sflowval] theorem pp1_readField (fuel : Nat) : (pp1 fuel).readField = pp0.readField := rfl
@[sflowval] theorem pp1_writeField (fuel : Nat) : (pp1 fuel).writeField = pp0.writeField := rfl
@[sflowval] theorem pp1_global (fuel : Nat) : (pp1 fuel).global = pp0.global := rfl
@[sflowval] theorem pp1_zero (fuel : Nat) : (pp1 fuel).zero = pp0.zero := rfl
@[sflowval] theorem pp1_conv (fuel : Nat) : (pp1 fuel).conv = pp0.conv := rfl
theorem pp1_call (fuel : Nat) (f : String) (args : List (Val PVal)) (st : PSt) : (pp1 fuel).call f args st =
    if f = "(*lexer).emit" then callRes (runFunc2 pp0 fuel Gen.hash_parse.lexerEmitFlow2 args st)
    else if f = "(*lexer).Next" then callRes (runFunc2 pp0 fuel Gen.hash_parse.lexerNextFlow args st)
    else if f = "(*lexer).errorf" then callRes (runFunc2 pp0 fuel Gen.hash_parse.lexerErrorfFlow args st)
    else pp0.call f args st := rfl

@[sflowval] theorem pp2_readField (fuel : Nat) : (pp2 fuel).readField = pp0.readField := rfl
@[sflowval] theorem pp2_writeField (fuel : Nat) : (pp2 fuel).writeField = pp0.writeField := rfl
@[sflowval] theorem pp2_global (fuel : Nat) : (pp2 fuel).global = pp0.global := rfl
@[sflowval] theorem pp2_zero (fuel : Nat) : (pp2 fuel).zero = pp0.zero := rfl
@[sflowval] theorem pp2_conv (fuel : Nat) : (pp2 fuel).conv = pp0.conv := rfl
@[sflowval] theorem pp2_call (fuel : Nat) : (pp2 fuel).call = (pp1 fuel).call := rfl
theorem pp2_apply (fuel : Nat) (v : Val PVal) (args : List (Val PVal)) (st : PSt) : (pp2 fuel).apply v args st =
    match v with
    | .func g =>
      if g = "lexPrefix" then callRes (runFunc2 (pp1 fuel) fuel Gen.hash_parse.lexPrefixFlow2 args st)
      else if g = "lexFragment" then callRes (runFunc2 (pp1 fuel) fuel Gen.hash_parse.lexFragmentFlow args st)
      else .stuck ("function value " ++ g)
    | .nil => .panic "call of a nil function"
    | _ => .stuck "call: not a function" := rfl

@[sflowval] theorem pp3_readField (fuel : Nat) : (pp3 fuel).readField = pp0.readField := rfl
@[sflowval] theorem pp3_writeField (fuel : Nat) : (pp3 fuel).writeField = pp0.writeField := rfl
@[sflowval] theorem pp3_global (fuel : Nat) : (pp3 fuel).global = pp0.global := rfl
@[sflowval] theorem pp3_zero (fuel : Nat) : (pp3 fuel).zero = pp0.zero := rfl
@[sflowval] theorem pp3_conv (fuel : Nat) : (pp3 fuel).conv = pp0.conv := rfl
theorem pp3_call (fuel : Nat) (f : String) (args : List (Val PVal)) (st : PSt) : (pp3 fuel).call f args st =
    if f = "go:(*lexer).run" then
      match runFunc2 (pp2 fuel) fuel Gen.hash_parse.lexerRunFlow args st with
      | .ret [] st' => .ok (.unit, st')
      | .ret _ _ => .stuck "go: the function returned a value"
      | .panic w => .panic w
      | .stuck w => .stuck w
    else (pp1 fuel).call f args st := rfl

@[sflowval] theorem pp4_readField (fuel : Nat) : (pp4 fuel).readField = pp0.readField := rfl
@[sflowval] theorem pp4_writeField (fuel : Nat) : (pp4 fuel).writeField = pp0.writeField := rfl
@[sflowval] theorem pp4_global (fuel : Nat) : (pp4 fuel).global = pp0.global := rfl
@[sflowval] theorem pp4_zero (fuel : Nat) : (pp4 fuel).zero = pp0.zero := rfl
@[sflowval] theorem pp4_conv (fuel : Nat) : (pp4 fuel).conv = pp0.conv := rfl
theorem pp4_call (fuel : Nat) (f : String) (args : List (Val PVal)) (st : PSt) : (pp4 fuel).call f args st =
    if f = "lex" then callRes (runFunc2 (pp3 fuel) fuel Gen.hash_parse.lexFlow args st)
    else if f = "(*lexer).NextToken" then callRes (runFunc2 pp0 fuel Gen.hash_parse.lexerNextTokenFlow args st)
    else (pp3 fuel).call f args st := rfl

/-- Integer conversions are the identity, whatever layer of primitives. -/
theorem unop_conv_int {P : Prims PSt PVal} (hP : P.conv = pp0.conv) (T : String) (n : Int)
    (hT : tagged ("conv:" ++ T) = some ("conv", T)) (hT' : T = "Pos" ∨ T = "tokenType" ∨ T = "int" ∨ T = "byte") :
    unop P ("conv:" ++ T) (.int n) = .ok (.int n) := by
  simp [unop, hT, hP, pp0_conv_int, hT']

@[sflowval] theorem unop_conv_Pos0 (n : Int) : unop pp0 "conv:Pos" (.int n) = .ok (.int n) :=
  unop_conv_int rfl "Pos" n (by decide) (by simp)
@[sflowval] theorem unop_conv_Pos1 (fuel : Nat) (n : Int) : unop (pp1 fuel) "conv:Pos" (.int n) = .ok (.int n) :=
  unop_conv_int rfl "Pos" n (by decide) (by simp)
@[sflowval] theorem unop_conv_Pos4 (fuel : Nat) (n : Int) : unop (pp4 fuel) "conv:Pos" (.int n) = .ok (.int n) :=
  unop_conv_int rfl "Pos" n (by decide) (by simp)
@[sflowval] theorem unop_conv_int4 (fuel : Nat) (n : Int) : unop (pp4 fuel) "conv:int" (.int n) = .ok (.int n) :=
  unop_conv_int rfl "int" n (by decide) (by simp)

/-! ## The state while the lexer goroutine runs -/

/-- Heap `hp ++ [lexer]`, channels `cp ++ [the lexer's]`: the lexer object (`input`, `pos`, `start`) is
the newest object, its channel — open, holding `buf` — the newest channel. -/
def LS (hp : List Obj) (cp : List Chan) (s : Bytes) (pos start : Int) (buf : List GoToken) : PSt :=
  ⟨hp ++ [lexObj s pos start cp.length], cp ++ [⟨buf, false⟩]⟩

section
variable (hp : List Obj) (cp : List Chan) (s : Bytes) (pos start : Int) (buf : List GoToken)

@[sflowval] theorem LS_read_input : pp0.readField (.ext (.ptr hp.length)) "input" (LS hp cp s pos start buf) = some (.str s) := by
  simp [LS, lexObj, sflowval, pp0_readField_ptr]
@[sflowval] theorem LS_read_pos : pp0.readField (.ext (.ptr hp.length)) "pos" (LS hp cp s pos start buf) = some (.int pos) := by
  simp [LS, lexObj, sflowval, pp0_readField_ptr]
@[sflowval] theorem LS_read_start : pp0.readField (.ext (.ptr hp.length)) "start" (LS hp cp s pos start buf) = some (.int start) := by
  simp [LS, lexObj, sflowval, pp0_readField_ptr]
@[sflowval] theorem LS_read_tokens : pp0.readField (.ext (.ptr hp.length)) "tokens" (LS hp cp s pos start buf) = some (.ext (.chan cp.length)) := by
  simp [LS, lexObj, sflowval, pp0_readField_ptr]
@[sflowval] theorem LS_write_pos (n : Int) :
    pp0.writeField (.ext (.ptr hp.length)) "pos" (.int n) (LS hp cp s pos start buf) = some (LS hp cp s n start buf) := by
  simp [LS, lexObj, sflowval, pp0_writeField_ptr]
@[sflowval] theorem LS_write_start (n : Int) :
    pp0.writeField (.ext (.ptr hp.length)) "start" (.int n) (LS hp cp s pos start buf) = some (LS hp cp s pos n buf) := by
  simp [LS, lexObj, sflowval, pp0_writeField_ptr]
@[sflowval] theorem LS_send (t : GoToken) :
    pp0.call "chan<-" [.ext (.chan cp.length), .ext (.token t)] (LS hp cp s pos start buf) =
      .ok (.unit, LS hp cp s pos start (buf ++ [t])) := by
  simp [LS, sflowval, pp0_call_send]
end

/-! ## The lexer's methods, from their regenerated bodies -/

/-- `l.emit(t)`: with `l.input[l.start:l.pos]` in bounds, sends `token{t, start, input[start:pos]}` and
moves `start` to `pos`. -/
theorem emit_spec (fuel : Nat) (hp cp s) (pos start : Int) (buf) (t : Int) (v : Bytes)
    (hs : sliceStr (ν := PVal) s start pos = .ok (.str v)) :
    (pp1 fuel).call "(*lexer).emit" [.ext (.ptr hp.length), .int t] (LS hp cp s pos start buf) =
      .ok (.unit, LS hp cp s pos pos (buf ++ [⟨t, start, v⟩])) := by
  simp [pp1_call, sflowval, Gen.hash_parse.lexerEmitFlow2, hs, kvGet]

/-- `l.emit(t)` out of bounds panics (nothing is clamped). -/
theorem emit_panics (fuel : Nat) (hp cp s) (pos start : Int) (buf) (t : Int)
    (h : ¬ (0 ≤ start ∧ start ≤ pos ∧ pos ≤ s.length)) :
    (pp1 fuel).call "(*lexer).emit" [.ext (.ptr hp.length), .int t] (LS hp cp s pos start buf) =
      .panic "slice bounds out of range" := by
  have hs := sliceStr_panics (ν := PVal) s start pos h
  simp [pp1_call, sflowval, Gen.hash_parse.lexerEmitFlow2, hs]

/-- `l.Next()`: with `l.pos` inside the input, yields the byte there and advances. -/
theorem next_spec (fuel : Nat) (hp cp s) (pos start : Int) (buf) (b : Int)
    (hs : indexStr (ν := PVal) s pos = .ok (.int b)) :
    (pp1 fuel).call "(*lexer).Next" [.ext (.ptr hp.length)] (LS hp cp s pos start buf) =
      .ok (.int b, LS hp cp s (pos + 1) start buf) := by
  have hb : binop (ν := PVal) "[_]" (.str s) (.int pos) = .ok (.int b) := hs
  simp [pp1_call, sflowval, Gen.hash_parse.lexerNextFlow, hb]

/-- `l.errorf(msg)` (no variadic argument, no `%` in `msg`): sends `token{tokenError, pos, msg}` and
returns the nil state function. -/
theorem errorf_spec (fuel : Nat) (hp cp s) (pos start : Int) (buf) (msg : Bytes) (hm : (37 : UInt8) ∉ msg) :
    (pp1 fuel).call "(*lexer).errorf" [.ext (.ptr hp.length), .str msg] (LS hp cp s pos start buf) =
      .ok (.nil, LS hp cp s pos start (buf ++ [⟨0, pos, msg⟩])) := by
  simp [pp1_call, sflowval, Gen.hash_parse.lexerErrorfFlow, kvGet, hm]

end GoCrypt.SFlowVal2
