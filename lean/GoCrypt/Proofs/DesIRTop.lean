import GoCrypt.Proofs.DesIREncrypt

/-!
# Word IR: linking the four regenerated functions through the call mechanism

`callIn program globals d` resolves a call in the regenerated program with `d` levels of nesting left; the
lemmas below discharge the call specifications (`Perm1616Spec`, `EncCalls`) that the body lemmas assume
from the body lemmas of the callees. Helper lemmas only.
-/

namespace GoCrypt.DesIR
open GoCrypt.Gen.DesIR GoCrypt.Kdf GoCrypt.Kdf.Des

theorem callIn_permute816 (g : Globals) (d : Nat) (t : Array Nat) (x : UInt64) :
    callIn program g (d + 1) "permute816" [.u64 x, .tab [8, 16] 0 t] = .ok (.u64 (permuteNib t 8 x)) := by
  rw [callIn_succ program g d "permute816" proc_permute816 _ rfl]
  exact permute_body _ _ _ rfl rfl rfl t 8 x

theorem callIn_permute1616 (g : Globals) (d : Nat) (t : Array Nat) (x : UInt64) :
    callIn program g (d + 1) "permute1616" [.u64 x, .tab [16, 16] 0 t] = .ok (.u64 (permuteNib t 16 x)) := by
  rw [callIn_succ program g d "permute1616" proc_permute1616 _ rfl]
  exact permute_body _ _ _ rfl rfl rfl t 16 x

theorem perm1616Spec_callIn (d : Nat) : Perm1616Spec { call := callIn program globals (d + 1) } :=
  fun x t => callIn_permute1616 globals d t x

theorem callIn_keySchedules (d : Nat) (key : UInt64) :
    callIn program globals (d + 2) "keySchedules" [.u64 key] = .ok (ksVal (keySchedules key)) := by
  rw [callIn_succ program globals (d + 1) "keySchedules" proc_keySchedules _ rfl]
  exact keySchedules_body _ (perm1616Spec_callIn d) key

theorem encCalls_callIn (d : Nat) : EncCalls { call := callIn program globals (d + 2) } where
  ks key := callIn_keySchedules d key
  p816 x t := callIn_permute816 globals (d + 1) t x
  p1616 := perm1616Spec_callIn (d + 1)

theorem callIn_Encrypt (d : Nat) (key input : UInt64) (salt rounds : UInt32) :
    callIn program globals (d + 3) "Encrypt" [.u64 key, .u64 input, .u32 salt, .u32 rounds] =
      .ok (.u64 (encrypt key input salt rounds.toNat)) := by
  rw [callIn_succ program globals (d + 2) "Encrypt" proc_Encrypt _ rfl]
  exact encrypt_body _ (encCalls_callIn d) key input salt rounds

end GoCrypt.DesIR
