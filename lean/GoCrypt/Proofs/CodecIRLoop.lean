import GoCrypt.Proofs.CodecIRTop

/-!
# Codec IR: the loop over `info.Fields` = the model's `marshalFields`

Helper lemmas only.
-/

namespace GoCrypt.CIR
open GoCrypt.Codec GoCrypt.Gen.codecIR
open GoCrypt.TIIR (RType Res kindNum fiType fiObj tiObj encVal optsVals Reps RepOpt)

theorem reps_len {h : TIIR.Heap} : ∀ {as : List Nat} {fis : List FieldInfo}, Reps h as fis → as.length = fis.length
  | [], [], _ => rfl
  | [], _ :: _, hr => by simp [Reps] at hr
  | _ :: _, [], hr => by simp [Reps] at hr
  | _ :: as, _ :: fis, hr => by simp only [Reps] at hr; simp [reps_len hr.2]

theorem reps_get {h : TIIR.Heap} : ∀ {as : List Nat} {fis : List FieldInfo}, Reps h as fis → ∀ (i : Nat) (fi : FieldInfo),
    fis[i]? = some fi → ∃ a, as[i]? = some a ∧ h[a]? = some (fiObj fi)
  | [], [], _, i, fi, hf => by simp at hf
  | [], _ :: _, hr, _, _, _ => by simp [Reps] at hr
  | _ :: _, [], hr, _, _, _ => by simp [Reps] at hr
  | a :: as, f :: fis, hr, i, fi, hf => by
    simp only [Reps] at hr
    cases i with
    | zero => simp at hf; subst hf; exact ⟨a, by simp, hr.1⟩
    | succ i => simp at hf; obtain ⟨a', h1, h2⟩ := reps_get hr.2 i fi hf; exact ⟨a', by simpa using h1, h2⟩

theorem marshalFields_cons (vals : Vals) (fi : FieldInfo) (rest : List FieldInfo) (prev : Option FieldInfo) (buf : Bytes) :
    marshalFields vals (fi :: rest) prev buf =
      (if fi.opts.omitEmpty && isEmptyVal fi ((getVal vals fi.index).getD (zeroOf fi.kind fi.ptrDepth)) then
        marshalFields vals rest prev buf
      else match Codec.marshalValue fi ((getVal vals fi.index).getD (zeroOf fi.kind fi.ptrDepth)) with
        | .error e => .error e
        | .ok s => marshalFields vals rest (some fi) (buf ++ sepOf prev fi ++ nameOf fi ++ s)) := by
  conv => lhs; unfold marshalFields
  simp only []
  split
  · rfl
  · cases Codec.marshalValue fi ((getVal vals fi.index).getD (zeroOf fi.kind fi.ptrDepth)) with
    | error e => rfl
    | ok s =>
      simp only [bind, Except.bind, sepOf, nameOf]
      cases prev <;> rfl

/-- What the end of a run of `Marshal` must look like, given the model's answer. -/
def TopPost (m : Mem) (r : Except MErr Bytes) (o : Out) : Prop :=
  match r with
  | .ok out => o = .ret m [.str out, .nil]
  | .error e => ∃ n fs', o = .ret m [.str [], .recd n fs'] ∧ absErr m.heap (.recd n fs') = some e

/-- What the loop needs to know about every field: reachable, represented, within the bounds. -/
def FieldsOk (c : Ctx) (t0 : RType) (fs : List GVal) (vals : Vals) (fis : List FieldInfo) : Prop :=
  ∀ fi ∈ fis, (∃ gv, valFieldByIndex c.structs t0 (.struct fs) false true (fi.index.map Int.ofNat) = .ok (.rv (fiType fi) gv false) ∧
    RepF fi ((getVal vals fi.index).getD (zeroOf fi.kind fi.ptrDepth)) gv) ∧
    fi.ptrDepth < c.fuel ∧ 2 ≤ fi.opts.base ∧ fi.opts.base ≤ 36

theorem fields_loop (c : Ctx) (hs : CallSpecs c) (m : Mem) (t t0 : RType) (fs : List GVal) (vals : Vals)
    (addrs : List Nat) (allF : List FieldInfo) (hreps : Reps m.heap addrs allF) (hok : FieldsOk c t0 fs vals allF) :
    ∀ (n i : Nat) (prev : Option FieldInfo) (pv : Val) (buf : Bytes) (x0 x3 x4 x6 x7 x9 x10 x11 x12 x13 x14 x17 x18 : Val),
      i ≤ allF.length → allF.length - i < n → PrevRep m prev pv →
      TopPost m (marshalFields vals (allF.drop i) prev buf)
        ((loop (fun m env => eval c m env fieldsLoop.forCond >>= asBool) (exec c loopBody) (exec c fieldsLoop.forPost) n m
          [x0, .rv t0 (.struct fs) false, .rtype t, x3, x4, .builder buf, x6, x7, pv, x9, x10, x11, x12, x13, x14,
            .ptrs addrs, .int i, x17, x18]).andThen (exec c finalRet)) := by
  have hlen := reps_len hreps
  intro n
  induction n with
  | zero => intro i _ _ _ _ _ _ _ _ _ _ _ _ _ _ _ _ _ hlt _; omega
  | succ n ih =>
    intro i prev pv buf x0 x3 x4 x6 x7 x9 x10 x11 x12 x13 x14 x17 x18 hi hn hp
    by_cases hend : i = allF.length
    · -- the loop ends
      have hc : (fun m env => eval c m env fieldsLoop.forCond >>= asBool) m
          [x0, .rv t0 (.struct fs) false, .rtype t, x3, x4, .builder buf, x6, x7, pv, x9, x10, x11, x12, x13, x14,
            .ptrs addrs, .int i, x17, x18] = .ok false := by
        simp only [fieldsLoop, marshalTopIR, Stmt.drop, Stmt.head, Stmt.forCond]
        have : ¬ (i < addrs.length) := by omega
        ci_simp [this]
      rw [loop_false _ _ _ _ _ _ hc, hend, List.drop_length]
      simp only [marshalFields, TopPost, finalRet, marshalTopIR, Stmt.drop]
      ci_simp
    · have hilt : i < allF.length := by omega
      have hc : (fun m env => eval c m env fieldsLoop.forCond >>= asBool) m
          [x0, .rv t0 (.struct fs) false, .rtype t, x3, x4, .builder buf, x6, x7, pv, x9, x10, x11, x12, x13, x14,
            .ptrs addrs, .int i, x17, x18] = .ok true := by
        simp only [fieldsLoop, marshalTopIR, Stmt.drop, Stmt.head, Stmt.forCond]
        have : i < addrs.length := by omega
        ci_simp [this]
      rw [loop_step _ _ _ _ _ _ hc]
      obtain ⟨fi, hfi⟩ : ∃ fi, allF[i]? = some fi := ⟨allF[i], by simp [hilt]⟩
      obtain ⟨a, ha, hheap⟩ := reps_get hreps i fi hfi
      have hmem : fi ∈ allF := List.mem_of_getElem? hfi
      obtain ⟨⟨gv, hfb, hrep⟩, hfuel, hbase⟩ := hok fi hmem
      have hdrop : allF.drop i = fi :: allF.drop (i + 1) := by
        rw [List.drop_eq_getElem_cons hilt]; congr 1
        have := List.getElem?_eq_getElem hilt; rw [this] at hfi; exact Option.some.inj hfi
      rw [hdrop, marshalFields_cons]
      have hpost : ∀ (m : Mem) (e0 e1 e2 e3 e4 e5 e6 e7 e8 e9 e10 e11 e12 e13 e14 e15 e17 e18 : Val) (j : Nat),
          exec c fieldsLoop.forPost m [e0, e1, e2, e3, e4, e5, e6, e7, e8, e9, e10, e11, e12, e13, e14, e15, .int j, e17, e18] =
            .norm m [e0, e1, e2, e3, e4, e5, e6, e7, e8, e9, e10, e11, e12, e13, e14, e15, .int (j + 1 : Nat), e17, e18] := by
        intro m e0 e1 e2 e3 e4 e5 e6 e7 e8 e9 e10 e11 e12 e13 e14 e15 e17 e18 j
        simp only [fieldsLoop, marshalTopIR, Stmt.drop, Stmt.head, Stmt.forPost]
        ci_simp
      rw [loopBody_split]
      obtain ⟨y17, y18, hA⟩ := phaseA_spec c hs m t0 fs fi a gv _ hheap hfb hrep addrs i ha x0 (.rtype t) x3 x4 (.builder buf) x6 x7 pv
        x9 x10 x11 x12 x13 x14 x17 x18
      rw [hA]
      cases hskip : (fi.opts.omitEmpty && isEmptyVal fi ((getVal vals fi.index).getD (zeroOf fi.kind fi.ptrDepth)))
      · -- the field is written
        simp only [Bool.false_eq_true, if_false, andThen_norm]
        have hB := phaseB_spec c hs m fi a gv _ hheap hrep t hfuel hbase x0 (.rv t0 (.struct fs) false) x3 x4 (.builder buf) x6 x7 pv
          x11 x12 x13 x14 (.ptrs addrs) (.int i) y17 y18
        cases hmv : Codec.marshalValue fi ((getVal vals fi.index).getD (zeroOf fi.kind fi.ptrDepth)) with
        | error e =>
          rw [hmv] at hB
          obtain ⟨n', fs', hB, habs⟩ := hB
          rw [hB]
          exact ⟨n', fs', rfl, habs⟩
        | ok s =>
          rw [hmv] at hB
          obtain ⟨y10, hB⟩ := hB
          rw [hB]
          simp only [andThen_norm]
          rw [phaseC_spec c m fi a hheap prev pv hp buf s]
          simp only [afterBody_norm, hpost, afterPost_norm]
          exact ih (i + 1) (some fi) (.ptr a) _ _ _ _ _ _ _ _ _ _ _ _ _ _ (by omega) (by omega) hheap
      · -- the field is skipped
        simp only [if_true, andThen_cont, afterBody_cont, hpost, afterPost_norm]
        exact ih (i + 1) prev pv buf _ _ _ _ _ _ _ _ _ _ _ _ _ (by omega) (by omega) hp

end GoCrypt.CIR
