import GoCrypt.Proofs.SIRDefs

/-!
# Stream IR of `hash/base64le`: what `(*decoder).Read` needs from the library function `Encoding.Decode`

`DecLibSpec lib`: `enc.Decode(dst, src)` for a destination that is a whole buffer and a source that is a
PREFIX window `⟨s, 0, n, cp⟩` of another buffer (`d.buf[:nr]`, `d.buf[:d.nbuf]`) is the model's
`decodeLoop` on the window's bytes from phase 0, for any initial contents of `dst`; a
`CorruptInputError(k)` comes back as error code `1000 + k`. Helper definitions only.
-/

namespace GoCrypt.SIR
open GoCrypt.B64IR (Buf Heap Slice Res sliceBytes)
open GoCrypt.Base64LE

/-- The result of the library call `Decode` for a model result. -/
def ofDResW (H : Heap) (O : List Obj) (X : List Ext) (d : Nat) (r : DRes) : Res (World × List Val) :=
  if r.panic then .panic else .ok (⟨H.set d r.dst, O, X⟩, [.int (r.n : Nat), .err (r.err.map fun k => 1000 + k)])

structure DecLibSpec (lib : Lib) : Prop where
  decode : ∀ (e : Encoding) (H : Heap) (O : List Obj) (X : List Ext) (ae b1 b2 : Nat), EncAt H O ae b1 b2 e →
    ∀ (d s : Nat) (dst S : Buf) (n cp : Nat), H[d]? = some dst → H[s]? = some S → d ≠ s → n ≤ S.size → n ≤ cp →
      dst.size < 2 ^ 62 → n < 2 ^ 62 →
      lib "Encoding.Decode" ⟨H, O, X⟩ [.ptr ae, .slice ⟨d, 0, dst.size, dst.size⟩, .slice ⟨s, 0, n, cp⟩] =
        if n = 0 then .ok (⟨H, O, X⟩, [.int 0, .err none])
        else ofDResW H O X d (decodeLoop e (S.toList.take n).toArray 0 0 0 dst)

end GoCrypt.SIR
