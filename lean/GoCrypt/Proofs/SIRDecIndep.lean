import GoCrypt.Proofs.SIRDecCall

/-!
# The model's `decodeLoop` does not look at the old contents of `dst`

Two runs of `decodeLoop` on destinations of the same size that agree on the first `n` bytes stay in step: same
indices, same error, same panic flag, and the destinations agree on the bytes produced so far. Hence
`DecodeIndep e` for every encoding. Helper lemmas only.
-/

namespace GoCrypt.SIR
open GoCrypt.B64IR (Buf writeList writeList_eq_writeAt dqFinish decodeQuantum_eq viaQ_eq decodeStep_8 decodeStep_4 decodeStep_slow
  collect_dlen collectDlenOk dq_props decodeLoop_stop)
open GoCrypt.Base64LE GoCrypt.Gen.base64le

/-- Same size, and the same bytes wherever `P` holds. -/
def AgreeOn (D1 D2 : Buf) (P : Nat → Prop) : Prop := D1.size = D2.size ∧ ∀ i, P i → D1[i]? = D2[i]?

theorem AgreeOn.mono {D1 D2 : Buf} {P Q : Nat → Prop} (h : AgreeOn D1 D2 P) (hq : ∀ i, Q i → P i) : AgreeOn D1 D2 Q :=
  ⟨h.1, fun i hi => h.2 i (hq i hi)⟩

theorem AgreeOn.set {D1 D2 : Buf} {P : Nat → Prop} (h : AgreeOn D1 D2 P) (j : Nat) (v : UInt8) :
    AgreeOn (D1.setIfInBounds j v) (D2.setIfInBounds j v) (fun i => P i ∨ i = j) := by
  refine ⟨by simp [h.1], fun i hi => ?_⟩
  rw [Array.getElem?_setIfInBounds, Array.getElem?_setIfInBounds, h.1]
  by_cases hji : j = i
  · rw [if_pos hji, if_pos hji]
  · rw [if_neg hji, if_neg hji]
    rcases hi with hi | hi
    · exact h.2 i hi
    · exact absurd hi.symm hji

theorem AgreeOn.writeAt {D1 D2 : Buf} {P : Nat → Prop} (h : AgreeOn D1 D2 P) (n : Nat) (l : List UInt8) :
    AgreeOn (writeAt D1 n l) (writeAt D2 n l) (fun i => P i ∨ (n ≤ i ∧ i < n + l.length)) := by
  rw [← writeList_eq_writeAt, ← writeList_eq_writeAt]
  refine ⟨by simp [h.1], fun i hi => ?_⟩
  rw [writeList_getElem?, writeList_getElem?, h.1]
  by_cases hc : n ≤ i ∧ i < n + l.length ∧ i < D2.size
  · rw [if_pos hc, if_pos hc]
  · rw [if_neg hc, if_neg hc]
    rcases hi with hi | hi
    · exact h.2 i hi
    · have hge : D2.size ≤ i := by omega
      rw [Array.getElem?_eq_none (by rw [h.1]; exact hge), Array.getElem?_eq_none hge]

theorem setChk_agree {D1 D2 : Buf} {P : Nat → Prop} (h : AgreeOn D1 D2 P) (j v : Nat) :
    (setChk D1 j v = none ∧ setChk D2 j v = none) ∨
    ∃ D1' D2', setChk D1 j v = some D1' ∧ setChk D2 j v = some D2' ∧ AgreeOn D1' D2' (fun i => P i ∨ i = j) := by
  unfold setChk
  rw [h.1]
  by_cases hj : j < D2.size
  · rw [if_pos hj, if_pos hj]
    exact Or.inr ⟨_, _, rfl, rfl, h.set j _⟩
  · rw [if_neg hj, if_neg hj]
    exact Or.inl ⟨rfl, rfl⟩

/-- Two quantum results in step. -/
def QRel (n : Nat) : Option QRes → Option QRes → Prop
  | none, none => True
  | some a, some b => a.si = b.si ∧ a.n = b.n ∧ a.err = b.err ∧ AgreeOn a.dst b.dst (fun i => i < n + a.n)
  | _, _ => False

theorem dqFinish_agree (e : Encoding) (D1 D2 : Buf) (n si' dlen d0 d1 d2 d3 : Nat) (err : Option Nat)
    (hdl : 2 ≤ dlen ∧ dlen ≤ 4) (h : AgreeOn D1 D2 (fun i => i < n)) :
    QRel n (dqFinish e D1 n si' dlen d0 d1 d2 d3 err) (dqFinish e D2 n si' dlen d0 d1 d2 d3 err) := by
  unfold dqFinish
  simp only [Option.bind_eq_bind, Option.pure_def, ge_iff_le]
  have hd3 : dlen = 2 ∨ dlen = 3 ∨ dlen = 4 := by omega
  rcases hd3 with rfl | rfl | rfl
  · simp
    rcases setChk_agree h n (decodeQuantum_out0 (decodeQuantum_val d0 d1 d2 d3)) with ⟨a, b⟩ | ⟨A, B, a, b, hab⟩
    · simp [a, b, QRel]
    · simp [a, b]
      split
      · exact ⟨rfl, rfl, rfl, hab.mono (fun i hi => Or.inl (by omega))⟩
      · exact ⟨rfl, rfl, rfl, hab.mono (fun i hi => by dsimp only at hi; omega)⟩
  · simp
    rcases setChk_agree h (n + 1) (decodeQuantum_out1 (decodeQuantum_val d0 d1 d2 d3)) with ⟨a, b⟩ | ⟨A, B, a, b, hab⟩
    · simp [a, b, QRel]
    · simp [a, b]
      split
      · exact ⟨rfl, rfl, rfl, hab.mono (fun i hi => Or.inl (by omega))⟩
      · rcases setChk_agree hab n (decodeQuantum_out0 (decodeQuantum_val d0 d1 d2 d3)) with ⟨a', b'⟩ | ⟨A', B', a', b', hab'⟩
        · simp [a', b', QRel]
        · simp [a', b']
          exact ⟨rfl, rfl, rfl, hab'.mono (fun i hi => by dsimp only at hi; omega)⟩
  · simp
    rcases setChk_agree h (n + 2) (decodeQuantum_out2 (decodeQuantum_val d0 d1 d2 d3)) with ⟨a, b⟩ | ⟨A, B, a, b, hab⟩
    · simp [a, b, QRel]
    · simp [a, b]
      rcases setChk_agree hab (n + 1) (decodeQuantum_out1 (decodeQuantum_val d0 d1 d2 d3)) with ⟨a1, b1⟩ | ⟨A1, B1, a1, b1, hab1⟩
      · simp [a1, b1, QRel]
      · simp [a1, b1]
        rcases setChk_agree hab1 n (decodeQuantum_out0 (decodeQuantum_val d0 d1 d2 d3)) with ⟨a', b'⟩ | ⟨A', B', a', b', hab'⟩
        · simp [a', b', QRel]
        · simp [a', b']
          exact ⟨rfl, rfl, rfl, hab'.mono (fun i hi => by dsimp only at hi; omega)⟩

theorem decodeQuantum_agree (e : Encoding) (src D1 D2 : Buf) (si n : Nat) (hsi : si ≤ src.size)
    (h : AgreeOn D1 D2 (fun i => i < n)) : QRel n (decodeQuantum e D1 n src si) (decodeQuantum e D2 n src si) := by
  rw [decodeQuantum_eq, decodeQuantum_eq]
  have hdl := collect_dlen e src _ si 0 [] rfl hsi (by omega)
  cases hcol : collect e src si 0 [] with
  | inl r =>
    obtain ⟨si', err⟩ := r
    exact ⟨rfl, rfl, rfl, h.mono (fun i hi => by dsimp only at hi; omega)⟩
  | inr r =>
    obtain ⟨si', dlen, dr, err⟩ := r
    rw [hcol] at hdl
    exact dqFinish_agree e D1 D2 n si' dlen _ _ _ _ err hdl h

/-- Two loop steps in step. -/
def StepRel : Sum DRes (Nat × Nat × Nat × Buf) → Sum DRes (Nat × Nat × Nat × Buf) → Prop
  | .inl a, .inl b => a.n = b.n ∧ a.err = b.err ∧ a.panic = b.panic ∧ AgreeOn a.dst b.dst (fun i => i < a.n)
  | .inr (p1, s1, n1, A), .inr (p2, s2, n2, B) => p1 = p2 ∧ s1 = s2 ∧ n1 = n2 ∧ AgreeOn A B (fun i => i < n1)
  | _, _ => False

theorem viaQ_agree (e : Encoding) (src D1 D2 : Buf) (si n ph : Nat) (hsi : si ≤ src.size)
    (h : AgreeOn D1 D2 (fun i => i < n)) : StepRel (viaQ e src si n D1 ph) (viaQ e src si n D2 ph) := by
  have hq := decodeQuantum_agree e src D1 D2 si n hsi h
  rw [viaQ_eq, viaQ_eq]
  cases h1 : decodeQuantum e D1 n src si with
  | none =>
    cases h2 : decodeQuantum e D2 n src si with
    | none => exact ⟨rfl, rfl, rfl, h⟩
    | some b => rw [h1, h2] at hq; exact hq.elim
  | some a =>
    cases h2 : decodeQuantum e D2 n src si with
    | none => rw [h1, h2] at hq; exact hq.elim
    | some b =>
      rw [h1, h2] at hq
      obtain ⟨q1, q2, q3, q4⟩ := hq
      cases hae : a.err with
      | none =>
        have hbe : b.err = none := by rw [← q3]; exact hae
        simp only [hae, hbe]
        exact ⟨rfl, q1, by rw [q2], q4⟩
      | some off =>
        have hbe : b.err = some off := by rw [← q3]; exact hae
        simp only [hae, hbe]
        exact ⟨by show n + a.n = n + b.n; rw [q2], rfl, rfl, q4⟩

theorem be_length (x k : Nat) : (be x k).length = k := by simp [be]

theorem decodeStep_agree (e : Encoding) (src D1 D2 : Buf) (ph si n : Nat) (hsi : si ≤ src.size)
    (h : AgreeOn D1 D2 (fun i => i < n)) : StepRel (decodeStep e src ph si n D1) (decodeStep e src ph si n D2) := by
  by_cases h8 : ph = 0 ∧ src.size - si ≥ 8 ∧ D1.size - n ≥ 8
  · obtain ⟨rfl, h8a, h8b⟩ := h8
    rw [decodeStep_8 e src si n D1 ⟨h8a, h8b⟩, decodeStep_8 e src si n D2 ⟨h8a, by rw [← h.1]; exact h8b⟩]
    split
    · exact ⟨rfl, rfl, rfl, (h.writeAt n _).mono (fun i hi => by rw [be_length]; omega)⟩
    · exact viaQ_agree e src D1 D2 si n 0 hsi h
  · have h8' : ¬ (ph = 0 ∧ src.size - si ≥ 8 ∧ D2.size - n ≥ 8) := by rw [← h.1]; exact h8
    by_cases h4 : ph ≤ 1 ∧ src.size - si ≥ 4 ∧ D1.size - n ≥ 4
    · obtain ⟨h4p, h4a, h4b⟩ := h4
      rw [decodeStep_4 e src ph si n D1 h4p h8 ⟨h4a, h4b⟩, decodeStep_4 e src ph si n D2 h4p h8' ⟨h4a, by rw [← h.1]; exact h4b⟩]
      split
      · exact ⟨rfl, rfl, rfl, (h.writeAt n _).mono (fun i hi => by rw [be_length]; omega)⟩
      · exact viaQ_agree e src D1 D2 si n 1 hsi h
    · have h4' : ¬ (ph ≤ 1 ∧ src.size - si ≥ 4 ∧ D2.size - n ≥ 4) := by rw [← h.1]; exact h4
      rw [decodeStep_slow e src ph si n D1 h8 h4, decodeStep_slow e src ph si n D2 h8' h4']
      exact viaQ_agree e src D1 D2 si n 2 hsi h

theorem decodeLoop_halt (e : Encoding) (src : Buf) (phase si n : Nat) (dst : Buf) (ph' si' n' : Nat) (dst' : Buf)
    (h : si < src.size) (hs : decodeStep e src phase si n dst = .inr (ph', si', n', dst')) (hlt : ¬ si < si') :
    decodeLoop e src phase si n dst = ⟨n', none, dst', false⟩ := by
  rw [decodeLoop]; simp [h, hs, hlt]

theorem decodeLoop_agree (e : Encoding) (src : Buf) :
    ∀ (m si n ph : Nat) (D1 D2 : Buf), src.size - si = m → AgreeOn D1 D2 (fun i => i < n) →
      (decodeLoop e src ph si n D1).n = (decodeLoop e src ph si n D2).n ∧
      (decodeLoop e src ph si n D1).err = (decodeLoop e src ph si n D2).err ∧
      (decodeLoop e src ph si n D1).panic = (decodeLoop e src ph si n D2).panic ∧
      AgreeOn (decodeLoop e src ph si n D1).dst (decodeLoop e src ph si n D2).dst (fun i => i < (decodeLoop e src ph si n D1).n) := by
  intro m
  induction m using Nat.strongRecOn with
  | _ m ih =>
    intro si n ph D1 D2 hm h
    by_cases hlt : si < src.size
    · have hrel := decodeStep_agree e src D1 D2 ph si n (by omega) h
      cases hs1 : decodeStep e src ph si n D1 with
      | inl a =>
        cases hs2 : decodeStep e src ph si n D2 with
        | inl b =>
          rw [hs1, hs2] at hrel
          rw [decodeLoop_stop e src ph si n D1 a hlt hs1, decodeLoop_stop e src ph si n D2 b hlt hs2]
          exact hrel
        | inr b => rw [hs1, hs2] at hrel; exact hrel.elim
      | inr a =>
        cases hs2 : decodeStep e src ph si n D2 with
        | inl b => rw [hs1, hs2] at hrel; exact hrel.elim
        | inr b =>
          obtain ⟨p1, s1, n1, A⟩ := a
          obtain ⟨p2, s2, n2, B⟩ := b
          rw [hs1, hs2] at hrel
          obtain ⟨rfl, rfl, rfl, hAB⟩ := hrel
          by_cases hlt' : si < s1
          · rw [Base64LE.loop_step e src ph si n D1 p1 s1 n1 A hlt hs1 hlt', Base64LE.loop_step e src ph si n D2 p1 s1 n1 B hlt hs2 hlt']
            exact ih (src.size - s1) (by omega) s1 n1 p1 A B rfl hAB
          · rw [decodeLoop_halt e src ph si n D1 p1 s1 n1 A hlt hs1 hlt', decodeLoop_halt e src ph si n D2 p1 s1 n1 B hlt hs2 hlt']
            exact ⟨rfl, rfl, rfl, hAB⟩
    · rw [Base64LE.loop_end e src ph si n D1 (by omega), Base64LE.loop_end e src ph si n D2 (by omega)]
      exact ⟨rfl, rfl, rfl, h⟩

/-- What `Decode` reports does not depend on the old contents of `dst`, for every encoding. -/
theorem decodeIndep (e : Encoding) : DecodeIndep e := by
  intro src D1 D2 hsz
  obtain ⟨h1, h2, h3, h4⟩ := decodeLoop_agree e src _ 0 0 0 D1 D2 rfl ⟨hsz, fun i hi => absurd hi (Nat.not_lt_zero i)⟩
  refine ⟨h1, h2, h3, ?_⟩
  rw [← h1]
  apply List.ext_getElem?
  intro i
  by_cases hi : i < (decodeLoop e src 0 0 0 D1).n
  · rw [List.getElem?_take_of_lt hi, List.getElem?_take_of_lt hi, Array.getElem?_toList, Array.getElem?_toList]
    exact h4.2 i hi
  · rw [List.getElem?_eq_none (by simp; omega), List.getElem?_eq_none (by simp; omega)]

end GoCrypt.SIR
