import GoCrypt.Model.Scheme
import GoCrypt.Spec.FlowVal
import GoCrypt.Proofs.Kdf
import GoCrypt.Proofs.Base64
import GoCrypt.Proofs.CryptSpecs2Bcrypt

/-!
# The digest text fills the comparison buffer exactly

`Check` declares `var b [sumLength]byte`, encodes the key into `b[:]` and compares `b[:]` with the
stored digest; the hand-written `Scheme.check` compares the *encoder output* itself.  The two agree
because the encoder output has exactly `sumLength` symbols: whenever `Key` returns a key, that key
has the length the final permutation table (or the block size) dictates, whatever the hash
primitive does.  These are the only statements about the inside of `Scheme.key` that
`Props/FlowModel.lean` needs.
-/

namespace GoCrypt.FlowVal
open GoCrypt GoCrypt.Scheme GoCrypt.Kdf GoCrypt.Codec

/-! ## Encoders -/

theorem leEncode_length (k : Bytes) : (leEncode k).length = (k.length * 8 + 5) / 6 := by
  unfold leEncode
  rw [Base64LE.encode_length_eq, Base64LE.encodedLen, Base64LE.EncodedLen_eq]
  rfl

theorem stdEncode_length (al : Bytes) (k : Bytes) : (stdEncode al k).length = (k.length * 8 + 5) / 6 := by
  fun_induction stdEncode al k with
  | case1 b0 b1 b2 rest v ih => simp only [List.length_cons, ih]; omega
  | case2 b0 b1 v => simp
  | case3 b0 v => simp
  | case4 => rfl

theorem stdEncode_length_raw (al : Bytes) (k : Bytes) : (stdEncode al k).length = rawEncodedLen k.length := by
  rw [stdEncode_length, rawEncodedLen]; omega

theorem hexLower_length (k : Bytes) : (hexLower k).length = 2 * k.length := by
  unfold hexLower
  induction k with
  | nil => rfl
  | cons c cs ih => simp only [List.flatMap_cons, List.length_append, List.length_cons, List.length_nil, ih]; omega

/-! ## `permute`, `optToRes` -/

theorem permute_length (b : Bytes) : ∀ (t : List Nat) (k : Bytes), permute b t = some k → k.length = t.length
  | [], k, h => by rw [permute_nil] at h; cases h; rfl
  | j :: t, k, h => by
    rw [permute_cons] at h
    cases hj : b[j]? with
    | none => simp [hj] at h
    | some x =>
      cases ht : permute b t with
      | none => simp [hj, ht] at h
      | some r =>
        simp only [hj, ht, Option.bind_some, Option.some.injEq] at h
        subst h
        simp [permute_length b t r ht]

theorem optToRes_ok {o : Option Bytes} {k : Bytes} (h : optToRes o = .ok k) : o = some k := by
  cases o with
  | none => cases h
  | some x => cases h; rfl

theorem key_ok {S : Def} {a : KeyArgs} {k : Bytes} (h : key S a = .ok k) : ∃ a', S.derive a' = .ok k := by
  unfold key at h
  split at h
  · cases h
  · exact ⟨_, h⟩

theorem bind_some_elim {α β : Type} {o : Option α} {f : α → Option β} {b : β} (h : o.bind f = some b) :
    ∃ a, f a = some b := by
  cases o with
  | none => cases h
  | some a => exact ⟨a, h⟩

theorem md5crypt_length (H : Bytes → Bytes) (perm : List Nat) (pw salt pfx k : Bytes)
    (h : md5cryptEncrypt H perm pw salt pfx = some k) : k.length = perm.length := by
  unfold md5cryptEncrypt at h
  obtain ⟨_, h⟩ := bind_some_elim h
  obtain ⟨_, h⟩ := bind_some_elim h
  exact permute_length _ _ _ h

theorem sha2crypt_length (H : Bytes → Bytes) (size : Nat) (perm : List Nat) (pw salt k : Bytes) (rounds : Nat)
    (h : sha2cryptEncrypt H size perm pw salt rounds = some k) : k.length = perm.length := by
  unfold sha2cryptEncrypt at h
  obtain ⟨_, h⟩ := bind_some_elim h
  obtain ⟨_, h⟩ := bind_some_elim h
  obtain ⟨_, h⟩ := bind_some_elim h
  obtain ⟨_, h⟩ := bind_some_elim h
  exact permute_length _ _ _ h

theorem sunmd5Derive_length (H : Bytes → Bytes) (phrase : Bytes) (perm : List Nat) (pw ss k : Bytes) (rounds : Nat)
    (h : sunmd5Derive H phrase perm pw ss rounds = some k) : k.length = perm.length := by
  unfold sunmd5Derive at h
  obtain ⟨_, h⟩ := bind_some_elim h
  exact permute_length _ _ _ h

theorem sha1Derive_length (HM : Bytes → Bytes → Bytes) (perm : List Nat) (pfx pw salt k : Bytes) (rounds : Nat)
    (h : sha1Derive HM perm pfx pw salt rounds = some k) : k.length = perm.length :=
  permute_length _ _ _ h

/-! ## The ten schemes -/

theorem sumLen_md5 (a : KeyArgs) (k : Bytes) (h : key md5 a = .ok k) :
    (leEncode k).length = Gen.md5.sumLength := by
  obtain ⟨a', h'⟩ := key_ok h
  have hl := md5crypt_length _ _ _ _ _ _ (optToRes_ok h')
  rw [leEncode_length, hl]; rfl

theorem sumLen_sha256 (a : KeyArgs) (k : Bytes) (h : key sha256 a = .ok k) :
    (leEncode k).length = Gen.sha256.sumLength := by
  obtain ⟨a', h'⟩ := key_ok h
  have hl := sha2crypt_length _ _ _ _ _ _ _ (optToRes_ok h')
  rw [leEncode_length, hl]; rfl

theorem sumLen_sha512 (a : KeyArgs) (k : Bytes) (h : key sha512 a = .ok k) :
    (leEncode k).length = Gen.sha512.sumLength := by
  obtain ⟨a', h'⟩ := key_ok h
  have hl := sha2crypt_length _ _ _ _ _ _ _ (optToRes_ok h')
  rw [leEncode_length, hl]; rfl

theorem sumLen_sha1 (a : KeyArgs) (k : Bytes) (h : key sha1 a = .ok k) :
    (leEncode k).length = Gen.sha1.sumLength := by
  obtain ⟨a', h'⟩ := key_ok h
  have hl := sha1Derive_length _ _ _ _ _ _ _ (optToRes_ok h')
  rw [leEncode_length, hl]; rfl

theorem sumLen_sunmd5 (a : KeyArgs) (k : Bytes) (h : key sunmd5 a = .ok k) :
    (leEncode k).length = Gen.sunmd5.sumLength := by
  obtain ⟨a', h'⟩ := key_ok h
  dsimp only [sunmd5] at h'
  split at h'
  · cases h'
  · have hl := sunmd5Derive_length _ _ _ _ _ _ _ (optToRes_ok h')
    rw [leEncode_length, hl]; rfl

theorem be64_length (v : UInt64) : (Des.be64 v).length = 8 := by
  unfold Des.be64
  rw [List.length_map, List.length_range]

theorem sumLen_des (a : KeyArgs) (k : Bytes) (h : key des a = .ok k) :
    (beEncode k).length = Gen.des.sumLength := by
  obtain ⟨a', h'⟩ := key_ok h
  cases h'
  rw [beEncode, stdEncode_length, be64_length]; rfl

theorem sumLen_desext (a : KeyArgs) (k : Bytes) (h : key desext a = .ok k) :
    (beEncode k).length = Gen.desext.sumLength := by
  obtain ⟨a', h'⟩ := key_ok h
  cases h'
  rw [beEncode, stdEncode_length, be64_length]; rfl

theorem encryptTimes_length (c : Prim.Blowfish) : ∀ (n : Nat) (b : Bytes), b.length = 8 → (encryptTimes c n b).length = 8
  | 0, _, h => h
  | n + 1, b, _ => encryptTimes_length c n _ (C03bProofs.encrypt8_length c b)

theorem sumLen_bcrypt (a : KeyArgs) (k : Bytes) (h : key bcrypt a = .ok k) :
    (stdEncode bcryptAlphabet k).length = Gen.bcrypt.sumLength := by
  obtain ⟨a', h'⟩ := key_ok h
  by_cases hE : (if a'.optPrefix ≠ prefix2 then a'.password ++ [0] else a'.password).isEmpty = true
  · have : bcrypt.derive a' = .internal "cipher" := by
      show (if (if a'.optPrefix ≠ prefix2 then a'.password ++ [0] else a'.password).isEmpty = true then
        KeyRes.internal "cipher" else _) = _
      rw [if_pos hE]
    rw [this] at h'; cases h'
  · have : ∃ c, bcrypt.derive a' = .ok (((encryptTimes c 64 (orphean.take 8)) ++
        (encryptTimes c 64 ((orphean.drop 8).take 8)) ++ (encryptTimes c 64 (orphean.drop 16))).take 23) := by
      refine ⟨expandLoop (if a'.optPrefix ≠ prefix2 then a'.password ++ [0] else a'.password)
        (stdDecodeBuf bcryptAlphabet a'.salt) (2 ^ a'.rounds)
        (Prim.Blowfish.newSaltedCipher (if a'.optPrefix ≠ prefix2 then a'.password ++ [0] else a'.password)
          (stdDecodeBuf bcryptAlphabet a'.salt)), ?_⟩
      show (if (if a'.optPrefix ≠ prefix2 then a'.password ++ [0] else a'.password).isEmpty = true then
        KeyRes.internal "cipher" else _) = _
      rw [if_neg hE]
    obtain ⟨c, hc⟩ := this
    rw [hc] at h'
    cases h'
    rw [stdEncode_length, List.length_take, List.length_append, List.length_append,
      encryptTimes_length _ _ _ rfl, encryptTimes_length _ _ _ rfl, encryptTimes_length _ _ _ rfl]
    rfl

/-! ### NT hash: MD4 digests have 16 bytes -/

theorem toList_loop_length (bs : ByteArray) : ∀ (n i : Nat) (r : List UInt8), bs.size - i = n →
    (ByteArray.toList.loop bs i r).length = r.length + n := by
  intro n
  induction n with
  | zero =>
    intro i r h
    rw [ByteArray.toList.loop]
    have : ¬ i < bs.size := by omega
    simp [this]
  | succ n ih =>
    intro i r h
    rw [ByteArray.toList.loop]
    have : i < bs.size := by omega
    simp only [this, if_true]
    rw [ih (i+1) _ (by omega)]
    simp; omega

theorem byteArray_toList_length (bs : ByteArray) : bs.toList.length = bs.size := by
  unfold ByteArray.toList
  rw [toList_loop_length bs bs.size 0 [] (by omega)]
  simp

theorem pushLE32_size (b : ByteArray) (x : UInt32) : (Prim.pushLE32 b x).size = b.size + 4 := by
  simp [Prim.pushLE32, ByteArray.size_push]

theorem md4_length (x : Bytes) : (Prim.md4 x).length = 16 := by
  unfold Prim.md4 Prim.baToBytes Prim.md4BA
  rw [byteArray_toList_length]
  simp only [pushLE32_size]
  rfl

theorem sumLen_nthash (a : KeyArgs) (k : Bytes) (h : key nthash a = .ok k) :
    (hexLower k).length = Gen.nthash.sumLength := by
  obtain ⟨a', h'⟩ := key_ok h
  cases h'
  rw [hexLower_length, md4_length]; rfl

/-- argon2 sizes its buffer with `EncodedLen(len(key))`: no fact about `Key` is needed. -/
theorem sumLen_argon2 (k : Bytes) : (stdEncode stdAlphabet k).length = rawEncodedLen k.length :=
  stdEncode_length_raw _ _

end GoCrypt.FlowVal
