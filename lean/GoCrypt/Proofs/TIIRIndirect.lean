import GoCrypt.Proofs.TIIRDefs

/-!
# Type-info IR: `indirectType`

The regenerated `indirectType` removes every pointer star. Helper lemmas only.
-/

namespace GoCrypt.TIIR
open GoCrypt.Codec GoCrypt.Gen.typeinfoIR

theorem kindNum_ptr (t : RType) : (kindNum t = 22) = (0 < t.depth) := by
  apply propext
  unfold kindNum
  by_cases h : t.depth > 0
  · simp [h]
  · simp only [h, if_false]
    have h0 : ¬ 0 < t.depth := h
    simp only [iff_false]
    cases t.kind <;> simp <;> (repeat' split) <;> omega

theorem elemOf_succ (t : RType) (d : Nat) (h : t.depth = d + 1) : elemOf t = .ok { t with depth := d } := by
  simp [elemOf, h]

theorem indirect_loop (c : Ctx) (h : Heap) (fuel : Nat) : ∀ (t : RType) (v : Val), t.depth < fuel →
    loop (fun h env => eval c.structs h env (.bool true) >>= asBool) (exec c indirectTypeIR.body.forBody)
      (exec c indirectTypeIR.body.forPost) fuel h [.rtype t, v] = .ret h [.rtype { t with depth := 0 }] := by
  induction fuel with
  | zero => intro t v ht; omega
  | succ fuel ih =>
    intro t v ht
    rw [loop_step _ _ _ _ _ _ (by rfl)]
    simp only [indirectTypeIR, Stmt.forBody, Stmt.forPost]
    by_cases hd : t.depth = 0
    · have hk : ¬ kindNum t = 22 := by rw [kindNum_ptr]; omega
      ti_simp [hk]
      cases t; simp_all
    · obtain ⟨d, hd'⟩ : ∃ d, t.depth = d + 1 := ⟨t.depth - 1, by omega⟩
      have hk : kindNum t = 22 := by rw [kindNum_ptr]; omega
      ti_simp [hk, elemOf_succ t d hd']
      have := ih { t with depth := d } (.int 22) (by simp; omega)
      simp only [indirectTypeIR, Stmt.forBody, Stmt.forPost] at this
      exact this

theorem indirectType_proc (c : Ctx) (h : Heap) (t : RType) (ht : t.depth < c.fuel) :
    execProc c indirectTypeIR h [.rtype t] = .ok (h, [.rtype { t with depth := 0 }]) := by
  rw [execProc_eq _ _ _ _ (by rfl)]
  have h1 : exec c indirectTypeIR.body h [.rtype t, .undef] = .ret h [.rtype { t with depth := 0 }] :=
    indirect_loop c h c.fuel t .undef ht
  show procResult (exec c indirectTypeIR.body h [.rtype t, .undef]) = _
  rw [h1]; rfl

/-- Inside a call of the program at depth `d + 1`, function 3 is `indirectType`. -/
theorem indirectSpec_callIn (w : World) (d : Nat) :
    IndirectSpec { structs := w.structs, fuel := w.fuel, sort := w.sort, call := callIn program w (d + 1) } := by
  intro h t ht
  show callIn program w (d + 1) 3 h [.rtype t] = _
  rw [callIn_succ program w d 3 h _ indirectTypeIR (by rfl)]
  exact indirectType_proc _ h t ht

end GoCrypt.TIIR
