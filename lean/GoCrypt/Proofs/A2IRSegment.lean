import GoCrypt.Proofs.A2IRSpecs
import GoCrypt.Proofs.Argon2Eq.Segment
import GoCrypt.Proofs.Argon2Eq.Key

/-!
# Block IR, step 2: the lifted `processSegment` closure = the model's `processSegment`
-/

namespace GoCrypt.A2IR
open GoCrypt.Gen.argon2IR GoCrypt.Kdf GoCrypt.Argon2Sched GoCrypt.Argon2Eq

/-! ## parts of the generated body, by position -/

def segBody : Stmt := proc_processSegment.body
def segLoop : Stmt := (segBody.drop 8).head
def segLoopBody : Stmt := segLoop.forBody
/-- `in[6]++; processBlock(&addresses, &in, &zero); processBlock(&addresses, &addresses, &zero)` -/
def refresh1 : Stmt := ((segBody.drop 5).head.iteThen.drop 1).head.iteThen
/-- the data-independent-addressing test -/
def diExpr : Expr := (segBody.drop 3).head.iteCond

theorem refresh2_eq : ((segLoopBody.drop 2).head.iteThen).head.iteThen = refresh1 := rfl
theorem diExpr2_eq : (segLoopBody.drop 2).head.iteCond = diExpr := rfl

/-! ## small facts -/

theorem u64_one : UInt64.ofNat 1 = 1 := rfl
theorem u64_zero : UInt64.ofNat 0 = 0 := rfl
theorem arr1_get {α} (x : α) : (#[x] : Array α)[0]? = some x := rfl
theorem arr1_set {α} (x y : α) : (#[x] : Array α).set! 0 y = #[y] := rfl
theorem set!_size {α} (b : Array α) (k : Nat) (x : α) : (b.set! k x).size = b.size := by simp
theorem getElem?_of_lt {α} [Inhabited α] (b : Array α) (k : Nat) (h : k < b.size) : b[k]? = some b[k]! := by
  simp [h]

theorem natCast_eq_ofNat (a k : Nat) : ((a : Int) = (no_index (OfNat.ofNat k) : Int)) = (a = (OfNat.ofNat k : Nat)) := by
  show ((a : Int) = ((OfNat.ofNat k : Nat) : Int)) = _
  exact propext Int.ofNat_inj

/-- the frame of `processSegment` once its three local blocks exist (`L` = height of the local region at entry);
a macro, not a definition: a definition inside `exec c <program> h (…)` would have to be unfolded by the kernel -/
local macro "segEnv%" L:term:max rB:term:max rW:term:max time:term:max memory:term:max threads:term:max mode:term:max
    version:term:max lanes:term:max segments:term:max n:term:max slice:term:max lane:term:max
    index:term:max offset:term:max random:term:max p:term:max q:term:max : term =>
  `([Val.blks $rB, Val.u32 $time, Val.u32 $memory, Val.u32 $threads, Val.int ($mode : Nat), Val.int ($version : Nat), Val.u32 $lanes, Val.u32 $segments,
   Val.u32 $n, Val.u32 $slice, Val.u32 $lane, Val.pwg $rW,
   Val.pblk (Ref.stk $L) 0, Val.pblk (Ref.stk ($L + 1)) 0, Val.pblk (Ref.stk ($L + 2)) 0,
   Val.u32 $index, Val.u32 $offset, Val.u64 $random, $p, $q])

theorem eval_di (h : Heap) (L : Nat) (rB rW : Ref) (time memory threads mode version lanes segments n slice lane : Nat)
    (index offset : Nat) (random : UInt64) (p q : Val) :
    eval h (segEnv% L rB rW time memory threads mode version lanes segments n slice lane index offset random p q) diExpr =
      .ok (.bool (DIm mode n slice)) := by
  simp only [diExpr, segBody, proc_processSegment, Stmt.drop, Stmt.head, Stmt.iteCond, DIm, Argon2.argon2i, Argon2.argon2id,
    Argon2.syncPoints]
  by_cases h1 : mode = 1 <;> by_cases h2 : mode = 2 <;> by_cases h3 : n = 0 <;> by_cases h4 : slice < 2 <;>
    a2_simp [natCast_eq_ofNat, h1, h2, h3, h4] <;> simp_all <;> omega


/-- `processBlock`/`processBlockXOR` on three of the local objects. -/
theorem pb_locals {c : Ctx} {name : String} {xor : Bool} (hpb : ProcessBlockSpec c name xor) (hB : Heap) (os : List Obj)
    (ko k1 k2 : Nat) (x y z : Block) (ho : os[ko]? = some (.blocks #[x])) (h1 : os[k1]? = some (.blocks #[y]))
    (h2 : os[k2]? = some (.blocks #[z])) (sx : x.size = 128) (sy : y.size = 128) (sz : z.size = 128) :
    c.call name (hB.push os) [.pblk (.stk (hB.stk.length + ko)) 0, .pblk (.stk (hB.stk.length + k1)) 0, .pblk (.stk (hB.stk.length + k2)) 0] =
      .ok (hB.push (os.set ko (.blocks #[Argon2.processBlock x y z xor])), []) := by
  have := hpb (hB.push os) (.stk (hB.stk.length + ko)) (.stk (hB.stk.length + k1)) (.stk (hB.stk.length + k2)) 0 0 0
    #[x] #[y] #[z] (by rw [Heap.get_push_top]; exact ho) (by rw [Heap.get_push_top]; exact h1) (by rw [Heap.get_push_top]; exact h2)
    (by simp) (by simp) (by simp) (by simpa using sx) (by simpa using sy) (by simpa using sz)
  rw [this, Heap.set_push_top]
  simp

/-- `processBlock`/`processBlockXOR` on three blocks of the memory `B` (object `rB` below the locals). -/
theorem pb_mem {c : Ctx} {name : String} {xor : Bool} (hpb : ProcessBlockSpec c name xor) (hB : Heap) (os : List Obj)
    (rB : Ref) (B : Array Block) (hg : hB.get rB = some (.blocks B)) (h128 : Blocks128 B) (o p q : Nat)
    (ho : o < B.size) (hp : p < B.size) (hq : q < B.size) :
    c.call name (hB.push os) [.pblk rB o, .pblk rB p, .pblk rB q] =
      .ok ((hB.set rB (.blocks (B.set! o (Argon2.processBlock B[o]! B[p]! B[q]! xor)))).push os, []) := by
  have hr := Ref.inH_of_get hg
  have hg' : (hB.push os).get rB = some (.blocks B) := by rw [Heap.get_push_of_in _ _ _ hr]; exact hg
  rw [hpb (hB.push os) rB rB rB o p q B B B hg' hg' hg' ho hp hq (h128 o ho) (h128 p hp) (h128 q hq),
    Heap.set_push_of_in _ _ _ _ hr]

/-- The refresh of the address block. -/
theorem refresh_exec (c : Ctx) (hpb : ProcessBlockSpec c "processBlock" false) (hB : Heap) (a i z : Block)
    (sa : a.size = 128) (si : i.size = 128) (sz : z.size = 128)
    (v0 v1 v2 v3 v4 v5 v6 v7 v8 v9 v10 v11 v15 v16 v17 v18 v19 : Val) :
    exec c refresh1 (hB.push [.blocks #[a], .blocks #[i], .blocks #[z]])
      [v0, v1, v2, v3, v4, v5, v6, v7, v8, v9, v10, v11, .pblk (.stk hB.stk.length) 0, .pblk (.stk (hB.stk.length + 1)) 0,
       .pblk (.stk (hB.stk.length + 2)) 0, v15, v16, v17, v18, v19] =
    .norm (hB.push [.blocks #[Argon2.processBlock (Argon2.processBlock a (i.set! 6 (i[6]! + 1)) z false)
                                (Argon2.processBlock a (i.set! 6 (i[6]! + 1)) z false) z false],
                    .blocks #[i.set! 6 (i[6]! + 1)], .blocks #[z]])
      [v0, v1, v2, v3, v4, v5, v6, v7, v8, v9, v10, v11, .pblk (.stk hB.stk.length) 0, .pblk (.stk (hB.stk.length + 1)) 0,
       .pblk (.stk (hB.stk.length + 2)) 0, v15, v16, v17, v18, v19] := by
  have si' : (i.set! 6 (i[6]! + 1)).size = 128 := by rw [set!_size]; exact si
  have c1 := pb_locals hpb hB [.blocks #[a], .blocks #[i.set! 6 (i[6]! + 1)], .blocks #[z]] 0 1 2 a _ z rfl rfl rfl sa si' sz
  have sa' : (Argon2.processBlock a (i.set! 6 (i[6]! + 1)) z false).size = 128 := Argon2Eq.processBlock_size _ _ _ _ sa
  have c2 := pb_locals hpb hB [.blocks #[Argon2.processBlock a (i.set! 6 (i[6]! + 1)) z false], .blocks #[i.set! 6 (i[6]! + 1)], .blocks #[z]]
    0 0 2 _ _ z rfl rfl rfl sa' sa' sz
  simp only [Nat.add_zero, List.set_cons_zero] at c1 c2
  simp only [refresh1, segBody, proc_processSegment, Stmt.drop, Stmt.head, Stmt.iteThen]
  a2_simp [asIdx_lit, readWord, blockAt, storeWord, Heap.get_push_top, Heap.get_push_top0, Heap.set_push_top, Heap.set_push_top0,
    getElem?_of_lt, arr1_get, arr1_set, c1, c2, u64_one]

/-- `prev` as the model computes it -/
def prevM (lanes slice index offset : Nat) : Nat :=
  if (index == 0 && slice == 0) = true then Argon2.u32 (Argon2.u32 (offset + 4294967296 - 1) + lanes)
  else Argon2.u32 (offset + 4294967296 - 1)

/-- statements 0–1 of the loop body: `prev := offset - 1; if index == 0 && slice == 0 { prev += lanes }` -/
theorem seg_prev (c : Ctx) (h : Heap) (L : Nat) (rB rW : Ref) (time memory threads mode version lanes segments n slice lane : Nat)
    (index offset : Nat) (random : UInt64) (p q : Val) :
    exec c (segLoopBody.take 2) h
        (segEnv% L rB rW time memory threads mode version lanes segments n slice lane index offset random p q) =
      .norm h (segEnv% L rB rW time memory threads mode version lanes segments n slice lane index offset random
        (.u32 (prevM lanes slice index offset)) q) := by
  simp only [segLoopBody, segLoop, segBody, proc_processSegment, Stmt.drop, Stmt.head, Stmt.forBody, Stmt.take]
  by_cases hi : index = 0 <;> by_cases hs : slice = 0
  · have hp : prevM lanes slice index offset = ((offset + 4294967296 - 1) % 4294967296 + lanes) % 4294967296 := by
      unfold prevM Argon2.u32; rw [if_pos (by simp [hi, hs])]
    rw [hp]; a2_simp [hi, hs]
  all_goals
    have hp : prevM lanes slice index offset = (offset + 4294967296 - 1) % 4294967296 := by
      unfold prevM Argon2.u32; rw [if_neg (by simp [hi, hs])]
    rw [hp]; a2_simp [hi, hs]

theorem zeroBlock_eq : A2IR.zeroBlock = Argon2.zeroBlock := rfl
theorem zeroBlock_size : Argon2.zeroBlock.size = 128 := by simp [Argon2.zeroBlock, Argon2.blockLength]

/-- the heap while `processSegment` runs: the memory `B` in object `rB`, then the three local blocks -/
def segHeap (hB : Heap) (rB : Ref) (B : Array Block) (a i : Block) : Heap :=
  (hB.set rB (.blocks B)).push [.blocks #[a], .blocks #[i], .blocks #[Argon2.zeroBlock]]

set_option maxHeartbeats 2000000 in
/-- statements 2–5 of the loop body, given `prev` -/
theorem seg_rest (c : Ctx) (hpb : ProcessBlockSpec c "processBlock" false) (hpx : ProcessBlockSpec c "processBlockXOR" true)
    (hia : IndexAlphaSpec c) (hB : Heap) (rB rW : Ref) (B : Array Block) (a i : Block)
    (time memory threads mode version lanes segments n slice lane : Nat) (index offset : Nat) (random : UInt64) (q : Val)
    (hg : hB.get rB = some (.blocks B)) (h128 : Blocks128 B) (sa : a.size = 128) (si : i.size = 128)
    (hlt : index < segments) (hoff : offset < B.size)
    (hpv : prevM lanes slice index offset < B.size)
    (hno : ∀ rand, Gen.argon2crypto.indexAlpha rand lanes segments threads n slice lane index < B.size)
    (hl : 0 < lanes) (hl32 : lanes < 4294967296) (ht : 0 < threads) :
    exec c (segLoopBody.drop 2) (hB.push [.blocks #[a], .blocks #[i], .blocks #[Argon2.zeroBlock]])
        (segEnv% hB.stk.length rB rW time memory threads mode version lanes segments n slice lane index offset random
          (.u32 (prevM lanes slice index offset)) q) =
      (let s' := mStep threads mode version lanes segments n slice lane (B, a, i, index, offset, random)
       .norm ((hB.set rB (.blocks s'.1)).push [.blocks #[s'.2.1], .blocks #[s'.2.2.1], .blocks #[Argon2.zeroBlock]])
        (segEnv% hB.stk.length rB rW time memory threads mode version lanes segments n slice lane s'.2.2.2.1 s'.2.2.2.2.1 s'.2.2.2.2.2
          (.u32 (prevM lanes slice index offset))
          (.u32 (Gen.argon2crypto.indexAlpha s'.2.2.2.2.2.toNat lanes segments threads n slice lane index)))) := by
  have hr := Ref.inH_of_get hg
  have hpvsz := h128 _ hpv
  have hgp : ∀ os, (hB.push os).get rB = some (.blocks B) := fun os => by rw [Heap.get_push_of_in _ _ _ hr]; exact hg
  have cia : ∀ (h : Heap) (rand : UInt64), c.call "indexAlpha" h
      [.u64 rand, .u32 lanes, .u32 segments, .u32 threads, .u32 n, .u32 slice, .u32 lane, .u32 index] =
      .ok (h, [.u32 (Gen.argon2crypto.indexAlpha rand.toNat lanes segments threads n slice lane index)]) :=
    fun h rand => hia h rand lanes segments threads n slice lane index hl hl32 ht
  have cpb : ∀ (os : List Obj) (rand : Nat), c.call "processBlock" (hB.push os)
      [.pblk rB offset, .pblk rB (prevM lanes slice index offset),
       .pblk rB (Gen.argon2crypto.indexAlpha rand lanes segments threads n slice lane index)] = _ :=
    fun os rand => pb_mem hpb hB os rB B hg h128 _ _ _ hoff hpv (hno rand)
  have cpx : ∀ (os : List Obj) (rand : Nat), c.call "processBlockXOR" (hB.push os)
      [.pblk rB offset, .pblk rB (prevM lanes slice index offset),
       .pblk rB (Gen.argon2crypto.indexAlpha rand lanes segments threads n slice lane index)] = _ :=
    fun os rand => pb_mem hpx hB os rB B hg h128 _ _ _ hoff hpv (hno rand)
  have hprev : (if (index == 0 && slice == 0) = true then Argon2.u32 (Argon2.u32 (offset + 4294967296 - 1) + lanes)
      else Argon2.u32 (offset + 4294967296 - 1)) = prevM lanes slice index offset := rfl
  have hst : segLoopBody.drop 2 = (.ite diExpr (segLoopBody.drop 2).head.iteThen (segLoopBody.drop 2).head.iteElse ;;; segLoopBody.drop 3) := rfl
  rw [hst, exec_seq, exec_ite, eval_di]
  have hvb : (!(version == Argon2.version10)) = !(decide (version = 16)) := by
    by_cases hv : version = 16 <;> simp [Argon2.version10, hv]
  cases hd : DIm mode n slice
  · -- data-dependent addressing
    have hm : mStep threads mode version lanes segments n slice lane (B, a, i, index, offset, random) =
        (B.set! offset (Argon2.processBlock B[offset]! B[prevM lanes slice index offset]!
            B[Gen.argon2crypto.indexAlpha ((B[prevM lanes slice index offset]!)[0]!).toNat lanes segments threads n slice lane index]!
            (!(decide (version = 16)))),
         a, i, (index + 1) % 4294967296, (offset + 1) % 4294967296, (B[prevM lanes slice index offset]!)[0]!) := by
      simp only [mStep, hlt, hd, if_true, hprev, Bool.false_and, Bool.false_eq_true, if_false, hvb]
      rw [setB_eq _ _ _ hoff]; rfl
    simp only [hm]
    simp only [segLoopBody, segLoop, segBody, proc_processSegment, Stmt.drop, Stmt.head, Stmt.forBody, Stmt.iteElse]
    by_cases hv : version = 16 <;>
      a2_simp [asIdx_lit, readWord, blockAt, hgp, getElem?_of_lt, cia, cpb, cpx, natCast_eq_ofNat, hv, hno]
  · -- data-independent addressing
    have hth : (segLoopBody.drop 2).head.iteThen =
        (.ite (segLoopBody.drop 2).head.iteThen.head.iteCond refresh1 .skip ;;; (segLoopBody.drop 2).head.iteThen.drop 1) := rfl
    rw [hth]
    by_cases hrf : index % 128 = 0
    · have hm : mStep threads mode version lanes segments n slice lane (B, a, i, index, offset, random) =
          (let i' := i.set! 6 (i[6]! + 1)
           let a1 := Argon2.processBlock a i' Argon2.zeroBlock false
           let a' := Argon2.processBlock a1 a1 Argon2.zeroBlock false
           (B.set! offset (Argon2.processBlock B[offset]! B[prevM lanes slice index offset]!
              B[Gen.argon2crypto.indexAlpha (a'[index % 128]!).toNat lanes segments threads n slice lane index]!
              (!(decide (version = 16)))),
            a', i', (index + 1) % 4294967296, (offset + 1) % 4294967296, a'[index % 128]!)) := by
        have e : (index % Argon2.blockLength == 0) = true := by simp [Argon2.blockLength, hrf]
        simp only [mStep, hlt, hd, if_true, hprev, Bool.true_and, e, hvb]
        rw [setB_eq _ _ _ hoff]; rfl
      simp only [hm]
      have sa' : (Argon2.processBlock (Argon2.processBlock a (i.set! 6 (i[6]! + 1)) Argon2.zeroBlock false)
          (Argon2.processBlock a (i.set! 6 (i[6]! + 1)) Argon2.zeroBlock false) Argon2.zeroBlock false).size = 128 :=
        processBlock_size _ _ _ _ (processBlock_size _ _ _ _ sa)
      have hc : eval (hB.push [.blocks #[a], .blocks #[i], .blocks #[Argon2.zeroBlock]])
          (segEnv% hB.stk.length rB rW time memory threads mode version lanes segments n slice lane index offset random
            (.u32 (prevM lanes slice index offset)) q) (segLoopBody.drop 2).head.iteThen.head.iteCond = .ok (.bool true) := by
        simp only [segLoopBody, segLoop, segBody, proc_processSegment, Stmt.drop, Stmt.head, Stmt.forBody, Stmt.iteThen, Stmt.iteCond]
        a2_simp [hrf]
      rw [exec_seq, exec_ite, hc]
      simp only [ok_bind, asBool_bool, bindR_ok, if_true]
      rw [refresh_exec c hpb hB a i Argon2.zeroBlock sa si zeroBlock_size, andThen_norm]
      simp only [segLoopBody, segLoop, segBody, proc_processSegment, Stmt.drop, Stmt.head, Stmt.forBody, Stmt.iteThen]
      by_cases hv : version = 16 <;>
        a2_simp [asIdx_lit, readWord, blockAt, hgp, getElem?_of_lt, cia, cpb, cpx, natCast_eq_ofNat, hv, hno,
          Heap.get_push_top0, arr1_get, Nat.mod_lt]
    · have hm : mStep threads mode version lanes segments n slice lane (B, a, i, index, offset, random) =
          (B.set! offset (Argon2.processBlock B[offset]! B[prevM lanes slice index offset]!
              B[Gen.argon2crypto.indexAlpha (a[index % 128]!).toNat lanes segments threads n slice lane index]!
              (!(decide (version = 16)))),
            a, i, (index + 1) % 4294967296, (offset + 1) % 4294967296, a[index % 128]!) := by
        have e : (index % Argon2.blockLength == 0) = false := by simp [Argon2.blockLength, hrf]
        simp only [mStep, hlt, hd, if_true, hprev, Bool.true_and, e, hvb, Bool.false_eq_true, if_false]
        rw [setB_eq _ _ _ hoff]; rfl
      simp only [hm]
      have hc : eval (hB.push [.blocks #[a], .blocks #[i], .blocks #[Argon2.zeroBlock]])
          (segEnv% hB.stk.length rB rW time memory threads mode version lanes segments n slice lane index offset random
            (.u32 (prevM lanes slice index offset)) q) (segLoopBody.drop 2).head.iteThen.head.iteCond = .ok (.bool false) := by
        simp only [segLoopBody, segLoop, segBody, proc_processSegment, Stmt.drop, Stmt.head, Stmt.forBody, Stmt.iteThen, Stmt.iteCond]
        a2_simp [hrf]
      rw [exec_seq, exec_ite, hc]
      simp only [ok_bind, asBool_bool, bindR_ok, Bool.false_eq_true, if_false, exec_skip, andThen_norm]
      simp only [segLoopBody, segLoop, segBody, proc_processSegment, Stmt.drop, Stmt.head, Stmt.forBody, Stmt.iteThen]
      by_cases hv : version = 16 <;>
        a2_simp [asIdx_lit, readWord, blockAt, hgp, getElem?_of_lt, cia, cpb, cpx, natCast_eq_ofNat, hv, hno,
          Heap.get_push_top0, arr1_get, Nat.mod_lt]

theorem eval_di_gen (h : Heap) (env : Env) (mode n slice : Nat) (h4 : env[4]? = some (.int mode)) (h8 : env[8]? = some (.u32 n))
    (h9 : env[9]? = some (.u32 slice)) : eval h env diExpr = .ok (.bool (DIm mode n slice)) := by
  simp only [diExpr, segBody, proc_processSegment, Stmt.drop, Stmt.head, Stmt.iteCond, DIm, Argon2.argon2i, Argon2.argon2id,
    Argon2.syncPoints]
  by_cases h1 : mode = 1 <;> by_cases h2 : mode = 2 <;> by_cases h3 : n = 0 <;> by_cases h4' : slice < 2 <;>
    a2_simp [natCast_eq_ofNat, h1, h2, h3, h4', h4, h8, h9] <;> simp_all <;> omega

/-- the input block of the address generator -/
def in0M (time memory mode n slice lane : Nat) : Block :=
  if DIm mode n slice = true then
    (((((Argon2.zeroBlock.set! 0 (UInt64.ofNat n)).set! 1 (UInt64.ofNat lane)).set! 2 (UInt64.ofNat slice)).set! 3
        (UInt64.ofNat memory)).set! 4 (UInt64.ofNat time)).set! 5 (UInt64.ofNat mode)
  else Argon2.zeroBlock

theorem in0M_size (time memory mode n slice lane : Nat) : (in0M time memory mode n slice lane).size = 128 := by
  unfold in0M; split <;> simp [Argon2.zeroBlock, Argon2.blockLength]

/-- statements 0–3: the three local blocks and the initialisation of `in` -/
theorem seg_pro1 (c : Ctx) (h : Heap) (rB rW : Ref) (time memory threads mode version lanes segments n slice lane : Nat) :
    exec c (segBody.take 4) h
      [.blks rB, .u32 time, .u32 memory, .u32 threads, .int mode, .int version, .u32 lanes, .u32 segments,
       .u32 n, .u32 slice, .u32 lane, .pwg rW, .undef, .undef, .undef, .undef, .undef, .undef, .undef, .undef] =
    .norm (h.push [.blocks #[Argon2.zeroBlock], .blocks #[in0M time memory mode n slice lane], .blocks #[Argon2.zeroBlock]])
      [.blks rB, .u32 time, .u32 memory, .u32 threads, .int mode, .int version, .u32 lanes, .u32 segments,
       .u32 n, .u32 slice, .u32 lane, .pwg rW, .pblk (.stk h.stk.length) 0, .pblk (.stk (h.stk.length + 1)) 0,
       .pblk (.stk (h.stk.length + 2)) 0, .undef, .undef, .undef, .undef, .undef] := by
  have e1 : (segBody.take 4).take 3 = segBody.take 3 := rfl
  have e2 : (segBody.take 4).drop 3 = (.ite diExpr (segBody.drop 3).head.iteThen .skip ;;; .skip) := rfl
  rw [exec_take_drop c h _ 3 (segBody.take 4), e1, e2]
  have h3 : exec c (segBody.take 3) h
      [.blks rB, .u32 time, .u32 memory, .u32 threads, .int mode, .int version, .u32 lanes, .u32 segments,
       .u32 n, .u32 slice, .u32 lane, .pwg rW, .undef, .undef, .undef, .undef, .undef, .undef, .undef, .undef] =
    .norm (h.push [.blocks #[Argon2.zeroBlock], .blocks #[Argon2.zeroBlock], .blocks #[Argon2.zeroBlock]])
      [.blks rB, .u32 time, .u32 memory, .u32 threads, .int mode, .int version, .u32 lanes, .u32 segments,
       .u32 n, .u32 slice, .u32 lane, .pwg rW, .pblk (.stk h.stk.length) 0, .pblk (.stk (h.stk.length + 1)) 0,
       .pblk (.stk (h.stk.length + 2)) 0, .undef, .undef, .undef, .undef, .undef] := by
    simp only [segBody, proc_processSegment, Stmt.take]
    a2_simp [zeroBlock_eq, Nat.add_assoc]
  rw [h3, andThen_norm, exec_seq, exec_ite, eval_di_gen _ _ mode n slice rfl rfl rfl]
  unfold in0M
  cases hd : DIm mode n slice
  · a2_simp
  · simp only [segBody, proc_processSegment, Stmt.drop, Stmt.head, Stmt.iteThen]
    a2_simp [asIdx_lit, readWord, blockAt, storeWord, Heap.get_push_top, Heap.set_push_top,
      getElem?_of_lt, arr1_get, arr1_set, u64_ofNat_mod, set!_size, zeroBlock_size]


theorem mInit_eq (B : Array Block) (time memory mode lanes segments n slice lane : Nat) :
    mInit B time memory mode lanes segments n slice lane =
      (let in0 := in0M time memory mode n slice lane
       let fa : Bool := (n == 0 && slice == 0) && (mode == Argon2.argon2i || mode == Argon2.argon2id)
       let in1 := if fa = true then in0.set! 6 (in0[6]! + 1) else in0
       let a1 := Argon2.processBlock Argon2.zeroBlock in1 Argon2.zeroBlock false
       let addresses := if fa = true then Argon2.processBlock a1 a1 Argon2.zeroBlock false else Argon2.zeroBlock
       let index := if (n == 0 && slice == 0) = true then 2 else 0
       (B, addresses, in1, index,
        ((lane * lanes % 4294967296 + slice * segments % 4294967296) % 4294967296 + index) % 4294967296, 0)) := rfl

set_option maxHeartbeats 1000000 in
/-- statements 4–7: `index`, the first address block, `offset`, `random` -/
theorem seg_pro2 (c : Ctx) (hpb : ProcessBlockSpec c "processBlock" false) (h : Heap) (rB rW : Ref) (B : Array Block)
    (time memory threads mode version lanes segments n slice lane : Nat) :
    exec c ((segBody.drop 4).take 4)
      (h.push [.blocks #[Argon2.zeroBlock], .blocks #[in0M time memory mode n slice lane], .blocks #[Argon2.zeroBlock]])
      [.blks rB, .u32 time, .u32 memory, .u32 threads, .int mode, .int version, .u32 lanes, .u32 segments,
       .u32 n, .u32 slice, .u32 lane, .pwg rW, .pblk (.stk h.stk.length) 0, .pblk (.stk (h.stk.length + 1)) 0,
       .pblk (.stk (h.stk.length + 2)) 0, .undef, .undef, .undef, .undef, .undef] =
    (let s := mInit B time memory mode lanes segments n slice lane
     .norm (h.push [.blocks #[s.2.1], .blocks #[s.2.2.1], .blocks #[Argon2.zeroBlock]])
      (segEnv% h.stk.length rB rW time memory threads mode version lanes segments n slice lane s.2.2.2.1 s.2.2.2.2.1 0
        .undef .undef)) := by
  have e1 : (segBody.drop 4).take 4 =
      ((segBody.drop 4).head ;;;
       .ite (segBody.drop 5).head.iteCond
          ((segBody.drop 5).head.iteThen.head ;;; .ite ((segBody.drop 5).head.iteThen.drop 1).iteCond refresh1 .skip) .skip ;;;
       (segBody.drop 6).head ;;; (segBody.drop 7).head ;;; .skip) := rfl
  rw [e1, mInit_eq]
  have hin := in0M_size time memory mode n slice lane
  generalize in0M time memory mode n slice lane = i0 at hin ⊢
  simp only [exec_seq, exec_ite]
  simp only [segBody, proc_processSegment, Stmt.drop, Stmt.head, Stmt.iteCond, Stmt.iteThen]
  by_cases hn : n = 0 <;> by_cases hs : slice = 0
  · by_cases hm1 : mode = 1
    · a2_simp [hn, hs, hm1, natCast_eq_ofNat, refresh_exec c hpb h _ _ _ zeroBlock_size hin zeroBlock_size, u64_zero]
      simp [Argon2.argon2i]
    · by_cases hm2 : mode = 2
      · a2_simp [hn, hs, hm1, hm2, natCast_eq_ofNat, refresh_exec c hpb h _ _ _ zeroBlock_size hin zeroBlock_size, u64_zero]
        simp [Argon2.argon2id, Argon2.argon2i]
      · a2_simp [hn, hs, hm1, hm2, natCast_eq_ofNat, u64_zero]
        simp [Argon2.argon2id, Argon2.argon2i, hm1, hm2]
  all_goals
    a2_simp [hn, hs, natCast_eq_ofNat, u64_zero]
    simp [hn, hs]

end GoCrypt.A2IR
