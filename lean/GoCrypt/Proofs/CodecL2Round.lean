import GoCrypt.Proofs.CodecL2Main

/-!
# The general Marshal / Unmarshal round trip (layers L2 … L6)

`L6.roundtrip`: for every struct type (`tiWf`) whose layout is `unambiguous` with separated groups, and
every well-typed value that is `representable`, whose last written text is not empty and in which no
text can be mistaken for an omitted optional parameter, `Unmarshal (Marshal v) = v`.

The lower rungs `L2 … L5` restrict the tag options per field and are instances of `L6.roundtrip`.
-/

namespace GoCrypt.Codec
open Bytes GoCrypt.Parse Layers GoCrypt.Respell GoCrypt.CodecDomain GoCrypt.RefParse

/-! ## The final checks of `unmarshalTree` after a closed loop -/

theorem tailPart_of_closed (ti : TypeInfo) (hashLen : Nat) (tree : Tree) (out0 : Vals) (st' : LoopSt)
    (hl : loopFields hashLen ti.fields
      { frags := tree.frags, numValues := tree.frags.length, numReq := ti.numReqValues, out := out0 } = .ok st')
    (hc : Closed st') : tailPart ti hashLen tree out0 = .ok st'.out := by
  unfold tailPart
  rcases hc with ⟨hg, hf⟩ | ⟨g, x, hg, hn, hf⟩
  · simp only [hl, bind, Except.bind, hg, pure, Except.pure, hf]
  · simp only [hl, bind, Except.bind, hg, hn, Nat.lt_irrefl, gt_iff_lt, if_false, pure, Except.pure, hf,
      List.tail_cons]

theorem unmarshalTree_of_closed (ti : TypeInfo) (hashLen : Nat) (tree : Tree) (out0 : Vals) (st' : LoopSt)
    (h0 : prefixPart ti hashLen tree = .ok out0)
    (hl : loopFields hashLen ti.fields
      { frags := tree.frags, numValues := tree.frags.length, numReq := ti.numReqValues, out := out0 } = .ok st')
    (hc : Closed st') : unmarshalTree ti hashLen tree = .ok st'.out := by
  rw [unmarshalTree_eq, h0]
  exact tailPart_of_closed ti hashLen tree out0 st' hl hc

namespace L6

/-- Shape side: a struct type as `getTypeInfo` builds it, over supported kinds and text codecs, whose
layout is unambiguous, with parameter groups separated by a required field. -/
def shapeOk (ti : TypeInfo) : Bool :=
  tiWf ti && unambiguous ti && groupsSeparated ti.fields

/-- Value side: a well-typed representable value whose last written text is not empty and none of
whose texts can be mistaken for an omitted optional parameter. -/
def valuesOk (ti : TypeInfo) (vals : Vals) : Bool :=
  Layers.typed ti vals && representable ti vals && lastTextOk vals ti.fields && noSteal vals ti.fields

theorem typed_field (ti : TypeInfo) (vals : Vals) (h : Layers.typed ti vals = true) :
    ∀ f ∈ ti.hashPrefix.toList ++ ti.fields, typedField f (fieldVal vals f) = true := by
  intro f hf
  exact (List.all_eq_true.1 h) f hf

/-- The static context of the loop from the hypotheses. -/
theorem ctx_of (ti : TypeInfo) (vals : Vals) (hwf : tiWf ti = true) (hu : unambiguous ti = true)
    (ht : Layers.typed ti vals = true) (hr : representable ti vals = true) : Ctx vals ti.fields := by
  have U := unambiguous_facts ti hu
  have R := representable_facts ti vals hr
  simp only [tiWf, Bool.and_eq_true, List.all_eq_true, decide_eq_true_eq, beq_iff_eq] at hwf
  obtain ⟨⟨⟨⟨hfw, -⟩, -⟩, hpn⟩, -⟩ := hwf
  have htf := typed_field ti vals ht
  refine ⟨?_, hfw, U.alnum, ?_, U.world⟩
  · intro f hf hem
    have hv := typed_emitted_valOk vals f (htf f (by simp [hf])) hem (R.nil f hf)
    exact field_facts vals f (hfw f hf) (U.alnum f hf) hv (R.mv f hf hem) (R.nd f hf hem) (R.wl f hf hem)
      (R.des f hf)
  · intro f hf g hg hp he
    have hf' : f ∈ ti.fields.filter (fun f => f.opts.param ≠ []) := List.mem_filter.2 ⟨hf, by simpa using hp⟩
    have hg' : g ∈ ti.fields.filter (fun f => f.opts.param ≠ []) :=
      List.mem_filter.2 ⟨hg, by rw [← he]; simpa using hp⟩
    exact key_inj (fun f : FieldInfo => f.opts.param) (ti.fields.filter (fun f => f.opts.param ≠ [])) hpn
      f hf' g hg' he

theorem filter_fields_pres (fields : List FieldInfo) (p q : FieldInfo → Bool)
    (h : ∀ f ∈ fields, p f = q f) : fields.filter p = fields.filter q :=
  List.filter_congr h

theorem roundtrip (ti : TypeInfo) (vals : Vals) (s : Bytes)
    (hs : shapeOk ti = true) (hv : valuesOk ti vals = true) (hm : marshal ti vals = .ok s) :
    ∃ out, unmarshal ti s = .ok out ∧ finalVals ti out = canonVals ti vals := by
  simp only [shapeOk, Bool.and_eq_true] at hs
  obtain ⟨⟨hwf, hu⟩, hgs⟩ := hs
  simp only [valuesOk, Bool.and_eq_true] at hv
  obtain ⟨⟨⟨ht, hr⟩, hlast⟩, hns⟩ := hv
  have C := ctx_of ti vals hwf hu ht hr
  have U := unambiguous_facts ti hu
  have R := representable_facts ti vals hr
  have htf := typed_field ti vals ht
  simp only [tiWf, Bool.and_eq_true, List.all_eq_true, decide_eq_true_eq, beq_iff_eq] at hwf
  obtain ⟨⟨⟨⟨hfw, hpfx⟩, hnd⟩, hpn⟩, hnr⟩ := hwf
  -- the string
  obtain ⟨hsr, hmp, -⟩ := marshal_render ti vals s hm
  rw [render_pieces vals ti.fields] at hsr
  have hsr' : s = L1.prefixTextOf ti vals ++ renderPieces (bodyPieces vals ti.fields) := hsr
  -- the pieces
  have hpp : ∀ ms ∈ bodyPieces vals ti.fields, ms ≠ [] ∧ ∀ m ∈ ms, NoDelim m := fun ms hms =>
    ⟨bodyPieces_pieces_ne vals ti.fields ms hms,
     bodyPieces_noDelim vals ti.fields (fun f hf hem => (C.facts f hf hem).nd) ms hms⟩
  have hpl : ∀ ms, (bodyPieces vals ti.fields).getLast? = some ms → ms.getLast? ≠ some [] := by
    intro ms hms
    simp only [lastTextOk, hms, bne_iff_ne, ne_eq] at hlast
    exact hlast
  -- the loop, from any prefix assignment
  have hloop : ∀ (out0 : Vals) (off : Nat), ∃ st',
      loopFields s.length ti.fields
        { frags := piecesFrags off (bodyPieces vals ti.fields),
          numValues := (piecesFrags off (bodyPieces vals ti.fields)).length,
          numReq := ti.numReqValues, out := out0 } = .ok st' ∧ Closed st' ∧
      st'.out = out0 ++ (ti.fields.filter (emitted vals)).map (fun f => (f.index, fieldVal vals f)) := by
    intro out0 off
    have hft := fragsTexts_piecesFrags (bodyPieces vals ti.fields) off (fun ms hms => (hpp ms hms).1)
    exact loop_main s.length vals ti.fields C ti.fields.length ti.fields _ (Nat.le_refl _) (fun f hf => hf)
      U.inl hgs hns R.runs R.greedy rfl hft
      ⟨fun _ => by dsimp only; rw [hnr]; exact Int.le_refl _, fun _ => by dsimp only; rw [hnr]; exact Int.le_refl _⟩
  -- reading the assignments back
  have hzero : ∀ f ∈ ti.fields, emitted vals f = false → fieldVal vals f = zeroOf f.kind f.ptrDepth := by
    intro f hf hem
    have ho := omitEmpty_of_omitted vals f hem
    have he : isEmptyVal f (fieldVal vals f) = true := by
      simpa [emitted, ho] using hem
    exact omitted_zero f _ (htf f (by simp [hf])) he
  -- body start
  have hbody : L1.prefixTextOf ti vals = [] →
      ∀ c, (renderPieces (bodyPieces vals ti.fields)).head? = some c → c ≠ dollar ∧ c ≠ underscore := by
    intro hp0 c hc
    rw [← render_pieces vals ti.fields] at hc
    exact R.body hp0 c hc
  by_cases hp0 : L1.prefixTextOf ti vals = []
  · -- no prefix text: the tree has no prefix
    have hparse := parse_render_pieces none _ (WfPrefix.none _ (hbody hp0)) hpp hpl
    simp only [Option.getD_none, List.nil_append, List.length_nil] at hparse
    rw [hp0, List.nil_append] at hsr'
    rw [← hsr'] at hparse
    obtain ⟨st', hl', hcl, hout⟩ := hloop [] 0
    cases hhp : ti.hashPrefix with
    | none =>
      refine ⟨st'.out, ?_, ?_⟩
      · rw [unmarshal_of_parse ti s _ hparse]
        exact unmarshalTree_of_closed ti s.length _ [] st' (by simp [prefixPart, hhp]; rfl) hl' hcl
      · rw [hout, List.nil_append]
        have := finalVals_filter ti (fieldVal vals) (emitted vals) hnd
          (by intro f hf h; rw [hhp] at hf; exact hzero f (by simpa using hf) h)
        simp only [hhp, Option.toList_none, List.nil_append] at this
        simpa [canonVals, hhp] using this
    | some hp =>
      have hpf : L1.prefixField hp = true := by simpa [hhp] using hpfx
      have hvp : valOk hp (fieldVal vals hp) = true := by
        have h1 := htf hp (by simp [hhp])
        have hpd : hp.ptrDepth = 0 := by
          simp only [L1.prefixField, Bool.and_eq_true, beq_iff_eq] at hpf
          exact hpf.1.1.1.1.2
        simpa [typedField, hpd] using h1
      obtain ⟨hstr, hptr, hkind, -, -⟩ := L1.prefix_text vals hp hpf hvp (hmp hp hhp)
      have hp0' : textOf vals hp = [] := by simpa [L1.prefixTextOf, hhp] using hp0
      have homit : hp.opts.omitEmpty = true := by
        have := R.pfx hp hhp
        simpa [L1.prefixTextOk, hp0'] using this
      refine ⟨st'.out, ?_, ?_⟩
      · rw [unmarshal_of_parse ti s _ hparse]
        exact unmarshalTree_of_closed ti s.length _ [] st' (by simp [prefixPart, hhp, homit]; rfl) hl' hcl
      · rw [hout, List.nil_append]
        rw [hhp] at hnd
        simp only [Option.toList_some, List.singleton_append, List.map_cons, List.nodup_cons, List.mem_map,
          not_exists, not_and] at hnd
        let pres : FieldInfo → Bool := fun f => decide (f.index ≠ hp.index) && emitted vals f
        have hfil : (ti.hashPrefix.toList ++ ti.fields).filter pres = ti.fields.filter (emitted vals) := by
          rw [hhp]
          simp only [Option.toList_some, List.singleton_append]
          rw [List.filter_cons_of_neg (by simp [pres])]
          apply List.filter_congr
          intro f hf
          have : f.index ≠ hp.index := hnd.1 f hf
          simp [pres, this]
        have := finalVals_filter ti (fieldVal vals) pres
          (by rw [hhp]; simpa using hnd)
          (by
            intro f hf h
            rw [hhp] at hf
            simp only [Option.toList_some, List.singleton_append, List.mem_cons] at hf
            rcases hf with rfl | hf
            · rw [hstr, hp0', hkind, hptr]; rfl
            · have hne : f.index ≠ hp.index := hnd.1 f hf
              have : emitted vals f = false := by simpa [pres, hne] using h
              exact hzero f hf this)
        rw [hfil] at this
        exact this
  · -- a prefix text: well-formed, it comes back as the tree's prefix
    cases hhp : ti.hashPrefix with
    | none => exact absurd (by simp [L1.prefixTextOf, hhp]) hp0
    | some hp =>
      have hpf : L1.prefixField hp = true := by simpa [hhp] using hpfx
      have hvp : valOk hp (fieldVal vals hp) = true := by
        have h1 := htf hp (by simp [hhp])
        have hpd : hp.ptrDepth = 0 := by
          simp only [L1.prefixField, Bool.and_eq_true, beq_iff_eq] at hpf
          exact hpf.1.1.1.1.2
        simpa [typedField, hpd] using h1
      obtain ⟨hstr, hptr, hkind, hftx, hstore⟩ := L1.prefix_text vals hp hpf hvp (hmp hp hhp)
      have hpe : L1.prefixTextOf ti vals = textOf vals hp := by simp [L1.prefixTextOf, hhp]
      rw [hpe] at hp0 hsr'
      have hok := R.pfx hp hhp
      have hem : (textOf vals hp).isEmpty = false := by simpa using hp0
      simp only [L1.prefixTextOk, hem, Bool.false_eq_true, if_false, Bool.and_eq_true] at hok
      have hparse := parse_render_pieces (some (textOf vals hp)) _ (wfPrefix_of_wellFormed _ _ hok.1) hpp hpl
      simp only [Option.getD_some] at hparse
      rw [← hsr'] at hparse
      obtain ⟨st', hl', hcl, hout⟩ := hloop [(hp.index, .str (textOf vals hp))] (textOf vals hp).length
      have hwl : ∀ l, hp.unmarshalText = .whitelist l → l.contains (textOf vals hp) = true := by
        intro l hu
        simpa [hu] using hok.2
      refine ⟨st'.out, ?_, ?_⟩
      · rw [unmarshal_of_parse ti s _ hparse]
        refine unmarshalTree_of_closed ti s.length _ [(hp.index, .str (textOf vals hp))] st' ?_ hl' hcl
        simp only [prefixPart, hhp, hftx, hstore _ hwl, bind, Except.bind, pure, Except.pure]
      · rw [hout]
        have hnd' := hnd
        rw [hhp] at hnd'
        simp only [Option.toList_some, List.singleton_append, List.map_cons, List.nodup_cons, List.mem_map,
          not_exists, not_and] at hnd'
        let pres : FieldInfo → Bool := fun f => decide (f.index = hp.index) || emitted vals f
        have hfil : (ti.hashPrefix.toList ++ ti.fields).filter pres = hp :: ti.fields.filter (emitted vals) := by
          rw [hhp]
          simp only [Option.toList_some, List.singleton_append]
          rw [List.filter_cons_of_pos (by simp [pres])]
          congr 1
          apply List.filter_congr
          intro f hf
          have : f.index ≠ hp.index := hnd'.1 f hf
          simp [pres, this]
        have := finalVals_filter ti (fieldVal vals) pres hnd
          (by
            intro f hf h
            rw [hhp] at hf
            simp only [Option.toList_some, List.singleton_append, List.mem_cons] at hf
            rcases hf with rfl | hf
            · simp [pres] at h
            · have hne : f.index ≠ hp.index := hnd'.1 f hf
              have : emitted vals f = false := by simpa [pres, hne] using h
              exact hzero f hf this)
        rw [hfil] at this
        simp only [List.map_cons, hstr] at this
        simpa [canonVals, hhp, hstr] using this

end L6

/-! ## The lower rungs: per-field restrictions of the tag options -/

/-- Without optional fields, groups cannot merge and no parameter can be stolen. -/
theorem groupsSeparated_of_required : ∀ (fs : List FieldInfo), (∀ f ∈ fs, f.opts.omitEmpty = false) →
    groupsSeparated fs = true
  | [], _ => rfl
  | [f], _ => by simp [groupsSeparated]
  | f :: h :: t, hr => by
    have ih := groupsSeparated_of_required (h :: t) (fun x hx => hr x (by simp [hx]))
    have hh := hr h (by simp)
    simp only [groupsSeparated, Bool.and_eq_true, Bool.or_eq_true, Bool.not_eq_eq_eq_not, Bool.not_true]
    refine ⟨?_, by simpa [groupsSeparated] using ih⟩
    cases hhg : h.opts.group with
    | true => exact Or.inr (Or.inl rfl)
    | false => exact Or.inr (Or.inr (by simp [optRunThenGroup, hhg, hh]))

theorem noSteal_of_required (vals : Vals) : ∀ (fs : List FieldInfo), (∀ f ∈ fs, f.opts.omitEmpty = false) →
    noSteal vals fs = true
  | [], _ => rfl
  | f :: rest, hr => by
    simp only [noSteal, hr f (by simp), Bool.and_false, Bool.false_and, Bool.false_eq_true, if_false,
      Bool.true_and]
    exact noSteal_of_required vals rest (fun x hx => hr x (by simp [hx]))

namespace L5

/-- L4 + parameter groups: any field that is not optional. -/
def fieldOk (f : FieldInfo) : Bool := !f.opts.omitEmpty

def shapeOk (ti : TypeInfo) : Bool := tiWf ti && unambiguous ti && ti.fields.all fieldOk

def valuesOk (ti : TypeInfo) (vals : Vals) : Bool :=
  Layers.typed ti vals && representable ti vals && lastTextOk vals ti.fields

theorem required (ti : TypeInfo) (h : ti.fields.all fieldOk = true) :
    ∀ f ∈ ti.fields, f.opts.omitEmpty = false := by
  intro f hf
  simpa [fieldOk] using (List.all_eq_true.1 h) f hf

theorem to_L6 (ti : TypeInfo) (vals : Vals) (hs : shapeOk ti = true) (hv : valuesOk ti vals = true) :
    L6.shapeOk ti = true ∧ L6.valuesOk ti vals = true := by
  simp only [shapeOk, Bool.and_eq_true] at hs
  simp only [valuesOk, Bool.and_eq_true] at hv
  have hr := required ti hs.2
  simp only [L6.shapeOk, L6.valuesOk, Bool.and_eq_true]
  exact ⟨⟨hs.1, groupsSeparated_of_required _ hr⟩, hv, noSteal_of_required vals _ hr⟩

theorem roundtrip (ti : TypeInfo) (vals : Vals) (s : Bytes)
    (hs : shapeOk ti = true) (hv : valuesOk ti vals = true) (hm : marshal ti vals = .ok s) :
    ∃ out, unmarshal ti s = .ok out ∧ finalVals ti out = canonVals ti vals :=
  L6.roundtrip ti vals s (to_L6 ti vals hs hv).1 (to_L6 ti vals hs hv).2 hm

end L5

namespace L4

/-- L3 + text codecs, `enc:none`: any required stand-alone field (named or not, inline or not). -/
def fieldOk (f : FieldInfo) : Bool := !f.opts.omitEmpty && !f.opts.group

def shapeOk (ti : TypeInfo) : Bool := tiWf ti && unambiguous ti && ti.fields.all fieldOk

def valuesOk (ti : TypeInfo) (vals : Vals) : Bool := L5.valuesOk ti vals

theorem to_L5 (ti : TypeInfo) (hs : shapeOk ti = true) : L5.shapeOk ti = true := by
  simp only [shapeOk, Bool.and_eq_true, List.all_eq_true] at hs
  simp only [L5.shapeOk, Bool.and_eq_true, List.all_eq_true]
  refine ⟨hs.1, fun f hf => ?_⟩
  have := hs.2 f hf
  simp only [fieldOk, Bool.and_eq_true] at this
  exact this.1

theorem roundtrip (ti : TypeInfo) (vals : Vals) (s : Bytes)
    (hs : shapeOk ti = true) (hv : valuesOk ti vals = true) (hm : marshal ti vals = .ok s) :
    ∃ out, unmarshal ti s = .ok out ∧ finalVals ti out = canonVals ti vals :=
  L5.roundtrip ti vals s (to_L5 ti hs) hv hm

end L4

namespace L3

/-- L2 + inline fields: a required stand-alone field without text codec over a text alphabet. -/
def fieldOk (f : FieldInfo) : Bool :=
  !f.opts.omitEmpty && !f.opts.group && f.marshalText == .none && f.unmarshalText == .none &&
  f.opts.enc != .none

def shapeOk (ti : TypeInfo) : Bool := tiWf ti && unambiguous ti && ti.fields.all fieldOk

def valuesOk (ti : TypeInfo) (vals : Vals) : Bool := L5.valuesOk ti vals

theorem to_L4 (ti : TypeInfo) (hs : shapeOk ti = true) : L4.shapeOk ti = true := by
  simp only [shapeOk, Bool.and_eq_true, List.all_eq_true] at hs
  simp only [L4.shapeOk, Bool.and_eq_true, List.all_eq_true]
  refine ⟨hs.1, fun f hf => ?_⟩
  have := hs.2 f hf
  simp only [fieldOk, Bool.and_eq_true] at this
  simp only [L4.fieldOk, Bool.and_eq_true]
  exact this.1.1.1

theorem roundtrip (ti : TypeInfo) (vals : Vals) (s : Bytes)
    (hs : shapeOk ti = true) (hv : valuesOk ti vals = true) (hm : marshal ti vals = .ok s) :
    ∃ out, unmarshal ti s = .ok out ∧ finalVals ti out = canonVals ti vals :=
  L4.roundtrip ti vals s (to_L4 ti hs) hv hm

end L3

namespace L2

/-- L1 + required `param:name` fields: a required stand-alone field, not inline, without text codec,
over a text alphabet. -/
def fieldOk (f : FieldInfo) : Bool := L3.fieldOk f && !f.opts.inline

def shapeOk (ti : TypeInfo) : Bool := tiWf ti && unambiguous ti && ti.fields.all fieldOk

def valuesOk (ti : TypeInfo) (vals : Vals) : Bool := L5.valuesOk ti vals

theorem to_L3 (ti : TypeInfo) (hs : shapeOk ti = true) : L3.shapeOk ti = true := by
  simp only [shapeOk, Bool.and_eq_true, List.all_eq_true] at hs
  simp only [L3.shapeOk, Bool.and_eq_true, List.all_eq_true]
  refine ⟨hs.1, fun f hf => ?_⟩
  have := hs.2 f hf
  simp only [fieldOk, Bool.and_eq_true] at this
  exact this.1

theorem roundtrip (ti : TypeInfo) (vals : Vals) (s : Bytes)
    (hs : shapeOk ti = true) (hv : valuesOk ti vals = true) (hm : marshal ti vals = .ok s) :
    ∃ out, unmarshal ti s = .ok out ∧ finalVals ti out = canonVals ti vals :=
  L3.roundtrip ti vals s (to_L3 ti hs) hv hm

end L2

end GoCrypt.Codec
