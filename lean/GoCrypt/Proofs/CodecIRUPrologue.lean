import GoCrypt.Proofs.CodecIRUGroupDefs

/-!
# Codec IR: the prologue of `Unmarshal` (statements 0–14 of function 5)

* `unmarshalIndirect_root`: function 8 on the destination value (`Val.root`): follows the non-nil pointers down to the struct.
* `uA_spec` (statements 0–3): `reflect.ValueOf(v)`, the pointer check, `unmarshalIndirect`, the struct check.
* `uB_ok` / `uB_parseErr` (statements 4–7): `parse.Parse` and `getTypeInfo`, under `ParseOkAt` / `GetTypeInfoOk`.
* `uC_spec` (statements 8–12): the five initialisations.
* `uD_*` (statement 13): the `HashPrefix` `if`, four cases.
* `uE14_spec` (statement 14): the range variables.
Helper lemmas only.
-/

namespace GoCrypt.CIR
open GoCrypt.Codec GoCrypt.Gen.codecIR GoCrypt.Parse
open GoCrypt.TIIR (RType Res kindNum fiType fiObj tiObj encVal optsVals Reps RepOpt kindNum_ptr)

/-! ## `unmarshalIndirect` on the destination value -/

theorem uindR_body_ptr (c : Ctx) (t : RType) (d : Nat) (m : Mem) (x2 x3 : Val) (hd : t.depth = d + 1) :
    exec c uindLoop.forBody m [.root t, .bool false, x2, x3] = .norm m [.root { t with depth := d }, .bool false, x2, .int 22] := by
  have hk : kindNum t = 22 := by rw [kindNum_ptr]; omega
  have hnil : ext1 .valIsNil (.root t) = .ok (.bool false) := by simp [ext1, hd]
  have hel : ext1 .valElem (.root t) = .ok (.root { t with depth := d }) := by simp [ext1, hd]
  have hkind : ext1 .valKind (.root t) = .ok (.int 22) := by simp [ext1, hk]
  simp only [uindLoop, unmarshalIndirectIR, Stmt.drop, Stmt.head, Stmt.forBody]
  ci_simp [hkind, hnil, hel]

theorem uindR_body_base (c : Ctx) (t : RType) (m : Mem) (x2 x3 : Val) (hd : t.depth = 0) :
    exec c uindLoop.forBody m [.root t, .bool false, x2, x3] = .norm m [.root t, .bool true, x2, .int (kindNum t)] := by
  have h20 : ¬ kindNum t = 20 := kindNum_ne_20 t
  have h22 : ¬ kindNum t = 22 := by rw [kindNum_ptr]; omega
  have hkind : ext1 .valKind (.root t) = .ok (.int (kindNum t)) := by simp [ext1]
  simp only [uindLoop, unmarshalIndirectIR, Stmt.drop, Stmt.head, Stmt.forBody]
  ci_simp [hkind, h20, h22]

theorem uindR_loop (c : Ctx) : ∀ (d fuel : Nat) (t : RType) (m : Mem) (x2 x3 : Val), t.depth = d → d < fuel →
    ∃ y2 y3, loop (fun m env => eval c m env uindLoop.forCond >>= asBool) (exec c uindLoop.forBody) (exec c uindLoop.forPost)
        fuel m [.root t, .bool false, x2, x3] = .norm m [.root { t with depth := 0 }, .bool true, y2, y3] := by
  intro d
  induction d with
  | zero =>
    intro fuel t m x2 x3 hd hf
    obtain ⟨f, rfl⟩ : ∃ f, fuel = f + 1 := ⟨fuel - 1, by omega⟩
    have ht0 : ({ t with depth := 0 } : RType) = t := by cases t; simp_all
    refine ⟨x2, .int (kindNum t), ?_⟩
    rw [loop_step _ _ _ _ _ _ (uind_cond c m _ x2 x3 false), uindR_body_base c t m x2 x3 hd]
    simp only [afterBody_norm, uind_post, afterPost_norm]
    rw [loop_false _ _ _ _ _ _ (uind_cond c m _ x2 _ true), ht0]
  | succ d ih =>
    intro fuel t m x2 x3 hd hf
    obtain ⟨f, rfl⟩ : ∃ f, fuel = f + 1 := ⟨fuel - 1, by omega⟩
    obtain ⟨y2, y3, hloop⟩ := ih f { t with depth := d } m x2 (.int 22) rfl (by omega)
    refine ⟨y2, y3, ?_⟩
    rw [loop_step _ _ _ _ _ _ (uind_cond c m _ x2 x3 false), uindR_body_ptr c t d m x2 x3 hd]
    simp only [afterBody_norm, uind_post, afterPost_norm]
    exact hloop

/-- **`unmarshalIndirect` on the destination value**: every pointer in front of the struct is non-nil, so the value at the end of the
chain is returned and nothing is stored. -/
theorem unmarshalIndirect_root (c : Ctx) (m : Mem) (t : RType) (hf : t.depth < c.fuel) :
    execProc c unmarshalIndirectIR m [.root t] = .ok (m, [.root { t with depth := 0 }]) := by
  rw [execProc_eq _ _ _ _ (by rfl)]
  show procResult (exec c unmarshalIndirectIR.body m [.root t, .undef, .undef, .undef]) = _
  obtain ⟨y2, y3, hloop⟩ := uindR_loop c t.depth c.fuel t m .undef .undef rfl hf
  have hsplit : exec c unmarshalIndirectIR.body m [.root t, .undef, .undef, .undef] =
      (exec c (unmarshalIndirectIR.body.take 1) m [.root t, .undef, .undef, .undef]).andThen fun m env =>
        (loop (fun m env => eval c m env uindLoop.forCond >>= asBool) (exec c uindLoop.forBody) (exec c uindLoop.forPost) c.fuel m env).andThen
          (exec c (unmarshalIndirectIR.body.drop 2)) := by
    rw [exec_take_drop c m _ 1 unmarshalIndirectIR.body]; rfl
  rw [hsplit]
  have h1 : exec c (unmarshalIndirectIR.body.take 1) m [.root t, .undef, .undef, .undef] =
      .norm m [.root t, .bool false, .undef, .undef] := by
    simp only [unmarshalIndirectIR, Stmt.take]; ci_simp
  rw [h1, andThen_norm, hloop, andThen_norm]
  simp only [unmarshalIndirectIR, Stmt.drop]
  ci_simp

/-! ## The straight-line part -/

def uA : Stmt := unmarshalTopIR.body.take 4
def uB : Stmt := (unmarshalTopIR.body.drop 4).take 4
def uC : Stmt := (unmarshalTopIR.body.drop 8).take 5
def uD : Stmt := (unmarshalTopIR.body.drop 13).take 1
def uE14 : Stmt := (unmarshalTopIR.body.drop 14).take 1

theorem uTop_split (c : Ctx) (m : Mem) (env : Env) :
    exec c unmarshalTopIR.body m env =
      (exec c uA m env).andThen fun m env => (exec c uB m env).andThen fun m env => (exec c uC m env).andThen fun m env =>
        (exec c uD m env).andThen fun m env => (exec c uE14 m env).andThen (exec c uLT) := by
  rw [exec_take_drop c m env 4 unmarshalTopIR.body]
  congr 1; funext m env
  rw [exec_take_drop c m env 4 (unmarshalTopIR.body.drop 4)]
  congr 1; funext m env
  show exec c (unmarshalTopIR.body.drop 8) m env = _
  rw [exec_take_drop c m env 5 (unmarshalTopIR.body.drop 8)]
  congr 1; funext m env
  show exec c (unmarshalTopIR.body.drop 13) m env = _
  rw [exec_take_drop c m env 1 (unmarshalTopIR.body.drop 13)]
  congr 1; funext m env
  show exec c (unmarshalTopIR.body.drop 14) m env = _
  rw [exec_take_drop c m env 1 (unmarshalTopIR.body.drop 14)]
  rfl

/-- The environment of `Unmarshal` before the loop: slots 0–11 and 20 named, the others not yet assigned. -/
def pEnv (hash : Bytes) (t : RType) (v2 v3 v4 v5 v6 v7 v8 v9 v10 v11 v20 : Val) : Env :=
  [.str hash, .dptr t, v2, v3, v4, v5, v6, v7, v8, v9, v10, v11, .undef, .undef, .undef, .undef, .undef, .undef, .undef, .undef,
   v20, .undef, .undef, .undef, .undef, .undef, .undef, .undef, .undef, .undef, .undef, .undef, .undef, .undef, .undef, .undef, .undef,
   .undef, .undef, .undef, .undef]

/-- What the theorems assume about the external `parse.Parse(hash)` for THIS `hash` (the per-hash form of `ParseOk`, with the bounds the
grouped-param clause needs as well): heap and destination untouched; on success a `*Tree` whose prefix node and fragment nodes — freshly
allocated, so the value nodes are pairwise distinct — represent the model's `Parse.parse hash`, every text at most `F` long and every group
at most `F` members; a syntax error is returned as the `*parse.SyntaxError` the model describes. -/
def ParseOkAt (ext : String → Mem → List Val → Res (Mem × List Val)) (F : Nat) (m : Mem) (hash : Bytes) : Prop :=
  match Parse.parse hash with
  | .ok tree => ∃ (nodes' : List PNode) (pv : Val) (lay : List FA),
      ext "parse.Parse" m [.str hash] = .ok ({ m with nodes := nodes' }, [.recd "Tree" [pv, .nodes (lay.map FA.addr)], .nil]) ∧
      (match tree.pfx with
       | some p => ∃ pa, pv = .node pa ∧ nodes'[pa]? = some (.pfx p) ∧ p.length ≤ F
       | none => pv = .nil) ∧
      All2 (RepFA { m with nodes := nodes' }) lay tree.frags ∧ (lay.flatMap FA.vaddrs).Nodup ∧
      (∀ v, Frag.value v ∈ tree.frags → v.val.length ≤ F) ∧ ShortG F tree.frags ∧ GroupsLe F tree.frags
  | .err o e => ext "parse.Parse" m [.str hash] = .ok (m, [.nil, .parseErr o e])
  | .nilInGroup => ext "parse.Parse" m [.str hash] = .ok (m, [.nil, .parseErr 0 99])

section phases
variable (c c' : Ctx) (hash : Bytes) (t : RType)

/-- Statements 0–3: `val := reflect.ValueOf(v)`; `v` is a non-nil pointer; `val = unmarshalIndirect(val)`; it is a struct. -/
theorem uA_spec (hc8 : ∀ mm args, c.call 8 mm args = execProc c' unmarshalIndirectIR mm args) (hf : t.depth < c'.fuel)
    (hd : 0 < t.depth) (sn : String) (hk : t.kind = .structRef sn) (m : Mem) :
    exec c uA m (pEnv hash t .undef .undef .undef .undef .undef .undef .undef .undef .undef .undef .undef) =
      .norm m (pEnv hash t (.root { t with depth := 0 }) .undef .undef .undef .undef .undef .undef .undef .undef .undef .undef) := by
  have hk22 : kindNum t = 22 := by rw [kindNum_ptr]; exact hd
  have hk25 : kindNum { t with depth := 0 } = 25 := by simp [kindNum, hk]
  have hvo : ext1 .valueOf (.dptr t) = .ok (.root t) := rfl
  have hkind : ext1 .valKind (.root t) = .ok (.int 22) := by simp [ext1, hk22]
  have hkind0 : ext1 .valKind (.root { t with depth := 0 }) = .ok (.int 25) := by simp only [ext1, hk25]
  have hnil : ext1 .valIsNil (.root t) = .ok (.bool false) := by simp [ext1, hd]
  have h8 : c.call 8 m [.root t] = .ok (m, [.root { t with depth := 0 }]) := by rw [hc8]; exact unmarshalIndirect_root c' m t hf
  simp only [uA, unmarshalTopIR, Stmt.take, pEnv]
  ci_simp [hvo, hkind, hnil, h8, hkind0]

/-- Statements 4–7 when `parse.Parse` fails: its error is returned. -/
theorem uB_parseErr (m : Mem) (o e : Nat) (hp : c.ext "parse.Parse" m [.str hash] = .ok (m, [.nil, .parseErr o e])) (v2 : Val) :
    exec c uB m (pEnv hash t v2 .undef .undef .undef .undef .undef .undef .undef .undef .undef .undef) = .ret m [.parseErr o e] := by
  simp only [uB, unmarshalTopIR, Stmt.take, Stmt.drop, pEnv]
  ci_simp [hp, isNilVal_parseErr]

/-- Statements 4–7 when both external calls succeed. -/
theorem uB_ok (m : Mem) (nodes' : List PNode) (tree : Val) (heap' : TIIR.Heap) (tia : Nat)
    (hp : c.ext "parse.Parse" m [.str hash] = .ok ({ m with nodes := nodes' }, [tree, .nil]))
    (hg : c.ext "getTypeInfo" { m with nodes := nodes' } [.rtype t] = .ok ({ m with nodes := nodes', heap := heap' }, [.ptr tia, .nil]))
    (v2 : Val) :
    exec c uB m (pEnv hash t v2 .undef .undef .undef .undef .undef .undef .undef .undef .undef .undef) =
      .norm { m with nodes := nodes', heap := heap' } (pEnv hash t v2 tree .nil (.ptr tia) .undef .undef .undef .undef .undef .undef .undef) := by
  have hto : ext1 .typeOf (.dptr t) = .ok (.rtype t) := rfl
  simp only [uB, unmarshalTopIR, Stmt.take, Stmt.drop, pEnv]
  ci_simp [hp, hto, hg]

/-- Statements 8–12: the five initialisations. -/
theorem uC_spec (m : Mem) (pv : Val) (as : List Nat) (tia : Nat) (st : TIIR.Val) (tt : RType) (hpv : TIIR.Val) (addrs : List Nat) (nreq : Int)
    (hti : m.heap[tia]? = some (tiObj st tt hpv addrs nreq)) (v2 : Val) :
    exec c uC m (pEnv hash t v2 (.recd "Tree" [pv, .nodes as]) .nil (.ptr tia) .undef .undef .undef .undef .undef .undef .undef) =
      .norm m (pEnv hash t v2 (.recd "Tree" [pv, .nodes as]) .nil (.ptr tia) (.int 0) (.int 0) .nil (.int (as.length : Nat)) (.int nreq)
        .undef .undef) := by
  simp only [uC, unmarshalTopIR, Stmt.take, Stmt.drop, pEnv]
  ci_simp [tree_frags, ti_numReq m tia st tt hpv addrs nreq hti]

/-- Statement 14: the range variables of the loop over `ti.Fields`. -/
theorem uE14_spec (m : Mem) (pv : Val) (as : List Nat) (tia : Nat) (st : TIIR.Val) (tt : RType) (hpv : TIIR.Val) (addrs : List Nat) (nreq : Int)
    (hti : m.heap[tia]? = some (tiObj st tt hpv addrs nreq)) (t0 : RType) (nv nr : Int) (v11 v20 : Val) :
    ∃ env', exec c uE14 m (pEnv hash t (.root t0) (.recd "Tree" [pv, .nodes as]) .nil (.ptr tia) (.int 0) (.int 0) .nil (.int nv) (.int nr)
        v11 v20) = .norm m env' ∧
      IsT env' hash t t0 pv as tia addrs 0 0 .nil nv nr 0 .undef .undef := by
  refine ⟨?_, ?_, ?_⟩
  rotate_left
  · simp only [uE14, unmarshalTopIR, Stmt.take, Stmt.drop, pEnv]
    ci_simp [ti_fields m tia st tt hpv addrs nreq hti]
    rfl
  · is_t

/-! ### Statement 13: the `HashPrefix` `if` -/

def prefixLit : Bytes := [112, 114, 101, 102, 105, 120]

variable (m : Mem) (as : List Nat) (tia : Nat) (st : RType) (tt : RType) (addrs : List Nat) (nreq : Int) (t0 : RType) (nv nr : Int)

/-- No `HashPrefix` field, no prefix in the hash. -/
theorem uD_none_none (hti : m.heap[tia]? = some (tiObj (.rtype st) tt .nil addrs nreq)) :
    exec c uD m (pEnv hash t (.root t0) (.recd "Tree" [.nil, .nodes as]) .nil (.ptr tia) (.int 0) (.int 0) .nil (.int nv) (.int nr) .undef .undef) =
      .norm m (pEnv hash t (.root t0) (.recd "Tree" [.nil, .nodes as]) .nil (.ptr tia) (.int 0) (.int 0) .nil (.int nv) (.int nr) .undef .undef) := by
  simp only [uD, unmarshalTopIR, Stmt.take, Stmt.drop, pEnv]
  ci_simp [ti_hp m tia _ _ _ _ _ hti, tree_pfx]

/-- No `HashPrefix` field but a prefix in the hash: struct-level `excessive prefix`. -/
theorem uD_none_some (hti : m.heap[tia]? = some (tiObj (.rtype st) tt .nil addrs nreq)) (pa : Nat) (p : Bytes)
    (hn : m.nodes[pa]? = some (.pfx p)) :
    exec c uD m (pEnv hash t (.root t0) (.recd "Tree" [.node pa, .nodes as]) .nil (.ptr tia) (.int 0) (.int 0) .nil (.int nv) (.int nr) .undef .undef) =
      .ret m [topRec prefixLit p.length t excessivePrefixLit] := by
  have hto : ext1 .typeOf (.dptr t) = .ok (.rtype t) := rfl
  simp only [uD, unmarshalTopIR, Stmt.take, Stmt.drop, pEnv]
  ci_simp [ti_hp m tia _ _ _ _ _ hti, tree_pfx, ext1M_nodeType_pfx m pa p hn, ext1M_nodeEnd_pfx m pa p hn, ntypeString_0, hto, topRec,
    prefixLit, excessivePrefixLit]

/-- A `HashPrefix` field but no prefix in the hash: skipped when optional, else `prefix not found`. -/
theorem uD_some_none (a : Nat) (hp : FieldInfo) (hti : m.heap[tia]? = some (tiObj (.rtype st) tt (.ptr a) addrs nreq))
    (ha : m.heap[a]? = some (fiObj hp)) :
    exec c uD m (pEnv hash t (.root t0) (.recd "Tree" [.nil, .nodes as]) .nil (.ptr tia) (.int 0) (.int 0) .nil (.int nv) (.int nr) .undef .undef) =
      (if hp.opts.omitEmpty then
        .norm m (pEnv hash t (.root t0) (.recd "Tree" [.nil, .nodes as]) .nil (.ptr tia) (.int 0) (.int 0) .nil (.int nv) (.int nr) .undef .undef)
       else .ret m [eofRec hash.length hp st prefixNotFoundLit]) := by
  simp only [uD, unmarshalTopIR, Stmt.take, Stmt.drop, pEnv]
  cases hom : hp.opts.omitEmpty
  · ci_simp [ti_hp m tia _ _ _ _ _ hti, tree_pfx, fi_omitEmpty m a hp ha, hom, fi_type m a hp ha, fi_name m a hp ha,
      ti_struct m tia _ _ _ _ _ hti, eofRec, prefixNotFoundLit]
  · ci_simp [ti_hp m tia _ _ _ _ _ hti, tree_pfx, fi_omitEmpty m a hp ha, hom]

/-- A `HashPrefix` field and a prefix: `unmarshal(tree.Prefix, ti, ti.HashPrefix, unmarshalIndirect(val.FieldByIndex(…)))`. -/
theorem uD_some_some (a : Nat) (hp : FieldInfo) (hti : m.heap[tia]? = some (tiObj (.rtype st) tt (.ptr a) addrs nreq))
    (ha : m.heap[a]? = some (fiObj hp)) (pa : Nat)
    (hfb : rootFieldByIndex c.structs m t0 (hp.index.map Int.ofNat) = .ok (.cell (fiType hp) hp.index 0 false))
    (mm1 mm2 : Mem) (cv rv : Val) (h8 : c.call 8 m [.cell (fiType hp) hp.index 0 false] = .ok (mm1, [cv]))
    (hcv : ∃ tc ic kc, cv = .cell tc ic kc false) (hheap1 : mm1.heap = m.heap)
    (h6 : c.call 6 mm1 [.node pa, .ptr tia, .ptr a, cv] = .ok (mm2, [rv]))
    (hrv : rv = .nil ∨ (absErrU m.heap rv).isSome) :
    (rv ≠ .nil ∧
      exec c uD m (pEnv hash t (.root t0) (.recd "Tree" [.node pa, .nodes as]) .nil (.ptr tia) (.int 0) (.int 0) .nil (.int nv) (.int nr) .undef .undef) =
        .ret mm2 [rv]) ∨
    (rv = .nil ∧
      exec c uD m (pEnv hash t (.root t0) (.recd "Tree" [.node pa, .nodes as]) .nil (.ptr tia) (.int 0) (.int 0) .nil (.int nv) (.int nr) .undef .undef) =
        .norm mm2 (pEnv hash t (.root t0) (.recd "Tree" [.node pa, .nodes as]) .nil (.ptr tia) (.int 0) (.int 0) .nil (.int nv) (.int nr) .nil cv)) := by
  obtain ⟨tc, ic, kc, rfl⟩ := hcv
  have hfb' : ext2M c m .valFieldByIndex (.root t0) (.ints (hp.index.map Int.ofNat)) = .ok (.cell (fiType hp) hp.index 0 false) := hfb
  have hti1 : mm1.heap[tia]? = some (tiObj (.rtype st) tt (.ptr a) addrs nreq) := by rw [hheap1]; exact hti
  simp only [uD, unmarshalTopIR, Stmt.take, Stmt.drop, pEnv]
  rcases hrv with rfl | hrv
  · refine Or.inr ⟨rfl, ?_⟩
    ci_simp [ti_hp m tia _ _ _ _ _ hti, ti_hp mm1 tia _ _ _ _ _ hti1, tree_pfx, fi_index m a hp ha, hfb', h8, h6]
  · refine Or.inl ⟨by rintro rfl; simp [absErrU] at hrv, ?_⟩
    cases rv <;> simp only [absErrU, Option.isSome_none, Bool.false_eq_true] at hrv <;>
      ci_simp [ti_hp m tia _ _ _ _ _ hti, ti_hp mm1 tia _ _ _ _ _ hti1, tree_pfx, fi_index m a hp ha, hfb', h8, h6, isNilVal_parseErr]
end phases

end GoCrypt.CIR
