import GoCrypt.Proofs.CodecL6Respell

/-!
# C20, general form: parameter groups

`Accepts7.accepted_respell`: the converse of the round trip for struct types WITH runs of grouped
parameters (`param:x,group`), required or optional, next to the stand-alone fields of `Accepts6`.
Restriction of this file: the struct ends with a required stand-alone field (as every shipped layout with
a group does), so that a group fragment is never the last fragment of the input (a trailing `,` after the
last member of a last group is not covered here).

Part 1 (this section): one iteration of the field loop for a grouped parameter, inverted, in the three
situations of the loop state (no group open / a group fragment open / a lone value taken as a group).
-/

namespace GoCrypt.Codec
open Bytes GoCrypt.Parse Layers GoCrypt.Respell GoCrypt.CodecDomain GoCrypt.RefParse GoCrypt.Accept

namespace Accepts7

/-! ## One grouped parameter, inverted -/

/-- A group fragment is open (real group `g`): the member is found and read, or absent and optional. -/
theorem loop_gmem_real (n : Nat) (f : FieldInfo) (fs : List FieldInfo) (g vs : List VNode) (rest : List Frag)
    (ngv : Nat) (nv nr : Int) (out : Vals) (st' : LoopSt)
    (hg : f.opts.group = true) (hinl : f.opts.inline = false)
    (h : loopFields n (f :: fs) (mkStG (.group vs :: rest) g ngv nv nr out) = .ok st') :
    (∃ v fv rem, g.find? (keyP f) = some v ∧ readField f v.fin v.val = .ok (fv, rem) ∧
      loopFields n fs (mkStG (.group g :: rest) g (ngv - 1) nv nr (out ++ [(f.index, fv)])) = .ok st') ∨
    (g.find? (keyP f) = none ∧ f.opts.omitEmpty = true ∧
      loopFields n fs (mkStG (.group vs :: rest) g ngv nv nr out) = .ok st') := by
  rw [loop_cons_iff] at h
  obtain ⟨st1, h1, h2⟩ := h
  cases hfind : g.find? (keyP f) with
  | some v =>
    left
    have hfind' : g.find? (fun v => (f.opts.param ++ [equals]).isPrefixOf v.val) = some v := hfind
    unfold stepField at h1
    simp only [mkStG, hg, Bool.not_true, Bool.false_and, Bool.false_eq_true, if_false, pure_bind,
      Option.isNone_some, Bool.and_false, Bool.true_or, Bool.and_self, if_true, hfind'] at h1
    cases hft : fieldText f "value" v.fin v.val with
    | error err => simp [hft, bind, Except.bind] at h1
    | ok x =>
      obtain ⟨s, rem⟩ := x
      cases hsv : storeValue f "value" v.fin s with
      | error err => simp [hft, hsv, bind, Except.bind] at h1
      | ok fv =>
        simp only [hft, hsv, bind, Except.bind, pure, Except.pure, hinl, Bool.false_eq_true, if_false,
          replaceFirst_self, Except.ok.injEq] at h1
        subst h1
        exact ⟨v, fv, rem, rfl, readField_of f _ _ s rem fv hft hsv, h2⟩
  | none =>
    right
    have hfind' : g.find? (fun v => (f.opts.param ++ [equals]).isPrefixOf v.val) = none := hfind
    unfold stepField at h1
    simp only [mkStG, hg, Bool.not_true, Bool.false_and, Bool.false_eq_true, if_false, pure_bind,
      Option.isNone_some, Bool.and_false, Bool.true_or, Bool.and_self, if_true, hfind'] at h1
    cases ho : f.opts.omitEmpty with
    | false => simp [ho, throw, throwThe, MonadExceptOf.throw] at h1
    | true =>
      simp only [ho, if_true, pure, Except.pure, Except.ok.injEq] at h1
      subst h1
      exact ⟨rfl, rfl, h2⟩

/-- A lone value was taken as a one-member group `[v]`: a further member that does not carry its name in
`v` must be optional, and nothing happens. -/
theorem loop_gmem_syn (n : Nat) (f : FieldInfo) (fs : List FieldInfo) (v : VNode) (rest : List Frag)
    (nv nr : Int) (out : Vals) (st' : LoopSt) (hg : f.opts.group = true) (hk : keyP f v = false)
    (h : loopFields n (f :: fs) (mkStG (.value v :: rest) [v] 0 nv nr out) = .ok st') :
    f.opts.omitEmpty = true ∧ loopFields n fs (mkStG (.value v :: rest) [v] 0 nv nr out) = .ok st' := by
  rw [loop_cons_iff] at h
  obtain ⟨st1, h1, h2⟩ := h
  cases ho : f.opts.omitEmpty with
  | true =>
    rw [stepField_gopt_value_open n f _ [v] v rest ho hg rfl rfl] at h1
    cases h1
    exact ⟨rfl, h2⟩
  | false =>
    exfalso
    have hk' : (f.opts.param ++ [equals]).isPrefixOf v.val = false := hk
    unfold stepField at h1
    simp only [mkStG, hg, Bool.not_true, Bool.false_and, Bool.false_eq_true, if_false, pure_bind, ho,
      Bool.not_false, Bool.or_true, Bool.and_self, if_true, List.find?, hk'] at h1
    simp [throw, throwThe, MonadExceptOf.throw] at h1

/-- No group open, no fragment left: the member must be optional. -/
theorem loop_gmem_nil (n : Nat) (f : FieldInfo) (fs : List FieldInfo) (nv nr : Int) (out : Vals) (st' : LoopSt)
    (hg : f.opts.group = true) (h : loopFields n (f :: fs) (mkSt [] nv nr out) = .ok st') :
    f.opts.omitEmpty = true ∧ loopFields n fs (mkSt [] nv nr out) = .ok st' := by
  cases ho : f.opts.omitEmpty with
  | true =>
    rw [loop_opt_nil n f fs nv nr out ho] at h
    exact ⟨rfl, h⟩
  | false =>
    exfalso
    rw [loop_cons_iff] at h
    obtain ⟨st1, h1, -⟩ := h
    obtain ⟨err, herr⟩ := step_req_nil n f (mkSt [] nv nr out) ho rfl (Or.inl hg)
    rw [herr] at h1; cases h1

/-- No group open, a value fragment: an optional member passes (or is skipped by count); a required one
takes the value as a one-member group, which must carry its name. -/
theorem loop_gmem_value (n : Nat) (f : FieldInfo) (fs : List FieldInfo) (v : VNode) (rest : List Frag)
    (nv nr : Int) (out : Vals) (st' : LoopSt) (hg : f.opts.group = true) (hinl : f.opts.inline = false)
    (h : loopFields n (f :: fs) (mkSt (.value v :: rest) nv nr out) = .ok st') :
    (f.opts.omitEmpty = true ∧ ∃ nv', loopFields n fs (mkSt (.value v :: rest) nv' nr out) = .ok st') ∨
    (f.opts.omitEmpty = false ∧ keyP f v = true ∧ ∃ fv rem, readField f v.fin v.val = .ok (fv, rem) ∧
      loopFields n fs (mkStG (.value v :: rest) [v] 0 nv nr (out ++ [(f.index, fv)])) = .ok st') := by
  cases ho : f.opts.omitEmpty with
  | true =>
    left
    refine ⟨rfl, ?_⟩
    by_cases hcnt : nv - nr ≤ 0
    · rw [loop_opt_skip n f fs _ rest nv nr out ho hcnt] at h
      exact ⟨nv - 1, h⟩
    · rw [loopFields_cons _ _ _ _ _ (stepField_gopt_value n f (mkSt (.value v :: rest) nv nr out) v rest ho hg
        rfl rfl hcnt)] at h
      exact ⟨nv, h⟩
  | false =>
    right
    rw [loop_cons_iff] at h
    obtain ⟨st1, h1, h2⟩ := h
    obtain ⟨hk, -⟩ := step_group_value n f _ st1 v rest hg ho hinl rfl h1
    have hk' : (f.opts.param ++ [equals]).isPrefixOf v.val = true := hk
    unfold stepField at h1
    simp only [mkSt, hg, Bool.not_true, Bool.false_and, Bool.false_eq_true, if_false, pure_bind, ho,
      Bool.not_false, Bool.or_true, Bool.and_self, if_true, List.find?, hk'] at h1
    cases hft : fieldText f "value" v.fin v.val with
    | error err => simp [hft, bind, Except.bind] at h1
    | ok x =>
      obtain ⟨s, rem⟩ := x
      cases hsv : storeValue f "value" v.fin s with
      | error err => simp [hft, hsv, bind, Except.bind] at h1
      | ok fv =>
        simp only [hft, hsv, bind, Except.bind, pure, Except.pure, hinl, Bool.false_eq_true, if_false,
          replaceFirst, if_true, Nat.sub_self, Except.ok.injEq] at h1
        subst h1
        exact ⟨rfl, hk, fv, rem, readField_of f _ _ s rem fv hft hsv, h2⟩

/-- Inversion of one step: a grouped parameter, no group open, facing a group fragment, not skipped by
count. -/
theorem step_gmem_first_inv (n : Nat) (f : FieldInfo) (st st1 : LoopSt) (vs : List VNode) (rest : List Frag)
    (hg : f.opts.group = true) (hsg : st.group = none) (hf : st.frags = .group vs :: rest)
    (hskip : ¬ (f.opts.omitEmpty = true ∧ st.numValues - st.numReq ≤ 0))
    (h : stepField n f st = .ok st1) :
    (∃ v s rem fv, vs.find? (fun v => (f.opts.param ++ [equals]).isPrefixOf v.val) = some v ∧
      fieldText f "value" v.fin v.val = .ok (s, rem) ∧ storeValue f "value" v.fin s = .ok fv) ∨
    (vs.find? (fun v => (f.opts.param ++ [equals]).isPrefixOf v.val) = none ∧ f.opts.omitEmpty = true) := by
  have hsk : (f.opts.omitEmpty && decide (st.numValues - st.numReq ≤ 0)) = false := by
    cases ho : f.opts.omitEmpty with
    | false => rfl
    | true =>
      have : ¬ (st.numValues - st.numReq ≤ 0) := fun h' => hskip ⟨ho, h'⟩
      simp [this]
  unfold stepField at h
  simp only [hg, hsg, hf, Bool.not_true, Bool.false_and, Bool.false_eq_true, if_false, pure_bind,
    Option.isNone_none, Bool.and_true, hsk, Bool.true_or, Bool.and_self, if_true] at h
  cases hfind : vs.find? (fun v => (f.opts.param ++ [equals]).isPrefixOf v.val) with
  | none =>
    right
    refine ⟨rfl, ?_⟩
    cases ho : f.opts.omitEmpty with
    | true => rfl
    | false => simp [hfind, ho, throw, throwThe, MonadExceptOf.throw] at h
  | some v =>
    left
    simp only [hfind] at h
    cases hft : fieldText f "value" v.fin v.val with
    | error err => simp [hft, bind, Except.bind] at h
    | ok x =>
      obtain ⟨s, rem⟩ := x
      cases hsv : storeValue f "value" v.fin s with
      | error err => simp [hft, hsv, bind, Except.bind] at h
      | ok fv => exact ⟨v, s, rem, fv, rfl, hft, hsv⟩

/-- No group open, a group fragment: an optional member may be skipped by count; otherwise the member
opens the group, finding its member or (optional) not. -/
theorem loop_gmem_group (n : Nat) (f : FieldInfo) (fs : List FieldInfo) (vs : List VNode) (rest : List Frag)
    (nv nr : Int) (out : Vals) (st' : LoopSt) (hg : f.opts.group = true) (hinl : f.opts.inline = false)
    (h : loopFields n (f :: fs) (mkSt (.group vs :: rest) nv nr out) = .ok st') :
    (f.opts.omitEmpty = true ∧ loopFields n fs (mkSt (.group vs :: rest) (nv - 1) nr out) = .ok st') ∨
    (∃ v fv rem, vs.find? (keyP f) = some v ∧ readField f v.fin v.val = .ok (fv, rem) ∧
      loopFields n fs (mkStG (.group vs :: rest) vs (vs.length - 1) nv nr (out ++ [(f.index, fv)])) = .ok st') ∨
    (vs.find? (keyP f) = none ∧ f.opts.omitEmpty = true ∧
      loopFields n fs (mkStG (.group vs :: rest) vs vs.length nv nr out) = .ok st') := by
  by_cases hsk : f.opts.omitEmpty = true ∧ nv - nr ≤ 0
  · left
    rw [loop_opt_skip n f fs _ rest nv nr out hsk.1 hsk.2] at h
    exact ⟨hsk.1, h⟩
  · right
    rw [loop_cons_iff] at h
    obtain ⟨st1, h1, h2⟩ := h
    rcases step_gmem_first_inv n f (mkSt (.group vs :: rest) nv nr out) st1 vs rest hg rfl rfl hsk h1 with
      ⟨v, s, rem, fv, hfind, hft, hsv⟩ | ⟨hfind, ho⟩
    · left
      rw [stepField_group_first' n f (mkSt (.group vs :: rest) nv nr out) vs rest v s rem fv hg hinl hsk rfl
        rfl hfind hft hsv] at h1
      cases h1
      exact ⟨v, fv, rem, hfind, readField_of f _ _ s rem fv hft hsv, h2⟩
    · right
      have hcnt : ¬ (nv - nr ≤ 0) := fun h' => hsk ⟨ho, h'⟩
      rw [stepField_group_open_miss n f (mkSt (.group vs :: rest) nv nr out) vs rest hg ho hcnt rfl rfl
        hfind] at h1
      cases h1
      exact ⟨hfind, ho, h2⟩

/-! ## One run of grouped parameters, inverted -/

/-- the member text carries the field's `name=` -/
def keyB (f : FieldInfo) (m : Bytes) : Bool := (f.opts.param ++ [equals]).isPrefixOf m

/-- What the loop did on a run facing the members `ms` of one fragment: each field found its member
(the first one carrying its name) and read it, or is optional and was passed over. `T` lists the
member texts taken, `asg` the assignments made, in field order. -/
inductive RunReads (ms : List Bytes) : List FieldInfo → List Bytes → Vals → Prop
  | nil : RunReads ms [] [] []
  | skip (f : FieldInfo) (fs : List FieldInfo) (T : List Bytes) (asg : Vals) :
      f.opts.omitEmpty = true → RunReads ms fs T asg → RunReads ms (f :: fs) T asg
  | take (f : FieldInfo) (fs : List FieldInfo) (T : List Bytes) (asg : Vals) (m : Bytes) (v : FVal) :
      ms.find? (keyB f) = some m → (∃ e rem, readField f e m = .ok (v, rem)) → RunReads ms fs T asg →
      RunReads ms (f :: fs) (m :: T) ((f.index, v) :: asg)

theorem find_map_val (vs : List VNode) (f : FieldInfo) (v : VNode) (h : vs.find? (keyP f) = some v) :
    (vs.map (·.val)).find? (keyB f) = some v.val := by
  rw [List.find?_map]
  have : (keyB f ∘ fun x : VNode => x.val) = keyP f := rfl
  rw [this, h]; rfl

/-- Two keys over `=`-free names in front of the same text: the names agree. -/
theorem key_unique (p q t : Bytes) (hp : equals ∉ p) (hq : equals ∉ q)
    (h1 : (p ++ [equals]).isPrefixOf t = true) (h2 : (q ++ [equals]).isPrefixOf t = true) : p = q := by
  obtain ⟨t', rfl⟩ := (isPrefixOf_iff_append _ _).1 h2
  exact key_prefix_eq p q t' hp hq h1

/-- A group fragment is open. -/
theorem run_real (n : Nat) (vs : List VNode) (rest : List Frag) (after : List FieldInfo) (nr : Int)
    (st' : LoopSt) : ∀ (run : List FieldInfo) (ngv : Nat) (nv : Int) (out : Vals),
    (∀ f ∈ run, f.opts.group = true ∧ f.opts.inline = false) →
    loopFields n (run ++ after) (mkStG (.group vs :: rest) vs ngv nv nr out) = .ok st' →
    ∃ T asgR, RunReads (vs.map (·.val)) run T asgR ∧
      loopFields n after (mkStG (.group vs :: rest) vs (ngv - T.length) nv nr (out ++ asgR)) = .ok st'
  | [], ngv, nv, out, _, h => ⟨[], [], .nil, by simpa using h⟩
  | f :: run, ngv, nv, out, hrun, h => by
    obtain ⟨hg, hi⟩ := hrun f (by simp)
    have hrun' : ∀ g ∈ run, g.opts.group = true ∧ g.opts.inline = false := fun g hg' => hrun g (by simp [hg'])
    rcases loop_gmem_real n f (run ++ after) vs vs rest ngv nv nr out st' hg hi h with
      ⟨v, fv, rem, hfind, hr, h'⟩ | ⟨-, ho, h'⟩
    · obtain ⟨T, asg, hR, hl⟩ := run_real n vs rest after nr st' run (ngv - 1) nv _ hrun' h'
      refine ⟨v.val :: T, (f.index, fv) :: asg, .take f run T asg v.val fv (find_map_val vs f v hfind)
        ⟨v.fin, rem, hr⟩ hR, ?_⟩
      have e1 : ngv - (v.val :: T).length = ngv - 1 - T.length := by simp only [List.length_cons]; omega
      have e2 : out ++ (f.index, fv) :: asg = out ++ [(f.index, fv)] ++ asg := by simp
      rw [e1, e2]; exact hl
    · obtain ⟨T, asg, hR, hl⟩ := run_real n vs rest after nr st' run ngv nv out hrun' h'
      exact ⟨T, asg, .skip f run T asg ho hR, hl⟩

/-- A lone value has been taken as a one-member group. -/
theorem run_syn (n : Nat) (v : VNode) (rest : List Frag) (after : List FieldInfo) (nv nr : Int) (out : Vals)
    (st' : LoopSt) : ∀ (run : List FieldInfo), (∀ f ∈ run, f.opts.group = true ∧ keyP f v = false) →
    loopFields n (run ++ after) (mkStG (.value v :: rest) [v] 0 nv nr out) = .ok st' →
    RunReads [v.val] run [] [] ∧ loopFields n after (mkStG (.value v :: rest) [v] 0 nv nr out) = .ok st'
  | [], _, h => ⟨.nil, h⟩
  | f :: run, hrun, h => by
    obtain ⟨hg, hk⟩ := hrun f (by simp)
    obtain ⟨ho, h'⟩ := loop_gmem_syn n f (run ++ after) v rest nv nr out st' hg hk h
    obtain ⟨hR, hl⟩ := run_syn n v rest after nv nr out st' run (fun g hg' => hrun g (by simp [hg'])) h'
    exact ⟨.skip f run [] [] ho hR, hl⟩

/-- No group is open at the start of the run: nothing is assigned, or a lone value is taken by one
required member, or a group fragment is opened. -/
theorem run_none (n : Nat) (after : List FieldInfo) (nr : Int) (st' : LoopSt) :
    ∀ (run : List FieldInfo) (frags : List Frag) (nv : Int) (out : Vals),
    (∀ f ∈ run, f.opts.group = true ∧ f.opts.inline = false ∧ equals ∉ f.opts.param) →
    (run.map (·.opts.param)).Nodup →
    loopFields n (run ++ after) (mkSt frags nv nr out) = .ok st' →
    ((∀ f ∈ run, f.opts.omitEmpty = true) ∧ ∃ nv', loopFields n after (mkSt frags nv' nr out) = .ok st') ∨
    (∃ v rest nv' T asgR, frags = .value v :: rest ∧ RunReads [v.val] run T asgR ∧ T.length = 1 ∧
      loopFields n after (mkStG (.value v :: rest) [v] 0 nv' nr (out ++ asgR)) = .ok st') ∨
    (∃ vs rest nv' T asgR, frags = .group vs :: rest ∧ RunReads (vs.map (·.val)) run T asgR ∧
      loopFields n after (mkStG (.group vs :: rest) vs (vs.length - T.length) nv' nr (out ++ asgR)) = .ok st')
  | [], frags, nv, out, _, _, h => Or.inl ⟨by simp, nv, h⟩
  | f :: run, frags, nv, out, hrun, hnd, h => by
    obtain ⟨hg, hi, he⟩ := hrun f (by simp)
    have hrun' : ∀ g ∈ run, g.opts.group = true ∧ g.opts.inline = false ∧ equals ∉ g.opts.param :=
      fun g hg' => hrun g (by simp [hg'])
    simp only [List.map_cons, List.nodup_cons, List.mem_map, not_exists, not_and] at hnd
    obtain ⟨hfn, hnd'⟩ := hnd
    -- the recursive call on the rest of the run, an optional `f` having been passed over
    have hpass : f.opts.omitEmpty = true → ∀ nv1, loopFields n (run ++ after) (mkSt frags nv1 nr out) = .ok st' →
        ((∀ g ∈ f :: run, g.opts.omitEmpty = true) ∧ ∃ nv', loopFields n after (mkSt frags nv' nr out) = .ok st') ∨
        (∃ v rest nv' T asgR, frags = .value v :: rest ∧ RunReads [v.val] (f :: run) T asgR ∧ T.length = 1 ∧
          loopFields n after (mkStG (.value v :: rest) [v] 0 nv' nr (out ++ asgR)) = .ok st') ∨
        (∃ vs rest nv' T asgR, frags = .group vs :: rest ∧ RunReads (vs.map (·.val)) (f :: run) T asgR ∧
          loopFields n after (mkStG (.group vs :: rest) vs (vs.length - T.length) nv' nr (out ++ asgR)) = .ok st') := by
      intro ho nv1 h1
      rcases run_none n after nr st' run frags nv1 out hrun' hnd' h1 with
        ⟨hall, hl⟩ | ⟨v, rest, nv', T, asg, hf, hR, hT, hl⟩ | ⟨vs, rest, nv', T, asg, hf, hR, hl⟩
      · exact Or.inl ⟨fun g hg' => by
          simp only [List.mem_cons] at hg'
          rcases hg' with rfl | hg'
          · exact ho
          · exact hall g hg', hl⟩
      · exact Or.inr (Or.inl ⟨v, rest, nv', T, asg, hf, .skip f run T asg ho hR, hT, hl⟩)
      · exact Or.inr (Or.inr ⟨vs, rest, nv', T, asg, hf, .skip f run T asg ho hR, hl⟩)
    cases frags with
    | nil =>
      obtain ⟨ho, h'⟩ := loop_gmem_nil n f (run ++ after) nv nr out st' hg h
      exact hpass ho nv h'
    | cons fr rest =>
      cases fr with
      | value v =>
        rcases loop_gmem_value n f (run ++ after) v rest nv nr out st' hg hi h with
          ⟨ho, nv', h'⟩ | ⟨-, hk, fv, rem, hr, h'⟩
        · exact hpass ho nv' h'
        · -- `f` takes the lone value; the other members do not carry their names in it
          have hother : ∀ g ∈ run, g.opts.group = true ∧ keyP g v = false := by
            intro g hg'
            refine ⟨(hrun' g hg').1, ?_⟩
            cases hkg : keyP g v with
            | false => rfl
            | true =>
              exact absurd (key_unique _ _ _ he (hrun' g hg').2.2 hk hkg) (fun e => hfn g hg' e.symm)
          obtain ⟨hR, hl⟩ := run_syn n v rest after nv nr _ st' run hother h'
          refine Or.inr (Or.inl ⟨v, rest, nv, [v.val], [(f.index, fv)], rfl,
            .take f run [] [] v.val fv
              (by have hk' : keyB f v.val = true := hk
                  simp [List.find?, hk']) ⟨v.fin, rem, hr⟩ hR,
            rfl, ?_⟩)
          exact hl
      | group vs =>
        rcases loop_gmem_group n f (run ++ after) vs rest nv nr out st' hg hi h with
          ⟨ho, h'⟩ | ⟨v, fv, rem, hfind, hr, h'⟩ | ⟨-, ho, h'⟩
        · exact hpass ho (nv - 1) h'
        · obtain ⟨T, asg, hR, hl⟩ := run_real n vs rest after nr st' run (vs.length - 1) nv _
            (fun g hg' => ⟨(hrun' g hg').1, (hrun' g hg').2.1⟩) h'
          refine Or.inr (Or.inr ⟨vs, rest, nv, v.val :: T, (f.index, fv) :: asg, rfl,
            .take f run T asg v.val fv (find_map_val vs f v hfind) ⟨v.fin, rem, hr⟩ hR, ?_⟩)
          have e1 : vs.length - (v.val :: T).length = vs.length - 1 - T.length := by
            simp only [List.length_cons]; omega
          have e2 : out ++ (f.index, fv) :: asg = out ++ [(f.index, fv)] ++ asg := by simp
          rw [e1, e2]; exact hl
        · obtain ⟨T, asg, hR, hl⟩ := run_real n vs rest after nr st' run vs.length nv out
            (fun g hg' => ⟨(hrun' g hg').1, (hrun' g hg').2.1⟩) h'
          exact Or.inr (Or.inr ⟨vs, rest, nv, T, asg, rfl, .skip f run T asg ho hR, hl⟩)

/-! ## `matchGroup` on what the loop did with a run -/

/-- What the proofs need of a grouped parameter. -/
def MemberOk (f : FieldInfo) : Prop :=
  f.opts.group = true ∧ f.opts.inline = false ∧ Accepts4.coreOk f = true ∧
  (f.opts.omitEmpty = true → Accepts6.optOk f = true) ∧ f.opts.param ≠ [] ∧ equals ∉ f.opts.param

theorem removeFirst_unique (P : Bytes → Bool) (a : Bytes) : ∀ (l : List Bytes),
    (∀ x ∈ l, P x = true → x = a) → a ∈ l → P a = true → removeFirst P l = some (l.erase a)
  | [], _, h, _ => by cases h
  | x :: l, hu, ha, hp => by
    by_cases hx : P x = true
    · have := hu x (by simp) hx
      subst this
      simp [removeFirst, hx]
    · have hxa : x ≠ a := fun e => hx (e ▸ hp)
      have ha' : a ∈ l := by
        simp only [List.mem_cons] at ha
        rcases ha with rfl | ha
        · exact absurd rfl hxa
        · exact ha
      have ih := removeFirst_unique P a l (fun y hy => hu y (by simp [hy])) ha' hp
      simp only [Bool.not_eq_true] at hx
      have hbe : (x == a) = false := by simpa using hxa
      simp [removeFirst, hx, ih, hbe]

/-- Pigeonhole: a duplicate-free list inside a list that is not longer is a permutation of it. -/
theorem perm_of_nodup_subset : ∀ (l1 l2 : List Bytes), l1.Nodup → (∀ a ∈ l1, a ∈ l2) →
    l2.length ≤ l1.length → l2.Perm l1
  | [], l2, _, _, hlen => by
    have : l2 = [] := List.eq_nil_of_length_eq_zero (by simpa using hlen)
    subst this; exact List.Perm.nil
  | a :: t, l2, hnd, hsub, hlen => by
    simp only [List.nodup_cons] at hnd
    have ha : a ∈ l2 := hsub a (by simp)
    have h1 := List.perm_cons_erase ha
    have ih := perm_of_nodup_subset t (l2.erase a) hnd.2
      (fun x hx => by
        have hxa : x ≠ a := fun e => hnd.1 (e ▸ hx)
        exact (List.mem_erase_of_ne hxa).2 (hsub x (by simp [hx])))
      (by rw [List.length_erase_of_mem ha]; simp only [List.length_cons] at hlen; omega)
    exact h1.trans (List.Perm.cons a ih)

theorem memberIs_key (f : FieldInfo) (t m : Bytes) (hp : f.opts.param ≠ [])
    (h : memberIs [] f t m = true) : keyB f m = true := by
  unfold memberIs unname at h
  simp only [List.isPrefixOf_nil_left, List.length_nil, List.drop_zero, Bool.true_and, hp, ↓reduceIte] at h
  cases hk : (f.opts.param ++ [equals]).isPrefixOf m with
  | true => exact hk
  | false => simp [hk] at h

theorem memberIsZero_key (f : FieldInfo) (m : Bytes) (hp : f.opts.param ≠ [])
    (h : memberIsZero f m = true) : keyB f m = true := by
  unfold memberIsZero unname at h
  simp only [hp, ↓reduceIte] at h
  cases hk : (f.opts.param ++ [equals]).isPrefixOf m with
  | true => exact hk
  | false => simp [hk] at h

theorem runReads_T_keys (ms : List Bytes) : ∀ (run : List FieldInfo) (T : List Bytes) (asg : Vals),
    RunReads ms run T asg → ∀ x ∈ T, ∃ g ∈ run, keyB g x = true ∧ x ∈ ms
  | _, _, _, .nil, x, hx => by cases hx
  | _, _, _, .skip f fs T asg _ hR, x, hx => by
    obtain ⟨g, hg, hk⟩ := runReads_T_keys ms fs T asg hR x hx
    exact ⟨g, by simp [hg], hk⟩
  | _, _, _, .take f fs T asg m v hfind _ hR, x, hx => by
    simp only [List.mem_cons] at hx
    rcases hx with rfl | hx
    · exact ⟨f, by simp, List.find?_some hfind, List.mem_of_find?_eq_some hfind⟩
    · obtain ⟨g, hg, hk⟩ := runReads_T_keys ms fs T asg hR x hx
      exact ⟨g, by simp [hg], hk⟩

theorem runReads_keys (ms : List Bytes) : ∀ (run : List FieldInfo) (T : List Bytes) (asg : Vals),
    RunReads ms run T asg → (asg.map (·.1)).Sublist (run.map (·.index))
  | _, _, _, .nil => List.Sublist.slnil
  | _, _, _, .skip f fs T asg _ hR => List.Sublist.cons _ (runReads_keys ms fs T asg hR)
  | _, _, _, .take f fs T asg m v _ _ hR => by
    simp only [List.map_cons]
    exact List.Sublist.cons_cons _ (runReads_keys ms fs T asg hR)

theorem runReads_T_nodup (ms : List Bytes) : ∀ (run : List FieldInfo) (T : List Bytes) (asg : Vals),
    RunReads ms run T asg → (∀ f ∈ run, equals ∉ f.opts.param) → (run.map (·.opts.param)).Nodup → T.Nodup
  | _, _, _, .nil, _, _ => List.nodup_nil
  | _, _, _, .skip f fs T asg _ hR, he, hnd => by
    simp only [List.map_cons, List.nodup_cons] at hnd
    exact runReads_T_nodup ms fs T asg hR (fun g hg => he g (by simp [hg])) hnd.2
  | _, _, _, .take f fs T asg m v hfind _ hR, he, hnd => by
    simp only [List.map_cons, List.nodup_cons, List.mem_map, not_exists, not_and] at hnd
    refine List.nodup_cons.2 ⟨?_, runReads_T_nodup ms fs T asg hR (fun g hg => he g (by simp [hg])) hnd.2⟩
    intro hm
    obtain ⟨g, hg, hk, -⟩ := runReads_T_keys ms fs T asg hR m hm
    have hkf : keyB f m = true := List.find?_some hfind
    exact hnd.1 g hg (key_unique _ _ _ (he g (by simp [hg])) (he f (by simp)) hk hkf)

/-- `matchGroup` succeeds on the members left (`cur`, a permutation of the texts taken by the rest of the
run). -/
theorem matchGroup_reads (vals : Vals) (ms : List Bytes) : ∀ (run : List FieldInfo) (T : List Bytes) (asg : Vals)
    (cur : List Bytes), RunReads ms run T asg → (∀ f ∈ run, MemberOk f) →
    (run.map (·.opts.param)).Nodup → (run.map (·.index)).Nodup →
    (∀ x ∈ asg, ∀ f ∈ run, f.index = x.1 → fieldVal vals f = x.2) →
    (∀ f ∈ run, (∀ x ∈ asg, x.1 ≠ f.index) → fieldVal vals f = zeroOf f.kind f.ptrDepth) →
    cur.Perm T → matchGroup vals [] run cur = true
  | _, _, _, cur, .nil, _, _, _, _, _, hperm => by
    have := hperm.eq_nil
    subst this
    simp [matchGroup]
  | _, _, _, cur, .skip f fs T asg ho hR, hok, hnp, hni, hv, hz, hperm => by
    obtain ⟨hg, hi, hcore, hopt, hp, he⟩ := hok f (by simp)
    simp only [List.map_cons, List.nodup_cons, List.mem_map, not_exists, not_and] at hnp hni
    have hna : ∀ x ∈ asg, x.1 ≠ f.index := by
      intro x hx e'
      have : x.1 ∈ fs.map (·.index) := (runReads_keys ms fs T asg hR).subset (List.mem_map.2 ⟨x, hx, rfl⟩)
      obtain ⟨g, hg', hge⟩ := List.mem_map.1 this
      exact hni.1 g hg' (by rw [hge, e'])
    have hfv := hz f (by simp) hna
    have hfv' : (getVal vals f.index).getD (zeroOf f.kind f.ptrDepth) = zeroOf f.kind f.ptrDepth := hfv
    have ih := matchGroup_reads vals ms fs T asg cur hR (fun g hg' => hok g (by simp [hg'])) hnp.2 hni.2
      (fun x hx g hg' hge => hv x hx g (by simp [hg']) hge)
      (fun g hg' hna' => hz g (by simp [hg']) hna') hperm
    unfold matchGroup
    simp only [ho, hfv', Accepts6.zero_omitted f hcore (hopt ho), Bool.and_self, if_true, ih, Bool.true_or]
  | _, _, _, cur, .take f fs T asg m v hfind ⟨e, rem, hr⟩ hR, hok, hnp, hni, hv, hz, hperm => by
    obtain ⟨hg, hi, hcore, hopt, hp, he⟩ := hok f (by simp)
    have hok' : ∀ g ∈ fs, MemberOk g := fun g hg' => hok g (by simp [hg'])
    simp only [List.map_cons, List.nodup_cons, List.mem_map, not_exists, not_and] at hnp hni
    have hfv : fieldVal vals f = v := hv (f.index, v) (by simp) f (by simp) rfl
    have hfv' : (getVal vals f.index).getD (zeroOf f.kind f.ptrDepth) = v := hfv
    have hkf : keyB f m = true := List.find?_some hfind
    have hkey : KeyOK f m := Or.inr hkf
    have hmc : m ∈ cur := (hperm.mem_iff).2 (by simp)
    -- every other member left carries another name
    have huniq : ∀ x ∈ cur, keyB f x = true → x = m := by
      intro x hx hkx
      have hxT : x ∈ m :: T := (hperm.mem_iff).1 hx
      simp only [List.mem_cons] at hxT
      rcases hxT with rfl | hxT
      · rfl
      · obtain ⟨g, hg', hkg, -⟩ := runReads_T_keys ms fs T asg hR x hxT
        exact absurd (key_unique _ _ _ (hok' g hg').2.2.2.2.2 he hkg hkx) (hnp.1 g hg')
    have hperm' : (cur.erase m).Perm T := by
      have := hperm.erase m
      rwa [List.erase_cons_head] at this
    have ih := matchGroup_reads vals ms fs T asg (cur.erase m) hR hok' hnp.2 hni.2
      (fun x hx g hg' hge => hv x (by simp [hx]) g (by simp [hg']) hge)
      (fun g hg' hna => hz g (by simp [hg']) (by
        intro x hx
        simp only [List.mem_cons] at hx
        rcases hx with rfl | hx
        · exact fun e' => hni.1 g hg' e'.symm
        · exact hna x hx)) hperm'
    unfold matchGroup
    by_cases hem : (f.opts.omitEmpty && isEmptyVal f v) = true
    · -- read as zero: an explicit zero member
      simp only [Bool.and_eq_true] at hem
      have hmz := Accepts6.read_memberIsZero f e m v rem hcore (hopt hem.1) hi hkey hr hem.2
      have hrf := removeFirst_unique (memberIsZero f) m cur
        (fun x hx hpx => huniq x hx (memberIsZero_key f x hp hpx)) hmc hmz
      simp only [hfv', hem.1, hem.2, Bool.and_self, if_true, hrf, ih, Bool.or_true]
    · simp only [Bool.not_eq_true] at hem
      obtain ⟨t, hm, hmem⟩ := Accepts4.read_memberIs f e [] m v rem hcore hi hkey hr
      simp only [List.nil_append] at hmem
      have hrf := removeFirst_unique (memberIs [] f t) m cur
        (fun x hx hpx => huniq x hx (memberIs_key f t x hp hpx)) hmc hmem
      simp only [hfv', hem, Bool.false_eq_true, if_false, hm, hrf, ih]

/-! ## Hypotheses -/

/-- A field of a struct with groups: as in `Accepts6`, and a grouped parameter has a plain name and is
not inline. -/
def fieldOk (f : FieldInfo) : Bool :=
  Accepts4.coreOk f && (!f.opts.omitEmpty || (!f.opts.inline && Accepts6.optOk f)) &&
  (!f.opts.group || (f.opts.param != [] && !f.opts.inline && f.opts.param.all isAlnum))

/-- The names of the grouped parameters are distinct. -/
def GNames (fs : List FieldInfo) : Prop := ((fs.filter (·.opts.group)).map (·.opts.param)).Nodup

/-- The struct ends with a required stand-alone field. -/
def EndsRequired (fs : List FieldInfo) : Prop :=
  ∀ l, fs.getLast? = some l → l.opts.group = false ∧ l.opts.omitEmpty = false

def acceptOk (ti : TypeInfo) : Bool :=
  ti.fields.all fieldOk && inlineOk ti.fields &&
  decide (((ti.fields.filter (·.opts.group)).map (·.opts.param)).Nodup) &&
  (match ti.fields.getLast? with | some l => !l.opts.group && !l.opts.omitEmpty | none => true) &&
  (match ti.hashPrefix with | some hp => L1.prefixField hp && !hp.opts.hasLength | none => true) &&
  decide ((ti.hashPrefix.toList ++ ti.fields).map (·.index)).Nodup

theorem fieldOk_parts (f : FieldInfo) (h : fieldOk f = true) :
    Accepts4.coreOk f = true ∧
    (f.opts.omitEmpty = true → f.opts.inline = false ∧ Accepts6.optOk f = true) ∧
    (f.opts.group = true → f.opts.param ≠ [] ∧ f.opts.inline = false ∧ equals ∉ f.opts.param) := by
  simp only [fieldOk, Bool.and_eq_true, Bool.or_eq_true, Bool.not_eq_eq_eq_not, Bool.not_true, bne_iff_ne,
    ne_eq] at h
  refine ⟨h.1.1, fun ho => ?_, fun hg => ?_⟩
  · rcases h.1.2 with h2 | h2
    · rw [ho] at h2; cases h2
    · exact h2
  · rcases h.2 with h2 | h2
    · rw [hg] at h2; cases h2
    · exact ⟨h2.1.1, h2.1.2, (alnum_clean _ h2.2).1⟩

theorem memberOk_of (f : FieldInfo) (h : fieldOk f = true) (hg : f.opts.group = true) : MemberOk f := by
  obtain ⟨hcore, hopt, hgrp⟩ := fieldOk_parts f h
  obtain ⟨hp, hi, he⟩ := hgrp hg
  exact ⟨hg, hi, hcore, fun ho => (hopt ho).2, hp, he⟩

theorem gnames_tail (f : FieldInfo) (fs : List FieldInfo) (h : GNames (f :: fs)) : GNames fs := by
  unfold GNames at h ⊢
  by_cases hg : f.opts.group = true
  · simp only [List.filter_cons, hg, if_true, List.map_cons, List.nodup_cons] at h
    exact h.2
  · simp only [Bool.not_eq_true] at hg
    simpa [List.filter_cons, hg] using h

theorem gnames_run (run after : List FieldInfo) (hrun : ∀ f ∈ run, f.opts.group = true)
    (h : GNames (run ++ after)) : (run.map (·.opts.param)).Nodup ∧ GNames after := by
  unfold GNames at h ⊢
  have hf : run.filter (·.opts.group) = run := List.filter_eq_self.2 (fun f hf => hrun f hf)
  rw [List.filter_append, hf, List.map_append] at h
  exact ⟨(List.nodup_append.1 h).1, (List.nodup_append.1 h).2.1⟩

theorem endsRequired_tail (f : FieldInfo) (fs : List FieldInfo) (h : EndsRequired (f :: fs)) :
    EndsRequired fs := by
  intro l hl
  apply h l
  cases fs with
  | nil => simp at hl
  | cons g gs => rw [List.getLast?_cons_cons]; exact hl

theorem endsRequired_append (run after : List FieldInfo) (_hne : after ≠ []) (h : EndsRequired (run ++ after)) :
    EndsRequired after := by
  intro l hl
  apply h l
  rw [List.getLast?_append, hl]; rfl

/-- At the end of the input only optional fields can follow. -/
theorem loop_eof_optional (n : Nat) (st' : LoopSt) : ∀ (fs : List FieldInfo) (nv nr : Int) (out : Vals),
    loopFields n fs (mkSt [] nv nr out) = .ok st' → ∀ f ∈ fs, f.opts.omitEmpty = true
  | [], _, _, _, _, f, hf => by cases hf
  | g :: fs, nv, nr, out, h, f, hf => by
    cases ho : g.opts.omitEmpty with
    | false =>
      exfalso
      rw [loop_cons_iff] at h
      obtain ⟨st1, h1, -⟩ := h
      obtain ⟨err, herr⟩ := step_req_nil n g (mkSt [] nv nr out) ho rfl (Or.inr rfl)
      rw [herr] at h1; cases h1
    | true =>
      rw [loopFields_cons _ _ _ _ _ (stepField_eof_opt n g (mkSt [] nv nr out) ho rfl rfl)] at h
      simp only [List.mem_cons] at hf
      rcases hf with rfl | hf
      · exact ho
      · exact loop_eof_optional n st' fs nv nr out h f hf

/-! ## The whole loop, inverted -/

/-- What the loop did on the whole field list. -/
inductive ReadsG : List FieldInfo → Bytes → List Bytes → Vals → Prop
  | nil : ReadsG [] [] [] []
  | skip (f : FieldInfo) (fs : List FieldInfo) (glue : Bytes) (ps : List Bytes) (asg : Vals) :
      f.opts.group = false → f.opts.omitEmpty = true → ReadsG fs glue ps asg → ReadsG (f :: fs) glue ps asg
  | read (f : FieldInfo) (fs : List FieldInfo) (glue cur : Bytes) (ps : List Bytes) (v : FVal) (asg : Vals) :
      f.opts.group = false → f.opts.inline = false → comma ∉ glue ++ cur → KeyOK f cur →
      (∃ e rem, readField f e cur = .ok (v, rem)) → (f.opts.omitEmpty = true → glue = []) →
      ReadsG fs [] ps asg → ReadsG (f :: fs) glue ((glue ++ cur) :: ps) ((f.index, v) :: asg)
  | readInl (f : FieldInfo) (fs : List FieldInfo) (glue cur : Bytes) (ps : List Bytes) (v : FVal) (asg : Vals) :
      f.opts.group = false → f.opts.inline = true → comma ∉ glue ++ cur → KeyOK f cur →
      (∃ e rem, readField f e cur = .ok (v, rem)) →
      ReadsG fs (glue ++ cur.take f.opts.length) ((glue ++ cur) :: ps) asg →
      ReadsG (f :: fs) glue ((glue ++ cur) :: ps) ((f.index, v) :: asg)
  | runNone (run after : List FieldInfo) (ps : List Bytes) (asg : Vals) :
      run ≠ [] → (∀ f ∈ run, f.opts.group = true ∧ f.opts.omitEmpty = true) →
      (after = [] ∨ ∃ h t, after = h :: t ∧ h.opts.group = false) →
      ReadsG after [] ps asg → ReadsG (run ++ after) [] ps asg
  | runSome (run after : List FieldInfo) (p : Bytes) (ps : List Bytes) (T : List Bytes) (asgR asg : Vals) :
      run ≠ [] → (∀ f ∈ run, f.opts.group = true) →
      (after = [] ∨ ∃ h t, after = h :: t ∧ h.opts.group = false) →
      RunReads (Respell.splitOn comma p) run T asgR → (Respell.splitOn comma p).length ≤ T.length →
      ReadsG after [] ps asg → ReadsG (run ++ after) [] (p :: ps) (asgR ++ asg)

theorem conv_loop (n : Nat) (st' : LoopSt) (hfin : FinalOK st') :
    ∀ (k : Nat) (fs : List FieldInfo) (glue : Bytes) (ps : List Bytes) (frags : List Frag) (nv nr : Int)
      (out : Vals), fs.length ≤ k → (∀ f ∈ fs, fieldOk f = true) → inlineOk fs = true → GNames fs →
    EndsRequired fs →
    (glue ≠ [] → ∀ f, fs.head? = some f → f.opts.omitEmpty = false ∧ f.opts.group = false) →
    loopFields n fs (mkSt frags nv nr out) = .ok st' → Accepts4.Pre glue ps frags →
    ∃ asg, ReadsG fs glue ps asg ∧ st'.out = out ++ asg := by
  intro k
  induction k with
  | zero =>
    intro fs glue ps frags nv nr out hlen _ _ _ _ _ hl hpre
    have hfs : fs = [] := List.eq_nil_of_length_eq_zero (Nat.le_zero.1 hlen)
    subst hfs
    rw [loop_nil_iff] at hl
    subst hl
    have hfr : frags = [] := by simpa [FinalOK, mkSt] using hfin
    subst hfr
    obtain ⟨hg, hrel⟩ := hpre
    have := Accepts.fragsRel_nil ps hrel
    subst this; subst hg
    exact ⟨[], .nil, by simp [mkSt]⟩
  | succ k ih =>
    intro fs glue ps frags nv nr out hlen hok hio hgn hend hglue hl hpre
    cases fs with
    | nil =>
      rw [loop_nil_iff] at hl
      subst hl
      have hfr : frags = [] := by simpa [FinalOK, mkSt] using hfin
      subst hfr
      obtain ⟨hg, hrel⟩ := hpre
      have := Accepts.fragsRel_nil ps hrel
      subst this; subst hg
      exact ⟨[], .nil, by simp [mkSt]⟩
    | cons f fs =>
      have hf := hok f (by simp)
      obtain ⟨hcore, hopt, hgrp⟩ := fieldOk_parts f hf
      have hok' : ∀ g ∈ fs, fieldOk g = true := fun g hg' => hok g (by simp [hg'])
      have hio' := inlineOk_tail f fs hio
      have hgn' := gnames_tail f fs hgn
      have hend' := endsRequired_tail f fs hend
      have hlen' : fs.length ≤ k := by simpa using hlen
      cases hg : f.opts.group with
      | false =>
        -- a stand-alone field, as in `Accepts6`
        have hplain : f.opts.inline = false → ∀ (v : VNode) (rest : List Frag) (fv : FVal) (rem : Bytes)
            (nv' nr' : Int), frags = .value v :: rest → KeyOK f v.val →
            readField f v.fin v.val = .ok (fv, rem) →
            loopFields n fs (mkSt rest nv' nr' (out ++ [(f.index, fv)])) = .ok st' →
            (f.opts.omitEmpty = true → glue = []) →
            ∃ asg, ReadsG (f :: fs) glue ps asg ∧ st'.out = out ++ asg := by
          intro hi v rest fv rem nv' nr' hfr hkey hr hl' hog
          subst hfr
          obtain ⟨ps', rfl, hc, hrel⟩ := hpre
          obtain ⟨asg, hreads, hout⟩ := ih fs [] ps' rest _ _ _ hlen' hok' hio' hgn' hend'
            (fun h => absurd rfl h) hl' (Accepts4.pre_of_rel ps' rest hrel)
          exact ⟨(f.index, fv) :: asg, .read f fs glue v.val ps' fv asg hg hi hc hkey ⟨v.fin, rem, hr⟩ hog hreads,
            by rw [hout]; simp⟩
        cases ho : f.opts.omitEmpty with
        | false =>
          cases hi : f.opts.inline with
          | false =>
            obtain ⟨v, rest, fv, rem, hfr, hkey, hr, hl'⟩ := (loop_req n f fs frags nv nr out st' hg ho hi).1 hl
            exact hplain hi v rest fv rem _ _ hfr hkey hr hl' (fun h => by rw [ho] at h; cases h)
          | true =>
            obtain ⟨v, rest, fv, rem, hfr, hkey, hr, hl'⟩ :=
              (loop_req_inline n f fs frags nv nr out st' hg ho hi).1 hl
            subst hfr
            obtain ⟨ps', rfl, hc, hrel⟩ := hpre
            obtain ⟨-, hcur, -⟩ := Accepts4.read_inline f v.fin v.val fv rem hcore hi hr
            obtain ⟨-, g, rest', hrest, -, hgg, hgo⟩ := inlineOk_next f fs hio hi
            have hpre' : Accepts4.Pre (glue ++ v.val.take f.opts.length) ((glue ++ v.val) :: ps')
                (.value { v with val := rem } :: rest) := by
              refine ⟨ps', ?_, ?_, hrel⟩
              · show (glue ++ v.val) :: ps' = (glue ++ v.val.take f.opts.length ++ rem) :: ps'
                rw [List.append_assoc, ← hcur]
              · show comma ∉ glue ++ v.val.take f.opts.length ++ rem
                rw [List.append_assoc, ← hcur]; exact hc
            obtain ⟨asg, hreads, hout⟩ := ih fs _ _ _ _ _ _ hlen' hok' hio' hgn' hend'
              (fun _ g' hg' => by
                rw [hrest] at hg'
                simp only [List.head?_cons, Option.some.injEq] at hg'
                rw [← hg']; exact ⟨hgo, hgg⟩)
              hl' hpre'
            exact ⟨(f.index, fv) :: asg, .readInl f fs glue v.val ps' fv asg hg hi hc hkey ⟨v.fin, rem, hr⟩ hreads,
              by rw [hout]; simp⟩
        | true =>
          obtain ⟨hi, -⟩ := hopt ho
          have hg0 : glue = [] := by
            cases hgl : glue with
            | nil => rfl
            | cons c cs =>
              have := (hglue (by rw [hgl]; simp) f rfl).1
              rw [ho] at this; cases this
          rcases Accepts6.loop_opt_inv n f fs frags nv nr out st' ho hg hi hl with
            ⟨nv', hl'⟩ | ⟨v, rest, fv, rem, hfr, hkey, hr, hl'⟩
          · obtain ⟨asg, hreads, hout⟩ := ih fs glue ps frags nv' nr out hlen' hok' hio' hgn' hend'
              (fun h => absurd hg0 h) hl' hpre
            exact ⟨asg, .skip f fs glue ps asg hg ho hreads, hout⟩
          · exact hplain hi v rest fv rem _ _ hfr hkey hr hl' (fun _ => hg0)
      | true =>
        -- a run of grouped parameters
        have hg0 : glue = [] := by
          cases hgl : glue with
          | nil => rfl
          | cons c cs =>
            have := (hglue (by rw [hgl]; simp) f rfl).2
            rw [hg] at this; cases this
        subst hg0
        obtain ⟨run, after, hta⟩ : ∃ run after, takeGroupRun (f :: fs) = (run, after) := ⟨_, _, rfl⟩
        have hspec := takeGroupRun_spec (f :: fs)
        rw [hta] at hspec
        obtain ⟨hsplit, hrunG, hafter⟩ := hspec
        simp only at hsplit hrunG hafter
        have hne : run ≠ [] := by
          intro e
          have : (takeGroupRun (f :: fs)).1 ≠ [] := by simp [takeGroupRun, hg]
          rw [hta] at this
          exact this e
        rw [hsplit] at hok hio hgn hend hl hlen ⊢
        have hane : after ≠ [] := by
          intro e
          subst e
          rw [List.append_nil] at hend
          obtain ⟨l, hl'⟩ : ∃ l, run.getLast? = some l := by
            cases hgl : run.getLast? with
            | none => exact absurd (List.getLast?_eq_none_iff.1 hgl) hne
            | some l => exact ⟨l, rfl⟩
          have := (hend l hl').1
          rw [hrunG l (List.mem_of_getLast? hl')] at this
          cases this
        obtain ⟨h, t, hat, hh⟩ : ∃ h t, after = h :: t ∧ h.opts.group = false := by
          rcases hafter with e | e
          · exact absurd e hane
          · exact e
        have hmem : ∀ x ∈ run, x.opts.group = true ∧ x.opts.inline = false ∧ equals ∉ x.opts.param := by
          intro x hx
          obtain ⟨-, -, hgrp'⟩ := fieldOk_parts x (hok x (by simp [hx]))
          obtain ⟨-, hxi, hxe⟩ := hgrp' (hrunG x hx)
          exact ⟨hrunG x hx, hxi, hxe⟩
        obtain ⟨hnd, hgnA⟩ := gnames_run run after hrunG hgn
        have hokA : ∀ g ∈ after, fieldOk g = true := fun g hg' => hok g (by simp [hg'])
        have hioA := inlineOk_append run after hio
        have hendA := endsRequired_append run after hane hend
        have hlenA : after.length ≤ k := by
          have h2 : 0 < run.length := List.length_pos_iff.2 hne
          simp only [List.length_append] at hlen
          omega
        rcases run_none n after nr st' run frags nv out hmem hnd hl with
          ⟨hall, nv', hl'⟩ | ⟨v, rest, nv', T, asgR, hfr, hR, hT, hl'⟩ | ⟨vs, rest, nv', T, asgR, hfr, hR, hl'⟩
        · -- nothing assigned
          obtain ⟨asg, hreads, hout⟩ := ih after [] ps frags nv' nr out hlenA hokA hioA hgnA hendA
            (fun h' => absurd rfl h') hl' hpre
          exact ⟨asg, .runNone run after ps asg hne (fun x hx => ⟨hrunG x hx, hall x hx⟩) hafter hreads, hout⟩
        · -- a lone value
          subst hfr
          obtain ⟨ps', hps, hc, hrel⟩ := hpre
          simp only [List.nil_append] at hps hc
          subst hps
          rw [hat] at hl'
          obtain ⟨-, hl''⟩ := (loop_close n h t _ [v] 0 nv' nr _ st' hh).1 hl'
          simp only [List.tail_cons] at hl''
          rw [← hat] at hl''
          obtain ⟨asg, hreads, hout⟩ := ih after [] ps' rest nv' nr _ hlenA hokA hioA hgnA hendA
            (fun h' => absurd rfl h') hl'' (Accepts4.pre_of_rel ps' rest hrel)
          have hsp : Respell.splitOn comma v.val = [v.val] :=
            splitOn_plain comma _ (fun c hc' e' => hc (e' ▸ hc'))
          refine ⟨asgR ++ asg, .runSome run after v.val ps' T asgR asg hne hrunG hafter (by rw [hsp]; exact hR)
            (by rw [hsp, hT]; simp) hreads, ?_⟩
          rw [hout]; simp
        · -- a group fragment
          subst hfr
          obtain ⟨-, hrel⟩ := hpre
          cases ps with
          | nil => simp [FragsRel] at hrel
          | cons p ps' =>
            obtain ⟨fr, frs, hcons, hprel, hrel'⟩ := hrel
            simp only [List.cons.injEq] at hcons
            obtain ⟨rfl, rfl⟩ := hcons
            obtain ⟨-, hvals⟩ := hprel
            rw [hat] at hl'
            obtain ⟨hz, hl''⟩ := (loop_close n h t _ vs _ nv' nr _ st' hh).1 hl'
            simp only [List.tail_cons] at hl''
            rw [← hat] at hl''
            by_cases hps' : ps' = []
            · -- the group fragment would be the last one: a required field follows, contradiction
              exfalso
              subst hps'
              have hrest : rest = [] := hrel'
              subst hrest
              have hopt' := loop_eof_optional n st' after nv' nr _ hl''
              obtain ⟨l, hl3⟩ : ∃ l, after.getLast? = some l := by
                cases hgl : after.getLast? with
                | none => exact absurd (List.getLast?_eq_none_iff.1 hgl) hane
                | some l => exact ⟨l, rfl⟩
              have h1 := (hendA l hl3).2
              rw [hopt' l (List.mem_of_getLast? hl3)] at h1
              cases h1
            · have hvs : vs.map (·.val) = Respell.splitOn comma p := hvals (by simpa using hps')
              obtain ⟨asg, hreads, hout⟩ := ih after [] ps' rest nv' nr _ hlenA hokA hioA hgnA hendA
                (fun h' => absurd rfl h') hl'' (Accepts4.pre_of_rel ps' rest hrel')
              refine ⟨asgR ++ asg, .runSome run after p ps' T asgR asg hne hrunG hafter (by rw [← hvs]; exact hR)
                ?_ hreads, ?_⟩
              · rw [← hvs, List.length_map]; omega
              · rw [hout]; simp

/-! ## `align` on what the loop did -/

theorem readsG_keys {fs : List FieldInfo} {glue : Bytes} {ps : List Bytes} {asg : Vals}
    (h : ReadsG fs glue ps asg) : (asg.map (·.1)).Sublist (fs.map (·.index)) := by
  induction h with
  | nil => exact List.Sublist.slnil
  | skip f fs glue ps asg _ _ _ ih => exact List.Sublist.cons _ ih
  | read f fs glue cur ps v asg _ _ _ _ _ _ _ ih =>
    simp only [List.map_cons]; exact List.Sublist.cons_cons _ ih
  | readInl f fs glue cur ps v asg _ _ _ _ _ _ ih =>
    simp only [List.map_cons]; exact List.Sublist.cons_cons _ ih
  | runNone run after ps asg _ _ _ _ ih =>
    rw [List.map_append]
    exact ih.trans (List.sublist_append_right _ _)
  | runSome run after p ps T asgR asg _ _ _ hR _ _ ih =>
    rw [List.map_append, List.map_append]
    exact List.Sublist.append (runReads_keys _ _ _ _ hR) ih

theorem takeGroupRun_append : ∀ (run after : List FieldInfo), (∀ f ∈ run, f.opts.group = true) →
    (after = [] ∨ ∃ h t, after = h :: t ∧ h.opts.group = false) → takeGroupRun (run ++ after) = (run, after)
  | [], after, _, hafter => by
    rcases hafter with rfl | ⟨h, t, rfl, hh⟩
    · rfl
    · simp [takeGroupRun, hh]
  | f :: run, after, hrun, hafter => by
    have ih := takeGroupRun_append run after (fun g hg => hrun g (by simp [hg])) hafter
    simp [takeGroupRun, hrun f (by simp), ih]

/-- `align` over a run none of whose members is written. -/
theorem align_run_none (vals : Vals) (fuel : Nat) (run after : List FieldInfo) (frags : List (List Bytes))
    (glue : Bytes) (hne : run ≠ []) (hrun : ∀ f ∈ run, f.opts.group = true)
    (hafter : after = [] ∨ ∃ h t, after = h :: t ∧ h.opts.group = false)
    (hany : anyEmitted vals run = false) (h2 : align vals fuel after frags glue = true) :
    align vals (fuel + 1) (run ++ after) frags glue = true := by
  have hta := takeGroupRun_append run after hrun hafter
  cases run with
  | nil => exact absurd rfl hne
  | cons f run' =>
    have hg := hrun f (by simp)
    rw [List.cons_append] at hta ⊢
    rw [align.eq_def]
    simp only [hg, if_true, hta]
    cases frags with
    | nil => simp [hany, h2]
    | cons ms frs => simp [hany, h2]

/-- `align` over a run written as one fragment. -/
theorem align_run_some (vals : Vals) (fuel : Nat) (run after : List FieldInfo) (ms : List Bytes)
    (frs : List (List Bytes)) (hne : run ≠ []) (hrun : ∀ f ∈ run, f.opts.group = true)
    (hafter : after = [] ∨ ∃ h t, after = h :: t ∧ h.opts.group = false)
    (hmatch : matchGroup vals [] run ms = true) (h2 : align vals fuel after frs [] = true) :
    align vals (fuel + 1) (run ++ after) (ms :: frs) [] = true := by
  have hta := takeGroupRun_append run after hrun hafter
  cases run with
  | nil => exact absurd rfl hne
  | cons f run' =>
    have hg := hrun f (by simp)
    rw [List.cons_append] at hta ⊢
    rw [align.eq_def]
    simp only [hg, if_true, hta, hmatch, ite_self, h2, Bool.and_self, Bool.true_or]

theorem align_readsG (vals : Vals) {fs : List FieldInfo} {glue : Bytes} {ps : List Bytes} {asg : Vals}
    (h : ReadsG fs glue ps asg) : ∀ (fuel : Nat), (∀ f ∈ fs, fieldOk f = true) → (fs.map (·.index)).Nodup →
    GNames fs →
    (∀ x ∈ asg, ∀ f ∈ fs, f.index = x.1 → fieldVal vals f = x.2) →
    (∀ f ∈ fs, (∀ x ∈ asg, x.1 ≠ f.index) → fieldVal vals f = zeroOf f.kind f.ptrDepth) →
    fs.length < fuel → align vals fuel fs (ps.map (Respell.splitOn comma)) glue = true := by
  induction h with
  | nil =>
    intro fuel _ _ _ _ _ hfuel
    obtain ⟨k, rfl⟩ : ∃ k, fuel = k + 1 := ⟨fuel - 1, by simp at hfuel; omega⟩
    exact align_nil vals k
  | skip f fs glue ps asg hg ho hreads ih =>
    intro fuel hok hnd hgn hv hz hfuel
    obtain ⟨k, rfl⟩ : ∃ k, fuel = k + 1 := ⟨fuel - 1, by simp at hfuel; omega⟩
    obtain ⟨hcore, hopt, -⟩ := fieldOk_parts f (hok f (by simp))
    simp only [List.map_cons, List.nodup_cons, List.mem_map, not_exists, not_and] at hnd
    have hna : ∀ x ∈ asg, x.1 ≠ f.index := by
      intro x hx e'
      have : x.1 ∈ fs.map (·.index) := (readsG_keys hreads).subset (List.mem_map.2 ⟨x, hx, rfl⟩)
      obtain ⟨g, hg', hge⟩ := List.mem_map.1 this
      exact hnd.1 g hg' (by rw [hge, e'])
    have hfv := hz f (by simp) hna
    have hem : emitted vals f = false := by
      rw [Accepts6.emitted_eq vals f _ hfv, ho, Accepts6.zero_omitted f hcore (hopt ho).2]; rfl
    refine align_omit_absent vals k f fs _ glue hg hem ?_
    exact ih k (fun g hg' => hok g (by simp [hg'])) hnd.2 (gnames_tail f fs hgn)
      (fun x hx g hg' hge => hv x hx g (by simp [hg']) hge)
      (fun g hg' hna' => hz g (by simp [hg']) hna') (by simp at hfuel; omega)
  | read f fs glue cur ps v asg hg hi hc hkey hr hog hreads ih =>
    intro fuel hok hnd hgn hv hz hfuel
    obtain ⟨k, rfl⟩ : ∃ k, fuel = k + 1 := ⟨fuel - 1, by simp at hfuel; omega⟩
    obtain ⟨e, rem, hr⟩ := hr
    obtain ⟨hcore, hopt, -⟩ := fieldOk_parts f (hok f (by simp))
    simp only [List.map_cons, List.nodup_cons, List.mem_map, not_exists, not_and] at hnd
    have hfv : fieldVal vals f = v := hv (f.index, v) (by simp) f (by simp) rfl
    have ih' := ih k (fun g hg' => hok g (by simp [hg'])) hnd.2 (gnames_tail f fs hgn)
      (fun x hx g hg' hge => hv x (by simp [hx]) g (by simp [hg']) hge)
      (fun g hg' hna => hz g (by simp [hg']) (by
        intro x hx
        simp only [List.mem_cons] at hx
        rcases hx with rfl | hx
        · exact fun e' => hnd.1 g hg' e'.symm
        · exact hna x hx)) (by simp at hfuel; omega)
    have hsp : Respell.splitOn comma (glue ++ cur) = [glue ++ cur] :=
      splitOn_plain comma _ (fun c hc' e' => hc (e' ▸ hc'))
    simp only [List.map_cons, hsp]
    by_cases hem : emitted vals f = true
    · obtain ⟨t, hm, hmem⟩ := Accepts4.read_memberIs f e glue cur v rem hcore hi hkey hr
      exact align_req vals k f fs _ _ glue t hg hem (by rw [hfv]; exact hm) hi hmem ih'
    · simp only [Bool.not_eq_true] at hem
      have ho := omitEmpty_of_omitted vals f hem
      have he : isEmptyVal f v = true := by
        rw [Accepts6.emitted_eq vals f v hfv, ho] at hem
        simpa using hem
      have hg0 := hog ho
      subst hg0
      have hmz := Accepts6.read_memberIsZero f e cur v rem hcore (hopt ho).2 hi hkey hr he
      simp only [List.nil_append] at hmz ⊢
      exact align_omit_zero vals k f fs cur _ hg hem hmz ih'
  | readInl f fs glue cur ps v asg hg hi hc hkey hr hreads ih =>
    intro fuel hok hnd hgn hv hz hfuel
    obtain ⟨k, rfl⟩ : ∃ k, fuel = k + 1 := ⟨fuel - 1, by simp at hfuel; omega⟩
    obtain ⟨e, rem, hr⟩ := hr
    obtain ⟨hcore, hopt, -⟩ := fieldOk_parts f (hok f (by simp))
    simp only [List.map_cons, List.nodup_cons, List.mem_map, not_exists, not_and] at hnd
    have hfv : fieldVal vals f = v := hv (f.index, v) (by simp) f (by simp) rfl
    have ho : f.opts.omitEmpty = false := by
      cases ho : f.opts.omitEmpty with
      | false => rfl
      | true => rw [(hopt ho).1] at hi; cases hi
    have hem := GoCrypt.Codec.emitted_of_required vals f ho
    obtain ⟨hp, -, hm⟩ := Accepts4.read_inline f e cur v rem hcore hi hr
    refine align_inline vals k f fs _ glue (cur.take f.opts.length) hg hem (by rw [hfv]; exact hm) hi ?_
    have hn : named f (cur.take f.opts.length) = cur.take f.opts.length := by simp [named, hp]
    rw [hn]
    exact ih k (fun g hg' => hok g (by simp [hg'])) hnd.2 (gnames_tail f fs hgn)
      (fun x hx g hg' hge => hv x (by simp [hx]) g (by simp [hg']) hge)
      (fun g hg' hna => hz g (by simp [hg']) (by
        intro x hx
        simp only [List.mem_cons] at hx
        rcases hx with rfl | hx
        · exact fun e' => hnd.1 g hg' e'.symm
        · exact hna x hx)) (by simp at hfuel; omega)
  | runNone run after ps asg hne hrun hafter hreads ih =>
    intro fuel hok hnd hgn hv hz hfuel
    obtain ⟨k, rfl⟩ : ∃ k, fuel = k + 1 := ⟨fuel - 1, by simp at hfuel; omega⟩
    rw [List.map_append] at hnd
    obtain ⟨hndR, hndA, hdisj⟩ := List.nodup_append.1 hnd
    have hrunG : ∀ f ∈ run, f.opts.group = true := fun f hf => (hrun f hf).1
    -- no member of the run is assigned: all are omitted
    have hany : anyEmitted vals run = false := by
      unfold anyEmitted
      rw [List.any_eq_false]
      intro f hf
      obtain ⟨hcore, hopt, -⟩ := fieldOk_parts f (hok f (by simp [hf]))
      have ho := (hrun f hf).2
      have hna : ∀ x ∈ asg, x.1 ≠ f.index := by
        intro x hx e'
        have : x.1 ∈ after.map (·.index) := (readsG_keys hreads).subset (List.mem_map.2 ⟨x, hx, rfl⟩)
        exact hdisj f.index (List.mem_map.2 ⟨f, hf, rfl⟩) x.1 this e'.symm
      have hfv := hz f (by simp [hf]) hna
      have hfv' : (getVal vals f.index).getD (zeroOf f.kind f.ptrDepth) = zeroOf f.kind f.ptrDepth := hfv
      simp [hfv', ho, Accepts6.zero_omitted f hcore (hopt ho).2]
    have hlen : after.length < k := by
      have h2 : 0 < run.length := List.length_pos_iff.2 hne
      simp only [List.length_append] at hfuel; omega
    refine align_run_none vals k run after _ [] hne hrunG hafter hany ?_
    exact ih k (fun g hg' => hok g (by simp [hg'])) hndA (gnames_run run after hrunG hgn).2
      (fun x hx g hg' hge => hv x hx g (by simp [hg']) hge)
      (fun g hg' hna => hz g (by simp [hg']) hna) hlen
  | runSome run after p ps T asgR asg hne hrunG hafter hR hlenT hreads ih =>
    intro fuel hok hnd hgn hv hz hfuel
    obtain ⟨k, rfl⟩ : ∃ k, fuel = k + 1 := ⟨fuel - 1, by simp at hfuel; omega⟩
    rw [List.map_append] at hnd
    obtain ⟨hndR, hndA, hdisj⟩ := List.nodup_append.1 hnd
    obtain ⟨hnames, hgnA⟩ := gnames_run run after hrunG hgn
    have hmem : ∀ f ∈ run, MemberOk f := fun f hf => memberOk_of f (hok f (by simp [hf])) (hrunG f hf)
    have hkR := runReads_keys _ _ _ _ hR
    have hkA := readsG_keys hreads
    -- the members are a permutation of the texts taken
    have hperm : (Respell.splitOn comma p).Perm T :=
      perm_of_nodup_subset T _
        (runReads_T_nodup _ _ _ _ hR (fun f hf => (hmem f hf).2.2.2.2.2) hnames)
        (fun a ha => (runReads_T_keys _ _ _ _ hR a ha).choose_spec.2.2) hlenT
    have hmatch : matchGroup vals [] run (Respell.splitOn comma p) = true := by
      refine matchGroup_reads vals _ run T asgR _ hR hmem hnames hndR
        (fun x hx f hf hfe => hv x (by simp [hx]) f (by simp [hf]) hfe) ?_ hperm
      intro f hf hna
      refine hz f (by simp [hf]) ?_
      intro x hx
      rcases List.mem_append.1 hx with hx | hx
      · exact hna x hx
      · intro e'
        have : x.1 ∈ after.map (·.index) := hkA.subset (List.mem_map.2 ⟨x, hx, rfl⟩)
        exact hdisj f.index (List.mem_map.2 ⟨f, hf, rfl⟩) x.1 this e'.symm
    have hlen : after.length < k := by
      have h2 : 0 < run.length := List.length_pos_iff.2 hne
      simp only [List.length_append] at hfuel; omega
    simp only [List.map_cons]
    refine align_run_some vals k run after _ _ hne hrunG hafter hmatch ?_
    refine ih k (fun g hg' => hok g (by simp [hg'])) hndA hgnA
      (fun x hx g hg' hge => hv x (by simp [hx]) g (by simp [hg']) hge) ?_ hlen
    intro g hg' hna
    refine hz g (by simp [hg']) ?_
    intro x hx
    rcases List.mem_append.1 hx with hx | hx
    · intro e'
      have : x.1 ∈ run.map (·.index) := hkR.subset (List.mem_map.2 ⟨x, hx, rfl⟩)
      exact hdisj x.1 this g.index (List.mem_map.2 ⟨g, hg', rfl⟩) e'
    · exact hna x hx

/-! ## The theorem -/

theorem loopInverts (ti : TypeInfo) (hok : ∀ f ∈ ti.fields, fieldOk f = true) (hio : inlineOk ti.fields = true)
    (hgn : GNames ti.fields) (hend : EndsRequired ti.fields) (hnd : (ti.fields.map (·.index)).Nodup) :
    Accepts6.LoopInverts ti := by
  intro n ps frags out0 st' hl hrel hfin
  obtain ⟨asg, hreads, hout⟩ := conv_loop n st' hfin ti.fields.length ti.fields [] ps frags _ _ out0 (Nat.le_refl _)
    hok hio hgn hend (fun h => absurd rfl h) hl (Accepts4.pre_of_rel ps frags hrel)
  have hkeys := readsG_keys hreads
  refine ⟨asg, hout, ?_, hkeys.nodup hnd, fun vals hv hz =>
    align_readsG vals hreads _ hok hnd hgn hv hz (by omega)⟩
  intro x hx
  have : x.1 ∈ ti.fields.map (·.index) := hkeys.subset (List.mem_map.2 ⟨x, hx, rfl⟩)
  obtain ⟨f, hf, hfe⟩ := List.mem_map.1 this
  exact ⟨f, hf, hfe⟩

/-- C20 for struct types with parameter groups that end with a required stand-alone field. -/
theorem accepted_respell (ti : TypeInfo) (h : Bytes) (out : Vals) (hs : acceptOk ti = true)
    (hu : unmarshal ti h = .ok out) : respell ti (finalVals ti out) h = true := by
  simp only [acceptOk, Bool.and_eq_true, List.all_eq_true, decide_eq_true_eq] at hs
  obtain ⟨⟨⟨⟨⟨hok, hio⟩, hgn⟩, hlast⟩, hpfx⟩, hnd⟩ := hs
  have hndf : (ti.fields.map (·.index)).Nodup := by
    have := hnd
    rw [List.map_append] at this
    exact (List.nodup_append.1 this).2.1
  have hend : EndsRequired ti.fields := by
    intro l hl
    simpa [hl] using hlast
  exact Accepts6.accepted_respell_gen ti h out hpfx hnd (loopInverts ti hok hio hgn hend hndf) hu

/-! ## On the ladder of the round trip -/

/-- What the acceptance direction needs beyond `L6.shapeOk`: consistent `length:` options, optional fields
that can be spelled as zero, a required stand-alone field at the end. -/
def extraOk (ti : TypeInfo) : Bool :=
  Accepts4.lengthsOk ti && ti.fields.all (fun f => !f.opts.omitEmpty || Accepts6.optOk f) &&
  (match ti.fields.getLast? with | some l => !l.opts.group && !l.opts.omitEmpty | none => true)

theorem acceptOk_of_L6 (ti : TypeInfo) (hs : L6.shapeOk ti = true) (hx : extraOk ti = true) :
    acceptOk ti = true := by
  simp only [L6.shapeOk, Bool.and_eq_true] at hs
  obtain ⟨⟨hwf, hu⟩, -⟩ := hs
  have U := unambiguous_facts ti hu
  have hio := U.inl
  have hnp := inlineOk_noParam ti.fields hio
  simp only [tiWf, Bool.and_eq_true, List.all_eq_true, decide_eq_true_eq] at hwf
  obtain ⟨⟨⟨⟨hfw, hpf⟩, hnd⟩, hpn⟩, -⟩ := hwf
  simp only [extraOk, Accepts4.lengthsOk, Bool.and_eq_true, List.all_eq_true, Bool.or_eq_true,
    Bool.not_eq_eq_eq_not, Bool.not_true] at hx
  obtain ⟨⟨⟨hlen, hpl⟩, hopt⟩, hlast⟩ := hx
  simp only [acceptOk, Bool.and_eq_true, List.all_eq_true, decide_eq_true_eq]
  refine ⟨⟨⟨⟨⟨fun f hf => ?_, hio⟩, ?_⟩, hlast⟩, ?_⟩, hnd⟩
  · have h1 := hfw f hf
    have h3 := hlen f hf
    have ho := hopt f hf
    simp only [fieldWf, validOpts, Bool.and_eq_true, Bool.or_eq_true, Bool.not_eq_eq_eq_not, Bool.not_true,
      decide_eq_true_eq] at h1
    obtain ⟨⟨⟨⟨⟨⟨⟨hoi, hgp⟩, -⟩, -⟩, hpfx⟩, hil⟩, hb⟩, hc⟩ := h1
    have hinl : (!f.opts.inline || (f.opts.param == [] && f.opts.hasLength)) = true := by
      cases hi : f.opts.inline with
      | false => rfl
      | true =>
        have hp := hnp f hf hi
        rcases hil with h | h
        · rw [hi] at h; cases h
        · simp [hp, h]
    have hopt' : (!f.opts.omitEmpty || (!f.opts.inline && Accepts6.optOk f)) = true := by
      cases hom : f.opts.omitEmpty with
      | false => rfl
      | true =>
        rcases hoi with h | h
        · rw [hom] at h; cases h
        · rcases ho with h' | h'
          · rw [hom] at h'; cases h'
          · simp [h, h']
    have hgrp : (!f.opts.group || (f.opts.param != [] && !f.opts.inline && f.opts.param.all isAlnum)) = true := by
      cases hg : f.opts.group with
      | false => rfl
      | true =>
        have hp : f.opts.param ≠ [] := by
          rcases hgp with h | h
          · rw [hg] at h; cases h
          · exact h
        have hi : f.opts.inline = false := by
          cases hi : f.opts.inline with
          | false => rfl
          | true => exact absurd (hnp f hf hi) hp
        simp [hp, hi, U.alnum f hf hp]
    simp only [fieldOk, Accepts4.coreOk, hpfx, hb, hc, h3, hinl, hopt', hgrp, Bool.not_false, Bool.and_self]
  · -- the names of grouped parameters are among the distinct parameter names
    have hsub : ((ti.fields.filter (·.opts.group)).map (·.opts.param)).Sublist (paramNames ti.fields) := by
      unfold paramNames
      apply List.Sublist.map
      have : ti.fields.filter (·.opts.group) =
          (ti.fields.filter (fun f => f.opts.param ≠ [])).filter (·.opts.group) := by
        rw [List.filter_filter]
        apply List.filter_congr
        intro f hf
        cases hg : f.opts.group with
        | false => simp
        | true =>
          have := group_param_ne f (hfw f hf) hg
          simp [this]
      rw [this]
      exact List.filter_sublist
    exact hsub.nodup hpn
  · cases hhp : ti.hashPrefix with
    | none => rfl
    | some hp =>
      simp only [hhp] at hpf hpl
      simp [hpf, hpl]

/-- C20 on layer L6 for struct types that end with a required stand-alone field. -/
theorem accepted_respell_L6 (ti : TypeInfo) (h : Bytes) (out : Vals) (hs : L6.shapeOk ti = true)
    (hx : extraOk ti = true) (hu : unmarshal ti h = .ok out) :
    respell ti (finalVals ti out) h = true :=
  accepted_respell ti h out (acceptOk_of_L6 ti hs hx) hu

end Accepts7

end GoCrypt.Codec
