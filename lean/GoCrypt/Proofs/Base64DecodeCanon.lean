import GoCrypt.Proofs.Base64DecodeLoop

/-!
# Decoder vs reference, part 4: what the reference accepts

Consequences of `refDecode e text = .ok b`, by reasoning on the reference alone: the shape of the
text, `regroup` against `Base64Bits.specEncode`, rejection of foreign bytes.
-/

namespace GoCrypt.Base64LE
open GoCrypt.Gen.base64le GoCrypt.Spec.Base64Bits GoCrypt.Spec.Base64Ref

/-! ## Shape of an accepted text -/

/-- The padding that must follow `k` symbols of a final quantum. -/
def padsFor (e : Encoding) (k : Nat) : Bytes := if k % 4 = 0 then [] else padBytes e (4 - k % 4)

theorem checkUnused_ok {e : Encoding} {D : List Nat} {stop : Nat} {v : Except Nat Bytes} {b : Bytes}
    (h : checkUnused e D stop v = .ok b) : v = .ok b ∧ (e.strict = true → unusedBits D = 0) := by
  unfold checkUnused at h
  split at h
  · cases h
  · next hn =>
    refine ⟨h, fun hs => ?_⟩
    exact Classical.byContradiction fun hne => hn ⟨hs, hne⟩

theorem unusedBits_whole (D : List Nat) (h : D.length % 4 = 0) : unusedBits D = 0 := by
  have : D.length / 4 * 4 = D.length := by omega
  simp [unusedBits, lastPartial, this, leValue]

theorem verdict_ok {e : Encoding} {len : Nat} {D : List Nat} {T : List (UInt8 × Nat)} {b : Bytes}
    (h : verdict e len D T = .ok b) :
    b = regroup D ∧ D.length % 4 ≠ 1 ∧ T.map (·.1) = padsFor e D.length ∧
    (e.strict = true → unusedBits D = 0) := by
  unfold verdict at h
  match T with
  | [] =>
    simp only at h
    split at h
    · next hk =>
      simp only [Except.ok.injEq] at h
      exact ⟨h.symm, by omega, by simp [padsFor, hk], fun _ => unusedBits_whole D hk⟩
    · next hk =>
      split at h
      · cases h
      · next hk1 =>
        obtain ⟨hv, hs⟩ := checkUnused_ok h
        simp only [Except.ok.injEq] at hv
        have hp : e.pad = none := by
          cases hp : e.pad with
          | none => rfl
          | some p => simp [hp] at hk1
        exact ⟨hv.symm, by omega, by simp [padsFor, hk, padBytes, hp], hs⟩
  | (c, i) :: more =>
    simp only at h
    split at h
    · cases h
    · next hc =>
      have hcp : e.pad = some c := by
        have : isPadding e c = true := by
          cases hh : isPadding e c
          · simp [hh] at hc
          · rfl
        exact (isPadding_iff e c).1 this
      split at h
      · next hk3 =>
        match more with
        | [] =>
          obtain ⟨hv, hs⟩ := checkUnused_ok h
          simp only [Except.ok.injEq] at hv
          exact ⟨hv.symm, by omega, by simp [padsFor, hk3, padBytes, hcp], hs⟩
        | (_, i') :: _ =>
          obtain ⟨hv, _⟩ := checkUnused_ok h
          cases hv
      · next hk3 =>
        have hk2 : D.length % 4 = 2 := by
          have : ¬ D.length % 4 ≤ 1 := fun hh => hc (Or.inr hh)
          omega
        match more with
        | [] => cases h
        | (c', i') :: more' =>
          simp only at h
          split at h
          · cases h
          · next hc' =>
            have hcp' : c' = c := by
              have : isPadding e c' = true := by
                cases hh : isPadding e c'
                · simp [hh] at hc'
                · rfl
              have := (isPadding_iff e c').1 this
              rw [hcp] at this; cases this; rfl
            match more' with
            | [] =>
              obtain ⟨hv, hs⟩ := checkUnused_ok h
              simp only [Except.ok.injEq] at hv
              exact ⟨hv.symm, by omega, by simp [padsFor, hk2, padBytes, hcp, hcp', List.replicate], hs⟩
            | (_, i'') :: _ =>
              obtain ⟨hv, _⟩ := checkUnused_ok h
              cases hv

/-! ## `regroup` against the bit-level encoder -/

/-- Recursive form of `clearUnused`. -/
def canonDigits : List Nat → List Nat
  | d0 :: d1 :: d2 :: d3 :: rest => d0 :: d1 :: d2 :: d3 :: canonDigits rest
  | [d0, d1, d2] => [d0, d1, d2 % 16]
  | [d0, d1] => [d0, d1 % 4]
  | ds => ds

theorem clearUnused_cons4 (d0 d1 d2 d3 : Nat) (rest : List Nat) :
    clearUnused (d0 :: d1 :: d2 :: d3 :: rest) = d0 :: d1 :: d2 :: d3 :: clearUnused rest := by
  match rest with
  | [] => simp [clearUnused]
  | r :: rest' =>
    unfold clearUnused
    have hl : (d0 :: d1 :: d2 :: d3 :: r :: rest').length % 4 = (r :: rest').length % 4 := by
      simp only [List.length_cons]; omega
    rw [hl]
    simp only [List.getLast?_cons_cons, List.dropLast_cons_cons]
    split <;> simp_all

theorem canonDigits_eq : ∀ D : List Nat, canonDigits D = clearUnused D
  | [] => by simp [canonDigits, clearUnused]
  | [d0] => by simp [canonDigits, clearUnused]
  | [d0, d1] => by simp [canonDigits, clearUnused]
  | [d0, d1, d2] => by simp [canonDigits, clearUnused]
  | d0 :: d1 :: d2 :: d3 :: rest => by
    rw [canonDigits, clearUnused_cons4, canonDigits_eq rest]

theorem toNat_ofNat8 (n : Nat) : (UInt8.ofNat n).toNat = n % 256 := by
  simp [UInt8.toNat_ofNat']

theorem specEncode_regroup (al : Bytes) (pad : Option UInt8) :
    ∀ D : List Nat, (∀ d ∈ D, d < 64) → D.length % 4 ≠ 1 →
    specEncode al pad (regroup D) = (canonDigits D).map (fun d => al.getD d 0) ++
      (if D.length % 4 = 0 then [] else padding pad (4 - D.length % 4))
  | [], _, _ => by simp [regroup, leBytes, specEncode, canonDigits]
  | [d0], _, h => by simp at h
  | [d0, d1], hlt, _ => by
    have l0 : d0 < 64 := hlt d0 (by simp)
    have l1 : d1 < 64 := hlt d1 (by simp)
    rw [regroup_two]
    simp only [specEncode, symbol, digit, toNat_ofNat8, canonDigits, List.map_cons, List.map_nil,
      List.length_cons, List.length_nil]
    have e0 : (d0 + 64 * d1) % 256 % 256 / 64 ^ 0 % 64 = d0 := by omega
    have e1 : (d0 + 64 * d1) % 256 % 256 / 64 ^ 1 % 64 = d1 % 4 := by omega
    rw [e0, e1]; rfl
  | [d0, d1, d2], hlt, _ => by
    have l0 : d0 < 64 := hlt d0 (by simp)
    have l1 : d1 < 64 := hlt d1 (by simp)
    have l2 : d2 < 64 := hlt d2 (by simp)
    rw [regroup_three]
    simp only [specEncode, symbol, digit, toNat_ofNat8, canonDigits, List.map_cons, List.map_nil,
      List.length_cons, List.length_nil]
    generalize hw : d0 + 64 * (d1 + 64 * d2) = w
    have e0 : (w % 256 % 256 + 256 * (w / 256 % 256 % 256)) / 64 ^ 0 % 64 = d0 := by omega
    have e1 : (w % 256 % 256 + 256 * (w / 256 % 256 % 256)) / 64 ^ 1 % 64 = d1 := by omega
    have e2 : (w % 256 % 256 + 256 * (w / 256 % 256 % 256)) / 64 ^ 2 % 64 = d2 % 16 := by omega
    rw [e0, e1, e2]; rfl
  | d0 :: d1 :: d2 :: d3 :: rest, hlt, hk => by
    have l0 : d0 < 64 := hlt d0 (by simp)
    have l1 : d1 < 64 := hlt d1 (by simp)
    have l2 : d2 < 64 := hlt d2 (by simp)
    have l3 : d3 < 64 := hlt d3 (by simp)
    have ih := specEncode_regroup al pad rest (fun d hd => hlt d (by simp [hd]))
      (by simp only [List.length_cons] at hk; omega)
    rw [regroup_cons4, leBytes3]
    simp only [List.cons_append, List.nil_append, specEncode, symbol, digit, toNat_ofNat8, canonDigits,
      List.map_cons, ih, length_cons4_mod]
    simp only [leValue]
    generalize hw : d0 + 64 * (d1 + 64 * (d2 + 64 * (d3 + 64 * 0))) = w
    have e0 : (w % 256 % 256 + 256 * (w / 256 % 256 % 256) + 65536 * (w / 65536 % 256 % 256)) / 64 ^ 0 % 64 = d0 := by omega
    have e1 : (w % 256 % 256 + 256 * (w / 256 % 256 % 256) + 65536 * (w / 65536 % 256 % 256)) / 64 ^ 1 % 64 = d1 := by omega
    have e2 : (w % 256 % 256 + 256 * (w / 256 % 256 % 256) + 65536 * (w / 65536 % 256 % 256)) / 64 ^ 2 % 64 = d2 := by omega
    have e3 : (w % 256 % 256 + 256 * (w / 256 % 256 % 256) + 65536 * (w / 65536 % 256 % 256)) / 64 ^ 3 % 64 = d3 := by omega
    rw [e0, e1, e2, e3]

theorem canonDigits_of_unused_zero : ∀ D : List Nat, (∀ d ∈ D, d < 64) → unusedBits D = 0 →
    canonDigits D = D
  | [], _, _ => rfl
  | [d0], _, _ => rfl
  | [d0, d1], hlt, h => by
    have l0 : d0 < 64 := hlt d0 (by simp)
    rw [unusedBits_two l0] at h
    simp only [canonDigits]
    congr 2; omega
  | [d0, d1, d2], hlt, h => by
    have l0 : d0 < 64 := hlt d0 (by simp)
    have l1 : d1 < 64 := hlt d1 (by simp)
    rw [unusedBits_three l0 l1] at h
    simp only [canonDigits]
    congr 3; omega
  | d0 :: d1 :: d2 :: d3 :: rest, hlt, h => by
    rw [unusedBits_cons4] at h
    rw [canonDigits, canonDigits_of_unused_zero rest (fun d hd => hlt d (by simp [hd])) h]

/-! ## The accepted texts -/

theorem sigFrom_map_fst (s : Bytes) (off : Nat) :
    (sigFrom off s).map (·.1) = s.filter fun c => !isNewline c := by
  induction s generalizing off with
  | nil => rfl
  | cons c s ih =>
    simp only [sigFrom, List.filter_cons]
    cases isNewline c <;> simp [ih]

theorem symbolValue_lt {e : Encoding} (wf : WellFormed e) {c : UInt8} (h : isSymbol e c = true) :
    symbolValue e c < 64 := by
  unfold isSymbol at h
  rw [List.contains_iff_mem] at h
  rw [← wf.length]; exact List.idxOf_lt_length_of_mem h

theorem isSymbol_newline {e : Encoding} (wf : WellFormed e) {c : UInt8} (h : isNewline c = true) :
    isSymbol e c = false := by
  cases hs : isSymbol e c
  · rfl
  · exact absurd (dec_newline wf h) ((isSymbol_iff wf c).1 hs)

theorem isSymbol_pad {e : Encoding} (wf : WellFormed e) {c : UInt8} (h : e.pad = some c) :
    isSymbol e c = false := by
  cases hs : isSymbol e c
  · rfl
  · exact absurd (dec_pad wf h) ((isSymbol_iff wf c).1 hs)

theorem mem_padsFor {e : Encoding} {k : Nat} {c : UInt8} (h : c ∈ padsFor e k) : e.pad = some c := by
  unfold padsFor at h
  split at h
  · simp at h
  · unfold padBytes at h
    cases hp : e.pad with
    | none => simp [hp] at h
    | some p => simp [hp] at h; rw [h.2]

/-- What the reference accepts: the text without its newlines is a run of symbols with digits `D`,
not ending in a lone symbol, followed by exactly the padding its last quantum calls for; the result
is the regrouping of `D`; in strict mode the unused bits are zero. -/
theorem ref_ok_shape {e : Encoding} (wf : WellFormed e) {text b : Bytes} (h : refDecode e text = .ok b) :
    ∃ D : List Nat, (∀ d ∈ D, d < 64) ∧
      D = (text.filter (isSymbol e)).map (symbolValue e) ∧
      (text.filter fun c => !isNewline c) = D.map e.sym ++ padsFor e D.length ∧
      b = regroup D ∧ D.length % 4 ≠ 1 ∧ (e.strict = true → unusedBits D = 0) := by
  unfold refDecode refDecodeSig at h
  generalize hS : ((significant text).takeWhile fun x => isSymbol e x.1) = S at h
  generalize hT : ((significant text).dropWhile fun x => isSymbol e x.1) = T at h
  have hST : significant text = S ++ T := by
    rw [← hS, ← hT]; exact (List.takeWhile_append_dropWhile).symm
  have hSsym : ∀ x ∈ S, isSymbol e x.1 = true := by
    intro x hx; rw [← hS] at hx
    exact mem_takeWhile_sat (fun x : UInt8 × Nat => isSymbol e x.1) _ _ hx
  generalize hD : (S.map fun x => symbolValue e x.1) = D at h
  obtain ⟨hb, hk, hpads, hstrict⟩ := verdict_ok h
  have hstripped : (text.filter fun c => !isNewline c) = S.map (·.1) ++ T.map (·.1) := by
    rw [← sigFrom_map_fst text 0, ← significant_eq, hST, List.map_append]
  have hSmap : S.map (·.1) = D.map e.sym := by
    rw [← hD, List.map_map]
    apply List.map_congr_left
    intro x hx
    exact (sym_symbolValue (hSsym x hx)).symm
  have hfilter : text.filter (isSymbol e) = S.map (·.1) := by
    have h1 : text.filter (isSymbol e) = (text.filter fun c => !isNewline c).filter (isSymbol e) := by
      rw [List.filter_filter]
      apply List.filter_congr
      intro c _
      cases hn : isNewline c
      · simp
      · simp [isSymbol_newline wf hn]
    rw [h1, hstripped, List.filter_append]
    have h2 : (S.map (·.1)).filter (isSymbol e) = S.map (·.1) := by
      apply List.filter_eq_self.2
      intro c hc
      obtain ⟨x, hx, rfl⟩ := List.mem_map.1 hc
      exact hSsym x hx
    have h3 : (T.map (·.1)).filter (isSymbol e) = [] := by
      apply List.filter_eq_nil_iff.2
      intro c hc
      rw [hpads] at hc
      simp [isSymbol_pad wf (mem_padsFor hc)]
    rw [h2, h3, List.append_nil]
  have hDlt : ∀ d ∈ D, d < 64 := by
    intro d hd
    rw [← hD] at hd
    obtain ⟨x, hx, rfl⟩ := List.mem_map.1 hd
    exact symbolValue_lt wf (hSsym x hx)
  have hDeq : D = (text.filter (isSymbol e)).map (symbolValue e) := by
    rw [hfilter, List.map_map, ← hD]; rfl
  have hstr : (text.filter fun c => !isNewline c) = D.map e.sym ++ padsFor e D.length := by
    rw [hstripped, hSmap, hpads]
  exact ⟨D, hDlt, hDeq, hstr, hb, hk, hstrict⟩

/-- Encoding the bytes the reference returns gives back the symbols with the unused bits cleared,
and the same padding. -/
theorem encode_regroup (e : Encoding) (D : List Nat) (hlt : ∀ d ∈ D, d < 64) (hk : D.length % 4 ≠ 1) :
    encode e (regroup D) = (clearUnused D).map e.sym ++ padsFor e D.length := by
  rw [encode_eq_specEncode, specEncode_regroup e.alphabet e.pad D hlt hk, canonDigits_eq]
  unfold padsFor
  simp only [padBytes_eq]
  rfl

/-! ## Foreign bytes -/

theorem sigFrom_ge (s : Bytes) (off : Nat) : ∀ x ∈ sigFrom off s, off ≤ x.2 := by
  induction s generalizing off with
  | nil => intro x hx; simp [sigFrom] at hx
  | cons c s ih =>
    intro x hx
    simp only [sigFrom] at hx
    split at hx
    · have := ih (off + 1) x hx; omega
    · rcases List.mem_cons.1 hx with rfl | hx
      · exact Nat.le_refl _
      · have := ih (off + 1) x hx; omega

theorem sigFrom_sorted (s : Bytes) (off : Nat) : (sigFrom off s).Pairwise fun a b => a.2 < b.2 := by
  induction s generalizing off with
  | nil => simp [sigFrom]
  | cons c s ih =>
    simp only [sigFrom]
    split
    · exact ih (off + 1)
    · refine List.pairwise_cons.2 ⟨fun x hx => ?_, ih (off + 1)⟩
      have := sigFrom_ge s (off + 1) x hx
      simp only; omega

theorem mem_significant {text : Bytes} {i : Nat} (hi : i < text.length) (hnl : isNewline text[i] = false) :
    (text[i], i) ∈ significant text := by
  unfold significant
  rw [List.mem_filter]
  refine ⟨List.mem_zipIdx_iff_getElem?.2 (by simp [hi]), by simp [hnl]⟩

theorem checkUnused_error_le (e : Encoding) (D : List Nat) (stop : Nat) :
    ∃ off, checkUnused e D stop (.error stop) = .error off ∧ off ≤ stop := by
  unfold checkUnused
  split
  · exact ⟨_, rfl, Nat.sub_le _ _⟩
  · exact ⟨_, rfl, Nat.le_refl _⟩

/-- A significant byte that is neither a symbol nor the padding character makes the verdict an error
located at or before it. -/
theorem verdict_foreign (e : Encoding) (len : Nat) (D : List Nat) (T : List (UInt8 × Nat))
    (hsorted : T.Pairwise fun a b => a.2 < b.2) (c : UInt8) (i : Nat) (hmem : (c, i) ∈ T)
    (hpad : isPadding e c = false) :
    ∃ off, verdict e len D T = .error off ∧ off ≤ i := by
  match T, hsorted, hmem with
  | (c0, i0) :: more, hsorted, hmem =>
    have hs := List.pairwise_cons.1 hsorted
    have hi0 : i0 ≤ i := by
      rcases List.mem_cons.1 hmem with h | h
      · cases h; exact Nat.le_refl _
      · exact Nat.le_of_lt (hs.1 _ h)
    unfold verdict
    simp only
    split
    · exact ⟨i0, rfl, hi0⟩
    · next hc =>
      have hc0 : isPadding e c0 = true := by
        cases hh : isPadding e c0
        · simp [hh] at hc
        · rfl
      have hmem1 : (c, i) ∈ more := by
        rcases List.mem_cons.1 hmem with h | h
        · cases h; rw [hc0] at hpad; cases hpad
        · exact h
      split
      · match more, hs, hmem1 with
        | (c1, i1) :: more', hs, hmem1 =>
          have hs1 := List.pairwise_cons.1 hs.2
          have hi1 : i1 ≤ i := by
            rcases List.mem_cons.1 hmem1 with h | h
            · cases h; exact Nat.le_refl _
            · exact Nat.le_of_lt (hs1.1 _ h)
          obtain ⟨off, ho, hle⟩ := checkUnused_error_le e D i1
          exact ⟨off, ho, by omega⟩
      · match more, hs, hmem1 with
        | (c1, i1) :: more', hs, hmem1 =>
          have hs1 := List.pairwise_cons.1 hs.2
          have hi1 : i1 ≤ i := by
            rcases List.mem_cons.1 hmem1 with h | h
            · cases h; exact Nat.le_refl _
            · exact Nat.le_of_lt (hs1.1 _ h)
          simp only
          split
          · exact ⟨i1 - 1, rfl, by omega⟩
          · next hc1 =>
            have hc1' : isPadding e c1 = true := by
              cases hh : isPadding e c1
              · simp [hh] at hc1
              · rfl
            have hmem2 : (c, i) ∈ more' := by
              rcases List.mem_cons.1 hmem1 with h | h
              · cases h; rw [hc1'] at hpad; cases hpad
              · exact h
            match more', hs1, hmem2 with
            | (c2, i2) :: more'', hs1, hmem2 =>
              have hs2 := List.pairwise_cons.1 hs1.2
              have hi2 : i2 ≤ i := by
                rcases List.mem_cons.1 hmem2 with h | h
                · cases h; exact Nat.le_refl _
                · exact Nat.le_of_lt (hs2.1 _ h)
              obtain ⟨off, ho, hle⟩ := checkUnused_error_le e D i2
              exact ⟨off, ho, by omega⟩

theorem ref_foreign {e : Encoding} (text : Bytes) (i : Nat) (hi : i < text.length)
    (hsym : isSymbol e text[i] = false) (hnl : isNewline text[i] = false)
    (hpad : isPadding e text[i] = false) :
    ∃ off, refDecode e text = .error off ∧ off ≤ i := by
  unfold refDecode refDecodeSig
  have hmem := mem_significant hi hnl
  have hsorted : (significant text).Pairwise fun a b => a.2 < b.2 := by
    rw [significant_eq]; exact sigFrom_sorted text 0
  have hT : (text[i], i) ∈ (significant text).dropWhile fun x => isSymbol e x.1 := by
    rw [← List.takeWhile_append_dropWhile (p := fun x : UInt8 × Nat => isSymbol e x.1)
      (l := significant text)] at hmem
    rcases List.mem_append.1 hmem with h | h
    · have := mem_takeWhile_sat (fun x : UInt8 × Nat => isSymbol e x.1) _ _ h
      simp only at this; rw [hsym] at this; cases this
    · exact h
  exact verdict_foreign e text.length _ _
    (List.Pairwise.sublist (List.dropWhile_suffix _).sublist hsorted) _ _ hT hpad

theorem sigFrom_append (a b : Bytes) (off : Nat) :
    sigFrom off (a ++ b) = sigFrom off a ++ sigFrom (off + a.length) b := by
  induction a generalizing off with
  | nil => simp [sigFrom]
  | cons c a ih =>
    simp only [List.cons_append, sigFrom, List.length_cons, ih]
    have : off + 1 + a.length = off + (a.length + 1) := by omega
    split <;> simp [this]

/-- The first byte that is neither a symbol nor a newline, when it is not the padding character, is
where the error is located. -/
theorem ref_first_foreign {e : Encoding} (P R : Bytes) (c : UInt8)
    (hP : ∀ x ∈ P, isSymbol e x = true ∨ isNewline x = true)
    (hsym : isSymbol e c = false) (hnl : isNewline c = false) (hpad : isPadding e c = false) :
    refDecode e (P ++ c :: R) = .error P.length := by
  unfold refDecode refDecodeSig
  rw [significant_eq, sigFrom_append]
  have hA : ∀ x ∈ sigFrom 0 P, isSymbol e x.1 = true := by
    intro x hx
    have hm : x.1 ∈ (sigFrom 0 P).map (·.1) := List.mem_map.2 ⟨x, hx, rfl⟩
    rw [sigFrom_map_fst] at hm
    obtain ⟨hxP, hxn⟩ := List.mem_filter.1 hm
    rcases hP x.1 hxP with h | h
    · exact h
    · simp [h] at hxn
  have hB : sigFrom (0 + P.length) (c :: R) = (c, P.length) :: sigFrom (P.length + 1) R := by
    simp [sigFrom, hnl]
  rw [hB]
  have htw : ((sigFrom 0 P ++ (c, P.length) :: sigFrom (P.length + 1) R).dropWhile
      fun x => isSymbol e x.1) = (c, P.length) :: sigFrom (P.length + 1) R := by
    rw [List.dropWhile_append_of_pos (by simpa using hA)]
    simp [hsym]
  rw [htw]
  unfold verdict
  simp [hpad]

/-- A significant byte that is not the padding character and comes after a significant byte that is
not a symbol (so: anything but newlines and padding after the first padding character) makes the
text invalid, with the error located at or before it. -/
theorem ref_after_nonsymbol {e : Encoding} (text : Bytes) (i j : Nat) (hij : i < j) (hj : j < text.length)
    (hsym : isSymbol e (text[i]'(by omega)) = false) (hnl : isNewline (text[i]'(by omega)) = false)
    (hnl' : isNewline text[j] = false) (hpad' : isPadding e text[j] = false) :
    ∃ off, refDecode e text = .error off ∧ off ≤ j := by
  have hi : i < text.length := by omega
  unfold refDecode refDecodeSig
  have hmem := mem_significant hi hnl
  have hmem' := mem_significant hj hnl'
  have hsorted : (significant text).Pairwise fun a b => a.2 < b.2 := by
    rw [significant_eq]; exact sigFrom_sorted text 0
  rw [← List.takeWhile_append_dropWhile (p := fun x : UInt8 × Nat => isSymbol e x.1)
    (l := significant text)] at hmem hmem' hsorted
  have hT : (text[i], i) ∈ (significant text).dropWhile fun x => isSymbol e x.1 := by
    rcases List.mem_append.1 hmem with h | h
    · have := mem_takeWhile_sat (fun x : UInt8 × Nat => isSymbol e x.1) _ _ h
      simp only at this; rw [hsym] at this; cases this
    · exact h
  have hT' : (text[j], j) ∈ (significant text).dropWhile fun x => isSymbol e x.1 := by
    rcases List.mem_append.1 hmem' with h | h
    · have := (List.pairwise_append.1 hsorted).2.2 _ h _ hT
      simp only at this; omega
    · exact h
  exact verdict_foreign e text.length _ _ (List.pairwise_append.1 hsorted).2.1 _ _ hT' hpad'

theorem leBytes_length (w n : Nat) : (leBytes w n).length = n := by simp [leBytes]

theorem regroup_length : ∀ D : List Nat, (regroup D).length = D.length * 6 / 8
  | [] => by simp [regroup, leBytes_length]
  | [_] => by simp [regroup, leBytes_length]
  | [_, _] => by simp [regroup, leBytes_length]
  | [_, _, _] => by simp [regroup, leBytes_length]
  | d0 :: d1 :: d2 :: d3 :: rest => by
    rw [regroup_cons4, List.length_append, leBytes_length, regroup_length rest]
    simp only [List.length_cons]; omega

/-- The generic crypt(3) alphabet, unpadded or with `=` padding, strict or not, is well formed. -/
theorem wellFormed_hash (strict : Bool) :
    WellFormed ⟨GoCrypt.Gen.hash.encoder, none, strict⟩ ∧ WellFormed ⟨GoCrypt.Gen.hash.encoder, some 61, strict⟩ := by
  have a := alphabets_ok
  refine ⟨⟨a.2.1.1, a.2.1.2.1, a.2.1.2.2.2.1, a.2.1.2.2.2.2, by simp⟩,
    ⟨a.2.1.1, a.2.1.2.1, a.2.1.2.2.2.1, a.2.1.2.2.2.2, ?_⟩⟩
  intro p hp; simp only [Option.some.injEq] at hp; subst hp
  exact ⟨a.2.1.2.2.1, by decide, by decide⟩

theorem takeWhile_all {α : Type} (p : α → Bool) (l : List α) (h : ∀ x ∈ l, p x = true) :
    l.takeWhile p = l := by
  induction l with
  | nil => rfl
  | cons a l ih =>
    rw [List.takeWhile_cons, if_pos (h a (by simp)), ih (fun x hx => h x (by simp [hx]))]

theorem dropWhile_all {α : Type} (p : α → Bool) (l : List α) (h : ∀ x ∈ l, p x = true) :
    l.dropWhile p = [] := by
  induction l with
  | nil => rfl
  | cons a l ih =>
    rw [List.dropWhile_cons, if_pos (h a (by simp)), ih (fun x hx => h x (by simp [hx]))]

/-- Symbols and newlines only, but the symbols do not fill whole quanta. -/
theorem ref_incomplete {e : Encoding} (wf : WellFormed e) (text : Bytes)
    (hall : ∀ c ∈ text, isSymbol e c = true ∨ isNewline c = true)
    (hk : (text.filter (isSymbol e)).length % 4 = 1 ∨
      (e.pad.isSome = true ∧ (text.filter (isSymbol e)).length % 4 ≠ 0)) :
    refDecode e text = .error (text.length - (text.filter (isSymbol e)).length % 4) := by
  unfold refDecode refDecodeSig
  have hA : ∀ x ∈ significant text, isSymbol e x.1 = true := by
    intro x hx
    have hm : x.1 ∈ (significant text).map (·.1) := List.mem_map.2 ⟨x, hx, rfl⟩
    rw [significant_eq, sigFrom_map_fst] at hm
    obtain ⟨hxP, hxn⟩ := List.mem_filter.1 hm
    rcases hall x.1 hxP with h | h
    · exact h
    · simp [h] at hxn
  have hlen : (significant text).length = (text.filter (isSymbol e)).length := by
    have h1 : (significant text).length = ((significant text).map (·.1)).length := by simp
    rw [h1, significant_eq, sigFrom_map_fst]
    congr 1
    apply List.filter_congr
    intro c hc
    rcases hall c hc with h | h
    · cases hn : isNewline c
      · simp [h]
      · rw [isSymbol_newline wf hn] at h; cases h
    · simp [h, isSymbol_newline wf h]
  rw [takeWhile_all _ _ hA, dropWhile_all _ _ hA]
  unfold verdict
  simp only [List.length_map, hlen]
  rcases hk with hk | ⟨hp, hk⟩
  · simp [hk]
  · simp [hk, hp]

end GoCrypt.Base64LE
