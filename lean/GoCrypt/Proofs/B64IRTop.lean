import GoCrypt.Proofs.B64IRDecodeLoop

/-!
# Buffer IR of `hash/base64le`: the regenerated program as a whole

Calls resolved inside the program (`callIn`), and the two allocating wrappers `EncodeToString` and
`DecodeString`. Helper lemmas only.
-/

namespace GoCrypt.B64IR
open GoCrypt.Base64LE GoCrypt.Gen.base64leIR GoCrypt.Gen.base64le GoCrypt.Spec.Base64Bits

/-! ## Calls inside the program -/

theorem callIn_succ (P : Program) (k : Nat) (f : String) (p : Proc) (h : Heap) (args : List Val)
    (hp : List.lookup f P.procs = some p) : callIn P (k + 1) f h args = execProc { call := callIn P k } p h args := by
  simp [callIn, hp]

theorem lookup_a32 : List.lookup "assemble32" program.procs = some assemble32IR := by rfl
theorem lookup_a64 : List.lookup "assemble64" program.procs = some assemble64IR := by rfl
theorem lookup_dq : List.lookup "Encoding.decodeQuantum" program.procs = some decodeQuantumIR := by rfl
theorem lookup_dec : List.lookup "Encoding.Decode" program.procs = some decodeIR := by rfl
theorem lookup_enc : List.lookup "Encoding.Encode" program.procs = some encodeIR := by rfl
theorem lookup_el : List.lookup "Encoding.EncodedLen" program.procs = some encodedLenIR := by rfl
theorem lookup_dl : List.lookup "Encoding.DecodedLen" program.procs = some decodedLenIR := by rfl
theorem lookup_ds : List.lookup "Encoding.DecodeString" program.procs = some decodeStringIR := by rfl
theorem lookup_es : List.lookup "Encoding.EncodeToString" program.procs = some encodeToStringIR := by rfl

/-- In the regenerated program the callees of `Decode` are their own translations. -/
theorem decCtx_program (k : Nat) (e : Encoding) (hal : e.alphabet.length = 64) (H : Heap) (d dn s : Nat) (src : Buf)
    (hdl : d < H.length) (hs : H[s]? = some src) (hne : d ≠ s) (hsz : src.size < 2 ^ 62) :
    DecCtx { call := callIn program (k + 1) } e H d dn s src where
  a32 := fun h n1 n2 n3 n4 => by
    dsimp only
    rw [callIn_succ program k _ _ _ _ lookup_a32]; exact assemble32_proc _ _ _ _ _ _
  a64 := fun h n1 n2 n3 n4 n5 n6 n7 n8 => by
    dsimp only
    rw [callIn_succ program k _ _ _ _ lookup_a64]; exact assemble64_proc _ _ _ _ _ _ _ _ _ _
  dq := fun D n si hD hn hsi => by
    dsimp only
    rw [callIn_succ program k _ _ _ _ lookup_dq]
    subst hD
    exact decodeQuantum_proc _ e hal (H.set d D) d n s si D src (List.getElem?_set_self hdl)
      (by rw [List.getElem?_set_ne hne]; exact hs) hn hsi hsz

/-! ## `Decode` stays inside `dst` -/

theorem decodeLoop_props (e : Encoding) (src : Buf) :
    ∀ (m si n : Nat) (D : Buf) (phase : Nat), src.size - si = m → n ≤ D.size → si ≤ src.size →
      (decodeLoop e src phase si n D).n ≤ D.size ∧ (decodeLoop e src phase si n D).dst.size = D.size := by
  intro m
  induction m using Nat.strongRecOn with
  | _ m ih =>
    intro si n D phase hm hn hsi
    by_cases hlt : si < src.size
    · cases hstep : decodeStep e src phase si n D with
      | inl r =>
        rw [decodeLoop_stop e src phase si n D r hlt hstep]
        rcases decodeStep_cases e src phase si n D with h | h | ⟨ph, h⟩
        · rw [h.2.2.2.2] at hstep; cases hstep
        · rw [h.2.2.2] at hstep; cases hstep
        · rw [h, viaQ_eq] at hstep
          cases hq : decodeQuantum e D n src si with
          | none => rw [hq] at hstep; cases hstep; exact ⟨hn, rfl⟩
          | some q =>
            have hp := dq_props e D n src si q hn hsi hq
            rw [hq] at hstep
            cases hqe : q.err with
            | none => simp only [hqe] at hstep; cases hstep
            | some off => simp only [hqe] at hstep; cases hstep; exact ⟨hp.2.1, hp.1⟩
      | inr r =>
        obtain ⟨ph, si', n', D'⟩ := r
        have hprops : si' ≤ src.size ∧ n' ≤ D.size ∧ D'.size = D.size := by
          rcases decodeStep_cases e src phase si n D with h | h | ⟨ph0, h⟩
          · rw [h.2.2.2.2] at hstep; cases hstep
            exact ⟨by omega, by omega, writeAt_size _ _ _⟩
          · rw [h.2.2.2] at hstep; cases hstep
            exact ⟨by omega, by omega, writeAt_size _ _ _⟩
          · rw [h] at hstep
            have := viaQ_inr e src si n D ph0 ph si' n' D' hn hlt hstep
            exact ⟨this.2.2.1, this.2.2.2.1, this.2.2.2.2⟩
        by_cases hadv : si < si'
        · rw [Base64LE.loop_step e src phase si n D ph si' n' D' hlt hstep hadv]
          have := ih (src.size - si') (by omega) si' n' D' ph rfl (by omega) hprops.1
          omega
        · rw [decodeLoop]; simp only [hlt, if_true, hstep, hadv, if_false]
          exact ⟨hprops.2.1, hprops.2.2⟩
    · rw [Base64LE.loop_end e src phase si n D (by omega)]
      exact ⟨hn, rfl⟩

/-! ## `EncodeToString` -/

theorem writeAt_zeros (l : List UInt8) : writeAt (Array.replicate l.length 0) 0 l = l.toArray := by
  have := writeAt_append l [] (List.replicate l.length 0) (by simp)
  simpa using this

theorem set_last (H : Heap) (Z W : Buf) : (H ++ [Z]).set H.length W = H ++ [W] := by
  simp

theorem sliceBytes_whole (h : Heap) (b : Nat) (l : List UInt8) (hb : h[b]? = some l.toArray) :
    sliceBytes h ⟨b, 0, l.length, l.length⟩ = some l := by
  simp [sliceBytes, hb]

theorem encodeToString_program (k : Nat) (e : Encoding) (hal : e.alphabet.length = 64) (H : Heap) (s : Nat) (src : Buf)
    (hs : H[s]? = some src) (hsz : src.size < 2 ^ 59) :
    callIn program (k + 2) "Encoding.EncodeToString" H [encVal e, .slice ⟨s, 0, src.size, src.size⟩] =
      .ok (H ++ [(encode e src.toList).toArray], [.str (encode e src.toList)]) := by
  rw [callIn_succ program (k + 1) _ _ _ _ lookup_es, execProc_eq _ encodeToStringIR H _ rfl]
  have hL : (encode e src.toList).length = encodedLen e src.size := by rw [encode_length_eq]; simp
  have hLb : encodedLen e src.size < 2 ^ 62 := by
    simp only [encodedLen, EncodedLen_eq]; split <;> omega
  have hsl : s < H.length := heap_lt_of_get hs
  have h1 : ∀ h, callIn program (k + 1) "Encoding.EncodedLen" h [encVal e, .int (src.size : Nat)] =
      .ok (h, [.int (encodedLen e src.size : Nat)]) := fun h => by
    rw [callIn_succ program k _ _ _ _ lookup_el]; exact encodedLen_proc _ e h src.size (by omega)
  have h2 := encode_proc { call := callIn program k } e hal (H ++ [Array.replicate (encodedLen e src.size) 0]) H.length s
    (Array.replicate (encodedLen e src.size) 0) src (by simp) (by rw [List.getElem?_append_left hsl]; exact hs)
    (by omega) (by simp) (by simpa using hLb)
  rw [← callIn_succ program k _ _ _ _ lookup_enc] at h2
  simp only [Array.size_replicate, encVal] at h2
  simp only [encVal] at h1
  simp only [encodeToStringIR, encVal]
  b64_simp [h1, h2]
  have hW : writeAt (Array.replicate (encodedLen e src.size) 0) 0 (encode e src.toList) = (encode e src.toList).toArray := by
    rw [← hL]; exact writeAt_zeros _
  rw [hW, set_last, ← hL, sliceBytes_whole _ _ _ (by simp)]
  rfl

/-! ## `Decode` inside the program -/

/-- What `Decode` returns for the model's `decode` (the empty text included). -/
theorem decode_program (k : Nat) (e : Encoding) (hal : e.alphabet.length = 64) (H : Heap) (d s : Nat) (dst src : Buf)
    (hd : H[d]? = some dst) (hs : H[s]? = some src) (hne : d ≠ s) (hdz : dst.size < 2 ^ 62) (hsz : src.size < 2 ^ 62) :
    callIn program (k + 2) "Encoding.Decode" H [encVal e, .slice ⟨d, 0, dst.size, dst.size⟩,
        .slice ⟨s, 0, src.size, src.size⟩] =
      if src.size = 0 then .ok (H, [.int 0, .err none]) else ofD H d (decodeLoop e src 0 0 0 dst) := by
  rw [callIn_succ program (k + 1) _ _ _ _ lookup_dec]
  exact decode_proc _ e hal H d s dst src hd hs hne hdz hsz
    (decCtx_program k e hal H d dst.size s src (heap_lt_of_get hd) hs hne hsz)

/-! ## `DecodeString` -/

theorem set_mid (H : Heap) (Z W S : Buf) : (H ++ [Z] ++ [S]).set H.length W = H ++ [W, S] := by
  simp


theorem decodeString_program (k : Nat) (e : Encoding) (hal : e.alphabet.length = 64) (H : Heap) (text : Bytes)
    (hsz : text.length < 2 ^ 59) :
    callIn program (k + 3) "Encoding.DecodeString" H [encVal e, .str text] =
      if (decode e (decodedLen e text.length) text).panic = true then .panic
      else .ok (H ++ [(decode e (decodedLen e text.length) text).dst, text.toArray],
        [.slice ⟨H.length, 0, (decode e (decodedLen e text.length) text).n, decodedLen e text.length⟩,
         errVal (decode e (decodedLen e text.length) text).err]) := by
  rw [callIn_succ program (k + 2) _ _ _ _ lookup_ds, execProc_eq _ decodeStringIR H _ rfl]
  have hLb : decodedLen e text.length ≤ text.length := by
    simp only [decodedLen, DecodedLen_eq]; split <;> omega
  have h1 : ∀ h, callIn program (k + 2) "Encoding.DecodedLen" h [encVal e, .int (text.length : Nat)] =
      .ok (h, [.int (decodedLen e text.length : Nat)]) := fun h => by
    rw [callIn_succ program (k + 1) _ _ _ _ lookup_dl]; exact decodedLen_proc _ e h text.length (by omega)
  have h2 := decode_program k e hal (H ++ [Array.replicate (decodedLen e text.length) 0] ++ [text.toArray]) H.length
    (H.length + 1) (Array.replicate (decodedLen e text.length) 0) text.toArray (by simp) (by simp) (by omega)
    (by simp; omega) (by simp; omega)
  have hprops := decodeLoop_props e text.toArray (text.toArray.size - 0) 0 0 (Array.replicate (decodedLen e text.length) 0) 0
    rfl (by simp) (by simp)
  simp only [Array.size_replicate, List.size_toArray, encVal] at h2 hprops
  simp only [encVal] at h1
  simp only [decodeStringIR, encVal]
  by_cases hempty : text = []
  · subst hempty
    simp only [List.length_nil, if_true] at h2 h1 hprops ⊢
    simp only [Int.cast_ofNat_Int] at h1
    b64_simp [h1, h2, List.length_append]
    have hz : decodedLen e 0 = 0 := by simp only [decodedLen, DecodedLen_eq]; split <;> rfl
    simp [decode, errVal, hz]
  · have hne0 : ¬ text.length = 0 := fun h => hempty (List.eq_nil_of_length_eq_zero h)
    simp only [hne0, if_false] at h2
    have hdec : decode e (decodedLen e text.length) text =
        decodeLoop e text.toArray 0 0 0 (Array.replicate (decodedLen e text.length) 0) := by
      simp [decode, hempty]
    rw [hdec]
    cases hpan : (decodeLoop e text.toArray 0 0 0 (Array.replicate (decodedLen e text.length) 0)).panic
    · simp only [ofD, hpan, Bool.false_eq_true, if_false] at h2
      simp only [errVal] at h2 ⊢
      b64_simp [h1, h2, List.length_append, Nat.sub_zero, set_mid]
      rfl
    · simp only [ofD, hpan, if_true] at h2
      b64_simp [h1, h2, List.length_append]
      rfl


end GoCrypt.B64IR
